package pure

import (
	clienttypes "github.com/cosmos/ibc-go/v11/modules/core/02-client/types"
	channeltypes "github.com/cosmos/ibc-go/v11/modules/core/04-channel/types"

	"verif/harness/hx"
)

func hj(h clienttypes.Height) []string {
	return []string{hx.U(h.RevisionNumber), hx.U(h.RevisionHeight)}
}

func genHeight(r *hx.Rng, near ...clienttypes.Height) clienttypes.Height {
	var nr, nh []uint64
	for _, n := range near {
		nr = append(nr, n.RevisionNumber)
		nh = append(nh, n.RevisionHeight)
	}
	return clienttypes.NewHeight(r.U64B(nr...), r.U64B(nh...))
}

// famC17 drives Height.Compare/LT/LTE/GT/GTE/EQ, String, ParseHeight, Timeout.Elapsed.
func famC17(r *hx.Rng, o *hx.Out) {
	n := hx.N(400, 20000)
	for i := 0; i < n; i++ {
		a := genHeight(r)
		b := genHeight(r, a)
		o.Emit("height_cmp", [][]string{hj(a), hj(b)},
			[]any{a.Compare(b), a.LT(b), a.LTE(b), a.GT(b), a.GTE(b), a.EQ(b), a.IsZero()})
	}
	for i := 0; i < n/2; i++ {
		a := genHeight(r)
		s := a.String()
		o.Emit("height_str", hj(a), hx.HS(s))
		back, err := clienttypes.ParseHeight(s)
		var res any
		if err == nil {
			res = hj(back)
		}
		o.Emit("height_parse", hx.HS(s), res, "formatted")
	}
	// parse: mostly-valid strings with one defect, plus malformed
	digits := "0123456789"
	for i := 0; i < n/2; i++ {
		var s string
		tag := ""
		switch r.Intn(8) {
		case 0:
			s = r.Str(digits, 1, 21) + "-" + r.Str(digits, 1, 21)
			tag = "digits"
		case 1:
			s = "18446744073709551615-18446744073709551616"
			tag = "overflow"
		case 2:
			s = r.Str(digits, 0, 3) + "-" + r.Str(digits, 0, 3)
			tag = "maybe-empty"
		case 3:
			s = r.Str(digits+"-", 0, 8)
			tag = "dashes"
		case 4:
			s = "0" + r.Str(digits, 1, 19) + "-00" + r.Str(digits, 0, 5)
			tag = "leading-zero"
		case 5:
			s = r.Str(digits+"+-_ xX", 1, 10)
			tag = "junk"
		case 6:
			s = "+" + r.Str(digits, 1, 5) + "-" + r.Str(digits, 1, 5)
			tag = "sign"
		default:
			s = hx.U(r.U64B()) + "-" + hx.U(r.U64B())
			tag = "valid"
		}
		back, err := clienttypes.ParseHeight(s)
		var res any
		if err == nil {
			res = hj(back)
		}
		o.Emit("height_parse", hx.HS(s), res, tag)
	}
	for i := 0; i < n; i++ {
		th := genHeight(r)
		if r.Chance(1, 4) {
			th = clienttypes.ZeroHeight()
		}
		tts := r.U64B()
		if r.Chance(1, 4) {
			tts = 0
		}
		h := genHeight(r, th)
		ts := r.U64B(tts)
		t := channeltypes.NewTimeout(th, tts)
		o.Emit("elapsed", []any{hj(th), hx.U(tts), hj(h), hx.U(ts)}, []any{t.Elapsed(h, ts), t.IsValid(), t.TimestampElapsed(ts)})
	}
}
