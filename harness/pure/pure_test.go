package pure

import (
	"testing"

	"verif/harness/hx"
)

// TestFamily writes the trace of the `pure` scenario family.
func TestFamily(t *testing.T) {
	r := hx.NewRng("pure")
	o := hx.NewOut()
	defer o.Close()
	famC17(r, o)
	t.Logf("records=%d", o.Count())
}
