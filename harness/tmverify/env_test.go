package tmverify

import (
	"crypto/sha256"
	"math/big"
	"sort"
	"strconv"
	"strings"
	"testing"
	"time"

	sdk "github.com/cosmos/cosmos-sdk/types"

	clienttypes "github.com/cosmos/ibc-go/v11/modules/core/02-client/types"
	commitmenttypes "github.com/cosmos/ibc-go/v11/modules/core/23-commitment/types"
	"github.com/cosmos/ibc-go/v11/modules/core/exported"
	ibckeeper "github.com/cosmos/ibc-go/v11/modules/core/keeper"
	ibctm "github.com/cosmos/ibc-go/v11/modules/light-clients/07-tendermint"
	ibctesting "github.com/cosmos/ibc-go/v11/testing"

	"verif/harness/hx"
)

// env is one coordinator with three chains: every modelled client lives on chain A and tracks B (or C).
type env struct {
	t     *testing.T
	coord *ibctesting.Coordinator
	A, B  *ibctesting.TestChain
	C     *ibctesting.TestChain
}

func newEnv(t *testing.T) *env {
	coord := ibctesting.NewCoordinator(t, 3)
	return &env{
		t: t, coord: coord,
		A: coord.GetChain(ibctesting.GetChainID(1)),
		B: coord.GetChain(ibctesting.GetChainID(2)),
		C: coord.GetChain(ibctesting.GetChainID(3)),
	}
}

func (e *env) ibc() *ibckeeper.Keeper { return e.A.App.GetIBCKeeper() }

// at returns chain A's deliver context with the given block time and height.
func (e *env) at(now time.Time, height int64) sdk.Context {
	return e.A.GetContext().WithBlockTime(now).WithBlockHeight(height)
}

// ns renders a time as nanoseconds since the Unix epoch (exact, also outside the int64 range).
func ns(t time.Time) string {
	x := new(big.Int).Mul(big.NewInt(t.Unix()), big.NewInt(1_000_000_000))
	x.Add(x, big.NewInt(int64(t.Nanosecond())))
	return x.String()
}

func i64(x int64) string { return strconv.FormatInt(x, 10) }

func hj(h clienttypes.Height) []string {
	return []string{hx.U(h.RevisionNumber), hx.U(h.RevisionHeight)}
}

func eh(h exported.Height) []string {
	return []string{hx.U(h.GetRevisionNumber()), hx.U(h.GetRevisionHeight())}
}

// cidNum: "07-tendermint-12" -> "12" (sequence numbers are unique over all client types)
func cidNum(id string) string { return id[strings.LastIndex(id, "-")+1:] }

type consJ struct {
	H    []string `json:"h"`
	Ts   string   `json:"ts"`
	Root string   `json:"root"`
	Nvh  string   `json:"nvh"`
	Pt   *string  `json:"pt"`
	Ph   []string `json:"ph"`
	It   *string  `json:"it,omitempty"` // value stored under the iteration key of this height
}

type clientJ struct {
	ID    string   `json:"id"`
	Ty    string   `json:"ty"`
	Chain string   `json:"chain,omitempty"`
	Tl    []string `json:"tl,omitempty"`
	Tp    string   `json:"tp,omitempty"`
	Ub    string   `json:"ub,omitempty"`
	Dr    string   `json:"dr,omitempty"`
	Fz    []string `json:"fz,omitempty"`
	Lt    []string `json:"lt,omitempty"`
	Specs string   `json:"specs"`
	Up    []string `json:"up"`
	Cons  []consJ  `json:"cons"`
}

func specsID(cs *ibctm.ClientState) string {
	if len(cs.ProofSpecs) == 0 {
		return ""
	}
	h := sha256.New()
	for _, s := range cs.ProofSpecs {
		bz, _ := s.Marshal()
		h.Write([]byte{byte(len(bz))})
		h.Write(bz)
	}
	return hx.H(h.Sum(nil)[:6])
}

// projState projects a tendermint client state value (no store access).
func projState(id string, cs *ibctm.ClientState) clientJ {
	up := []string{}
	for _, k := range cs.UpgradePath {
		up = append(up, hx.HS(k))
	}
	return clientJ{
		ID: id, Ty: "tm", Chain: hx.HS(cs.ChainId),
		Tl: []string{hx.U(cs.TrustLevel.Numerator), hx.U(cs.TrustLevel.Denominator)},
		Tp: i64(int64(cs.TrustingPeriod)), Ub: i64(int64(cs.UnbondingPeriod)), Dr: i64(int64(cs.MaxClockDrift)),
		Fz: hj(cs.FrozenHeight), Lt: hj(cs.LatestHeight), Specs: specsID(cs), Up: up, Cons: []consJ{},
	}
}

func projCons(h []string, c *ibctm.ConsensusState) consJ {
	return consJ{H: h, Ts: ns(c.Timestamp), Root: hx.H(c.Root.GetHash()), Nvh: hx.H(c.NextValidatorsHash)}
}

// projClient reads the full projected state of a client of chain A from its store.
func (e *env) projClient(ctx sdk.Context, clientID string) clientJ {
	k := e.ibc().ClientKeeper
	st, found := k.GetClientState(ctx, clientID)
	num := cidNum(clientID)
	if !found {
		return clientJ{ID: num, Ty: "none"}
	}
	cs, ok := st.(*ibctm.ClientState)
	if !ok {
		return clientJ{ID: num, Ty: "other"}
	}
	out := projState(num, cs)
	store := k.ClientStore(ctx, clientID)
	for _, ccs := range k.GetAllConsensusStates(ctx) {
		if ccs.ClientId != clientID {
			continue
		}
		for _, c := range ccs.ConsensusStates {
			tmc, err := clienttypes.UnpackConsensusState(c.ConsensusState)
			if err != nil {
				panic(err)
			}
			cj := projCons(hj(c.Height), tmc.(*ibctm.ConsensusState))
			if pt, ok := ibctm.GetProcessedTime(store, c.Height); ok {
				s := hx.U(pt)
				cj.Pt = &s
			}
			if ph, ok := ibctm.GetProcessedHeight(store, c.Height); ok {
				cj.Ph = eh(ph)
			}
			if it := ibctm.GetIterationKey(store, c.Height); it != nil {
				v := hx.H(it)
				cj.It = &v
			}
			out.Cons = append(out.Cons, cj)
		}
	}
	sort.Slice(out.Cons, func(i, j int) bool {
		a, _ := strconv.ParseUint(out.Cons[i].H[0], 10, 64)
		b, _ := strconv.ParseUint(out.Cons[j].H[0], 10, 64)
		if a != b {
			return a < b
		}
		c, _ := strconv.ParseUint(out.Cons[i].H[1], 10, 64)
		d, _ := strconv.ParseUint(out.Cons[j].H[1], 10, 64)
		return c < d
	})
	return out
}

// brief is the per-operation observation of one client: [id, status, latest, frozen] followed by what the
// monitors need to re-evaluate the status formula: timestamp of the latest consensus state (or null) and
// the trusting period.
func (e *env) brief(ctx sdk.Context, clientID string) []any {
	k := e.ibc().ClientKeeper
	st, _ := k.GetClientState(ctx, clientID)
	cs := st.(*ibctm.ClientState)
	var lts any
	if c := e.consAt(ctx, clientID, cs.LatestHeight); c != nil {
		lts = ns(c.Timestamp)
	}
	return []any{cidNum(clientID), string(k.GetClientStatus(ctx, clientID)), hj(cs.LatestHeight), hj(cs.FrozenHeight),
		lts, i64(int64(cs.TrustingPeriod))}
}

// tmState returns the stored tendermint client state.
func (e *env) tmState(ctx sdk.Context, clientID string) *ibctm.ClientState {
	st, found := e.ibc().ClientKeeper.GetClientState(ctx, clientID)
	if !found {
		return nil
	}
	cs, _ := st.(*ibctm.ClientState)
	return cs
}

func (e *env) consAt(ctx sdk.Context, clientID string, h clienttypes.Height) *ibctm.ConsensusState {
	c, found := e.ibc().ClientKeeper.GetClientConsensusState(ctx, clientID, h)
	if !found {
		return nil
	}
	return c.(*ibctm.ConsensusState)
}

// memOK calls the real 23-commitment verification (the oracle the model is parametric in).
func (e *env) memOK(cs *ibctm.ClientState, proof []byte, root []byte, path [][]byte, value []byte) bool {
	var mp commitmenttypes.MerkleProof
	if err := e.A.App.AppCodec().Unmarshal(proof, &mp); err != nil {
		return false
	}
	ok := false
	hx.Catch(func() {
		ok = mp.VerifyMembership(cs.ProofSpecs, commitmenttypes.NewMerkleRoot(root), commitmenttypes.NewMerklePath(path...), value) == nil
	})
	return ok
}

func (e *env) nonOK(cs *ibctm.ClientState, proof []byte, root []byte, path [][]byte) bool {
	var mp commitmenttypes.MerkleProof
	if err := e.A.App.AppCodec().Unmarshal(proof, &mp); err != nil {
		return false
	}
	ok := false
	hx.Catch(func() {
		ok = mp.VerifyNonMembership(cs.ProofSpecs, commitmenttypes.NewMerkleRoot(root), commitmenttypes.NewMerklePath(path...)) == nil
	})
	return ok
}

func hexPath(path [][]byte) []string {
	out := []string{}
	for _, p := range path {
		out = append(out, hx.H(p))
	}
	return out
}

// roundTrip sends a client message through its protobuf encoding, as a transaction would.
func (e *env) roundTrip(clientID string, m exported.ClientMessage) exported.ClientMessage {
	msg, err := clienttypes.NewMsgUpdateClient(clientID, m, e.A.SenderAccount.GetAddress().String())
	if err != nil {
		panic(err)
	}
	cdc := e.A.App.AppCodec()
	bz, err := cdc.Marshal(msg)
	if err != nil {
		panic(err)
	}
	var back clienttypes.MsgUpdateClient
	if err := cdc.Unmarshal(bz, &back); err != nil {
		panic(err)
	}
	cm, err := clienttypes.UnpackClientMessage(back.ClientMessage)
	if err != nil {
		panic(err)
	}
	return cm
}

func outcome(f func() error) string {
	var err error
	panicked, _ := hx.Catch(func() { err = f() })
	switch {
	case panicked:
		return "panic"
	case err != nil:
		return "err"
	}
	return "ok"
}
