package tmverify

import (
	"time"

	"github.com/cometbft/cometbft/crypto/tmhash"
	cmtproto "github.com/cometbft/cometbft/proto/tendermint/types"
	cmtprotoversion "github.com/cometbft/cometbft/proto/tendermint/version"
	cmttypes "github.com/cometbft/cometbft/types"
	cmtversion "github.com/cometbft/cometbft/version"

	clienttypes "github.com/cosmos/ibc-go/v11/modules/core/02-client/types"
	ibctm "github.com/cosmos/ibc-go/v11/modules/light-clients/07-tendermint"
	ibctesting "github.com/cosmos/ibc-go/v11/testing"
)

var unusedHash = tmhash.Sum([]byte{0x00})

// hdrSpec describes a header to be signed; mkHeader is ibctesting.CreateTMClientHeader with every field free.
type hdrSpec struct {
	ChainID     string
	Height      int64
	Trusted     clienttypes.Height
	Time        time.Time
	AppHash     []byte
	Vals        *cmttypes.ValidatorSet
	NextVals    *cmttypes.ValidatorSet
	TrustedVals *cmttypes.ValidatorSet
	Signers     map[string]cmttypes.PrivValidator
}

func valsProto(v *cmttypes.ValidatorSet) *cmtproto.ValidatorSet {
	if v == nil {
		return nil
	}
	p, err := v.ToProto()
	if err != nil {
		panic(err)
	}
	p.TotalVotingPower = v.TotalVotingPower()
	return p
}

func mkHeader(s hdrSpec) *ibctm.Header {
	proposed := cmttypes.Header{
		Version:            cmtprotoversion.Consensus{Block: cmtversion.BlockProtocol, App: 2},
		ChainID:            s.ChainID,
		Height:             s.Height,
		Time:               s.Time,
		LastBlockID:        ibctesting.MakeBlockID(make([]byte, tmhash.Size), 10_000, make([]byte, tmhash.Size)),
		LastCommitHash:     unusedHash,
		DataHash:           unusedHash,
		ValidatorsHash:     s.Vals.Hash(),
		NextValidatorsHash: s.NextVals.Hash(),
		ConsensusHash:      unusedHash,
		AppHash:            s.AppHash,
		LastResultsHash:    unusedHash,
		EvidenceHash:       unusedHash,
		ProposerAddress:    s.Vals.Proposer.Address,
	}
	sh, err := ibctesting.CommitHeader(proposed, s.Vals, s.Signers)
	if err != nil {
		panic(err)
	}
	return &ibctm.Header{
		SignedHeader:      sh,
		ValidatorSet:      valsProto(s.Vals),
		TrustedHeight:     s.Trusted,
		TrustedValidators: valsProto(s.TrustedVals),
	}
}

// realHeader is chain c's latest committed header with the trusted fields filled in.
func realHeader(c *ibctesting.TestChain, trusted clienttypes.Height) *ibctm.Header {
	h := *c.LatestCommittedHeader
	h.TrustedHeight = trusted
	h.TrustedValidators = valsProto(c.Vals)
	return &h
}
