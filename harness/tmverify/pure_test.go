package tmverify

import (
	"math"
	"time"

	clienttypes "github.com/cosmos/ibc-go/v11/modules/core/02-client/types"
	commitmenttypes "github.com/cosmos/ibc-go/v11/modules/core/23-commitment/types"
	ibctm "github.com/cosmos/ibc-go/v11/modules/light-clients/07-tendermint"
	ibctesting "github.com/cosmos/ibc-go/v11/testing"

	"verif/harness/hx"
)

// famChainID: IsRevisionFormat / ParseChainID / SetRevisionNumber on generated chain identifiers.
func famChainID(r *hx.Rng, o *hx.Out) {
	fixed := []string{"testchain1-1", "testchain2-2", "testchain", "a-1", "-1", "a--1", "a-01", "a-0", "a-10", "a-1-", "a-b-3",
		"a\n-1", "a-1\n", "\n-1", "a-\n1", "", "-", "1", "x-18446744073709551615", "x-18446744073709551616",
		"x-99999999999999999999999", "cosmoshub-4", "a b-7", "é-2", "a-１", "--", "a-1-2", "a--", "-a-5", "a-5x", "a-+5"}
	emit := func(s, tag string) {
		var rev any
		isrev := clienttypes.IsRevisionFormat(s)
		var n uint64
		if p, _ := hx.Catch(func() { n = clienttypes.ParseChainID(s) }); !p {
			rev = hx.U(n)
		}
		var set any
		if s2, err := clienttypes.SetRevisionNumber(s, 7); err == nil {
			set = hx.HS(s2)
		}
		o.Emit("chainid", hx.HS(s), []any{isrev, rev, set}, tag)
	}
	for _, s := range fixed {
		emit(s, "fixed")
	}
	n := hx.N(150, 2000)
	for i := 0; i < n; i++ {
		switch r.Intn(3) {
		case 0:
			emit(r.Str("ab-", 0, 5)+"-"+r.Str("0123456789", 0, 4), "shaped")
		case 1:
			emit(r.Str("a-1\n0", 0, 7), "alphabet")
		default:
			emit(r.Str("abc", 1, 4)+"-"+hx.U(r.U64B()), "valid")
		}
	}
}

// famNewTrusting: calculateNewTrustingPeriod (LegacyDec arithmetic) through the verif hook.
func famNewTrusting(r *hx.Rng, o *hx.Out) {
	emit := func(t, ou, nu int64, tag string) {
		var out any
		var res time.Duration
		if p, _ := hx.Catch(func() {
			res = ibctm.VerifVCalculateNewTrustingPeriod(time.Duration(t), time.Duration(ou), time.Duration(nu))
		}); !p {
			out = i64(int64(res))
		}
		o.Emit("newtrusting", []string{i64(t), i64(ou), i64(nu)}, out, tag)
	}
	day := int64(24 * time.Hour)
	emit(14*day, 21*day, 14*day, "typical")
	emit(14*day, 21*day, 7*day, "typical")
	emit(1, 3, 2, "tiny")
	emit(2, 3, 2, "tiny")
	emit(5, 2, 1, "half")
	emit(7, 2, 1, "half")
	emit(1, 0, 1, "zero-divisor")
	emit(math.MaxInt64, math.MaxInt64, math.MaxInt64-1, "max")
	emit(math.MaxInt64, 1, math.MaxInt64, "overflow")
	emit(math.MaxInt64-1, math.MaxInt64, math.MaxInt64-1, "max")
	emit(3_000_000_000_000_000_000, 4_000_000_000_000_000_000, 3_999_999_999_999_999_999, "round-up")
	emit(-5, 3, 2, "negative")
	emit(5, -3, 2, "negative")
	emit(5, 3, -2, "negative")
	n := hx.N(300, 4000)
	for i := 0; i < n; i++ {
		ou := int64(r.U64B() >> 1)
		if ou == 0 {
			ou = 1
		}
		var nu, t int64
		switch r.Intn(4) {
		case 0: // realistic: weeks in nanoseconds
			ou = day * int64(1+r.Intn(60))
			nu = ou - int64(r.Intn(int(ou)))
			t = ou * int64(1+r.Intn(99)) / 100
			emit(t, ou, nu, "realistic")
		case 1: // huge unbonding periods where banker's rounding can round up to the next integer
			ou = int64(2_000_000_000_000_000_000 + r.U64()%7_000_000_000_000_000_000)
			nu = ou - 1 - int64(r.Intn(3))
			t = ou - int64(r.Intn(5))
			emit(t, ou, nu, "huge")
		case 2:
			nu = int64(r.U64B() >> 1)
			t = int64(r.U64B() >> 1)
			emit(t, ou, nu, "random")
		default: // small values: exact halves
			ou = int64(1 + r.Intn(12))
			nu = int64(r.Intn(12))
			t = int64(r.Intn(40))
			emit(t, ou, nu, "small")
		}
	}
}

// famStatus: LightClientModule.Status on crafted stored states (frozen with and without consensus state,
// missing latest consensus state, clock at the boundary).
func famStatus(e *env, r *hx.Rng, o *hx.Out) {
	w := e.newWorld(ibctesting.NewTendermintConfig(), ibctesting.NewTendermintConfig(), false)
	k := e.ibc().ClientKeeper
	n := hx.N(120, 1000)
	for i := 0; i < n; i++ {
		base, _ := e.A.GetContext().CacheContext()
		s := e.tmState(base, w.cid1)
		lat := s.LatestHeight
		tag := ""
		switch r.Intn(6) {
		case 0:
			s.FrozenHeight = ibctm.FrozenHeight
			tag = "frozen"
		case 1:
			s.FrozenHeight = clienttypes.NewHeight(r.U64B(), r.U64B())
			tag = "frozen-any"
		case 2:
			s.LatestHeight = clienttypes.NewHeight(lat.RevisionNumber, lat.RevisionHeight+uint64(1+r.Intn(3)))
			tag = "latest-missing"
		case 3:
			s.FrozenHeight = ibctm.FrozenHeight
			s.LatestHeight = clienttypes.NewHeight(lat.RevisionNumber, lat.RevisionHeight+1)
			tag = "frozen+missing"
		default:
			tag = "clock"
		}
		s.TrustingPeriod = time.Duration(1 + r.U64B()%uint64(1000*24*time.Hour))
		k.SetClientState(base, w.cid1, s)
		ts := e.consAt(base, w.cid1, lat).Timestamp
		exp := ts.Add(s.TrustingPeriod)
		now := exp.Add(time.Duration(int64(r.Intn(5)) - 2))
		if r.Chance(1, 4) {
			now = ts.Add(time.Duration(r.U64B() % uint64(2000*24*time.Hour)))
		}
		ctx := base.WithBlockTime(now)
		st := string(k.GetClientStatus(ctx, w.cid1))
		o.Emit("status", map[string]any{"c": e.projClient(ctx, w.cid1), "now": ns(now)}, st, tag)
	}
}

// famMatch: IsMatchingClientState on pairs differing in one field.
func famMatch(r *hx.Rng, o *hx.Out) {
	mk := func() ibctm.ClientState {
		return *ibctm.NewClientState("testchain2-1", ibctm.DefaultTrustLevel, ibctesting.TrustingPeriod, ibctesting.UnbondingPeriod,
			ibctesting.MaxClockDrift, clienttypes.NewHeight(1, 10), commitmenttypes.GetSDKSpecs(), ibctesting.UpgradePath)
	}
	fields := []string{"none", "chain", "tl-num", "tl-den", "trusting", "unbonding", "drift", "frozen", "latest", "specs", "specs-empty",
		"upath", "upath-order", "upath-empty", "flags"}
	n := hx.N(60, 600)
	for i := 0; i < n; i++ {
		a, b := mk(), mk()
		f := fields[i%len(fields)]
		switch f {
		case "chain":
			b.ChainId = "other-9"
		case "tl-num":
			b.TrustLevel.Numerator = 2
		case "tl-den":
			b.TrustLevel.Denominator = 4
		case "trusting":
			b.TrustingPeriod += time.Duration(1 + r.Intn(1000))
		case "unbonding":
			b.UnbondingPeriod += time.Duration(1 + r.Intn(1000))
		case "drift":
			b.MaxClockDrift -= time.Duration(1 + r.Intn(1000))
		case "frozen":
			b.FrozenHeight = ibctm.FrozenHeight
		case "latest":
			b.LatestHeight = clienttypes.NewHeight(r.U64B(), r.U64B())
		case "specs":
			b.ProofSpecs = b.ProofSpecs[:1]
		case "specs-empty":
			b.ProofSpecs = nil
		case "upath":
			b.UpgradePath = []string{"upgrade", "x"}
		case "upath-order":
			b.UpgradePath = []string{"upgradedIBCState", "upgrade"}
		case "upath-empty":
			b.UpgradePath = nil
		case "flags":
			b.AllowUpdateAfterExpiry = true
			a.AllowUpdateAfterMisbehaviour = true
		}
		if r.Bool() {
			a, b = b, a
		}
		o.Emit("match", []any{projState("1", &a), projState("2", &b)}, ibctm.IsMatchingClientState(a, b), f)
	}
}
