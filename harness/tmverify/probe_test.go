package tmverify

import (
	"testing"

	clienttypes "github.com/cosmos/ibc-go/v11/modules/core/02-client/types"
	ibctm "github.com/cosmos/ibc-go/v11/modules/light-clients/07-tendermint"
	ibctesting "github.com/cosmos/ibc-go/v11/testing"

	"verif/harness/hx"
)

// TestProbeRecoverOtherType replays (outside the family trace) what MsgRecoverClient does when the substitute
// is a client of another type: run with -test.run TestProbeRecoverOtherType -test.v.
func TestProbeRecoverOtherType(t *testing.T) {
	e := newEnv(t)
	w := e.newWorld(ibctesting.NewTendermintConfig(), ibctesting.NewTendermintConfig(), false)
	ctx := e.A.GetContext()
	s := e.tmState(ctx, w.cid1)
	s.FrozenHeight = ibctm.FrozenHeight
	e.ibc().ClientKeeper.SetClientState(ctx, w.cid1, s)
	solo := ibctesting.NewSolomachine(t, e.A.Codec, "solomachine", "", 1)
	soloID := solo.CreateClient(e.A)
	msg := clienttypes.NewMsgRecoverClient(e.ibc().GetAuthority(), w.cid1, soloID)
	if err := msg.ValidateBasic(); err != nil {
		t.Fatalf("ValidateBasic: %v", err)
	}
	var err error
	panicked, pmsg := hx.Catch(func() { _, err = e.ibc().RecoverClient(e.A.GetContext(), msg) })
	t.Logf("subject=%s substitute=%s panicked=%v panic=%q err=%v", w.cid1, soloID, panicked, pmsg, err)
}
