package tmverify

import (
	"time"

	upgradetypes "github.com/cosmos/cosmos-sdk/x/upgrade/types"

	clienttypes "github.com/cosmos/ibc-go/v11/modules/core/02-client/types"
	channeltypes "github.com/cosmos/ibc-go/v11/modules/core/04-channel/types"
	commitmenttypes "github.com/cosmos/ibc-go/v11/modules/core/23-commitment/types"
	host "github.com/cosmos/ibc-go/v11/modules/core/24-host"
	ibctm "github.com/cosmos/ibc-go/v11/modules/light-clients/07-tendermint"
	ibctesting "github.com/cosmos/ibc-go/v11/testing"

	"verif/harness/hx"
)

// world is a set of clients on chain A created for one history.
type world struct {
	e     *env
	p1    *ibctesting.Path // full path A<->B (client, connection, channel) — client cid1
	p2    *ibctesting.Path // clients only — client cid2 (substitute / bystander)
	cid1  string
	cid2  string
	pkts  []channeltypes.Packet // packets B sent on p1's channel, not yet received on A
	hdrs  []*ibctm.Header       // headers accepted so far (for duplicates)
	realH []clienttypes.Height  // heights of real B headers given to cid1
}

func cfg(r *hx.Rng) *ibctesting.TendermintConfig {
	c := ibctesting.NewTendermintConfig()
	switch r.Intn(4) {
	case 0:
		c.TrustingPeriod = time.Duration(1+r.Intn(48)) * time.Hour
	case 1:
		c.TrustingPeriod = time.Duration(60+r.Intn(3600))*time.Second + time.Duration(r.Intn(1000))
	}
	return c
}

func (e *env) newWorld(c1, c2 *ibctesting.TendermintConfig, full bool) *world {
	p1 := ibctesting.NewPath(e.A, e.B)
	p1.EndpointA.ClientConfig = c1
	if full {
		p1.Setup()
	} else {
		p1.SetupClients()
	}
	p2 := ibctesting.NewPath(e.A, e.B)
	p2.EndpointA.ClientConfig = c2
	p2.SetupClients()
	return &world{e: e, p1: p1, p2: p2, cid1: p1.EndpointA.ClientID, cid2: p2.EndpointA.ClientID}
}

// bSend lets chain B really send n packets to A on p1's channel and commits them.
func (w *world) bSend(n int) {
	for i := 0; i < n; i++ {
		seq, err := w.p1.EndpointB.SendPacket(clienttypes.NewHeight(1, 1_000_000_000), 0, []byte("from-b"))
		if err != nil {
			panic(err)
		}
		w.pkts = append(w.pkts, channeltypes.NewPacket([]byte("from-b"), seq, w.p1.EndpointB.ChannelConfig.PortID, w.p1.EndpointB.ChannelID,
			w.p1.EndpointA.ChannelConfig.PortID, w.p1.EndpointA.ChannelID, clienttypes.NewHeight(1, 1_000_000_000), 0))
	}
	w.e.coord.CommitBlock(w.e.B)
}

func (w *world) latest(h *hist, cid string) clienttypes.Height {
	return w.e.tmState(h.ctx(), cid).LatestHeight
}

// updReal: chain B commits a block and its header is given to client cid.
func (w *world) updReal(h *hist, cid string) string {
	w.e.coord.CommitBlock(w.e.B)
	hdr := realHeader(w.e.B, w.latest(h, cid))
	if !hdr.GetTime().Before(h.now) { // chain A's clock keeps up with chain B's
		h.advance(hdr.GetTime().Sub(h.now)+time.Second, 1)
	}
	res := h.update(cid, hdr)
	if res == "ok" {
		w.hdrs = append(w.hdrs, hdr)
		if cid == w.cid1 {
			w.realH = append(w.realH, hdr.GetHeight().(clienttypes.Height))
		}
	}
	return res
}

// fab: a header signed by B's validators for an arbitrary height/time/app hash, trusted at height tr.
func (w *world) fab(height uint64, tr clienttypes.Height, t time.Time, app []byte) *ibctm.Header {
	return mkHeader(hdrSpec{ChainID: w.e.B.ChainID, Height: int64(height), Trusted: tr, Time: t, AppHash: app,
		Vals: w.e.B.Vals, NextVals: w.e.B.NextVals, TrustedVals: w.e.B.Vals, Signers: w.e.B.Signers})
}

func (w *world) latestTs(h *hist, cid string) time.Time {
	cs := w.e.tmState(h.ctx(), cid)
	c := w.e.consAt(h.ctx(), cid, cs.LatestHeight)
	if c == nil {
		return h.now
	}
	return c.Timestamp
}

// dependent: one operation that uses client cid1, chosen by k.
func (w *world) dependent(h *hist, k int) {
	e := w.e
	switch k % 7 {
	case 0:
		h.send(w.cid1, w.p1.EndpointA)
	case 1:
		h.connInit(w.cid1)
	case 2:
		h.chanInit(w.cid1, w.p1.EndpointA)
	case 3: // membership of a packet commitment through the keeper
		if len(w.pkts) == 0 || len(w.realH) == 0 {
			h.connInit(w.cid1)
			return
		}
		pkt := w.pkts[h.r.Intn(len(w.pkts))]
		ph := w.realH[len(w.realH)-1]
		key := host.PacketCommitmentKey(pkt.SourcePort, pkt.SourceChannel, pkt.Sequence)
		proof, _ := e.B.QueryProofAtHeight(key, int64(ph.RevisionHeight))
		h.verifyMem(w.cid1, ph, proof, key, channeltypes.CommitPacket(pkt))
	case 4: // real packet relay
		if len(w.pkts) == 0 || len(w.realH) == 0 {
			h.chanInit(w.cid1, w.p1.EndpointA)
			return
		}
		pkt := w.pkts[0]
		ph := w.realH[len(w.realH)-1]
		key := host.PacketCommitmentKey(pkt.SourcePort, pkt.SourceChannel, pkt.Sequence)
		proof, _ := e.B.QueryProofAtHeight(key, int64(ph.RevisionHeight))
		if h.recv(w.cid1, pkt, proof, ph) == "ok" {
			w.pkts = w.pkts[1:]
		}
	case 5: // absence of a receipt on B
		if len(w.realH) == 0 {
			h.send(w.cid1, w.p1.EndpointA)
			return
		}
		ph := w.realH[len(w.realH)-1]
		key := host.PacketReceiptKey(w.p1.EndpointB.ChannelConfig.PortID, w.p1.EndpointB.ChannelID, 77)
		proof, _ := e.B.QueryProofAtHeight(key, int64(ph.RevisionHeight))
		h.verifyNon(w.cid1, ph, proof, key)
	case 6: // failing proofs: wrong value, height above latest, height without consensus state
		if len(w.pkts) == 0 || len(w.realH) == 0 {
			h.connInit(w.cid1)
			return
		}
		pkt := w.pkts[0]
		ph := w.realH[len(w.realH)-1]
		key := host.PacketCommitmentKey(pkt.SourcePort, pkt.SourceChannel, pkt.Sequence)
		proof, _ := e.B.QueryProofAtHeight(key, int64(ph.RevisionHeight))
		switch h.r.Intn(4) {
		case 0:
			h.verifyMem(w.cid1, ph, proof, key, []byte("not the commitment"))
		case 1:
			lt := w.latest(h, w.cid1)
			h.verifyMem(w.cid1, clienttypes.NewHeight(lt.RevisionNumber, lt.RevisionHeight+1), proof, key, channeltypes.CommitPacket(pkt))
		case 2:
			h.verifyMem(w.cid1, clienttypes.NewHeight(ph.RevisionNumber, ph.RevisionHeight-1), proof, key, channeltypes.CommitPacket(pkt))
		default:
			h.verifyNon(w.cid1, ph, proof, key) // a membership proof is not an absence proof
		}
	}
}

// famBoundary: histories that walk the clock across latestTimestamp + trustingPeriod (-1ns, =, +1ns) and use
// the client at every step; then recover it from the second client and use it again.
func famBoundary(e *env, r *hx.Rng, o *hx.Out) {
	c := cfg(r)
	w := e.newWorld(c, c, true)
	w.bSend(2) // (also updates cid1 through a real transaction)
	h := newHist(e, r, []string{w.cid1, w.cid2}, nil)
	h.begin()
	w.updReal(h, w.cid1)
	for i := 0; i < 2+r.Intn(3); i++ {
		w.dependent(h, r.Intn(7))
	}
	// the second client learns a later header, so it outlives the first one
	e.coord.CommitBlock(e.B)
	w.updReal(h, w.cid2)
	for _, d := range []time.Duration{-1, 0, 1} {
		exp := w.latestTs(h, w.cid1).Add(e.tmState(h.ctx(), w.cid1).TrustingPeriod)
		target := exp.Add(d)
		if target.After(h.now) {
			h.advance(target.Sub(h.now), int64(1+r.Intn(3)))
		}
		n := 2 + r.Intn(4)
		for i := 0; i < n; i++ {
			w.dependent(h, r.Intn(7))
		}
		// an update one nanosecond before expiry moves the boundary; at and after expiry it must fail
		switch r.Intn(4) {
		case 0:
			h.update(w.cid1, w.fab(w.latest(h, w.cid1).RevisionHeight+1, w.latest(h, w.cid1), h.now.Add(-time.Second), r.Bytes(32)))
		case 1:
			if d >= 0 {
				w.updReal(h, w.cid1)
			}
		}
	}
	if r.Bool() {
		h.recoverClient(w.cid1, w.cid2)
		for i := 0; i < 3; i++ {
			w.dependent(h, r.Intn(7))
		}
		// and across the recovered client's own boundary
		exp2 := w.latestTs(h, w.cid1).Add(e.tmState(h.ctx(), w.cid1).TrustingPeriod)
		if exp2.After(h.now) {
			h.advance(exp2.Sub(h.now)-1, 1)
			w.dependent(h, r.Intn(3))
			h.advance(1, 0)
			w.dependent(h, r.Intn(3))
		}
	}
	h.finish(o, "boundary")
}

// famMixed: random streams of updates (real, fabricated future/past, duplicates, conflicts, unverifiable),
// misbehaviour messages, time steps, dependent operations, recovery.
func famMixed(e *env, r *hx.Rng, o *hx.Out) {
	c := cfg(r)
	w := e.newWorld(c, c, true)
	w.bSend(2) // (also updates cid1 through a real transaction)
	h := newHist(e, r, []string{w.cid1, w.cid2}, nil)
	h.begin()
	w.updReal(h, w.cid1)
	n := 10 + r.Intn(14)
	for i := 0; i < n; i++ {
		lt := w.latest(h, w.cid1)
		lts := w.latestTs(h, w.cid1)
		switch r.Intn(22) {
		case 0, 1:
			w.updReal(h, w.cid1)
		case 2: // fabricated future header (leaves a gap when k > 1)
			k := uint64(1 + r.Intn(3))
			hd := w.fab(lt.RevisionHeight+k, lt, lts.Add(time.Duration(1+r.Intn(5))*time.Second), r.Bytes(32))
			if h.update(w.cid1, hd) == "ok" {
				w.hdrs = append(w.hdrs, hd)
			}
		case 3: // duplicate of an accepted header
			if len(w.hdrs) > 0 {
				h.update(w.cid1, w.hdrs[r.Intn(len(w.hdrs))])
			} else {
				w.updReal(h, w.cid1)
			}
		case 4: // same height as the latest, different content -> conflicting consensus state
			tr := clienttypes.NewHeight(lt.RevisionNumber, lt.RevisionHeight-1)
			if e.consAt(h.ctx(), w.cid1, tr) == nil {
				w.updReal(h, w.cid1)
				break
			}
			h.update(w.cid1, w.fab(lt.RevisionHeight, tr, lts, r.Bytes(32)))
		case 5: // header below the latest with a time not before it: monotonicity violation (or a gap filler)
			cs := e.projClient(h.ctx(), w.cid1).Cons
			if len(cs) < 2 {
				w.updReal(h, w.cid1)
				break
			}
			// choose a height strictly between two stored heights if there is a gap, else just above the lowest
			lowJ := cs[0]
			low := clienttypes.NewHeight(lt.RevisionNumber, mustU(lowJ.H[1]))
			tgt := low.RevisionHeight + 1
			var tm time.Time
			if r.Bool() {
				tm = lts.Add(time.Second) // later than the latest: violates monotonic time
			} else {
				tm = e.consAt(h.ctx(), w.cid1, low).Timestamp.Add(time.Nanosecond)
			}
			h.update(w.cid1, w.fab(tgt, low, tm, r.Bytes(32)))
		case 6: // unverifiable: signed by nobody the client trusts / wrong trusted height
			hd := w.fab(lt.RevisionHeight+1, clienttypes.NewHeight(lt.RevisionNumber, lt.RevisionHeight+5), lts.Add(time.Second), r.Bytes(32))
			h.update(w.cid1, hd)
		case 7: // misbehaviour: two different headers at one height
			hh := lt.RevisionHeight + uint64(r.Intn(2))
			m := &ibctm.Misbehaviour{ClientId: w.cid1,
				Header1: w.fab(hh, lt, lts.Add(2*time.Second), r.Bytes(32)),
				Header2: w.fab(hh, lt, lts.Add(time.Second), r.Bytes(32))}
			if hh == lt.RevisionHeight {
				tr := clienttypes.NewHeight(lt.RevisionNumber, lt.RevisionHeight-1)
				if e.consAt(h.ctx(), w.cid1, tr) != nil {
					m.Header1 = w.fab(hh, tr, lts.Add(2*time.Second), r.Bytes(32))
					m.Header2 = w.fab(hh, tr, lts.Add(time.Second), r.Bytes(32))
				}
			}
			h.update(w.cid1, m)
		case 8: // misbehaviour message whose two headers are the same block, or in time order: not misbehaviour
			h1 := w.fab(lt.RevisionHeight+2, lt, lts.Add(3*time.Second), []byte("same-app-hash-same-app-hash-0000"))
			var h2 *ibctm.Header
			if r.Bool() {
				h2 = h1
			} else {
				h2 = w.fab(lt.RevisionHeight+1, lt, lts.Add(time.Second), r.Bytes(32))
			}
			h.update(w.cid1, &ibctm.Misbehaviour{ClientId: w.cid1, Header1: h1, Header2: h2})
		case 9: // time-order misbehaviour: higher header not later
			h1 := w.fab(lt.RevisionHeight+2, lt, lts.Add(time.Second), r.Bytes(32))
			h2 := w.fab(lt.RevisionHeight+1, lt, lts.Add(time.Duration(1+r.Intn(2))*time.Second), r.Bytes(32))
			h.update(w.cid1, &ibctm.Misbehaviour{ClientId: w.cid1, Header1: h1, Header2: h2})
		case 10: // time step, sometimes past the trusting period
			tp := e.tmState(h.ctx(), w.cid1).TrustingPeriod
			if r.Chance(1, 4) {
				h.advance(tp, int64(1+r.Intn(5)))
			} else {
				h.advance(time.Duration(r.Intn(int(tp/4)+1)), int64(r.Intn(3)))
			}
		case 11:
			w.updReal(h, w.cid2)
		case 12:
			h.recoverClient(w.cid1, w.cid2)
		default:
			w.dependent(h, r.Intn(7))
		}
	}
	h.finish(o, "mixed")
}

func mustU(s string) uint64 {
	var x uint64
	for _, c := range s {
		x = x*10 + uint64(c-'0')
	}
	return x
}

// ---- C25: recovery matrix ----------------------------------------------------------------------------

var recSubj = []string{"frozen", "expired", "active", "frozen+expired"}
var recSubst = []string{"active", "frozen", "expired", "missing", "other", "same"}
var recHeights = []string{"lt", "eq", "gt"}
var recDiff = []string{"none", "none", "tl", "unbonding", "drift", "upath", "upath-empty", "specs", "trusting", "chain", "nometa-h", "nometa-t", "nocons"}

func famRecover(e *env, r *hx.Rng, o *hx.Out, subj, subst, heights, diff string) {
	c1 := ibctesting.NewTendermintConfig()
	c2 := ibctesting.NewTendermintConfig()
	switch diff {
	case "tl":
		c2.TrustLevel = ibctm.Fraction{Numerator: 2, Denominator: 3}
	case "unbonding":
		c2.UnbondingPeriod += time.Hour
	case "drift":
		c2.MaxClockDrift += time.Second
	case "trusting":
		c2.TrustingPeriod -= time.Hour
	}
	tp := time.Duration(2+r.Intn(10)) * time.Hour
	c1.TrustingPeriod, c2.TrustingPeriod = tp, tp
	if diff == "trusting" {
		c2.TrustingPeriod = tp + time.Hour
	}
	w := e.newWorld(c1, c2, false)
	k := e.ibc().ClientKeeper
	if diff == "chain" { // the substitute tracks another chain
		for i := 0; i < 40; i++ { // chain C is ahead of B in height
			e.C.NextBlock()
		}
		p3 := ibctesting.NewPath(e.A, e.C)
		p3.EndpointA.ClientConfig = c2
		p3.SetupClients()
		w.cid2 = p3.EndpointA.ClientID
		w.p2 = p3
	}
	base := e.A.GetContext()
	// height relation: the substitute was created after the subject, so it is ahead by default
	switch heights {
	case "eq":
		e.coord.CommitBlock(e.B)
		hd := realHeader(e.B, e.tmState(base, w.cid1).LatestHeight)
		if err := k.UpdateClient(base, w.cid1, e.roundTrip(w.cid1, hd)); err != nil {
			panic(err)
		}
		if diff != "chain" {
			hd2 := realHeader(e.B, e.tmState(base, w.cid2).LatestHeight)
			if err := k.UpdateClient(base, w.cid2, e.roundTrip(w.cid2, hd2)); err != nil {
				panic(err)
			}
		}
	case "gt":
		e.coord.CommitBlock(e.B)
		e.coord.CommitBlock(e.B)
		hd := realHeader(e.B, e.tmState(base, w.cid1).LatestHeight)
		if err := k.UpdateClient(base, w.cid1, e.roundTrip(w.cid1, hd)); err != nil {
			panic(err)
		}
	}
	// parameter differences that need a direct state write
	s2 := e.tmState(base, w.cid2)
	switch diff {
	case "upath":
		s2.UpgradePath = []string{"upgrade", "otherKey"}
		k.SetClientState(base, w.cid2, s2)
	case "upath-empty":
		s2.UpgradePath = nil
		k.SetClientState(base, w.cid2, s2)
	case "specs":
		s2.ProofSpecs = s2.ProofSpecs[:1]
		k.SetClientState(base, w.cid2, s2)
	case "nometa-h":
		k.ClientStore(base, w.cid2).Delete(ibctm.ProcessedHeightKey(s2.LatestHeight))
	case "nometa-t":
		k.ClientStore(base, w.cid2).Delete(ibctm.ProcessedTimeKey(s2.LatestHeight))
	case "nocons":
		k.ClientStore(base, w.cid2).Delete(host.ConsensusStateKey(s2.LatestHeight))
	}
	if subj == "frozen" || subj == "frozen+expired" {
		s1 := e.tmState(base, w.cid1)
		s1.FrozenHeight = ibctm.FrozenHeight
		k.SetClientState(base, w.cid1, s1)
	}
	ids := []string{w.cid1, w.cid2}
	others := []string{}
	substID := w.cid2
	switch subst {
	case "frozen":
		s2 = e.tmState(base, w.cid2)
		s2.FrozenHeight = ibctm.FrozenHeight
		k.SetClientState(base, w.cid2, s2)
	case "missing":
		substID = "07-tendermint-999999"
	case "same":
		substID = w.cid1
	case "other":
		solo := ibctesting.NewSolomachine(e.t, e.A.Codec, "solomachine", "", 1)
		substID = solo.CreateClient(e.A)
		others = append(others, substID)
	}
	h := newHist(e, r, ids, others)
	// expiry by the clock: the subject's consensus state is older than the substitute's
	lt1 := e.consAt(base, w.cid1, e.tmState(base, w.cid1).LatestHeight).Timestamp
	var lt2 time.Time
	if c := e.consAt(base, w.cid2, e.tmState(base, w.cid2).LatestHeight); c != nil {
		lt2 = c.Timestamp
	} else {
		lt2 = lt1
	}
	exp1, exp2 := lt1.Add(tp), lt2.Add(e.tmState(base, w.cid2).TrustingPeriod)
	switch {
	case subst == "expired":
		later := exp1
		if exp2.After(later) {
			later = exp2
		}
		h.now = later.Add(time.Duration(r.Intn(3)))
	case subj == "expired" || subj == "frozen+expired":
		if exp2.After(exp1) {
			h.now = exp1.Add(time.Duration(r.Intn(int(exp2.Sub(exp1))))) // subject expired, substitute still alive
		} else {
			h.now = exp1
		}
	}
	h.begin()
	h.recoverClient(w.cid1, substID)
	// the recovered (or not) subject and the bystander are used afterwards
	h.connInit(w.cid1)
	if substID != w.cid2 {
		h.connInit(w.cid2)
	}
	if r.Bool() {
		h.recoverClient(w.cid1, substID) // a second attempt: the subject is now Active
	}
	h.finish(o, "recover/"+subj+"/"+subst+"/"+heights+"/"+diff)
}

// ---- C25: upgrade matrix -----------------------------------------------------------------------------

var upgVariants = []string{"ok", "ok", "ok-custom", "shrink", "shrink-odd", "grow", "height-eq", "height-lt", "rev-same-higher",
	"swap-proofs", "tampered-client", "tampered-cons", "moved-on", "no-upath", "other-upath", "frozen", "expired", "bad-revision",
	"huge-revision", "zero-time", "trusting-ge-unbonding", "bystander-use"}

func famUpgrade(e *env, r *hx.Rng, o *hx.Out, variant string) {
	c := ibctesting.NewTendermintConfig()
	w := e.newWorld(c, c, false)
	h := newHist(e, r, []string{w.cid1, w.cid2}, nil)
	k := e.ibc().ClientKeeper
	base := e.A.GetContext()
	cdc := e.A.App.AppCodec()
	cur := e.tmState(base, w.cid1)

	newChainID := "testchain2-2"
	newHeight := clienttypes.NewHeight(2, 1)
	ub := cur.UnbondingPeriod
	switch variant {
	case "shrink":
		ub = cur.UnbondingPeriod / 2
	case "shrink-odd":
		ub = cur.UnbondingPeriod - time.Duration(1+r.Intn(1_000_000_007))
	case "grow":
		ub = cur.UnbondingPeriod + time.Hour
	case "trusting-ge-unbonding":
		ub = time.Duration(1 + r.Intn(5)) // scaled trusting period truncates to 0
	case "rev-same-higher":
		newChainID = e.B.ChainID
	case "bad-revision":
		newChainID = "testchain2-7"
	case "huge-revision":
		newChainID = "x-99999999999999999999999"
	}
	planH := uint64(e.B.GetContext().BlockHeight() + 1)
	switch variant {
	case "height-eq":
		newHeight = clienttypes.NewHeight(1, planH)
		newChainID = e.B.ChainID
	case "height-lt":
		newHeight = clienttypes.NewHeight(1, 1)
		newChainID = e.B.ChainID
	case "rev-same-higher":
		newHeight = clienttypes.NewHeight(1, planH+10)
	}
	committed := ibctm.NewClientState(newChainID, ibctm.DefaultTrustLevel, cur.TrustingPeriod, ub, cur.MaxClockDrift,
		newHeight, commitmenttypes.GetSDKSpecs(), ibctesting.UpgradePath).ZeroCustomFields()
	consTime := e.B.ProposedHeader.Time
	if variant == "zero-time" {
		consTime = time.Time{}
	}
	committedCons := &ibctm.ConsensusState{Timestamp: consTime, Root: commitmenttypes.NewMerkleRoot([]byte("any")),
		NextValidatorsHash: e.B.NextVals.Hash()}
	ccBz, err := clienttypes.MarshalClientState(cdc, committed)
	if err != nil {
		panic(err)
	}
	csBz, err := clienttypes.MarshalConsensusState(cdc, committedCons)
	if err != nil {
		panic(err)
	}
	uk := e.B.GetSimApp().UpgradeKeeper
	if err := uk.SetUpgradedClient(e.B.GetContext(), int64(planH), ccBz); err != nil {
		panic(err)
	}
	if err := uk.SetUpgradedConsensusState(e.B.GetContext(), int64(planH), csBz); err != nil {
		panic(err)
	}
	e.coord.CommitBlock(e.B)
	switch variant {
	case "no-upath":
		cur.UpgradePath = nil
		k.SetClientState(base, w.cid1, cur)
	case "other-upath":
		cur.UpgradePath = []string{"upgrade", "elsewhere"}
		k.SetClientState(base, w.cid1, cur)
	}
	h.begin()
	w.updReal(h, w.cid1) // commits plan height on B and brings the client to it
	lt := w.latest(h, w.cid1)
	if lt.RevisionHeight != planH {
		panic("upgrade set-up: client not at the plan height")
	}
	if variant == "moved-on" {
		w.updReal(h, w.cid1)
	}
	proofClient, _ := e.B.QueryUpgradeProof(upgradetypes.UpgradedClientKey(int64(planH)), planH)
	proofCons, _ := e.B.QueryUpgradeProof(upgradetypes.UpgradedConsStateKey(int64(planH)), planH)

	// what the relayer submits: the committed client with its own choice of custom fields
	sub := *committed
	subCons := *committedCons
	switch variant {
	case "ok-custom", "shrink", "grow":
		sub.TrustLevel = ibctm.Fraction{Numerator: 2, Denominator: 3}
		sub.TrustingPeriod = time.Hour
		sub.MaxClockDrift = time.Minute
		sub.FrozenHeight = clienttypes.NewHeight(0, 9)
	case "tampered-client":
		sub.UnbondingPeriod++
	case "tampered-cons":
		subCons.NextValidatorsHash = r.Bytes(32)
	case "swap-proofs":
		proofClient, proofCons = proofCons, proofClient
	}
	switch variant {
	case "frozen":
		s := e.tmState(h.ctx(), w.cid1)
		s.FrozenHeight = ibctm.FrozenHeight
		// freezing is part of the history: done by a real conflicting header
		tr := clienttypes.NewHeight(lt.RevisionNumber, lt.RevisionHeight-1)
		if e.consAt(h.ctx(), w.cid1, tr) != nil {
			h.update(w.cid1, w.fab(lt.RevisionHeight, tr, w.latestTs(h, w.cid1), r.Bytes(32)))
		}
	case "expired":
		exp := w.latestTs(h, w.cid1).Add(cur.TrustingPeriod)
		h.advance(exp.Sub(h.now)-1, 1)
		if r.Bool() {
			h.advance(1, 0)
		}
	}
	h.upgrade(w.cid1, &sub, &subCons, proofClient, proofCons, []clienttypes.Height{clienttypes.NewHeight(1, planH)})
	h.connInit(w.cid1)
	if variant == "bystander-use" || r.Chance(1, 3) {
		h.connInit(w.cid2)
		w.updReal(h, w.cid2)
	}
	if r.Chance(1, 3) {
		h.upgrade(w.cid1, &sub, &subCons, proofClient, proofCons, []clienttypes.Height{clienttypes.NewHeight(1, planH)})
	}
	h.finish(o, "upgrade/"+variant)
}
