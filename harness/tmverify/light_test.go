package tmverify

import (
	"sort"
	"testing"
	"time"

	"github.com/cometbft/cometbft/crypto"
	"github.com/cometbft/cometbft/crypto/ed25519"
	cryptoenc "github.com/cometbft/cometbft/crypto/encoding"
	cmtproto "github.com/cometbft/cometbft/proto/tendermint/types"
	cmttypes "github.com/cometbft/cometbft/types"

	sdk "github.com/cosmos/cosmos-sdk/types"

	clienttypes "github.com/cosmos/ibc-go/v11/modules/core/02-client/types"
	commitmenttypes "github.com/cosmos/ibc-go/v11/modules/core/23-commitment/types"
	host "github.com/cosmos/ibc-go/v11/modules/core/24-host"
	"github.com/cosmos/ibc-go/v11/modules/core/exported"
	ibctm "github.com/cosmos/ibc-go/v11/modules/light-clients/07-tendermint"
	ibctesting "github.com/cosmos/ibc-go/v11/testing"

	"verif/harness/hx"
)

// ---- projection of headers ---------------------------------------------------------------------------

type valJ struct {
	Addr  string `json:"addr"`
	Pk    string `json:"pk"`
	Power string `json:"power"`
}

type valsetJ struct {
	Vals []valJ `json:"vals"`
	Prop *valJ  `json:"prop"`
}

func projVal(v *cmtproto.Validator) valJ {
	pk := ""
	if k, err := cryptoenc.PubKeyFromProto(v.PubKey); err == nil {
		pk = hx.H(k.Bytes())
	}
	return valJ{Addr: hx.H(v.Address), Pk: pk, Power: i64(v.VotingPower)}
}

func projValset(vs *cmtproto.ValidatorSet) *valsetJ {
	if vs == nil {
		return nil
	}
	out := &valsetJ{Vals: []valJ{}}
	for _, v := range vs.Validators {
		out.Vals = append(out.Vals, projVal(v))
	}
	if vs.Proposer != nil {
		p := projVal(vs.Proposer)
		out.Prop = &p
	}
	return out
}

func projBlockID(b cmtproto.BlockID) []any {
	return []any{hx.H(b.Hash), hx.U(uint64(b.PartSetHeader.Total)), hx.H(b.PartSetHeader.Hash)}
}

func projHeaderFields(h *cmtproto.Header) map[string]any {
	return map[string]any{"block": hx.U(h.Version.Block), "app": hx.U(h.Version.App), "chain": hx.HS(h.ChainID),
		"height": i64(h.Height), "time": ns(h.Time), "last": projBlockID(h.LastBlockId),
		"lastcommit": hx.H(h.LastCommitHash), "data": hx.H(h.DataHash), "vals": hx.H(h.ValidatorsHash),
		"nextvals": hx.H(h.NextValidatorsHash), "cons": hx.H(h.ConsensusHash), "apphash": hx.H(h.AppHash),
		"results": hx.H(h.LastResultsHash), "evidence": hx.H(h.EvidenceHash), "proposer": hx.H(h.ProposerAddress)}
}

func projTmHeader(h *ibctm.Header) map[string]any {
	sigs := []any{}
	for _, s := range h.Commit.Signatures {
		sigs = append(sigs, []any{int(s.BlockIdFlag), hx.H(s.ValidatorAddress), ns(s.Timestamp), hx.H(s.Signature)})
	}
	return map[string]any{"hdr": projHeaderFields(h.Header),
		"commit": map[string]any{"height": i64(h.Commit.Height), "round": i64(int64(h.Commit.Round)),
			"bid": projBlockID(h.Commit.BlockID), "sigs": sigs},
		"vals": projValset(h.ValidatorSet), "trusted": hj(h.TrustedHeight), "tvals": projValset(h.TrustedValidators)}
}

// tables of results of the real dependency functions on the values occurring in the headers
type ltables struct {
	sigs  [][]string
	vhash [][]any
	hhash [][]any
	addr  [][]string
	seenA map[string]bool
	seenV map[string]bool
}

func newLTables() *ltables {
	return &ltables{seenA: map[string]bool{}, seenV: map[string]bool{}}
}

func (t *ltables) addValset(vs *cmtproto.ValidatorSet) []crypto.PubKey {
	if vs == nil {
		return nil
	}
	keys := []crypto.PubKey{}
	all := append([]*cmtproto.Validator{}, vs.Validators...)
	if vs.Proposer != nil {
		all = append(all, vs.Proposer)
	}
	vals := []*cmttypes.Validator{}
	ok := true
	for i, v := range all {
		k, err := cryptoenc.PubKeyFromProto(v.PubKey)
		if err != nil {
			ok = false
			continue
		}
		keys = append(keys, k)
		if !t.seenA[string(k.Bytes())] {
			t.seenA[string(k.Bytes())] = true
			t.addr = append(t.addr, []string{hx.H(k.Bytes()), hx.H(k.Address())})
		}
		if i < len(vs.Validators) {
			vals = append(vals, &cmttypes.Validator{Address: v.Address, PubKey: k, VotingPower: v.VotingPower})
		}
	}
	if ok {
		pj := projValset(vs)
		var hash []byte
		if p, _ := hx.Catch(func() { hash = (&cmttypes.ValidatorSet{Validators: vals}).Hash() }); !p {
			t.vhash = append(t.vhash, []any{pj.Vals, hx.H(hash)})
		}
	}
	return keys
}

func (t *ltables) addHeader(h *ibctm.Header, chains []string) {
	keys := append(t.addValset(h.ValidatorSet), t.addValset(h.TrustedValidators)...)
	if hh, _ := cmttypes.HeaderFromProto(h.Header); true {
		var hash []byte
		if p, _ := hx.Catch(func() { hash = hh.Hash() }); !p {
			t.hhash = append(t.hhash, []any{projHeaderFields(h.Header), hx.H(hash)})
		}
	}
	// signature validity for every (key, candidate chain id, commit signature)
	commit := &cmttypes.Commit{Height: h.Commit.Height, Round: h.Commit.Round,
		BlockID: cmttypes.BlockID{Hash: h.Commit.BlockID.Hash,
			PartSetHeader: cmttypes.PartSetHeader{Total: h.Commit.BlockID.PartSetHeader.Total, Hash: h.Commit.BlockID.PartSetHeader.Hash}}}
	for _, s := range h.Commit.Signatures {
		commit.Signatures = append(commit.Signatures, cmttypes.CommitSig{BlockIDFlag: cmttypes.BlockIDFlag(s.BlockIdFlag),
			ValidatorAddress: s.ValidatorAddress, Timestamp: s.Timestamp, Signature: s.Signature})
	}
	uniq := map[string]crypto.PubKey{}
	for _, k := range keys {
		uniq[string(k.Bytes())] = k
	}
	names := []string{}
	for n := range uniq {
		names = append(names, n)
	}
	sort.Strings(names)
	for _, chain := range chains {
		for idx, s := range commit.Signatures {
			if s.BlockIDFlag != cmttypes.BlockIDFlagCommit {
				continue
			}
			var msg []byte
			if p, _ := hx.Catch(func() { msg = commit.VoteSignBytes(chain, int32(idx)) }); p {
				continue
			}
			for _, n := range names {
				valid := false
				hx.Catch(func() { valid = uniq[n].VerifySignature(msg, s.Signature) })
				if valid {
					row := []string{hx.H(uniq[n].Bytes()), hx.HS(chain), hx.H(s.Signature)}
					key := row[0] + row[1] + row[2]
					if !t.seenV[key] {
						t.seenV[key] = true
						t.sigs = append(t.sigs, row)
					}
				}
			}
		}
	}
}

func (t *ltables) json() map[string]any {
	nz := func(x any) any { return x }
	return map[string]any{"sigs": nz(t.sigs), "vhash": nz(t.vhash), "hhash": nz(t.hhash), "addr": nz(t.addr)}
}

// ---- validators ----------------------------------------------------------------------------------------

type keyring struct {
	pvs []cmttypes.PrivValidator
}

func newKeyring(r *hx.Rng, n int) *keyring {
	k := &keyring{}
	for i := 0; i < n; i++ {
		priv := ed25519.GenPrivKeyFromSecret(r.Bytes(32))
		k.pvs = append(k.pvs, cmttypes.NewMockPVWithParams(priv, false, false))
	}
	return k
}

// set builds a validator set from key indices and powers (sorted the CometBFT way) and its signer map.
func (k *keyring) set(idx []int, pow []int64) (*cmttypes.ValidatorSet, map[string]cmttypes.PrivValidator) {
	vals := []*cmttypes.Validator{}
	signers := map[string]cmttypes.PrivValidator{}
	for j, i := range idx {
		pk, _ := k.pvs[i].GetPubKey()
		v := cmttypes.NewValidator(pk, pow[j])
		vals = append(vals, v)
		signers[v.Address.String()] = k.pvs[i]
	}
	return cmttypes.NewValidatorSet(vals), signers
}

// ---- the light environment: one client on chain A whose state is overwritten per case ----------------

type lightEnv struct {
	e    *env
	cid  string
	keys *keyring
}

type lcase struct {
	chain    string
	tl       ibctm.Fraction
	trusting time.Duration
	drift    time.Duration
	latest   clienttypes.Height
	cons     map[clienttypes.Height]*ibctm.ConsensusState
	now      time.Time
}

// install writes the case's client into a cache context and returns it.
func (l *lightEnv) install(c *lcase) sdk.Context {
	ctx, _ := l.e.A.GetContext().CacheContext()
	ctx = ctx.WithBlockTime(c.now)
	k := l.e.ibc().ClientKeeper
	cs := ibctm.NewClientState(c.chain, c.tl, c.trusting, c.trusting*2, c.drift, c.latest, commitmenttypes.GetSDKSpecs(), ibctesting.UpgradePath)
	// remove the consensus states the client was created with
	old := l.e.projClient(ctx, l.cid)
	store := k.ClientStore(ctx, l.cid)
	for _, oc := range old.Cons {
		h := clienttypes.NewHeight(mustU(oc.H[0]), mustU(oc.H[1]))
		store.Delete(host.ConsensusStateKey(h))
		store.Delete(ibctm.ProcessedTimeKey(h))
		store.Delete(ibctm.ProcessedHeightKey(h))
		store.Delete(ibctm.IterationKey(h))
	}
	k.SetClientState(ctx, l.cid, cs)
	for h, c := range c.cons {
		k.SetClientConsensusState(ctx, l.cid, h, c)
	}
	return ctx
}

func verdict(f func() error) string { return outcome(f) }

func (l *lightEnv) emitHeader(o *hx.Out, c *lcase, h *ibctm.Header, tag string) {
	ctx := l.install(c)
	m := l.e.roundTrip(l.cid, h).(*ibctm.Header)
	mod, err := l.e.ibc().ClientKeeper.Route(ctx, l.cid)
	if err != nil {
		panic(err)
	}
	basic := verdict(func() error { return m.ValidateBasic() })
	v := verdict(func() error { return mod.VerifyClientMessage(ctx, l.cid, m) })
	t := newLTables()
	t.addHeader(m, l.chains(c, m))
	o.Emit("lheader", map[string]any{"client": l.e.projClient(ctx, l.cid), "valid": l.e.tmState(ctx, l.cid).Validate() == nil,
		"now": ns(c.now), "h": projTmHeader(m), "tables": t.json()},
		[]string{basic, v}, tag)
}

func (l *lightEnv) chains(c *lcase, hs ...*ibctm.Header) []string {
	set := map[string]bool{c.chain: true}
	for _, h := range hs {
		set[h.Header.ChainID] = true
		if clienttypes.IsRevisionFormat(c.chain) {
			hx.Catch(func() {
				if s, err := clienttypes.SetRevisionNumber(c.chain, clienttypes.ParseChainID(h.Header.ChainID)); err == nil {
					set[s] = true
				}
			})
		}
	}
	out := []string{}
	for s := range set {
		out = append(out, s)
	}
	sort.Strings(out)
	return out
}

func (l *lightEnv) emitMisb(o *hx.Out, c *lcase, h1, h2 *ibctm.Header, tag string) {
	ctx := l.install(c)
	m := l.e.roundTrip(l.cid, &ibctm.Misbehaviour{ClientId: l.cid, Header1: h1, Header2: h2}).(*ibctm.Misbehaviour)
	k := l.e.ibc().ClientKeeper
	mod, err := k.Route(ctx, l.cid)
	if err != nil {
		panic(err)
	}
	basic := verdict(func() error { return m.ValidateBasic() })
	v := verdict(func() error { return mod.VerifyClientMessage(ctx, l.cid, m) })
	// does the whole UpdateClient freeze the client?
	cctx, _ := ctx.CacheContext()
	upd := verdict(func() error { return k.UpdateClient(cctx, l.cid, m) })
	frozen := false
	if upd == "ok" {
		frozen = k.GetClientStatus(cctx, l.cid) == exported.Frozen
	}
	t := newLTables()
	t.addHeader(m.Header1, l.chains(c, m.Header1, m.Header2))
	t.addHeader(m.Header2, l.chains(c, m.Header1, m.Header2))
	o.Emit("lmisb", map[string]any{"client": l.e.projClient(ctx, l.cid), "valid": l.e.tmState(ctx, l.cid).Validate() == nil,
		"now": ns(c.now), "h1": projTmHeader(m.Header1),
		"h2": projTmHeader(m.Header2), "tables": t.json()}, []any{basic, v, frozen, upd}, tag)
}

// ---- generators --------------------------------------------------------------------------------------------

var t0 = time.Date(2024, 5, 6, 7, 8, 9, 123456789, time.UTC)

type scen struct {
	c        *lcase
	tset     *cmttypes.ValidatorSet
	tsign    map[string]cmttypes.PrivValidator
	uset     *cmttypes.ValidatorSet
	usign    map[string]cmttypes.PrivValidator
	trusted  clienttypes.Height
	height   int64
	time     time.Time
	adjacent bool
}

func pick(r *hx.Rng, n, k int) []int {
	p := []int{}
	for i := 0; i < n; i++ {
		p = append(p, i)
	}
	for i := 0; i < k; i++ {
		j := i + r.Intn(n-i)
		p[i], p[j] = p[j], p[i]
	}
	return p[:k]
}

func powers(r *hx.Rng, k int) []int64 {
	out := []int64{}
	mode := r.Intn(3)
	for i := 0; i < k; i++ {
		switch mode {
		case 0:
			out = append(out, 1)
		case 1:
			out = append(out, int64(1+r.Intn(5)))
		default:
			out = append(out, int64(1+r.Intn(100)))
		}
	}
	return out
}

// baseScen: a client with one trusted consensus state and a header that verifies.
func (l *lightEnv) baseScen(r *hx.Rng, adjacent bool) *scen {
	nk := len(l.keys.pvs)
	kt := 1 + r.Intn(5)
	ti := pick(r, nk, kt)
	tset, tsign := l.keys.set(ti, powers(r, kt))
	s := &scen{tset: tset, tsign: tsign, adjacent: adjacent}
	if adjacent || r.Chance(1, 3) {
		s.uset, s.usign = tset, tsign
	} else {
		// overlapping sets: keep some trusted validators, add new ones
		keep := 1 + r.Intn(kt)
		ui := append([]int{}, ti[:keep]...)
		for _, x := range pick(r, nk, 1+r.Intn(4)) {
			dup := false
			for _, y := range ui {
				dup = dup || x == y
			}
			if !dup {
				ui = append(ui, x)
			}
		}
		s.uset, s.usign = l.keys.set(ui, powers(r, len(ui)))
	}
	th := uint64(10 + r.Intn(1000))
	s.trusted = clienttypes.NewHeight(1, th)
	if adjacent {
		s.height = int64(th) + 1
	} else {
		s.height = int64(th) + 2 + int64(r.Intn(50))
	}
	tl := ibctm.DefaultTrustLevel
	switch r.Intn(4) {
	case 0:
		tl = ibctm.Fraction{Numerator: 2, Denominator: 3}
	case 1:
		tl = ibctm.Fraction{Numerator: 1, Denominator: 1}
	}
	trusting := time.Duration(1+r.Intn(100)) * time.Hour
	ttime := t0.Add(time.Duration(r.Intn(1000)) * time.Second)
	s.time = ttime.Add(time.Duration(1+r.Intn(3600)) * time.Second)
	s.c = &lcase{chain: "testchain2-1", tl: tl, trusting: trusting, drift: 10 * time.Second, latest: s.trusted,
		cons: map[clienttypes.Height]*ibctm.ConsensusState{s.trusted: {Timestamp: ttime, Root: commitmenttypes.NewMerkleRoot(r.Bytes(32)),
			NextValidatorsHash: tset.Hash()}},
		now: s.time.Add(time.Duration(r.Intn(600)) * time.Second)}
	return s
}

func (s *scen) header(r *hx.Rng) *ibctm.Header {
	return mkHeader(hdrSpec{ChainID: s.c.chain, Height: s.height, Trusted: s.trusted, Time: s.time, AppHash: r.Bytes(32),
		Vals: s.uset, NextVals: s.uset, TrustedVals: s.tset, Signers: s.usign})
}

func absent(s *cmtproto.CommitSig) {
	s.BlockIdFlag = cmtproto.BlockIDFlagAbsent
	s.ValidatorAddress = nil
	s.Timestamp = time.Time{}
	s.Signature = nil
}

// rehash recomputes the header hash and points the commit at it (without re-signing).
func rehash(h *ibctm.Header) {
	hh, _ := cmttypes.HeaderFromProto(h.Header)
	hx.Catch(func() { h.Commit.BlockID.Hash = hh.Hash() })
}

var headerMutations = []string{"none", "drop-sigs", "drop-to-boundary", "bad-sig-early", "bad-sig-late", "nil-votes", "field-time", "field-apphash",
	"field-nextvals", "field-height", "field-chain", "field-data", "field-rehash", "commit-round", "commit-height", "commit-parts", "sig-timestamp",
	"vals-power", "vals-power-rehash", "vals-extra", "vals-reorder", "vals-addr", "vals-negative", "vals-overflow", "vals-empty", "vals-nil",
	"vals-noproposer", "vals-proposer-outside", "tvals-wrong", "tvals-power", "tvals-nil", "trusted-missing", "trusted-ge", "trusted-revision",
	"revision", "time-le-trusted", "time-drift", "expired", "sig-addr", "version", "proposer-len", "hash-len", "sig-len", "double-vote",
	"unknown-flag", "trust-level-wrap", "huge-revision", "now-boundaries"}

func (l *lightEnv) genHeader(r *hx.Rng, o *hx.Out, mut string) {
	adjacent := r.Bool()
	s := l.baseScen(r, adjacent)
	switch mut {
	case "time-le-trusted":
		s.time = s.c.cons[s.trusted].Timestamp.Add(time.Duration(r.Intn(2)-1) * time.Nanosecond * time.Duration(r.Intn(2)))
	case "time-drift":
		s.time = s.c.now.Add(s.c.drift).Add(time.Duration(r.Intn(3) - 1))
	case "expired":
		s.c.now = s.c.cons[s.trusted].Timestamp.Add(s.c.trusting).Add(time.Duration(r.Intn(3) - 1))
		s.time = s.c.now.Add(-time.Nanosecond)
		if !s.time.After(s.c.cons[s.trusted].Timestamp) {
			s.time = s.c.cons[s.trusted].Timestamp.Add(time.Nanosecond)
		}
	case "now-boundaries":
		// header time exactly now+drift-1ns, client exactly 1ns before expiry
		s.c.now = s.c.cons[s.trusted].Timestamp.Add(s.c.trusting).Add(-time.Nanosecond)
		s.time = s.c.now.Add(s.c.drift).Add(-time.Nanosecond)
	case "revision":
		s.c.chain = "testchain2-1"
	case "trusted-revision":
		s.uset, s.usign = s.tset, s.tsign // everything else about the header is valid
	case "trust-level-wrap":
		// int64(denominator) is negative: the trusting check needs "more than -1" voting power
		s.c.tl = ibctm.Fraction{Numerator: 1 << 62, Denominator: 3 << 62}
		pk, _ := l.keys.pvs[0].GetPubKey()
		s.tset = cmttypes.NewValidatorSet([]*cmttypes.Validator{cmttypes.NewValidator(pk, 1)})
		s.c.cons[s.trusted].NextValidatorsHash = s.tset.Hash()
		s.uset, s.usign = l.keys.set([]int{3, 4, 5}, []int64{5, 5, 5})
		s.adjacent = false
		s.height = int64(s.trusted.RevisionHeight) + 5
	}
	h := s.header(r)
	sigs := h.Commit.Signatures
	n := len(sigs)
	switch mut {
	case "drop-sigs":
		for i := range sigs {
			if r.Bool() {
				absent(&sigs[i])
			}
		}
	case "drop-to-boundary":
		// drop signatures from the end until the remaining power is the smallest value above 2/3, or exactly at it
		total := s.uset.TotalVotingPower()
		need := total * 2 / 3
		rem := total
		for i := n - 1; i >= 0; i-- {
			p := s.uset.Validators[i].VotingPower
			if rem-p > need || (r.Bool() && rem-p == need) {
				absent(&sigs[i])
				rem -= p
			}
		}
	case "bad-sig-early":
		sigs[0].Signature[r.Intn(64)] ^= 1
	case "bad-sig-late":
		sigs[n-1].Signature[r.Intn(64)] ^= 1
	case "nil-votes":
		i := r.Intn(n)
		sigs[i].BlockIdFlag = cmtproto.BlockIDFlagNil
	case "field-time":
		h.Header.Time = h.Header.Time.Add(time.Nanosecond)
	case "field-apphash":
		h.Header.AppHash = r.Bytes(32)
	case "field-nextvals":
		h.Header.NextValidatorsHash = r.Bytes(32)
	case "field-height":
		h.Header.Height++
	case "field-chain":
		h.Header.ChainID = "testchain2-1x"
	case "field-data":
		h.Header.DataHash = r.Bytes(32)
	case "field-rehash":
		switch r.Intn(4) {
		case 0:
			h.Header.Time = h.Header.Time.Add(time.Nanosecond)
		case 1:
			h.Header.AppHash = r.Bytes(32)
		case 2:
			h.Header.NextValidatorsHash = r.Bytes(32)
		default:
			h.Header.LastResultsHash = r.Bytes(32)
		}
		rehash(h)
	case "commit-round":
		h.Commit.Round++
	case "commit-height":
		h.Commit.Height++
	case "commit-parts":
		if r.Bool() {
			h.Commit.BlockID.PartSetHeader.Total++
		} else {
			h.Commit.BlockID.PartSetHeader.Hash = r.Bytes(32)
		}
	case "sig-timestamp":
		sigs[r.Intn(n)].Timestamp = sigs[0].Timestamp.Add(time.Nanosecond)
	case "vals-power":
		h.ValidatorSet.Validators[r.Intn(len(h.ValidatorSet.Validators))].VotingPower++
	case "vals-power-rehash":
		h.ValidatorSet.Validators[r.Intn(len(h.ValidatorSet.Validators))].VotingPower += 1000
		vs, _ := cmttypes.ValidatorSetFromProto(h.ValidatorSet)
		if vs != nil {
			h.Header.ValidatorsHash = vs.Hash()
			rehash(h)
		}
	case "vals-extra":
		pk, _ := l.keys.pvs[len(l.keys.pvs)-1].GetPubKey()
		ev, _ := cmttypes.NewValidator(pk, 1).ToProto()
		h.ValidatorSet.Validators = append(h.ValidatorSet.Validators, ev)
	case "vals-reorder":
		v := h.ValidatorSet.Validators
		if len(v) > 1 {
			v[0], v[len(v)-1] = v[len(v)-1], v[0]
		}
	case "vals-addr":
		h.ValidatorSet.Validators[0].Address = r.Bytes(20)
	case "vals-negative":
		h.ValidatorSet.Validators[0].VotingPower = -1
	case "vals-overflow":
		h.ValidatorSet.Validators[0].VotingPower = (1<<63-1)/8 + int64(r.Intn(2))
	case "vals-empty":
		h.ValidatorSet.Validators = nil
	case "vals-nil":
		h.ValidatorSet = nil
	case "vals-noproposer":
		h.ValidatorSet.Proposer = nil
	case "vals-proposer-outside":
		pk, _ := l.keys.pvs[len(l.keys.pvs)-1].GetPubKey()
		ev, _ := cmttypes.NewValidator(pk, 1).ToProto()
		h.ValidatorSet.Proposer = ev
	case "tvals-wrong":
		other, _ := l.keys.set(pick(r, len(l.keys.pvs), 2), []int64{3, 4})
		h.TrustedValidators = valsProto(other)
	case "tvals-power":
		h.TrustedValidators.Validators[0].VotingPower++
	case "tvals-nil":
		h.TrustedValidators = nil
	case "trusted-missing":
		h.TrustedHeight = clienttypes.NewHeight(1, s.trusted.RevisionHeight+1)
	case "trusted-ge":
		// a second consensus state at or above the header height, with the same trusted validators
		th := clienttypes.NewHeight(1, uint64(s.height)+uint64(r.Intn(2)))
		s.c.cons[th] = &ibctm.ConsensusState{Timestamp: s.c.cons[s.trusted].Timestamp, Root: commitmenttypes.NewMerkleRoot(r.Bytes(32)),
			NextValidatorsHash: s.tset.Hash()}
		s.c.latest = th
		h.TrustedHeight = th
	case "trusted-revision":
		// a consensus state of another revision (e.g. left over from before an upgrade) used as the trusted state;
		// with the lower revision every later check would pass: only the revision comparison rejects it
		th := clienttypes.NewHeight(uint64(2*(r.Intn(3)/2)), s.trusted.RevisionHeight)
		s.c.cons[th] = s.c.cons[s.trusted]
		h.TrustedHeight = th
	case "revision":
		// a properly signed header of the next revision of the chain
		s.c.chain = "testchain2-1"
		h = mkHeader(hdrSpec{ChainID: "testchain2-2", Height: s.height, Trusted: s.trusted, Time: s.time, AppHash: r.Bytes(32),
			Vals: s.uset, NextVals: s.uset, TrustedVals: s.tset, Signers: s.usign})
	case "sig-addr":
		sigs[r.Intn(n)].ValidatorAddress = r.Bytes(20)
	case "version":
		h.Header.Version.Block++
		rehash(h)
	case "proposer-len":
		h.Header.ProposerAddress = r.Bytes(19)
		rehash(h)
	case "hash-len":
		h.Header.DataHash = r.Bytes(31)
		rehash(h)
	case "sig-len":
		if r.Bool() {
			sigs[r.Intn(n)].Signature = r.Bytes(3309 + r.Intn(2))
		} else {
			sigs[r.Intn(n)].Signature = nil
		}
	case "double-vote":
		// the header's own set lists one validator twice; both entries sign
		if !s.adjacent {
			v := h.ValidatorSet.Validators
			h.ValidatorSet.Validators = append([]*cmtproto.Validator{v[0]}, v...)
			h.Commit.Signatures = append([]cmtproto.CommitSig{sigs[0]}, sigs...)
			vs := &cmttypes.ValidatorSet{}
			for _, pv := range h.ValidatorSet.Validators {
				k, _ := cryptoenc.PubKeyFromProto(pv.PubKey)
				vs.Validators = append(vs.Validators, &cmttypes.Validator{Address: pv.Address, PubKey: k, VotingPower: pv.VotingPower})
			}
			h.Header.ValidatorsHash = vs.Hash()
			rehash(h)
		}
	case "unknown-flag":
		sigs[r.Intn(n)].BlockIdFlag = 4
	case "huge-revision":
		h.Header.ChainID = "x-99999999999999999999999"
		rehash(h)
	case "trust-level-wrap":
		// nobody from the trusted set signs
	}
	l.emitHeader(o, s.c, h, mut)
}

var misbMutations = []string{"fork", "fork", "time-violation", "same-block", "in-order", "h1-below-h2", "chain-differs", "trusted-zero",
	"tvals-nil", "one-invalid-sig", "one-wrong-tvals", "trusted-missing", "trusting-boundary", "low-power", "other-revision",
	"not-own-two-thirds", "tvals-disjoint"}

func (l *lightEnv) genMisb(r *hx.Rng, o *hx.Out, mut string) {
	s := l.baseScen(r, false)
	if r.Bool() {
		s.uset, s.usign = s.tset, s.tsign
	}
	s.c.now = s.time.Add(time.Duration(1+r.Intn(100)) * time.Second)
	mk := func(chain string, height int64, t time.Time, uset *cmttypes.ValidatorSet, usign map[string]cmttypes.PrivValidator) *ibctm.Header {
		return mkHeader(hdrSpec{ChainID: chain, Height: height, Trusted: s.trusted, Time: t, AppHash: r.Bytes(32),
			Vals: uset, NextVals: uset, TrustedVals: s.tset, Signers: usign})
	}
	h1 := mk(s.c.chain, s.height, s.time, s.uset, s.usign)
	h2 := mk(s.c.chain, s.height, s.time.Add(-time.Second), s.uset, s.usign)
	switch mut {
	case "time-violation":
		h1 = mk(s.c.chain, s.height+1, s.time.Add(-time.Duration(r.Intn(2))*time.Second), s.uset, s.usign)
		h2 = mk(s.c.chain, s.height, s.time, s.uset, s.usign)
	case "same-block":
		h2 = h1
	case "in-order":
		h1 = mk(s.c.chain, s.height+1, s.time.Add(time.Second), s.uset, s.usign)
		h2 = mk(s.c.chain, s.height, s.time, s.uset, s.usign)
	case "h1-below-h2":
		h1, h2 = mk(s.c.chain, s.height, s.time, s.uset, s.usign), mk(s.c.chain, s.height+1, s.time, s.uset, s.usign)
	case "chain-differs":
		h2 = mk("testchain2-2", s.height, s.time.Add(-time.Second), s.uset, s.usign)
	case "trusted-zero":
		h2.TrustedHeight = clienttypes.NewHeight(1, 0)
	case "tvals-nil":
		h1.TrustedValidators = nil
	case "one-invalid-sig":
		h2.Commit.Signatures[0].Signature[3] ^= 4
	case "one-wrong-tvals":
		other, _ := l.keys.set(pick(r, len(l.keys.pvs), 2), []int64{3, 4})
		h2.TrustedValidators = valsProto(other)
	case "trusted-missing":
		h1.TrustedHeight = clienttypes.NewHeight(1, s.trusted.RevisionHeight-1)
	case "trusting-boundary":
		s.c.now = s.c.cons[s.trusted].Timestamp.Add(s.c.trusting).Add(time.Duration(r.Intn(3) - 1))
		if r.Bool() {
			// the client itself stays Active through a newer consensus state; only the trusted one is at the boundary
			newer := clienttypes.NewHeight(1, uint64(s.height)+1000)
			s.c.cons[newer] = &ibctm.ConsensusState{Timestamp: s.c.now.Add(-time.Second), Root: commitmenttypes.NewMerkleRoot(r.Bytes(32)),
				NextValidatorsHash: s.tset.Hash()}
			s.c.latest = newer
		}
	case "low-power":
		for i := range h2.Commit.Signatures {
			if i > 0 || r.Bool() {
				absent(&h2.Commit.Signatures[i])
			}
		}
	case "other-revision":
		h1 = mk("testchain2-3", s.height, s.time, s.uset, s.usign)
		h2 = mk("testchain2-3", s.height, s.time.Add(-time.Second), s.uset, s.usign)
	case "not-own-two-thirds":
		// enough trusted power, but the header's own (bigger) set has not signed with > 2/3
		big, bsign := l.keys.set([]int{0, 1, 2, 3, 4, 5, 6}, []int64{1, 1, 1, 1, 1, 1, 1})
		h2 = mk(s.c.chain, s.height, s.time.Add(-time.Second), big, bsign)
		for i := range h2.Commit.Signatures {
			if i >= 3 {
				absent(&h2.Commit.Signatures[i])
			}
		}
	case "tvals-disjoint":
		nk := len(l.keys.pvs)
		dis, dsign := l.keys.set([]int{nk - 1, nk - 2}, []int64{5, 5})
		h2 = mk(s.c.chain, s.height, s.time.Add(-time.Second), dis, dsign)
	}
	l.emitMisb(o, s.c, h1, h2, mut)
}


// famValidate: ClientState.Validate on one-field variations of a valid client state, and 02-client CreateClient
// with the same states (regression of finding F9: trust levels that do not fit int64 must be refused).
func famValidate(e *env, r *hx.Rng, o *hx.Out) {
	mk := func() *ibctm.ClientState {
		return ibctm.NewClientState("testchain2-1", ibctm.DefaultTrustLevel, ibctesting.TrustingPeriod, ibctesting.UnbondingPeriod,
			ibctesting.MaxClockDrift, clienttypes.NewHeight(1, 10), commitmenttypes.GetSDKSpecs(), ibctesting.UpgradePath)
	}
	variants := []string{"valid", "tl-wrap", "tl-num-big", "tl-den-big", "tl-max", "tl-zero-den", "tl-below-third", "tl-above-one", "tl-one",
		"tl-two-thirds", "chain-blank", "chain-empty", "chain-long", "chain-50", "trusting-zero", "trusting-neg", "unbonding-zero", "drift-zero",
		"revision-mismatch", "height-zero", "trusting-eq-unbonding", "trusting-gt-unbonding", "specs-nil", "upath-blank", "upath-empty", "no-revision",
		"huge-revision"}
	for rep := 0; rep < hx.N(2, 10); rep++ {
		for _, v := range variants {
			cs := mk()
			switch v {
			case "tl-wrap":
				cs.TrustLevel = ibctm.Fraction{Numerator: 1 << 62, Denominator: 3 << 62}
			case "tl-num-big":
				cs.TrustLevel = ibctm.Fraction{Numerator: 1<<63 + uint64(r.Intn(5)), Denominator: 1<<63 + 5 + uint64(r.Intn(5))}
			case "tl-den-big":
				cs.TrustLevel = ibctm.Fraction{Numerator: 1<<63 - 1 - uint64(r.Intn(3)), Denominator: 1<<63 + uint64(r.Intn(3))}
			case "tl-max":
				cs.TrustLevel = ibctm.Fraction{Numerator: 1<<63 - 1, Denominator: 1<<63 - 1}
			case "tl-zero-den":
				cs.TrustLevel = ibctm.Fraction{Numerator: 0, Denominator: 0}
			case "tl-below-third":
				cs.TrustLevel = ibctm.Fraction{Numerator: 1, Denominator: 4}
			case "tl-above-one":
				cs.TrustLevel = ibctm.Fraction{Numerator: 4, Denominator: 3}
			case "tl-one":
				cs.TrustLevel = ibctm.Fraction{Numerator: 7, Denominator: 7}
			case "tl-two-thirds":
				cs.TrustLevel = ibctm.Fraction{Numerator: 2, Denominator: 3}
			case "chain-blank":
				cs.ChainId = " \t "
			case "chain-empty":
				cs.ChainId = ""
			case "chain-long":
				cs.ChainId = "cccccccccccccccccccccccccccccccccccccccccccccccc-1x"
			case "chain-50":
				cs.ChainId = "cccccccccccccccccccccccccccccccccccccccccccccccc-1"
			case "trusting-zero":
				cs.TrustingPeriod = 0
			case "trusting-neg":
				cs.TrustingPeriod = -1
			case "unbonding-zero":
				cs.UnbondingPeriod = 0
			case "drift-zero":
				cs.MaxClockDrift = 0
			case "revision-mismatch":
				cs.LatestHeight = clienttypes.NewHeight(2, 10)
			case "height-zero":
				cs.LatestHeight = clienttypes.NewHeight(1, 0)
			case "trusting-eq-unbonding":
				cs.TrustingPeriod = cs.UnbondingPeriod
			case "trusting-gt-unbonding":
				cs.TrustingPeriod = cs.UnbondingPeriod + 1
			case "specs-nil":
				cs.ProofSpecs = nil
			case "upath-blank":
				cs.UpgradePath = []string{"upgrade", " "}
			case "upath-empty":
				cs.UpgradePath = nil
			case "no-revision":
				cs.ChainId = "plainchain"
				cs.LatestHeight = clienttypes.NewHeight(0, 10)
			case "huge-revision":
				cs.ChainId = "x-99999999999999999999999"
			}
			res := outcome(func() error { return cs.Validate() })
			o.Emit("validate", map[string]any{"c": projState("0", cs), "via": "validate"}, res, v)
			// the same state through MsgCreateClient's keeper path
			cctx, _ := e.A.GetContext().CacheContext()
			cons := &ibctm.ConsensusState{Timestamp: cctx.BlockTime(), Root: commitmenttypes.NewMerkleRoot(r.Bytes(32)), NextValidatorsHash: r.Bytes(32)}
			csBz, err1 := e.A.App.AppCodec().Marshal(cs)
			consBz, err2 := e.A.App.AppCodec().Marshal(cons)
			if err1 != nil || err2 != nil {
				panic("marshal")
			}
			cres := outcome(func() error {
				_, err := e.ibc().ClientKeeper.CreateClient(cctx, exported.Tendermint, csBz, consBz)
				return err
			})
			o.Emit("validate", map[string]any{"c": projState("0", cs), "via": "create"}, cres, v)
		}
	}
}

func famLight(t *testing.T, r *hx.Rng, o *hx.Out) {
	e := newEnv(t)
	w := e.newWorld(ibctesting.NewTendermintConfig(), ibctesting.NewTendermintConfig(), false)
	l := &lightEnv{e: e, cid: w.cid1, keys: newKeyring(r, 9)}
	famValidate(e, r, o)
	for rep := 0; rep < hx.N(8, 40); rep++ {
		for _, m := range headerMutations {
			l.genHeader(r, o, m)
		}
	}
	for rep := 0; rep < hx.N(6, 30); rep++ {
		for _, m := range misbMutations {
			l.genMisb(r, o, m)
		}
	}
}
