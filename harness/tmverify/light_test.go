package tmverify

import (
	"testing"

	"verif/harness/hx"
)

func famLight(t *testing.T, r *hx.Rng, o *hx.Out) {}
