package tmverify

import (
	"fmt"
	"time"

	storetypes "github.com/cosmos/cosmos-sdk/store/v2/types"
	sdk "github.com/cosmos/cosmos-sdk/types"

	clienttypes "github.com/cosmos/ibc-go/v11/modules/core/02-client/types"
	connectiontypes "github.com/cosmos/ibc-go/v11/modules/core/03-connection/types"
	channeltypes "github.com/cosmos/ibc-go/v11/modules/core/04-channel/types"
	commitmenttypes "github.com/cosmos/ibc-go/v11/modules/core/23-commitment/types"
	host "github.com/cosmos/ibc-go/v11/modules/core/24-host"
	"github.com/cosmos/ibc-go/v11/modules/core/exported"
	ibctm "github.com/cosmos/ibc-go/v11/modules/light-clients/07-tendermint"
	ibctesting "github.com/cosmos/ibc-go/v11/testing"

	"verif/harness/hx"
)

// hist records one history of operations on the tendermint clients of chain A: the initial projected world,
// the operations (inputs only) and, after each of them, the outcome class and the projected client states.
type hist struct {
	e      *env
	r      *hx.Rng
	now    time.Time
	height int64
	ids    []string // observed tendermint clients
	others []string // clients of another type (recorded in the initial world only)

	w0   map[string]any
	ops  []any
	obs  []any
	mem  [][]any
	non  [][]any
	encc [][]any
	encs [][]any

	proofIDs map[string]string
	extra    []extraRec
	pre      []any
	modes    map[string]int
}

// extraRec is a record of another kind produced while a history runs (emitted by finish).
type extraRec struct {
	kind string
	in   any
	out  any
	tag  string
}

// recStore wraps one client's prefix store and records every write (Set/Delete) that goes through it.
type recStore struct {
	storetypes.KVStore
	w *[][]string
}

func (r recStore) Set(key, value []byte) {
	*r.w = append(*r.w, []string{"set", hx.H(key)})
	r.KVStore.Set(key, value)
}

func (r recStore) Delete(key []byte) {
	*r.w = append(*r.w, []string{"del", hx.H(key)})
	r.KVStore.Delete(key)
}

// traceRecover runs the real 07-tendermint CheckSubstituteAndUpdateState on write-tracing stores (on a discarded
// cache context) and records the writes per namespace and the subject's metadata for the copied height.
func (h *hist) traceRecover(subj, subst string) {
	cctx, _ := h.ctx().CacheContext()
	k := h.e.ibc().ClientKeeper
	cs, ss := h.e.tmState(cctx, subj), h.e.tmState(cctx, subst)
	if cs == nil || ss == nil || subj == subst {
		return
	}
	pre := []any{h.e.projClient(cctx, subj), h.e.projClient(cctx, subst)}
	sw, tw := [][]string{}, [][]string{}
	sStore := recStore{KVStore: k.ClientStore(cctx, subj), w: &sw}
	tStore := recStore{KVStore: k.ClientStore(cctx, subst), w: &tw}
	res := outcome(func() error {
		return cs.CheckSubstituteAndUpdateState(cctx, h.e.A.App.AppCodec(), sStore, tStore, ss)
	})
	plain := k.ClientStore(cctx, subj)
	meta := map[string]any{"h": hj(ss.LatestHeight), "pt": nil, "ph": nil, "it": nil}
	if v, ok := ibctm.GetProcessedTime(plain, ss.LatestHeight); ok {
		meta["pt"] = hx.U(v)
	}
	if v, ok := ibctm.GetProcessedHeight(plain, ss.LatestHeight); ok {
		meta["ph"] = eh(v)
	}
	if v := ibctm.GetIterationKey(plain, ss.LatestHeight); v != nil {
		meta["it"] = hx.H(v)
	}
	h.extra = append(h.extra, extraRec{"recwrites", map[string]any{"c": pre[0], "s": pre[1]},
		map[string]any{"res": res, "subject": sw, "substitute": tw, "meta": meta}, "trace"})
}

// traceUpgrade runs the real VerifyUpgradeAndUpdateState on a write-tracing store (discarded cache context).
func (h *hist) traceUpgrade(cid string, uc *ibctm.ClientState, ucs *ibctm.ConsensusState, proofClient, proofCons []byte) {
	cctx, _ := h.ctx().CacheContext()
	k := h.e.ibc().ClientKeeper
	cs := h.e.tmState(cctx, cid)
	if cs == nil {
		return
	}
	ws := [][]string{}
	store := recStore{KVStore: k.ClientStore(cctx, cid), w: &ws}
	res := outcome(func() error {
		return cs.VerifyUpgradeAndUpdateState(cctx, h.e.A.App.AppCodec(), store, uc, ucs, proofClient, proofCons)
	})
	h.extra = append(h.extra, extraRec{"upgwrites", map[string]any{"h": hj(uc.LatestHeight)},
		map[string]any{"res": res, "writes": ws}, "trace"})
}

func newHist(e *env, r *hx.Rng, ids, others []string) *hist {
	base := e.A.GetContext()
	h := &hist{e: e, r: r, now: base.BlockTime(), height: base.BlockHeight(), ids: ids, others: others,
		proofIDs: map[string]string{}, modes: map[string]int{}}
	return h
}

func (h *hist) ctx() sdk.Context { return h.e.at(h.now, h.height) }

// begin snapshots the initial world (call after all set-up writes).
func (h *hist) begin() {
	ctx := h.ctx()
	cl := []any{}
	for _, id := range h.ids {
		cl = append(cl, h.e.projClient(ctx, id))
	}
	for _, id := range h.others {
		cl = append(cl, clientJ{ID: cidNum(id), Ty: "other"})
	}
	h.w0 = map[string]any{"now": ns(h.now), "self": eh(clienttypes.GetSelfHeight(ctx)), "clients": cl}
}

func (h *hist) observe(res string) {
	ctx := h.ctx()
	cl := []any{}
	for _, id := range h.ids {
		cl = append(cl, h.e.brief(ctx, id))
	}
	ob := map[string]any{"res": res, "cl": cl, "now": ns(h.now)}
	if h.pre != nil { // recovery and upgrade: full projections before and after, for the monitors
		ob["pre"] = h.pre
		ob["post"] = h.full()
		h.pre = nil
	}
	h.obs = append(h.obs, ob)
}

func (h *hist) full() []any {
	ctx := h.ctx()
	out := []any{}
	for _, id := range h.ids {
		out = append(out, h.e.projClient(ctx, id))
	}
	return out
}

func (h *hist) proofID(p []byte) string {
	k := string(p)
	if id, ok := h.proofIDs[k]; ok {
		return id
	}
	id := hx.HS(fmt.Sprintf("p%d", len(h.proofIDs)))
	h.proofIDs[k] = id
	return id
}

// run executes f on a cache context of chain A at the history's current time and writes it back only on
// success (what baseapp does for one message).
func (h *hist) run(f func(ctx sdk.Context) error) string {
	cctx, write := h.ctx().CacheContext()
	res := outcome(func() error { return f(cctx) })
	if res == "ok" {
		write()
	}
	return res
}

func (h *hist) finish(o *hx.Out, tag string) {
	ctx := h.ctx()
	final := []any{}
	for _, id := range h.ids {
		final = append(final, h.e.projClient(ctx, id))
	}
	o.Emit("hist",
		map[string]any{"w0": h.w0, "ops": h.ops, "mem": h.mem, "non": h.non, "encc": h.encc, "encs": h.encs},
		map[string]any{"obs": h.obs, "final": final}, tag)
	for _, x := range h.extra {
		o.Emit(x.kind, x.in, x.out, x.tag+"/"+tag)
	}
}

// ---- operations ------------------------------------------------------------------------------------

func (h *hist) advance(dt time.Duration, dh int64) {
	h.now = h.now.Add(dt)
	h.height += dh
	h.ops = append(h.ops, map[string]any{"op": "adv", "dt": i64(int64(dt)), "dh": i64(dh)})
	h.observe("ok")
}

func projMsg(m exported.ClientMessage, verdict bool) map[string]any {
	switch x := m.(type) {
	case *ibctm.Header:
		return map[string]any{"k": "hdr", "tr": hj(x.TrustedHeight), "h": eh(x.GetHeight()), "ts": ns(x.GetTime()),
			"root": hx.H(x.Header.GetAppHash()), "nvh": hx.H(x.Header.NextValidatorsHash), "v": verdict}
	case *ibctm.Misbehaviour:
		return map[string]any{"k": "misb", "h1": eh(x.Header1.GetHeight()), "h2": eh(x.Header2.GetHeight()),
			"bh1": hx.H(x.Header1.Commit.BlockID.Hash), "bh2": hx.H(x.Header2.Commit.BlockID.Hash),
			"t1": ns(x.Header1.GetTime()), "t2": ns(x.Header2.GetTime()), "v": verdict}
	}
	panic("unknown client message")
}

// update: 02-client UpdateClient with a header or misbehaviour; the verdict of the light client module's
// VerifyClientMessage is recorded separately (the model of this family is parametric in it).
func (h *hist) update(cid string, m exported.ClientMessage) string {
	m = h.e.roundTrip(cid, m)
	k := h.e.ibc().ClientKeeper
	verdict := false
	{
		cctx, _ := h.ctx().CacheContext()
		mod, err := k.Route(cctx, cid)
		if err == nil {
			hx.Catch(func() { verdict = mod.VerifyClientMessage(cctx, cid, m) == nil })
		}
	}
	res := h.run(func(ctx sdk.Context) error { return k.UpdateClient(ctx, cid, m) })
	h.ops = append(h.ops, map[string]any{"op": "upd", "c": cidNum(cid), "m": projMsg(m, verdict)})
	h.observe(res)
	return res
}

func (h *hist) memRow(cid string, ph clienttypes.Height, proof []byte, path [][]byte, value []byte) {
	ctx := h.ctx()
	cs := h.e.tmState(ctx, cid)
	if cs == nil {
		return
	}
	c := h.e.consAt(ctx, cid, ph)
	if c == nil {
		return
	}
	if h.e.memOK(cs, proof, c.Root.GetHash(), path, value) {
		h.mem = append(h.mem, []any{specsID(cs), h.proofID(proof), hx.H(c.Root.GetHash()), hexPath(path), hx.H(value)})
	}
}

func (h *hist) nonRow(cid string, ph clienttypes.Height, proof []byte, path [][]byte) {
	ctx := h.ctx()
	cs := h.e.tmState(ctx, cid)
	if cs == nil {
		return
	}
	c := h.e.consAt(ctx, cid, ph)
	if c == nil {
		return
	}
	if h.e.nonOK(cs, proof, c.Root.GetHash(), path) {
		h.non = append(h.non, []any{specsID(cs), h.proofID(proof), hx.H(c.Root.GetHash()), hexPath(path)})
	}
}

func ibcPath(key []byte) [][]byte { return [][]byte{[]byte(exported.StoreKey), key} }

// verifyMem: 02-client keeper VerifyMembership called directly (zero delay periods).
func (h *hist) verifyMem(cid string, ph clienttypes.Height, proof []byte, key, value []byte) string {
	path := ibcPath(key)
	h.memRow(cid, ph, proof, path, value)
	res := h.run(func(ctx sdk.Context) error {
		return h.e.ibc().ClientKeeper.VerifyMembership(ctx, cid, ph, 0, 0, proof, commitmenttypes.NewMerklePath(path...), value)
	})
	h.ops = append(h.ops, map[string]any{"op": "vmem", "via": "keeper", "c": cidNum(cid), "h": hj(ph), "p": h.proofID(proof),
		"path": hexPath(path), "val": hx.H(value)})
	h.observe(res)
	return res
}

func (h *hist) verifyNon(cid string, ph clienttypes.Height, proof []byte, key []byte) string {
	path := ibcPath(key)
	h.nonRow(cid, ph, proof, path)
	res := h.run(func(ctx sdk.Context) error {
		return h.e.ibc().ClientKeeper.VerifyNonMembership(ctx, cid, ph, 0, 0, proof, commitmenttypes.NewMerklePath(path...))
	})
	h.ops = append(h.ops, map[string]any{"op": "vnon", "c": cidNum(cid), "h": hj(ph), "p": h.proofID(proof), "path": hexPath(path)})
	h.observe(res)
	return res
}

// recv: 04-channel RecvPacket of a packet chain B really sent; the client is consulted through
// 03-connection VerifyPacketCommitment -> 02-client VerifyMembership.
func (h *hist) recv(cid string, pkt channeltypes.Packet, proof []byte, ph clienttypes.Height) string {
	key := host.PacketCommitmentKey(pkt.SourcePort, pkt.SourceChannel, pkt.Sequence)
	value := channeltypes.CommitPacket(pkt)
	path := ibcPath(key)
	h.memRow(cid, ph, proof, path, value)
	res := h.run(func(ctx sdk.Context) error {
		_, err := h.e.ibc().ChannelKeeper.RecvPacket(ctx, pkt, proof, ph)
		return err
	})
	h.ops = append(h.ops, map[string]any{"op": "vmem", "via": "recv", "c": cidNum(cid), "h": hj(ph), "p": h.proofID(proof),
		"path": hexPath(path), "val": hx.H(value)})
	h.observe(res)
	return res
}

// send: 04-channel SendPacket on chain A over the channel whose connection uses client cid.
func (h *hist) send(cid string, ep *ibctesting.Endpoint) string {
	res := h.run(func(ctx sdk.Context) error {
		_, err := h.e.ibc().ChannelKeeper.SendPacket(ctx, ep.ChannelConfig.PortID, ep.ChannelID,
			clienttypes.NewHeight(1, 1_000_000_000), 0, []byte("data"))
		return err
	})
	h.ops = append(h.ops, map[string]any{"op": "send", "c": cidNum(cid)})
	h.observe(res)
	return res
}

// connInit: 03-connection ConnOpenInit on client cid (result discarded).
func (h *hist) connInit(cid string) string {
	cctx, _ := h.ctx().CacheContext()
	res := outcome(func() error {
		cp := connectiontypes.NewCounterparty("07-tendermint-0", "", h.e.B.GetPrefix())
		_, err := h.e.ibc().ConnectionKeeper.ConnOpenInit(cctx, cid, cp, nil, 0)
		return err
	})
	h.ops = append(h.ops, map[string]any{"op": "conn", "c": cidNum(cid)})
	h.observe(res)
	return res
}

// chanInit: 04-channel ChanOpenInit over the (open) connection that uses client cid (result discarded).
func (h *hist) chanInit(cid string, ep *ibctesting.Endpoint) string {
	cctx, _ := h.ctx().CacheContext()
	res := outcome(func() error {
		cp := channeltypes.NewCounterparty(ep.ChannelConfig.PortID, "")
		_, err := h.e.ibc().ChannelKeeper.ChanOpenInit(cctx, channeltypes.UNORDERED, []string{ep.ConnectionID},
			ep.ChannelConfig.PortID, cp, ep.ChannelConfig.Version)
		return err
	})
	h.ops = append(h.ops, map[string]any{"op": "chan", "c": cidNum(cid)})
	h.observe(res)
	return res
}

func (h *hist) recoverClient(subj, subst string) string {
	h.traceRecover(subj, subst)
	h.pre = h.full()
	res := h.run(func(ctx sdk.Context) error { return h.e.ibc().ClientKeeper.RecoverClient(ctx, subj, subst) })
	h.ops = append(h.ops, map[string]any{"op": "rec", "s": cidNum(subj), "t": cidNum(subst)})
	h.observe(res)
	return res
}

// upgrade: 02-client UpgradeClient. The oracle rows are computed with the real proof verifier for the paths
// and values a correct or an incorrect implementation could plausibly present.
func (h *hist) upgrade(cid string, uc *ibctm.ClientState, ucs *ibctm.ConsensusState, proofClient, proofCons []byte, candHeights []clienttypes.Height) string {
	ctx := h.ctx()
	cdc := h.e.A.App.AppCodec()
	ucBz, err := clienttypes.MarshalClientState(cdc, uc)
	if err != nil {
		panic(err)
	}
	zc := uc.ZeroCustomFields()
	zcBz, err := clienttypes.MarshalClientState(cdc, zc)
	if err != nil {
		panic(err)
	}
	ucsBz, err := clienttypes.MarshalConsensusState(cdc, ucs)
	if err != nil {
		panic(err)
	}
	// value identifiers
	h.encc = append(h.encc, []any{projState("0", zc), hx.HS("ZC")})
	if string(ucBz) != string(zcBz) {
		h.encc = append(h.encc, []any{projState("0", uc), hx.HS("RC")})
	}
	h.encs = append(h.encs, []any{projCons(nil, ucs), hx.HS("CS")})
	if cs := h.e.tmState(ctx, cid); cs != nil && len(cs.UpgradePath) > 0 {
		if c := h.e.consAt(ctx, cid, cs.LatestHeight); c != nil {
			vals := map[string][]byte{"ZC": zcBz, "RC": ucBz, "CS": ucsBz}
			proofs := [][]byte{proofClient, proofCons}
			for _, ch := range append([]clienttypes.Height{cs.LatestHeight}, candHeights...) {
				for _, leaf := range []string{"upgradedClient", "upgradedConsState"} {
					path := [][]byte{}
					for i, k := range cs.UpgradePath {
						if i == len(cs.UpgradePath)-1 {
							k = fmt.Sprintf("%s/%d/%s", k, ch.RevisionHeight, leaf)
						}
						path = append(path, []byte(k))
					}
					for _, p := range proofs {
						for vid, v := range vals {
							if h.e.memOK(cs, p, c.Root.GetHash(), path, v) {
								h.mem = append(h.mem, []any{specsID(cs), h.proofID(p), hx.H(c.Root.GetHash()), hexPath(path), hx.HS(vid)})
							}
						}
					}
				}
			}
		}
	}
	// the keeper receives the Any values (MsgUpgradeClient.ClientState.Value)
	ucAny, err := clienttypes.PackClientState(uc)
	if err != nil {
		panic(err)
	}
	ucsAny, err := clienttypes.PackConsensusState(ucs)
	if err != nil {
		panic(err)
	}
	h.traceUpgrade(cid, uc, ucs, proofClient, proofCons)
	h.pre = h.full()
	res := h.run(func(ctx sdk.Context) error {
		return h.e.ibc().ClientKeeper.UpgradeClient(ctx, cid, ucAny.Value, ucsAny.Value, proofClient, proofCons)
	})
	h.ops = append(h.ops, map[string]any{"op": "upg", "c": cidNum(cid), "uc": projState("0", uc), "ucs": projCons(nil, ucs),
		"pc": h.proofID(proofClient), "ps": h.proofID(proofCons)})
	h.observe(res)
	return res
}
