package tmverify

import (
	"testing"

	"verif/harness/hx"
)

// TestFamily writes the trace of the `tmverify` scenario family.
func TestFamily(t *testing.T) {
	r := hx.NewRng("tmverify")
	o := hx.NewOut()
	defer o.Close()

	famChainID(r, o)
	famNewTrusting(r, o)
	famMatch(r, o)

	e := newEnv(t)
	famStatus(e, r, o)

	nb, nm := hx.N(10, 60), hx.N(24, 150)
	for i := 0; i < nb; i++ {
		if i%6 == 5 {
			e = newEnv(t)
		}
		famBoundary(e, r, o)
	}
	for i := 0; i < nm; i++ {
		if i%6 == 5 {
			e = newEnv(t)
		}
		famMixed(e, r, o)
	}
	e = newEnv(t)
	// recovery matrix: every subject/substitute/height combination with no parameter difference, then every
	// parameter difference on the otherwise successful combination, then random cells
	cnt := 0
	rec := func(a, b, c, d string) {
		cnt++
		if cnt%12 == 0 {
			e = newEnv(t)
		}
		famRecover(e, r, o, a, b, c, d)
	}
	for _, a := range recSubj {
		for _, b := range recSubst {
			rec(a, b, "lt", "none")
		}
	}
	for _, c := range recHeights {
		rec("frozen", "active", c, "none")
		rec("expired", "active", c, "none")
	}
	for _, d := range recDiff {
		rec("frozen", "active", "lt", d)
	}
	for i := 0; i < hx.N(12, 200); i++ {
		rec(recSubj[r.Intn(len(recSubj))], recSubst[r.Intn(len(recSubst))], recHeights[r.Intn(3)], recDiff[r.Intn(len(recDiff))])
	}
	for rep := 0; rep < hx.N(1, 6); rep++ {
		for _, v := range upgVariants {
			cnt++
			if cnt%12 == 0 {
				e = newEnv(t)
			}
			famUpgrade(e, r, o, v)
		}
	}
	famLight(t, r, o)
	t.Logf("records=%d", o.Count())
}
