package purekeys

import "verif/harness/hx"

func famC48(r *hx.Rng, o *hx.Out) {}
