package purekeys

import (
	portkeeper "github.com/cosmos/ibc-go/v11/modules/core/05-port/keeper"
	porttypes "github.com/cosmos/ibc-go/v11/modules/core/05-port/types"
	"github.com/cosmos/ibc-go/v11/modules/core/api"

	"verif/harness/hx"
)

type mod2 struct {
	api.IBCModule
	id int
}

type mod1 struct {
	porttypes.IBCModule
	id int
}

// genNames draws a pool of route names that share prefixes / substrings, plus a few non-alphanumeric ones.
func genNames(r *hx.Rng) []string {
	alnum := "ab1"
	base := []string{r.Str(alnum, 1, 3), r.Str(alnum, 1, 3), r.Pick([]string{"transfer", "wasm", "ica", "icahost"})}
	var pool []string
	for _, b := range base {
		pool = append(pool, b, b+r.Str(alnum, 1, 2), b+r.Str(alnum, 1, 1), b[:1+r.Intn(len(b))], r.Str(alnum, 1, 2)+b)
	}
	pool = append(pool, r.Pick([]string{"", "a-b", "a_b", "a.b", "a b", "icacontroller-x"}))
	return pool
}

func genPorts(r *hx.Rng, pool []string) []string {
	var ports []string
	for i := 0; i < 8; i++ {
		p := pool[r.Intn(len(pool))]
		switch r.Intn(4) {
		case 0:
			p += r.Str("ab1", 1, 2)
		case 1:
			p = r.Str("ab1", 1, 1) + p
		case 2:
			if len(p) > 1 {
				p = p[:len(p)-1]
			}
		}
		ports = append(ports, p)
	}
	return ports
}

type op2 struct {
	prefix bool
	name   string
	id     int
}

func runV2(ops []op2, ports []string) ([]bool, []any) {
	rtr := api.NewRouter()
	var acc []bool
	for _, o := range ops {
		m := &mod2{id: o.id}
		p, _ := hx.Catch(func() {
			if o.prefix {
				rtr.AddPrefixRoute(o.name, m)
			} else {
				rtr.AddRoute(o.name, m)
			}
		})
		acc = append(acc, !p)
	}
	var res []any
	for _, port := range ports {
		has := rtr.HasRoute(port)
		var got any
		p, _ := hx.Catch(func() {
			got = rtr.Route(port).(*mod2).id
		})
		if p {
			got = nil
		}
		res = append(res, []any{has, got})
	}
	return acc, res
}

func opsRec(ops []op2) []any {
	var out []any
	for _, o := range ops {
		out = append(out, []any{o.prefix, hx.HS(o.name), o.id})
	}
	return out
}

func famC48(r *hx.Rng, o *hx.Out) {
	n := hx.N(120, 1500)
	for i := 0; i < n; i++ {
		pool := genNames(r)
		nops := 1 + r.Intn(7)
		var ops []op2
		mode := r.Intn(3)
		tag := []string{"mixed", "mostly-compatible", "conflicting"}[mode]
		for j := 0; j < nops; j++ {
			name := pool[r.Intn(len(pool))]
			if mode == 1 {
				// distinct first letters: mostly accepted
				name = string(rune('c'+j)) + r.Str("ab1", 0, 2)
			}
			ops = append(ops, op2{prefix: r.Chance(1, 2), name: name, id: j + 1})
		}
		// the same registrations in another order
		perm := append([]op2{}, ops...)
		for j := len(perm) - 1; j > 0; j-- {
			k := r.Intn(j + 1)
			perm[j], perm[k] = perm[k], perm[j]
		}
		ports := genPorts(r, pool)
		if mode == 1 {
			for _, op := range ops {
				ports = append(ports, op.name, op.name+"x")
			}
		}
		a1, r1 := runV2(ops, ports)
		a2, r2 := runV2(perm, ports)
		var hp []string
		for _, p := range ports {
			hp = append(hp, hx.HS(p))
		}
		o.Emit("router2", []any{opsRec(ops), opsRec(perm), hp}, []any{a1, r1, a2, r2}, tag)
	}

	// v1 port router + Keeper.Route
	for i := 0; i < n; i++ {
		pool := genNames(r)
		nops := 1 + r.Intn(6)
		type op1 struct {
			seal bool
			name string
			id   int
		}
		var ops []op1
		sealAt := -1
		if r.Chance(1, 5) {
			sealAt = r.Intn(nops)
		}
		for j := 0; j < nops; j++ {
			ops = append(ops, op1{j == sealAt, pool[r.Intn(len(pool))], j + 1})
		}
		perm := append([]op1{}, ops...)
		for j := len(perm) - 1; j > 0; j-- {
			k := r.Intn(j + 1)
			perm[j], perm[k] = perm[k], perm[j]
		}
		ports := genPorts(r, pool)
		run := func(ops []op1) ([]bool, []any, []string) {
			rtr := porttypes.NewRouter()
			var acc []bool
			for _, op := range ops {
				m := &mod1{id: op.id}
				if op.seal {
					rtr.Seal()
				}
				p, _ := hx.Catch(func() { rtr.AddRoute(op.name, m) })
				acc = append(acc, !p)
			}
			k := portkeeper.NewKeeper()
			k.Router = rtr
			var res []any
			for _, port := range ports {
				m, ok := k.Route(port)
				if ok {
					res = append(res, m.(*mod1).id)
				} else {
					res = append(res, nil)
				}
			}
			var keys []string
			for _, kk := range rtr.Keys() {
				keys = append(keys, hx.HS(kk))
			}
			if keys == nil {
				keys = []string{}
			}
			return acc, res, keys
		}
		rec := func(ops []op1) []any {
			var out []any
			for _, op := range ops {
				out = append(out, []any{op.seal, hx.HS(op.name), op.id})
			}
			return out
		}
		a1, r1, k1 := run(ops)
		a2, r2, k2 := run(perm)
		var hp []string
		for _, p := range ports {
			hp = append(hp, hx.HS(p))
		}
		tag := "unsealed"
		if sealAt >= 0 {
			tag = "sealed-midway"
		}
		o.Emit("router1", []any{rec(ops), rec(perm), hp}, []any{a1, r1, k1, a2, r2, k2}, tag)
	}
}
