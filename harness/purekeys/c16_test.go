package purekeys

import (
	"sort"
	"testing"

	"github.com/cosmos/cosmos-sdk/codec"
	codectypes "github.com/cosmos/cosmos-sdk/codec/types"
	"github.com/cosmos/cosmos-sdk/runtime"
	storetypes "github.com/cosmos/cosmos-sdk/store/v2/types"
	"github.com/cosmos/cosmos-sdk/testutil"

	clientkeeper "github.com/cosmos/ibc-go/v11/modules/core/02-client/keeper"
	clienttypes "github.com/cosmos/ibc-go/v11/modules/core/02-client/types"
	connectionkeeper "github.com/cosmos/ibc-go/v11/modules/core/03-connection/keeper"
	channelkeeper "github.com/cosmos/ibc-go/v11/modules/core/04-channel/keeper"
	channeltypes "github.com/cosmos/ibc-go/v11/modules/core/04-channel/types"
	channelkeeperv2 "github.com/cosmos/ibc-go/v11/modules/core/04-channel/v2/keeper"
	channeltypesv2 "github.com/cosmos/ibc-go/v11/modules/core/04-channel/v2/types"
	host "github.com/cosmos/ibc-go/v11/modules/core/24-host"
	hostv2 "github.com/cosmos/ibc-go/v11/modules/core/24-host/v2"

	"verif/harness/hx"
)

// genValidID draws an identifier the host validators accept (any allowed characters), biased to short ones, to
// identifiers that embed key words, and to neighbours (a prefix / extension of prev).
func genValidID(r *hx.Rng, lo, hi int, prev ...string) (string, string) {
	words := []string{"ports", "channels", "sequences", "clients", "commitments", "acks", "receipts", "async_packet", "alias",
		"nextSequenceSend", "connections", "clientState", "consensusStates"}
	switch r.Intn(8) {
	case 0:
		return r.Str(idAlpha, lo, lo+3), "short"
	case 1:
		w := r.Pick(words)
		s := r.Str(idAlpha, 0, 3) + w + r.Str(idAlpha, 0, 3)
		for len(s) < lo {
			s += "x"
		}
		return s, "embeds-keyword"
	case 2:
		if len(prev) > 0 {
			p := prev[r.Intn(len(prev))]
			if r.Bool() && len(p) > lo {
				return p[:lo+r.Intn(len(p)-lo)], "prefix-of-other"
			}
			if len(p) < hi-3 {
				return p + r.Str(idAlpha, 1, 3), "extends-other"
			}
		}
		return r.Str(idAlpha, lo, hi), "random"
	case 3:
		return r.Str(idAlpha, hi, hi), "max-length"
	case 4:
		return r.Pick(realClientTypes[:5]) + "-" + hx.U(uint64(r.Intn(30))), "generated-client"
	case 5:
		return "channel-" + hx.U(uint64(r.Intn(30))), "generated-channel"
	case 6:
		return r.Str(digits+".", lo, lo+4), "digits-dots"
	default:
		return r.Str(idAlpha, lo, 20), "random"
	}
}

func genSeq(r *hx.Rng) uint64 {
	if r.Chance(1, 6) {
		// sequences whose big-endian bytes are identifier characters / key words
		b := []byte(r.Pick([]string{"abcalias", "-7\x01\x00\x00\x00\x00\x00", "A\x01\x00\x00\x00\x00\x00\x00", "/sequenc", "\x01\x02\x03////", "async_pa"}))
		var v uint64
		for _, c := range b {
			v = v<<8 | uint64(c)
		}
		return v
	}
	return r.U64B()
}

type keyRec struct {
	kind string
	args []string
	key  []byte
}

func famC16(t *testing.T, r *hx.Rng, o *hx.Out) {
	n := hx.N(60, 1000)
	var recs []any
	emit := func(kind string, args []string, key []byte, tag string) {
		o.Emit("key", append([]string{kind}, args...), hx.H(key), tag)
		_ = recs
	}
	var ports, chans []string
	for i := 0; i < n; i++ {
		p, t1 := genValidID(r, 2, 128, ports...)
		c, t2 := genValidID(r, 8, 64, chans...)
		ports = append(ports, p)
		chans = append(chans, c)
		s := genSeq(r)
		tag := t1 + "+" + t2
		hp, hc, hs := hx.HS(p), hx.HS(c), hx.U(s)
		switch i % 7 {
		case 0:
			emit("channelEnd", []string{hp, hc}, host.ChannelKey(p, c), tag)
			emit("nextRecv", []string{hp, hc}, host.NextSequenceRecvKey(p, c), tag)
		case 1:
			emit("nextAck", []string{hp, hc}, host.NextSequenceAckKey(p, c), tag)
			emit("recvStart", []string{hp, hc}, host.RecvStartSequenceKey(p, c), tag)
		case 2:
			emit("commit", []string{hp, hc, hs}, host.PacketCommitmentKey(p, c, s), tag)
			emit("commitPrefix", []string{hp, hc}, host.PacketCommitmentPrefixKey(p, c), tag)
		case 3:
			emit("ack", []string{hp, hc, hs}, host.PacketAcknowledgementKey(p, c, s), tag)
			emit("ackPrefix", []string{hp, hc}, host.PacketAcknowledgementPrefixKey(p, c), tag)
		case 4:
			emit("receipt", []string{hp, hc, hs}, host.PacketReceiptKey(p, c, s), tag)
			emit("channelPath", []string{hp, hc}, []byte(host.ChannelPath(p, c)), tag)
		case 5:
			emit("connection", []string{hc}, host.ConnectionKey(c), t2)
			emit("nextSend", []string{hc}, hostv2.NextSequenceSendKey(c), t2)
			emit("filteredPort", []string{hp}, channeltypes.FilteredPortPrefix(p), t1)
		default:
			path := r.Pick([]string{"clientState", "connections", "counterparty", "config", "creator", "consensusStates/1-5", "iterateConsensusStates" + string(r.Bytes(16)), "a/b/c", ""})
			emit("client", []string{hc, hx.HS(path)}, host.FullClientKey(c, []byte(path)), t2)
			emit("clientState", []string{hc}, host.FullClientStateKey(c), t2)
			h := clienttypes.NewHeight(r.U64B(), r.U64B())
			emit("consensusState", []string{hc, hx.U(h.RevisionNumber), hx.U(h.RevisionHeight)}, host.FullConsensusStateKey(c, h), t2)
			emit("clientConnections", []string{hc}, host.ClientConnectionsKey(c), t2)
			emit("prefixedClientStore", []string{hp}, host.PrefixedClientStoreKey([]byte(p)), t1)
		}
		// v2 and keeper-private kinds
		switch i % 3 {
		case 0:
			emit("commit2", []string{hc, hs}, hostv2.PacketCommitmentKey(c, s), t2)
			emit("commit2Prefix", []string{hc}, hostv2.PacketCommitmentPrefixKey(c), t2)
			emit("async", []string{hc, hs}, channeltypesv2.AsyncPacketKey(c, s), t2)
		case 1:
			emit("receipt2", []string{hc, hs}, hostv2.PacketReceiptKey(c, s), t2)
			emit("receipt2Prefix", []string{hc}, hostv2.PacketReceiptPrefixKey(c), t2)
			emit("asyncPrefix", []string{hc}, channeltypesv2.AsyncPacketPrefixKey(c), t2)
		default:
			emit("ack2", []string{hc, hs}, hostv2.PacketAcknowledgementKey(c, s), t2)
			emit("ack2Prefix", []string{hc}, hostv2.PacketAcknowledgementPrefixKey(c), t2)
			emit("alias", []string{hc}, channeltypesv2.AliasKey(c), t2)
		}
	}
	for _, k := range []string{clienttypes.KeyNextClientSequence, "nextConnectionSequence", channeltypes.KeyNextChannelSequence, clienttypes.ParamsKey, "connectionParams"} {
		emit("single", []string{hx.HS(k)}, []byte(k), "constant")
	}
	famC16Stores(t, r, o)
}

type wr struct {
	kind string
	a, b string
	seq  uint64
}

// famC16Stores drives the real keepers on one shared IBC store: prefix iteration per channel / client over mixed
// v1, v2 and async content, and writes through ClientStore.
func famC16Stores(t *testing.T, r *hx.Rng, o *hx.Out) {
	hists := hx.N(60, 400)
	cdc := codec.NewProtoCodec(codectypes.NewInterfaceRegistry())
	for h := 0; h < hists; h++ {
		key := storetypes.NewKVStoreKey("ibc")
		tctx := testutil.DefaultContextWithDB(t, key, storetypes.NewTransientStoreKey("transient_test"))
		ctx := tctx.Ctx
		ss := runtime.NewKVStoreService(key)
		ck := clientkeeper.NewKeeper(cdc, ss, nil)
		nk := connectionkeeper.NewKeeper(cdc, ss, ck)
		hk := channelkeeper.NewKeeper(cdc, ss, ck, nk, nil, nil)
		k2 := channelkeeperv2.NewKeeper(cdc, ss, ck, nil, nk)

		mode := r.Intn(4)
		tag := []string{"generated-ids", "arbitrary-valid-ids", "neighbour-ids", "collision-ids"}[mode]
		var ids, ports []string
		switch mode {
		case 0:
			for i := 0; i < 4; i++ {
				ids = append(ids, r.Pick(realClientTypes[:5])+"-"+hx.U(uint64(r.Intn(12))), "channel-"+hx.U(uint64(r.Intn(12))))
			}
			ports = []string{"transfer", "icahost", "transfer2"}
		case 1:
			for i := 0; i < 6; i++ {
				s, _ := genValidID(r, 8, 40, ids...)
				ids = append(ids, s)
				p, _ := genValidID(r, 2, 40, ports...)
				ports = append(ports, p)
			}
		case 2:
			base := r.Str(idAlpha, 8, 12)
			ids = []string{base, base + "1", base + "-1", base + "10", base[:len(base)-1] + "xx", base + r.Str(idAlpha, 1, 2)}
			ports = []string{"transfer", "transfe", "transfer.", "transferr"}
		default:
			// identifiers the validators accept but no chain generates: "<id>async_packet<...>"
			base := r.Pick(realClientTypes[:3]) + "-" + hx.U(uint64(r.Intn(3)))
			ids = []string{base, base + "async_packet", base + "async_packetA", base + "async_packet-7", base + "async_packetabc"}
			ports = []string{"transfer", "ports"}
		}
		seen := map[string]bool{}
		var writes []any
		nw := 3 + r.Intn(hx.N(14, 30))
		for i := 0; i < nw; i++ {
			id := ids[r.Intn(len(ids))]
			p := ports[r.Intn(len(ports))]
			s := uint64(r.Intn(6))
			if r.Chance(1, 3) {
				s = genSeq(r)
			}
			kind := r.Pick([]string{"commit", "commit2", "receipt2", "ack2", "async", "ack", "receipt"})
			var rawKey []byte
			switch kind {
			case "commit":
				rawKey = host.PacketCommitmentKey(p, id, s)
			case "ack":
				rawKey = host.PacketAcknowledgementKey(p, id, s)
			case "receipt":
				rawKey = host.PacketReceiptKey(p, id, s)
			case "commit2":
				rawKey = hostv2.PacketCommitmentKey(id, s)
			case "receipt2":
				rawKey = hostv2.PacketReceiptKey(id, s)
			case "ack2":
				rawKey = hostv2.PacketAcknowledgementKey(id, s)
			case "async":
				rawKey = channeltypesv2.AsyncPacketKey(id, s)
			}
			if seen[string(rawKey)] {
				continue
			}
			seen[string(rawKey)] = true
			switch kind {
			case "commit":
				hk.SetPacketCommitment(ctx, p, id, s, []byte{1})
			case "ack":
				hk.SetPacketAcknowledgement(ctx, p, id, s, []byte{1})
			case "receipt":
				hk.SetPacketReceipt(ctx, p, id, s)
			case "commit2":
				k2.SetPacketCommitment(ctx, id, s, []byte{1})
			case "receipt2":
				k2.SetPacketReceipt(ctx, id, s)
			case "ack2":
				k2.SetPacketAcknowledgement(ctx, id, s, []byte{1})
			case "async":
				k2.SetAsyncPacket(ctx, id, s, channeltypesv2.Packet{Sequence: s, SourceClient: id})
			}
			writes = append(writes, []string{kind, hx.HS(p), hx.HS(id), hx.U(s)})
		}
		nq := hx.N(4, 8)
		for q := 0; q < nq; q++ {
			id := ids[r.Intn(len(ids))]
			p := ports[r.Intn(len(ports))]
			qk := r.Pick([]string{"commit", "commit2", "receipt2", "ack2", "async"})
			var out any
			var seqs []uint64
			panicked, _ := hx.Catch(func() {
				switch qk {
				case "commit":
					for _, ps := range hk.GetAllPacketCommitmentsAtChannel(ctx, p, id) {
						seqs = append(seqs, ps.Sequence)
					}
				case "commit2":
					for _, ps := range k2.GetAllPacketCommitmentsForClient(ctx, id) {
						seqs = append(seqs, ps.Sequence)
					}
				case "receipt2":
					for _, ps := range k2.GetAllPacketReceiptsForClient(ctx, id) {
						seqs = append(seqs, ps.Sequence)
					}
				case "ack2":
					for _, ps := range k2.GetAllPacketAcknowledgementsForClient(ctx, id) {
						seqs = append(seqs, ps.Sequence)
					}
				case "async":
					for _, ps := range k2.GetAllAsyncPacketsForClient(ctx, id) {
						seqs = append(seqs, ps.Sequence)
					}
				}
			})
			if !panicked {
				sort.Slice(seqs, func(i, j int) bool { return seqs[i] < seqs[j] })
				ss := []string{}
				for _, s := range seqs {
					ss = append(ss, hx.U(s))
				}
				out = ss
			}
			o.Emit("iter", []any{writes, []string{qk, hx.HS(p), hx.HS(id)}}, out, tag)
		}

		// ClientStore(id).Set(k): which raw key of the IBC store appears
		for q := 0; q < 2; q++ {
			id := ids[r.Intn(len(ids))]
			sub := r.Pick([]string{"clientState", "consensusStates/0-1", "x", "a/b", string(r.Bytes(5))}) + []string{"", "/1"}[q]
			before := rawKeys(ctx, key)
			ck.ClientStore(ctx, id).Set([]byte(sub), []byte{7})
			var added []string
			for k := range rawKeys(ctx, key) {
				if !before[k] {
					added = append(added, hx.HS(k))
				}
			}
			sort.Strings(added)
			o.Emit("client_store_write", []string{hx.HS(id), hx.HS(sub)}, added, tag)
		}
	}
}

func rawKeys(ctx interface {
	KVStore(storetypes.StoreKey) storetypes.KVStore
}, key storetypes.StoreKey) map[string]bool {
	out := map[string]bool{}
	it := ctx.KVStore(key).Iterator(nil, nil)
	defer it.Close()
	for ; it.Valid(); it.Next() {
		out[string(it.Key())] = true
	}
	return out
}
