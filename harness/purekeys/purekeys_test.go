package purekeys

import (
	"testing"

	"verif/harness/hx"
)

// TestFamily writes the trace of the `purekeys` scenario family (C07, C15, C16, C48).
func TestFamily(t *testing.T) {
	r := hx.NewRng("purekeys")
	o := hx.NewOut()
	defer o.Close()
	famC07a(r, o)
	famC15(t, r, o)
	famC07b(r, o)
	famC16(t, r, o)
	famC07c(r, o)
	famC48(r, o)
	t.Logf("records=%d", o.Count())
}
