package purekeys

import (
	"testing"

	"verif/harness/hx"
)

// TestFamily writes the trace of the `purekeys` scenario family (C07, C15, C16, C48).
func TestFamily(t *testing.T) {
	r := hx.NewRng("purekeys")
	o := hx.NewOut()
	defer o.Close()
	famC15(t, r, o)
	famC16(t, r, o)
	famC07(r, o)
	famC48(r, o)
	t.Logf("records=%d", o.Count())
}
