package purekeys

import (
	"strings"
	"testing"

	"github.com/cosmos/cosmos-sdk/runtime"
	storetypes "github.com/cosmos/cosmos-sdk/store/v2/types"
	"github.com/cosmos/cosmos-sdk/testutil"
	sdk "github.com/cosmos/cosmos-sdk/types"

	clientkeeper "github.com/cosmos/ibc-go/v11/modules/core/02-client/keeper"
	clienttypes "github.com/cosmos/ibc-go/v11/modules/core/02-client/types"
	connectionkeeper "github.com/cosmos/ibc-go/v11/modules/core/03-connection/keeper"
	connectiontypes "github.com/cosmos/ibc-go/v11/modules/core/03-connection/types"
	channelkeeper "github.com/cosmos/ibc-go/v11/modules/core/04-channel/keeper"
	channeltypes "github.com/cosmos/ibc-go/v11/modules/core/04-channel/types"
	host "github.com/cosmos/ibc-go/v11/modules/core/24-host"

	"verif/harness/hx"
)

const (
	digits   = "0123456789"
	lower    = "abcdefghijklmnopqrstuvwxyz"
	upper    = "ABCDEFGHIJKLMNOPQRSTUVWXYZ"
	idPunct  = "._+-#[]<>"
	idAlpha  = digits + lower + upper + idPunct
	badPunct = "/ \t\n!@$%^&*()=,;:'\"\\|~`{}?"
)

var spaceRunes = runeStrings(0x20, 0x09, 0x0a, 0x0b, 0x0c, 0x0d, 0x85, 0xa0, 0x1680, 0x2000, 0x2001, 0x2005, 0x200a,
	0x2028, 0x2029, 0x202f, 0x205f, 0x3000)

func runeStrings(rs ...rune) []string {
	var out []string
	for _, c := range rs {
		out = append(out, string(c))
	}
	return out
}

// near-miss byte sequences: not white space although they share lead bytes with white space runes
var nearSpace = append([]string{"\xc2", "\xc2\x84", "\xc2\xa1", "\xe2\x80", "\xe2\x80\x8b", "\xe2\x80\xa7", "\xe2\x81\x9e", "\xe3\x80\x81",
	"\xe1\x9a\x81", "\x00", "\x1c", "\x1f", "\x7f", "\xff", "\xe2", "\xe1\x9a", "\xc0\xa0", "\xe2\x80\x8a\xe2"},
	runeStrings(0x200b, 0xfeff, 0x180e, 0x2060, 0x84, 0xa1)...)

var realClientTypes = []string{"07-tendermint", "06-solomachine", "08-wasm", "09-localhost", "attestations", "tendermint", "x", "a-b", "10-gno"}

func blankish(r *hx.Rng) string {
	var sb strings.Builder
	n := r.Intn(5)
	for i := 0; i < n; i++ {
		sb.WriteString(r.Pick(spaceRunes))
	}
	switch r.Intn(4) {
	case 0:
		sb.WriteString(r.Pick(nearSpace))
	case 1:
		sb.WriteString(r.Str(idAlpha, 1, 2))
	}
	m := r.Intn(3)
	for i := 0; i < m; i++ {
		sb.WriteString(r.Pick(spaceRunes))
	}
	return sb.String()
}

// genIdentLike draws a string around the boundaries of the identifier validators.
func genIdentLike(r *hx.Rng) (string, string) {
	switch r.Intn(12) {
	case 0:
		return r.Str(idAlpha, 1, 12), "idchars-short"
	case 1:
		lens := []int{1, 2, 3, 4, 7, 8, 9, 10, 11, 63, 64, 65, 127, 128, 129}
		n := lens[r.Intn(len(lens))]
		return r.Str(idAlpha, n, n), "idchars-boundary-length"
	case 2:
		s := []byte(r.Str(idAlpha, 4, 20))
		s[r.Intn(len(s))] = badPunct[r.Intn(len(badPunct))]
		return string(s), "one-bad-char"
	case 3:
		s := []byte(r.Str(idAlpha, 4, 20))
		s[r.Intn(len(s))] = '/'
		return string(s), "one-slash"
	case 4:
		return blankish(r), "blankish"
	case 5:
		s := []byte(r.Str(idAlpha, 4, 20))
		s[r.Intn(len(s))] = byte(128 + r.Intn(128))
		return string(s), "one-high-byte"
	case 6:
		return r.Str(idAlpha, 2, 10) + "\n", "trailing-newline"
	case 7:
		return "", "empty"
	case 8:
		return string(r.Bytes(r.Intn(12))), "random-bytes"
	case 9:
		return r.Pick(realClientTypes) + "-" + hx.U(r.U64B()), "real-client-id"
	case 10:
		return r.Pick([]string{"channel-", "connection-"}) + hx.U(r.U64B()), "real-chan-conn-id"
	default:
		return r.Pick([]string{"transfer", "icahost", "icacontroller-" + r.Str(lower+digits, 1, 60), "wasm." + r.Str(lower+digits, 10, 120)}), "port-like"
	}
}

func genClientType(r *hx.Rng) (string, string) {
	wordc := digits + lower + upper + "_"
	switch r.Intn(12) {
	case 0, 1:
		return r.Pick(realClientTypes), "real"
	case 2:
		return r.Str(wordc+"-", 1, 12), "word-dash"
	case 3:
		return r.Str(wordc, 1, 3), "short-word"
	case 4:
		return "-" + r.Str(wordc, 1, 5), "leading-dash"
	case 5:
		return r.Str(wordc, 1, 5) + "-", "trailing-dash"
	case 6:
		// length boundaries of ValidateClientType: len+2 >= 4 and len+21 <= 64
		lens := []int{1, 2, 3, 42, 43, 44, 45}
		n := lens[r.Intn(len(lens))]
		return r.Str(lower, n, n), "length-boundary"
	case 7:
		s := []byte(r.Str(wordc, 2, 10))
		s[r.Intn(len(s))] = (idPunct + badPunct)[r.Intn(len(idPunct)+len(badPunct))]
		return string(s), "one-nonword-char"
	case 8:
		return blankish(r), "blankish"
	case 9:
		return r.Str(wordc, 1, 4) + strings.Repeat("-", 1+r.Intn(3)) + r.Str(wordc, 1, 4), "dash-run"
	case 10:
		return r.Str(wordc, 1, 4) + "-" + r.Str(digits, 1, 4), "type-ending-in-digits"
	default:
		return "", "empty"
	}
}

func genSeqString(r *hx.Rng) (string, string) {
	switch r.Intn(10) {
	case 0:
		return hx.U(r.U64B()), "u64"
	case 1:
		n := 1 + r.Intn(21)
		return r.Str(digits, n, n), "digits-1-21"
	case 2:
		return "0" + r.Str(digits, 0, 19), "leading-zero"
	case 3:
		return r.Pick([]string{"18446744073709551615", "18446744073709551616", "18446744073709551614", "99999999999999999999", "100000000000000000000", "00000000000000000000", "000000000000000000000"}), "u64-boundary"
	case 4:
		return "", "empty"
	case 5:
		return r.Pick([]string{"+1", "-1", "1_0", "0x10", "1e3", " 1", "1 ", string(rune(0x661))}), "non-digit"
	case 6:
		return r.Str(digits, 20, 20), "digits-20"
	default:
		return hx.U(uint64(r.Intn(1000))), "small"
	}
}

func optSeq(seq uint64, err error) any {
	if err != nil {
		return nil
	}
	return hx.U(seq)
}

func famC15(t *testing.T, r *hx.Rng, o *hx.Out) {
	n := hx.N(50, 800)

	// strings.TrimSpace(s) == "" as used by the validators
	for i := 0; i < n; i++ {
		s := blankish(r)
		o.Emit("blank", hx.HS(s), strings.TrimSpace(s) == "", "blankish")
	}

	// host validators and regexps
	for i := 0; i < 3*n; i++ {
		s, tag := genIdentLike(r)
		o.Emit("valid_id", hx.HS(s), []bool{
			host.IsValidID(s),
			host.ClientIdentifierValidator(s) == nil,
			host.ConnectionIdentifierValidator(s) == nil,
			host.ChannelIdentifierValidator(s) == nil,
			host.PortIdentifierValidator(s) == nil,
			sdk.IsAlphaNumeric(s),
		}, tag)
	}

	// ValidateClientType, and format -> parse / validate for the accepted types
	for i := 0; i < 2*n; i++ {
		ct, tag := genClientType(r)
		ok := clienttypes.ValidateClientType(ct) == nil
		o.Emit("client_type", hx.HS(ct), ok, tag)
		seq := r.U64B()
		id := clienttypes.FormatClientIdentifier(ct, seq)
		o.Emit("client_fmt", []string{hx.HS(ct), hx.U(seq)}, hx.HS(id), tag)
		pt, ps, perr := clienttypes.ParseClientIdentifier(id)
		var res any
		if perr == nil {
			res = []string{hx.HS(pt), hx.U(ps)}
		}
		o.Emit("client_roundtrip", []string{hx.HS(ct), hx.U(seq)}, []any{ok, hx.HS(id), res, clienttypes.IsValidClientID(id),
			host.ClientIdentifierValidator(id) == nil}, tag)
	}

	// ParseClientIdentifier / IsClientIDFormat / IsValidClientID on composed strings
	for i := 0; i < 3*n; i++ {
		var id, tag string
		switch r.Intn(8) {
		case 0:
			id, tag = genIdentLike(r)
		case 1:
			id, tag = "09-localhost", "localhost"
		case 2:
			id, tag = "09-localhost-"+hx.U(uint64(r.Intn(3))), "localhost-n"
		case 3:
			ct, _ := genClientType(r)
			id, tag = ct+strings.Repeat("-", r.Intn(4)), "dashes-only"
		default:
			ct, t1 := genClientType(r)
			sq, t2 := genSeqString(r)
			id, tag = ct+"-"+sq, t1+"+"+t2
		}
		emitClientParse(o, id, tag)
	}

	// channel / connection identifiers
	for i := 0; i < 2*n; i++ {
		seq := r.U64B()
		o.Emit("chan_fmt", hx.U(seq), hx.HS(channeltypes.FormatChannelIdentifier(seq)))
		o.Emit("conn_fmt", hx.U(seq), hx.HS(connectiontypes.FormatConnectionIdentifier(seq)))
		cid := channeltypes.FormatChannelIdentifier(seq)
		o.Emit("chan_roundtrip", hx.U(seq), []any{hx.HS(cid), optSeq(channeltypes.ParseChannelSequence(cid)),
			channeltypes.IsValidChannelID(cid), host.ChannelIdentifierValidator(cid) == nil})
		nid := connectiontypes.FormatConnectionIdentifier(seq)
		o.Emit("conn_roundtrip", hx.U(seq), []any{hx.HS(nid), optSeq(connectiontypes.ParseConnectionSequence(nid)),
			connectiontypes.IsValidConnectionID(nid), host.ConnectionIdentifierValidator(nid) == nil})
	}
	for i := 0; i < 3*n; i++ {
		sq, tag := genSeqString(r)
		var pre string
		switch r.Intn(10) {
		case 0:
			pre, tag = "channel", tag+"/no-dash"
		case 1:
			pre, tag = "channel-channel-", tag+"/double-prefix"
		case 2:
			pre, tag = "xchannel-", tag+"/not-at-start"
		case 3:
			pre, tag = "Channel-", tag+"/case"
		case 4:
			pre, tag = "connection-connection-", tag+"/double-prefix"
		case 5:
			pre, tag = "", tag+"/no-prefix"
		default:
			pre = ""
		}
		if pre == "" && !strings.HasSuffix(tag, "/no-prefix") {
			emitChanParse(o, "channel-"+sq, tag)
			emitConnParse(o, "connection-"+sq, tag)
		} else {
			emitChanParse(o, pre+sq, tag)
			emitConnParse(o, pre+sq, tag)
		}
	}
	// host.ParseIdentifier directly: prefix occurring twice, not at the start, empty remainder
	for i := 0; i < n; i++ {
		pre := r.Pick([]string{"channel-", "connection-", "ab", "a"})
		var id, tag string
		switch r.Intn(5) {
		case 0:
			id, tag = pre+r.Str(digits, 0, 21), "prefixed"
		case 1:
			id, tag = pre+r.Str(digits, 0, 3)+pre+r.Str(digits, 0, 3), "prefix-twice"
		case 2:
			id, tag = r.Str(lower, 1, 2)+pre+r.Str(digits, 1, 3), "prefix-not-first"
		case 3:
			id, tag = r.Str(lower+digits+"-", 0, 12), "random"
		default:
			id, tag = pre+hx.U(r.U64B()), "valid"
		}
		o.Emit("parse_ident", []string{hx.HS(id), hx.HS(pre)}, optSeq(host.ParseIdentifier(id, pre)), tag)
	}

	famC15Counters(t, r, o)
}

func emitClientParse(o *hx.Out, id, tag string) {
	ct, seq, err := clienttypes.ParseClientIdentifier(id)
	var res any
	if err == nil {
		res = []string{hx.HS(ct), hx.U(seq)}
	}
	o.Emit("client_parse", hx.HS(id), []any{clienttypes.IsClientIDFormat(id), res, clienttypes.IsValidClientID(id),
		host.ClientIdentifierValidator(id) == nil}, tag)
}

func emitChanParse(o *hx.Out, id, tag string) {
	o.Emit("chan_parse", hx.HS(id), []any{channeltypes.IsChannelIDFormat(id), optSeq(channeltypes.ParseChannelSequence(id)),
		channeltypes.IsValidChannelID(id), host.ChannelIdentifierValidator(id) == nil}, tag)
}

func emitConnParse(o *hx.Out, id, tag string) {
	o.Emit("conn_parse", hx.HS(id), []any{connectiontypes.IsConnectionIDFormat(id), optSeq(connectiontypes.ParseConnectionSequence(id)),
		connectiontypes.IsValidConnectionID(id), host.ConnectionIdentifierValidator(id) == nil}, tag)
}

// famC15Counters drives the real keepers' Generate*Identifier on one shared IBC store. Each creation attempt runs
// on a cached context which is written back (the transaction commits) or dropped (the handler failed later).
func famC15Counters(t *testing.T, r *hx.Rng, o *hx.Out) {
	hists := hx.N(40, 300)
	for h := 0; h < hists; h++ {
		key := storetypes.NewKVStoreKey("ibc")
		tctx := testutil.DefaultContextWithDB(t, key, storetypes.NewTransientStoreKey("transient_test"))
		ctx := tctx.Ctx
		ss := runtime.NewKVStoreService(key)
		ck := clientkeeper.NewKeeper(nil, ss, nil)
		nk := connectionkeeper.NewKeeper(nil, ss, ck)
		hk := channelkeeper.NewKeeper(nil, ss, ck, nk, nil, nil)
		init := [3]uint64{r.U64B(), r.U64B(), r.U64B()}
		tag := "random-start"
		if r.Chance(1, 3) {
			init = [3]uint64{0, 0, 0}
			tag = "genesis-start"
		} else if r.Chance(1, 4) {
			// counters about to wrap: uint64 ++ wraps to 0 (outside the no-wrap hypothesis of the uniqueness theorem)
			init = [3]uint64{^uint64(0) - uint64(r.Intn(3)), ^uint64(0) - uint64(r.Intn(3)), ^uint64(0) - uint64(r.Intn(3))}
			tag = "near-wrap"
		}
		ck.SetNextClientSequence(ctx, init[0])
		nk.SetNextConnectionSequence(ctx, init[1])
		hk.SetNextChannelSequence(ctx, init[2])
		nops := 1 + r.Intn(hx.N(14, 40))
		var ops []any
		var outs []any
		for i := 0; i < nops; i++ {
			commit := r.Chance(2, 3)
			cctx, write := ctx.CacheContext()
			var id string
			var valid bool
			switch r.Intn(3) {
			case 0:
				ct := r.Pick(realClientTypes[:5])
				ops = append(ops, []any{"client", hx.HS(ct), commit})
				id = ck.GenerateClientIdentifier(cctx, ct)
				valid = clienttypes.IsValidClientID(id) && host.ClientIdentifierValidator(id) == nil
			case 1:
				ops = append(ops, []any{"connection", "", commit})
				id = nk.GenerateConnectionIdentifier(cctx)
				valid = connectiontypes.IsValidConnectionID(id) && host.ConnectionIdentifierValidator(id) == nil
			default:
				ops = append(ops, []any{"channel", "", commit})
				id = hk.GenerateChannelIdentifier(cctx)
				valid = channeltypes.IsValidChannelID(id) && host.ChannelIdentifierValidator(id) == nil
			}
			if commit {
				write()
			}
			outs = append(outs, []any{hx.HS(id), valid})
		}
		final := []string{hx.U(ck.GetNextClientSequence(ctx)), hx.U(nk.GetNextConnectionSequence(ctx)), hx.U(hk.GetNextChannelSequence(ctx))}
		o.Emit("counters", []any{[]string{hx.U(init[0]), hx.U(init[1]), hx.U(init[2])}, ops}, []any{outs, final}, tag)
	}
}
