package purekeys

import (
	"crypto/sha256"

	clienttypes "github.com/cosmos/ibc-go/v11/modules/core/02-client/types"
	channeltypes "github.com/cosmos/ibc-go/v11/modules/core/04-channel/types"
	channeltypesv2 "github.com/cosmos/ibc-go/v11/modules/core/04-channel/v2/types"

	"verif/harness/hx"
)

func genField(r *hx.Rng) []byte {
	switch r.Intn(8) {
	case 0:
		return nil
	case 1:
		return []byte(r.Pick([]string{"transfer", "ics20-1", "application/json", "application/x-solidity-abi", "a", "ab", "abc"}))
	case 2:
		return r.Bytes(r.Intn(4))
	case 3:
		// around the SHA-256 padding boundaries
		lens := []int{55, 56, 57, 63, 64, 65, 119, 120}
		return r.Bytes(lens[r.Intn(len(lens))])
	case 4:
		return r.Bytes(hx.N(100, 700) + r.Intn(80))
	default:
		return r.Bytes(r.Intn(40))
	}
}

type v2payload struct{ sp, dp, ver, enc, val []byte }

func (p v2payload) rec() []string {
	return []string{hx.H(p.sp), hx.H(p.dp), hx.H(p.ver), hx.H(p.enc), hx.H(p.val)}
}

func genPayload(r *hx.Rng) v2payload {
	return v2payload{genField(r), genField(r), genField(r), genField(r), genField(r)}
}

func emitV2(o *hx.Out, seq uint64, src, dest string, ts uint64, ps []v2payload, tag string) {
	pk := channeltypesv2.Packet{Sequence: seq, SourceClient: src, DestinationClient: dest, TimeoutTimestamp: ts}
	var recs [][]string
	for _, p := range ps {
		pk.Payloads = append(pk.Payloads, channeltypesv2.Payload{SourcePort: string(p.sp), DestinationPort: string(p.dp),
			Version: string(p.ver), Encoding: string(p.enc), Value: p.val})
		recs = append(recs, p.rec())
	}
	if recs == nil {
		recs = [][]string{}
	}
	o.Emit("pkt_commit2", []any{hx.U(seq), hx.HS(src), hx.HS(dest), hx.U(ts), recs}, hx.H(channeltypesv2.CommitPacket(pk)), tag)
}

func emitV1(o *hx.Out, data []byte, seq uint64, sp, sc, dp, dc string, th clienttypes.Height, ts uint64, tag string) {
	pk := channeltypes.NewPacket(data, seq, sp, sc, dp, dc, th, ts)
	o.Emit("pkt_commit1", []any{hx.U(ts), hx.U(th.RevisionNumber), hx.U(th.RevisionHeight), hx.H(data), hx.U(seq), hx.HS(sp), hx.HS(sc), hx.HS(dp), hx.HS(dc)},
		hx.H(channeltypes.CommitPacket(pk)), tag)
}

func emitAck2(o *hx.Out, acks [][]byte, tag string) {
	var hs []string
	for _, a := range acks {
		hs = append(hs, hx.H(a))
	}
	if hs == nil {
		hs = []string{}
	}
	o.Emit("ack_commit2", hs, hx.H(channeltypesv2.CommitAcknowledgement(channeltypesv2.Acknowledgement{AppAcknowledgements: acks})), tag)
}

// famC07 is split in three parts which TestFamily interleaves with the other properties' records, so that the
// SHA-256-heavy cases spread over several Coq evaluation shards.
func famC07a(r *hx.Rng, o *hx.Out) {
	n := hx.N(40, 500)

	// the Gallina SHA-256 against crypto/sha256 around the padding boundaries
	for _, l := range []int{0, 1, 3, 54, 55, 56, 57, 63, 64, 65, 111, 119, 120, 127, 128, 129, 191, 192, 200, 300} {
		m := r.Bytes(l)
		h := sha256.Sum256(m)
		o.Emit("sha256", hx.H(m), hx.H(h[:]), "boundary-length")
	}
	for i := 0; i < n/2; i++ {
		m := genField(r)
		h := sha256.Sum256(m)
		o.Emit("sha256", hx.H(m), hx.H(h[:]), "field")
	}

	// v1 packets: one-field variations of a base packet (committed and uncommitted fields)
	for i := 0; i < n; i++ {
		data := genField(r)
		th := clienttypes.NewHeight(r.U64B(), r.U64B())
		ts := r.U64B()
		seq := r.U64B()
		emitV1(o, data, seq, "transfer", "channel-0", "transfer", "channel-1", th, ts, "base")
		switch r.Intn(7) {
		case 0:
			emitV1(o, data, seq, "transfer", "channel-0", "transfer", "channel-1", th, ts+1, "timestamp+1")
		case 1:
			emitV1(o, data, seq, "transfer", "channel-0", "transfer", "channel-1", clienttypes.NewHeight(th.RevisionNumber+1, th.RevisionHeight), ts, "revision+1")
		case 2:
			emitV1(o, data, seq, "transfer", "channel-0", "transfer", "channel-1", clienttypes.NewHeight(th.RevisionNumber, th.RevisionHeight+1), ts, "height+1")
		case 3:
			emitV1(o, append(append([]byte{}, data...), 0), seq, "transfer", "channel-0", "transfer", "channel-1", th, ts, "data+zero-byte")
		case 4:
			// swap: the three 8-byte integers permuted
			emitV1(o, data, seq, "transfer", "channel-0", "transfer", "channel-1", clienttypes.NewHeight(ts, th.RevisionHeight), th.RevisionNumber, "swap-timestamp-revision")
		case 5:
			emitV1(o, data, seq+1, "icahost", "channel-7", "x", "channel-9", th, ts, "uncommitted-fields-changed")
		default:
			emitV1(o, data, seq, "transfer", "channel-0", "transfer", "channel-1", clienttypes.NewHeight(th.RevisionHeight, th.RevisionNumber), ts, "swap-revision-height")
		}
		ack := genField(r)
		o.Emit("ack_commit1", hx.H(ack), hx.H(channeltypes.CommitAcknowledgement(ack)), "ack")
	}

}

func famC07b(r *hx.Rng, o *hx.Out) {
	n := hx.N(40, 500)
	// v2 packets
	for i := 0; i < n; i++ {
		np := 1
		tag := "one-payload"
		switch r.Intn(6) {
		case 0:
			np, tag = 0, "no-payload"
		case 1:
			np, tag = 2+r.Intn(3), "few-payloads"
		case 2:
			np, tag = hx.N(6, 20)+r.Intn(4), "many-payloads"
		}
		var ps []v2payload
		for j := 0; j < np; j++ {
			ps = append(ps, genPayload(r))
		}
		dest := r.Pick([]string{"07-tendermint-0", "channel-3", "", "08-wasm-12", "x"})
		ts := r.U64B()
		seq := r.U64B()
		emitV2(o, seq, "07-tendermint-1", dest, ts, ps, tag)
		if np == 0 {
			continue
		}
		// one variation of the base packet
		k := r.Intn(np)
		q := append([]v2payload{}, ps...)
		switch r.Intn(9) {
		case 0:
			emitV2(o, seq, "07-tendermint-1", dest+"0", ts, ps, "dest-changed")
		case 1:
			emitV2(o, seq, "07-tendermint-1", dest, ts+1, ps, "timeout+1")
		case 2:
			// field boundary: move the last byte of the source port to the front of the destination port
			p := q[k]
			sp := append(append([]byte{}, p.sp...), 'a', 'b')
			dp := append([]byte{'c'}, p.dp...)
			q[k] = v2payload{sp, dp, p.ver, p.enc, p.val}
			emitV2(o, seq, "07-tendermint-1", dest, ts, q, "boundary-left")
			q2 := append([]v2payload{}, ps...)
			q2[k] = v2payload{sp[:len(sp)-1], append([]byte{'b'}, dp...), p.ver, p.enc, p.val}
			emitV2(o, seq, "07-tendermint-1", dest, ts, q2, "boundary-right")
		case 3:
			p := q[k]
			q[k] = v2payload{p.sp, p.dp, append(append([]byte{}, p.ver...), p.enc...), nil, p.val}
			emitV2(o, seq, "07-tendermint-1", dest, ts, q, "version-encoding-merged")
		case 4:
			if np >= 2 {
				q[0], q[np-1] = q[np-1], q[0]
				emitV2(o, seq, "07-tendermint-1", dest, ts, q, "payloads-reordered")
			}
		case 5:
			emitV2(o, seq, "07-tendermint-1", dest, ts, append(q, q[k]), "payload-duplicated")
		case 6:
			emitV2(o, seq, "07-tendermint-1", dest, ts, q[:np-1], "payload-dropped")
		case 7:
			emitV2(o, seq+1, "07-tendermint-9", dest, ts, ps, "uncommitted-fields-changed")
		default:
			p := q[k]
			q[k] = v2payload{p.dp, p.sp, p.ver, p.enc, p.val}
			emitV2(o, seq, "07-tendermint-1", dest, ts, q, "ports-swapped")
		}
	}

}

func famC07c(r *hx.Rng, o *hx.Out) {
	n := hx.N(40, 500)
	// v2 acknowledgements: order and count of the app acknowledgements
	for i := 0; i < n; i++ {
		na := r.Intn(5)
		var acks [][]byte
		for j := 0; j < na; j++ {
			acks = append(acks, genField(r))
		}
		emitAck2(o, acks, "base")
		switch r.Intn(4) {
		case 0:
			if na >= 2 {
				rev := append([][]byte{}, acks...)
				rev[0], rev[na-1] = rev[na-1], rev[0]
				emitAck2(o, rev, "reordered")
			}
		case 1:
			emitAck2(o, append(append([][]byte{}, acks...), nil), "empty-ack-appended")
		case 2:
			if na >= 2 {
				merged := append([][]byte{append(append([]byte{}, acks[0]...), acks[1]...)}, acks[2:]...)
				emitAck2(o, merged, "first-two-merged")
			}
		default:
			if na >= 1 {
				emitAck2(o, acks[:na-1], "last-dropped")
			}
		}
	}
}
