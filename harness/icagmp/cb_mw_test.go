package icagmp

import (
	"encoding/json"
	"fmt"
	"strings"
	"testing"

	dbm "github.com/cosmos/cosmos-db"

	"cosmossdk.io/log/v2"
	sdkmath "cosmossdk.io/math"

	storetypes "github.com/cosmos/cosmos-sdk/store/v2/types"
	simtestutil "github.com/cosmos/cosmos-sdk/testutil/sims"
	sdk "github.com/cosmos/cosmos-sdk/types"

	cbsimapp "github.com/cosmos/ibc-go/v11/modules/apps/callbacks/testing/simapp"
	transfertypes "github.com/cosmos/ibc-go/v11/modules/apps/transfer/types"
	clienttypes "github.com/cosmos/ibc-go/v11/modules/core/02-client/types"
	channeltypes "github.com/cosmos/ibc-go/v11/modules/core/04-channel/types"
	ibcexported "github.com/cosmos/ibc-go/v11/modules/core/exported"
	ibctesting "github.com/cosmos/ibc-go/v11/testing"

	"verif/harness/hx"
)

func cbSetupApp() (ibctesting.TestingApp, map[string]json.RawMessage) {
	app := cbsimapp.NewSimApp(log.NewNopLogger(), dbm.NewMemDB(), nil, true, simtestutil.EmptyAppOptions{})
	return app, app.DefaultGenesis()
}

const cbMaxGas = uint64(1_000_000) // maxCallbackGas of the callbacks simapp

// famCbMw drives the callbacks middleware entry points of the callbacks simapp's transfer stack
// (SendPacket via MsgTransfer, OnAcknowledgementPacket, OnTimeoutPacket, OnRecvPacket) with a scripted
// contract keeper over behaviour x (remaining gas, user limit) incl. boundaries.
func famCbMw(t *testing.T, r *hx.Rng, o *hx.Out) {
	coord := ibctesting.NewCustomAppCoordinator(t, 2, cbSetupApp)
	chainA := coord.GetChain(ibctesting.GetChainID(1))
	chainB := coord.GetChain(ibctesting.GetChainID(2))
	path := ibctesting.NewPath(chainA, chainB)
	path.EndpointA.ChannelConfig.PortID = ibctesting.TransferPort
	path.EndpointB.ChannelConfig.PortID = ibctesting.TransferPort
	path.EndpointA.ChannelConfig.Version = transfertypes.V1
	path.EndpointB.ChannelConfig.Version = transfertypes.V1
	path.Setup()
	appA := chainA.App.(*cbsimapp.SimApp)
	appB := chainB.App.(*cbsimapp.SimApp)
	sender := chainA.SenderAccount.GetAddress().String()
	receiver := chainB.SenderAccount.GetAddress().String()
	// escrow funds so that timeouts can refund
	if _, err := chainA.SendMsgs(transfertypes.NewMsgTransfer(ibctesting.TransferPort, path.EndpointA.ChannelID, sdk.NewCoin(sdk.DefaultBondDenom, sdkmath.NewInt(100000)),
		sender, receiver, clienttypes.NewHeight(1, 100000), 0, "")); err != nil {
		t.Fatal(err)
	}
	stackA, _ := chainA.App.GetIBCKeeper().PortKeeper.Route(transfertypes.ModuleName)
	stackB, _ := chainB.App.GetIBCKeeper().PortKeeper.Route(transfertypes.ModuleName)
	types := []string{"send_packet", "acknowledgement_packet", "timeout_packet", "receive_packet"}
	kinds := []string{"nil", "err", "panic"}
	n := hx.N(420, 4000)
	for i := 0; i < n; i++ {
		typ := types[r.Intn(len(types))]
		kind := kinds[r.Intn(3)]
		swallow := r.Chance(1, 6)
		app, chain := appA, chainA
		if typ == "receive_packet" {
			app, chain = appB, chainB
		}
		// gas configuration: the outer limit leaves `remaining` at callback time around the commit limit
		var gasField []any
		var gasJSON string
		commit := cbMaxGas
		cbkind := "wanted"
		switch r.Intn(12) {
		case 0:
			gasField, gasJSON = []any{"absent"}, ""
		case 1:
			gasField, gasJSON = []any{"string", hx.HS("")}, `, "gas_limit": ""`
		case 2:
			gasField, gasJSON, cbkind = []any{"notstring"}, `, "gas_limit": 5000`, "invalid"
		case 3:
			gasField, gasJSON, cbkind = []any{"string", hx.HS("12x")}, `, "gas_limit": "12x"`, "invalid"
		case 4:
			u := cbMaxGas + uint64(r.Intn(3)) - 1
			gasField, gasJSON = []any{"string", hx.HS(hx.U(u))}, fmt.Sprintf(`, "gas_limit": "%d"`, u)
			if u <= cbMaxGas {
				commit = u
			}
		default:
			u := uint64(50000 + r.Intn(600000))
			gasField, gasJSON = []any{"string", hx.HS(hx.U(u))}, fmt.Sprintf(`, "gas_limit": "%d"`, u)
			commit = u
		}
		key := "src_callback"
		if typ == "receive_packet" {
			key = "dest_callback"
		}
		memo := fmt.Sprintf(`{"%s": {"address": "contract"%s}}`, key, gasJSON)
		switch r.Intn(14) {
		case 0:
			memo, cbkind, gasField = "", "notcb", []any{"absent"}
		case 1:
			memo, cbkind, gasField = fmt.Sprintf(`{"%s": {"address": ""}}`, key), "invalid", []any{"absent"}
		}
		var limit uint64
		switch r.Intn(4) {
		case 0: // the relayer supplied less than the committed limit
			limit = 200000 + uint64(r.Intn(int(commit)/2+1))
		case 1: // around commit + what the application consumes
			limit = commit + uint64(r.Intn(120000))
		default:
			limit = 3_000_000 + uint64(r.Intn(1000))
		}
		ctx, _ := chain.GetContext().CacheContext()
		outer := storetypes.NewGasMeter(limit)
		ctx = ctx.WithGasMeter(outer)
		var c0, innerLimit any
		var used uint64
		usedMode := r.Intn(4)
		before := app.MockContractKeeper.GetStateEntryCounter(ctx.WithGasMeter(storetypes.NewInfiniteGasMeter()))
		script := func(c sdk.Context) (err error) {
			c0 = hx.U(outer.GasConsumed())
			lim := c.GasMeter().Limit()
			innerLimit = hx.U(lim)
			switch usedMode {
			case 0:
				used = lim + uint64(r.Intn(3)) - 1
			case 1:
				used = lim + 1 + uint64(r.Intn(5000))
			default:
				used = uint64(r.Intn(int(lim/2) + 1))
			}
			app.MockContractKeeper.SetStateEntryCounter(c.WithGasMeter(storetypes.NewInfiniteGasMeter()), before+1)
			if swallow {
				defer func() {
					if rec := recover(); rec != nil {
						if kind == "nil" {
							err = nil
						} else {
							err = errContract
						}
					}
				}()
			}
			c.GasMeter().ConsumeGas(used, execDescriptor)
			switch kind {
			case "err":
				return errContract
			case "panic":
				panic("verif contract panic")
			}
			return nil
		}
		k := app.MockContractKeeper
		k.IBCSendPacketCallbackFn = func(c sdk.Context, _, _ string, _ clienttypes.Height, _ uint64, _ []byte, _, _, _ string) error { return script(c) }
		k.IBCOnAcknowledgementPacketCallbackFn = func(c sdk.Context, _ channeltypes.Packet, _ []byte, _ sdk.AccAddress, _, _, _ string) error {
			return script(c)
		}
		k.IBCOnTimeoutPacketCallbackFn = func(c sdk.Context, _ channeltypes.Packet, _ sdk.AccAddress, _, _, _ string) error { return script(c) }
		k.IBCReceivePacketCallbackFn = func(c sdk.Context, _ ibcexported.PacketI, _ ibcexported.Acknowledgement, _, _ string) error { return script(c) }
		pd := transfertypes.NewFungibleTokenPacketData(sdk.DefaultBondDenom, "1", sender, receiver, memo)
		packet := channeltypes.NewPacket(pd.GetBytes(), 1, ibctesting.TransferPort, path.EndpointA.ChannelID, ibctesting.TransferPort, path.EndpointB.ChannelID, clienttypes.NewHeight(1, 100000), 0)
		var cls string
		var ackOK any
		var pv any
		func() {
			defer func() { pv = recover() }()
			switch typ {
			case "send_packet":
				_, err := appA.TransferKeeper.Transfer(ctx, transfertypes.NewMsgTransfer(ibctesting.TransferPort, path.EndpointA.ChannelID, sdk.NewCoin(sdk.DefaultBondDenom, sdkmath.NewInt(1)),
					sender, receiver, clienttypes.NewHeight(1, 100000), 0, memo))
				cls = "ret-" + okStr(err)
			case "acknowledgement_packet":
				err := stackA.OnAcknowledgementPacket(ctx, transfertypes.V1, packet, channeltypes.NewResultAcknowledgement([]byte{1}).Acknowledgement(), chainA.SenderAccount.GetAddress())
				cls = "ret-" + okStr(err)
			case "timeout_packet":
				err := stackA.OnTimeoutPacket(ctx, transfertypes.V1, packet, chainA.SenderAccount.GetAddress())
				cls = "ret-" + okStr(err)
			case "receive_packet":
				ack := stackB.OnRecvPacket(ctx, transfertypes.V1, packet, chainB.SenderAccount.GetAddress())
				ackOK = ack.Success()
				cls = "ret-ok"
				if !ack.Success() {
					cls = "ret-err"
				}
			}
		}()
		if pv != nil {
			if c0 == nil {
				continue // the application itself exhausted the relayer's gas before any callback ran
			}
			cls = "panic-contract"
			if e, ok := pv.(storetypes.ErrorOutOfGas); ok && e.Descriptor != execDescriptor {
				if strings.Contains(e.Descriptor, "out of gas; commitGasLimit") {
					cls = "panic-retry"
				} else {
					cls = "panic-outer-oog"
				}
			}
		}
		after := app.MockContractKeeper.GetStateEntryCounter(ctx.WithGasMeter(storetypes.NewInfiniteGasMeter()))
		o.Emit("cb_mw", []any{typ, kind, swallow, hx.U(limit), c0, gasField, cbkind, hx.U(used)},
			[]any{cls, innerLimit, hx.U(outer.GasConsumed()), int(after) - int(before), ackOK}, typ+"/"+cbkind+"/"+kind)
	}
}
