package icagmp

import (
	"strings"
	"testing"
	"time"

	"github.com/cosmos/gogoproto/proto"

	sdk "github.com/cosmos/cosmos-sdk/types"
	banktypes "github.com/cosmos/cosmos-sdk/x/bank/types"

	icacontrollertypes "github.com/cosmos/ibc-go/v11/modules/apps/27-interchain-accounts/controller/types"
	icatypes "github.com/cosmos/ibc-go/v11/modules/apps/27-interchain-accounts/types"
	channeltypes "github.com/cosmos/ibc-go/v11/modules/core/04-channel/types"
	host "github.com/cosmos/ibc-go/v11/modules/core/24-host"
	ibctesting "github.com/cosmos/ibc-go/v11/testing"

	"verif/harness/hx"
)

// versionIn describes a version string the way the model sees it: blank, unparseable, or metadata fields.
func versionIn(v string) []any {
	if strings.TrimSpace(v) == "" {
		return []any{"blank"}
	}
	md, err := icatypes.MetadataFromVersion(v)
	if err != nil {
		return []any{"bad"}
	}
	return []any{"meta", hx.HS(md.Version), hx.HS(md.ControllerConnectionId), hx.HS(md.HostConnectionId), hx.HS(md.Address), hx.HS(md.Encoding), hx.HS(md.TxType)}
}

type icaChanWorld struct {
	t              *testing.T
	coord          *ibctesting.Coordinator
	chainA, chainB *ibctesting.TestChain
	base           *ibctesting.Path
	connA, connB   string
	// controller channel id -> (port, order, host channel id or "")
	ctrlChans []string
	ctrlPort  map[string]string
	ctrlOrder map[string]channeltypes.Order
	hostOf    map[string]string // controller channel -> host channel
	ctrlOf    map[string]string // host channel -> controller channel
	hostChans []string
	pending   map[string]*channeltypes.Packet // controller channel -> an unreceived packet
	ports     []string
}

func chanNum(id string) string { return strings.TrimPrefix(id, "channel-") }

func (w *icaChanWorld) pathFor(ctrlChan string) *ibctesting.Path {
	p := ibctesting.NewPath(w.chainA, w.chainB).DisableUniqueChannelIDs()
	p.EndpointA.ClientID, p.EndpointB.ClientID = w.base.EndpointA.ClientID, w.base.EndpointB.ClientID
	p.EndpointA.ConnectionID, p.EndpointB.ConnectionID = w.connA, w.connB
	p.EndpointA.ChannelConfig.PortID = w.ctrlPort[ctrlChan]
	p.EndpointB.ChannelConfig.PortID = icatypes.HostPortID
	p.EndpointA.ChannelConfig.Order = w.ctrlOrder[ctrlChan]
	p.EndpointB.ChannelConfig.Order = w.ctrlOrder[ctrlChan]
	p.EndpointA.ChannelID = ctrlChan
	p.EndpointB.ChannelID = w.hostOf[ctrlChan]
	if ch, ok := w.chainA.App.GetIBCKeeper().ChannelKeeper.GetChannel(w.chainA.GetContext(), w.ctrlPort[ctrlChan], ctrlChan); ok {
		p.EndpointA.ChannelConfig.Version = ch.Version
		p.EndpointB.ChannelConfig.Version = ch.Version
	}
	if hc := w.hostOf[ctrlChan]; hc != "" {
		if ch, ok := w.chainB.App.GetIBCKeeper().ChannelKeeper.GetChannel(w.chainB.GetContext(), icatypes.HostPortID, hc); ok {
			p.EndpointB.ChannelConfig.Version = ch.Version
		}
	}
	return p
}

func stateName(s channeltypes.State) string {
	switch s {
	case channeltypes.INIT:
		return "init"
	case channeltypes.TRYOPEN:
		return "tryopen"
	case channeltypes.OPEN:
		return "open"
	case channeltypes.CLOSED:
		return "closed"
	}
	return "none"
}

// snapshot projects the state C38 talks about on both chains.
func (w *icaChanWorld) snapshot() map[string]any {
	ctxA, ctxB := w.chainA.GetContext(), w.chainB.GetContext()
	ck := w.chainA.GetSimApp().ICAControllerKeeper
	hk := w.chainB.GetSimApp().ICAHostKeeper
	var cActive, cAcc, hActive, hAcc []any
	for _, p := range w.ports {
		var a, ac, ha, hac any
		if id, ok := ck.GetActiveChannelID(ctxA, w.connA, p); ok {
			a = chanNum(id)
		}
		if ad, ok := ck.GetInterchainAccountAddress(ctxA, w.connA, p); ok {
			ac = hx.HS(ad)
		}
		if id, ok := hk.GetActiveChannelID(ctxB, w.connB, p); ok {
			ha = chanNum(id)
		}
		if ad, ok := hk.GetInterchainAccountAddress(ctxB, w.connB, p); ok {
			hac = hx.HS(ad)
		}
		cActive = append(cActive, []any{hx.HS(w.connA), hx.HS(p), a})
		cAcc = append(cAcc, []any{hx.HS(w.connA), hx.HS(p), ac})
		hActive = append(hActive, []any{hx.HS(w.connB), hx.HS(p), ha})
		hAcc = append(hAcc, []any{hx.HS(w.connB), hx.HS(p), hac})
	}
	var cCh, hCh []any
	for _, id := range w.ctrlChans {
		ch, _ := w.chainA.App.GetIBCKeeper().ChannelKeeper.GetChannel(ctxA, w.ctrlPort[id], id)
		cCh = append(cCh, []any{chanNum(id), stateName(ch.State)})
	}
	for _, id := range w.hostChans {
		ch, _ := w.chainB.App.GetIBCKeeper().ChannelKeeper.GetChannel(ctxB, icatypes.HostPortID, id)
		hCh = append(hCh, []any{chanNum(id), stateName(ch.State)})
	}
	return map[string]any{"c_active": cActive, "c_acc": cAcc, "c_chans": cCh, "h_active": hActive, "h_acc": hAcc, "h_chans": hCh,
		"c_next": hx.U(w.chainA.App.GetIBCKeeper().ChannelKeeper.GetNextChannelSequence(ctxA)),
		"h_next": hx.U(w.chainB.App.GetIBCKeeper().ChannelKeeper.GetNextChannelSequence(ctxB))}
}

func okStr(err error) string {
	if err != nil {
		return "err"
	}
	return "ok"
}

func orderName(o channeltypes.Order) string {
	if o == channeltypes.ORDERED {
		return "ordered"
	}
	return "unordered"
}

func (w *icaChanWorld) mkVersion(kind string) string {
	md := icatypes.NewDefaultMetadata(w.connA, w.connB)
	switch kind {
	case "blank":
		return ""
	case "spaces":
		return "  \t"
	case "default":
	case "json-enc":
		md.Encoding = icatypes.EncodingProto3JSON
	case "bad-enc":
		md.Encoding = "amino"
	case "bad-tx":
		md.TxType = "single_msg"
	case "wrong-ctrl":
		md.ControllerConnectionId = "connection-7"
	case "swapped": // the other side's identifiers: host id in the controller field and vice versa
		md.ControllerConnectionId, md.HostConnectionId = w.connB, w.connA
	case "host-as-ctrl":
		md.ControllerConnectionId = w.connB
	case "wrong-host":
		md.HostConnectionId = "connection-7"
	case "bad-version":
		md.Version = "ics27-2"
	case "unparseable":
		return "{not json"
	case "addr-valid":
		md.Address = "cosmos1abcdef0123456789"
	case "addr-invalid":
		md.Address = "not-alnum!"
	}
	return string(icatypes.ModuleCdc.MustMarshalJSON(&md))
}

var initVersionKinds = []string{"blank", "default", "default", "default", "json-enc", "bad-enc", "bad-tx", "wrong-ctrl", "wrong-host", "swapped", "host-as-ctrl", "bad-version", "unparseable", "addr-valid", "addr-invalid", "spaces"}

// newIcaChanWorld builds two chains with one connection.
func newIcaChanWorld(t *testing.T) *icaChanWorld {
	// three chains: the controller chain A first gets a connection and a (mock) channel to a third chain C, so that
	// the two ends of the A-B path have DIFFERENT connection identifiers (A: connection-1, B: connection-0) and the
	// two chains allocate different channel identifiers (A starts at channel-1, B at channel-0). Controller-side
	// store keys use A's connection id, host-side keys B's; a lookup with the wrong side's id must not go unnoticed.
	coord := ibctesting.NewCoordinator(t, 3)
	chainC := coord.GetChain(ibctesting.GetChainID(3))
	w := &icaChanWorld{t: t, coord: coord, chainA: coord.GetChain(ibctesting.GetChainID(1)), chainB: coord.GetChain(ibctesting.GetChainID(2)),
		ctrlPort: map[string]string{}, ctrlOrder: map[string]channeltypes.Order{}, hostOf: map[string]string{}, ctrlOf: map[string]string{}, pending: map[string]*channeltypes.Packet{}}
	pathAC := ibctesting.NewPath(w.chainA, chainC).DisableUniqueChannelIDs()
	pathAC.Setup()
	w.base = ibctesting.NewPath(w.chainA, w.chainB).DisableUniqueChannelIDs()
	w.base.SetupConnections()
	w.connA, w.connB = w.base.EndpointA.ConnectionID, w.base.EndpointB.ConnectionID
	if w.connA == w.connB {
		t.Fatalf("the two ends of the path must have different connection identifiers, both are %s", w.connA)
	}
	if w.chainA.App.GetIBCKeeper().ChannelKeeper.GetNextChannelSequence(w.chainA.GetContext()) ==
		w.chainB.App.GetIBCKeeper().ChannelKeeper.GetNextChannelSequence(w.chainB.GetContext()) {
		t.Fatal("the two chains must allocate different channel identifiers")
	}
	return w
}

func (w *icaChanWorld) owner(i int) ibctesting.SenderAccount { return w.chainA.SenderAccounts[i] }

func (w *icaChanWorld) noteCtrlChan(res []byte, id, port string, order channeltypes.Order) {
	w.ctrlChans = append(w.ctrlChans, id)
	w.ctrlPort[id] = port
	w.ctrlOrder[id] = order
}

// opRegister: MsgRegisterInterchainAccount signed by the owner.
func (w *icaChanWorld) opRegister(ownerIdx int, order channeltypes.Order, vkind string) (map[string]any, string) {
	acc := w.owner(ownerIdx)
	owner := acc.SenderAccount.GetAddress().String()
	version := w.mkVersion(vkind)
	msg := icacontrollertypes.NewMsgRegisterInterchainAccount(w.connA, owner, version, order)
	res, err := w.chainA.SendMsgsWithSender(acc, msg)
	resync(w.chainA, acc.SenderAccount)
	if err == nil {
		id, perr := ibctesting.ParseChannelIDFromEvents(res.Events)
		if perr != nil {
			w.t.Fatal(perr)
		}
		w.noteCtrlChan(nil, id, icatypes.ControllerPortPrefix+owner, order)
	}
	return map[string]any{"op": "register", "owner": hx.HS(owner), "conn": hx.HS(w.connA), "version": versionIn(version), "order": orderName(order)}, okStr(err)
}

// opInit: a plain MsgChannelOpenInit on an interchain-accounts controller port, signed by anyone.
func (w *icaChanWorld) opInit(port string, order channeltypes.Order, vkind, conn, cpPort string) (map[string]any, string) {
	version := w.mkVersion(vkind)
	anyone := w.owner(2) // neither of the two owners
	msg := channeltypes.NewMsgChannelOpenInit(port, version, order, []string{conn}, cpPort, anyone.SenderAccount.GetAddress().String())
	res, err := w.chainA.SendMsgsWithSender(anyone, msg)
	resync(w.chainA, anyone.SenderAccount)
	if err == nil {
		id, perr := ibctesting.ParseChannelIDFromEvents(res.Events)
		if perr != nil {
			w.t.Fatal(perr)
		}
		w.noteCtrlChan(nil, id, port, order)
	}
	return map[string]any{"op": "init", "port": hx.HS(port), "conn": hx.HS(conn), "cp_port": hx.HS(cpPort), "version": versionIn(version), "order": orderName(order)}, okStr(err)
}

// opTry: MsgChannelOpenTry on the host for a controller channel in INIT.
func (w *icaChanWorld) opTry(ctrlChan string) (map[string]any, string) {
	p := w.pathFor(ctrlChan)
	p.EndpointB.ChannelID = ""
	cpVersion := p.EndpointA.ChannelConfig.Version
	p.EndpointB.Counterparty.ChannelConfig.Version = cpVersion
	_, hadAcc := w.chainB.GetSimApp().ICAHostKeeper.GetInterchainAccountAddress(w.chainB.GetContext(), w.connB, w.ctrlPort[ctrlChan])
	err := p.EndpointB.ChanOpenTry()
	resync(w.chainB, w.chainB.SenderAccount)
	gen := ""
	if err == nil {
		w.hostOf[ctrlChan] = p.EndpointB.ChannelID
		w.ctrlOf[p.EndpointB.ChannelID] = ctrlChan
		w.hostChans = append(w.hostChans, p.EndpointB.ChannelID)
		if !hadAcc { // the freshly generated address depends on the block's app hash: an oracle input of the model
			a, _ := w.chainB.GetSimApp().ICAHostKeeper.GetInterchainAccountAddress(w.chainB.GetContext(), w.connB, w.ctrlPort[ctrlChan])
			gen = a
		}
	}
	return map[string]any{"op": "try", "order": orderName(w.ctrlOrder[ctrlChan]), "conn": hx.HS(w.connB), "cp_port": hx.HS(w.ctrlPort[ctrlChan]),
		"version": versionIn(cpVersion), "gen": hx.HS(gen), "cp_chan": chanNum(ctrlChan)}, okStr(err)
}

func (w *icaChanWorld) opAck(ctrlChan string) (map[string]any, string) {
	p := w.pathFor(ctrlChan)
	cpVersion := p.EndpointB.ChannelConfig.Version
	p.EndpointA.Counterparty.ChannelConfig.Version = cpVersion
	err := p.EndpointA.ChanOpenAck()
	resync(w.chainA, w.chainA.SenderAccount)
	return map[string]any{"op": "ack", "id": chanNum(ctrlChan), "version": versionIn(cpVersion)}, okStr(err)
}

func (w *icaChanWorld) opConfirm(hostChan string) (map[string]any, string) {
	p := w.pathFor(w.ctrlOf[hostChan])
	err := p.EndpointB.ChanOpenConfirm()
	resync(w.chainB, w.chainB.SenderAccount)
	return map[string]any{"op": "confirm", "id": chanNum(hostChan)}, okStr(err)
}

func (w *icaChanWorld) icaPacketData() icatypes.InterchainAccountPacketData {
	msg := &banktypes.MsgSend{FromAddress: w.chainB.SenderAccount.GetAddress().String(), ToAddress: w.chainB.SenderAccount.GetAddress().String(), Amount: sdk.NewCoins(sdk.NewInt64Coin(sdk.DefaultBondDenom, 1))}
	bz, err := icatypes.SerializeCosmosTx(w.chainA.GetSimApp().AppCodec(), []proto.Message{msg}, icatypes.EncodingProtobuf)
	if err != nil {
		w.t.Fatal(err)
	}
	return icatypes.InterchainAccountPacketData{Type: icatypes.EXECUTE_TX, Data: bz}
}

// opSendTx: MsgSendTx{Owner: owner} in a transaction signed by signer, through the real ante handler and msg server.
func (w *icaChanWorld) opSendTx(signerIdx, ownerIdx int, conn string, relTimeout uint64) (map[string]any, []any) {
	signer := w.owner(signerIdx)
	owner := w.owner(ownerIdx).SenderAccount.GetAddress().String()
	msg := icacontrollertypes.NewMsgSendTx(owner, conn, relTimeout, w.icaPacketData())
	res, err := w.chainA.SendMsgsWithSender(signer, msg)
	resync(w.chainA, signer.SenderAccount)
	out := []any{okStr(err)}
	if err == nil {
		pkt, perr := ibctesting.ParsePacketFromEvents(res.Events)
		if perr != nil {
			w.t.Fatal(perr)
		}
		out = append(out, hx.HS(pkt.SourcePort), chanNum(pkt.SourceChannel))
		if _, ok := w.pending[pkt.SourceChannel]; !ok {
			w.pending[pkt.SourceChannel] = &pkt
		}
	}
	return map[string]any{"op": "sendtx", "signer": hx.HS(signer.SenderAccount.GetAddress().String()), "owner": hx.HS(owner), "conn": hx.HS(conn), "timeout_ok": true}, out
}

// opCloseCtrl closes a controller channel end: ORDERED by a real packet timeout, UNORDERED by writing the
// CLOSED state (the core state machine is an input of the model).
func (w *icaChanWorld) opCloseCtrl(ctrlChan string, ownerIdx int) (map[string]any, string) {
	p := w.pathFor(ctrlChan)
	if w.ctrlOrder[ctrlChan] == channeltypes.ORDERED && w.hostOf[ctrlChan] != "" {
		if _, ok := w.pending[ctrlChan]; !ok {
			// need an unreceived packet: send one through the owner
			w.opSendTx(ownerIdx, ownerIdx, w.connA, uint64(time.Second))
		}
	}
	if pp, ok := w.pending[ctrlChan]; ok && w.ctrlOrder[ctrlChan] == channeltypes.ORDERED && w.hostOf[ctrlChan] != "" {
		pkt := *pp
		// let the host chain's clock pass the timeout, then prove non-receipt
		w.coord.IncrementTimeBy(time.Hour)
		w.coord.CommitBlock(w.chainB)
		if err := p.EndpointA.UpdateClient(); err != nil {
			w.t.Fatal(err)
		}
		if err := p.EndpointA.TimeoutPacket(pkt); err != nil {
			w.t.Fatalf("timeout: %v", err)
		}
		resync(w.chainA, w.chainA.SenderAccount)
		delete(w.pending, ctrlChan)
	} else {
		p.EndpointA.UpdateChannel(func(ch *channeltypes.Channel) { ch.State = channeltypes.CLOSED })
	}
	return map[string]any{"op": "close_ctrl", "id": chanNum(ctrlChan)}, "ok"
}

// opCloseHost closes a host channel end: by MsgChannelCloseConfirm when the controller end is CLOSED,
// otherwise by writing the state.
func (w *icaChanWorld) opCloseHost(hostChan string) (map[string]any, string) {
	ctrlChan := w.ctrlOf[hostChan]
	p := w.pathFor(ctrlChan)
	ca, _ := w.chainA.App.GetIBCKeeper().ChannelKeeper.GetChannel(w.chainA.GetContext(), w.ctrlPort[ctrlChan], ctrlChan)
	hb, _ := w.chainB.App.GetIBCKeeper().ChannelKeeper.GetChannel(w.chainB.GetContext(), icatypes.HostPortID, hostChan)
	if ca.State == channeltypes.CLOSED && hb.State == channeltypes.OPEN {
		if err := p.EndpointB.UpdateClient(); err != nil {
			w.t.Fatal(err)
		}
		proof, height := w.chainA.QueryProof(host.ChannelKey(w.ctrlPort[ctrlChan], ctrlChan))
		msg := channeltypes.NewMsgChannelCloseConfirm(icatypes.HostPortID, hostChan, proof, height, w.chainB.SenderAccount.GetAddress().String())
		if _, err := w.chainB.SendMsgs(msg); err != nil {
			w.t.Fatalf("close confirm: %v", err)
		}
		resync(w.chainB, w.chainB.SenderAccount)
	} else {
		p.EndpointB.UpdateChannel(func(ch *channeltypes.Channel) { ch.State = channeltypes.CLOSED })
	}
	return map[string]any{"op": "close_host", "id": chanNum(hostChan)}, "ok"
}

// probes: callbacks called directly on a branch of the state that is dropped afterwards
func (w *icaChanWorld) probe(kind string, r *hx.Rng) (map[string]any, string) {
	ctxA, _ := w.chainA.GetContext().CacheContext()
	ctxB, _ := w.chainB.GetContext().CacheContext()
	port := w.ports[r.Intn(len(w.ports))]
	ctrlStack, _ := w.chainA.App.GetIBCKeeper().PortKeeper.Route(port)
	hostStack, _ := w.chainB.App.GetIBCKeeper().PortKeeper.Route(icatypes.HostPortID)
	cp := channeltypes.NewCounterparty(icatypes.HostPortID, "channel-0")
	var err error
	in := map[string]any{"op": kind}
	switch kind {
	case "ctrl_try":
		_, err = ctrlStack.OnChanOpenTry(ctxA, channeltypes.ORDERED, []string{w.connA}, port, "channel-5", cp, w.mkVersion("default"))
	case "ctrl_confirm":
		err = ctrlStack.OnChanOpenConfirm(ctxA, port, "channel-0")
	case "ctrl_close_init":
		err = ctrlStack.OnChanCloseInit(ctxA, port, "channel-0")
	case "host_init":
		_, err = hostStack.OnChanOpenInit(ctxB, channeltypes.ORDERED, []string{w.connB}, icatypes.HostPortID, "channel-5", channeltypes.NewCounterparty(port, ""), w.mkVersion("default"))
	case "host_ack":
		err = hostStack.OnChanOpenAck(ctxB, icatypes.HostPortID, "channel-0", "channel-0", w.mkVersion("default"))
	case "host_close_init":
		err = hostStack.OnChanCloseInit(ctxB, icatypes.HostPortID, "channel-0")
	case "ack_probe": // OnChanOpenAck on an INIT controller channel with a mutated counterparty version
		var cands []string
		for _, id := range w.ctrlChans {
			if ch, ok := w.chainA.App.GetIBCKeeper().ChannelKeeper.GetChannel(ctxA, w.ctrlPort[id], id); ok && ch.State == channeltypes.INIT {
				cands = append(cands, id)
			}
		}
		if len(cands) == 0 {
			return nil, ""
		}
		id := cands[r.Intn(len(cands))]
		vk := r.Pick([]string{"addr-valid", "default", "bad-enc", "wrong-ctrl", "wrong-host", "swapped", "host-as-ctrl", "unparseable", "blank", "addr-invalid", "bad-version", "json-enc"})
		v := w.mkVersion(vk)
		st, _ := w.chainA.App.GetIBCKeeper().PortKeeper.Route(w.ctrlPort[id])
		err = st.OnChanOpenAck(ctxA, w.ctrlPort[id], id, "channel-0", v)
		in["id"] = chanNum(id)
		in["version"] = versionIn(v)
		in["vk"] = vk
	case "try_probe": // host OnChanOpenTry with mutated metadata / port / connection
		vk := r.Pick([]string{"default", "bad-enc", "wrong-ctrl", "wrong-host", "swapped", "unparseable", "blank", "addr-invalid", "bad-version", "json-enc", "bad-tx"})
		v := w.mkVersion(vk)
		hport := icatypes.HostPortID
		conn := w.connB
		switch r.Intn(6) {
		case 0:
			hport = "icahost2"
		case 1:
			conn = "connection-9"
		}
		var pv any
		pv = nil
		func() {
			defer func() { pv = recover() }()
			_, err = hostStack.OnChanOpenTry(ctxB, channeltypes.ORDERED, []string{conn}, hport, "channel-77", channeltypes.NewCounterparty(port, "channel-0"), v)
		}()
		in["port"] = hx.HS(hport)
		in["conn"] = hx.HS(conn)
		in["cp_port"] = hx.HS(port)
		in["version"] = versionIn(v)
		in["vk"] = vk
		gen := ""
		if err == nil && pv == nil {
			if a, ok := w.chainB.GetSimApp().ICAHostKeeper.GetInterchainAccountAddress(ctxB, conn, port); ok {
				gen = a
			}
		}
		in["gen"] = hx.HS(gen)
		if pv != nil {
			return in, "panic"
		}
	}
	return in, okStr(err)
}

// famIcaChan: histories of registrations, handshake steps, timeouts closing ORDERED channels, reopenings
// with the same / different metadata and ordering, sends by owners and non-owners.
func famIcaChan(t *testing.T, r *hx.Rng, o *hx.Out) {
	nh := hx.N(12, 120)
	for hi := 0; hi < nh; hi++ {
		w := newIcaChanWorld(t)
		o1 := w.owner(0).SenderAccount.GetAddress().String()
		o2 := w.owner(1).SenderAccount.GetAddress().String()
		w.ports = []string{icatypes.ControllerPortPrefix + o1, icatypes.ControllerPortPrefix + o2}
		ownerOfPort := map[string]int{w.ports[0]: 0, w.ports[1]: 1}
		var ops, outs []any
		emit := func(in map[string]any, res any) {
			if in == nil {
				return
			}
			ops = append(ops, in)
			outs = append(outs, []any{res, w.snapshot()})
		}
		init0 := w.snapshot()
		scripted := hi%5 == 0 // the two-handshakes-in-flight history
		steps := 18 + r.Intn(16)
		if scripted {
			in, res := w.opRegister(0, channeltypes.ORDERED, "default")
			emit(in, res)
			in, res = w.opInit(w.ports[0], channeltypes.ORDERED, "default", w.connA, icatypes.HostPortID)
			emit(in, res)
			c1, c2 := w.ctrlChans[0], w.ctrlChans[1]
			in, res = w.opTry(c1)
			emit(in, res)
			in, res = w.opTry(c2)
			emit(in, res)
			in, res = w.opAck(c1)
			emit(in, res)
			in, res = w.opConfirm(w.hostOf[c1])
			emit(in, res)
			in, res = w.opAck(c2) // rejected: c1 is the OPEN active channel
			emit(in, res)
			in2, out2 := w.opSendTx(0, 0, w.connA, uint64(time.Second))
			emit(in2, out2)
			in, res = w.opCloseCtrl(c1, 0)
			emit(in, res)
			in, res = w.opAck(c2) // now accepted: c1 is CLOSED
			emit(in, res)
			in, res = w.opConfirm(w.hostOf[c2]) // host overwrites its active channel while its first one is still OPEN
			emit(in, res)
			steps = 4
		}
		for si := 0; si < steps; si++ {
			// candidate sets
			var initNoHost, initWithHost, openCtrl, tryHost, openHost []string
			for _, id := range w.ctrlChans {
				ch, _ := w.chainA.App.GetIBCKeeper().ChannelKeeper.GetChannel(w.chainA.GetContext(), w.ctrlPort[id], id)
				hc := w.hostOf[id]
				switch {
				case ch.State == channeltypes.INIT && hc == "":
					initNoHost = append(initNoHost, id)
				case ch.State == channeltypes.INIT:
					initWithHost = append(initWithHost, id)
				case ch.State == channeltypes.OPEN:
					openCtrl = append(openCtrl, id)
				}
			}
			for _, id := range w.hostChans {
				ch, _ := w.chainB.App.GetIBCKeeper().ChannelKeeper.GetChannel(w.chainB.GetContext(), icatypes.HostPortID, id)
				ca, _ := w.chainA.App.GetIBCKeeper().ChannelKeeper.GetChannel(w.chainA.GetContext(), w.ctrlPort[w.ctrlOf[id]], w.ctrlOf[id])
				if ch.State == channeltypes.TRYOPEN && ca.State == channeltypes.OPEN {
					tryHost = append(tryHost, id)
				}
				if ch.State == channeltypes.OPEN {
					openHost = append(openHost, id)
				}
			}
			order := channeltypes.ORDERED
			if r.Chance(1, 3) {
				order = channeltypes.UNORDERED
			}
			vk := initVersionKinds[r.Intn(len(initVersionKinds))]
			// ports whose active channel is CLOSED: candidates for a reopening
			var reopen []string
			for _, p := range w.ports {
				if id, ok := w.chainA.GetSimApp().ICAControllerKeeper.GetActiveChannelID(w.chainA.GetContext(), w.connA, p); ok {
					if ch, ok := w.chainA.App.GetIBCKeeper().ChannelKeeper.GetChannel(w.chainA.GetContext(), p, id); ok && ch.State == channeltypes.CLOSED {
						reopen = append(reopen, p)
					}
				}
			}
			type act struct {
				w int
				f func()
			}
			var acts []act
			add := func(weight int, f func()) { acts = append(acts, act{weight, f}) }
			add(3, func() { in, res := w.opRegister(r.Intn(2), order, vk); emit(in, res) })
			add(2, func() {
				conn, cpPort := w.connA, icatypes.HostPortID
				switch r.Intn(6) {
				case 0:
					cpPort = "transfer"
				case 1:
					conn = "connection-9"
				}
				in, res := w.opInit(w.ports[r.Intn(2)], order, vk, conn, cpPort)
				emit(in, res)
			})
			if len(reopen) > 0 { // reopening with the same / a different ordering and metadata
				add(6, func() {
					p := reopen[r.Intn(len(reopen))]
					id, _ := w.chainA.GetSimApp().ICAControllerKeeper.GetActiveChannelID(w.chainA.GetContext(), w.connA, p)
					ord := w.ctrlOrder[id]
					kind := "default"
					if ch, ok := w.chainA.App.GetIBCKeeper().ChannelKeeper.GetChannel(w.chainA.GetContext(), p, id); ok {
						if md, err := icatypes.MetadataFromVersion(ch.Version); err == nil && md.Encoding == icatypes.EncodingProto3JSON {
							kind = "json-enc"
						}
					}
					switch r.Intn(6) {
					case 0:
						if ord == channeltypes.ORDERED {
							ord = channeltypes.UNORDERED
						} else {
							ord = channeltypes.ORDERED
						}
					case 1:
						if kind == "default" {
							kind = "json-enc"
						} else {
							kind = "default"
						}
					case 2:
						if kind == "default" {
							kind = r.Pick([]string{"addr-valid", "blank"})
						}
					}
					if r.Bool() {
						in, res := w.opInit(p, ord, kind, w.connA, icatypes.HostPortID)
						emit(in, res)
					} else {
						in, res := w.opRegister(ownerOfPort[p], ord, kind)
						emit(in, res)
					}
				})
			}
			if len(initNoHost) > 0 {
				add(6, func() { in, res := w.opTry(initNoHost[r.Intn(len(initNoHost))]); emit(in, res) })
			}
			if len(initWithHost) > 0 {
				add(7, func() { in, res := w.opAck(initWithHost[r.Intn(len(initWithHost))]); emit(in, res) })
			}
			if len(tryHost) > 0 {
				add(7, func() { in, res := w.opConfirm(tryHost[r.Intn(len(tryHost))]); emit(in, res) })
			}
			if len(openCtrl) > 0 {
				add(4, func() {
					id := openCtrl[r.Intn(len(openCtrl))]
					in, res := w.opCloseCtrl(id, ownerOfPort[w.ctrlPort[id]])
					emit(in, res)
				})
				add(4, func() { // sends on an owner's OPEN channel by the owner and by the other account
					id := openCtrl[r.Intn(len(openCtrl))]
					owner := ownerOfPort[w.ctrlPort[id]]
					signer := owner
					if r.Chance(1, 3) {
						signer = 1 - owner
					}
					in, out := w.opSendTx(signer, owner, w.connA, uint64(time.Second))
					emit(in, out)
				})
			}
			if len(openHost) > 0 {
				add(2, func() { in, res := w.opCloseHost(openHost[r.Intn(len(openHost))]); emit(in, res) })
			}
			add(2, func() {
				signer, owner := r.Intn(2), r.Intn(2)
				conn := w.connA
				if r.Chance(1, 4) {
					conn = "connection-9"
				}
				in, out := w.opSendTx(signer, owner, conn, uint64(time.Second))
				emit(in, out)
			})
			add(1, func() {
				in, res := w.probe(r.Pick([]string{"ctrl_try", "ctrl_confirm", "ctrl_close_init", "host_init", "host_ack", "host_close_init"}), r)
				emit(in, res)
			})
			add(2, func() { in, res := w.probe(r.Pick([]string{"ack_probe", "try_probe"}), r); emit(in, res) })
			total := 0
			for _, a := range acts {
				total += a.w
			}
			pick := r.Intn(total)
			for _, a := range acts {
				if pick < a.w {
					a.f()
					break
				}
				pick -= a.w
			}
		}
		tag := "random"
		if scripted {
			tag = "two-in-flight"
		}
		o.Emit("ica_chan", map[string]any{"connA": hx.HS(w.connA), "connB": hx.HS(w.connB), "init": init0, "ops": ops}, outs, tag)
	}
}
