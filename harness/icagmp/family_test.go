package icagmp

import (
	"testing"

	"verif/harness/hx"
)

// TestFamily writes the trace of the `icagmp` scenario family (C37-C40).
func TestFamily(t *testing.T) {
	r := hx.NewRng("icagmp")
	o := hx.NewOut()
	defer o.Close()
	famGmpAddr(r, o)
	famCbGas(r, o)
	famCbProcess(r, o)
	famIcaHost(t, r, o)
	famIcaChan(t, r, o)
	famGmpHist(t, r, o)
	famCbMw(t, r, o)
	t.Logf("records=%d", o.Count())
}
