package icagmp

import (
	"testing"

	"github.com/cosmos/gogoproto/proto"

	sdkmath "cosmossdk.io/math"

	sdk "github.com/cosmos/cosmos-sdk/types"
	authtypes "github.com/cosmos/cosmos-sdk/x/auth/types"
	banktypes "github.com/cosmos/cosmos-sdk/x/bank/types"
	stakingtypes "github.com/cosmos/cosmos-sdk/x/staking/types"

	icacontrollertypes "github.com/cosmos/ibc-go/v11/modules/apps/27-interchain-accounts/controller/types"
	icahosttypes "github.com/cosmos/ibc-go/v11/modules/apps/27-interchain-accounts/host/types"
	icatypes "github.com/cosmos/ibc-go/v11/modules/apps/27-interchain-accounts/types"
	channeltypes "github.com/cosmos/ibc-go/v11/modules/core/04-channel/types"
	ibctesting "github.com/cosmos/ibc-go/v11/testing"

	"verif/harness/hx"
)

// resync sets the test-side sequence of an account to the on-chain one (a tx rejected by the ante
// handler does not bump the on-chain sequence while ibctesting bumps its local copy).
func resync(chain *ibctesting.TestChain, acc sdk.AccountI) {
	on := chain.GetSimApp().AccountKeeper.GetAccount(chain.GetContext(), acc.GetAddress())
	if on != nil {
		_ = acc.SetSequence(on.GetSequence())
	}
}

func icaVersion(ctrlConn, hostConn, encoding string) string {
	return string(icatypes.ModuleCdc.MustMarshalJSON(&icatypes.Metadata{
		Version:                icatypes.Version,
		ControllerConnectionId: ctrlConn,
		HostConnectionId:       hostConn,
		Encoding:               encoding,
		TxType:                 icatypes.TxTypeSDKMultiMsg,
	}))
}

// setupICA opens an interchain-accounts channel through the real msg server and handshake messages.
func setupICA(t *testing.T, path *ibctesting.Path, owner string, order channeltypes.Order, encoding string) {
	version := icaVersion(path.EndpointA.ConnectionID, path.EndpointB.ConnectionID, encoding)
	portID, err := icatypes.NewControllerPortID(owner)
	if err != nil {
		t.Fatal(err)
	}
	path.EndpointA.ChannelConfig.PortID = portID
	path.EndpointB.ChannelConfig.PortID = icatypes.HostPortID
	path.EndpointA.ChannelConfig.Order = order
	path.EndpointB.ChannelConfig.Order = order
	path.EndpointA.ChannelConfig.Version = version
	path.EndpointB.ChannelConfig.Version = version
	msg := icacontrollertypes.NewMsgRegisterInterchainAccount(path.EndpointA.ConnectionID, owner, version, order)
	res, err := path.EndpointA.Chain.SendMsgs(msg)
	if err != nil {
		t.Fatal(err)
	}
	path.EndpointA.ChannelID, err = ibctesting.ParseChannelIDFromEvents(res.Events)
	if err != nil {
		t.Fatal(err)
	}
	if err := path.EndpointB.ChanOpenTry(); err != nil {
		t.Fatal(err)
	}
	if err := path.EndpointA.ChanOpenAck(); err != nil {
		t.Fatal(err)
	}
	if err := path.EndpointB.ChanOpenConfirm(); err != nil {
		t.Fatal(err)
	}
}

type hostMsg struct {
	msg proto.Message
	eff any // ["send", from, to, amt] | ["fail"]
}

func sendEff(from, to sdk.AccAddress, amt uint64) any {
	return []any{"send", hx.H(from), hx.H(to), hx.U(amt)}
}

// famIcaHost drives the ICA host IBCModule.OnRecvPacket with message lists where the k-th message has a
// foreign signer / a disallowed type / fails at execution, for every position, plus packet-level guards.
func famIcaHost(t *testing.T, r *hx.Rng, o *hx.Out) {
	coord := ibctesting.NewCoordinator(t, 2)
	chainA := coord.GetChain(ibctesting.GetChainID(1))
	chainB := coord.GetChain(ibctesting.GetChainID(2))
	path := ibctesting.NewPath(chainA, chainB)
	path.SetupConnections()
	owner := chainA.SenderAccount.GetAddress().String()
	order := channeltypes.ORDERED
	if r.Bool() {
		order = channeltypes.UNORDERED
	}
	setupICA(t, path, owner, order, icatypes.EncodingProtobuf)
	app := chainB.GetSimApp()
	portA := path.EndpointA.ChannelConfig.PortID
	connB := path.EndpointB.ConnectionID
	icaStr, found := app.ICAHostKeeper.GetInterchainAccountAddress(chainB.GetContext(), connB, portA)
	if !found {
		t.Fatal("ica not registered")
	}
	ica := sdk.MustAccAddressFromBech32(icaStr)
	if _, err := chainB.SendMsgs(&banktypes.MsgSend{FromAddress: chainB.SenderAccount.GetAddress().String(), ToAddress: icaStr,
		Amount: sdk.NewCoins(sdk.NewCoin(sdk.DefaultBondDenom, sdkmath.NewInt(100000)))}); err != nil {
		t.Fatal(err)
	}
	foreign := chainB.SenderAccounts[1].SenderAccount.GetAddress()
	other := chainB.SenderAccounts[2].SenderAccount.GetAddress()
	recipient := sdk.AccAddress([]byte("verif-recipient-0001"))
	pool := authtypes.NewModuleAddress(stakingtypes.BondedPoolName)
	val := sdk.ValAddress(chainB.Vals.Validators[0].Address)
	tracked := []sdk.AccAddress{ica, foreign, other, recipient, pool}
	denom := sdk.DefaultBondDenom
	urlSend := sdk.MsgTypeURL(&banktypes.MsgSend{})
	urlDelegate := sdk.MsgTypeURL(&stakingtypes.MsgDelegate{})
	urlMulti := sdk.MsgTypeURL(&banktypes.MsgMultiSend{})
	module, ok := chainB.App.GetIBCKeeper().PortKeeper.Route(icatypes.HostPortID)
	if !ok {
		t.Fatal("no icahost route")
	}
	cdc := app.AppCodec()
	coin := func(a uint64) sdk.Coins { return sdk.NewCoins(sdk.NewCoin(denom, sdkmath.NewIntFromUint64(a))) }

	good := func() hostMsg { // a message the account may execute and that succeeds
		amt := uint64(1 + r.Intn(500))
		switch r.Intn(4) {
		case 0:
			return hostMsg{&stakingtypes.MsgDelegate{DelegatorAddress: icaStr, ValidatorAddress: val.String(), Amount: sdk.NewCoin(denom, sdkmath.NewIntFromUint64(amt))}, sendEff(ica, pool, amt)}
		case 1:
			return hostMsg{&banktypes.MsgMultiSend{Inputs: []banktypes.Input{{Address: icaStr, Coins: coin(amt)}}, Outputs: []banktypes.Output{{Address: other.String(), Coins: coin(amt)}}}, sendEff(ica, other, amt)}
		default:
			to := recipient
			if r.Bool() {
				to = foreign
			}
			return hostMsg{&banktypes.MsgSend{FromAddress: icaStr, ToAddress: to.String(), Amount: coin(amt)}, sendEff(ica, to, amt)}
		}
	}
	n := hx.N(260, 2500)
	for i := 0; i < n; i++ {
		enabled := true
		allow := []string{"*"}
		k := 1 + r.Intn(4)
		msgs := make([]hostMsg, k)
		for j := range msgs {
			msgs[j] = good()
		}
		pos := r.Intn(k)
		srcPort, dstPort, dstChan := portA, icatypes.HostPortID, path.EndpointB.ChannelID
		dataKind := "ok"
		tag := ""
		switch r.Intn(16) {
		case 0:
			tag = "valid"
		case 1: // foreign signer at position pos (the foreign account has funds: only authentication can stop it)
			amt := uint64(1 + r.Intn(500))
			msgs[pos] = hostMsg{&banktypes.MsgSend{FromAddress: foreign.String(), ToAddress: recipient.String(), Amount: coin(amt)}, sendEff(foreign, recipient, amt)}
			tag = "foreign-signer"
		case 2: // delegation on behalf of someone else
			amt := uint64(1 + r.Intn(500))
			msgs[pos] = hostMsg{&stakingtypes.MsgDelegate{DelegatorAddress: other.String(), ValidatorAddress: val.String(), Amount: sdk.NewCoin(denom, sdkmath.NewIntFromUint64(amt))}, sendEff(other, pool, amt)}
			tag = "foreign-delegator"
		case 3: // disallowed type at position pos
			allow = []string{urlSend, urlMulti}
			for j := range msgs {
				a := uint64(1 + r.Intn(50))
				msgs[j] = hostMsg{&banktypes.MsgSend{FromAddress: icaStr, ToAddress: recipient.String(), Amount: coin(a)}, sendEff(ica, recipient, a)}
			}
			amt := uint64(1 + r.Intn(500))
			msgs[pos] = hostMsg{&stakingtypes.MsgDelegate{DelegatorAddress: icaStr, ValidatorAddress: val.String(), Amount: sdk.NewCoin(denom, sdkmath.NewIntFromUint64(amt))}, sendEff(ica, pool, amt)}
			tag = "disallowed-type"
		case 4: // fails at execution at position pos: more than the balance
			amt := uint64(100001 + r.Intn(1000))
			msgs[pos] = hostMsg{&banktypes.MsgSend{FromAddress: icaStr, ToAddress: recipient.String(), Amount: coin(amt)}, sendEff(ica, recipient, amt)}
			tag = "exec-fails"
		case 5: // zero-signer message: MsgMultiSend without inputs
			msgs[pos] = hostMsg{&banktypes.MsgMultiSend{Outputs: []banktypes.Output{{Address: recipient.String(), Coins: coin(1)}}}, []any{"fail"}}
			tag = "zero-signers"
		case 6: // allow lists
			switch r.Intn(5) {
			case 0:
				allow = []string{}
			case 1:
				allow = []string{"*", urlSend} // the wildcard only counts as the single entry
			case 2:
				allow = []string{urlSend, urlDelegate, urlMulti}
			case 3:
				allow = []string{urlDelegate}
			default:
				allow = []string{" *"}
			}
			tag = "allow-list"
		case 7:
			enabled = false
			tag = "host-disabled"
		case 8:
			dstChan = "channel-99"
			tag = "unknown-channel"
		case 9:
			srcPort = icatypes.ControllerPortPrefix + foreign.String()
			tag = "unregistered-port"
		case 10:
			dataKind = r.Pick([]string{"not-json", "type-unspecified", "garbage-msgs", "empty-data"})
			tag = "bad-data/" + dataKind
		case 11:
			msgs = nil
			tag = "empty-list"
		case 12: // two-signer shape: multisend whose single input is foreign, listed after a good prefix
			amt := uint64(1 + r.Intn(100))
			msgs[pos] = hostMsg{&banktypes.MsgMultiSend{Inputs: []banktypes.Input{{Address: foreign.String(), Coins: coin(amt)}}, Outputs: []banktypes.Output{{Address: icaStr, Coins: coin(amt)}}}, sendEff(foreign, ica, amt)}
			tag = "foreign-multisend"
		case 13: // the budget is exhausted by the earlier messages: the last one fails
			msgs = nil
			for j := 0; j < 3; j++ {
				msgs = append(msgs, hostMsg{&banktypes.MsgSend{FromAddress: icaStr, ToAddress: recipient.String(), Amount: coin(40000)}, sendEff(ica, recipient, 40000)})
			}
			tag = "cumulative-overdraft"
		default:
			tag = "valid"
		}
		ctx, _ := chainB.GetContext().CacheContext()
		app.ICAHostKeeper.SetParams(ctx, icahosttypes.NewParams(enabled, allow))
		protoMsgs := make([]proto.Message, len(msgs))
		for j := range msgs {
			protoMsgs[j] = msgs[j].msg
		}
		var pktData []byte
		var dataIn any
		switch dataKind {
		case "not-json":
			pktData = []byte("this is not json")
			dataIn = nil
		case "empty-data":
			pktData = []byte{}
			dataIn = nil
		default:
			bz, err := icatypes.SerializeCosmosTx(cdc, protoMsgs, icatypes.EncodingProtobuf)
			if err != nil {
				t.Fatal(err)
			}
			ty := icatypes.EXECUTE_TX
			var msgsIn any
			if dataKind == "type-unspecified" {
				ty = icatypes.UNSPECIFIED
			}
			if dataKind == "garbage-msgs" {
				bz = []byte{0xff, 0xfe, 0x01, 0x02, 0x03}
				msgsIn = nil
			} else {
				list := []any{}
				for _, m := range msgs {
					sm, _ := m.msg.(sdk.Msg)
					sg, _, err := cdc.GetMsgV1Signers(sm)
					var sgIn any
					if err == nil {
						hs := []string{}
						for _, s := range sg {
							hs = append(hs, hx.H(s))
						}
						sgIn = hs
					}
					list = append(list, []any{hx.HS(sdk.MsgTypeURL(sm)), sgIn, m.eff})
				}
				msgsIn = list
			}
			pd := icatypes.InterchainAccountPacketData{Type: ty, Data: bz}
			pktData = pd.GetBytes()
			dataIn = []any{int(ty), msgsIn}
		}
		packet := channeltypes.NewPacket(pktData, 1, srcPort, path.EndpointA.ChannelID, dstPort, dstChan, chainA.GetTimeoutHeight(), 0)
		bank := func() []any {
			out := []any{}
			for _, a := range tracked {
				out = append(out, []string{hx.H(a), hx.U(app.BankKeeper.GetBalance(ctx, a, denom).Amount.Uint64())})
			}
			return out
		}
		before := bank()
		var res any
		panicked, _ := hx.Catch(func() {
			ack := module.OnRecvPacket(ctx, path.EndpointB.GetChannel().Version, packet, chainB.SenderAccount.GetAddress())
			res = ack.Success()
		})
		if panicked {
			res = "panic"
		}
		allowHex := []string{}
		for _, a := range allow {
			allowHex = append(allowHex, hx.HS(a))
		}
		in := map[string]any{
			"enabled":  enabled,
			"allow":    allowHex,
			"accounts": []any{[]string{hx.HS(connB), hx.HS(portA), hx.H(ica)}},
			"channels": []any{[]any{hx.HS(icatypes.HostPortID), hx.HS(path.EndpointB.ChannelID), []string{hx.HS(connB)}, true}},
			"bank":     before,
			"pkt":      map[string]any{"src_port": hx.HS(srcPort), "dst_port": hx.HS(dstPort), "dst_chan": hx.HS(dstChan), "data": dataIn},
		}
		o.Emit("ica_host", in, []any{res, bank()}, tag)
	}
}
