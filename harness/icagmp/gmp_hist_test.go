package icagmp

import (
	"testing"

	"github.com/cosmos/gogoproto/proto"

	"cosmossdk.io/collections"
	sdkmath "cosmossdk.io/math"

	sdk "github.com/cosmos/cosmos-sdk/types"
	banktypes "github.com/cosmos/cosmos-sdk/x/bank/types"

	gmp "github.com/cosmos/ibc-go/v11/modules/apps/27-gmp"
	gmptypes "github.com/cosmos/ibc-go/v11/modules/apps/27-gmp/types"
	clienttypes "github.com/cosmos/ibc-go/v11/modules/core/02-client/types"
	channeltypesv2 "github.com/cosmos/ibc-go/v11/modules/core/04-channel/v2/types"
	ibctesting "github.com/cosmos/ibc-go/v11/testing"

	"verif/harness/hx"
)

type gmpTriple struct {
	client, sender string
	salt           []byte
}

// famGmpHist drives the real GMP IBCModule.OnRecvPacket (inside a cache context that is written unless the
// status is Failure, as channel-v2 RecvPacket does) and OnSendPacket over histories.
func famGmpHist(t *testing.T, r *hx.Rng, o *hx.Out) {
	nh := hx.N(8, 80)
	for hi := 0; hi < nh; hi++ {
		coord := ibctesting.NewCoordinator(t, 1)
		chain := coord.GetChain(ibctesting.GetChainID(1))
		app := chain.GetSimApp()
		module := gmp.NewIBCModule(app.GMPKeeper)
		ctx := chain.GetContext()
		cdc := app.AppCodec()
		denom := sdk.DefaultBondDenom
		funder := chain.SenderAccount.GetAddress()
		recipient := sdk.AccAddress([]byte("verif-gmp-recipient1"))
		stranger := chain.SenderAccounts[1].SenderAccount.GetAddress()
		senderBech := chain.SenderAccounts[2].SenderAccount.GetAddress().String()
		triples := []gmpTriple{
			{"07-tendermint-1", "1abc", nil}, {"07-tendermint-11", "abc", nil}, // coinciding concatenations
			{"07-tendermint-0", senderBech, nil}, {"07-tendermint-0", senderBech, []byte{0}}, {"07-tendermint-0", senderBech, []byte("s")},
			{"07-tendermint-0", "0xAbC", []byte("salt")}, {"08-wasm-3", "a\x00b", []byte{0, 0}},
		}
		addrOf := func(tr gmpTriple) sdk.AccAddress {
			id := gmptypes.NewAccountIdentifier(tr.client, tr.sender, tr.salt)
			a, err := gmptypes.BuildAddressPredictable(&id)
			if err != nil {
				t.Fatal(err)
			}
			return a
		}
		tracked := []sdk.AccAddress{recipient, stranger}
		for _, tr := range triples {
			a := addrOf(tr)
			tracked = append(tracked, a)
			if err := app.BankKeeper.SendCoins(ctx, funder, a, sdk.NewCoins(sdk.NewCoin(denom, sdkmath.NewInt(1000)))); err != nil {
				t.Fatal(err)
			}
		}
		bank := func() []any {
			out := []any{}
			for _, a := range tracked {
				out = append(out, []string{hx.H(a), hx.U(app.BankKeeper.GetBalance(ctx, a, denom).Amount.Uint64())})
			}
			return out
		}
		coin := func(a uint64) sdk.Coins { return sdk.NewCoins(sdk.NewCoin(denom, sdkmath.NewIntFromUint64(a))) }
		bank0 := bank()
		var ops, outs []any
		steps := 14 + r.Intn(10)
		for si := 0; si < steps; si++ {
			if r.Chance(1, 5) { // OnSendPacket: sender vs signer
				srcPort, dstPort := gmptypes.PortID, gmptypes.PortID
				srcClient, dstClient := "07-tendermint-0", "07-tendermint-1"
				signer := chain.SenderAccounts[2].SenderAccount.GetAddress()
				sender := senderBech
				tag := "send-ok"
				value := []byte(nil)
				switch r.Intn(11) {
				case 0:
					signer = stranger
					tag = "send-foreign-signer"
				case 1:
					srcPort = "transfer"
					tag = "send-port"
				case 2:
					dstPort = "gmpport2"
					tag = "send-port"
				case 3:
					srcClient = "notaclientid"
					tag = "send-clientid"
				case 4:
					sender = "not-bech32"
					tag = "send-bad-sender"
				case 5:
					sender = "  "
					tag = "send-blank-sender"
				case 6:
					value = []byte{0xff, 0x01}
					tag = "send-bad-data"
				}
				var dataIn any
				var senderAddr any
				if value == nil {
					d := gmptypes.NewGMPPacketData(sender, "recv", []byte("s"), []byte("payload"), "")
					bz, err := gmptypes.MarshalPacketData(&d, gmptypes.Version, gmptypes.EncodingProtobuf)
					if err != nil {
						t.Fatal(err)
					}
					value = bz
					dataIn = []any{hx.HS(sender), hx.HS("s"), "4", "7", "0"}
					if a, err := sdk.AccAddressFromBech32(sender); err == nil {
						senderAddr = hx.H(a)
					}
				}
				payload := channeltypesv2.NewPayload(srcPort, dstPort, gmptypes.Version, gmptypes.EncodingProtobuf, value)
				cidsOk := clienttypes.IsValidClientID(srcClient) && clienttypes.IsValidClientID(dstClient)
				cctx, _ := ctx.CacheContext()
				err := module.OnSendPacket(cctx, srcClient, dstClient, 1, payload, signer)
				ops = append(ops, map[string]any{"kind": "send", "src_port": hx.HS(srcPort), "dst_port": hx.HS(dstPort), "cids_ok": cidsOk,
					"data": dataIn, "sender_addr": senderAddr, "signer": hx.H(signer), "tag": tag})
				outs = append(outs, []any{okStr(err)})
				continue
			}
			tr := triples[r.Intn(len(triples))]
			acct := addrOf(tr)
			srcPort, dstPort, version := gmptypes.PortID, gmptypes.PortID, gmptypes.Version
			client, sender, salt := tr.client, tr.sender, tr.salt
			k := 1 + r.Intn(3)
			type gm struct {
				m   proto.Message
				eff any
			}
			var msgs []gm
			mkSend := func(from sdk.AccAddress, amt uint64) gm {
				return gm{&banktypes.MsgSend{FromAddress: from.String(), ToAddress: recipient.String(), Amount: coin(amt)}, sendEff(from, recipient, amt)}
			}
			for j := 0; j < k; j++ {
				msgs = append(msgs, mkSend(acct, uint64(1+r.Intn(40))))
			}
			pos := r.Intn(k)
			tag := "valid"
			payloadOK, dataOK := true, true
			switch r.Intn(14) {
			case 0:
				msgs[pos] = mkSend(stranger, 5)
				tag = "foreign-signer"
			case 1: // the account of another triple
				other := addrOf(triples[(r.Intn(len(triples)-1)+1+indexOf(triples, tr))%len(triples)])
				msgs[pos] = mkSend(other, 5)
				tag = "other-gmp-account"
			case 2:
				msgs[pos] = gm{&banktypes.MsgMultiSend{Outputs: []banktypes.Output{{Address: recipient.String(), Coins: coin(1)}}}, []any{"fail"}}
				tag = "zero-signers"
			case 3:
				msgs[pos] = gm{&banktypes.MsgMultiSend{Inputs: []banktypes.Input{{Address: acct.String(), Coins: coin(1)}, {Address: acct.String(), Coins: coin(1)}},
					Outputs: []banktypes.Output{{Address: recipient.String(), Coins: coin(2)}}}, []any{"fail"}}
				tag = "two-signers"
			case 4:
				msgs[pos] = mkSend(acct, 5000)
				tag = "exec-fails"
			case 5:
				msgs = nil
				tag = "empty-list"
			case 6:
				payloadOK = false
				tag = "bad-payload"
			case 7:
				dataOK = false
				tag = "bad-data"
			case 8:
				srcPort = "transfer"
				tag = "bad-port"
			case 9:
				version = "ics27-1"
				tag = "bad-version"
			case 10:
				client = r.Pick([]string{"ab", "07-tendermint/0", "  "})
				tag = "bad-client"
			case 11:
				sender = r.Pick([]string{"", "   ", " "})
				tag = "blank-sender"
			case 12:
				salt = make([]byte, 33)
				tag = "long-salt"
			}
			pm := make([]proto.Message, len(msgs))
			msgsIn := []any{}
			for j, m := range msgs {
				pm[j] = m.m
				sm := m.m.(sdk.Msg)
				sg, _, err := cdc.GetMsgV1Signers(sm)
				var sgIn any
				if err == nil {
					hs := []string{}
					for _, s := range sg {
						hs = append(hs, hx.H(s))
					}
					sgIn = hs
				}
				msgsIn = append(msgsIn, []any{hx.HS(sdk.MsgTypeURL(sm)), sgIn, m.eff})
			}
			txBz, err := gmptypes.SerializeCosmosTx(cdc, pm)
			if err != nil {
				t.Fatal(err)
			}
			var msgsField any = msgsIn
			if !payloadOK {
				txBz = []byte{0xff, 0xee, 0x01}
				msgsField = nil
			}
			d := gmptypes.NewGMPPacketData(sender, "", salt, txBz, "")
			value, err := gmptypes.MarshalPacketData(&d, gmptypes.Version, gmptypes.EncodingProtobuf)
			if err != nil {
				t.Fatal(err)
			}
			var dataIn any = []any{hx.HS(sender), hx.H(salt), "0", hx.U(uint64(len(txBz))), "0"}
			if !dataOK {
				value = []byte{0x0a, 0xff, 0xff}
				dataIn = nil
			}
			payload := channeltypesv2.NewPayload(srcPort, dstPort, version, gmptypes.EncodingProtobuf, value)
			cctx, write := ctx.CacheContext()
			var status string
			panicked, _ := hx.Catch(func() {
				res := module.OnRecvPacket(cctx, "07-tendermint-9", client, 1, payload, funder)
				if res.Status != channeltypesv2.PacketStatus_Failure {
					write()
					status = "ok"
				} else {
					status = "err"
				}
			})
			if panicked {
				status = "panic"
			}
			var entry any
			if acc, err := app.GMPKeeper.Accounts.Get(ctx, collections.Join3(client, sender, salt)); err == nil {
				if a, err := sdk.AccAddressFromBech32(acc.Address); err == nil {
					entry = hx.H(a)
				}
			}
			ops = append(ops, map[string]any{"kind": "recv", "src_port": hx.HS(srcPort), "dst_port": hx.HS(dstPort), "version": hx.HS(version),
				"client": hx.HS(client), "data": dataIn, "msgs": msgsField, "tag": tag, "triple": []string{hx.HS(client), hx.HS(sender), hx.H(salt)}})
			outs = append(outs, []any{status, entry, bank()})
		}
		o.Emit("gmp_hist", map[string]any{"bank": bank0, "ops": ops}, outs, "history")
	}
}

func indexOf(ts []gmpTriple, t gmpTriple) int {
	for i := range ts {
		if ts[i].client == t.client && ts[i].sender == t.sender && string(ts[i].salt) == string(t.salt) {
			return i
		}
	}
	return 0
}
