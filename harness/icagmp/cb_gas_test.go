package icagmp

import (
	"errors"
	"fmt"

	storetypes "github.com/cosmos/cosmos-sdk/store/v2/types"
	"github.com/cosmos/cosmos-sdk/testutil"
	sdk "github.com/cosmos/cosmos-sdk/types"

	ibccallbacks "github.com/cosmos/ibc-go/v11/modules/apps/callbacks"
	cbtypes "github.com/cosmos/ibc-go/v11/modules/apps/callbacks/types"

	"verif/harness/hx"
)

// famCbGas drives computeExecAndCommitGasLimit over (gas_limit field, remaining, max) incl. boundaries.
func famCbGas(r *hx.Rng, o *hx.Out) {
	n := hx.N(500, 6000)
	for i := 0; i < n; i++ {
		maxg := r.U64B(1000000)
		if maxg == 0 {
			maxg = 1
		}
		remaining := r.U64B(maxg)
		data := map[string]any{"address": "x"}
		var in []any
		tag := ""
		switch r.Intn(10) {
		case 0:
			in = []any{"absent"}
			tag = "absent"
		case 1:
			data["gas_limit"] = float64(r.Intn(1000))
			in = []any{"notstring"}
			tag = "notstring"
		case 2:
			v := any(nil)
			if r.Bool() {
				v = map[string]any{"a": 1}
			}
			data["gas_limit"] = v
			in = []any{"notstring"}
			tag = "notstring"
		case 3:
			s := r.Pick([]string{"", "0", "00", "+5", " 5", "5 ", "0x10", "1e3", "-1", "007", "1_000", "18446744073709551615", "18446744073709551616", "99999999999999999999", "٣", "abc"})
			data["gas_limit"] = s
			in = []any{"string", hx.HS(s)}
			tag = "odd-string"
		case 4:
			s := hx.U(maxg + uint64(r.Intn(3)) - 1)
			data["gas_limit"] = s
			in = []any{"string", hx.HS(s)}
			tag = "near-max"
		case 5:
			s := hx.U(remaining + uint64(r.Intn(3)) - 1)
			data["gas_limit"] = s
			in = []any{"string", hx.HS(s)}
			tag = "near-remaining"
		default:
			s := hx.U(r.U64B(maxg, remaining))
			data["gas_limit"] = s
			in = []any{"string", hx.HS(s)}
			tag = "digits"
		}
		exec, commit, err := cbtypes.VerifComputeExecAndCommitGasLimit(data, remaining, maxg)
		o.Emit("cb_gas", []any{in, hx.U(remaining), hx.U(maxg)}, []any{err == nil, hx.U(exec), hx.U(commit)}, tag)
	}
}

var cbTypes = []cbtypes.CallbackType{cbtypes.CallbackTypeSendPacket, cbtypes.CallbackTypeAcknowledgementPacket, cbtypes.CallbackTypeTimeoutPacket, cbtypes.CallbackTypeReceivePacket}

var errContract = errors.New("verif contract error")

const execDescriptor = "verif-exec"

// classifyPanic maps a recovered value to the class the model distinguishes.
func classifyPanic(v any, cbType cbtypes.CallbackType) string {
	switch e := v.(type) {
	case storetypes.ErrorOutOfGas:
		if e.Descriptor == execDescriptor {
			return "contract" // the inner meter's own panic, re-raised as is
		}
		if e.Descriptor == fmt.Sprintf("ibc %s callback", cbType) {
			return "outer-oog"
		}
		return "retry"
	case storetypes.ErrorGasOverflow:
		if e.Descriptor == execDescriptor {
			return "contract"
		}
		return "outer-overflow"
	default:
		return "contract"
	}
}

func classifyErr(err error) string {
	switch {
	case err == nil:
		return "nil"
	case errors.Is(err, cbtypes.ErrCallbackOutOfGas):
		return "oog"
	case errors.Is(err, cbtypes.ErrCallbackPanic):
		return "panic"
	default:
		return "callback"
	}
}

// famCbProcess drives ProcessCallback with scripted executors over callback type x behaviour x
// (outer limit, outer consumed, exec, commit, gas used) incl. boundaries.
func famCbProcess(r *hx.Rng, o *hx.Out) {
	key := storetypes.NewKVStoreKey("verif")
	tkey := storetypes.NewTransientStoreKey("verif_t")
	base := testutil.DefaultContext(key, tkey)
	counterKey := []byte("counter")
	free := func(c sdk.Context) storetypes.KVStore { // state access that does not touch the limited meter
		return c.WithGasMeter(storetypes.NewInfiniteGasMeter()).WithKVGasConfig(storetypes.GasConfig{}).KVStore(key)
	}
	getCounter := func(c sdk.Context) uint64 {
		bz := free(c).Get(counterKey)
		if bz == nil {
			return 0
		}
		return sdk.BigEndianToUint64(bz)
	}
	n := hx.N(900, 8000)
	kinds := []string{"nil", "err", "panic"}
	for i := 0; i < n; i++ {
		cbt := cbTypes[r.Intn(len(cbTypes))]
		kind := kinds[r.Intn(3)]
		swallow := r.Chance(1, 5)
		var limit, consumed, exec, commit, used uint64
		tag := ""
		switch r.Intn(8) {
		case 0: // arbitrary, including exec above the outer remaining gas
			limit = r.U64B()
			consumed = r.U64B(limit)
			exec = r.U64B(limit - consumed)
			commit = r.U64B(exec)
			used = r.U64B(exec)
			tag = "arbitrary"
		default: // as the middleware sets it up: exec = min(remaining, commit)
			limit = r.U64B(1000000)
			if limit == 0 {
				limit = 1
			}
			consumed = uint64(r.Intn(1000))
			if consumed > limit {
				consumed = limit
			}
			remaining := limit - consumed
			commit = r.U64B(remaining, 1000000)
			exec = min(remaining, commit)
			switch r.Intn(4) {
			case 0:
				used = exec + uint64(r.Intn(3)) - 1 // boundary exec-1, exec, exec+1
				tag = "mw-boundary"
			case 1:
				used = exec + 1 + uint64(r.Intn(1000))
				tag = "mw-oog"
			default:
				used = r.U64B(exec)
				tag = "mw"
			}
		}
		ctx, _ := base.CacheContext() // every trial starts from the same state (counter absent = 0)
		outer := storetypes.NewGasMeter(limit)
		if p, _ := hx.Catch(func() { outer.ConsumeGas(consumed, "pre") }); p {
			// consumed > limit cannot be set up through ConsumeGas without the panic; it was set anyway
			_ = p
		}
		ctx = ctx.WithGasMeter(outer)
		before := getCounter(ctx)
		executor := func(c sdk.Context) (err error) {
			st := free(c)
			st.Set(counterKey, sdk.Uint64ToBigEndian(before+1))
			if swallow {
				defer func() {
					if rec := recover(); rec != nil {
						if kind == "nil" {
							err = nil
						} else {
							err = errContract
						}
					}
				}()
			}
			c.GasMeter().ConsumeGas(used, execDescriptor)
			switch kind {
			case "err":
				return errContract
			case "panic":
				panic("verif contract panic")
			}
			return nil
		}
		cbd := cbtypes.CallbackData{CallbackAddress: "x", ExecutionGasLimit: exec, CommitGasLimit: commit}
		var err error
		var pv any
		func() {
			defer func() { pv = recover() }()
			err = ibccallbacks.VerifProcessCallback(ctx, cbt, cbd, executor)
		}()
		res := []any{}
		if pv != nil {
			res = append(res, "panic", classifyPanic(pv, cbt))
		} else {
			res = append(res, "ret", classifyErr(err))
		}
		res = append(res, hx.U(outer.GasConsumed()), hx.U(getCounter(ctx)-before))
		o.Emit("cb_process", []any{string(cbt), kind, swallow, hx.U(limit), hx.U(consumed), hx.U(exec), hx.U(commit), hx.U(used)}, res, tag+"/"+kind)
	}
}
