package icagmp

import (
	gmptypes "github.com/cosmos/ibc-go/v11/modules/apps/27-gmp/types"

	"verif/harness/hx"
)

const idAlphabet = "abcdefghijklmnopqrstuvwxyzABCDEFGHIJKLMNOPQRSTUVWXYZ0123456789._+-#[]<>"

var blankish = []string{"", " ", "\t\n", "  \r ", "\v\f", "\u0085", "\u00a0", "\u1680", "\u2000", "\u200a", "\u2028\u2029", "\u202f", "\u205f", "\u3000",
	"\u2003 \t", "\u200b", "\u180e", "\xc2", "\xc2\x84", "\xe2\x80", "\xe2\x80\x8b", "\xe2\x81\x9f ", "\xe3\x80\x81", "\xa0", " x ", "\x00", "\xe1\x9a\x80\xe1\x9a",
	"\xc0\xa0", "\xe0\x82\x85", "\u2007\u2008"}

func emitGmpAddr(o *hx.Out, c, s string, salt []byte, tag string) {
	id := gmptypes.NewAccountIdentifier(c, s, salt)
	a, err := gmptypes.BuildAddressPredictable(&id)
	o.Emit("gmp_addr", []string{hx.HS(c), hx.HS(s), hx.H(salt)}, []any{err == nil, hx.H(a)}, tag)
}

func genClientID(r *hx.Rng) string {
	switch r.Intn(5) {
	case 0:
		return "07-tendermint-" + hx.U(uint64(r.Intn(1000)))
	case 1:
		return r.Pick([]string{"08-wasm-0", "06-solomachine-3", "client-1", "09-localhost", "abcd"})
	default:
		return r.Str(idAlphabet, 4, 20)
	}
}

// famGmpAddr drives BuildAddressPredictable: coinciding concatenations, empty salt, NUL bytes,
// every validation guard alone, boundary lengths.
func famGmpAddr(r *hx.Rng, o *hx.Out) {
	n := hx.N(60, 600)
	// coinciding concatenations: one string cut at two different places
	for i := 0; i < n; i++ {
		w := r.Str(idAlphabet, 10, 30)
		salt := r.Bytes(r.Intn(4))
		i1 := 4 + r.Intn(len(w)-6)
		i2 := 4 + r.Intn(len(w)-6)
		j1 := i1 + 1 + r.Intn(len(w)-i1-1)
		j2 := i2 + 1 + r.Intn(len(w)-i2-1)
		emitGmpAddr(o, w[:i1], w[i1:j1], append([]byte(w[j1:]), salt...), "concat")
		emitGmpAddr(o, w[:i2], w[i2:j2], append([]byte(w[j2:]), salt...), "concat")
		// sender/salt boundary moved, client fixed
		emitGmpAddr(o, w[:i1], w[i1:], salt, "concat-nosalt")
		emitGmpAddr(o, w[:i1], w[i1:j1], []byte(w[j1:]), "concat-nosalt")
	}
	emitGmpAddr(o, "abcd", "c", nil, "fixed")
	emitGmpAddr(o, "abcd", "c", []byte{}, "fixed")
	emitGmpAddr(o, "abcdc", "c", nil, "fixed")
	emitGmpAddr(o, "abcd", "cc", nil, "fixed")
	emitGmpAddr(o, "abcd", "c", []byte("c"), "fixed")
	for i := 0; i < n; i++ {
		c := genClientID(r)
		s := r.Str(idAlphabet+" /:", 1, 64)
		var salt []byte
		tag := "valid"
		switch r.Intn(10) {
		case 0:
			salt = nil
			tag = "empty-salt"
		case 1:
			salt = make([]byte, r.Intn(5))
			tag = "nul-salt"
		case 2:
			s = "\x00" + s[:r.Intn(len(s))] + "\x00"
			salt = r.Bytes(r.Intn(33))
			tag = "nul-sender"
		case 3:
			s = blankish[r.Intn(len(blankish))]
			salt = r.Bytes(r.Intn(8))
			tag = "blank-sender"
		case 4:
			c = blankish[r.Intn(len(blankish))]
			tag = "blank-client"
		case 5:
			c = r.Str(idAlphabet, 0, 6)
			tag = "short-client"
		case 6:
			c = r.Str(idAlphabet, 62, 66)
			tag = "long-client"
		case 7:
			k := r.Intn(len(c) + 1)
			c = c[:k] + r.Pick([]string{"/", " ", "@", "!", "\x00", "\xc3\xa9", "~", "=", ","}) + c[k:]
			tag = "badchar-client"
		case 8:
			s = r.Str(idAlphabet, 1, 10) + blankish[r.Intn(len(blankish))]
			salt = r.Bytes(r.Intn(40))
			tag = "mixed-sender"
		default:
			salt = r.Bytes(r.Intn(40))
		}
		emitGmpAddr(o, c, s, salt, tag)
	}
}
