package handshake

import (
	"fmt"
	"strings"
	"testing"

	clienttypes "github.com/cosmos/ibc-go/v11/modules/core/02-client/types"
	conntypes "github.com/cosmos/ibc-go/v11/modules/core/03-connection/types"
	chantypes "github.com/cosmos/ibc-go/v11/modules/core/04-channel/types"

	"verif/harness/hx"
)

const mockPort = "mock"

// ---- reading the real state (the generator is directed by what the implementation holds) ------

func (w *W) getConn(c int, id string) (conntypes.ConnectionEnd, bool) {
	return w.ch[c].App.GetIBCKeeper().ConnectionKeeper.GetConnection(w.ctx(c), id)
}

func (w *W) getChan(c int, port, id string) (chantypes.Channel, bool) {
	return w.ch[c].App.GetIBCKeeper().ChannelKeeper.GetChannel(w.ctx(c), port, id)
}

func (w *W) latest(c int, client string) uint64 {
	hs := w.consHeights(c, client)
	if len(hs) == 0 {
		return 3
	}
	return hs[len(hs)-1]
}

func (w *W) ph(c int, h uint64) clienttypes.Height { return clienttypes.NewHeight(w.rev(1-c), h) }

func connPrf(h uint64, id string) Prf         { return Prf{H: h, KeyKind: "conn", A: id} }
func chanPrf(h uint64, port, id string) Prf   { return Prf{H: h, KeyKind: "chan", A: port, B: id} }
func (w *W) clientOfConn(c int, id string) string {
	if e, ok := w.getConn(c, id); ok {
		return e.ClientId
	}
	return clientIDs[0]
}

// ---- valid next steps --------------------------------------------------------------------------

func (w *W) mkConnInit(r *hx.Rng, c int) *Op {
	k := r.Intn(2)
	o := &Op{Kind: "conn_init", C: c, Client: clientIDs[k], CpClient: clientIDs[r.Intn(2)], CpPrefix: "ibc", Tag: "valid"}
	switch r.Intn(6) {
	case 0:
		o.Version = conntypes.NewVersion("1", []string{"ORDER_ORDERED"})
	case 1:
		o.Version = conntypes.NewVersion("1", []string{"ORDER_UNORDERED"})
	case 2:
		o.Version = conntypes.NewVersion("1", []string{"ORDER_UNORDERED", "ORDER_ORDERED"})
	}
	if r.Chance(1, 4) {
		o.Delay = r.U64B()
	}
	return o
}

func (w *W) mkConnTry(c int, cpID string) *Op {
	cp, _ := w.getConn(1-c, cpID)
	h := w.latest(c, cp.Counterparty.ClientId)
	return &Op{Kind: "conn_try", C: c, Client: cp.Counterparty.ClientId, CpClient: cp.ClientId, CpConn: cpID, CpPrefix: "ibc",
		Versions: cp.Versions, Delay: cp.DelayPeriod, Proof: connPrf(h, cpID), PH: w.ph(c, h), Tag: "valid"}
}

func (w *W) mkConnAck(c int, id, cpID string) *Op {
	my, _ := w.getConn(c, id)
	cp, _ := w.getConn(1-c, cpID)
	v := conntypes.NewVersion("1", []string{"ORDER_ORDERED", "ORDER_UNORDERED"})
	if len(cp.Versions) > 0 {
		v = cp.Versions[0]
	}
	h := w.latest(c, my.ClientId)
	return &Op{Kind: "conn_ack", C: c, Conn: id, CpConn: cpID, Version: v, Proof: connPrf(h, cpID), PH: w.ph(c, h), Tag: "valid"}
}

func (w *W) mkConnConfirm(c int, id string) *Op {
	my, _ := w.getConn(c, id)
	h := w.latest(c, my.ClientId)
	return &Op{Kind: "conn_confirm", C: c, Conn: id, Proof: connPrf(h, my.Counterparty.ConnectionId), PH: w.ph(c, h), Tag: "valid"}
}

func (w *W) mkChanInit(r *hx.Rng, c int, connID string) *Op {
	order := int32(1 + r.Intn(2))
	ver := []string{"v1", "v2", "", "mock-version"}[r.Intn(4)]
	appv := ver
	if r.Chance(1, 4) {
		appv = "app-" + ver
	}
	return &Op{Kind: "chan_init", C: c, Port: mockPort, State: 1, Order: order, CpPort: mockPort, Hops: []string{connID}, ChVersion: ver, AppVer: appv, Tag: "valid"}
}

func (w *W) mkChanTry(r *hx.Rng, c int, connID, cpPort, cpChan string) *Op {
	cp, _ := w.getChan(1-c, cpPort, cpChan)
	h := w.latest(c, w.clientOfConn(c, connID))
	appv := cp.Version
	if r.Chance(1, 3) {
		appv = "try-" + cp.Version
	}
	return &Op{Kind: "chan_try", C: c, Port: cp.Counterparty.PortId, State: 2, Order: int32(cp.Ordering), CpPort: cpPort, CpChan: cpChan, Hops: []string{connID},
		ChVersion: "ignored", CpVersion: cp.Version, Proof: chanPrf(h, cpPort, cpChan), PH: w.ph(c, h), AppVer: appv, Tag: "valid"}
}

func (w *W) mkChanAck(c int, port, id, cpChan string) *Op {
	my, _ := w.getChan(c, port, id)
	cp, _ := w.getChan(1-c, my.Counterparty.PortId, cpChan)
	hop := ""
	if len(my.ConnectionHops) > 0 {
		hop = my.ConnectionHops[0]
	}
	h := w.latest(c, w.clientOfConn(c, hop))
	return &Op{Kind: "chan_ack", C: c, Port: port, Chan: id, CpChan: cpChan, CpVersion: cp.Version, Proof: chanPrf(h, my.Counterparty.PortId, cpChan), PH: w.ph(c, h), Tag: "valid"}
}

func (w *W) mkChanProofStep(kind string, c int, port, id string) *Op {
	my, _ := w.getChan(c, port, id)
	hop := ""
	if len(my.ConnectionHops) > 0 {
		hop = my.ConnectionHops[0]
	}
	h := w.latest(c, w.clientOfConn(c, hop))
	return &Op{Kind: kind, C: c, Port: port, Chan: id, Proof: chanPrf(h, my.Counterparty.PortId, my.Counterparty.ChannelId), PH: w.ph(c, h), Tag: "valid"}
}

// candidates returns the handshake steps that are expected to make progress right now.
func (w *W) candidates(r *hx.Rng, maxConns, maxChans int) (connSteps, chanSteps, closeSteps []*Op) {
	for c := 0; c < 2; c++ {
		conns := w.conns(c)
		other := w.conns(1 - c)
		nReal := 0
		for _, ic := range conns {
			if ic.Id == "connection-localhost" {
				continue
			}
			nReal++
			switch ic.State {
			case conntypes.INIT:
				// a TRYOPEN end on the other chain that names this end -> Ack here; otherwise Try there
				acked := false
				for _, oc := range other {
					if oc.State == conntypes.TRYOPEN && oc.Counterparty.ConnectionId == ic.Id {
						connSteps = append(connSteps, w.mkConnAck(c, ic.Id, oc.Id))
						acked = true
					}
				}
				// INIT ends stored by a mutated (but accepted) message can never complete; try them rarely
				hopeless := string(ic.Counterparty.Prefix.KeyPrefix) != "ibc" || (ic.Counterparty.ClientId != clientIDs[0] && ic.Counterparty.ClientId != clientIDs[1])
				if (!acked || r.Chance(1, 6)) && (!hopeless || r.Chance(1, 10)) {
					connSteps = append(connSteps, w.mkConnTry(1-c, ic.Id))
				}
			case conntypes.OPEN:
				for _, oc := range other {
					if oc.State == conntypes.TRYOPEN && oc.Id == ic.Counterparty.ConnectionId {
						connSteps = append(connSteps, w.mkConnConfirm(1-c, oc.Id))
					}
				}
			}
		}
		if nReal < maxConns {
			connSteps = append(connSteps, w.mkConnInit(r, c))
		}
		chans := w.chans(c)
		ochans := w.chans(1 - c)
		for _, ic := range conns {
			if ic.Id == "connection-localhost" {
				if len(chans) < maxChans && r.Chance(1, 10) {
					chanSteps = append(chanSteps, w.mkChanInit(r, c, ic.Id))
				}
				continue
			}
			if len(ic.Versions) == 1 && len(chans) < maxChans && (ic.State == conntypes.OPEN || r.Chance(1, 5)) {
				chanSteps = append(chanSteps, w.mkChanInit(r, c, ic.Id))
			}
		}
		for _, ch := range chans {
			if len(ch.ConnectionHops) != 1 || ch.ConnectionHops[0] == "connection-localhost" {
				if ch.State != chantypes.CLOSED {
					closeSteps = append(closeSteps, &Op{Kind: "chan_close_init", C: c, Port: ch.PortId, Chan: ch.ChannelId, Tag: "valid"})
				}
				continue
			}
			myConn, _ := w.getConn(c, ch.ConnectionHops[0])
			switch ch.State {
			case chantypes.INIT:
				acked := false
				for _, oc := range ochans {
					if oc.State == chantypes.TRYOPEN && oc.Counterparty.ChannelId == ch.ChannelId && oc.Counterparty.PortId == ch.PortId {
						chanSteps = append(chanSteps, w.mkChanAck(c, ch.PortId, ch.ChannelId, oc.ChannelId))
						acked = true
					}
				}
				cpConn, cpOK := w.getConn(1-c, myConn.Counterparty.ConnectionId)
				if (!acked || r.Chance(1, 6)) && myConn.Counterparty.ConnectionId != "" && cpOK && (cpConn.State == conntypes.OPEN || r.Chance(1, 8)) {
					chanSteps = append(chanSteps, w.mkChanTry(r, 1-c, myConn.Counterparty.ConnectionId, ch.PortId, ch.ChannelId))
				}
			case chantypes.OPEN:
				for _, oc := range ochans {
					if oc.State == chantypes.TRYOPEN && oc.ChannelId == ch.Counterparty.ChannelId {
						chanSteps = append(chanSteps, w.mkChanProofStep("chan_confirm", 1-c, oc.PortId, oc.ChannelId))
					}
				}
				if ch.Ordering == chantypes.ORDERED && myConn.DelayPeriod == 0 {
					key := pendKey(c, ch.PortId, ch.ChannelId)
					if pkt, ok := w.pend[key]; ok {
						cl := myConn.ClientId
						if h := w.latest(c, cl); h >= pkt.TimeoutHeight.RevisionHeight {
							closeSteps = append(closeSteps, &Op{Kind: "timeout", C: c, Port: ch.PortId, Chan: ch.ChannelId, PH: w.ph(c, h), Tag: "valid"})
						} else {
							closeSteps = append(closeSteps, &Op{Kind: "update", C: c, Client: cl, Tag: "for-timeout"})
						}
					} else {
						closeSteps = append(closeSteps, &Op{Kind: "send", C: c, Port: ch.PortId, Chan: ch.ChannelId, Tag: "valid"})
					}
				}
			case chantypes.CLOSED:
				for _, oc := range ochans {
					if oc.State != chantypes.CLOSED && oc.ChannelId == ch.Counterparty.ChannelId && oc.Counterparty.ChannelId == ch.ChannelId {
						closeSteps = append(closeSteps, w.mkChanProofStep("chan_close_confirm", 1-c, oc.PortId, oc.ChannelId))
					}
				}
			}
			if ch.State != chantypes.CLOSED && r.Chance(1, 3) && (myConn.State == conntypes.OPEN || r.Chance(1, 8)) {
				closeSteps = append(closeSteps, &Op{Kind: "chan_close_init", C: c, Port: ch.PortId, Chan: ch.ChannelId, Tag: "valid"})
			}
		}
	}
	return
}

// ---- one-field mutations ------------------------------------------------------------------------

var badClients = []string{"09-localhost", "07-tendermint-9", "07-tendermint-1", "07-tendermint-0", "abc", "07-tendermint/0", "", " ", "06-solomachine-0"}
var badConns = []string{"connection-0", "connection-1", "connection-2", "connection-7", "connection-localhost", "conn-0", "connection-", "myconnection", "", "connection-18446744073709551616", "connection-00", "connection/0"}
var badChans = []string{"channel-0", "channel-1", "channel-2", "channel-9", "chan-0", "channel-", "mychannel", "", "channel-18446744073709551616", "channel-01", "channel/0"}
var badPorts = []string{"unbound", "mock", "m", "", "mock/x", "transferx"}
var badPrefixes = []string{"", "ibx", "ib", "ibc/", "i"}

func (w *W) mutateProof(r *hx.Rng, o *Op) string {
	c := o.C
	hs := w.consHeights(c, clientIDs[0])
	hs = append(hs, w.consHeights(c, clientIDs[1])...)
	anyH := func() uint64 {
		if len(hs) == 0 || r.Chance(1, 5) {
			top := uint64(w.ch[1-c].App.LastBlockHeight()) + 1
			return 3 + uint64(r.Intn(int(top)-2))
		}
		return hs[r.Intn(len(hs))]
	}
	switch r.Intn(10) {
	case 0, 9:
		o.Proof = Prf{IsGarbage: true, Garbage: nil}
		return "proof-empty"
	case 1:
		o.Proof = Prf{IsGarbage: true, Garbage: r.Bytes(2 + r.Intn(40))}
		return "proof-garbage"
	case 2: // stale but honest: both the proof and the claimed height move to an older consensus height
		h := anyH()
		o.Proof.H = h
		o.PH.RevisionHeight = h
		return "proof-stale-height"
	case 3: // proof taken at another height than claimed
		h := anyH()
		if h == o.PH.RevisionHeight {
			h--
		}
		if h < 3 {
			h = 3
		}
		o.Proof.H = h
		return "proof-height-mismatch"
	case 4:
		o.PH.RevisionHeight++
		o.Proof.H = o.PH.RevisionHeight
		if o.Proof.H > uint64(w.ch[1-c].App.LastBlockHeight())+1 {
			o.Proof.H = uint64(w.ch[1-c].App.LastBlockHeight()) + 1
		}
		return "proof-height-unknown"
	case 5:
		o.PH.RevisionNumber += 1
		return "proof-revision"
	case 6: // proof of another key
		if o.Proof.KeyKind == "conn" {
			o.Proof.A = badConns[r.Intn(4)]
		} else {
			o.Proof.B = badChans[r.Intn(4)]
		}
		return "proof-other-key"
	case 7:
		if o.Proof.KeyKind == "conn" {
			o.Proof = chanPrf(o.Proof.H, mockPort, "channel-0")
		} else {
			o.Proof = connPrf(o.Proof.H, "connection-0")
		}
		return "proof-other-kind"
	default:
		o.PH = clienttypes.NewHeight(o.PH.RevisionNumber, 0)
		return "proof-height-zero"
	}
}

func pick(r *hx.Rng, xs []string) string { return xs[r.Intn(len(xs))] }

// mutate changes one field of an otherwise valid message.
func (w *W) mutate(r *hx.Rng, o *Op) {
	tag := "noop"
	hasProof := o.Kind == "conn_try" || o.Kind == "conn_ack" || o.Kind == "conn_confirm" || o.Kind == "chan_try" || o.Kind == "chan_ack" || o.Kind == "chan_confirm" || o.Kind == "chan_close_confirm"
	if hasProof && r.Chance(1, 4) {
		o.Tag = "mut:" + w.mutateProof(r, o)
		return
	}
	altVersions := func() []*conntypes.Version {
		switch r.Intn(7) {
		case 0:
			return nil
		case 1:
			return []*conntypes.Version{conntypes.NewVersion("1", []string{"ORDER_ORDERED"})}
		case 2:
			return []*conntypes.Version{conntypes.NewVersion("1", []string{"ORDER_UNORDERED", "ORDER_ORDERED"})}
		case 3:
			return []*conntypes.Version{conntypes.NewVersion("2", []string{"ORDER_ORDERED", "ORDER_UNORDERED"})}
		case 4:
			return []*conntypes.Version{conntypes.NewVersion("1", nil)}
		case 5:
			return []*conntypes.Version{conntypes.NewVersion("1", []string{"ORDER_ORDERED", "ORDER_UNORDERED"}), conntypes.NewVersion("1", []string{"ORDER_ORDERED", "ORDER_UNORDERED"})}
		default:
			return []*conntypes.Version{conntypes.NewVersion(" ", []string{"ORDER_ORDERED"})}
		}
	}
	altVersion := func() *conntypes.Version {
		switch r.Intn(7) {
		case 0:
			return conntypes.NewVersion("1", []string{"ORDER_ORDERED"})
		case 1:
			return conntypes.NewVersion("1", []string{"ORDER_UNORDERED"})
		case 2:
			return conntypes.NewVersion("1", []string{"ORDER_UNORDERED", "ORDER_ORDERED"})
		case 3:
			return conntypes.NewVersion("2", []string{"ORDER_ORDERED"})
		case 4:
			return conntypes.NewVersion("1", nil)
		case 5:
			return conntypes.NewVersion("1", []string{"ORDER_ORDERED", "ORDER_DAG"})
		default:
			return conntypes.NewVersion("1", []string{"ORDER_ORDERED", " "})
		}
	}
	switch o.Kind {
	case "conn_init":
		switch r.Intn(7) {
		case 0:
			o.Client, tag = pick(r, badClients), "client"
		case 1:
			o.CpClient, tag = pick(r, badClients), "cp_client"
		case 2:
			o.CpConn, tag = pick(r, badConns), "cp_conn"
		case 3:
			o.CpPrefix, tag = pick(r, badPrefixes), "cp_prefix"
		case 4:
			o.Version, tag = altVersion(), "version"
		case 5:
			o.Delay, tag = r.U64B(), "delay"
		default:
			o.CpPrefix, tag = string(make([]byte, 256+r.Intn(2))), "cp_prefix-long"
		}
	case "conn_try":
		switch r.Intn(7) {
		case 0:
			o.Client, tag = pick(r, badClients), "client"
		case 1:
			o.CpClient, tag = pick(r, badClients), "cp_client"
		case 2:
			o.CpConn, tag = pick(r, badConns), "cp_conn"
			if r.Bool() && !o.Proof.IsGarbage {
				o.Proof.A = o.CpConn
			}
		case 3:
			o.CpPrefix, tag = pick(r, badPrefixes), "cp_prefix"
		case 4:
			o.Versions, tag = altVersions(), "cp_versions"
		case 5:
			o.Delay, tag = o.Delay+1, "delay"
		default:
			n := 100 + r.Intn(2)
			vs := make([]*conntypes.Version, n)
			for i := range vs {
				vs[i] = conntypes.NewVersion("1", []string{"ORDER_ORDERED", "ORDER_UNORDERED"})
			}
			o.Versions, tag = vs, "cp_versions-count"
		}
	case "conn_ack":
		switch r.Intn(3) {
		case 0:
			o.Conn, tag = pick(r, badConns), "conn"
		case 1:
			o.CpConn, tag = pick(r, badConns), "cp_conn"
			if r.Bool() && !o.Proof.IsGarbage {
				o.Proof.A = o.CpConn
			}
		default:
			o.Version, tag = altVersion(), "version"
		}
	case "conn_confirm":
		o.Conn, tag = pick(r, badConns), "conn"
	case "chan_init":
		switch r.Intn(9) {
		case 0:
			o.Port, tag = pick(r, badPorts), "port"
		case 1:
			o.State, tag = int32(r.Intn(5)), "state"
		case 2:
			o.Order, tag = int32(r.Intn(3)), "order"
		case 3:
			o.CpPort, tag = pick(r, badPorts), "cp_port"
		case 4:
			o.CpChan, tag = pick(r, badChans), "cp_chan"
		case 5:
			o.Hops, tag = []string{pick(r, badConns)}, "hops"
		case 6:
			o.Hops, tag = [][]string{nil, {o.Hops[0], o.Hops[0]}, {"connection-0", "connection-1"}}[r.Intn(3)], "hops-count"
		case 7:
			o.AppFail, tag = true, "app-fail"
		default:
			o.AppVer, tag = "changed-by-app", "app-version"
		}
	case "chan_try":
		switch r.Intn(11) {
		case 0:
			o.Port, tag = pick(r, badPorts), "port"
		case 1:
			o.State, tag = int32(r.Intn(5)), "state"
		case 2:
			o.Order, tag = int32(r.Intn(3)), "order"
		case 3:
			o.CpPort, tag = pick(r, badPorts), "cp_port"
		case 4:
			o.CpChan, tag = pick(r, badChans), "cp_chan"
			if r.Bool() && !o.Proof.IsGarbage {
				o.Proof.B = o.CpChan
			}
		case 5:
			o.Hops, tag = []string{pick(r, badConns)}, "hops"
		case 6:
			o.Hops, tag = [][]string{nil, {o.Hops[0], o.Hops[0]}}[r.Intn(2)], "hops-count"
		case 7:
			o.CpVersion, tag = o.CpVersion+"x", "cp_version"
		case 8:
			o.AppFail, tag = true, "app-fail"
		case 9:
			o.AppVer, tag = "changed-by-app", "app-version"
		default:
			o.ChVersion, tag = "other", "msg-version-ignored"
		}
	case "chan_ack":
		switch r.Intn(5) {
		case 0:
			o.Port, tag = pick(r, badPorts), "port"
		case 1:
			o.Chan, tag = pick(r, badChans), "chan"
		case 2:
			o.CpChan, tag = pick(r, badChans), "cp_chan"
			if r.Bool() && !o.Proof.IsGarbage {
				o.Proof.B = o.CpChan
			}
		case 3:
			o.CpVersion, tag = o.CpVersion+"x", "cp_version"
		default:
			o.AppFail, tag = true, "app-fail"
		}
	case "chan_confirm", "chan_close_confirm", "chan_close_init":
		switch r.Intn(3) {
		case 0:
			o.Port, tag = pick(r, badPorts), "port"
		case 1:
			o.Chan, tag = pick(r, badChans), "chan"
		default:
			o.AppFail, tag = true, "app-fail"
		}
	}
	o.Tag = "mut:" + tag
}

// junk builds a message that ignores the current state (out-of-order, unknown identifiers).
func (w *W) junk(r *hx.Rng) *Op {
	c := r.Intn(2)
	client := clientIDs[r.Intn(2)]
	h := w.latest(c, client)
	conn := badConns[r.Intn(4)]
	chn := badChans[r.Intn(4)]
	var o *Op
	switch r.Intn(11) {
	case 10:
		o = &Op{Kind: "send", C: c, Port: mockPort, Chan: chn}
	case 0:
		o = &Op{Kind: "conn_try", C: c, Client: client, CpClient: clientIDs[r.Intn(2)], CpConn: conn, CpPrefix: "ibc",
			Versions: conntypes.GetCompatibleVersions(), Proof: connPrf(h, conn), PH: w.ph(c, h)}
	case 1:
		o = &Op{Kind: "conn_ack", C: c, Conn: conn, CpConn: badConns[r.Intn(4)], Version: conntypes.GetCompatibleVersions()[0], Proof: connPrf(h, badConns[r.Intn(4)]), PH: w.ph(c, h)}
	case 2:
		o = &Op{Kind: "conn_confirm", C: c, Conn: conn, Proof: connPrf(h, badConns[r.Intn(4)]), PH: w.ph(c, h)}
	case 3:
		o = &Op{Kind: "chan_try", C: c, Port: mockPort, State: 2, Order: int32(1 + r.Intn(2)), CpPort: mockPort, CpChan: chn, Hops: []string{conn}, CpVersion: "v1",
			Proof: chanPrf(h, mockPort, chn), PH: w.ph(c, h), AppVer: "v1"}
	case 4:
		o = &Op{Kind: "chan_ack", C: c, Port: mockPort, Chan: chn, CpChan: badChans[r.Intn(4)], CpVersion: "v1", Proof: chanPrf(h, mockPort, badChans[r.Intn(4)]), PH: w.ph(c, h)}
	case 5:
		o = &Op{Kind: "chan_confirm", C: c, Port: mockPort, Chan: chn, Proof: chanPrf(h, mockPort, badChans[r.Intn(4)]), PH: w.ph(c, h)}
	case 6:
		o = &Op{Kind: "chan_close_confirm", C: c, Port: mockPort, Chan: chn, Proof: chanPrf(h, mockPort, badChans[r.Intn(4)]), PH: w.ph(c, h)}
	case 7:
		o = &Op{Kind: "chan_close_init", C: c, Port: mockPort, Chan: chn}
	case 8:
		o = &Op{Kind: "chan_init", C: c, Port: mockPort, State: 1, Order: int32(1 + r.Intn(2)), CpPort: mockPort, Hops: []string{conn}, ChVersion: "v1", AppVer: "v1"}
	default:
		o = &Op{Kind: "conn_ack", C: c, Conn: "connection-localhost", CpConn: "connection-localhost", Version: conntypes.GetCompatibleVersions()[0], Proof: connPrf(h, "connection-localhost"), PH: w.ph(c, h)}
	}
	o.Tag = "junk"
	return o
}

// wrongState returns handshake messages that carry an honest, currently valid proof of the counterparty
// end but are addressed to an end that is NOT in the state the handler expects (in particular CLOSED ends
// reached from INIT, TRYOPEN or OPEN), plus replays of already accepted handshake messages for ends that
// have been closed since.  Every one of them must be rejected and must leave the end as it is.
func (w *W) wrongState(r *hx.Rng, accepted []*Op) []*Op {
	var out []*Op
	add := func(o *Op, tag string) {
		o.Tag = tag
		out = append(out, o)
	}
	for c := 0; c < 2; c++ {
		ochans := w.chans(1 - c)
		for _, ch := range w.chans(c) {
			if len(ch.ConnectionHops) != 1 || ch.ConnectionHops[0] == "connection-localhost" {
				continue
			}
			from := fmt.Sprintf("%d", int32(ch.State))
			for _, oc := range ochans {
				namesMe := oc.Counterparty.ChannelId == ch.ChannelId && oc.Counterparty.PortId == ch.PortId
				iName := ch.Counterparty.ChannelId == oc.ChannelId && ch.Counterparty.PortId == oc.PortId
				if !namesMe && !iName {
					continue
				}
				// ack: expects INIT here and TRYOPEN there
				if ch.State != chantypes.INIT && namesMe {
					add(w.mkChanAck(c, ch.PortId, ch.ChannelId, oc.ChannelId), "wrong-state:ack-on-"+from)
				}
				// confirm: expects TRYOPEN here and OPEN there
				if ch.State != chantypes.TRYOPEN && iName {
					add(w.mkChanProofStep("chan_confirm", c, ch.PortId, ch.ChannelId), "wrong-state:confirm-on-"+from)
				}
				// close-confirm on an already CLOSED end
				if ch.State == chantypes.CLOSED && iName {
					add(w.mkChanProofStep("chan_close_confirm", c, ch.PortId, ch.ChannelId), "wrong-state:close-confirm-on-"+from)
				}
				// try against a counterparty end that is no longer INIT
				if ch.State != chantypes.INIT {
					if myConn, ok := w.getConn(c, ch.ConnectionHops[0]); ok && myConn.Counterparty.ConnectionId != "" {
						add(w.mkChanTry(r, 1-c, myConn.Counterparty.ConnectionId, ch.PortId, ch.ChannelId), "wrong-state:try-for-"+from)
					}
				}
			}
			if ch.State == chantypes.CLOSED {
				add(&Op{Kind: "chan_close_init", C: c, Port: ch.PortId, Chan: ch.ChannelId}, "wrong-state:close-init-on-4")
				for _, a := range accepted {
					if a.C == c && a.Port == ch.PortId && a.Chan == ch.ChannelId && (a.Kind == "chan_ack" || a.Kind == "chan_confirm") {
						d := *a
						add(&d, "replay-after-close:"+a.Kind)
					}
				}
			}
		}
		other := w.conns(1 - c)
		for _, ic := range w.conns(c) {
			if ic.Id == "connection-localhost" {
				continue
			}
			from := fmt.Sprintf("%d", int32(ic.State))
			for _, oc := range other {
				if oc.Counterparty.ConnectionId == ic.Id && ic.State != conntypes.INIT {
					add(w.mkConnAck(c, ic.Id, oc.Id), "wrong-state:conn-ack-on-"+from)
				}
				if ic.Counterparty.ConnectionId == oc.Id && ic.State != conntypes.TRYOPEN {
					add(w.mkConnConfirm(c, ic.Id), "wrong-state:conn-confirm-on-"+from)
				}
			}
			if ic.State != conntypes.INIT {
				for _, a := range accepted {
					if a.C == c && a.Conn == ic.Id && (a.Kind == "conn_ack" || a.Kind == "conn_confirm") && r.Chance(1, 3) {
						d := *a
						add(&d, "replay-after-open:"+a.Kind)
					}
				}
			}
		}
	}
	return out
}

// ---- history driver ------------------------------------------------------------------------------

func famHistories(t *testing.T, r *hx.Rng, o *hx.Out, nh int) {
	nops := hx.N(80, 90)
	for i := 0; i < nh; i++ {
		w := newWorld(t)
		init := w.initInfo()
		var ops []any
		var outs []any
		var done []*Op
		var accepted []*Op
		// in a third of the histories ends are closed early and often, and wrong-state deliveries dominate
		closeMode := i%3 == 0
		maxConns := 1 + r.Intn(3)
		maxChans := 1 + r.Intn(4)
		pMut := 1 + r.Intn(4) // of 10
		expired := false
		mayExpire := r.Chance(1, 3)
		profile := fmt.Sprintf("conns%d-chans%d-mut%d", maxConns, maxChans, pMut)
		run := func(op *Op) {
			if !op.Proof.IsGarbage && op.Proof.KeyKind != "" {
				if top := uint64(w.ch[1-op.C].App.LastBlockHeight()) + 1; op.Proof.H < 3 || op.Proof.H > top {
					op.Proof = Prf{IsGarbage: true, Garbage: []byte{0x0a, 0x00}}
					op.Tag += "+unqueryable"
				}
			}
			ok := false
			panicked, msg := hx.Catch(func() { ok = w.exec(op) })
			if panicked {
				t.Fatalf("harness panic on %v: %s", op.j(), msg)
			}
			ops = append(ops, op.j())
			p := w.proj(op.C)
			p["ok"] = ok
			outs = append(outs, p)
			done = append(done, op)
			if ok {
				switch op.Kind {
				case "chan_ack", "chan_confirm", "conn_ack", "conn_confirm":
					cp := *op
					accepted = append(accepted, &cp)
				}
			}
		}
		needsUpdate0 := func(op *Op) (string, bool) {
			switch op.Kind {
			case "conn_try":
				return op.Client, true
			case "conn_ack", "conn_confirm":
				return w.clientOfConn(op.C, op.Conn), true
			case "chan_try":
				return w.clientOfConn(op.C, op.Hops[0]), true
			case "chan_ack", "chan_confirm", "chan_close_confirm":
				if ch, ok := w.getChan(op.C, op.Port, op.Chan); ok && len(ch.ConnectionHops) > 0 {
					return w.clientOfConn(op.C, ch.ConnectionHops[0]), true
				}
			}
			return "", false
		}
		needsUpdate := func(op *Op) (string, bool) {
			cl, ok := needsUpdate0(op)
			return cl, ok && (cl == clientIDs[0] || cl == clientIDs[1])
		}
		for len(ops) < nops {
			cs, hs, cl := w.candidates(r, maxConns, maxChans)
			roll := r.Intn(100)
			var op *Op
			// a pending packet on an ORDERED channel: drive it to its timeout half of the time
			var pendSteps []*Op
			for _, x := range cl {
				if x.Kind == "timeout" || x.Tag == "for-timeout" {
					pendSteps = append(pendSteps, x)
				}
			}
			switch {
			case r.Chance(1, 60):
				// loopback attempt: an INIT end naming 09-localhost as counterparty client, then a TRY on the
				// same chain over the localhost client with the sentinel proof (the localhost client would
				// verify it against the chain's own store; only ValidateBasic refuses it)
				c := r.Intn(2)
				before := len(w.conns(c))
				run(&Op{Kind: "conn_init", C: c, Client: clientIDs[r.Intn(2)], CpClient: "09-localhost", CpPrefix: "ibc", Tag: "loopback-init"})
				all := w.conns(c)
				if len(all) == before {
					continue
				}
				ic := all[len(all)-1]
				op = &Op{Kind: "conn_try", C: c, Client: "09-localhost", CpClient: ic.ClientId, CpConn: ic.Id, CpPrefix: "ibc", Versions: ic.Versions,
					Delay: ic.DelayPeriod, Proof: Prf{IsGarbage: true, Garbage: []byte{0x01}}, PH: clienttypes.NewHeight(w.rev(c), 2), Tag: "loopback-try"}
			case len(pendSteps) > 0 && r.Chance(1, 2):
				op = pendSteps[r.Intn(len(pendSteps))]
			case r.Chance(1, 9) || (closeMode && r.Chance(1, 4)):
				ws := w.wrongState(r, accepted)
				if len(ws) == 0 {
					continue
				}
				// pick a tag class uniformly, then an op, so that rare classes are not drowned
				byTag := map[string][]*Op{}
				var tags []string
				for _, x := range ws {
					if _, ok := byTag[x.Tag]; !ok {
						tags = append(tags, x.Tag)
					}
					byTag[x.Tag] = append(byTag[x.Tag], x)
				}
				// channel classes three times out of four (the connection state space is small)
				var chTags []string
				for _, tg := range tags {
					if !strings.Contains(tg, "conn") {
						chTags = append(chTags, tg)
					}
				}
				if len(chTags) > 0 && r.Chance(3, 4) {
					tags = chTags
				}
				xs := byTag[tags[r.Intn(len(tags))]]
				op = xs[r.Intn(len(xs))]
			case closeMode && r.Chance(1, 8):
				// close some end that is not CLOSED yet, whatever its state (INIT, TRYOPEN, OPEN)
				var cands []*Op
				for _, x := range cl {
					if x.Kind == "chan_close_init" || x.Kind == "chan_close_confirm" {
						cands = append(cands, x)
					}
				}
				for c := 0; c < 2; c++ {
					for _, ch := range w.chans(c) {
						if ch.State != chantypes.CLOSED && len(ch.ConnectionHops) == 1 {
							if mc, ok := w.getConn(c, ch.ConnectionHops[0]); ok && mc.State == conntypes.OPEN {
								cands = append(cands, &Op{Kind: "chan_close_init", C: c, Port: ch.PortId, Chan: ch.ChannelId, Tag: "valid"})
							}
						}
					}
				}
				if len(cands) == 0 {
					continue
				}
				op = cands[r.Intn(len(cands))]
			case roll < 34 && len(cs)+len(hs) > 0:
				all := append(append([]*Op{}, cs...), hs...)
				if len(hs) > 0 && r.Chance(1, 2) {
					all = hs
				}
				op = all[r.Intn(len(all))]
			case roll < 42 && len(cl) > 0:
				op = cl[r.Intn(len(cl))]
			case roll < 49:
				op = w.junk(r)
			case roll < 55 && len(done) > 0: // duplicate / replay of an earlier message, old proof
				d := *done[r.Intn(len(done))]
				if d.Kind == "send" || d.Kind == "timeout" || d.Kind == "expire" {
					continue
				}
				d.Tag = "replay"
				op = &d
			case roll < 58:
				op = &Op{Kind: "update", C: r.Intn(2), Client: clientIDs[r.Intn(2)], Tag: "random"}
			case roll < 60:
				op = &Op{Kind: "commit", C: r.Intn(2), Tag: "random"}
			case roll < 62 && !expired && mayExpire && len(ops) > nops*4/5:
				op = &Op{Kind: "expire", Tag: "expire"}
				expired = true
				maxChans += 2 // keep opening channels so that the client-status guards are reached
			default:
				byKind := map[string][]*Op{}
				var kinds []string
				for _, x := range append(append(append([]*Op{}, cs...), hs...), cl...) {
					if x.Kind == "send" || x.Kind == "timeout" || x.Kind == "update" {
						continue
					}
					if _, ok := byKind[x.Kind]; !ok {
						kinds = append(kinds, x.Kind)
					}
					byKind[x.Kind] = append(byKind[x.Kind], x)
				}
				if len(kinds) == 0 {
					continue
				}
				ks := byKind[kinds[r.Intn(len(kinds))]]
				op = ks[r.Intn(len(ks))]
				if r.Intn(10) < pMut+5 {
					// refresh the client first so that only the mutated field is wrong
					if cl, ok := needsUpdate(op); ok && r.Chance(4, 5) {
						run(&Op{Kind: "update", C: op.C, Client: cl, Tag: "before-mutant"})
						op = w.refresh(op)
					}
					w.mutate(r, op)
				}
			}
			if op.Tag == "valid" || strings.HasPrefix(op.Tag, "wrong-state:") {
				if cl, ok := needsUpdate(op); ok && r.Chance(9, 10) {
					run(&Op{Kind: "update", C: op.C, Client: cl, Tag: "before-valid"})
					op = w.refresh(op)
				}
			}
			run(op)
		}
		fin := []any{w.proj(0), w.proj(1)}
		o.Emit("history", map[string]any{"init": init, "ops": ops}, map[string]any{"steps": outs, "final": fin}, profile)
	}
}

// refresh re-targets the proof of a valid step at the client's (new) latest height.
func (w *W) refresh(op *Op) *Op {
	var cl string
	switch op.Kind {
	case "conn_try":
		cl = op.Client
	case "conn_ack", "conn_confirm":
		cl = w.clientOfConn(op.C, op.Conn)
	case "chan_try":
		cl = w.clientOfConn(op.C, op.Hops[0])
	case "chan_ack", "chan_confirm", "chan_close_confirm":
		ch, _ := w.getChan(op.C, op.Port, op.Chan)
		if len(ch.ConnectionHops) > 0 {
			cl = w.clientOfConn(op.C, ch.ConnectionHops[0])
		}
	default:
		return op
	}
	h := w.latest(op.C, cl)
	op.Proof.H = h
	op.PH = w.ph(op.C, h)
	return op
}
