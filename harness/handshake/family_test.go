package handshake

import (
	"testing"

	"verif/harness/hx"
)

// TestFamily writes the trace of the `handshake` scenario family.
func TestFamily(t *testing.T) {
	r := hx.NewRng("handshake")
	o := hx.NewOut()
	defer o.Close()
	famVersions(r, o)
	famHistories(t, r, o)
	t.Logf("records=%d", o.Count())
}
