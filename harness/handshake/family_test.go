package handshake

import (
	"testing"

	"verif/harness/hx"
)

// TestFamily writes the trace of the `handshake` scenario family.  Version-function records and
// two-chain histories are interleaved in 16 rounds so that the (expensive) histories spread evenly
// over the Coq shards.
func TestFamily(t *testing.T) {
	r := hx.NewRng("handshake")
	o := hx.NewOut()
	defer o.Close()
	nv := hx.N(62, 2000) // version records per round (4 rounds per function kind)
	nh := hx.N(2, 36)    // histories per round
	for round := 0; round < 16; round++ {
		famVersions(r, o, round%4, nv)
		famHistories(t, r, o, nh)
	}
	t.Logf("records=%d", o.Count())
}
