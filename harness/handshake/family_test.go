package handshake

import (
	"testing"

	"verif/harness/hx"
)

// TestFamily writes the trace of the `handshake` scenario family.  Version-function records and
// two-chain histories are interleaved so that the (expensive) histories spread over the Coq shards.
func TestFamily(t *testing.T) {
	r := hx.NewRng("handshake")
	o := hx.NewOut()
	defer o.Close()
	nh := hx.N(9, 150)
	for part := 0; part < 4; part++ {
		famVersions(r, o, part)
		famHistories(t, r, o, nh)
	}
	t.Logf("records=%d", o.Count())
}
