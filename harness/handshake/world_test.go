package handshake

import (
	"os"
	"sort"
	"strings"
	"testing"

	abci "github.com/cometbft/cometbft/abci/types"

	sdk "github.com/cosmos/cosmos-sdk/types"

	clienttypes "github.com/cosmos/ibc-go/v11/modules/core/02-client/types"
	conntypes "github.com/cosmos/ibc-go/v11/modules/core/03-connection/types"
	chantypes "github.com/cosmos/ibc-go/v11/modules/core/04-channel/types"
	commitmenttypes "github.com/cosmos/ibc-go/v11/modules/core/23-commitment/types"
	host "github.com/cosmos/ibc-go/v11/modules/core/24-host"
	"github.com/cosmos/ibc-go/v11/modules/core/exported"
	ibctesting "github.com/cosmos/ibc-go/v11/testing"

	"verif/harness/hx"
)

// ---- the two-chain world --------------------------------------------------------------------

// Prf says how the proof bytes of a message are produced: an honest query of the counterparty node
// at proof height H for a connection or channel key, or arbitrary bytes.
type Prf struct {
	Garbage   []byte
	IsGarbage bool
	H         uint64
	KeyKind   string // "conn" | "chan"
	A, B      string // conn id | port, channel
}

type Op struct {
	Kind string
	C    int // executing chain 0|1

	Client, CpClient, CpConn, CpPrefix string
	Version                            *conntypes.Version
	Versions                           []*conntypes.Version
	Delay                              uint64
	Conn                               string

	Port, Chan, CpPort, CpChan, ChVersion, CpVersion string
	State, Order                                     int32
	Hops                                             []string

	Proof Prf
	PH    clienttypes.Height

	AppVer  string
	AppFail bool

	Tag string
}

func hj(h clienttypes.Height) []string { return []string{hx.U(h.RevisionNumber), hx.U(h.RevisionHeight)} }

func (p Prf) j() any {
	if p.IsGarbage {
		return map[string]any{"garbage": hx.H(p.Garbage)}
	}
	if p.KeyKind == "conn" {
		return map[string]any{"h": hx.U(p.H), "key": []string{"conn", hx.HS(p.A)}}
	}
	return map[string]any{"h": hx.U(p.H), "key": []string{"chan", hx.HS(p.A), hx.HS(p.B)}}
}

func (o *Op) j() map[string]any {
	m := map[string]any{"op": o.Kind, "c": o.C, "tag": o.Tag}
	app := func() {
		m["app_fail"] = o.AppFail
		m["app_ver"] = hx.HS(o.AppVer)
	}
	prf := func() {
		m["proof"] = o.Proof.j()
		m["ph"] = hj(o.PH)
	}
	switch o.Kind {
	case "conn_init":
		m["client"], m["cp_client"], m["cp_conn"], m["cp_prefix"] = hx.HS(o.Client), hx.HS(o.CpClient), hx.HS(o.CpConn), hx.HS(o.CpPrefix)
		if o.Version != nil {
			m["version"] = vj(o.Version)
		} else {
			m["version"] = nil
		}
		m["delay"] = hx.U(o.Delay)
	case "conn_try":
		m["client"], m["cp_client"], m["cp_conn"], m["cp_prefix"] = hx.HS(o.Client), hx.HS(o.CpClient), hx.HS(o.CpConn), hx.HS(o.CpPrefix)
		m["cp_versions"] = vsj(o.Versions)
		m["delay"] = hx.U(o.Delay)
		prf()
	case "conn_ack":
		m["conn"], m["cp_conn"] = hx.HS(o.Conn), hx.HS(o.CpConn)
		m["version"] = vj(o.Version)
		prf()
	case "conn_confirm":
		m["conn"] = hx.HS(o.Conn)
		prf()
	case "chan_init":
		m["port"], m["state"], m["order"], m["cp_port"], m["cp_chan"] = hx.HS(o.Port), o.State, o.Order, hx.HS(o.CpPort), hx.HS(o.CpChan)
		m["hops"], m["version"] = strs(o.Hops), hx.HS(o.ChVersion)
		app()
	case "chan_try":
		m["port"], m["state"], m["order"], m["cp_port"], m["cp_chan"] = hx.HS(o.Port), o.State, o.Order, hx.HS(o.CpPort), hx.HS(o.CpChan)
		m["hops"], m["version"], m["cp_version"] = strs(o.Hops), hx.HS(o.ChVersion), hx.HS(o.CpVersion)
		prf()
		app()
	case "chan_ack":
		m["port"], m["chan"], m["cp_chan"], m["cp_version"] = hx.HS(o.Port), hx.HS(o.Chan), hx.HS(o.CpChan), hx.HS(o.CpVersion)
		prf()
		app()
	case "chan_confirm", "chan_close_confirm":
		m["port"], m["chan"] = hx.HS(o.Port), hx.HS(o.Chan)
		prf()
		app()
	case "chan_close_init":
		m["port"], m["chan"] = hx.HS(o.Port), hx.HS(o.Chan)
		app()
	case "send":
		m["port"], m["chan"] = hx.HS(o.Port), hx.HS(o.Chan)
	case "timeout":
		m["port"], m["chan"] = hx.HS(o.Port), hx.HS(o.Chan)
		m["ph"] = hj(o.PH)
	case "update":
		m["client"] = hx.HS(o.Client)
	case "commit", "expire":
	}
	return m
}

// scripted application callbacks (the result of the callback of the current delivery)
var script struct {
	ver  string
	fail bool
}

type errScript struct{}

func (errScript) Error() string { return "scripted application error" }

type W struct {
	t      *testing.T
	coord  *ibctesting.Coordinator
	ch     [2]*ibctesting.TestChain
	eps    [2][2]*ibctesting.Endpoint // [chain][client index]
	pend   map[string]chantypes.Packet
	nUpd   int
	closed bool
}

var clientIDs = []string{"07-tendermint-0", "07-tendermint-1"}

func newWorld(t *testing.T) *W {
	w := &W{t: t, pend: map[string]chantypes.Packet{}}
	w.coord = ibctesting.NewCoordinator(t, 2)
	w.ch[0] = w.coord.GetChain(ibctesting.GetChainID(1))
	w.ch[1] = w.coord.GetChain(ibctesting.GetChainID(2))
	for k := 0; k < 2; k++ {
		p := ibctesting.NewPath(w.ch[0], w.ch[1])
		p.SetupClients()
		w.eps[0][k], w.eps[1][k] = p.EndpointA, p.EndpointB
		if p.EndpointA.ClientID != clientIDs[k] || p.EndpointB.ClientID != clientIDs[k] {
			t.Fatalf("unexpected client ids %s %s", p.EndpointA.ClientID, p.EndpointB.ClientID)
		}
	}
	for c := 0; c < 2; c++ {
		app := w.ch[c].GetSimApp().IBCMockModule.IBCApp
		app.OnChanOpenInit = func(ctx sdk.Context, order chantypes.Order, hops []string, portID, channelID string, cp chantypes.Counterparty, version string) (string, error) {
			if script.fail {
				return "", errScript{}
			}
			return script.ver, nil
		}
		app.OnChanOpenTry = func(ctx sdk.Context, order chantypes.Order, hops []string, portID, channelID string, cp chantypes.Counterparty, cpVersion string) (string, error) {
			if script.fail {
				return "", errScript{}
			}
			return script.ver, nil
		}
		app.OnChanOpenAck = func(ctx sdk.Context, portID, channelID, cpChannelID, cpVersion string) error {
			if script.fail {
				return errScript{}
			}
			return nil
		}
		app.OnChanOpenConfirm = func(ctx sdk.Context, portID, channelID string) error {
			if script.fail {
				return errScript{}
			}
			return nil
		}
		app.OnChanCloseInit = app.OnChanOpenConfirm
		app.OnChanCloseConfirm = app.OnChanOpenConfirm
	}
	return w
}

func pendKey(c int, port, ch string) string { return string(rune('0'+c)) + "/" + port + "/" + ch }

func (w *W) ctx(c int) sdk.Context { return w.ch[c].GetContext() }

func (w *W) rev(c int) uint64 { return clienttypes.ParseChainID(w.ch[c].ChainID) }

// ---- projections ---------------------------------------------------------------------------------

func seqOf(id, prefix string) (uint64, bool) {
	if !strings.HasPrefix(id, prefix) {
		return 0, false
	}
	n, err := host.ParseIdentifier(id, prefix)
	return n, err == nil
}

func connJ(e conntypes.ConnectionEnd) []any {
	return []any{int32(e.State), hx.HS(e.ClientId), hx.HS(e.Counterparty.ClientId), hx.HS(e.Counterparty.ConnectionId),
		hx.H(e.Counterparty.Prefix.KeyPrefix), vsj(e.Versions), hx.U(e.DelayPeriod)}
}

func chanJ(e chantypes.Channel) []any {
	return []any{int32(e.State), int32(e.Ordering), hx.HS(e.Counterparty.PortId), hx.HS(e.Counterparty.ChannelId), strs(e.ConnectionHops), hx.HS(e.Version)}
}

func (w *W) conns(c int) []conntypes.IdentifiedConnection {
	all := w.ch[c].App.GetIBCKeeper().ConnectionKeeper.GetAllConnections(w.ctx(c))
	sort.SliceStable(all, func(i, j int) bool {
		a, aok := seqOf(all[i].Id, "connection-")
		b, bok := seqOf(all[j].Id, "connection-")
		if aok != bok {
			return !aok // connection-localhost first
		}
		return a < b
	})
	return all
}

func (w *W) chans(c int) []chantypes.IdentifiedChannel {
	all := w.ch[c].App.GetIBCKeeper().ChannelKeeper.GetAllChannels(w.ctx(c))
	sort.SliceStable(all, func(i, j int) bool {
		a, _ := seqOf(all[i].ChannelId, "channel-")
		b, _ := seqOf(all[j].ChannelId, "channel-")
		return a < b
	})
	return all
}

func (w *W) proj(c int) map[string]any {
	var cs, hs []any
	for _, ic := range w.conns(c) {
		e := conntypes.NewConnectionEnd(ic.State, ic.ClientId, ic.Counterparty, ic.Versions, ic.DelayPeriod)
		cs = append(cs, []any{hx.HS(ic.Id), connJ(e)})
	}
	ck := w.ch[c].App.GetIBCKeeper().ChannelKeeper
	for _, ic := range w.chans(c) {
		e := chantypes.NewChannel(ic.State, ic.Ordering, ic.Counterparty, ic.ConnectionHops, ic.Version)
		s, _ := ck.GetNextSequenceSend(w.ctx(c), ic.PortId, ic.ChannelId)
		r, _ := ck.GetNextSequenceRecv(w.ctx(c), ic.PortId, ic.ChannelId)
		a, _ := ck.GetNextSequenceAck(w.ctx(c), ic.PortId, ic.ChannelId)
		hs = append(hs, []any{hx.HS(ic.PortId), hx.HS(ic.ChannelId), chanJ(e), []string{hx.U(s), hx.U(r), hx.U(a)}})
	}
	if cs == nil {
		cs = []any{}
	}
	if hs == nil {
		hs = []any{}
	}
	return map[string]any{"conns": cs, "chans": hs}
}

func (w *W) consHeights(c int, client string) []uint64 {
	var hs []uint64
	for _, cc := range w.ch[c].App.GetIBCKeeper().ClientKeeper.GetAllConsensusStates(w.ctx(c)) {
		if cc.ClientId == client {
			for _, cs := range cc.ConsensusStates {
				hs = append(hs, cs.Height.RevisionHeight)
			}
		}
	}
	sort.Slice(hs, func(i, j int) bool { return hs[i] < hs[j] })
	return hs
}

func (w *W) initInfo() map[string]any {
	chains := make([]any, 2)
	for c := 0; c < 2; c++ {
		var cls []any
		for _, id := range clientIDs {
			var hs []string
			for _, h := range w.consHeights(c, id) {
				hs = append(hs, hx.U(h))
			}
			cls = append(cls, []any{hx.HS(id), hs})
		}
		chains[c] = map[string]any{"h": hx.U(uint64(w.ch[c].App.LastBlockHeight())), "rev": hx.U(w.rev(c)), "clients": cls, "state": w.proj(c)}
	}
	return map[string]any{"chains": chains}
}

// ---- execution -------------------------------------------------------------------------------

func (w *W) proofBytes(c int, p Prf) []byte {
	if p.IsGarbage {
		return p.Garbage
	}
	var key []byte
	if p.KeyKind == "conn" {
		key = host.ConnectionKey(p.A)
	} else {
		key = host.ChannelKey(p.A, p.B)
	}
	return w.queryProof(1-c, key, p.H)
}

// queryProof is TestChain.QueryProofAtHeight without the test assertions: the proof that verifies at
// proof height h is taken from the store version h-1.
func (w *W) queryProof(c int, key []byte, h uint64) []byte {
	chn := w.ch[c]
	res, err := chn.App.Query(chn.GetContext().Context(), &abci.RequestQuery{Path: "store/" + exported.StoreKey + "/key", Height: int64(h) - 1, Data: key, Prove: true})
	if err != nil || res.ProofOps == nil {
		w.t.Fatalf("proof query on chain %d at height %d failed (last block %d): %v %v", c, h, chn.App.LastBlockHeight(), err, res)
	}
	mp, err := commitmenttypes.ConvertProofs(res.ProofOps)
	if err != nil {
		w.t.Fatalf("convert proofs: %v", err)
	}
	bz, err := chn.App.AppCodec().Marshal(&mp)
	if err != nil {
		w.t.Fatalf("marshal proof: %v", err)
	}
	return bz
}

func (w *W) update(c int, client string) bool {
	k := 0
	if client == clientIDs[1] {
		k = 1
	} else if client != clientIDs[0] {
		w.t.Fatalf("update of unknown client %q", client)
	}
	err := w.eps[c][k].UpdateClient()
	if err != nil && os.Getenv("HS_DEBUG") != "" {
		w.t.Logf("update %d %s: %v", c, client, err)
	}
	return err == nil
}

// exec runs one op on the real chains and reports whether it succeeded.
func (w *W) exec(o *Op) bool {
	c := o.C
	chn := w.ch[c]
	// TestChain.SendMsgs bumps its local account sequence even when the tx was rejected before the
	// ante handler (ValidateBasic); re-read the on-chain sequence so that later txs are not rejected
	for _, x := range w.ch {
		acc := x.GetSimApp().AccountKeeper.GetAccount(x.GetContext(), x.SenderAccount.GetAddress())
		if err := x.SenderAccount.SetSequence(acc.GetSequence()); err != nil {
			w.t.Fatal(err)
		}
	}
	signer := chn.SenderAccount.GetAddress().String()
	script.ver, script.fail = o.AppVer, o.AppFail
	var msg sdk.Msg
	switch o.Kind {
	case "commit":
		w.coord.CommitBlock(chn)
		return true
	case "update":
		return w.update(c, o.Client)
	case "expire":
		w.coord.IncrementTimeBy(ibctesting.TrustingPeriod + 1)
		w.coord.CommitBlock(w.ch[0], w.ch[1])
		return true
	case "send":
		cpRev := w.rev(1 - c)
		th := clienttypes.NewHeight(cpRev, uint64(w.ch[1-c].App.LastBlockHeight())+2)
		var seq uint64
		var err error
		panicked, _ := hx.Catch(func() {
			seq, err = chn.App.GetIBCKeeper().ChannelKeeper.SendPacket(chn.GetContext(), o.Port, o.Chan, th, 0, []byte("verif"))
		})
		ok := !panicked && err == nil
		if ok {
			ch, _ := chn.App.GetIBCKeeper().ChannelKeeper.GetChannel(chn.GetContext(), o.Port, o.Chan)
			w.pend[pendKey(c, o.Port, o.Chan)] = chantypes.NewPacket([]byte("verif"), seq, o.Port, o.Chan, ch.Counterparty.PortId, ch.Counterparty.ChannelId, th, 0)
		}
		w.coord.CommitBlock(chn)
		return ok
	case "timeout":
		pkt := w.pend[pendKey(c, o.Port, o.Chan)]
		cp := w.ch[1-c]
		nsr, _ := cp.App.GetIBCKeeper().ChannelKeeper.GetNextSequenceRecv(cp.GetContext(), pkt.DestinationPort, pkt.DestinationChannel)
		bz := w.queryProof(1-c, host.NextSequenceRecvKey(pkt.DestinationPort, pkt.DestinationChannel), o.PH.RevisionHeight)
		msg = chantypes.NewMsgTimeout(pkt, nsr, bz, o.PH, signer)
		delete(w.pend, pendKey(c, o.Port, o.Chan))
	case "conn_init":
		msg = &conntypes.MsgConnectionOpenInit{ClientId: o.Client,
			Counterparty: conntypes.NewCounterparty(o.CpClient, o.CpConn, commitmenttypes.NewMerklePrefix([]byte(o.CpPrefix))),
			Version:      o.Version, DelayPeriod: o.Delay, Signer: signer}
	case "conn_try":
		msg = &conntypes.MsgConnectionOpenTry{ClientId: o.Client,
			Counterparty:         conntypes.NewCounterparty(o.CpClient, o.CpConn, commitmenttypes.NewMerklePrefix([]byte(o.CpPrefix))),
			CounterpartyVersions: o.Versions, DelayPeriod: o.Delay, ProofInit: w.proofBytes(c, o.Proof), ProofHeight: o.PH, Signer: signer}
	case "conn_ack":
		msg = &conntypes.MsgConnectionOpenAck{ConnectionId: o.Conn, CounterpartyConnectionId: o.CpConn, Version: o.Version,
			ProofTry: w.proofBytes(c, o.Proof), ProofHeight: o.PH, Signer: signer}
	case "conn_confirm":
		msg = &conntypes.MsgConnectionOpenConfirm{ConnectionId: o.Conn, ProofAck: w.proofBytes(c, o.Proof), ProofHeight: o.PH, Signer: signer}
	case "chan_init":
		msg = &chantypes.MsgChannelOpenInit{PortId: o.Port, Signer: signer, Channel: chantypes.Channel{State: chantypes.State(o.State),
			Ordering: chantypes.Order(o.Order), Counterparty: chantypes.NewCounterparty(o.CpPort, o.CpChan), ConnectionHops: o.Hops, Version: o.ChVersion}}
	case "chan_try":
		msg = &chantypes.MsgChannelOpenTry{PortId: o.Port, Signer: signer, Channel: chantypes.Channel{State: chantypes.State(o.State),
			Ordering: chantypes.Order(o.Order), Counterparty: chantypes.NewCounterparty(o.CpPort, o.CpChan), ConnectionHops: o.Hops, Version: o.ChVersion},
			CounterpartyVersion: o.CpVersion, ProofInit: w.proofBytes(c, o.Proof), ProofHeight: o.PH}
	case "chan_ack":
		msg = &chantypes.MsgChannelOpenAck{PortId: o.Port, ChannelId: o.Chan, CounterpartyChannelId: o.CpChan, CounterpartyVersion: o.CpVersion,
			ProofTry: w.proofBytes(c, o.Proof), ProofHeight: o.PH, Signer: signer}
	case "chan_confirm":
		msg = &chantypes.MsgChannelOpenConfirm{PortId: o.Port, ChannelId: o.Chan, ProofAck: w.proofBytes(c, o.Proof), ProofHeight: o.PH, Signer: signer}
	case "chan_close_init":
		msg = &chantypes.MsgChannelCloseInit{PortId: o.Port, ChannelId: o.Chan, Signer: signer}
	case "chan_close_confirm":
		msg = &chantypes.MsgChannelCloseConfirm{PortId: o.Port, ChannelId: o.Chan, ProofInit: w.proofBytes(c, o.Proof), ProofHeight: o.PH, Signer: signer}
	default:
		w.t.Fatalf("unknown op %s", o.Kind)
	}
	_, err := chn.SendMsgs(msg)
	return err == nil
}

var _ = exported.Active
