package handshake

import (
	conntypes "github.com/cosmos/ibc-go/v11/modules/core/03-connection/types"

	"verif/harness/hx"
)

// ---- version negotiation (03-connection/types/version.go), pure records ----------------------

var identPool = []string{"1", "2", "1", "v", "", " ", "1 ", "\t", "10", "A"}
var featPool = []string{"ORDER_ORDERED", "ORDER_UNORDERED", "ORDER_DAG", "", " ", "x", "ORDER_ORDERED", " ", " ", "y"}

// strings whose TrimSpace is (or just fails to be) empty
var spacePool = []string{"", " ", "\t\n\v\f\r ", "\u0085", "\u00a0", "\u1680", "\u2000", "\u2005", "\u200a", "\u200b", "\u2028",
	"\u2029", "\u202f", "\u205f", "\u3000", "\u3001", "\u180e", "\u2027", "\u202a", "\u2060", "\ufeff", "\xc2", "\xc2\x84", "\xc2\x86", "\xc2\xa1", "\xe2\x80", "\xe2\x80\x7f",
	"\xe2\x80\x8b", " a", "a ", "   ", "\u3000\xe3", "\x1c", "\x1f", "\x08", "\x0e", "\xa0", "\x85", "\u2003\u00a0 \u0085\t", "\u2003\u00a0x\u0085", "\xe1\x9a\x81", "\xe2\x81\x9e"}

func genFeats(r *hx.Rng) []string {
	var n int
	switch r.Intn(6) {
	case 0:
		n = 0
	case 1:
		n = 1
	default:
		n = r.Intn(5)
	}
	fs := make([]string, 0, n)
	for i := 0; i < n; i++ {
		if r.Chance(1, 12) {
			fs = append(fs, spacePool[r.Intn(len(spacePool))])
		} else {
			fs = append(fs, featPool[r.Intn(len(featPool))])
		}
	}
	if n == 0 && r.Bool() {
		return nil
	}
	return fs
}

func genVersion(r *hx.Rng) *conntypes.Version {
	id := identPool[r.Intn(len(identPool))]
	if r.Chance(1, 10) {
		id = spacePool[r.Intn(len(spacePool))]
	}
	return conntypes.NewVersion(id, genFeats(r))
}

func genVersions(r *hx.Rng) []*conntypes.Version {
	n := r.Intn(5)
	if r.Chance(1, 8) {
		n = 0
	}
	vs := make([]*conntypes.Version, 0, n)
	for i := 0; i < n; i++ {
		if i > 0 && r.Chance(1, 4) { // duplicate identifier, other features
			vs = append(vs, conntypes.NewVersion(vs[r.Intn(len(vs))].Identifier, genFeats(r)))
		} else {
			vs = append(vs, genVersion(r))
		}
	}
	return vs
}

func strs(xs []string) []string {
	out := make([]string, len(xs))
	for i, x := range xs {
		out[i] = hx.HS(x)
	}
	return out
}

func vj(v *conntypes.Version) []any {
	return []any{hx.HS(v.Identifier), strs(v.Features)}
}

func vsj(vs []*conntypes.Version) []any {
	out := make([]any, len(vs))
	for i, v := range vs {
		out[i] = vj(v)
	}
	return out
}

func famVersions(r *hx.Rng, o *hx.Out, part int, n int) {
	compat := conntypes.GetCompatibleVersions()
	for i := 0; part == 0 && i < n; i++ {
		sup := genVersions(r)
		cp := genVersions(r)
		tag := "random"
		switch r.Intn(5) {
		case 0:
			sup = compat
			tag = "compatible-sup"
		case 1:
			if len(sup) > 0 { // counterparty derived from sup: permuted, features dropped/added
				cp = nil
				for _, s := range sup {
					if r.Chance(3, 4) {
						var fs []string
						for _, f := range s.Features {
							if r.Chance(2, 3) {
								fs = append(fs, f)
							}
						}
						if r.Chance(1, 3) {
							fs = append(fs, featPool[r.Intn(len(featPool))])
						}
						cp = append([]*conntypes.Version{conntypes.NewVersion(s.Identifier, fs)}, cp...)
					}
				}
				tag = "derived-cp"
			}
		}
		v, err := conntypes.PickVersion(sup, cp)
		var res any
		if err == nil {
			res = vj(v)
		}
		o.Emit("pick_version", []any{vsj(sup), vsj(cp)}, res, tag)
	}
	for i := 0; part == 1 && i < n; i++ {
		sup := genVersions(r)
		tag := "random"
		if r.Chance(1, 3) {
			sup = compat
			tag = "compatible-sup"
		}
		p := genVersion(r)
		if len(sup) > 0 && r.Chance(1, 2) { // proposal derived from an entry: subset / one extra feature
			s := sup[r.Intn(len(sup))]
			var fs []string
			for _, f := range s.Features {
				if r.Chance(3, 4) {
					fs = append(fs, f)
				}
			}
			if r.Chance(1, 4) {
				fs = append(fs, featPool[r.Intn(len(featPool))])
			}
			p = conntypes.NewVersion(s.Identifier, fs)
			tag += "-derived"
		}
		found, ok := conntypes.FindSupportedVersion(p, sup)
		var fres any
		if ok {
			fres = vj(found)
		}
		o.Emit("is_supported", []any{vsj(sup), vj(p)}, []any{conntypes.IsSupportedVersion(sup, p), fres}, tag)
	}
	for i := 0; part == 2 && i < n; i++ {
		v := genVersion(r)
		p := genVersion(r)
		tag := "random"
		if r.Chance(1, 2) {
			var fs []string
			for _, f := range v.Features {
				if r.Chance(3, 4) {
					fs = append(fs, f)
				}
			}
			if r.Chance(1, 4) {
				fs = append(fs, featPool[r.Intn(len(featPool))])
			}
			p = conntypes.NewVersion(v.Identifier, fs)
			tag = "derived"
		}
		f := featPool[r.Intn(len(featPool))]
		o.Emit("verify_proposed", []any{vj(v), vj(p), hx.HS(f)},
			[]any{v.VerifyProposedVersion(p) == nil, conntypes.VerifySupportedFeature(v, f),
				strs(conntypes.GetFeatureSetIntersection(v.Features, p.Features))}, tag)
	}
	for i := 0; part == 3 && i < n; i++ {
		v := genVersion(r)
		tag := "random"
		switch r.Intn(6) {
		case 0:
			v = conntypes.NewVersion(spacePool[r.Intn(len(spacePool))], []string{"ORDER_ORDERED"})
			tag = "space-id"
		case 1:
			v = conntypes.NewVersion("1", []string{"ORDER_ORDERED", spacePool[r.Intn(len(spacePool))]})
			tag = "space-feature"
		case 2:
			k := 99 + r.Intn(3)
			fs := make([]string, k)
			for j := range fs {
				fs[j] = "f"
			}
			v = conntypes.NewVersion("1", fs)
			tag = "feature-count"
		}
		o.Emit("validate_version", vj(v), conntypes.ValidateVersion(v) == nil, tag)
	}
}
