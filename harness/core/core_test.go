package core

import (
	"testing"

	"verif/harness/hx"
)

// TestFamily writes the trace of the `core` scenario family: one record per two-chain history.
func TestFamily(t *testing.T) {
	r := hx.NewRng("core")
	o := hx.NewOut()
	defer o.Close()
	n := hx.N(30, 600)
	nops := 45
	for i := 0; i < n; i++ {
		w := newWorld(t, r)
		cfg := w.initConfig()
		runHistory(w, nops, i)
		if i < 4 {
			sendGuardVectors(w, o)
		}
		o.Emit("hist", map[string]any{"init": cfg, "steps": w.steps, "maxseq": hx.U(w.maxSeq + 2),
			"ids": w.ids.list, "data": w.data.list}, nil)
	}
	t.Logf("histories=%d", o.Count())
}
