package core

import (
	"time"
	"bytes"
	"encoding/binary"
	"fmt"
	"regexp"
	"sort"
	"strconv"
	"testing"

	"github.com/cosmos/gogoproto/proto"

	sdkmath "cosmossdk.io/math"

	sdk "github.com/cosmos/cosmos-sdk/types"
	banktypes "github.com/cosmos/cosmos-sdk/x/bank/types"

	abci "github.com/cometbft/cometbft/abci/types"

	transfertypes "github.com/cosmos/ibc-go/v11/modules/apps/transfer/types"
	clienttypes "github.com/cosmos/ibc-go/v11/modules/core/02-client/types"
	channeltypes "github.com/cosmos/ibc-go/v11/modules/core/04-channel/types"
	channeltypesv2 "github.com/cosmos/ibc-go/v11/modules/core/04-channel/v2/types"
	host "github.com/cosmos/ibc-go/v11/modules/core/24-host"
	hostv2 "github.com/cosmos/ibc-go/v11/modules/core/24-host/v2"
	ibcexported "github.com/cosmos/ibc-go/v11/modules/core/exported"
	ibctm "github.com/cosmos/ibc-go/v11/modules/light-clients/07-tendermint"
	localhost "github.com/cosmos/ibc-go/v11/modules/light-clients/09-localhost"
	ibctesting "github.com/cosmos/ibc-go/v11/testing"
	ibcmock "github.com/cosmos/ibc-go/v11/testing/mock"
	mockv2 "github.com/cosmos/ibc-go/v11/testing/mock/v2"

	"verif/harness/hx"
)

// ---------------------------------------------------------------------------------------------
// interning: identifiers and byte strings travel as small numbers; the tables are part of the record

type interner struct {
	m    map[string]uint64
	list []string
	base uint64
}

func newInterner(base uint64) *interner { return &interner{m: map[string]uint64{}, base: base} }

func (in *interner) id(s string) uint64 {
	if v, ok := in.m[s]; ok {
		return v
	}
	v := in.base + uint64(len(in.list))
	in.m[s] = v
	in.list = append(in.list, s)
	return v
}

// ---------------------------------------------------------------------------------------------
// scripted application behaviour, keyed by packet data / payload value

type beh struct {
	Writes  uint64 // coins moved to the sink account inside the receive callback before it returns
	Recv    string // success | error | async | sentinel (v2: success status carrying the sentinel)
	Ack     []byte // v1: full acknowledgement bytes; v2: app acknowledgement bytes
	CbFails bool   // ack / timeout / send callbacks return an error
	Typed   *channeltypes.Acknowledgement // v1: return this channeltypes.Acknowledgement (its own Success()) instead of customAck
}

// customAck is an exported.Acknowledgement with arbitrary bytes and success flag.
type customAck struct {
	ok bool
	bz []byte
}

func (a customAck) Success() bool           { return a.ok }
func (a customAck) Acknowledgement() []byte { return a.bz }

const vdenom = "vcoin"

type cbEntry struct {
	Chain int
	Ev    []any
}

// W is one two-chain world driven by the harness.
type W struct {
	t     *testing.T
	r     *hx.Rng
	coord *ibctesting.Coordinator
	ch    [2]*ibctesting.TestChain
	pU    *ibctesting.Path // UNORDERED mock channel (aliased for v2)
	pO    *ibctesting.Path // ORDERED mock channel on the same connection
	pV    *ibctesting.Path // v2 clients with registered counterparties
	ids   *interner
	data  *interner
	script map[string]beh
	funder [2]sdk.AccAddress
	sink   [2]sdk.AccAddress
	cbs    []cbEntry
	commits1 map[string][]any // commitment bytes (hex) -> descriptor
	commits2 map[string][]any
	acks1    map[string]uint64 // ack commitment (hex) -> ack data id
	acks2    map[string][]uint64
	steps    []map[string]any
	maxSeq   uint64
	v0       [2]int64 // first version whose snapshot the model knows
	curStart int // index into cbs where the callbacks of the operation being executed start
	lhChan   [2][2][2]string // localhost channel pairs per chain: [chain][0 unordered,1 ordered][end]
}

func (w *W) idx(c *ibctesting.TestChain) int {
	if c == w.ch[0] {
		return 0
	}
	return 1
}

func sentinelBytes() []byte { return channeltypesv2.ErrorAcknowledgement[:] }

func newWorld(t *testing.T, r *hx.Rng) *W {
	w := &W{t: t, r: r, ids: newInterner(1), data: newInterner(10),
		commits1: map[string][]any{}, commits2: map[string][]any{}, acks1: map[string]uint64{}, acks2: map[string][]uint64{}}
	w.coord = ibctesting.NewCoordinator(t, 2)
	w.ch[0] = w.coord.GetChain(ibctesting.GetChainID(1))
	w.ch[1] = w.coord.GetChain(ibctesting.GetChainID(2))

	// identifiers of the two ends of every path differ (client, connection-independent: 07-tendermint-N+1 / N;
	// channel-M+1 / M): an unrelated client and a never-completed channel handshake exist on chain 0 only, so a
	// handler that confuses the source with the destination identifier looks at different state
	extra := ibctesting.NewPath(w.ch[0], w.ch[1])
	if err := extra.EndpointA.CreateClient(); err != nil {
		t.Fatal(err)
	}
	w.pU = ibctesting.NewPath(w.ch[0], w.ch[1])
	w.pU.SetupConnections()
	dummy := ibctesting.NewPath(w.ch[0], w.ch[1])
	dummy.EndpointA.ClientID, dummy.EndpointA.ConnectionID = w.pU.EndpointA.ClientID, w.pU.EndpointA.ConnectionID
	dummy.EndpointB.ClientID, dummy.EndpointB.ConnectionID = w.pU.EndpointB.ClientID, w.pU.EndpointB.ConnectionID
	if err := dummy.EndpointA.ChanOpenInit(); err != nil {
		t.Fatal(err)
	}
	w.pU.CreateChannels()
	if w.pU.EndpointA.ClientID == w.pU.EndpointB.ClientID || w.pU.EndpointA.ChannelID == w.pU.EndpointB.ChannelID {
		t.Fatalf("identifiers of the two ends are meant to differ: %s/%s %s/%s", w.pU.EndpointA.ClientID, w.pU.EndpointB.ClientID, w.pU.EndpointA.ChannelID, w.pU.EndpointB.ChannelID)
	}
	w.pO = ibctesting.NewPath(w.ch[0], w.ch[1])
	w.pO.EndpointA.ClientID, w.pO.EndpointB.ClientID = w.pU.EndpointA.ClientID, w.pU.EndpointB.ClientID
	w.pO.EndpointA.ConnectionID, w.pO.EndpointB.ConnectionID = w.pU.EndpointA.ConnectionID, w.pU.EndpointB.ConnectionID
	w.pO.SetChannelOrdered()
	// the two ends of the ORDERED channel are bound to different ports (as with interchain accounts), so a handler that
	// confuses the source with the destination port looks at another channel end
	w.pO.EndpointB.ChannelConfig.PortID = ibcmock.MockBlockUpgrade
	w.pO.CreateChannels()
	w.pV = ibctesting.NewPath(w.ch[0], w.ch[1])
	w.pV.SetupV2()

	for ci := range w.ch {
		w.lhChan[ci][0] = w.setupLocalhost(ci, channeltypes.UNORDERED)
		w.lhChan[ci][1] = w.setupLocalhost(ci, channeltypes.ORDERED)
	}

	// fixed interned data: 0 = empty, 1 = v2 sentinel, 2 = default ack
	w.script = map[string]beh{}
	ackOK := channeltypes.NewResultAcknowledgement([]byte("r1")).Acknowledgement()
	ackOK2 := channeltypes.NewResultAcknowledgement([]byte("r2")).Acknowledgement()
	ackErr := channeltypes.NewErrorAcknowledgement(fmt.Errorf("app failed")).Acknowledgement()
	w.script["d-ok1"] = beh{Writes: 3, Recv: "success", Ack: ackOK}
	w.script["d-ok2"] = beh{Writes: 0, Recv: "success", Ack: ackOK2}
	w.script["d-raw"] = beh{Writes: 2, Recv: "success", Ack: []byte("raw-ack")}
	w.script["d-err"] = beh{Writes: 5, Recv: "error", Ack: ackErr}
	w.script["d-err0"] = beh{Writes: 0, Recv: "error", Ack: []byte("raw-error")}
	w.script["d-async"] = beh{Writes: 4, Recv: "async"}
	w.script["d-cbfail"] = beh{Writes: 1, Recv: "success", Ack: ackOK, CbFails: true}
	w.script["d-emptyack"] = beh{Writes: 1, Recv: "success", Ack: []byte{}}
	w.script["d-sent"] = beh{Writes: 1, Recv: "sentinel", Ack: ackOK}
	// the standard acknowledgement type with its own Success(): a result, a standard error, and an application-built
	// error acknowledgement with an EMPTY error string (still an error acknowledgement: state must be discarded)
	tOK := channeltypes.NewResultAcknowledgement([]byte("r3"))
	tErr := channeltypes.NewErrorAcknowledgement(fmt.Errorf("typed failure"))
	tEmpty := channeltypes.Acknowledgement{Response: &channeltypes.Acknowledgement_Error{Error: ""}}
	w.script["d-tok"] = beh{Writes: 2, Recv: "success", Ack: tOK.Acknowledgement(), Typed: &tOK}
	w.script["d-terr"] = beh{Writes: 6, Recv: "error", Ack: tErr.Acknowledgement(), Typed: &tErr}
	w.script["d-tempty"] = beh{Writes: 7, Recv: "error", Ack: tEmpty.Acknowledgement(), Typed: &tEmpty}
	for _, k := range w.dataKeys() {
		w.data.id(k)
	}
	for _, k := range w.dataKeys() {
		w.ackID(w.script[k].Ack)
	}
	w.install()
	// fund the callback funder on both chains
	for i, c := range w.ch {
		w.funder[i] = sdk.AccAddress(bytes.Repeat([]byte{byte(0x51 + i)}, 20))
		w.sink[i] = sdk.AccAddress(bytes.Repeat([]byte{byte(0x61 + i)}, 20))
		ctx := c.GetContext()
		coins := sdk.NewCoins(sdk.NewCoin(vdenom, sdkmath.NewInt(1_000_000)))
		if err := c.GetSimApp().BankKeeper.MintCoins(ctx, transfertypes.ModuleName, coins); err != nil {
			t.Fatal(err)
		}
		if err := c.GetSimApp().BankKeeper.SendCoinsFromModuleToAccount(ctx, transfertypes.ModuleName, w.funder[i], coins); err != nil {
			t.Fatal(err)
		}
		c.NextBlock()
	}
	w.coord.IncrementTime()
	// one more block each so that the state after set-up is a committed version with a header
	w.ch[0].NextBlock()
	w.ch[1].NextBlock()
	w.coord.IncrementTime()
	w.v0[0] = w.ch[0].App.LastBlockHeight()
	w.v0[1] = w.ch[1].App.LastBlockHeight()
	return w
}

// setupLocalhost opens a loopback channel (both ends on chain ci, port mock) over connection-localhost
// with the 09-localhost sentinel proof.
func (w *W) setupLocalhost(ci int, ord channeltypes.Order) [2]string {
	c := w.ch[ci]
	signer := c.SenderAccount.GetAddress().String()
	hops := []string{ibcexported.LocalhostConnectionID}
	ver := ibctesting.DefaultChannelVersion
	h := clienttypes.ZeroHeight()
	must := func(res *abci.ExecTxResult, err error) *abci.ExecTxResult {
		if err != nil {
			w.t.Fatalf("localhost handshake: %v", err)
		}
		return res
	}
	res := must(c.SendMsgs(channeltypes.NewMsgChannelOpenInit(ibctesting.MockPort, ver, ord, hops, ibctesting.MockPort, signer)))
	a, err := ibctesting.ParseChannelIDFromEvents(res.Events)
	if err != nil {
		w.t.Fatal(err)
	}
	res = must(c.SendMsgs(channeltypes.NewMsgChannelOpenTry(ibctesting.MockPort, ver, ord, hops, ibctesting.MockPort, a, ver, localhost.SentinelProof, h, signer)))
	b, err := ibctesting.ParseChannelIDFromEvents(res.Events)
	if err != nil {
		w.t.Fatal(err)
	}
	must(c.SendMsgs(channeltypes.NewMsgChannelOpenAck(ibctesting.MockPort, a, b, ver, localhost.SentinelProof, h, signer)))
	must(c.SendMsgs(channeltypes.NewMsgChannelOpenConfirm(ibctesting.MockPort, b, localhost.SentinelProof, h, signer)))
	return [2]string{a, b}
}

func (w *W) dataKeys() []string {
	ks := make([]string, 0, len(w.script))
	for k := range w.script {
		ks = append(ks, k)
	}
	sort.Strings(ks)
	return ks
}

// ackID interns acknowledgement bytes: empty = 0, sentinel = 1.
func (w *W) ackID(bz []byte) uint64 {
	if len(bz) == 0 {
		return 0
	}
	if bytes.Equal(bz, sentinelBytes()) {
		return 1
	}
	return w.data.id("ack:" + string(bz))
}

func (w *W) dataID(bz []byte) uint64 {
	if len(bz) == 0 {
		return 0
	}
	return w.data.id(string(bz))
}

func (w *W) move(ctx sdk.Context, ci int, n uint64) {
	if n == 0 {
		return
	}
	err := w.ch[ci].GetSimApp().BankKeeper.SendCoins(ctx, w.funder[ci], w.sink[ci], sdk.NewCoins(sdk.NewCoin(vdenom, sdkmath.NewIntFromUint64(n))))
	if err != nil {
		panic(err)
	}
}

func (w *W) appState(ci int) uint64 {
	return w.ch[ci].GetSimApp().BankKeeper.GetBalance(w.ch[ci].GetContext(), w.sink[ci], vdenom).Amount.Uint64()
}

// install the scripted callbacks on the v1 mock module and both v2 mock modules of both chains
func (w *W) install() {
	for ci := range w.ch {
		ci := ci
		app := w.ch[ci].GetSimApp()
		// the ORDERED channel's second end is bound to another port (mockblockupgrade): same scripted application there
		if m, ok := app.GetIBCKeeper().PortKeeper.Route(ibcmock.MockBlockUpgrade); ok {
			if bu, ok := m.(ibcmock.BlockUpgradeMiddleware); ok {
				defer func(target *ibcmock.IBCApp) {
					target.OnRecvPacket = app.IBCMockModule.IBCApp.OnRecvPacket
					target.OnAcknowledgementPacket = app.IBCMockModule.IBCApp.OnAcknowledgementPacket
					target.OnTimeoutPacket = app.IBCMockModule.IBCApp.OnTimeoutPacket
				}(bu.IBCApp)
			} else {
				w.t.Fatalf("unexpected module type for %s: %T", ibcmock.MockBlockUpgrade, m)
			}
		} else {
			w.t.Fatal("no route for mockblockupgrade")
		}
		app.IBCMockModule.IBCApp.OnRecvPacket = func(ctx sdk.Context, _ string, p channeltypes.Packet, _ sdk.AccAddress) ibcexported.Acknowledgement {
			b := w.script[string(p.Data)]
			w.move(ctx, ci, b.Writes)
			w.cbs = append(w.cbs, cbEntry{ci, []any{"recv1", w.ids.id(p.DestinationPort), w.ids.id(p.DestinationChannel), hx.U(p.Sequence)}})
			if b.Typed != nil {
				return *b.Typed
			}
			switch b.Recv {
			case "async":
				return nil
			case "error":
				return customAck{false, b.Ack}
			default:
				return customAck{true, b.Ack}
			}
		}
		app.IBCMockModule.IBCApp.OnAcknowledgementPacket = func(ctx sdk.Context, _ string, p channeltypes.Packet, ack []byte, _ sdk.AccAddress) error {
			if w.script[string(p.Data)].CbFails {
				return fmt.Errorf("scripted ack callback failure")
			}
			w.move(ctx, ci, 1)
			w.cbs = append(w.cbs, cbEntry{ci, []any{"ack1", w.ids.id(p.SourcePort), w.ids.id(p.SourceChannel), hx.U(p.Sequence), w.ackID(ack)}})
			return nil
		}
		app.IBCMockModule.IBCApp.OnTimeoutPacket = func(ctx sdk.Context, _ string, p channeltypes.Packet, _ sdk.AccAddress) error {
			if w.script[string(p.Data)].CbFails {
				return fmt.Errorf("scripted timeout callback failure")
			}
			w.move(ctx, ci, 1)
			w.cbs = append(w.cbs, cbEntry{ci, []any{"timeout1", w.ids.id(p.SourcePort), w.ids.id(p.SourceChannel), hx.U(p.Sequence)}})
			return nil
		}
		for _, m := range []mockv2.IBCModule{app.MockModuleV2A, app.MockModuleV2B} {
			idxOf := func(id string, seq uint64, kind string) uint64 {
				n := uint64(0)
				// payload index = number of callbacks of this kind for this packet within the current message
				for _, e := range w.cbs[w.curStart:] {
					if e.Chain == ci && e.Ev[0] == kind && e.Ev[1] == w.ids.id(id) && e.Ev[2] == hx.U(seq) {
						n++
					}
				}
				return n
			}
			m.IBCApp.OnSendPacket = func(ctx sdk.Context, src, dst string, seq uint64, y channeltypesv2.Payload, _ sdk.AccAddress) error {
				if w.script[string(y.Value)].CbFails {
					return fmt.Errorf("scripted send callback failure")
				}
				w.cbs = append(w.cbs, cbEntry{ci, []any{"send2", w.ids.id(src), hx.U(seq), idxOf(src, seq, "send2")}})
				return nil
			}
			m.IBCApp.OnRecvPacket = func(ctx sdk.Context, src, dst string, seq uint64, y channeltypesv2.Payload, _ sdk.AccAddress) channeltypesv2.RecvPacketResult {
				b := w.script[string(y.Value)]
				w.move(ctx, ci, b.Writes)
				w.cbs = append(w.cbs, cbEntry{ci, []any{"recv2", w.ids.id(dst), hx.U(seq), idxOf(dst, seq, "recv2")}})
				switch b.Recv {
				case "async":
					return channeltypesv2.RecvPacketResult{Status: channeltypesv2.PacketStatus_Async}
				case "error":
					return channeltypesv2.RecvPacketResult{Status: channeltypesv2.PacketStatus_Failure}
				case "sentinel":
					return channeltypesv2.RecvPacketResult{Status: channeltypesv2.PacketStatus_Success, Acknowledgement: sentinelBytes()}
				default:
					return channeltypesv2.RecvPacketResult{Status: channeltypesv2.PacketStatus_Success, Acknowledgement: b.Ack}
				}
			}
			m.IBCApp.OnAcknowledgementPacket = func(ctx sdk.Context, src, dst string, seq uint64, y channeltypesv2.Payload, ack []byte, _ sdk.AccAddress) error {
				if w.script[string(y.Value)].CbFails {
					return fmt.Errorf("scripted ack callback failure")
				}
				w.move(ctx, ci, 1)
				w.cbs = append(w.cbs, cbEntry{ci, []any{"ack2", w.ids.id(src), hx.U(seq), idxOf(src, seq, "ack2"), w.ackID(ack)}})
				return nil
			}
			m.IBCApp.OnTimeoutPacket = func(ctx sdk.Context, src, dst string, seq uint64, y channeltypesv2.Payload, _ sdk.AccAddress) error {
				if w.script[string(y.Value)].CbFails {
					return fmt.Errorf("scripted timeout callback failure")
				}
				w.move(ctx, ci, 1)
				w.cbs = append(w.cbs, cbEntry{ci, []any{"timeout2", w.ids.id(src), hx.U(seq), idxOf(src, seq, "timeout2")}})
				return nil
			}
		}
	}
}

// ---------------------------------------------------------------------------------------------
// descriptors

func hj(h clienttypes.Height) []string { return []string{hx.U(h.RevisionNumber), hx.U(h.RevisionHeight)} }

func (w *W) p1desc(p channeltypes.Packet) map[string]any {
	d := map[string]any{"seq": hx.U(p.Sequence), "sp": w.ids.id(p.SourcePort), "sc": w.ids.id(p.SourceChannel),
		"dp": w.ids.id(p.DestinationPort), "dc": w.ids.id(p.DestinationChannel), "data": w.dataID(p.Data),
		"th": hj(p.TimeoutHeight), "tt": hx.U(p.TimeoutTimestamp)}
	w.commits1[hx.H(channeltypes.CommitPacket(p))] = []any{w.dataID(p.Data), hj(p.TimeoutHeight), hx.U(p.TimeoutTimestamp)}
	return d
}

func (w *W) paydesc(y channeltypesv2.Payload) []any {
	return []any{w.ids.id(y.SourcePort), w.ids.id(y.DestinationPort), w.strID(y.Version), w.strID(y.Encoding), w.dataID(y.Value)}
}

// strID interns a free-form string; blank strings (which ValidateBasic rejects) are 0.
func (w *W) strID(s string) uint64 {
	if len(bytes.TrimSpace([]byte(s))) == 0 {
		return 0
	}
	return w.ids.id(s)
}

func (w *W) p2desc(q channeltypesv2.Packet) map[string]any {
	pays := []any{}
	for _, y := range q.Payloads {
		pays = append(pays, w.paydesc(y))
	}
	d := map[string]any{"seq": hx.U(q.Sequence), "src": w.ids.id(q.SourceClient), "dst": w.ids.id(q.DestinationClient),
		"tt": hx.U(q.TimeoutTimestamp), "pay": pays}
	w.commits2[hx.H(channeltypesv2.CommitPacket(q))] = []any{w.ids.id(q.DestinationClient), hx.U(q.TimeoutTimestamp), pays}
	return d
}

func (w *W) noteAck1(bz []byte) {
	w.acks1[hx.H(channeltypes.CommitAcknowledgement(bz))] = w.ackID(bz)
}

func (w *W) noteAck2(acks [][]byte) []uint64 {
	ids := []uint64{}
	for _, a := range acks {
		ids = append(ids, w.ackID(a))
	}
	w.acks2[hx.H(channeltypesv2.CommitAcknowledgement(channeltypesv2.Acknowledgement{AppAcknowledgements: acks}))] = ids
	return ids
}

// ---------------------------------------------------------------------------------------------
// store dump (projection of the packet-related IBC store of one chain)

var (
	reCommit1 = regexp.MustCompile(`^commitments/ports/([^/]+)/channels/([^/]+)/sequences/(\d+)$`)
	reRcpt1   = regexp.MustCompile(`^receipts/ports/([^/]+)/channels/([^/]+)/sequences/(\d+)$`)
	reAck1    = regexp.MustCompile(`^acks/ports/([^/]+)/channels/([^/]+)/sequences/(\d+)$`)
	reNRecv   = regexp.MustCompile(`^nextSequenceRecv/ports/([^/]+)/channels/([^/]+)$`)
	reNAck    = regexp.MustCompile(`^nextSequenceAck/ports/([^/]+)/channels/([^/]+)$`)
	reNSend   = regexp.MustCompile(`^nextSequenceSend//(.+)$`)
	reChan    = regexp.MustCompile(`^channelEnds/ports/([^/]+)/channels/([^/]+)$`)
	reV2      = regexp.MustCompile(`(?s)^(channel-\d+|07-tendermint-\d+)([\x01\x02\x03])(.{8})$`)
	reAsync   = regexp.MustCompile(`(?s)^(channel-\d+|07-tendermint-\d+)async_packet(.{8})$`)
)

func (w *W) dump(ci int) map[string]any {
	c := w.ch[ci]
	ctx := c.GetContext()
	store := ctx.KVStore(c.GetSimApp().GetKey(ibcexported.StoreKey))
	it := store.Iterator(nil, nil)
	defer it.Close()
	out := map[string]any{}
	add := func(k string, v any) {
		l, _ := out[k].([]any)
		out[k] = append(l, v)
	}
	for _, k := range []string{"ns", "nr", "na", "c1", "r1", "a1", "c2", "r2", "a2", "as2", "ch"} {
		out[k] = []any{}
	}
	u := func(s []byte) string { n, _ := strconv.ParseUint(string(s), 10, 64); return hx.U(n) }
	for ; it.Valid(); it.Next() {
		k, v := it.Key(), it.Value()
		if m := reCommit1.FindSubmatch(k); m != nil {
			d, ok := w.commits1[hx.H(v)]
			if !ok {
				d = []any{"?" + hx.H(v)}
			}
			add("c1", []any{w.ids.id(string(m[1])), w.ids.id(string(m[2])), u(m[3]), d})
		} else if m := reRcpt1.FindSubmatch(k); m != nil {
			add("r1", []any{w.ids.id(string(m[1])), w.ids.id(string(m[2])), u(m[3])})
		} else if m := reAck1.FindSubmatch(k); m != nil {
			d, ok := w.acks1[hx.H(v)]
			var dv any = d
			if !ok {
				dv = "?" + hx.H(v)
			}
			add("a1", []any{w.ids.id(string(m[1])), w.ids.id(string(m[2])), u(m[3]), dv})
		} else if m := reNRecv.FindSubmatch(k); m != nil {
			add("nr", []any{w.ids.id(string(m[1])), w.ids.id(string(m[2])), hx.U(binary.BigEndian.Uint64(v))})
		} else if m := reNAck.FindSubmatch(k); m != nil {
			add("na", []any{w.ids.id(string(m[1])), w.ids.id(string(m[2])), hx.U(binary.BigEndian.Uint64(v))})
		} else if m := reNSend.FindSubmatch(k); m != nil {
			add("ns", []any{w.ids.id(string(m[1])), hx.U(binary.BigEndian.Uint64(v))})
		} else if m := reChan.FindSubmatch(k); m != nil {
			var ch channeltypes.Channel
			if err := proto.Unmarshal(v, &ch); err != nil {
				panic(err)
			}
			add("ch", []any{w.ids.id(string(m[1])), w.ids.id(string(m[2])), ch.State.String()})
		} else if m := reV2.FindSubmatch(k); m != nil {
			id, seq := w.ids.id(string(m[1])), hx.U(binary.BigEndian.Uint64(m[3]))
			switch m[2][0] {
			case hostv2.PacketCommitmentBasePrefix:
				d, ok := w.commits2[hx.H(v)]
				if !ok {
					d = []any{"?" + hx.H(v)}
				}
				add("c2", []any{id, seq, d})
			case hostv2.PacketReceiptBasePrefix:
				add("r2", []any{id, seq})
			case hostv2.PacketAcknowledgementBasePrefix:
				d, ok := w.acks2[hx.H(v)]
				var dv any = d
				if !ok {
					dv = "?" + hx.H(v)
				}
				add("a2", []any{id, seq, dv})
			}
		} else if m := reAsync.FindSubmatch(k); m != nil {
			add("as2", []any{w.ids.id(string(m[1])), hx.U(binary.BigEndian.Uint64(m[2]))})
		}
	}
	out["app"] = hx.U(w.appState(ci))
	return out
}

// ---------------------------------------------------------------------------------------------
// executing one operation = one block on one chain

type opResult struct {
	out string
	res *abci.ExecTxResult
}

func classify(res *abci.ExecTxResult, err error) string {
	if err == nil {
		return "ok"
	}
	if res != nil && res.Code == 111222 {
		return "panic"
	}
	return "err"
}

// begin returns the height/time at which the next operation on chain ci executes.
func (w *W) begin(ci int) (clienttypes.Height, uint64) {
	c := w.ch[ci]
	w.coord.UpdateTimeForChain(c)
	rev := clienttypes.ParseChainID(c.ChainID)
	return clienttypes.NewHeight(rev, uint64(c.ProposedHeader.Height)), uint64(c.ProposedHeader.Time.UnixNano())
}

// record appends the step with the implementation's observation.
func (w *W) record(ci int, h clienttypes.Height, t uint64, op map[string]any, out string, cbStart int) {
	evs := []any{}
	att := []any{} // callbacks that were invoked although the message did not succeed (its state is reverted)
	for _, e := range w.cbs[cbStart:] {
		if e.Chain == ci {
			if out == "ok" {
				evs = append(evs, e.Ev)
			} else {
				att = append(att, e.Ev)
			}
		}
	}
	w.cbs = w.cbs[:cbStart]
	// callbacks of reverted executions do not count; keep successful ones for idx numbering
	if out == "ok" {
		for _, e := range evs {
			w.cbs = append(w.cbs, cbEntry{ci, e.([]any)})
		}
	}
	w.steps = append(w.steps, map[string]any{"c": ci, "h": hj(h), "t": hx.U(t), "op": op, "out": out, "evs": evs, "att": att, "proj": w.dump(ci)})
}

// tx runs msgs as one transaction in one block.
func (w *W) tx(ci int, op map[string]any, noopCheck func(*abci.ExecTxResult) bool, msgs ...sdk.Msg) (string, *abci.ExecTxResult) {
	h, t := w.begin(ci)
	start := len(w.cbs)
	w.curStart = start
	res, err := w.ch[ci].SendMsgs(msgs...)
	w.resync(ci)
	out := classify(res, err)
	if out == "ok" && noopCheck != nil && noopCheck(res) {
		out = "noop"
	}
	w.record(ci, h, t, op, out, start)
	if err != nil {
		w.steps[len(w.steps)-1]["log"] = err.Error() // diagnostic only, never compared
	}
	return out, res
}

// resync reloads the sender's account sequence: a transaction rejected before the ante handler's
// sequence increment (stateless validation) leaves the test chain's local copy one ahead.
func (w *W) resync(ci int) {
	c := w.ch[ci]
	acc := c.GetSimApp().AccountKeeper.GetAccount(c.GetContext(), c.SenderAccount.GetAddress())
	if err := c.SenderAccount.SetSequence(acc.GetSequence()); err != nil {
		panic(err)
	}
}

// direct runs a keeper-level call in a cached context of the next block and commits the block.
func (w *W) direct(ci int, op map[string]any, f func(ctx sdk.Context) error) string {
	h, t := w.begin(ci)
	start := len(w.cbs)
	w.curStart = start
	c := w.ch[ci]
	ctx := c.GetContext()
	cctx, write := ctx.CacheContext()
	out := "ok"
	errlog := ""
	panicked, _ := hx.Catch(func() {
		if err := f(cctx); err != nil {
			out = "err"
			errlog = err.Error()
		} else {
			write()
		}
	})
	if panicked {
		out = "panic"
	}
	c.NextBlock()
	w.coord.IncrementTime()
	w.record(ci, h, t, op, out, start)
	if errlog != "" {
		w.steps[len(w.steps)-1]["log"] = errlog
	}
	return out
}

func respIsNoop(res *abci.ExecTxResult) bool {
	var msgData sdk.TxMsgData
	if err := proto.Unmarshal(res.Data, &msgData); err != nil || len(msgData.MsgResponses) == 0 {
		return false
	}
	v := msgData.MsgResponses[0].Value
	// all packet responses have a single enum field `result` (field 1): NOOP = 1, SUCCESS = 2
	var r channeltypes.MsgRecvPacketResponse
	if err := proto.Unmarshal(v, &r); err != nil {
		return false
	}
	return r.Result == channeltypes.NOOP
}

// ---------------------------------------------------------------------------------------------
// proofs

type keyDesc struct {
	Kind string
	Args []any
	Raw  []byte
}

func (w *W) kCommit1(port, ch string, seq uint64) keyDesc {
	return keyDesc{"commit1", []any{w.ids.id(port), w.ids.id(ch), hx.U(seq)}, host.PacketCommitmentKey(port, ch, seq)}
}
func (w *W) kAck1(port, ch string, seq uint64) keyDesc {
	return keyDesc{"ack1", []any{w.ids.id(port), w.ids.id(ch), hx.U(seq)}, host.PacketAcknowledgementKey(port, ch, seq)}
}
func (w *W) kRcpt1(port, ch string, seq uint64) keyDesc {
	return keyDesc{"receipt1", []any{w.ids.id(port), w.ids.id(ch), hx.U(seq)}, host.PacketReceiptKey(port, ch, seq)}
}
func (w *W) kNextRecv(port, ch string) keyDesc {
	return keyDesc{"nextrecv", []any{w.ids.id(port), w.ids.id(ch)}, host.NextSequenceRecvKey(port, ch)}
}
func (w *W) kChan(port, ch string) keyDesc {
	return keyDesc{"chan", []any{w.ids.id(port), w.ids.id(ch)}, host.ChannelKey(port, ch)}
}
func (w *W) kCommit2(id string, seq uint64) keyDesc {
	return keyDesc{"commit2", []any{w.ids.id(id), hx.U(seq)}, hostv2.PacketCommitmentKey(id, seq)}
}
func (w *W) kAck2(id string, seq uint64) keyDesc {
	return keyDesc{"ack2", []any{w.ids.id(id), hx.U(seq)}, hostv2.PacketAcknowledgementKey(id, seq)}
}
func (w *W) kRcpt2(id string, seq uint64) keyDesc {
	return keyDesc{"receipt2", []any{w.ids.id(id), hx.U(seq)}, hostv2.PacketReceiptKey(id, seq)}
}

// proofOf queries a real proof for key k from chain ci's committed state version `version`.
func (w *W) proofOf(ci int, k keyDesc, version int64) ([]byte, map[string]any) {
	proof, _ := w.ch[ci].QueryProofAtHeight(k.Raw, version+1)
	return proof, map[string]any{"tag": "honest", "ver": hx.U(uint64(version)), "key": append([]any{k.Kind}, k.Args...)}
}

func (w *W) garbage() ([]byte, map[string]any) {
	return w.r.Bytes(40), map[string]any{"tag": "garbage"}
}

// latestCons returns the latest consensus height chain ci's client `clientID` has, 0 if none.
func (w *W) latestCons(ci int, clientID string) uint64 {
	cs, ok := w.ch[ci].App.GetIBCKeeper().ClientKeeper.GetClientState(w.ch[ci].GetContext(), clientID)
	if !ok {
		return 0
	}
	return cs.(*ibctm.ClientState).LatestHeight.RevisionHeight
}

// latestConsTime is the timestamp (ns) of the consensus state at the client's latest height.
func (w *W) latestConsTime(ci int, clientID string) uint64 {
	ctx := w.ch[ci].GetContext()
	k := w.ch[ci].App.GetIBCKeeper().ClientKeeper
	cs, ok := k.GetClientState(ctx, clientID)
	if !ok {
		return 0
	}
	cons, ok := k.GetClientConsensusState(ctx, clientID, cs.(*ibctm.ClientState).LatestHeight)
	if !ok {
		return 0
	}
	return uint64(cons.(*ibctm.ConsensusState).Timestamp.UnixNano())
}

// directAt is direct with the block time of the executing context set to bt (a chain whose clock is behind the
// counterparty's clock as its light client knows it): the step is recorded with that time.
func (w *W) directAt(ci int, op map[string]any, bt uint64, f func(ctx sdk.Context) error) string {
	h, _ := w.begin(ci)
	start := len(w.cbs)
	w.curStart = start
	c := w.ch[ci]
	ctx := c.GetContext().WithBlockTime(time.Unix(0, int64(bt)).UTC())
	cctx, write := ctx.CacheContext()
	out := "ok"
	errlog := ""
	panicked, _ := hx.Catch(func() {
		if err := f(cctx); err != nil {
			out = "err"
			errlog = err.Error()
		} else {
			write()
		}
	})
	if panicked {
		out = "panic"
	}
	c.NextBlock()
	w.coord.IncrementTime()
	w.record(ci, h, bt, op, out, start)
	if errlog != "" {
		w.steps[len(w.steps)-1]["log"] = errlog
	}
	return out
}

// ---------------------------------------------------------------------------------------------
// client operations

// updateClient commits a block on the counterparty (so that its latest state has a header) and submits
// MsgUpdateClient with the counterparty's latest committed header.
func (w *W) updateClient(ci int, clientID string) {
	o := 1 - ci
	// empty block on the counterparty
	h, t := w.begin(o)
	start := len(w.cbs)
	w.ch[o].NextBlock()
	w.coord.IncrementTime()
	w.record(o, h, t, map[string]any{"k": "empty"}, "ok", start)

	trusted := clienttypes.NewHeight(clienttypes.ParseChainID(w.ch[o].ChainID), w.latestCons(ci, clientID))
	header, err := w.ch[o].IBCClientHeader(w.ch[o].LatestCommittedHeader, trusted)
	if err != nil {
		// trusted validators unknown (e.g. no consensus state): record as a failing update
		return
	}
	msg, err := clienttypes.NewMsgUpdateClient(clientID, header, w.ch[ci].SenderAccount.GetAddress().String())
	if err != nil {
		w.t.Fatal(err)
	}
	w.tx(ci, map[string]any{"k": "update", "client": w.ids.id(clientID), "hh": hx.U(uint64(w.ch[o].LatestCommittedHeader.Header.Height))}, nil, msg)
}

func (w *W) freeze(ci int, clientID string) {
	w.direct(ci, map[string]any{"k": "freeze", "client": w.ids.id(clientID)}, func(ctx sdk.Context) error {
		cs, ok := w.ch[ci].App.GetIBCKeeper().ClientKeeper.GetClientState(ctx, clientID)
		if !ok {
			return fmt.Errorf("no client")
		}
		tm := cs.(*ibctm.ClientState)
		tm.FrozenHeight = clienttypes.NewHeight(0, 1)
		w.ch[ci].App.GetIBCKeeper().ClientKeeper.SetClientState(ctx, clientID, tm)
		return nil
	})
}

func (w *W) emptyBlock(ci int) {
	h, t := w.begin(ci)
	start := len(w.cbs)
	w.ch[ci].NextBlock()
	w.coord.IncrementTime()
	w.record(ci, h, t, map[string]any{"k": "empty"}, "ok", start)
}

var _ = banktypes.ModuleName
