package core

import (
	"fmt"
	"time"

	sdk "github.com/cosmos/cosmos-sdk/types"

	abci "github.com/cometbft/cometbft/abci/types"

	clienttypes "github.com/cosmos/ibc-go/v11/modules/core/02-client/types"
	connectiontypes "github.com/cosmos/ibc-go/v11/modules/core/03-connection/types"
	channeltypes "github.com/cosmos/ibc-go/v11/modules/core/04-channel/types"
	channeltypesv2 "github.com/cosmos/ibc-go/v11/modules/core/04-channel/v2/types"
	ibcexported "github.com/cosmos/ibc-go/v11/modules/core/exported"
	ibctm "github.com/cosmos/ibc-go/v11/modules/light-clients/07-tendermint"
	localhost "github.com/cosmos/ibc-go/v11/modules/light-clients/09-localhost"
	ibctesting "github.com/cosmos/ibc-go/v11/testing"
	ibcmock "github.com/cosmos/ibc-go/v11/testing/mock"
	mockv2 "github.com/cosmos/ibc-go/v11/testing/mock/v2"

	"verif/harness/hx"
)

// sent packets the relayer knows about
type pkt1 struct {
	loop  bool // sent over a localhost channel: source and destination are the same chain
	src   int // chain index of the sender
	p     channeltypes.Packet
	ord   bool
	recvd bool
	ack   []byte
	done  bool
}
type pkt2 struct {
	src   int
	q     channeltypesv2.Packet
	alias bool
	recvd bool
	acks  [][]byte
	async bool
	done  bool
}

type hist struct {
	w      *W
	p1     []*pkt1
	p2     []*pkt2
	replay []func() // earlier relay messages, for duplicate submission
}

// ---------------------------------------------------------------------------------------------
// initial configuration handed to the model

func (w *W) initConfig() map[string]any {
	cfg := map[string]any{}
	chains := []any{}
	for ci, c := range w.ch {
		ctx := c.GetContext()
		k := c.App.GetIBCKeeper()
		chs, cns, cls := []any{}, []any{}, []any{}
		nr, na, ns, cps, als := []any{}, []any{}, []any{}, []any{}, []any{}
		for _, ic := range k.ChannelKeeper.GetAllChannels(ctx) {
			chs = append(chs, []any{w.ids.id(ic.PortId), w.ids.id(ic.ChannelId), ic.State.String(), ic.Ordering.String(),
				w.ids.id(ic.Counterparty.PortId), w.ids.id(ic.Counterparty.ChannelId), w.ids.id(ic.ConnectionHops[0]), w.ids.id(ic.Version)})
			if n, ok := k.ChannelKeeper.GetNextSequenceRecv(ctx, ic.PortId, ic.ChannelId); ok {
				nr = append(nr, []any{w.ids.id(ic.PortId), w.ids.id(ic.ChannelId), hx.U(n)})
			}
			if n, ok := k.ChannelKeeper.GetNextSequenceAck(ctx, ic.PortId, ic.ChannelId); ok {
				na = append(na, []any{w.ids.id(ic.PortId), w.ids.id(ic.ChannelId), hx.U(n)})
			}
			if n, ok := k.ChannelKeeper.GetNextSequenceSend(ctx, ic.PortId, ic.ChannelId); ok {
				ns = append(ns, []any{w.ids.id(ic.ChannelId), hx.U(n)})
			}
			if cp, ok := k.ClientV2Keeper.GetClientCounterparty(ctx, ic.ChannelId); ok {
				cps = append(cps, []any{w.ids.id(ic.ChannelId), w.ids.id(cp.ClientId)})
			}
			if u, ok := k.ChannelKeeperV2.GetClientForAlias(ctx, ic.ChannelId); ok {
				als = append(als, []any{w.ids.id(ic.ChannelId), w.ids.id(u)})
			}
		}
		for _, conn := range k.ConnectionKeeper.GetAllConnections(ctx) {
			cns = append(cns, []any{w.ids.id(conn.Id), conn.State == connectiontypes.OPEN, w.ids.id(conn.ClientId), w.ids.id(conn.Counterparty.ConnectionId)})
		}
		for _, gc := range k.ClientKeeper.GetAllGenesisClients(ctx) {
			cs, ok := k.ClientKeeper.GetClientState(ctx, gc.ClientId)
			if !ok {
				continue
			}
			tm, ok := cs.(*ibctm.ClientState)
			if !ok {
				continue
			}
			cons := []any{}
			k.ClientKeeper.IterateConsensusStates(ctx, func(clientID string, csh clienttypes.ConsensusStateWithHeight) bool {
				if clientID != gc.ClientId {
					return false
				}
				st, err := clienttypes.UnpackConsensusState(csh.ConsensusState)
				if err != nil {
					panic(err)
				}
				cons = append(cons, []any{hj(csh.Height), hx.U(st.GetTimestamp()), hx.U(csh.Height.RevisionHeight - 1)})
				return false
			})
			cls = append(cls, []any{w.ids.id(gc.ClientId), !tm.FrozenHeight.IsZero(), hj(tm.LatestHeight), hx.U(uint64(tm.TrustingPeriod.Nanoseconds())), cons})
			if cp, ok := k.ClientV2Keeper.GetClientCounterparty(ctx, gc.ClientId); ok {
				cps = append(cps, []any{w.ids.id(gc.ClientId), w.ids.id(cp.ClientId)})
			}
			if n, ok := k.ChannelKeeperV2.GetNextSequenceSend(ctx, gc.ClientId); ok {
				ns = append(ns, []any{w.ids.id(gc.ClientId), hx.U(n)})
			}
		}
		h, t := w.begin(ci)
		chains = append(chains, map[string]any{"chans": chs, "conns": cns, "clients": cls, "nr": nr, "na": na, "ns": ns,
			"cps": cps, "als": als, "ports": []any{w.ids.id(ibctesting.MockPort), w.ids.id(ibcmock.MockBlockUpgrade)}, "h": hj(h), "t": hx.U(t), "app": hx.U(w.appState(ci)),
			"ver": hx.U(uint64(c.App.LastBlockHeight()))})
	}
	cfg["chains"] = chains
	cfg["lh"] = w.ids.id(ibcexported.LocalhostClientID)
	sc := []any{}
	for _, k := range w.dataKeys() {
		b := w.script[k]
		sc = append(sc, []any{w.dataID([]byte(k)), hx.U(b.Writes), b.Recv, w.ackID(b.Ack), b.CbFails})
	}
	cfg["script"] = sc
	return cfg
}

// ---------------------------------------------------------------------------------------------
// endpoints of the three paths as seen from chain ci

func (w *W) ep(p *ibctesting.Path, ci int) *ibctesting.Endpoint {
	if ci == 0 {
		return p.EndpointA
	}
	return p.EndpointB
}

func (h *hist) pickData() string {
	ks := h.w.dataKeys()
	return ks[h.w.r.Intn(len(ks))]
}

// timeouts around the counterparty's current height/time
func (h *hist) pickTimeout1(dst int) (clienttypes.Height, uint64) {
	w := h.w
	dh, dt := w.begin(dst)
	switch w.r.Intn(10) {
	case 0:
		return clienttypes.ZeroHeight(), 0 // invalid: both zero
	case 1:
		return clienttypes.NewHeight(dh.RevisionNumber, dh.RevisionHeight+uint64(w.r.Intn(4))), 0 // near height
	case 2:
		return clienttypes.ZeroHeight(), dt + uint64(w.r.Intn(4))*uint64(5*time.Second) + uint64(w.r.Intn(2)) // near time
	case 3:
		return clienttypes.NewHeight(dh.RevisionNumber, dh.RevisionHeight-1), 0 // already passed on the destination
	case 4:
		return clienttypes.NewHeight(dh.RevisionNumber, dh.RevisionHeight+2), dt + uint64(20*time.Second)
	default:
		return clienttypes.NewHeight(dh.RevisionNumber, dh.RevisionHeight+1000), 0
	}
}

func (h *hist) pickTimeout2(src int) uint64 {
	w := h.w
	_, t := w.begin(src)
	secs := t / 1e9
	switch w.r.Intn(10) {
	case 0:
		return 0
	case 1:
		return secs // not after block time
	case 2:
		return secs + 1 + uint64(w.r.Intn(12)) // near
	case 3:
		return secs + 24*3600 + uint64(w.r.Intn(3)) // around the maximum delta
	case 4:
		return 1<<63 + uint64(w.r.Intn(5)) // negative as int64
	default:
		return secs + 3600
	}
}

// ---------------------------------------------------------------------------------------------
// sends

func (h *hist) send1(src int, ordered bool) {
	w := h.w
	path := w.pU
	if ordered {
		path = w.pO
	}
	e := w.ep(path, src)
	th, tt := h.pickTimeout1(1 - src)
	data := []byte(h.pickData())
	if w.r.Chance(1, 25) {
		data = nil
	}
	port, ch := e.ChannelConfig.PortID, e.ChannelID
	if w.r.Chance(1, 20) {
		ch = "channel-77" // unknown channel
	}
	h.send1With(src, ordered, e, port, ch, th, tt, data)
}

// send1With sends one v1 packet with the given fields and returns its bookkeeping entry (nil if refused).
func (h *hist) send1With(src int, ordered bool, e *ibctesting.Endpoint, port, ch string, th clienttypes.Height, tt uint64, data []byte) *pkt1 {
	w := h.w
	var seq uint64
	// commitments do not depend on the sequence: register the descriptor before the store is dumped
	w.p1desc(channeltypes.NewPacket(data, 1, port, ch, e.Counterparty.ChannelConfig.PortID, e.Counterparty.ChannelID, th, tt))
	op := map[string]any{"k": "send1", "port": w.ids.id(port), "chan": w.ids.id(ch), "th": hj(th), "tt": hx.U(tt), "data": w.dataID(data)}
	out := w.direct(src, op, func(ctx sdk.Context) error {
		var err error
		seq, err = w.ch[src].App.GetIBCKeeper().ChannelKeeper.SendPacket(ctx, port, ch, th, tt, data)
		return err
	})
	if out == "ok" {
		p := channeltypes.NewPacket(data, seq, port, ch, e.Counterparty.ChannelConfig.PortID, e.Counterparty.ChannelID, th, tt)
		w.p1desc(p)
		k := &pkt1{src: src, p: p, ord: ordered}
		h.p1 = append(h.p1, k)
		if seq > w.maxSeq {
			w.maxSeq = seq
		}
		w.steps[len(w.steps)-1]["ret_seq"] = hx.U(seq)
		return k
	}
	return nil
}

// directedOrdered: two packets on the ORDERED channel with a far timeout, relayed out of order first: the receive of
// the second before the first and the acknowledgement of the second before the first must both be refused (C02).
func (h *hist) directedOrdered(idx int) {
	w := h.w
	src := (idx / 2) % 2
	e := w.ep(w.pO, src)
	dstH := w.ch[1-src].App.LastBlockHeight()
	th := clienttypes.NewHeight(clienttypes.ParseChainID(w.ch[1-src].ChainID), uint64(dstH)+100000)
	a := h.send1With(src, true, e, e.ChannelConfig.PortID, e.ChannelID, th, 0, []byte("d-ok1"))
	b := h.send1With(src, true, e, e.ChannelConfig.PortID, e.ChannelID, th, 0, []byte("d-ok2"))
	if a == nil || b == nil {
		return
	}
	h.recv1(b, false) // gap
	h.recv1(a, false)
	h.recv1(b, false)
	h.recv1(a, false) // replay of a delivered packet: must not reach the application again
	if idx%2 == 0 {
		h.ack1(b, false) // out of order
		h.ack1(a, false)
		h.ack1(b, false)
	}
}

func (h *hist) payloads() []channeltypesv2.Payload {
	w := h.w
	n := 1
	if w.r.Chance(1, 3) {
		n = 2 + w.r.Intn(3)
	}
	var ps []channeltypesv2.Payload
	for i := 0; i < n; i++ {
		sp, dp := mockv2.PortIDA, mockv2.PortIDB
		if w.r.Bool() {
			sp, dp = dp, sp
		}
		val := []byte(h.pickData())
		// most multi-payload packets should succeed: bias towards succeeding payloads
		if n > 1 && w.r.Chance(2, 3) {
			val = []byte([]string{"d-ok1", "d-ok2", "d-raw"}[w.r.Intn(3)])
		}
		ver, enc := "v1", "json"
		if w.r.Chance(1, 30) {
			ver = " "
		}
		ps = append(ps, channeltypesv2.NewPayload(sp, dp, ver, enc, val))
	}
	return ps
}

func (h *hist) send2(src int, alias bool) {
	w := h.w
	var id, cp string
	if alias {
		id, cp = w.ep(w.pU, src).ChannelID, w.ep(w.pU, 1-src).ChannelID
	} else {
		id, cp = w.ep(w.pV, src).ClientID, w.ep(w.pV, 1-src).ClientID
	}
	if w.r.Chance(1, 25) {
		id = "07-tendermint-9" // no counterparty registered
	}
	tt := h.pickTimeout2(src)
	pays := h.payloads()
	pd := []any{}
	for _, y := range pays {
		pd = append(pd, w.paydesc(y))
	}
	w.p2desc(channeltypesv2.NewPacket(1, id, cp, tt, pays...))
	msg := channeltypesv2.NewMsgSendPacket(id, tt, w.ch[src].SenderAccount.GetAddress().String(), pays...)
	out, res := w.tx(src, map[string]any{"k": "send2", "src": w.ids.id(id), "tt": hx.U(tt), "pay": pd, "signer": 7}, nil, msg)
	if out == "ok" {
		seq := sendSeq(res)
		q := channeltypesv2.NewPacket(seq, id, cp, tt, pays...)
		w.p2desc(q)
		h.p2 = append(h.p2, &pkt2{src: src, q: q, alias: alias})
		if seq > w.maxSeq {
			w.maxSeq = seq
		}
		w.steps[len(w.steps)-1]["ret_seq"] = hx.U(seq)
	}
}

func sendSeq(res *abci.ExecTxResult) uint64 {
	var msgData sdk.TxMsgData
	if err := msgData.Unmarshal(res.Data); err != nil {
		panic(err)
	}
	var r channeltypesv2.MsgSendPacketResponse
	if err := r.Unmarshal(msgData.MsgResponses[0].Value); err != nil {
		panic(err)
	}
	return r.Sequence
}

// ---------------------------------------------------------------------------------------------
// proofs for relays: version and proof height, possibly mutated

// proofPlan picks the counterparty state version to prove from and the proof height to claim.
func (h *hist) proofPlan(dst int, clientID string, mutate bool) (version int64, ph clienttypes.Height) {
	w := h.w
	o := 1 - dst
	rev := clienttypes.ParseChainID(w.ch[o].ChainID)
	latest := int64(w.latestCons(dst, clientID))
	version = latest - 1
	if version < w.v0[o] {
		version = w.v0[o]
	}
	ph = clienttypes.NewHeight(rev, uint64(version+1))
	if mutate {
		switch w.r.Intn(6) {
		case 0:
			ph.RevisionHeight++ // consensus state of another version
		case 1:
			if ph.RevisionHeight > 1 {
				ph.RevisionHeight--
			}
		case 2: // stale version with matching height
			if version > w.v0[o] {
				version = w.v0[o] + int64(w.r.Intn(int(version-w.v0[o])+1))
				ph = clienttypes.NewHeight(rev, uint64(version+1))
			}
		case 3: // newest committed version, possibly without a consensus state
			version = w.ch[o].App.LastBlockHeight() - 1
			ph = clienttypes.NewHeight(rev, uint64(version+1))
		case 4:
			ph = clienttypes.NewHeight(rev+1, ph.RevisionHeight)
		default:
			ph = clienttypes.NewHeight(rev, uint64(latest)+5)
		}
	}
	return version, ph
}

func (w *W) signer(ci int) string { return w.ch[ci].SenderAccount.GetAddress().String() }

// clientFor returns the light client id chain ci uses for a v1 path / v2 id.
func (h *hist) clientV1(ci int) string { return h.w.ep(h.w.pU, ci).ClientID }
func (h *hist) clientV2(ci int, alias bool) string {
	if alias {
		return h.w.ep(h.w.pU, ci).ClientID
	}
	return h.w.ep(h.w.pV, ci).ClientID
}

// ---------------------------------------------------------------------------------------------
// v1 relays

func (h *hist) mutate1(p channeltypes.Packet) channeltypes.Packet {
	w := h.w
	switch w.r.Intn(8) {
	case 0:
		p.Data = []byte(h.pickData())
	case 1:
		p.TimeoutHeight.RevisionHeight++
	case 2:
		p.TimeoutTimestamp++
	case 3:
		p.Sequence++
	case 4:
		if p.Sequence > 1 {
			p.Sequence--
		}
	case 5:
		p.SourceChannel, p.DestinationChannel = p.DestinationChannel, p.SourceChannel
	case 6:
		// the other channel of the same port pair
		if p.SourceChannel == w.pU.EndpointA.ChannelID || p.SourceChannel == w.pU.EndpointB.ChannelID {
			if p.SourceChannel == w.pU.EndpointA.ChannelID {
				p.SourceChannel, p.DestinationChannel = w.pO.EndpointA.ChannelID, w.pO.EndpointB.ChannelID
			} else {
				p.SourceChannel, p.DestinationChannel = w.pO.EndpointB.ChannelID, w.pO.EndpointA.ChannelID
			}
		}
	default:
		p.Sequence = 0
	}
	return p
}

func (h *hist) recv1(k *pkt1, mutate bool) {
	if k == nil {
		return
	}
	w := h.w
	dst := 1 - k.src
	p := k.p
	mutP, mutProof := false, false
	if mutate {
		if w.r.Bool() {
			p = h.mutate1(p)
			mutP = true
		} else {
			mutProof = true
		}
	}
	h.fresh(dst, h.clientV1(dst))
	version, ph := h.proofPlan(dst, h.clientV1(dst), mutProof && w.r.Chance(2, 3))
	key := w.kCommit1(p.SourcePort, p.SourceChannel, p.Sequence)
	if mutProof && w.r.Chance(1, 3) {
		key = w.kAck1(p.DestinationPort, p.DestinationChannel, p.Sequence)
	}
	var proof []byte
	var pd map[string]any
	if mutProof && w.r.Chance(1, 6) {
		proof, pd = w.garbage()
	} else {
		proof, pd = w.proofOf(k.src, key, version)
	}
	msg := channeltypes.NewMsgRecvPacket(p, proof, ph, w.signer(dst))
	w.noteAck1(w.script[string(p.Data)].Ack) // the acknowledgement a successful receive writes
	op := map[string]any{"k": "recv1", "p": w.p1desc(p), "ph": hj(ph), "proof": pd, "relayer": 7}
	run := func() {
		out, _ := w.tx(dst, op, respIsNoop, msg)
		if out == "ok" && !mutP {
			k.recvd = true
			b := w.script[string(p.Data)]
			if b.Recv != "async" {
				k.ack = b.Ack
				w.noteAck1(b.Ack)
			}
		}
	}
	run()
	h.replay = append(h.replay, run)
}

func (h *hist) ack1(k *pkt1, mutate bool) {
	if k == nil {
		return
	}
	w := h.w
	src := k.src
	p := k.p
	ack := k.ack
	if ack == nil {
		ack = w.script["d-ok1"].Ack
	}
	mutProof := false
	if mutate {
		switch w.r.Intn(4) {
		case 0:
			p = h.mutate1(p)
		case 1:
			ack = []byte("forged-ack")
		case 2:
			ack = []byte(`{"result": "cjE="}`) // unmarshals, re-marshals differently
		default:
			mutProof = true
		}
	}
	w.noteAck1(ack)
	h.fresh(src, h.clientV1(src))
	version, ph := h.proofPlan(src, h.clientV1(src), mutProof && w.r.Chance(2, 3))
	key := w.kAck1(p.DestinationPort, p.DestinationChannel, p.Sequence)
	if mutProof && w.r.Chance(1, 3) {
		key = w.kCommit1(p.SourcePort, p.SourceChannel, p.Sequence)
	}
	proof, pd := w.proofOf(1-src, key, version)
	if mutProof && w.r.Chance(1, 6) {
		proof, pd = w.garbage()
	}
	msg := channeltypes.NewMsgAcknowledgement(p, ack, proof, ph, w.signer(src))
	op := map[string]any{"k": "ack1", "p": w.p1desc(p), "ack": w.ackID(ack), "noncanon": string(ack) == `{"result": "cjE="}`, "ph": hj(ph), "proof": pd, "relayer": 7}
	run := func() {
		out, _ := w.tx(src, op, respIsNoop, msg)
		if out == "ok" {
			k.done = true
		}
	}
	run()
	h.replay = append(h.replay, run)
}

func (h *hist) timeout1(k *pkt1, mutate, onClose bool) {
	if k == nil {
		return
	}
	w := h.w
	src := k.src
	p := k.p
	mutProof := false
	if mutate {
		if w.r.Bool() {
			p = h.mutate1(p)
		} else {
			mutProof = true
		}
	}
	h.fresh(src, h.clientV1(src))
	version, ph := h.proofPlan(src, h.clientV1(src), mutProof && w.r.Chance(2, 3))
	var key keyDesc
	nsr := uint64(1)
	if k.ord {
		key = w.kNextRecv(p.DestinationPort, p.DestinationChannel)
		// the honest relayer reads the counterparty's next sequence receive at the proven version
		if n, ok := w.ch[1-src].App.GetIBCKeeper().ChannelKeeper.GetNextSequenceRecv(w.ch[1-src].GetContext(), p.DestinationPort, p.DestinationChannel); ok {
			nsr = n
		}
		if mutate && w.r.Chance(1, 3) {
			nsr = uint64(w.r.Intn(4))
		}
	} else {
		key = w.kRcpt1(p.DestinationPort, p.DestinationChannel, p.Sequence)
		if mutate && w.r.Chance(1, 4) {
			nsr = 0
		}
	}
	if mutProof && w.r.Chance(1, 3) {
		// a proof for another key.  For the absence proof of an UNORDERED timeout the other key must EXIST on the
		// counterparty: an ics23 non-existence proof of one absent key also proves every other absent key between the
		// same two neighbours, so "the wrong absent key" can be a perfectly valid proof.
		if k.ord {
			key = w.kCommit1(p.SourcePort, p.SourceChannel, p.Sequence)
		} else {
			key = w.kChan(p.DestinationPort, p.DestinationChannel)
		}
	}
	proof, pd := w.proofOf(1-src, key, version)
	if mutProof && w.r.Chance(1, 6) {
		proof, pd = w.garbage()
	}
	var msg sdk.Msg
	op := map[string]any{"k": "timeout1", "p": w.p1desc(p), "ph": hj(ph), "nsr": hx.U(nsr), "proof": pd, "relayer": 7}
	if onClose {
		// the closed-channel proof uses the same version; the model receives it as a second honest proof
		ckey := w.kChan(p.DestinationPort, p.DestinationChannel)
		cproof, cpd := w.proofOf(1-src, ckey, version)
		msg = channeltypes.NewMsgTimeoutOnClose(p, nsr, proof, cproof, ph, w.signer(src))
		op["k"] = "timeoutclose1"
		op["proof_closed"] = cpd
	} else {
		msg = channeltypes.NewMsgTimeout(p, nsr, proof, ph, w.signer(src))
	}
	run := func() {
		out, _ := w.tx(src, op, respIsNoop, msg)
		if out == "ok" {
			k.done = true
		}
	}
	run()
	h.replay = append(h.replay, run)
}

func (h *hist) asyncAck1(k *pkt1) {
	if k == nil {
		return
	}
	w := h.w
	dst := 1 - k.src
	ack := []byte("async-ack-1")
	if w.r.Chance(1, 6) {
		ack = []byte{}
	}
	w.noteAck1(ack)
	op := map[string]any{"k": "asyncack1", "p": w.p1desc(k.p), "ack": w.ackID(ack)}
	out := w.direct(dst, op, func(ctx sdk.Context) error {
		return w.ch[dst].App.GetIBCKeeper().ChannelKeeper.WriteAcknowledgement(ctx, k.p, customAck{true, ack})
	})
	if out == "ok" {
		k.ack = ack
	}
}

func (h *hist) closeChan(ci int, ordered bool) {
	w := h.w
	path := w.pU
	if ordered {
		path = w.pO
	}
	e := w.ep(path, ci)
	op := map[string]any{"k": "close", "port": w.ids.id(e.ChannelConfig.PortID), "chan": w.ids.id(e.ChannelID)}
	// environment step: the end becomes CLOSED (what ChanCloseInit / ChanCloseConfirm do to the packet handlers' view)
	w.direct(ci, op, func(ctx sdk.Context) error {
		k := w.ch[ci].App.GetIBCKeeper().ChannelKeeper
		ch, ok := k.GetChannel(ctx, e.ChannelConfig.PortID, e.ChannelID)
		if !ok || ch.State == channeltypes.CLOSED {
			return fmt.Errorf("no open channel")
		}
		ch.State = channeltypes.CLOSED
		k.SetChannel(ctx, e.ChannelConfig.PortID, e.ChannelID, ch)
		return nil
	})
}

// ---------------------------------------------------------------------------------------------
// v2 relays

func (h *hist) mutate2(q channeltypesv2.Packet) channeltypesv2.Packet {
	w := h.w
	pays := append([]channeltypesv2.Payload{}, q.Payloads...)
	q.Payloads = pays
	switch w.r.Intn(7) {
	case 0:
		q.Payloads[0].Value = []byte(h.pickData())
	case 1:
		q.TimeoutTimestamp++
	case 2:
		q.Sequence++
	case 3:
		q.SourceClient, q.DestinationClient = q.DestinationClient, q.SourceClient
	case 4:
		if len(q.Payloads) > 1 {
			q.Payloads[0], q.Payloads[1] = q.Payloads[1], q.Payloads[0]
		} else {
			q.Payloads = append(q.Payloads, q.Payloads[0])
		}
	case 5:
		q.Payloads[0].SourcePort, q.Payloads[0].DestinationPort = q.Payloads[0].DestinationPort, q.Payloads[0].SourcePort
	default:
		q.Payloads[0].Encoding = "proto"
	}
	return q
}

func (h *hist) recv2(k *pkt2, mutate bool) {
	w := h.w
	dst := 1 - k.src
	q := k.q
	mutP, mutProof := false, false
	if mutate {
		if w.r.Bool() {
			q = h.mutate2(q)
			mutP = true
		} else {
			mutProof = true
		}
	}
	h.fresh(dst, h.clientV2(dst, k.alias))
	version, ph := h.proofPlan(dst, h.clientV2(dst, k.alias), mutProof && w.r.Chance(2, 3))
	key := w.kCommit2(q.SourceClient, q.Sequence)
	if mutProof && w.r.Chance(1, 3) {
		key = w.kAck2(q.DestinationClient, q.Sequence)
	}
	proof, pd := w.proofOf(k.src, key, version)
	if mutProof && w.r.Chance(1, 6) {
		proof, pd = w.garbage()
	}
	msg := channeltypesv2.NewMsgRecvPacket(q, proof, ph, w.signer(dst))
	{ // the acknowledgements a receive of q can write
		var all [][]byte
		for _, y := range q.Payloads {
			all = append(all, w.script[string(y.Value)].Ack)
		}
		w.noteAck2(all)
		w.noteAck2([][]byte{sentinelBytes()})
	}
	op := map[string]any{"k": "recv2", "q": w.p2desc(q), "ph": hj(ph), "proof": pd, "relayer": 7}
	run := func() {
		out, _ := w.tx(dst, op, respIsNoop, msg)
		if out == "ok" && !mutP {
			k.recvd = true
			acks := [][]byte{}
			fail, async := false, false
			for _, y := range q.Payloads {
				b := w.script[string(y.Value)]
				switch b.Recv {
				case "error":
					fail = true
				case "async":
					async = true
				}
				acks = append(acks, b.Ack)
			}
			switch {
			case fail:
				k.acks = [][]byte{sentinelBytes()}
			case async:
				k.async = true
			default:
				k.acks = acks
			}
			if k.acks != nil {
				w.noteAck2(k.acks)
			}
		}
	}
	run()
	h.replay = append(h.replay, run)
}

func (h *hist) ack2(k *pkt2, mutate bool) {
	w := h.w
	src := k.src
	q := k.q
	acks := k.acks
	if acks == nil {
		acks = [][]byte{[]byte("r")}
	}
	mutProof := false
	if mutate {
		switch w.r.Intn(5) {
		case 0:
			q = h.mutate2(q)
		case 1:
			acks = [][]byte{[]byte("forged")}
		case 2:
			if len(acks) > 1 {
				acks = [][]byte{acks[1], acks[0]}
			} else {
				acks = append(append([][]byte{}, acks...), []byte("extra"))
			}
		case 3:
			acks = [][]byte{}
		default:
			mutProof = true
		}
	}
	ackIDs := w.noteAck2(acks)
	h.fresh(src, h.clientV2(src, k.alias))
	version, ph := h.proofPlan(src, h.clientV2(src, k.alias), mutProof && w.r.Chance(2, 3))
	key := w.kAck2(q.DestinationClient, q.Sequence)
	if mutProof && w.r.Chance(1, 3) {
		key = w.kCommit2(q.SourceClient, q.Sequence)
	}
	proof, pd := w.proofOf(1-src, key, version)
	if mutProof && w.r.Chance(1, 6) {
		proof, pd = w.garbage()
	}
	msg := channeltypesv2.NewMsgAcknowledgement(q, channeltypesv2.Acknowledgement{AppAcknowledgements: acks}, proof, ph, w.signer(src))
	op := map[string]any{"k": "ack2", "q": w.p2desc(q), "acks": ackIDs, "ph": hj(ph), "proof": pd, "relayer": 7}
	run := func() {
		out, _ := w.tx(src, op, respIsNoop, msg)
		if out == "ok" {
			k.done = true
		}
	}
	run()
	h.replay = append(h.replay, run)
}

func (h *hist) timeout2(k *pkt2, mutate bool) {
	w := h.w
	src := k.src
	q := k.q
	mutProof := false
	if mutate {
		if w.r.Bool() {
			q = h.mutate2(q)
		} else {
			mutProof = true
		}
	}
	h.fresh(src, h.clientV2(src, k.alias))
	version, ph := h.proofPlan(src, h.clientV2(src, k.alias), mutProof && w.r.Chance(2, 3))
	key := w.kRcpt2(q.DestinationClient, q.Sequence)
	if mutProof && w.r.Chance(1, 3) {
		// a proof for another key, which must exist on the counterparty (see timeout1): its v1 channel end
		ce := w.ep(w.pU, 1-src)
		key = w.kChan(ce.ChannelConfig.PortID, ce.ChannelID)
	}
	proof, pd := w.proofOf(1-src, key, version)
	if mutProof && w.r.Chance(1, 6) {
		proof, pd = w.garbage()
	}
	msg := channeltypesv2.NewMsgTimeout(q, proof, ph, w.signer(src))
	op := map[string]any{"k": "timeout2", "q": w.p2desc(q), "ph": hj(ph), "proof": pd, "relayer": 7}
	run := func() {
		out, _ := w.tx(src, op, respIsNoop, msg)
		if out == "ok" {
			k.done = true
		}
	}
	run()
	h.replay = append(h.replay, run)
}

func (h *hist) asyncAck2(k *pkt2) {
	w := h.w
	dst := 1 - k.src
	var acks [][]byte
	switch w.r.Intn(5) {
	case 0:
		acks = [][]byte{sentinelBytes()}
	case 1:
		acks = [][]byte{}
	case 2:
		acks = [][]byte{[]byte("a"), []byte("b")}
	default:
		acks = [][]byte{[]byte("async-ack-2")}
	}
	ids := w.noteAck2(acks)
	seq := k.q.Sequence
	if w.r.Chance(1, 8) {
		seq++
	}
	op := map[string]any{"k": "asyncack2", "id": w.ids.id(k.q.DestinationClient), "seq": hx.U(seq), "acks": ids}
	out := w.direct(dst, op, func(ctx sdk.Context) error {
		return w.ch[dst].App.GetIBCKeeper().ChannelKeeperV2.WriteAcknowledgement(ctx, k.q.DestinationClient, seq, channeltypesv2.Acknowledgement{AppAcknowledgements: acks})
	})
	if out == "ok" {
		k.acks = acks
		k.async = false
	}
}

// ---------------------------------------------------------------------------------------------
// one history

func runHistory(w *W, nops int, histIndex int) {
	h := &hist{w: w}
	r := w.r
	frozen := false
	for i := 0; i < nops; i++ {
		if i == 4 {
			h.directedV2(histIndex)
		}
		if i == 2 && histIndex%3 == 0 {
			h.directedOrdered(histIndex / 3)
		}
		if i == 6 && histIndex%3 == 1 {
			h.directedTimeout2(histIndex / 3)
		}
		if i == 6 && histIndex%3 == 2 {
			h.directedStaleTimeout1(histIndex / 3)
		}
		if i == 9 && histIndex%2 == 0 {
			h.directedBoundary(histIndex / 2)
		}

		if r.Chance(1, 7) {
			h.lhOp()
			continue
		}
		x := r.Intn(100)
		switch {
		case x < 22: // send
			src := r.Intn(2)
			switch r.Intn(5) {
			case 0:
				h.send1(src, true)
			case 1, 2:
				h.send1(src, false)
			case 3:
				h.send2(src, false)
			default:
				h.send2(src, true)
			}
		case x < 50: // receive
			mut := r.Chance(1, 4)
			if r.Bool() && len(h.p1) > 0 {
				h.recv1(h.pick1(func(k *pkt1) bool { return !k.recvd }), mut)
			} else if len(h.p2) > 0 {
				h.recv2(h.pick2(func(k *pkt2) bool { return !k.recvd }), mut)
			}
		case x < 66: // acknowledge
			mut := r.Chance(1, 4)
			if r.Bool() && len(h.p1) > 0 {
				h.ack1(h.pick1(func(k *pkt1) bool { return k.recvd && k.ack != nil && !k.done }), mut)
			} else if len(h.p2) > 0 {
				h.ack2(h.pick2(func(k *pkt2) bool { return k.recvd && k.acks != nil && !k.done }), mut)
			}
		case x < 78: // timeout
			mut := r.Chance(1, 4)
			if r.Bool() && len(h.p1) > 0 {
				h.timeout1(h.pick1(func(k *pkt1) bool { return !k.recvd && !k.done }), mut, r.Chance(1, 6))
			} else if len(h.p2) > 0 {
				h.timeout2(h.pick2(func(k *pkt2) bool { return !k.recvd && !k.done }), mut)
			}
		case x < 84: // client update
			ci := r.Intn(2)
			if r.Bool() {
				w.updateClient(ci, w.ep(w.pU, ci).ClientID)
			} else {
				w.updateClient(ci, w.ep(w.pV, ci).ClientID)
			}
		case x < 88: // time passes
			if r.Chance(1, 12) {
				w.coord.IncrementTimeBy(15 * 24 * time.Hour) // beyond the trusting period
			} else {
				w.coord.IncrementTimeBy(time.Duration(1+r.Intn(30)) * time.Second)
			}
			w.emptyBlock(r.Intn(2))
		case x < 92: // asynchronous acknowledgements
			if r.Bool() && len(h.p1) > 0 {
				h.asyncAck1(h.pick1(func(k *pkt1) bool { return k.recvd && k.ack == nil }))
			} else if len(h.p2) > 0 {
				h.asyncAck2(h.pick2(func(k *pkt2) bool { return k.async }))
			}
		case x < 97: // duplicate of an earlier relay message
			if len(h.replay) > 0 {
				h.replay[r.Intn(len(h.replay))]()
			}
		case x < 98:
			if i > nops/2 && !frozen {
				ci := r.Intn(2)
				w.freeze(ci, w.ep(w.pU, ci).ClientID)
				frozen = true
			}
		default:
			if i > nops/3 {
				h.closeChan(r.Intn(2), r.Bool())
			}
		}
	}
}

// fresh updates the client the coming relay will be verified with (most of the time), like a relayer
// about to submit a proof.
func (h *hist) fresh(ci int, clientID string) {
	if h.w.r.Chance(3, 4) {
		h.w.updateClient(ci, clientID)
	}
}

func (h *hist) pick1(pref func(*pkt1) bool) *pkt1 {
	var c, all []*pkt1
	for _, k := range h.p1 {
		if k.loop {
			continue
		}
		all = append(all, k)
		if pref(k) {
			c = append(c, k)
		}
	}
	if len(c) > 0 && h.w.r.Chance(4, 5) {
		return c[h.w.r.Intn(len(c))]
	}
	if len(all) == 0 {
		return nil
	}
	return all[h.w.r.Intn(len(all))]
}

func (h *hist) pick2(pref func(*pkt2) bool) *pkt2 {
	var c []*pkt2
	for _, k := range h.p2 {
		if pref(k) {
			c = append(c, k)
		}
	}
	if len(c) > 0 && h.w.r.Chance(4, 5) {
		return c[h.w.r.Intn(len(c))]
	}
	return h.p2[h.w.r.Intn(len(h.p2))]
}

var _ = fmt.Sprintf

// ---------------------------------------------------------------------------------------------
// localhost (loopback) channels: both ends live on the same chain, proofs are the sentinel

func (h *hist) lhProof(ci int, mutate bool) ([]byte, map[string]any, clienttypes.Height) {
	w := h.w
	self, _ := w.begin(ci)
	ph := clienttypes.ZeroHeight()
	switch w.r.Intn(6) {
	case 0:
		ph = self
	case 1:
		ph = clienttypes.NewHeight(self.RevisionNumber, self.RevisionHeight+1)
	case 2:
		ph = clienttypes.NewHeight(self.RevisionNumber, self.RevisionHeight+5000)
	case 3:
		ph = clienttypes.NewHeight(self.RevisionNumber+1, 1)
	case 4:
		ph = clienttypes.NewHeight(self.RevisionNumber, self.RevisionHeight-1)
	}
	if mutate && w.r.Chance(1, 3) {
		p, d := w.garbage()
		return p, d, ph
	}
	return localhost.SentinelProof, map[string]any{"tag": "sentinel"}, ph
}

func (h *hist) lhSend(ci int, ordered bool) {
	w := h.w
	o := 0
	if ordered {
		o = 1
	}
	end := w.r.Intn(2)
	ch, cp := w.lhChan[ci][o][end], w.lhChan[ci][o][1-end]
	self, now := w.begin(ci)
	var th clienttypes.Height
	var tt uint64
	switch w.r.Intn(6) {
	case 0:
		th = clienttypes.NewHeight(self.RevisionNumber, self.RevisionHeight+uint64(1+w.r.Intn(4)))
	case 1:
		tt = now + uint64(1+w.r.Intn(20))*uint64(time.Second)
	case 2:
		th = clienttypes.NewHeight(self.RevisionNumber, self.RevisionHeight+1000)
		tt = now + uint64(5*time.Second)
	default:
		th = clienttypes.NewHeight(self.RevisionNumber, self.RevisionHeight+1000)
	}
	data := []byte(h.pickData())
	port := ibctesting.MockPort
	var seq uint64
	w.p1desc(channeltypes.NewPacket(data, 1, port, ch, port, cp, th, tt))
	op := map[string]any{"k": "send1", "port": w.ids.id(port), "chan": w.ids.id(ch), "th": hj(th), "tt": hx.U(tt), "data": w.dataID(data)}
	out := w.direct(ci, op, func(ctx sdk.Context) error {
		var err error
		seq, err = w.ch[ci].App.GetIBCKeeper().ChannelKeeper.SendPacket(ctx, port, ch, th, tt, data)
		return err
	})
	if out == "ok" {
		p := channeltypes.NewPacket(data, seq, port, ch, port, cp, th, tt)
		h.p1 = append(h.p1, &pkt1{loop: true, src: ci, p: p, ord: ordered})
		if seq > w.maxSeq {
			w.maxSeq = seq
		}
		w.steps[len(w.steps)-1]["ret_seq"] = hx.U(seq)
	}
}

func (h *hist) lhRelay(k *pkt1, what string, mutate bool) {
	w := h.w
	ci := k.src
	p := k.p
	if mutate && w.r.Bool() {
		p = h.mutate1(p)
	}
	proof, pd, ph := h.lhProof(ci, mutate)
	signer := w.signer(ci)
	var msg sdk.Msg
	var op map[string]any
	switch what {
	case "recv":
		w.noteAck1(w.script[string(p.Data)].Ack)
		msg = channeltypes.NewMsgRecvPacket(p, proof, ph, signer)
		op = map[string]any{"k": "recv1", "p": w.p1desc(p), "ph": hj(ph), "proof": pd, "relayer": 7}
	case "ack":
		ack := k.ack
		if ack == nil || (mutate && w.r.Chance(1, 3)) {
			ack = []byte("forged-ack")
		}
		w.noteAck1(ack)
		msg = channeltypes.NewMsgAcknowledgement(p, ack, proof, ph, signer)
		op = map[string]any{"k": "ack1", "p": w.p1desc(p), "ack": w.ackID(ack), "noncanon": false, "ph": hj(ph), "proof": pd, "relayer": 7}
	default:
		nsr := uint64(1)
		if k.ord {
			if n, ok := w.ch[ci].App.GetIBCKeeper().ChannelKeeper.GetNextSequenceRecv(w.ch[ci].GetContext(), p.DestinationPort, p.DestinationChannel); ok {
				nsr = n
			}
		}
		msg = channeltypes.NewMsgTimeout(p, nsr, proof, ph, signer)
		op = map[string]any{"k": "timeout1", "p": w.p1desc(p), "ph": hj(ph), "nsr": hx.U(nsr), "proof": pd, "relayer": 7}
	}
	run := func() {
		out, _ := w.tx(ci, op, respIsNoop, msg)
		if out == "ok" {
			switch what {
			case "recv":
				k.recvd = true
				if b := w.script[string(p.Data)]; b.Recv != "async" {
					k.ack = b.Ack
				}
			default:
				k.done = true
			}
		}
	}
	run()
	h.replay = append(h.replay, run)
}

func (h *hist) pickLoop(pref func(*pkt1) bool) *pkt1 {
	var all, c []*pkt1
	for _, k := range h.p1 {
		if k.loop {
			all = append(all, k)
			if pref(k) {
				c = append(c, k)
			}
		}
	}
	if len(c) > 0 && h.w.r.Chance(4, 5) {
		return c[h.w.r.Intn(len(c))]
	}
	if len(all) == 0 {
		return nil
	}
	return all[h.w.r.Intn(len(all))]
}

// lhOp performs one random loopback operation.
func (h *hist) lhOp() {
	w := h.w
	switch x := w.r.Intn(10); {
	case x < 3:
		h.lhSend(w.r.Intn(2), w.r.Chance(1, 3))
	case x < 6:
		if k := h.pickLoop(func(k *pkt1) bool { return !k.recvd && !k.done }); k != nil {
			h.lhRelay(k, "recv", w.r.Chance(1, 4))
		}
	case x < 8:
		if k := h.pickLoop(func(k *pkt1) bool { return k.recvd && k.ack != nil && !k.done }); k != nil {
			h.lhRelay(k, "ack", w.r.Chance(1, 4))
		}
	default:
		if k := h.pickLoop(func(k *pkt1) bool { return !k.recvd && !k.done }); k != nil {
			h.lhRelay(k, "timeout", w.r.Chance(1, 5))
		}
	}
}

// directed multi-payload vectors: every history sends and honestly relays one v2 packet whose payload
// behaviours follow one of these vectors (cycled by history index), so that each position/behaviour
// combination of the multi-payload receive loop is exercised in every run.
var v2Vectors = [][]string{
	{"d-async", "d-ok1"}, {"d-ok1", "d-async"}, {"d-async", "d-ok2", "d-raw"}, {"d-err", "d-ok1"}, {"d-ok1", "d-err"},
	{"d-ok1", "d-ok2", "d-sent"}, {"d-sent", "d-ok1"}, {"d-ok1", "d-raw", "d-ok2", "d-ok1"}, {"d-cbfail", "d-ok1"},
	{"d-ok2", "d-err0", "d-async"}, {"d-async"}, {"d-err"}, {"d-emptyack", "d-ok1"},
}

// directedTimeout2: a single-payload v2 packet (over the channel alias or over the v2 client) whose timeout is a few
// seconds ahead; time passes on both chains, the timeout is relayed honestly, then relayed AGAIN, then a late receive is
// attempted: one terminal outcome only (C03), the commitment is gone after the first timeout, nothing is received (C04).
func (h *hist) directedTimeout2(idx int) {
	w := h.w
	src := idx % 2
	alias := (idx/2)%2 == 0
	var id, cp string
	if alias {
		id, cp = w.ep(w.pU, src).ChannelID, w.ep(w.pU, 1-src).ChannelID
	} else {
		id, cp = w.ep(w.pV, src).ClientID, w.ep(w.pV, 1-src).ClientID
	}
	_, t := w.begin(src)
	tt := t/1e9 + 6
	y := channeltypesv2.NewPayload(mockv2.PortIDA, mockv2.PortIDB, "v1", "json", []byte("d-ok1"))
	pays := []channeltypesv2.Payload{y}
	pd := []any{w.paydesc(y)}
	w.p2desc(channeltypesv2.NewPacket(1, id, cp, tt, pays...))
	msg := channeltypesv2.NewMsgSendPacket(id, tt, w.ch[src].SenderAccount.GetAddress().String(), pays...)
	out, res := w.tx(src, map[string]any{"k": "send2", "src": w.ids.id(id), "tt": hx.U(tt), "pay": pd, "signer": 7}, nil, msg)
	if out != "ok" {
		return
	}
	seq := sendSeq(res)
	q := channeltypesv2.NewPacket(seq, id, cp, tt, pays...)
	w.p2desc(q)
	k := &pkt2{src: src, q: q, alias: alias}
	h.p2 = append(h.p2, k)
	if seq > w.maxSeq {
		w.maxSeq = seq
	}
	w.steps[len(w.steps)-1]["ret_seq"] = hx.U(seq)
	w.coord.IncrementTimeBy(30 * time.Second)
	w.emptyBlock(1 - src)
	w.emptyBlock(src)
	h.timeout2(k, false)
	h.timeout2(k, false)
	h.recv2(k, false)
}

// directedStaleTimeout1: a v1 UNORDERED packet with a timestamp timeout; the source's client learns a destination height
// H1 at which the timeout has not passed and the packet is not yet received; the destination then receives the packet
// in time; later its clock passes the timeout and the client is updated again; MsgTimeout with the (true) absence proof
// of the stale version H1 must be refused, because the timeout had not elapsed at the proof height (C04).
func (h *hist) directedStaleTimeout1(idx int) {
	w := h.w
	src := idx % 2
	dst := 1 - src
	e := w.ep(w.pU, src)
	_, dt := w.begin(dst)
	tt := dt + uint64(40*time.Second)
	k := h.send1With(src, false, e, e.ChannelConfig.PortID, e.ChannelID, clienttypes.ZeroHeight(), tt, []byte("d-ok1"))
	if k == nil {
		return
	}
	w.emptyBlock(dst)
	w.updateClient(src, h.clientV1(src))
	staleVersion := int64(w.latestCons(src, h.clientV1(src))) - 1
	stalePH := clienttypes.NewHeight(clienttypes.ParseChainID(w.ch[dst].ChainID), uint64(staleVersion+1))
	h.recv1(k, false)
	w.coord.IncrementTimeBy(90 * time.Second)
	w.emptyBlock(dst)
	w.emptyBlock(src)
	w.updateClient(src, h.clientV1(src))
	p := k.p
	proof, pd := w.proofOf(dst, w.kRcpt1(p.DestinationPort, p.DestinationChannel, p.Sequence), staleVersion)
	msg := channeltypes.NewMsgTimeout(p, 1, proof, stalePH, w.signer(src))
	op := map[string]any{"k": "timeout1", "p": w.p1desc(p), "ph": hj(stalePH), "nsr": hx.U(1), "proof": pd, "relayer": 7}
	if out, _ := w.tx(src, op, respIsNoop, msg); out == "ok" {
		k.done = true
	}
}

// directedBoundary: a packet whose timeout equals the destination's block time at the moment of the receive, to the
// second (v2) / nanosecond (v1): the receive must be refused (timeout reached: >=), and one block earlier it is accepted
// for the twin packet.  The coordinator advances time by whole seconds and every chain's next block carries the
// coordinator's time, so empty blocks steer the destination exactly onto the timeout.
func (h *hist) directedBoundary(idx int) {
	w := h.w
	src := idx % 2
	dst := 1 - src
	v2 := (idx/2)%2 == 0
	_, t0 := w.begin(dst)
	target := t0 + uint64(60*time.Second) // block time (ns) at which the receive will be attempted
	steer := func() bool {
		for {
			_, t := w.begin(dst)
			if t == target {
				return true
			}
			if t > target {
				return false
			}
			w.emptyBlock(dst)
		}
	}
	if v2 {
		id, cp := w.ep(w.pV, src).ClientID, w.ep(w.pV, dst).ClientID
		tt := target / 1e9
		y := channeltypesv2.NewPayload(mockv2.PortIDA, mockv2.PortIDB, "v1", "json", []byte("d-ok1"))
		pays := []channeltypesv2.Payload{y}
		w.p2desc(channeltypesv2.NewPacket(1, id, cp, tt, pays...))
		msg := channeltypesv2.NewMsgSendPacket(id, tt, w.ch[src].SenderAccount.GetAddress().String(), pays...)
		out, res := w.tx(src, map[string]any{"k": "send2", "src": w.ids.id(id), "tt": hx.U(tt), "pay": []any{w.paydesc(y)}, "signer": 7}, nil, msg)
		if out != "ok" {
			return
		}
		seq := sendSeq(res)
		q := channeltypesv2.NewPacket(seq, id, cp, tt, pays...)
		w.p2desc(q)
		k := &pkt2{src: src, q: q}
		h.p2 = append(h.p2, k)
		if seq > w.maxSeq {
			w.maxSeq = seq
		}
		w.steps[len(w.steps)-1]["ret_seq"] = hx.U(seq)
		w.updateClient(dst, h.clientV2(dst, false))
		if !steer() {
			return
		}
		version, ph := h.proofPlan(dst, h.clientV2(dst, false), false)
		proof, pd := w.proofOf(src, w.kCommit2(q.SourceClient, q.Sequence), version)
		rmsg := channeltypesv2.NewMsgRecvPacket(q, proof, ph, w.signer(dst))
		w.noteAck2([][]byte{w.script["d-ok1"].Ack})
		op := map[string]any{"k": "recv2", "q": w.p2desc(q), "ph": hj(ph), "proof": pd, "relayer": 7}
		if out, _ := w.tx(dst, op, respIsNoop, rmsg); out == "ok" {
			k.recvd = true
			k.acks = [][]byte{w.script["d-ok1"].Ack}
		}
		return
	}
	e := w.ep(w.pU, src)
	k := h.send1With(src, false, e, e.ChannelConfig.PortID, e.ChannelID, clienttypes.ZeroHeight(), target, []byte("d-ok1"))
	if k == nil {
		return
	}
	w.updateClient(dst, h.clientV1(dst))
	if !steer() {
		return
	}
	p := k.p
	version, ph := h.proofPlan(dst, h.clientV1(dst), false)
	proof, pd := w.proofOf(src, w.kCommit1(p.SourcePort, p.SourceChannel, p.Sequence), version)
	rmsg := channeltypes.NewMsgRecvPacket(p, proof, ph, w.signer(dst))
	w.noteAck1(w.script["d-ok1"].Ack)
	op := map[string]any{"k": "recv1", "p": w.p1desc(p), "ph": hj(ph), "proof": pd, "relayer": 7}
	if out, _ := w.tx(dst, op, respIsNoop, rmsg); out == "ok" {
		k.recvd = true
		k.ack = w.script["d-ok1"].Ack
	}
}

// sendGuardVectors: the real keeper's v2 SendPacket on a throw-away context whose block time lags (or leads) the latest
// consensus timestamp T the sender's light client holds — clock skew that the shared clock of the two-chain history
// cannot produce.  One record per (block time, timeout): timeouts around T (already reached on the counterparty as far
// as the client knows: >=), around the block time (must be after it) and around the 24 h maximum.
func sendGuardVectors(w *W, o *hx.Out) {
	for src := 0; src < 2; src++ {
		id := w.ep(w.pV, src).ClientID
		T := w.latestConsTime(src, id)
		if T == 0 {
			continue
		}
		ts := T / 1e9
		type vec struct {
			bt  uint64
			tts []uint64
			tag string
		}
		lag := T - uint64(30*time.Second)
		lead := T + uint64(45*time.Second)
		vecs := []vec{
			{lag, []uint64{ts - 1, ts, ts + 1, ts + 2}, "client-time-boundary"},
			{lag, []uint64{lag/1e9 - 1, lag / 1e9, lag/1e9 + 1}, "block-time-boundary/lagging"},
			{lead, []uint64{lead/1e9 - 1, lead / 1e9, lead/1e9 + 1, ts, ts + 1}, "block-time-boundary/leading"},
			{lead, []uint64{lead/1e9 + 86399, lead/1e9 + 86400, lead/1e9 + 86401}, "max-delta-boundary"},
		}
		for _, v := range vecs {
			for _, tt := range v.tts {
				y := channeltypesv2.NewPayload(mockv2.PortIDA, mockv2.PortIDB, "v1", "json", []byte("d-ok1"))
				msg := channeltypesv2.NewMsgSendPacket(id, tt, w.ch[src].SenderAccount.GetAddress().String(), y)
				ctx, _ := w.ch[src].GetContext().WithBlockTime(time.Unix(0, int64(v.bt)).UTC()).CacheContext()
				accepted := false
				panicked, _ := hx.Catch(func() {
					_, err := w.ch[src].App.GetIBCKeeper().ChannelKeeperV2.SendPacket(ctx, msg)
					accepted = err == nil
				})
				o.Emit("send2guard", map[string]any{"bt": hx.U(v.bt), "tt": hx.U(tt), "lts": hx.U(T)}, map[string]any{"accepted": accepted, "panic": panicked}, v.tag)
			}
		}
	}
}

func (h *hist) directedV2(idx int) {
	w := h.w
	vec := v2Vectors[idx%len(v2Vectors)]
	src := idx % 2
	alias := (idx/2)%2 == 0
	var id, cp string
	if alias {
		id, cp = w.ep(w.pU, src).ChannelID, w.ep(w.pU, 1-src).ChannelID
	} else {
		id, cp = w.ep(w.pV, src).ClientID, w.ep(w.pV, 1-src).ClientID
	}
	_, t := w.begin(src)
	tt := t/1e9 + 3600
	var pays []channeltypesv2.Payload
	pd := []any{}
	for _, v := range vec {
		y := channeltypesv2.NewPayload(mockv2.PortIDA, mockv2.PortIDB, "v1", "json", []byte(v))
		pays = append(pays, y)
		pd = append(pd, w.paydesc(y))
	}
	w.p2desc(channeltypesv2.NewPacket(1, id, cp, tt, pays...))
	msg := channeltypesv2.NewMsgSendPacket(id, tt, w.ch[src].SenderAccount.GetAddress().String(), pays...)
	out, res := w.tx(src, map[string]any{"k": "send2", "src": w.ids.id(id), "tt": hx.U(tt), "pay": pd, "signer": 7}, nil, msg)
	if out != "ok" {
		return
	}
	seq := sendSeq(res)
	q := channeltypesv2.NewPacket(seq, id, cp, tt, pays...)
	w.p2desc(q)
	k := &pkt2{src: src, q: q, alias: alias}
	h.p2 = append(h.p2, k)
	if seq > w.maxSeq {
		w.maxSeq = seq
	}
	w.steps[len(w.steps)-1]["ret_seq"] = hx.U(seq)
	// honest relay: make sure the destination's client knows the committed state, then receive
	w.updateClient(1-src, h.clientV2(1-src, alias))
	h.recv2(k, false)
}
