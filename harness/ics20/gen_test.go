package ics20

import (
	"strconv"
	"strings"
	"testing"
	"time"

	transfertypes "github.com/cosmos/ibc-go/v11/modules/apps/transfer/types"
	clienttypes "github.com/cosmos/ibc-go/v11/modules/core/02-client/types"
	channeltypes "github.com/cosmos/ibc-go/v11/modules/core/04-channel/types"

	"verif/harness/hx"
)

var modes = []string{"basic", "reorder-dup", "errack", "timeout", "multihop", "alias", "authfail", "f5a", "random"}

// TestFamily writes the trace of the `ics20` scenario family.
func TestFamily(t *testing.T) {
	r := hx.NewRng("ics20")
	o := hx.NewOut()
	defer o.Close()
	t0 := time.Now()
	var setup time.Duration
	nh := hx.N(40, 600)
	nops := 0
	for i := 0; i < nh; i++ {
		mode := modes[i%len(modes)]
		s0 := time.Now()
		h := newHist(t, r, mode == "f5a")
		setup += time.Since(s0)
		switch mode {
		case "basic":
			h.genBasic()
		case "reorder-dup":
			h.genReorder()
		case "errack":
			h.genErrack()
		case "timeout":
			h.genTimeout()
		case "multihop":
			h.genMultihop()
		case "alias":
			h.genAlias()
		case "authfail":
			h.genAuthfail()
		case "f5a":
			h.genF5a()
		default:
			h.genRandom()
		}
		nops += len(h.ops)
		h.emit(o, mode)
	}
	t.Logf("stats: %v", stats)
	t.Logf("hist: %d histories, %d ops, %v total of which setup %v", nh, nops, time.Since(t0), setup)
	famExtract(r, o)
	famIDFmt(r, o)
	t.Logf("records=%d elapsed=%v", o.Count(), time.Since(t0))
}

// ---------------------------------------------------------------- small pickers

func (h *hist) small() string { return strconv.Itoa(1 + h.r.Intn(500)) }
func (h *hist) over(c int, a acct, cn coin) string {
	return h.bal(c, a, cn.denom).AddRaw(int64(1 + h.r.Intn(5))).String()
}
func (h *hist) route() (c int, chanID string, dst int) {
	l := h.links[h.r.Intn(3)]
	if h.r.Bool() {
		return l.ca, l.cha, l.cb
	}
	return l.cb, l.chb, l.ca
}
func (h *hist) native(c int) coin { return h.coinOf(c, h.r.Pick(h.nat[c])) }
func (h *hist) tok(c int) coin    { return h.coinOf(c, h.nat[c][1]) }
func (h *hist) funded(c int) acct { return h.U(perCh*c + h.r.Intn(3)) }
func (h *hist) local(c int) acct  { return h.U(perCh*c + h.r.Intn(perCh)) }
func (h *hist) rcvUser(d int) acct {
	if h.r.Chance(1, 5) {
		return h.U(h.r.Intn(nUsers))
	}
	return h.local(d)
}
func (h *hist) badRcv(dst int) addrS {
	switch h.r.Intn(5) {
	case 0:
		return addrOK(h.MB())
	case 1:
		return addrOK(h.MT())
	default:
		return h.addrBad(h.r.Intn(3))
	}
}
func (h *hist) anyTmo() tmo { return tmo{short: h.r.Chance(1, 3), ts: h.r.Bool()} }

// xfer is a well-formed transfer signed by its sender.
func (h *hist) xfer(c int, chanID string, from acct, cn coin, amt string, rcv addrS, alias bool, tm tmo) int {
	return h.opTransfer(c, from, chanID, cn, amt, addrOK(from), rcv, alias, tm)
}

func (h *hist) relay(k int) {
	if k < 0 {
		return
	}
	h.opRecv(k, h.r.Bool(), false)
	h.opAck(k, h.r.Bool())
}

// voucherAfter names the voucher chain dst holds after receiving `cn` over dstChan.
func (h *hist) voucherAfter(dst int, dstChan string, cn coin) coin {
	d := transfertypes.ExtractDenomFromPath("transfer/" + dstChan + "/" + cn.path)
	return h.coinOf(dst, d.IBCDenom())
}

// fetchVoucher moves a native token c -> dst and returns the holder and voucher on dst.
func (h *hist) fetchVoucher(c int, chanID string, dst int, alias bool) (acct, coin, bool) {
	holder := h.funded(dst)
	cn := h.tok(c)
	if h.r.Chance(1, 3) {
		cn = h.coinOf(c, "ufoo")
	}
	k := h.xfer(c, chanID, h.funded(c), cn, strconv.Itoa(200+h.r.Intn(300)), addrOK(holder), alias, tmo{})
	if k < 0 {
		return holder, cn, false
	}
	out := h.opRecv(k, h.r.Bool(), false)
	h.opAck(k, h.r.Bool())
	_, dstChan, _, _ := h.peer(c, chanID)
	return holder, h.voucherAfter(dst, dstChan, cn), out == "ok"
}

// ---------------------------------------------------------------- modes

func (h *hist) genBasic() {
	n := 1 + h.r.Intn(6)
	for i := 0; i < n; i++ {
		c, id, dst := h.route()
		k := h.xfer(c, id, h.funded(c), h.native(c), h.small(), addrOK(h.rcvUser(dst)), false, tmo{})
		h.relay(k)
	}
}

func (h *hist) genReorder() {
	var ks []int
	n := 3 + h.r.Intn(4)
	for i := 0; i < n; i++ {
		c, id, dst := h.route()
		if k := h.xfer(c, id, h.funded(c), h.native(c), h.small(), addrOK(h.rcvUser(dst)), h.r.Chance(1, 4), tmo{ts: h.r.Bool()}); k >= 0 {
			ks = append(ks, k)
		}
	}
	if len(ks) == 0 {
		return
	}
	type act struct{ kind, k int }
	var acts []act
	for _, k := range ks {
		acts = append(acts, act{0, k}, act{1, k})
	}
	for i := 0; i < 3+h.r.Intn(5); i++ {
		acts = append(acts, act{h.r.Intn(3), ks[h.r.Intn(len(ks))]})
	}
	for i := len(acts) - 1; i > 0; i-- {
		j := h.r.Intn(i + 1)
		acts[i], acts[j] = acts[j], acts[i]
	}
	for _, a := range acts {
		switch a.kind {
		case 0:
			h.opRecv(a.k, h.r.Bool(), false)
		case 1:
			h.opAck(a.k, h.r.Bool())
		default:
			h.opTimeout(a.k, h.r.Bool(), false)
		}
	}
	for _, k := range ks { // finish what the shuffle left open
		if h.pkts[k].recv == 0 {
			h.opRecv(k, h.r.Bool(), false)
		}
		if h.committed(h.pkts[k]) {
			h.opAck(k, h.r.Bool())
		}
	}
}

func (h *hist) genErrack() {
	n := 2 + h.r.Intn(3)
	for i := 0; i < n && !h.full(); i++ {
		c, id, dst := h.route()
		from, cn := h.funded(c), h.native(c)
		alias := h.r.Chance(1, 4)
		if alias {
			cn = h.tok(c)
		}
		if h.r.Chance(1, 3) { // voucher going home: burn, then refund by mint
			_, backChan, _, _ := h.peer(c, id)
			holder, v, ok := h.fetchVoucher(dst, backChan, c, false)
			if !ok {
				continue
			}
			from, cn = holder, v
		}
		switch h.r.Intn(3) {
		case 0: // receive disabled on the destination
			h.opParams(dst, true, false)
			k := h.xfer(c, id, from, cn, h.small(), addrOK(h.rcvUser(dst)), alias, tmo{})
			if k >= 0 {
				h.opRecv(k, h.r.Bool(), false)
			}
			h.opParams(dst, true, true)
			if k >= 0 {
				h.opAck(k, h.r.Bool())
				if h.r.Chance(1, 3) {
					h.opAck(k, h.r.Bool())
				}
			}
		default:
			k := h.xfer(c, id, from, cn, h.small(), h.badRcv(dst), alias, tmo{})
			h.relay(k)
		}
	}
}

func (h *hist) genTimeout() {
	n := 2 + h.r.Intn(3)
	for i := 0; i < n && !h.full(); i++ {
		c, id, dst := h.route()
		from, cn := h.funded(c), h.native(c)
		alias := h.r.Chance(1, 5)
		if alias {
			cn = h.tok(c)
		}
		if h.r.Chance(1, 4) {
			_, backChan, _, _ := h.peer(c, id)
			holder, v, ok := h.fetchVoucher(dst, backChan, c, false)
			if !ok {
				continue
			}
			from, cn = holder, v
		}
		k := h.xfer(c, id, from, cn, h.small(), addrOK(h.rcvUser(dst)), alias, tmo{short: true, ts: h.r.Bool()})
		if k < 0 {
			continue
		}
		switch h.r.Intn(4) {
		case 0:
			h.opTimeout(k, h.r.Bool(), false) // premature
			h.opRecv(k, h.r.Bool(), true)     // late
			h.opTimeout(k, h.r.Bool(), true)
			h.opTimeout(k, h.r.Bool(), true) // duplicate
			h.opAck(k, h.r.Bool())
		case 1:
			h.opRecv(k, h.r.Bool(), false)
			h.opTimeout(k, h.r.Bool(), true) // already received
			h.opAck(k, h.r.Bool())
		case 2:
			h.opTimeout(k, h.r.Bool(), true)
			h.opRecv(k, h.r.Bool(), true)
		default:
			h.opTimeout(k, h.r.Bool(), false)
			h.opRecv(k, h.r.Bool(), false)
			h.opAck(k, h.r.Bool())
			h.opTimeout(k, h.r.Bool(), true)
		}
	}
}

func (h *hist) genMultihop() {
	s, dir := h.r.Intn(3), 1+h.r.Intn(2) // dir 1: s,s+1,s+2   dir 2: s,s+2,s+1
	order := []int{s, (s + dir) % 3, (s + 2*dir) % 3, s, (s + 2*dir) % 3, (s + dir) % 3, s}
	holder := h.funded(s)
	cn := h.tok(s)
	amt := 100 + h.r.Intn(400)
	for i := 0; i+1 < len(order) && !h.full(); i++ {
		c, d := order[i], order[i+1]
		id := h.chanTo(c, d)
		_, dstChan, _, _ := h.peer(c, id)
		next := h.funded(d)
		if i > 0 && h.r.Chance(1, 3) { // a failing attempt first
			if h.r.Bool() {
				k := h.xfer(c, id, holder, cn, strconv.Itoa(1+h.r.Intn(amt)), h.badRcv(d), false, tmo{})
				h.relay(k)
			} else if k := h.xfer(c, id, holder, cn, strconv.Itoa(1+h.r.Intn(amt)), addrOK(next), false, tmo{short: true, ts: h.r.Bool()}); k >= 0 {
				h.opTimeout(k, h.r.Bool(), true)
			}
		}
		k := h.xfer(c, id, holder, cn, strconv.Itoa(amt), addrOK(next), false, tmo{})
		if k < 0 || h.opRecv(k, h.r.Bool(), false) != "ok" {
			return
		}
		h.opAck(k, h.r.Bool())
		if i < 3 {
			cn = h.voucherAfter(d, dstChan, cn)
		} else { // unwinding strips the hop
			cn = h.coinOf(d, transfertypes.ExtractDenomFromPath(strings.TrimPrefix(cn.path, "transfer/"+id+"/")).IBCDenom())
		}
		holder = next
		if amt > 3 {
			amt -= h.r.Intn(amt / 3)
		}
	}
}

func (h *hist) genAlias() {
	c, id, dst := h.route()
	_, dstChan, _, _ := h.peer(c, id)
	n := 5 + h.r.Intn(5)
	for i := 0; i < n && !h.full(); i++ {
		from := h.funded(c)
		switch h.r.Intn(9) {
		case 0:
			h.relay(h.xfer(c, id, from, h.native(c), h.small(), addrOK(h.rcvUser(dst)), false, tmo{}))
		case 1:
			h.relay(h.xfer(c, id, from, h.tok(c), h.small(), addrOK(h.rcvUser(dst)), true, tmo{}))
		case 2: // voucher home through the alias (or v1)
			holder, v, ok := h.fetchVoucher(c, id, dst, h.r.Bool())
			if ok {
				h.relay(h.xfer(dst, dstChan, holder, v, h.small(), addrOK(h.rcvUser(c)), h.r.Chance(2, 3), tmo{}))
			}
		case 3: // direct MsgSendPacket, payload sender == signer
			cn := h.tok(c)
			h.relay(h.opSendV2(c, from, id, cn.path, h.small(), addrOK(from), addrOK(h.rcvUser(dst)), tmo{}))
		case 4: // payload sender != signer
			other := h.U(perCh*c + (from.user+1)%3)
			if h.r.Chance(1, 3) {
				other = h.E(id)
			}
			h.relay(h.opSendV2(c, from, id, h.tok(c).path, h.small(), addrOK(other), addrOK(h.rcvUser(dst)), tmo{}))
		case 5: // base denom with a slash cannot travel over the alias
			h.relay(h.xfer(c, id, from, h.coinOf(c, "gamm/pool/1"), h.small(), addrOK(h.rcvUser(dst)), true, tmo{}))
		case 6: // alias packet timing out
			if k := h.xfer(c, id, from, h.tok(c), h.small(), addrOK(h.rcvUser(dst)), true, tmo{short: true}); k >= 0 {
				if h.r.Bool() {
					h.opRecv(k, h.r.Bool(), true)
				}
				h.opTimeout(k, h.r.Bool(), true)
			}
		case 7: // alias packet refused by the receiver side
			h.relay(h.xfer(c, id, from, h.tok(c), h.small(), h.badRcv(dst), true, tmo{}))
		default: // the other direction
			c, id, dst, dstChan = dst, dstChan, c, id
		}
	}
}

func (h *hist) genAuthfail() {
	n := 10 + h.r.Intn(8)
	for i := 0; i < n && !h.full(); i++ {
		c, id, dst := h.route()
		from := h.funded(c)
		cn := h.native(c)
		rcv := addrOK(h.rcvUser(dst))
		alias := h.r.Chance(1, 4)
		switch h.r.Intn(13) {
		case 0: // tx signed by somebody else
			signer := h.U(perCh*c + (from.user+1+h.r.Intn(3))%perCh)
			h.relay(h.opTransfer(c, signer, id, cn, h.small(), addrOK(from), rcv, alias, tmo{}))
		case 1: // sender is not a key holder at all
			snd := []addrS{addrOK(h.E(id)), addrOK(h.MB()), addrOK(h.U((from.user + perCh) % nUsers)), h.addrBad(h.r.Intn(3)), addrBlank()}[h.r.Intn(5)]
			h.relay(h.opTransfer(c, from, id, cn, h.small(), snd, rcv, alias, tmo{}))
		case 2: // send disabled
			h.opParams(c, false, true)
			h.relay(h.xfer(c, id, from, cn, h.small(), rcv, alias, tmo{}))
			if h.r.Bool() {
				h.relay(h.opSendV2(c, from, id, h.tok(c).path, h.small(), addrOK(from), rcv, tmo{}))
			}
			h.opParams(c, true, true)
		case 3: // no such channel / a channel of another chain
			bad := "channel-99"
			if h.r.Bool() {
				bad = h.chans(dst)[h.r.Intn(2)]
				if _, _, _, mine := h.peer(c, bad); mine {
					bad = "channel-99"
				}
			}
			h.relay(h.xfer(c, bad, from, cn, h.small(), rcv, alias, tmo{}))
		case 4: // more than the balance
			h.relay(h.xfer(c, id, from, cn, h.over(c, from, cn), rcv, alias, tmo{}))
		case 5: // voucher nobody ever minted
			v := h.coinOf(c, "ibc/"+strings.ToUpper(hx.H(h.r.Bytes(32))))
			h.relay(h.xfer(c, id, from, v, h.small(), rcv, alias, tmo{}))
		case 6:
			h.relay(h.xfer(c, id, from, cn, h.small(), addrBlank(), alias, tmo{}))
		case 7: // bank send into an escrow account
			h.opBank(c, from, h.E(h.chans(c)[h.r.Intn(2)]), cn, h.small())
		case 8: // bank send to blocked module accounts
			to := h.MB()
			if h.r.Bool() {
				to = h.MT()
			}
			h.opBank(c, from, to, cn, h.small())
		case 9: // ordinary bank sends, one of them too large
			to := h.U(h.r.Intn(nUsers))
			if h.r.Chance(1, 3) {
				h.opBank(c, from, to, cn, h.over(c, from, cn))
			} else {
				h.opBank(c, from, to, cn, h.small())
			}
		case 10: // user 3 holds no extra tokens
			poor := h.U(perCh*c + 3)
			h.relay(h.xfer(c, id, poor, h.tok(c), h.small(), rcv, alias, tmo{}))
		default: // ordinary traffic, so escrow accounts hold something
			h.relay(h.xfer(c, id, from, cn, h.small(), rcv, false, tmo{}))
			if h.r.Bool() {
				_, dstChan, _, _ := h.peer(c, id)
				holder := h.funded(dst)
				if vs := h.vouchers(dst, holder.user); len(vs) > 0 {
					v := vs[h.r.Intn(len(vs))]
					h.relay(h.xfer(dst, dstChan, holder, v, h.small(), addrOK(h.rcvUser(c)), false, tmo{}))
				}
			}
		}
	}
}

func (h *hist) genF5a() {
	n := 1 + h.r.Intn(4)
	for i := 0; i < n && !h.full(); i++ {
		c := h.r.Intn(3)
		from := h.U(perCh * c)
		d := h.hop[c][h.r.Intn(len(h.hop[c]))]
		cn := h.coinOf(c, d)
		named := strings.Split(d, "/")[1]
		id := named
		if _, _, _, mine := h.peer(c, id); !mine || h.r.Chance(1, 3) {
			id = h.chans(c)[h.r.Intn(2)]
		}
		dst, _, _, _ := h.peer(c, id)
		switch h.r.Intn(6) {
		case 0, 1: // then time it out
			if k := h.xfer(c, id, from, cn, h.small(), addrOK(h.rcvUser(dst)), false, tmo{short: true, ts: h.r.Bool()}); k >= 0 {
				h.opTimeout(k, h.r.Bool(), true)
			}
		case 2: // then have it refused
			h.relay(h.xfer(c, id, from, cn, h.small(), h.badRcv(dst), false, tmo{}))
		case 3: // through the alias
			h.relay(h.xfer(c, id, from, cn, h.small(), addrOK(h.rcvUser(dst)), true, tmo{}))
		case 4: // delivered normally
			h.relay(h.xfer(c, id, from, cn, h.small(), addrOK(h.rcvUser(dst)), false, tmo{}))
		default: // ordinary traffic
			h.relay(h.xfer(c, id, h.funded(c), h.native(c), h.small(), addrOK(h.rcvUser(dst)), false, tmo{}))
		}
	}
}

func (h *hist) pickPkt(pref func(*pkt) bool) int {
	if len(h.pkts) == 0 {
		return -1
	}
	var good []int
	for k, p := range h.pkts {
		if pref(p) {
			good = append(good, k)
		}
	}
	if len(good) > 0 && h.r.Chance(3, 4) {
		return good[h.r.Intn(len(good))]
	}
	return h.r.Intn(len(h.pkts))
}

func (h *hist) genRandom() {
	n := 25 + h.r.Intn(16)
	off := -1 // chain with a disabled param
	for i := 0; i < n && !h.full(); i++ {
		x := h.r.Intn(100)
		switch {
		case x < 32 || len(h.pkts) == 0:
			c, id, dst := h.route()
			from := h.local(c)
			cn := h.native(c)
			if vs := h.vouchers(c, from.user); len(vs) > 0 && h.r.Chance(1, 2) {
				cn = vs[h.r.Intn(len(vs))]
			}
			amt := h.small()
			if h.r.Chance(1, 10) {
				amt = h.over(c, from, cn)
			}
			rcv := addrOK(h.rcvUser(dst))
			switch h.r.Intn(20) {
			case 0:
				_, dstChan, _, _ := h.peer(c, id)
				rcv = addrOK(h.E(dstChan))
			case 1:
				rcv = addrBlank()
			case 2, 3:
				rcv = h.badRcv(dst)
			}
			signer := from
			if h.r.Chance(1, 15) {
				signer = h.local(c)
			}
			if h.r.Chance(1, 10) {
				h.opSendV2(c, signer, id, cn.path, amt, addrOK(from), rcv, h.anyTmo())
			} else {
				h.opTransfer(c, signer, id, cn, amt, addrOK(from), rcv, h.r.Chance(1, 4), h.anyTmo())
			}
		case x < 57:
			h.opRecv(h.pickPkt(func(p *pkt) bool { return p.recv == 0 }), h.r.Bool(), h.r.Chance(1, 5))
		case x < 77:
			h.opAck(h.pickPkt(func(p *pkt) bool { return p.recv != 0 && h.committed(p) }), h.r.Bool())
		case x < 87:
			h.opTimeout(h.pickPkt(func(p *pkt) bool { return p.recv == 0 && h.committed(p) }), h.r.Bool(), h.r.Bool())
		case x < 94:
			c := h.r.Intn(3)
			from := h.local(c)
			cn := h.native(c)
			if vs := h.vouchers(c, from.user); len(vs) > 0 && h.r.Bool() {
				cn = vs[h.r.Intn(len(vs))]
			}
			to := []acct{h.U(h.r.Intn(nUsers)), h.E(h.chans(c)[h.r.Intn(2)]), h.MB(), h.MT()}[h.r.Intn(4)]
			h.opBank(c, from, to, cn, h.small())
		default:
			if off >= 0 {
				h.opParams(off, true, true)
				off = -1
			} else {
				off = h.r.Intn(3)
				s := h.r.Bool()
				h.opParams(off, s, !s)
			}
		}
	}
}

// ---------------------------------------------------------------- pure records

var digits = "0123456789"

func seg(r *hx.Rng) string {
	switch r.Intn(13) {
	case 0:
		return r.Pick([]string{"uatom", "stake", "pool", "gamm", "ibc", "foo"})
	case 1:
		return "channel-" + strconv.Itoa(r.Intn(200))
	case 2:
		return "07-tendermint-" + strconv.Itoa(r.Intn(200))
	case 3:
		return "09-localhost"
	case 4:
		return "transfer"
	case 5:
		return r.Str(digits, 1, 6)
	case 6:
		return ""
	case 7:
		return r.Pick([]string{"my-word_x", "a_b-c", "foo-bar_1", "x-1", "a_1"})
	case 8:
		return "channel-" + r.Str(digits, 21, 21)
	case 9:
		return "channel-18446744073709551616"
	case 10:
		return "channel-18446744073709551615"
	case 11:
		return "x"
	default:
		return r.Pick([]string{"ATOM", "Channel-1", "TRANSFER", "CHANNEL-0"})
	}
}

// shape joins 1..6 segments; half of the time identifier-looking segments are
// steered to the odd positions so that multi-hop traces actually occur.
func shape(r *hx.Rng) (string, int) {
	n := 1 + r.Intn(6)
	steer := r.Bool()
	parts := make([]string, n)
	for i := range parts {
		parts[i] = seg(r)
		if steer && r.Chance(3, 4) {
			if i%2 == 1 {
				parts[i] = []string{"channel-" + strconv.Itoa(r.Intn(200)), "07-tendermint-" + strconv.Itoa(r.Intn(9)), "channel-18446744073709551615", "09-localhost"}[r.Intn(4)]
			} else if i < n-1 {
				parts[i] = r.Pick([]string{"transfer", "transfer", "icahost", "x"})
			}
		}
	}
	return strings.Join(parts, "/"), n
}

func famExtract(r *hx.Rng, o *hx.Out) {
	for i := 0; i < hx.N(400, 6000); i++ {
		s, n := shape(r)
		var out any
		if p, _ := hx.Catch(func() {
			d := transfertypes.ExtractDenomFromPath(s)
			tr := [][]string{}
			for _, hp := range d.Trace {
				tr = append(tr, []string{hx.HS(hp.PortId), hx.HS(hp.ChannelId)})
			}
			out = map[string]any{"trace": tr, "base": hx.HS(d.Base), "path": hx.HS(d.Path()), "valid": d.Validate() == nil}
		}); p {
			out = map[string]any{"panic": true}
		}
		o.Emit("extract", hx.HS(s), out, strconv.Itoa(n))
	}
}

func famIDFmt(r *hx.Rng, o *hx.Out) {
	edge := []string{"channel-", "-1", "a-1", "a--1", "-a-1", "a-b-1", "_-1", "channel-0", "channel-00", "channel-01", "channel-007",
		"channel-18446744073709551615", "channel-18446744073709551616", "channel-99999999999999999999", "channel-100000000000000000000",
		"channel-12345678901234567890", "channel-123456789012345678901", "a-18446744073709551615", "a-18446744073709551616",
		"07-tendermint-0", "07-tendermint-01", "07-tendermint-", "07-tendermint", "09-localhost", "09-localhost-1", "", "channel", "channel-1-2",
		"channel-1 ", " channel-1", "channel--1", "channel-+1", "channel-1/2", "Channel-1", "client-0", "x-0", "-0", "0-0", "a.b-3", "a_b-3"}
	for i := 0; i < hx.N(300, 4000); i++ {
		var s, tag string
		switch {
		case i < len(edge):
			s, tag = edge[i], "edge"
		case r.Chance(1, 3):
			s, tag = seg(r), "seg"
		case r.Chance(1, 2):
			s, tag = r.Str("abcXYZ019-_.", 0, 12), "rand"
		default:
			s, tag = r.Str("abcXYZ019-_.", 0, 6)+"-"+r.Pick([]string{"0", "1", "01", "42", "18446744073709551615", "18446744073709551616", r.Str(digits, 1, 22), ""}), "randnum"
		}
		o.Emit("idfmt", hx.HS(s), []bool{channeltypes.IsValidChannelID(s), clienttypes.IsValidClientID(s)}, tag)
	}
}
