// Package ics20 drives three simapp chains joined by three transfer channels
// (A-B, B-C, C-A) and records whole histories of ICS-20 operations together
// with the projected bank / escrow / packet state after every operation.
package ics20

import (
	"encoding/json"
	"fmt"
	"strings"
	"testing"
	"time"

	sdkmath "cosmossdk.io/math"

	sdk "github.com/cosmos/cosmos-sdk/types"
	authtypes "github.com/cosmos/cosmos-sdk/x/auth/types"
	banktypes "github.com/cosmos/cosmos-sdk/x/bank/types"
	minttypes "github.com/cosmos/cosmos-sdk/x/mint/types"

	abci "github.com/cometbft/cometbft/abci/types"

	transfertypes "github.com/cosmos/ibc-go/v11/modules/apps/transfer/types"
	clienttypes "github.com/cosmos/ibc-go/v11/modules/core/02-client/types"
	channeltypes "github.com/cosmos/ibc-go/v11/modules/core/04-channel/types"
	channeltypesv2 "github.com/cosmos/ibc-go/v11/modules/core/04-channel/v2/types"
	host "github.com/cosmos/ibc-go/v11/modules/core/24-host"
	hostv2 "github.com/cosmos/ibc-go/v11/modules/core/24-host/v2"
	ibctesting "github.com/cosmos/ibc-go/v11/testing"

	"verif/harness/hx"
)

const (
	port    = "transfer"
	maxOps  = 40
	nUsers  = 12
	perCh   = 4
	stake   = "stake"
	mintAmt = 1000000
)

// ---------------------------------------------------------------- values

type acct struct {
	j    []any
	addr sdk.AccAddress
	user int // global user id, -1 for non-users
}

type coin struct {
	j     []any
	denom string // bank denom on the chain it was built for
	path  string // full denom path
}

type addrS struct {
	j []any
	s string
}

type tmo struct{ short, ts bool }

type link struct {
	ca   int
	cha  string
	cb   int
	chb  string
	path *ibctesting.Path
}

type pkt struct {
	src, dst         int
	srcChan, dstChan string
	v2               bool
	p1               channeltypes.Packet
	p2               channeltypesv2.Packet
	seq              uint64
	toH              uint64 // timeout height on dst (0 = none)
	toNs             int64  // timeout time on dst in unix ns (0 = none)
	long             bool   // LONG timeout class: never pushed past its deadline
	expired          bool
	recv             int
	ack1             []byte
	ack2             channeltypesv2.Acknowledgement
}

// guardTB turns require-failures inside ibctesting into panics so that an op
// wrapped in hx.Catch cannot kill the whole run with runtime.Goexit.
type guardTB struct {
	testing.TB
	failed bool
	msg    string
}

type tbFail struct{}

// stats counts harness-internal facts that the trace itself does not show (logged only).
var stats = map[string]int{}

func (g *guardTB) Helper() {}
func (g *guardTB) Errorf(f string, a ...any) {
	g.failed = true
	g.msg = fmt.Sprintf(f, a...)
}
func (g *guardTB) Error(a ...any)            { g.failed = true; g.msg = fmt.Sprint(a...) }
func (g *guardTB) Fail()                     { g.failed = true }
func (g *guardTB) FailNow()                  { g.failed = true; panic(tbFail{}) }
func (g *guardTB) Fatal(a ...any)            { g.Error(a...); g.FailNow() }
func (g *guardTB) Fatalf(f string, a ...any) { g.Errorf(f, a...); g.FailNow() }

type hist struct {
	t     *testing.T
	r     *hx.Rng
	tb    *guardTB
	coord *ibctesting.Coordinator
	ch    [3]*ibctesting.TestChain
	links [3]link
	pkts  []*pkt
	ops   []any
	outs  []any
	init  []any
	nat   [3][]string // ordinary native denoms per chain
	hop   [3][]string // hop-shaped natives (mode f5a)
	dead  bool
	tbOK  bool // a require-failure inside the current tx counts as "fail"
}

func (h *hist) full() bool { return h.dead || len(h.ops) >= maxOps }

// ---------------------------------------------------------------- setup

func newHist(t *testing.T, r *hx.Rng, f5a bool) *hist {
	h := &hist{t: t, r: r, tb: &guardTB{TB: t}}
	h.coord = ibctesting.NewCoordinator(t, 3)
	for i := range h.ch {
		h.ch[i] = h.coord.GetChain(ibctesting.GetChainID(i + 1))
	}
	for i := range h.links {
		a, b := i, (i+1)%3
		// fixed channel ids (channel-1 .. channel-6) instead of ibctesting's process-wide counter
		p := ibctesting.NewTransferPath(h.ch[a], h.ch[b]).DisableUniqueChannelIDs()
		p.SetupConnections()
		h.ch[a].App.GetIBCKeeper().ChannelKeeper.SetNextChannelSequence(h.ch[a].GetContext(), uint64(2*i+1))
		h.ch[b].App.GetIBCKeeper().ChannelKeeper.SetNextChannelSequence(h.ch[b].GetContext(), uint64(2*i+2))
		p.CreateChannels()
		h.links[i] = link{a, p.EndpointA.ChannelID, b, p.EndpointB.ChannelID, p}
	}
	for c := range h.ch {
		name := string(rune('a' + c))
		h.nat[c] = []string{"ufoo", "u" + name + "tok", "gamm/pool/1"}
		for j := 0; j < 3; j++ {
			h.mint(c, 4*c+j, "u"+name+"tok", mintAmt)
			h.mint(c, 4*c+j, "gamm/pool/1", mintAmt)
		}
		if f5a {
			ids := h.chans(c)
			d := "transfer/" + ids[r.Intn(2)] + "/" + r.Pick([]string{"stake", "uatom", "foo"})
			h.hop[c] = append(h.hop[c], d)
			h.mint(c, 4*c, d, 1000)
			if r.Bool() {
				h.hop[c] = append(h.hop[c], "transfer/channel-77/foo")
				h.mint(c, 4*c, "transfer/channel-77/foo", 1000)
			}
		}
		h.coord.CommitBlock(h.ch[c])
	}
	for c := range h.ch {
		h.ch[c].TB = h.tb
	}
	h.init = h.states()
	return h
}

func (h *hist) mint(c, user int, denom string, amt int64) {
	ch := h.ch[c]
	cs := sdk.NewCoins(sdk.NewInt64Coin(denom, amt))
	bk := ch.GetSimApp().BankKeeper
	if err := bk.MintCoins(ch.GetContext(), minttypes.ModuleName, cs); err != nil {
		h.t.Fatalf("mint: %v", err)
	}
	if err := bk.SendCoinsFromModuleToAccount(ch.GetContext(), minttypes.ModuleName, h.U(user).addr, cs); err != nil {
		h.t.Fatalf("mint send: %v", err)
	}
}

func (h *hist) chans(c int) []string {
	var out []string
	for _, l := range h.links {
		if l.ca == c {
			out = append(out, l.cha)
		}
		if l.cb == c {
			out = append(out, l.chb)
		}
	}
	return out
}

// peer resolves (chain, channel) to the far end and the local endpoint.
func (h *hist) peer(c int, chanID string) (dst int, dstChan string, ep *ibctesting.Endpoint, ok bool) {
	for _, l := range h.links {
		if l.ca == c && l.cha == chanID {
			return l.cb, l.chb, l.path.EndpointA, true
		}
		if l.cb == c && l.chb == chanID {
			return l.ca, l.cha, l.path.EndpointB, true
		}
	}
	return 0, "", nil, false
}

// chanTo is the channel of chain c that leads to chain d.
func (h *hist) chanTo(c, d int) string {
	for _, id := range h.chans(c) {
		if x, _, _, _ := h.peer(c, id); x == d {
			return id
		}
	}
	panic("no channel")
}

// ---------------------------------------------------------------- accounts, coins, addresses

func (h *hist) acc(n int) ibctesting.SenderAccount { return h.ch[n/perCh].SenderAccounts[n%perCh] }
func (h *hist) U(n int) acct {
	return acct{[]any{"u", n}, h.acc(n).SenderAccount.GetAddress(), n}
}
func (h *hist) E(chanID string) acct {
	return acct{[]any{"e", chanID}, transfertypes.GetEscrowAddress(port, chanID), -1}
}
func (h *hist) MT() acct { return acct{[]any{"mt"}, authtypes.NewModuleAddress("transfer"), -1} }
func (h *hist) MB() acct { return acct{[]any{"mb", 0}, authtypes.NewModuleAddress("distribution"), -1} }

func addrOK(a acct) addrS { return addrS{[]any{"ok", a.j}, a.addr.String()} }
func addrBlank() addrS    { return addrS{[]any{"blank"}, " "} }
func (h *hist) addrBad(k int) addrS {
	s := "notanaddress"
	switch k {
	case 1:
		s = h.U(0).addr.String()
		last := byte('q')
		if s[len(s)-1] == 'q' {
			last = 'p'
		}
		s = s[:len(s)-1] + string(last)
	case 2:
		s = "cosmos1"
	}
	return addrS{[]any{"bad", k}, s}
}

// coinOf builds the Coin for a bank denom as chain c knows it.
func (h *hist) coinOf(c int, denom string) coin {
	if strings.HasPrefix(denom, "ibc/") {
		if hash, err := transfertypes.ParseHexHash(denom[4:]); err == nil {
			if d, ok := h.ch[c].GetSimApp().TransferKeeper.GetDenom(h.ch[c].GetContext(), hash); ok {
				return coin{[]any{"v", hx.HS(d.Path()), denom}, denom, d.Path()}
			}
		}
	}
	return coin{[]any{"n", hx.HS(denom)}, denom, denom}
}

func (h *hist) bal(c int, a acct, denom string) sdkmath.Int {
	return h.ch[c].GetSimApp().BankKeeper.GetBalance(h.ch[c].GetContext(), a.addr, denom).Amount
}

// vouchers lists the ibc/ coins user n holds on chain c.
func (h *hist) vouchers(c, n int) []coin {
	var out []coin
	for _, cn := range h.ch[c].GetSimApp().BankKeeper.GetAllBalances(h.ch[c].GetContext(), h.U(n).addr) {
		if strings.HasPrefix(cn.Denom, "ibc/") && cn.Amount.IsPositive() {
			out = append(out, h.coinOf(c, cn.Denom))
		}
	}
	return out
}

// ---------------------------------------------------------------- observation

func (h *hist) state(c int) any {
	ch := h.ch[c]
	ctx := ch.GetContext()
	app := ch.GetSimApp()
	var accts []acct
	for n := 0; n < nUsers; n++ {
		accts = append(accts, h.U(n))
	}
	for _, id := range h.chans(c) {
		accts = append(accts, h.E(id))
	}
	accts = append(accts, h.MT(), h.MB())
	bal := [][]any{}
	for _, a := range accts {
		for _, cn := range app.BankKeeper.GetAllBalances(ctx, a.addr) {
			if cn.Denom == stake || cn.Amount.IsZero() {
				continue
			}
			bal = append(bal, []any{a.j, h.coinOf(c, cn.Denom).j, cn.Amount.String()})
		}
	}
	sup := [][]any{}
	app.BankKeeper.IterateTotalSupply(ctx, func(cn sdk.Coin) bool {
		if cn.Denom != stake && !cn.Amount.IsZero() {
			sup = append(sup, []any{h.coinOf(c, cn.Denom).j, cn.Amount.String()})
		}
		return false
	})
	esc := [][]any{}
	for _, cn := range app.TransferKeeper.GetAllTotalEscrowed(ctx) {
		if cn.Denom != stake {
			esc = append(esc, []any{h.coinOf(c, cn.Denom).j, cn.Amount.String()})
		}
	}
	pr := app.TransferKeeper.GetParams(ctx)
	return map[string]any{"bal": bal, "sup": sup, "esc": esc, "send": pr.SendEnabled, "recv": pr.ReceiveEnabled}
}

func (h *hist) states() []any { return []any{h.state(0), h.state(1), h.state(2)} }

func (h *hist) committed(p *pkt) bool {
	ch := h.ch[p.src]
	if p.v2 {
		return len(ch.App.GetIBCKeeper().ChannelKeeperV2.GetPacketCommitment(ch.GetContext(), p.srcChan, p.seq)) != 0
	}
	return len(ch.App.GetIBCKeeper().ChannelKeeper.GetPacketCommitment(ch.GetContext(), port, p.srcChan, p.seq)) != 0
}

func (h *hist) hasReceipt(p *pkt) bool {
	ch := h.ch[p.dst]
	if p.v2 {
		return ch.App.GetIBCKeeper().ChannelKeeperV2.HasPacketReceipt(ch.GetContext(), p.dstChan, p.seq)
	}
	_, ok := ch.App.GetIBCKeeper().ChannelKeeper.GetPacketReceipt(ch.GetContext(), port, p.dstChan, p.seq)
	return ok
}

func (h *hist) pk() [][]any {
	out := [][]any{}
	for _, p := range h.pkts {
		out = append(out, []any{h.committed(p), p.recv})
	}
	return out
}

// run executes one op under hx.Catch and records the op with the full observation.
func (h *hist) run(op map[string]any, f func() (string, any)) {
	var out string
	var seq any
	h.tb.failed = false
	panicked, msg := hx.Catch(func() { out, seq = f() })
	if panicked {
		switch {
		case h.tb.failed && h.tbOK:
			out, seq = "fail", nil // the tx could not even be built/delivered
			stats["tx-not-deliverable"]++
		case h.tb.failed:
			h.t.Fatalf("harness failure in op %v: %s", op, h.tb.msg)
		default:
			h.t.Logf("PANIC in op %v: %s", op, msg)
			out, seq, h.dead = "panic", nil, true
		}
	}
	h.tbOK = false
	h.ops = append(h.ops, op)
	h.outs = append(h.outs, map[string]any{"out": out, "seq": seq, "state": h.states(), "pk": h.pk()})
}

func (h *hist) emit(o *hx.Out, mode string) {
	links := [][]any{}
	for _, l := range h.links {
		links = append(links, []any{l.ca, l.cha, l.cb, l.chb})
	}
	in := map[string]any{"nchains": 3, "links": links, "init": h.init, "ops": h.ops}
	o.Emit("hist", in, h.outs, mode)
}

// ---------------------------------------------------------------- tx plumbing

// sync re-reads the account sequences of chain c (ibctesting bumps the local
// sequence even when the ante handler rejects a tx).
func (h *hist) sync(c int) {
	ch := h.ch[c]
	for j := 0; j < perCh; j++ {
		sa := ch.SenderAccounts[j].SenderAccount
		if a := ch.GetSimApp().AccountKeeper.GetAccount(ch.GetContext(), sa.GetAddress()); a != nil {
			_ = sa.SetSequence(a.GetSequence())
		}
	}
}

func (h *hist) deliver(c, signer int, msgs ...sdk.Msg) (*abci.ExecTxResult, error) {
	if signer/perCh != c {
		panic("signer is not a user of the chain")
	}
	h.sync(c)
	res, err := h.ch[c].SendMsgsWithSender(h.acc(signer), msgs...)
	if err != nil {
		h.coord.IncrementTime() // SendMsgs skips this on failure; keep block times strictly increasing
	}
	return res, err
}

// update refreshes the client that ep's chain keeps of its counterparty.
func (h *hist) update(ep *ibctesting.Endpoint) {
	for c := range h.ch {
		if h.ch[c] == ep.Chain {
			h.sync(c)
		}
	}
	if err := ep.UpdateClient(); err != nil {
		h.coord.IncrementTime()
		h.tb.failed, h.tb.msg = true, "update client: "+err.Error()
		panic(tbFail{})
	}
}

// mkTimeout picks the timeout of a new packet towards chain dst.
func (h *hist) mkTimeout(dst int, v2 bool, tm tmo) (th clienttypes.Height, tt uint64, toH uint64, toNs int64) {
	now := h.coord.CurrentTime
	switch {
	case v2:
		d := 23 * time.Hour
		if tm.short {
			d = 20 * time.Minute
		}
		tt = uint64(now.Add(d).Unix())
		toNs = int64(tt) * 1e9
	case tm.ts:
		d := 1000 * time.Hour
		if tm.short {
			d = 20 * time.Minute
		}
		tt = uint64(now.Add(d).UnixNano())
		toNs = int64(tt)
	default:
		d := uint64(100000)
		if tm.short {
			d = 30
		}
		toH = uint64(h.ch[dst].ProposedHeader.Height) + d
		th = clienttypes.NewHeight(clienttypes.ParseChainID(h.ch[dst].ChainID), toH)
	}
	return
}

// settle decides whether packet k's timeout counts as elapsed for the next
// relay op. Either the deadline is far away (false) or the destination chain is
// pushed far beyond it (true); a deadline that is merely close is pushed too.
func (h *hist) settle(k int, want bool) bool {
	p := h.pkts[k]
	if p.expired {
		return true
	}
	d := h.ch[p.dst]
	near := (p.toH != 0 && uint64(d.ProposedHeader.Height)+10 >= p.toH) ||
		(p.toNs != 0 && h.coord.CurrentTime.UnixNano()+int64(5*time.Minute) >= p.toNs)
	if (!want || p.long) && !near {
		return false
	}
	if p.toH != 0 {
		for uint64(d.App.LastBlockHeight()) < p.toH+3 {
			h.coord.CommitBlock(d)
		}
	}
	if p.toNs != 0 {
		if delta := p.toNs - h.coord.CurrentTime.UnixNano(); delta > -int64(10*time.Minute) {
			h.coord.IncrementTimeBy(time.Duration(delta) + 10*time.Minute)
		}
		h.coord.CommitBlock(d)
		h.coord.CommitBlock(d)
	}
	p.expired = true
	return true
}

// ---------------------------------------------------------------- ops

func (h *hist) addPacket(c int, chanID string, res *abci.ExecTxResult, tm tmo, toH uint64, toNs int64) (string, any) {
	dst, dstChan, _, ok := h.peer(c, chanID)
	if !ok {
		h.t.Fatalf("successful send over unknown channel %s on chain %d", chanID, c)
	}
	p := &pkt{src: c, dst: dst, srcChan: chanID, dstChan: dstChan, toH: toH, toNs: toNs, long: !tm.short}
	if p1, err := ibctesting.ParseV1PacketFromEvents(res.Events); err == nil && p1.SourceChannel != "" { // v2 sends use the same event type
		p.p1, p.seq = p1, p1.Sequence
		if p1.SourceChannel != chanID || p1.DestinationChannel != dstChan {
			h.t.Fatalf("v1 packet channels %s/%s, want %s/%s", p1.SourceChannel, p1.DestinationChannel, chanID, dstChan)
		}
	} else if p2, err := ibctesting.ParseV2PacketFromEvents(res.Events); err == nil {
		p.v2, p.p2, p.seq = true, p2, p2.Sequence
		if p2.SourceClient != chanID || p2.DestinationClient != dstChan {
			h.t.Fatalf("v2 packet clients %s/%s, want %s/%s", p2.SourceClient, p2.DestinationClient, chanID, dstChan)
		}
	} else {
		h.t.Fatalf("send succeeded but no packet in events: %v", err)
	}
	h.pkts = append(h.pkts, p)
	return "ok", hx.U(p.seq)
}

func (h *hist) opTransfer(c int, signer acct, chanID string, cn coin, amt string, snd, rcv addrS, alias bool, tm tmo) int {
	if h.full() {
		return -1
	}
	op := map[string]any{"op": "transfer", "chain": c, "signer": signer.j, "chan": chanID, "coin": cn.j, "amt": amt,
		"sender": snd.j, "receiver": rcv.j, "alias": alias}
	n := len(h.pkts)
	h.tbOK = snd.j[0] != "ok"
	h.run(op, func() (string, any) {
		dst, _, _, ok := h.peer(c, chanID)
		if !ok {
			dst = (c + 1) % 3
		}
		th, tt, toH, toNs := h.mkTimeout(dst, alias, tm)
		a, _ := sdkmath.NewIntFromString(amt)
		msg := &transfertypes.MsgTransfer{SourcePort: port, SourceChannel: chanID, Token: sdk.Coin{Denom: cn.denom, Amount: a},
			Sender: snd.s, Receiver: rcv.s, TimeoutHeight: th, TimeoutTimestamp: tt, Memo: "", UseAliasing: alias}
		res, err := h.deliver(c, signer.user, msg)
		if err != nil {
			return "fail", nil
		}
		return h.addPacket(c, chanID, res, tm, toH, toNs)
	})
	if len(h.pkts) > n {
		return n
	}
	return -1
}

func (h *hist) opSendV2(c int, signer acct, chanID, path, amt string, snd, rcv addrS, tm tmo) int {
	if h.full() {
		return -1
	}
	op := map[string]any{"op": "sendv2", "chain": c, "signer": signer.j, "chan": chanID, "path": hx.HS(path), "amt": amt,
		"sender": snd.j, "receiver": rcv.j}
	n := len(h.pkts)
	h.tbOK = snd.j[0] != "ok"
	h.run(op, func() (string, any) {
		dst, _, _, ok := h.peer(c, chanID)
		if !ok {
			dst = (c + 1) % 3
		}
		_, tt, toH, toNs := h.mkTimeout(dst, true, tm)
		data := transfertypes.FungibleTokenPacketData{Denom: path, Amount: amt, Sender: snd.s, Receiver: rcv.s}
		bz, err := transfertypes.MarshalPacketData(data, transfertypes.V1, transfertypes.EncodingJSON)
		if err != nil {
			return "fail", nil
		}
		pl := channeltypesv2.NewPayload(port, port, transfertypes.V1, transfertypes.EncodingJSON, bz)
		msg := channeltypesv2.NewMsgSendPacket(chanID, tt, signer.addr.String(), pl)
		res, err := h.deliver(c, signer.user, msg)
		if err != nil {
			return "fail", nil
		}
		return h.addPacket(c, chanID, res, tm, toH, toNs)
	})
	if len(h.pkts) > n {
		return n
	}
	return -1
}

func (h *hist) relayer(c int, third bool) acct {
	if third {
		return h.U(perCh*c + 3)
	}
	return h.U(perCh * c)
}

func v1AckIsError(bz []byte) bool {
	var m map[string]json.RawMessage
	if err := json.Unmarshal(bz, &m); err != nil {
		return true
	}
	_, isErr := m["error"]
	return isErr
}

func (h *hist) opRecv(k int, third, want bool) string {
	if h.full() {
		return ""
	}
	p := h.pkts[k]
	rel := h.relayer(p.dst, third)
	elapsed := h.settle(k, want)
	op := map[string]any{"op": "recv", "pkt": k, "relayer": rel.j, "elapsed": elapsed}
	var out string
	h.run(op, func() (string, any) {
		out = "fail"
		_, _, srcEp, _ := h.peer(p.src, p.srcChan)
		h.update(srcEp.Counterparty)
		had := h.hasReceipt(p)
		var msg sdk.Msg
		if p.v2 {
			proof, ph := srcEp.QueryProof(hostv2.PacketCommitmentKey(p.p2.SourceClient, p.seq))
			msg = channeltypesv2.NewMsgRecvPacket(p.p2, proof, ph, rel.addr.String())
		} else {
			proof, ph := srcEp.QueryProof(host.PacketCommitmentKey(port, p.srcChan, p.seq))
			msg = channeltypes.NewMsgRecvPacket(p.p1, proof, ph, rel.addr.String())
		}
		d := h.ch[p.dst] // self-check of the elapsed flag against the block the tx runs in
		now := h.coord.CurrentTime.UnixNano()
		if p.v2 {
			now = h.coord.CurrentTime.Unix() * 1e9
		}
		if truth := (p.toH != 0 && uint64(d.ProposedHeader.Height) >= p.toH) || (p.toNs != 0 && now >= p.toNs); truth != elapsed {
			h.t.Fatalf("recv elapsed flag %v but truth %v", elapsed, truth)
		}
		res, err := h.deliver(p.dst, rel.user, msg)
		if err != nil || had || !h.hasReceipt(p) {
			return "fail", nil
		}
		if p.v2 {
			bz, err := ibctesting.ParseAckV2FromEvents(res.Events)
			if err != nil {
				h.t.Fatalf("v2 recv without ack event: %v", err)
			}
			if err := p.ack2.Unmarshal(bz); err != nil || len(p.ack2.AppAcknowledgements) != 1 {
				h.t.Fatalf("v2 ack decode: %v", err)
			}
			p.recv = 1
			if string(p.ack2.AppAcknowledgements[0]) == string(channeltypesv2.ErrorAcknowledgement[:]) {
				p.recv = 2
			}
		} else {
			bz, err := ibctesting.ParseAckFromEvents(res.Events)
			if err != nil {
				h.t.Fatalf("v1 recv without ack event: %v", err)
			}
			p.ack1, p.recv = bz, 1
			if v1AckIsError(bz) {
				p.recv = 2
			}
		}
		stats[fmt.Sprintf("recv-new v2=%v third=%v", p.v2, third)]++
		if p.recv == 2 {
			out = "errack"
		} else {
			out = "ok"
		}
		return out, nil
	})
	return out
}

func (h *hist) opAck(k int, third bool) {
	if h.full() {
		return
	}
	p := h.pkts[k]
	rel := h.relayer(p.src, third)
	op := map[string]any{"op": "ack", "pkt": k, "relayer": rel.j}
	h.run(op, func() (string, any) {
		_, _, srcEp, _ := h.peer(p.src, p.srcChan)
		h.update(srcEp)
		before := h.committed(p)
		okAck := channeltypes.NewResultAcknowledgement([]byte{1}).Acknowledgement()
		var msg sdk.Msg
		if p.v2 {
			ack := p.ack2
			if p.recv == 0 {
				ack = channeltypesv2.NewAcknowledgement(okAck)
			}
			proof, ph := srcEp.Counterparty.QueryProof(hostv2.PacketAcknowledgementKey(p.p2.DestinationClient, p.seq))
			msg = channeltypesv2.NewMsgAcknowledgement(p.p2, ack, proof, ph, rel.addr.String())
		} else {
			ack := p.ack1
			if p.recv == 0 {
				ack = okAck
			}
			proof, ph := srcEp.Counterparty.QueryProof(host.PacketAcknowledgementKey(port, p.dstChan, p.seq))
			msg = channeltypes.NewMsgAcknowledgement(p.p1, ack, proof, ph, rel.addr.String())
		}
		_, err := h.deliver(p.src, rel.user, msg)
		if err == nil && before && !h.committed(p) {
			return "ok", nil
		}
		return "fail", nil
	})
}

func (h *hist) opTimeout(k int, third, want bool) {
	if h.full() {
		return
	}
	p := h.pkts[k]
	rel := h.relayer(p.src, third)
	elapsed := h.settle(k, want)
	op := map[string]any{"op": "timeout", "pkt": k, "relayer": rel.j, "elapsed": elapsed}
	h.run(op, func() (string, any) {
		_, _, srcEp, _ := h.peer(p.src, p.srcChan)
		h.update(srcEp)
		before := h.committed(p)
		dstEp := srcEp.Counterparty
		var msg sdk.Msg
		var ph clienttypes.Height
		var proof []byte
		if p.v2 {
			proof, ph = dstEp.QueryProof(hostv2.PacketReceiptKey(p.p2.DestinationClient, p.seq))
			msg = channeltypesv2.NewMsgTimeout(p.p2, proof, ph, rel.addr.String())
		} else {
			proof, ph = dstEp.QueryProof(host.PacketReceiptKey(port, p.dstChan, p.seq))
			next, _ := dstEp.Chain.App.GetIBCKeeper().ChannelKeeper.GetNextSequenceRecv(dstEp.Chain.GetContext(), port, p.dstChan)
			msg = channeltypes.NewMsgTimeout(p.p1, next, proof, ph, rel.addr.String())
		}
		hdr := dstEp.Chain.LatestCommittedHeader.Header // self-check of the elapsed flag at the proof height
		at := hdr.Time.UnixNano()
		if p.v2 {
			at = hdr.Time.Unix() * 1e9
		}
		if uint64(hdr.Height) != ph.RevisionHeight {
			h.t.Fatalf("proof height %d is not the latest header %d", ph.RevisionHeight, hdr.Height)
		}
		if truth := (p.toH != 0 && ph.RevisionHeight >= p.toH) || (p.toNs != 0 && at >= p.toNs); truth != elapsed {
			h.t.Fatalf("timeout elapsed flag %v but truth %v", elapsed, truth)
		}
		_, err := h.deliver(p.src, rel.user, msg)
		if err == nil && before && !h.committed(p) {
			stats[fmt.Sprintf("timeout-ok v2=%v height=%v third=%v", p.v2, p.toH != 0, third)]++
			return "ok", nil
		}
		return "fail", nil
	})
}

func (h *hist) opBank(c int, from, to acct, cn coin, amt string) {
	if h.full() {
		return
	}
	op := map[string]any{"op": "banksend", "chain": c, "from": from.j, "to": to.j, "coin": cn.j, "amt": amt}
	h.run(op, func() (string, any) {
		a, _ := sdkmath.NewIntFromString(amt)
		msg := &banktypes.MsgSend{FromAddress: from.addr.String(), ToAddress: to.addr.String(), Amount: sdk.Coins{sdk.Coin{Denom: cn.denom, Amount: a}}}
		if _, err := h.deliver(c, from.user, msg); err != nil {
			return "fail", nil
		}
		return "ok", nil
	})
}

func (h *hist) opParams(c int, send, recv bool) {
	if h.full() {
		return
	}
	op := map[string]any{"op": "params", "chain": c, "send": send, "recv": recv}
	h.run(op, func() (string, any) {
		h.ch[c].GetSimApp().TransferKeeper.SetParams(h.ch[c].GetContext(), transfertypes.NewParams(send, recv))
		h.coord.CommitBlock(h.ch[c])
		return "ok", nil
	})
}
