package codec

import (
	"strings"
	"time"

	upgradetypes "github.com/cosmos/cosmos-sdk/x/upgrade/types"

	"github.com/cosmos/gogoproto/proto"

	codectypes "github.com/cosmos/cosmos-sdk/codec/types"
	sdk "github.com/cosmos/cosmos-sdk/types"

	icatypes "github.com/cosmos/ibc-go/v11/modules/apps/27-interchain-accounts/types"
	transfertypes "github.com/cosmos/ibc-go/v11/modules/apps/transfer/types"
	clienttypes "github.com/cosmos/ibc-go/v11/modules/core/02-client/types"
	channeltypes "github.com/cosmos/ibc-go/v11/modules/core/04-channel/types"
	channeltypesv2 "github.com/cosmos/ibc-go/v11/modules/core/04-channel/v2/types"
	commitmenttypes "github.com/cosmos/ibc-go/v11/modules/core/23-commitment/types"
	solomachine "github.com/cosmos/ibc-go/v11/modules/light-clients/06-solomachine"
	ibctm "github.com/cosmos/ibc-go/v11/modules/light-clients/07-tendermint"

	"verif/harness/hx"
)

func c47PackCS(r *hx.Rng, chainID string) (*codectypes.Any, string) {
	switch r.Intn(9) {
	case 0:
		return nil, "nil-any"
	case 1: // an Any whose cached value is not a ClientState
		a, _ := codectypes.NewAnyWithValue(ibctm.NewConsensusState(time.Unix(10, 0), commitmenttypes.NewMerkleRoot([]byte("r")), make([]byte, 32)))
		return a, "wrong-interface"
	case 2: // bytes only, nothing cached (what a raw struct literal gives)
		return &codectypes.Any{TypeUrl: "/ibc.lightclients.tendermint.v1.ClientState", Value: []byte{1, 2, 3}}, "no-cached-value"
	case 3:
		cs := c47TmClientState(r, chainID)
		cs.UpgradePath = []string{strings.Repeat("u", 33000)}
		a, _ := codectypes.NewAnyWithValue(cs)
		return a, "too-large"
	default:
		a, err := codectypes.NewAnyWithValue(c47TmClientState(r, chainID))
		if err != nil {
			panic(err)
		}
		return a, "tm"
	}
}

func c47PackCons(r *hx.Rng) (*codectypes.Any, string) {
	switch r.Intn(9) {
	case 0:
		return nil, "nil-any"
	case 1:
		a, _ := codectypes.NewAnyWithValue(c47TmClientState(r, "chain-1"))
		return a, "wrong-interface"
	case 2:
		return &codectypes.Any{TypeUrl: "/ibc.lightclients.tendermint.v1.ConsensusState", Value: []byte{1}}, "no-cached-value"
	case 3:
		a, _ := codectypes.NewAnyWithValue(ibctm.NewConsensusState(time.Unix(10, 0), commitmenttypes.NewMerkleRoot(make([]byte, 33000)), make([]byte, 32)))
		return a, "too-large"
	case 4:
		a, _ := codectypes.NewAnyWithValue(ibctm.NewConsensusState(time.Unix(0, 0), commitmenttypes.NewMerkleRoot(nil), make([]byte, 5)))
		return a, "invalid"
	default:
		a, _ := codectypes.NewAnyWithValue(ibctm.NewConsensusState(time.Unix(10, 0), commitmenttypes.NewMerkleRoot([]byte("r")), make([]byte, 32)))
		return a, "tm"
	}
}

func c47Msgs(r *hx.Rng, o *hx.Out, q int) {
	// ---- channel v1
	for i := 0; i < 200*q; i++ {
		signer := c47GenSigner(r)
		sok := c47SignerOK(signer)
		var in []any
		var vb func() error
		switch r.Intn(10) {
		case 0:
			m := channeltypes.MsgChannelOpenInit{PortId: c47Port(r), Channel: c47GenChannel(r, channeltypes.INIT), Signer: signer}
			in, vb = []any{"open_init", hx.HS(m.PortId), c47ChannelJ(m.Channel), sok}, m.ValidateBasic
		case 1:
			m := channeltypes.MsgChannelOpenTry{PortId: c47Port(r), Channel: c47GenChannel(r, channeltypes.TRYOPEN), ProofInit: c47Proof(r), Signer: signer}
			if r.Chance(1, 8) {
				m.PreviousChannelId = "channel-0"
			}
			in, vb = []any{"open_try", hx.HS(m.PortId), hx.HS(m.PreviousChannelId), c47ChannelJ(m.Channel), hx.H(m.ProofInit), sok}, m.ValidateBasic
		case 2:
			ch, _ := c47SeqID(r, "channel-")
			if r.Bool() {
				ch = "channel-5"
			}
			m := channeltypes.MsgChannelOpenAck{PortId: c47Port(r), ChannelId: ch, CounterpartyChannelId: c47Chan(r), ProofTry: c47Proof(r), Signer: signer}
			in, vb = []any{"open_ack", hx.HS(m.PortId), hx.HS(m.ChannelId), hx.HS(m.CounterpartyChannelId), hx.H(m.ProofTry), sok}, m.ValidateBasic
		case 3:
			ch, _ := c47SeqID(r, "channel-")
			if r.Bool() {
				ch = "channel-5"
			}
			m := channeltypes.MsgChannelOpenConfirm{PortId: c47Port(r), ChannelId: ch, ProofAck: c47Proof(r), Signer: signer}
			in, vb = []any{"open_confirm", hx.HS(m.PortId), hx.HS(m.ChannelId), hx.H(m.ProofAck), sok}, m.ValidateBasic
		case 4:
			ch, _ := c47SeqID(r, "channel-")
			if r.Bool() {
				ch = "channel-5"
			}
			m := channeltypes.MsgChannelCloseInit{PortId: c47Port(r), ChannelId: ch, Signer: signer}
			in, vb = []any{"close_init", hx.HS(m.PortId), hx.HS(m.ChannelId), sok}, m.ValidateBasic
		case 5:
			ch, _ := c47SeqID(r, "channel-")
			if r.Bool() {
				ch = "channel-5"
			}
			m := channeltypes.MsgChannelCloseConfirm{PortId: c47Port(r), ChannelId: ch, ProofInit: c47Proof(r), Signer: signer}
			in, vb = []any{"close_confirm", hx.HS(m.PortId), hx.HS(m.ChannelId), hx.H(m.ProofInit), sok}, m.ValidateBasic
		case 6:
			m := channeltypes.MsgRecvPacket{Packet: c47GenPacket(r), ProofCommitment: c47Proof(r), Signer: signer}
			in, vb = []any{"recv", c47PacketJ(m.Packet), hx.H(m.ProofCommitment), sok}, m.ValidateBasic
		case 7:
			m := channeltypes.MsgTimeout{Packet: c47GenPacket(r), ProofUnreceived: c47Proof(r), NextSequenceRecv: c47U64Z(r), Signer: signer}
			in, vb = []any{"timeout", c47PacketJ(m.Packet), hx.H(m.ProofUnreceived), hx.U(m.NextSequenceRecv), sok}, m.ValidateBasic
		case 8:
			m := channeltypes.MsgTimeoutOnClose{Packet: c47GenPacket(r), ProofUnreceived: c47Proof(r), ProofClose: c47Proof(r), NextSequenceRecv: c47U64Z(r), Signer: signer}
			in, vb = []any{"timeout_on_close", c47PacketJ(m.Packet), hx.H(m.ProofUnreceived), hx.H(m.ProofClose), hx.U(m.NextSequenceRecv), sok}, m.ValidateBasic
		default:
			m := channeltypes.MsgAcknowledgement{Packet: c47GenPacket(r), Acknowledgement: c47Proof(r), ProofAcked: c47Proof(r), Signer: signer}
			in, vb = []any{"ack", c47PacketJ(m.Packet), hx.H(m.Acknowledgement), hx.H(m.ProofAcked), sok}, m.ValidateBasic
		}
		o.Emit("c47_msgv1", in, []any{c47Run(vb)}, in[0].(string))
	}

	// one-defect channels in otherwise valid handshake messages (the ConnectionHops[0] guard)
	for _, hops := range [][]string{nil, {}, {"connection-0", "connection-1"}, {"connection-0"}, {"c"}} {
		ch := channeltypes.Channel{State: channeltypes.INIT, Ordering: channeltypes.ORDERED, Counterparty: channeltypes.Counterparty{PortId: "transfer"}, ConnectionHops: hops, Version: "v"}
		m := channeltypes.MsgChannelOpenInit{PortId: "transfer", Channel: ch, Signer: c47Signer}
		o.Emit("c47_msgv1", []any{"open_init", hx.HS(m.PortId), c47ChannelJ(m.Channel), true}, []any{c47Run(m.ValidateBasic)}, "open_init/hops-only")
		ch.State, ch.Counterparty.ChannelId = channeltypes.TRYOPEN, "channel-7"
		m2 := channeltypes.MsgChannelOpenTry{PortId: "transfer", Channel: ch, ProofInit: []byte{1}, Signer: c47Signer}
		o.Emit("c47_msgv1", []any{"open_try", hx.HS(m2.PortId), "", c47ChannelJ(m2.Channel), hx.H(m2.ProofInit), true}, []any{c47Run(m2.ValidateBasic)}, "open_try/hops-only")
	}

	// ---- channel v2
	uerr := hx.H(channeltypesv2.ErrorAcknowledgement[:])
	for i := 0; i < 120*q; i++ {
		signer := c47GenSigner(r)
		sok := c47SignerOK(signer)
		var in []any
		var vb func() error
		switch r.Intn(4) {
		case 0:
			sc, _ := c47ID(r, 4, 64)
			if r.Chance(2, 3) {
				sc = "07-tendermint-1"
			}
			m := &channeltypesv2.MsgSendPacket{SourceClient: sc, TimeoutTimestamp: c47U64Z(r), Payloads: c47GenPayloads(r), Signer: signer}
			in, vb = []any{"send", hx.HS(m.SourceClient), hx.U(m.TimeoutTimestamp), c47PayloadsJ(m.Payloads), sok}, m.ValidateBasic
		case 1:
			m := &channeltypesv2.MsgRecvPacket{Packet: c47GenPacketV2(r), ProofCommitment: c47Proof(r), Signer: signer}
			in, vb = []any{"recv", c47PacketV2J(m.Packet), hx.H(m.ProofCommitment), sok}, m.ValidateBasic
		case 2:
			var acks [][]byte
			switch r.Intn(6) {
			case 0:
			case 1:
				acks = [][]byte{{}}
			case 2:
				acks = [][]byte{channeltypesv2.ErrorAcknowledgement[:]}
			case 3:
				acks = [][]byte{{1}, channeltypesv2.ErrorAcknowledgement[:]}
			case 4:
				acks = [][]byte{{1}, {2}, nil}
			default:
				acks = [][]byte{r.Bytes(1 + r.Intn(3))}
			}
			m := &channeltypesv2.MsgAcknowledgement{Packet: c47GenPacketV2(r), Acknowledgement: channeltypesv2.Acknowledgement{AppAcknowledgements: acks}, ProofAcked: c47Proof(r), Signer: signer}
			al := make([]string, len(acks))
			for j := range acks {
				al[j] = hx.H(acks[j])
			}
			in, vb = []any{"ack", c47PacketV2J(m.Packet), al, hx.H(m.ProofAcked), sok}, m.ValidateBasic
		default:
			m := &channeltypesv2.MsgTimeout{Packet: c47GenPacketV2(r), ProofUnreceived: c47Proof(r), Signer: signer}
			in, vb = []any{"timeout", c47PacketV2J(m.Packet), hx.H(m.ProofUnreceived), sok}, m.ValidateBasic
		}
		o.Emit("c47_msgv2", []any{uerr, in}, []any{c47Run(vb)}, in[0].(string))
	}

	// ---- 06-solomachine Misbehaviour.ValidateBasic, directly and inside MsgUpdateClient (fix 6331512)
	sigJ := func(sd *solomachine.SignatureAndData) any {
		if sd == nil {
			return nil
		}
		return []any{hx.H(sd.Signature), hx.H(sd.Data), hx.H(sd.Path), hx.U(sd.Timestamp)}
	}
	genSig := func() *solomachine.SignatureAndData {
		sd := &solomachine.SignatureAndData{Signature: r.Bytes(1 + r.Intn(3)), Data: r.Bytes(1 + r.Intn(3)), Path: []byte("p"), Timestamp: 1 + uint64(r.Intn(5))}
		switch r.Intn(8) {
		case 0:
			return nil
		case 1:
			sd.Signature = nil
		case 2:
			sd.Data = nil
		case 3:
			sd.Path = nil
		case 4:
			sd.Timestamp = 0
		}
		return sd
	}
	emitMis := func(mis *solomachine.Misbehaviour, tag string) {
		o.Emit("c47_solomis", []any{hx.U(mis.Sequence), sigJ(mis.SignatureOne), sigJ(mis.SignatureTwo)}, []any{c47Run(mis.ValidateBasic)}, tag)
		cm, err := codectypes.NewAnyWithValue(mis)
		if err != nil {
			panic(err)
		}
		m := clienttypes.MsgUpdateClient{ClientId: "06-solomachine-0", ClientMessage: cm, Signer: c47Signer}
		o.Emit("c47_msgclient", []any{"update", true, []any{len(cm.Value), []any{c47Run(mis.ValidateBasic)}}, hx.HS(m.ClientId)}, []any{c47Run(m.ValidateBasic)}, "update/solo-misbehaviour/"+tag)
	}
	// regression corpus: the former nil-dereference inputs
	emitMis(&solomachine.Misbehaviour{Sequence: 1}, "regression-nil-signatures")
	emitMis(&solomachine.Misbehaviour{Sequence: 1, SignatureOne: &solomachine.SignatureAndData{Signature: []byte{1}, Data: []byte{2}, Path: []byte("p"), Timestamp: 1}}, "regression-nil-signature-two")
	emitMis(&solomachine.Misbehaviour{Sequence: 1, SignatureTwo: &solomachine.SignatureAndData{Signature: []byte{1}, Data: []byte{2}, Path: []byte("p"), Timestamp: 1}}, "regression-nil-signature-one")
	for i := 0; i < 40*q; i++ {
		mis := &solomachine.Misbehaviour{Sequence: c47U64Z(r), SignatureOne: genSig(), SignatureTwo: genSig()}
		tag := "random"
		if mis.SignatureOne != nil && mis.SignatureTwo != nil {
			switch r.Intn(4) {
			case 0:
				mis.SignatureTwo.Signature, tag = mis.SignatureOne.Signature, "equal-signatures"
			case 1:
				mis.SignatureTwo.Data, mis.SignatureTwo.Path, tag = mis.SignatureOne.Data, mis.SignatureOne.Path, "same-message"
			}
		}
		emitMis(mis, tag)
	}

	// ---- client messages
	cid := func() string {
		if r.Chance(3, 4) {
			return "07-tendermint-" + hx.U(uint64(r.Intn(50)))
		}
		s, _ := c47ClientID(r)
		return s
	}
	for i := 0; i < 120*q; i++ {
		signer := c47GenSigner(r)
		sok := c47SignerOK(signer)
		var in []any
		var vb func() error
		tag := ""
		switch r.Intn(7) {
		case 0, 1:
			chain, _ := c47ChainID(r)
			if r.Chance(2, 3) {
				chain = "chain-1"
			}
			cs, t1 := c47PackCS(r, chain)
			cons, t2 := c47PackCons(r)
			m := clienttypes.MsgCreateClient{ClientState: cs, ConsensusState: cons, Signer: signer}
			in, vb, tag = []any{"create", sok, c47AnyJ(cs, true), c47AnyJ(cons, false)}, m.ValidateBasic, "create/"+t1+"/"+t2
		case 2:
			var cm *codectypes.Any
			var cmj any
			switch r.Intn(4) {
			case 0:
				tag = "update/nil-any"
			case 1:
				cm, _ = codectypes.NewAnyWithValue(c47TmClientState(r, "chain-1"))
				cmj, tag = []any{len(cm.Value), nil}, "update/wrong-interface"
			default:
				h := &ibctm.Header{}
				cm, _ = codectypes.NewAnyWithValue(h)
				cmj, tag = []any{len(cm.Value), []any{c47Run(h.ValidateBasic)}}, "update/empty-header"
			}
			m := clienttypes.MsgUpdateClient{ClientId: cid(), ClientMessage: cm, Signer: signer}
			in, vb = []any{"update", sok, cmj, hx.HS(m.ClientId)}, m.ValidateBasic
		case 3:
			cs, t1 := c47PackCS(r, "chain-1")
			cons, t2 := c47PackCons(r)
			m := clienttypes.MsgUpgradeClient{ClientId: cid(), ClientState: cs, ConsensusState: cons, ProofUpgradeClient: c47Proof(r), ProofUpgradeConsensusState: c47Proof(r), Signer: signer}
			in, vb, tag = []any{"upgrade", c47AnyJ(cs, true), c47AnyJ(cons, false), hx.H(m.ProofUpgradeClient), hx.H(m.ProofUpgradeConsensusState), sok, hx.HS(m.ClientId)}, m.ValidateBasic, "upgrade/"+t1+"/"+t2
		case 4:
			a, b := cid(), cid()
			if r.Chance(1, 4) {
				b = a
			}
			m := &clienttypes.MsgRecoverClient{SubjectClientId: a, SubstituteClientId: b, Signer: signer}
			in, vb, tag = []any{"recover", sok, hx.HS(a), hx.HS(b)}, m.ValidateBasic, "recover"
		case 5:
			cs, t1 := c47PackCS(r, "chain-1")
			plan := upgradetypes.Plan{Name: "v2", Height: int64(r.Intn(3))}
			if r.Chance(1, 4) {
				plan.Name = ""
			}
			m := &clienttypes.MsgIBCSoftwareUpgrade{Plan: plan, UpgradedClientState: cs, Signer: signer}
			in, vb, tag = []any{"software_upgrade", sok, c47AnyJ(cs, true), c47Run(plan.ValidateBasic)}, m.ValidateBasic, "software_upgrade/"+t1
		default:
			m := &clienttypes.MsgDeleteClientCreator{ClientId: cid(), Signer: signer}
			in, vb, tag = []any{"delete_creator", sok, hx.HS(m.ClientId)}, m.ValidateBasic, "delete_creator"
		}
		o.Emit("c47_msgclient", in, []any{c47Run(vb)}, tag)
	}
	// regression corpus (always emitted): the former panic inputs of MsgCreateClient.ValidateBasic (fixed by
	// e3d0037 / d71d2e9): client_state (resp. consensus_state) absent as decoded from proto bytes; chain id with
	// a revision >= 2^64
	{
		bz, _ := proto.Marshal(&clienttypes.MsgCreateClient{Signer: c47Signer})
		var m clienttypes.MsgCreateClient
		if err := proto.Unmarshal(bz, &m); err != nil {
			panic(err)
		}
		o.Emit("c47_msgclient", []any{"create", true, c47AnyJ(m.ClientState, true), c47AnyJ(m.ConsensusState, false)}, []any{c47Run(m.ValidateBasic)}, "regression-create/decoded-without-client-state")
		cs, _ := codectypes.NewAnyWithValue(c47TmClientState(hx.NewRng("fixed"), "chain-1"))
		cs.GetCachedValue().(*ibctm.ClientState).TrustingPeriod = time.Hour
		cs.GetCachedValue().(*ibctm.ClientState).LatestHeight = clienttypes.NewHeight(1, 10)
		cs.GetCachedValue().(*ibctm.ClientState).ProofSpecs = commitmenttypes.GetSDKSpecs()
		m2 := clienttypes.MsgCreateClient{ClientState: cs, Signer: c47Signer}
		o.Emit("c47_msgclient", []any{"create", true, c47AnyJ(cs, true), nil}, []any{c47Run(m2.ValidateBasic)}, "regression-create/nil-consensus-state")
		// and the ParseChainID panic reached through MsgCreateClient -> ClientState.Validate
		bad := ibctm.NewClientState("a-18446744073709551616", ibctm.DefaultTrustLevel, time.Hour, 2*time.Hour, time.Second,
			clienttypes.NewHeight(1, 10), commitmenttypes.GetSDKSpecs(), []string{"upgrade", "upgradedIBCState"})
		m3, err := clienttypes.NewMsgCreateClient(bad, ibctm.NewConsensusState(time.Unix(10, 0), commitmenttypes.NewMerkleRoot([]byte("r")), make([]byte, 32)), c47Signer)
		if err != nil {
			panic(err)
		}
		o.Emit("c47_msgclient", []any{"create", true, c47AnyJ(m3.ClientState, true), c47AnyJ(m3.ConsensusState, false)}, []any{c47Run(m3.ValidateBasic)}, "regression-create/chain-id-revision-overflow")
	}
}

// c47Samples: functions that are only sampled under recover() (library decoders in front of the modelled
// validators): proto/JSON unmarshalling of random and mutated bytes into each message type followed by
// ValidateBasic, ICA MetadataFromVersion, transfer UnmarshalPacketData, ack JSON decoding.
func c47Samples(r *hx.Rng, o *hx.Out, q int) {
	mut := func(bz []byte) []byte {
		out := append([]byte{}, bz...)
		if len(out) == 0 {
			return r.Bytes(r.Intn(8))
		}
		switch r.Intn(4) {
		case 0:
			out[r.Intn(len(out))] ^= byte(1 << uint(r.Intn(8)))
		case 1:
			out = out[:r.Intn(len(out))]
		case 2:
			j := r.Intn(len(out))
			out = append(out[:j], append(r.Bytes(1+r.Intn(3)), out[j:]...)...)
		default:
			out = r.Bytes(r.Intn(48))
		}
		return out
	}
	type vbm interface {
		proto.Message
		ValidateBasic() error
	}
	cs, _ := codectypes.NewAnyWithValue(c47TmClientState(hx.NewRng("seed"), "chain-1"))
	cons, _ := codectypes.NewAnyWithValue(ibctm.NewConsensusState(time.Unix(10, 0), commitmenttypes.NewMerkleRoot([]byte("r")), make([]byte, 32)))
	pkt := channeltypes.Packet{Sequence: 1, SourcePort: "transfer", SourceChannel: "channel-0", DestinationPort: "transfer", DestinationChannel: "channel-1", Data: []byte("d"), TimeoutTimestamp: 5}
	pkt2 := channeltypesv2.Packet{Sequence: 1, SourceClient: "07-tendermint-0", DestinationClient: "07-tendermint-1", TimeoutTimestamp: 5,
		Payloads: []channeltypesv2.Payload{{SourcePort: "transfer", DestinationPort: "transfer", Version: "ics20-1", Encoding: "application/json", Value: []byte("{}")}}}
	ch := channeltypes.Channel{State: channeltypes.INIT, Ordering: channeltypes.UNORDERED, Counterparty: channeltypes.Counterparty{PortId: "transfer"}, ConnectionHops: []string{"connection-0"}, Version: "v"}
	seeds := []struct {
		name  string
		msg   proto.Message
		fresh func() vbm
	}{
		{"channel.MsgChannelOpenInit", &channeltypes.MsgChannelOpenInit{PortId: "transfer", Channel: ch, Signer: c47Signer}, func() vbm { return &channeltypes.MsgChannelOpenInit{} }},
		{"channel.MsgChannelOpenTry", &channeltypes.MsgChannelOpenTry{PortId: "transfer", Channel: ch, ProofInit: []byte{1}, Signer: c47Signer}, func() vbm { return &channeltypes.MsgChannelOpenTry{} }},
		{"channel.MsgRecvPacket", &channeltypes.MsgRecvPacket{Packet: pkt, ProofCommitment: []byte{1}, Signer: c47Signer}, func() vbm { return &channeltypes.MsgRecvPacket{} }},
		{"channel.MsgAcknowledgement", &channeltypes.MsgAcknowledgement{Packet: pkt, Acknowledgement: []byte{1}, ProofAcked: []byte{1}, Signer: c47Signer}, func() vbm { return &channeltypes.MsgAcknowledgement{} }},
		{"channel.MsgTimeout", &channeltypes.MsgTimeout{Packet: pkt, ProofUnreceived: []byte{1}, NextSequenceRecv: 1, Signer: c47Signer}, func() vbm { return &channeltypes.MsgTimeout{} }},
		{"channelv2.MsgSendPacket", &channeltypesv2.MsgSendPacket{SourceClient: "07-tendermint-0", TimeoutTimestamp: 5, Payloads: pkt2.Payloads, Signer: c47Signer}, func() vbm { return &channeltypesv2.MsgSendPacket{} }},
		{"channelv2.MsgRecvPacket", &channeltypesv2.MsgRecvPacket{Packet: pkt2, ProofCommitment: []byte{1}, Signer: c47Signer}, func() vbm { return &channeltypesv2.MsgRecvPacket{} }},
		{"channelv2.MsgAcknowledgement", &channeltypesv2.MsgAcknowledgement{Packet: pkt2, Acknowledgement: channeltypesv2.Acknowledgement{AppAcknowledgements: [][]byte{{1}}}, ProofAcked: []byte{1}, Signer: c47Signer}, func() vbm { return &channeltypesv2.MsgAcknowledgement{} }},
		{"transfer.MsgTransfer", transfertypes.NewMsgTransfer("transfer", "channel-0", sdk.NewInt64Coin("uatom", 5), c47Signer, "bob", clienttypes.ZeroHeight(), 5, "memo"), func() vbm { return &transfertypes.MsgTransfer{} }},
		{"client.MsgCreateClient", &clienttypes.MsgCreateClient{ClientState: cs, ConsensusState: cons, Signer: c47Signer}, func() vbm { return &clienttypes.MsgCreateClient{} }},
		{"client.MsgUpgradeClient", &clienttypes.MsgUpgradeClient{ClientId: "07-tendermint-0", ClientState: cs, ConsensusState: cons, ProofUpgradeClient: []byte{1}, ProofUpgradeConsensusState: []byte{1}, Signer: c47Signer}, func() vbm { return &clienttypes.MsgUpgradeClient{} }},
		{"client.MsgUpdateClient", &clienttypes.MsgUpdateClient{ClientId: "07-tendermint-0", ClientMessage: cs, Signer: c47Signer}, func() vbm { return &clienttypes.MsgUpdateClient{} }},
	}
	for _, sd := range seeds {
		base, err := proto.Marshal(sd.msg)
		if err != nil {
			panic(err)
		}
		for i := 0; i < 25*q; i++ {
			bz := base
			tag := "proto-roundtrip"
			if i > 0 {
				bz, tag = mut(base), "proto-mutated"
			}
			decoded := "err"
			c := c47Run(func() error {
				m := sd.fresh()
				if err := proto.Unmarshal(bz, m); err != nil {
					return err
				}
				decoded = "ok"
				// Any fields are NOT unpacked here (no interface registry): the cached value is nil, as for a
				// message built by hand; the tx decoder's UnpackInterfaces step is library code
				return m.ValidateBasic()
			})
			o.Emit("c47_sample", []any{sd.name, hx.H(bz), decoded}, []any{c}, tag)
		}
	}
	// MsgTransfer has no pointer fields: decode + ValidateBasic
	// ICA MetadataFromVersion (JSON proto codec)
	for i := 0; i < 40*q; i++ {
		md := icatypes.NewDefaultMetadataString("connection-0", "connection-1")
		s := md
		tag := "valid"
		switch r.Intn(5) {
		case 0:
			s, tag = string(mut([]byte(md))), "mutated"
		case 1:
			s, tag = r.Pick([]string{"", "null", "{}", "[]", "{\"version\":1}", "{\"version\":null}", "{\"unknown\":\"x\"}", "ics27-1", "{\"version\":\"ics27-1\",\"version\":\"x\"}"}), "degenerate"
		case 2:
			s, tag = string(r.Bytes(r.Intn(32))), "raw"
		}
		c := c47Run(func() error { _, err := icatypes.MetadataFromVersion(s); return err })
		o.Emit("c47_sample", []any{"ica.MetadataFromVersion", hx.HS(s), ""}, []any{c}, tag)
	}
	// transfer UnmarshalPacketData over the three encodings
	good := transfertypes.NewFungibleTokenPacketData("transfer/channel-1/uatom", "5", "alice", "bob", "{\"forward\":{}}")
	for i := 0; i < 60*q; i++ {
		enc := r.Pick([]string{transfertypes.EncodingJSON, transfertypes.EncodingProtobuf, transfertypes.EncodingABI, "", "bogus"})
		mEnc := enc
		if mEnc == "" || mEnc == "bogus" {
			mEnc = transfertypes.EncodingJSON
		}
		bz, err := transfertypes.MarshalPacketData(good, transfertypes.V1, mEnc)
		if err != nil {
			panic(err)
		}
		tag := "valid/" + enc
		if r.Chance(3, 4) {
			bz, tag = mut(bz), "mutated/"+enc
		}
		ver := transfertypes.V1
		if r.Chance(1, 10) {
			ver = "ics20-2"
		}
		c := c47Run(func() error { _, err := transfertypes.UnmarshalPacketData(bz, ver, enc); return err })
		o.Emit("c47_sample", []any{"transfer.UnmarshalPacketData", hx.H(bz), enc + "|" + ver}, []any{c}, tag)
	}
	// acknowledgement bytes: JSON decode, ValidateBasic, re-marshal (transfer OnAcknowledgementPacket's prefix)
	okAck := channeltypes.NewResultAcknowledgement([]byte{1}).Acknowledgement()
	errAck := channeltypes.NewErrorAcknowledgement(transfertypes.ErrInvalidAmount).Acknowledgement()
	for i := 0; i < 60*q; i++ {
		bz := okAck
		if r.Bool() {
			bz = errAck
		}
		tag := "valid"
		switch r.Intn(4) {
		case 0:
			bz, tag = mut(bz), "mutated"
		case 1:
			bz, tag = []byte(r.Pick([]string{"{}", "null", "", "{\"result\":null}", "{\"error\":null}", "{\"result\":\"\"}", "{\"result\":\"AQ==\",\"error\":\"x\"}", "[]", "{\"result\":5}"})), "degenerate"
		}
		c := c47Run(func() error {
			var ack channeltypes.Acknowledgement
			if err := transfertypes.ModuleCdc.UnmarshalJSON(bz, &ack); err != nil {
				return err
			}
			_ = transfertypes.ModuleCdc.MustMarshalJSON(&ack)
			_ = ack.Success()
			return ack.ValidateBasic()
		})
		o.Emit("c47_sample", []any{"channel.Acknowledgement.json", hx.H(bz), ""}, []any{c}, tag)
	}
	// a few hostile lengths (bounded): only the length travels in the record
	for _, n := range []int{1 << 16, 1 << 20} {
		s := strings.Repeat("a/", n/2)
		c := c47Run(func() error { d := transfertypes.ExtractDenomFromPath(s); return d.Validate() })
		o.Emit("c47_sample", []any{"transfer.ExtractDenomFromPath+Validate.len", hx.HS(hx.U(uint64(n))), ""}, []any{c}, "hostile-length")
		memo := "{\"forward\":{\"receiver\":\"" + strings.Repeat("r", n) + "\",\"port\":\"transfer\",\"channel\":\"channel-0\"}}"
		c = c47Run(func() error {
			_, _, err := pfmtypesGet(memo)
			return err
		})
		o.Emit("c47_sample", []any{"pfm.GetPacketMetadataFromPacketdata.len", hx.HS(hx.U(uint64(n))), ""}, []any{c}, "hostile-length")
		id := strings.Repeat("x", n)
		c = c47Run(func() error { _, _, err := clienttypes.ParseClientIdentifier(id + "-1"); return err })
		o.Emit("c47_sample", []any{"client.ParseClientIdentifier.len", hx.HS(hx.U(uint64(n))), ""}, []any{c}, "hostile-length")
	}
}

func pfmtypesGet(memo string) (any, bool, error) {
	return c47PfmGet(memo)
}
