package codec

import (
	"math/big"

	"github.com/cosmos/gogoproto/proto"

	"github.com/cosmos/cosmos-sdk/codec/unknownproto"

	gmptypes "github.com/cosmos/ibc-go/v11/modules/apps/27-gmp/types"
	transfertypes "github.com/cosmos/ibc-go/v11/modules/apps/transfer/types"
	"github.com/cosmos/ibc-go/v11/modules/light-clients/attestations"

	"verif/harness/hx"
)

type c35Res = map[string]any

func c35Ok(v any) c35Res { return c35Res{"r": "ok", "v": v} }
func c35Err() c35Res     { return c35Res{"r": "err"} }
func c35Panic(msg string) c35Res {
	if len(msg) > 200 {
		msg = msg[:200]
	}
	return c35Res{"r": "panic", "msg": msg}
}

func c35Ftpd(d transfertypes.FungibleTokenPacketData) []string {
	return []string{hx.HS(d.Denom), hx.HS(d.Amount), hx.HS(d.Sender), hx.HS(d.Receiver), hx.HS(d.Memo)}
}

// ---- value generators -------------------------------------------------------------------------

var c35Lens = []int{0, 1, 31, 32, 33, 63, 64, 65}

var c35Unicode = []string{"", "uatom", "transfer/channel-0/uatom", "ibc/27394FB092D2ECCD56123C74F36E4C1F926001CEADA9CA97EA622B25F41E5EB2",
	"héllo wörld", "日本語のメモ", "😀🚀", "a\x00b", "\"quoted\" \\ back", "<script>&amp;</script>", "  ", "\xff\xfe", "\xc0\x80", "KK",
	"cosmos1qyqszqgpqyqszqgpqyqszqgpqyqszqgpjnp7du", "0x0000000000000000000000000000000000000001", "{\"forward\":{\"receiver\":\"x\",\"port\":\"transfer\",\"channel\":\"channel-1\"}}"}

func c35Str(r *hx.Rng) string {
	switch r.Intn(4) {
	case 0:
		return string(r.Bytes(c35Lens[r.Intn(len(c35Lens))]))
	case 1:
		return c35Unicode[r.Intn(len(c35Unicode))]
	case 2:
		return r.Str("abcdefghijklmnopqrstuvwxyz0123456789/-", 0, 70)
	default:
		return r.Str("ab/", c35Lens[r.Intn(len(c35Lens))], c35Lens[r.Intn(len(c35Lens))])
	}
}

func c35Amount(r *hx.Rng) (string, string) {
	two := big.NewInt(2)
	p := func(e int64) *big.Int { return new(big.Int).Exp(two, big.NewInt(e), nil) }
	switch r.Intn(16) {
	case 0:
		return "0", "zero"
	case 1:
		return "1", "one"
	case 2:
		return p(64).String(), "2^64"
	case 3:
		return new(big.Int).Sub(p(256), big.NewInt(1)).String(), "2^256-1"
	case 4:
		return p(256).String(), "2^256"
	case 5:
		return new(big.Int).Add(p(256), big.NewInt(int64(r.Intn(1000)))).String(), "above-2^256"
	case 6:
		return "000" + hx.U(r.U64B()), "leading-zeros"
	case 7:
		return "+" + hx.U(r.U64B()), "plus-sign"
	case 8:
		return "-" + hx.U(r.U64B()), "minus-sign"
	case 9:
		return r.Pick([]string{"", "+", "-", "1_000", "0x10", "1e5", "1.0", " 1", "1 ", "١٢٣", "abc", "-0", "+0", "--1", "1\x00"}), "malformed"
	case 10:
		return new(big.Int).SetBytes(r.Bytes(32)).String(), "random-256"
	case 11:
		return new(big.Int).SetBytes(r.Bytes(1 + r.Intn(40))).String(), "random-wide"
	case 12:
		return new(big.Int).Sub(p(255), big.NewInt(int64(r.Intn(3))-1)).String(), "near-2^255"
	default:
		return hx.U(r.U64B()), "u64"
	}
}

func c35GenFtpd(r *hx.Rng) (transfertypes.FungibleTokenPacketData, string) {
	a, tag := c35Amount(r)
	return transfertypes.FungibleTokenPacketData{Denom: c35Str(r), Amount: a, Sender: c35Str(r), Receiver: c35Str(r), Memo: c35Str(r)}, tag
}

// ---- ABI word-level mutations -----------------------------------------------------------------

func c35PickI(r *hx.Rng, xs []int64) int64 { return xs[r.Intn(len(xs))] }

func c35Word(v *big.Int) []byte {
	b := make([]byte, 32)
	v.FillBytes(b)
	return b
}

var c35HostileWords = func() [][]byte {
	two := big.NewInt(2)
	p := func(e int64) *big.Int { return new(big.Int).Exp(two, big.NewInt(e), nil) }
	var out [][]byte
	for _, v := range []*big.Int{big.NewInt(0), big.NewInt(1), big.NewInt(31), big.NewInt(32), big.NewInt(33), big.NewInt(64), big.NewInt(160), big.NewInt(1 << 20),
		p(31), p(32), p(62), new(big.Int).Sub(p(63), big.NewInt(33)), new(big.Int).Sub(p(63), big.NewInt(32)), new(big.Int).Sub(p(63), big.NewInt(1)), p(63), p(64), new(big.Int).Sub(p(64), big.NewInt(32)), p(255), new(big.Int).Sub(p(256), big.NewInt(32)), new(big.Int).Sub(p(256), big.NewInt(1))} {
		out = append(out, c35Word(v))
	}
	return out
}()

// c35MutateABI returns a one-defect variant of a valid encoding and the mutation label.
func c35MutateABI(r *hx.Rng, enc []byte) ([]byte, string) {
	bz := append([]byte{}, enc...)
	nw := len(bz) / 32
	switch r.Intn(9) {
	case 0: // one word replaced by a hostile value
		if nw == 0 {
			return bz, "unchanged"
		}
		w := r.Intn(nw)
		copy(bz[w*32:], c35HostileWords[r.Intn(len(c35HostileWords))])
		return bz, "word-hostile"
	case 1: // one word +/- small delta
		if nw == 0 {
			return bz, "unchanged"
		}
		w := r.Intn(nw)
		v := new(big.Int).SetBytes(bz[w*32 : w*32+32])
		v.Add(v, big.NewInt(int64(c35PickI(r, []int64{-33, -32, -1, 1, 31, 32, 33, 64}))))
		if v.Sign() < 0 {
			v.SetInt64(0)
		}
		if v.BitLen() > 256 {
			v.SetInt64(1)
		}
		copy(bz[w*32:], c35Word(v))
		return bz, "word-delta"
	case 2:
		return bz[:r.Intn(len(bz)+1)], "truncated"
	case 3:
		return append(bz, r.Bytes(1+r.Intn(70))...), "trailing"
	case 4:
		if len(bz) > 0 {
			bz[r.Intn(len(bz))] ^= byte(1 << uint(r.Intn(8)))
		}
		return bz, "bitflip"
	case 5: // drop one whole word
		if nw == 0 {
			return bz, "unchanged"
		}
		w := r.Intn(nw)
		return append(bz[:w*32], bz[w*32+32:]...), "word-dropped"
	case 6: // duplicate one word
		if nw == 0 {
			return bz, "unchanged"
		}
		w := r.Intn(nw)
		out := append([]byte{}, bz[:w*32+32]...)
		out = append(out, bz[w*32:]...)
		return out, "word-duplicated"
	case 7: // truncated to a word boundary
		if nw == 0 {
			return bz, "unchanged"
		}
		return bz[:r.Intn(nw+1)*32], "truncated-word"
	default: // non-zero padding
		if len(bz) > 0 {
			bz[len(bz)-1] ^= 0x5a
		}
		return bz, "padding"
	}
}

func c35RandomBytes(r *hx.Rng) ([]byte, string) {
	switch r.Intn(5) {
	case 0:
		return r.Bytes(r.Intn(40)), "random-short"
	case 1:
		return r.Bytes(32 * r.Intn(12)), "random-words"
	case 2:
		return make([]byte, 32*r.Intn(12)), "zeros"
	case 3: // plausible small words
		n := 1 + r.Intn(12)
		var out []byte
		for i := 0; i < n; i++ {
			out = append(out, c35Word(big.NewInt(int64(32*r.Intn(n+2))))...)
		}
		return out, "small-words"
	default:
		return r.Bytes(r.Intn(500)), "random"
	}
}

// ---- decoders under recover -------------------------------------------------------------------

func c35DecFtpdABI(bz []byte) c35Res {
	var res c35Res
	if p, msg := hx.Catch(func() {
		d, err := transfertypes.DecodeABIFungibleTokenPacketData(bz)
		if err != nil {
			res = c35Err()
		} else {
			res = c35Ok(c35Ftpd(*d))
		}
	}); p {
		return c35Panic(msg)
	}
	return res
}

// UnmarshalPacketData additionally runs ValidateBasic and converts the denom; recorded: outcome class and,
// when accepted, amount/sender/receiver/memo of the result (the real entry point of the transfer module).
func c35UnmarshalClass(bz []byte, enc string) c35Res {
	var res c35Res
	if p, msg := hx.Catch(func() {
		d, err := transfertypes.UnmarshalPacketData(bz, transfertypes.V1, enc)
		if err != nil {
			res = c35Err()
		} else {
			res = c35Ok([]string{hx.HS(d.Token.Amount), hx.HS(d.Sender), hx.HS(d.Receiver), hx.HS(d.Memo)})
		}
	}); p {
		return c35Panic(msg)
	}
	return res
}

// a packet data value that passes ValidateBasic
func c35GenValidFtpd(r *hx.Rng) transfertypes.FungibleTokenPacketData {
	denoms := []string{"uatom", "transfer/channel-0/uatom", "transfer/channel-7/transfer/channel-1/stake", "ibc/27394FB092D2ECCD56123C74F36E4C1F926001CEADA9CA97EA622B25F41E5EB2", "gamm/pool/1"}
	amt := new(big.Int).SetBytes(r.Bytes(1 + r.Intn(32)))
	if amt.Sign() == 0 {
		amt.SetInt64(1)
	}
	return transfertypes.FungibleTokenPacketData{Denom: denoms[r.Intn(len(denoms))], Amount: amt.String(),
		Sender: r.Str("abcdefghijklmnopqrstuvwxyz0123456789", 1, 70), Receiver: r.Str("abcdefghijklmnopqrstuvwxyz0123456789", 1, 70),
		Memo: r.Pick([]string{"", "memo", "{\"k\":1}", "日本"})}
}

// the protobuf branch of UnmarshalPacketData, statement by statement, without ValidateBasic
func c35DecProtoStrict(bz []byte) c35Res {
	var res c35Res
	if p, msg := hx.Catch(func() {
		var data proto.Message = &transfertypes.FungibleTokenPacketData{}
		if err := unknownproto.RejectUnknownFieldsStrict(bz, data, unknownproto.DefaultAnyResolver{}); err != nil {
			res = c35Err()
			return
		}
		if err := proto.Unmarshal(bz, data); err != nil {
			res = c35Err()
			return
		}
		res = c35Ok(c35Ftpd(*data.(*transfertypes.FungibleTokenPacketData)))
	}); p {
		return c35Panic(msg)
	}
	return res
}

func c35DecProtoLenient(bz []byte) c35Res {
	var res c35Res
	if p, msg := hx.Catch(func() {
		data := &transfertypes.FungibleTokenPacketData{}
		if err := proto.Unmarshal(bz, data); err != nil {
			res = c35Err()
			return
		}
		res = c35Ok(c35Ftpd(*data))
	}); p {
		return c35Panic(msg)
	}
	return res
}

func c35Varint(v uint64) []byte {
	var out []byte
	for v >= 0x80 {
		out = append(out, byte(v)|0x80)
		v >>= 7
	}
	return append(out, byte(v))
}

// non-minimal varint of the given total length
func c35VarintPadded(v uint64, n int) []byte {
	out := c35Varint(v)
	for len(out) < n {
		out[len(out)-1] |= 0x80
		out = append(out, 0)
	}
	return out
}

func c35MutateProto(r *hx.Rng, enc []byte) ([]byte, string) {
	bz := append([]byte{}, enc...)
	junk := r.Bytes(r.Intn(6))
	switch r.Intn(16) {
	case 0:
		return append(bz, append(c35Varint(6<<3|0), c35Varint(r.U64B())...)...), "unknown-varint-field"
	case 1:
		return append(bz, append(append(c35Varint(6<<3|2), c35Varint(uint64(len(junk)))...), junk...)...), "unknown-bytes-field"
	case 2:
		return append(append(append(c35Varint(uint64(7+r.Intn(2000))<<3|2), c35Varint(uint64(len(junk)))...), junk...), bz...), "unknown-field-first"
	case 3:
		return append(bz, append(c35Varint(1024<<3|0), 1)...), "unknown-noncritical"
	case 4:
		return append(bz, append(c35Varint(9<<3|1), r.Bytes(8)...)...), "unknown-fixed64"
	case 5:
		return append(bz, append(c35Varint(9<<3|5), r.Bytes(4)...)...), "unknown-fixed32"
	case 6:
		return append(bz, append(append(c35Varint(9<<3|3), append(c35Varint(1<<3|0), 5)...), c35Varint(9<<3|4)...)...), "unknown-group"
	case 7:
		return append(bz, append(c35Varint(uint64(1+r.Intn(5))<<3|uint64(c35PickI(r, []int64{0, 1, 3, 4, 5, 6, 7}))), r.Bytes(r.Intn(9))...)...), "known-wrong-wiretype"
	case 8: // known field with non-minimal tag / length varints
		f := uint64(1 + r.Intn(5))
		return append(bz, append(append(c35VarintPadded(f<<3|2, 1+r.Intn(10)), c35VarintPadded(uint64(len(junk)), 1+r.Intn(10))...), junk...)...), "nonminimal-varint"
	case 9: // duplicate of a known field (last wins), possibly empty
		f := uint64(1 + r.Intn(5))
		return append(bz, append(append(c35Varint(f<<3|2), c35Varint(uint64(len(junk)))...), junk...)...), "duplicate-field"
	case 10:
		return bz[:r.Intn(len(bz)+1)], "truncated"
	case 11: // length beyond the end / huge
		f := uint64(1 + r.Intn(5))
		l := []uint64{uint64(len(junk)) + 1, 1 << 31, 1 << 32, 1<<63 - 1, 1 << 63, 1<<64 - 1}[r.Intn(6)]
		return append(bz, append(append(c35Varint(f<<3|2), c35Varint(l)...), junk...)...), "length-overrun"
	case 12: // 10-byte varint whose last byte overflows 64 bits
		v := []byte{0xff, 0xff, 0xff, 0xff, 0xff, 0xff, 0xff, 0xff, 0xff, byte(2 + r.Intn(126))}
		return append(bz, v...), "varint-overflow"
	case 13: // field number 0 / field number aliasing modulo 2^32 / above MaxInt32
		n := []uint64{0, 1 << 32, 1<<32 + 1, 1<<31 + 1, 1 << 29, 1<<29 - 1, 1<<61 - 1}[r.Intn(7)]
		return append(bz, append(append(c35Varint(n<<3|2), c35Varint(uint64(len(junk)))...), junk...)...), "field-number-edge"
	case 14:
		if len(bz) > 0 {
			bz[r.Intn(len(bz))] ^= byte(1 << uint(r.Intn(8)))
		}
		return bz, "bitflip"
	default:
		return append(bz, r.Bytes(1+r.Intn(12))...), "trailing-random"
	}
}

// famC35 drives the ICS-20 ABI and protobuf codecs, the GMP ABI codec and the attestation ABI codec.
func famC35(r *hx.Rng, o *hx.Out) {
	n := hx.N(140, 1800)

	// ---- ICS-20, Solidity ABI: encode, decode back, decode mutations and random bytes
	for i := 0; i < n; i++ {
		d, tag := c35GenFtpd(r)
		if r.Chance(1, 3) {
			d, tag = c35GenValidFtpd(r), "valid"
		}
		var enc []byte
		var encRes c35Res
		if p, msg := hx.Catch(func() {
			bz, err := transfertypes.EncodeABIFungibleTokenPacketData(&d)
			if err != nil {
				encRes = c35Err()
			} else {
				enc = bz
				encRes = c35Ok(hx.H(bz))
			}
		}); p {
			encRes = c35Panic(msg)
		}
		var dec any
		if enc != nil {
			dec = c35DecFtpdABI(enc)
			// MarshalPacketData is the routing wrapper: must give the same bytes
			if bz, err := transfertypes.MarshalPacketData(d, transfertypes.V1, transfertypes.EncodingABI); err != nil || string(bz) != string(enc) {
				encRes["wrapper_differs"] = true
			}
		}
		var unm any
		if enc != nil {
			unm = c35UnmarshalClass(enc, transfertypes.EncodingABI)
		}
		o.Emit("abi_ftpd_rt", c35Ftpd(d), c35Res{"enc": encRes, "dec": dec, "unmarshal": unm}, tag)
		if enc != nil && i%2 == 0 {
			m, mtag := c35MutateABI(r, enc)
			o.Emit("abi_ftpd_dec", hx.H(m), c35Res{"dec": c35DecFtpdABI(m), "unmarshal": c35UnmarshalClass(m, transfertypes.EncodingABI)}, mtag)
		}
	}
	for i := 0; i < n/2; i++ {
		bz, tag := c35RandomBytes(r)
		o.Emit("abi_ftpd_dec", hx.H(bz), c35Res{"dec": c35DecFtpdABI(bz), "unmarshal": c35UnmarshalClass(bz, transfertypes.EncodingABI)}, tag)
	}

	// ---- ICS-20, protobuf
	for i := 0; i < n; i++ {
		d, tag := c35GenFtpd(r)
		if r.Chance(1, 2) {
			d, tag = c35GenValidFtpd(r), "valid"
		} else if r.Chance(1, 3) { // zero-value omission
			switch r.Intn(5) {
			case 0:
				d.Denom = ""
			case 1:
				d.Amount = ""
			case 2:
				d.Sender = ""
			case 3:
				d.Receiver = ""
			default:
				d.Memo = ""
			}
		}
		var enc []byte
		var encRes c35Res
		if p, msg := hx.Catch(func() {
			bz, err := transfertypes.MarshalPacketData(d, transfertypes.V1, transfertypes.EncodingProtobuf)
			if err != nil {
				encRes = c35Err()
			} else {
				enc = bz
				if enc == nil {
					enc = []byte{}
				}
				encRes = c35Ok(hx.H(bz))
			}
		}); p {
			encRes = c35Panic(msg)
		}
		var dec any
		if enc != nil {
			dec = c35DecProtoStrict(enc)
		}
		var unm any
		if enc != nil {
			unm = c35UnmarshalClass(enc, transfertypes.EncodingProtobuf)
		}
		o.Emit("proto_ftpd_rt", c35Ftpd(d), c35Res{"enc": encRes, "dec": dec, "unmarshal": unm}, tag)
		if enc != nil {
			m, mtag := c35MutateProto(r, enc)
			if tag == "valid" {
				mtag = "valid+" + mtag
			}
			o.Emit("proto_ftpd_dec", hx.H(m), c35Res{"dec": c35DecProtoStrict(m), "lenient": c35DecProtoLenient(m),
				"unmarshal": c35UnmarshalClass(m, transfertypes.EncodingProtobuf)}, mtag)
		}
	}
	for i := 0; i < n/2; i++ {
		bz := r.Bytes(r.Intn(60))
		o.Emit("proto_ftpd_dec", hx.H(bz), c35Res{"dec": c35DecProtoStrict(bz), "lenient": c35DecProtoLenient(bz),
			"unmarshal": c35UnmarshalClass(bz, transfertypes.EncodingProtobuf)}, "random")
	}

	c35Gmp(r, o, n)
	c35Att(r, o, n)
}

// ---- GMP ----------------------------------------------------------------------------------------

func c35GmpFields(d *gmptypes.GMPPacketData) []string {
	return []string{hx.HS(d.Sender), hx.HS(d.Receiver), hx.H(d.Salt), hx.H(d.Payload), hx.HS(d.Memo)}
}

func c35DecGmp(bz []byte) (c35Res, c35Res) {
	var raw, unm c35Res
	if p, msg := hx.Catch(func() {
		d, err := gmptypes.DecodeABIGMPPacketData(bz)
		if err != nil {
			raw = c35Err()
		} else {
			raw = c35Ok(c35GmpFields(d))
		}
	}); p {
		raw = c35Panic(msg)
	}
	if p, msg := hx.Catch(func() {
		d, err := gmptypes.UnmarshalPacketData(bz, gmptypes.Version, gmptypes.EncodingABI)
		if err != nil {
			unm = c35Err()
		} else {
			unm = c35Ok(c35GmpFields(d))
		}
	}); p {
		unm = c35Panic(msg)
	}
	return raw, unm
}

func c35DecGmpAck(bz []byte) (c35Res, c35Res) {
	var raw, unm c35Res
	if p, msg := hx.Catch(func() {
		d, err := gmptypes.DecodeABIAcknowledgement(bz)
		if err != nil {
			raw = c35Err()
		} else {
			raw = c35Ok(hx.H(d.Result))
		}
	}); p {
		raw = c35Panic(msg)
	}
	if p, msg := hx.Catch(func() {
		d, err := gmptypes.UnmarshalAcknowledgement(bz, gmptypes.Version, gmptypes.EncodingABI)
		if err != nil {
			unm = c35Err()
		} else {
			unm = c35Ok(hx.H(d.Result))
		}
	}); p {
		unm = c35Panic(msg)
	}
	return raw, unm
}

func c35Gmp(r *hx.Rng, o *hx.Out, n int) {
	for i := 0; i < n/2; i++ {
		d := gmptypes.NewGMPPacketData(c35Str(r), c35Str(r), []byte(c35Str(r)), []byte(c35Str(r)), c35Str(r))
		var enc []byte
		var encRes c35Res
		if p, msg := hx.Catch(func() {
			bz, err := gmptypes.EncodeABIGMPPacketData(&d)
			if err != nil {
				encRes = c35Err()
			} else {
				enc = bz
				encRes = c35Ok(hx.H(bz))
			}
		}); p {
			encRes = c35Panic(msg)
		}
		var raw, unm any
		if enc != nil {
			raw, unm = c35DecGmp(enc)
		}
		o.Emit("abi_gmp_rt", c35GmpFields(&d), c35Res{"enc": encRes, "dec": raw, "unmarshal": unm})
		if enc != nil {
			m, mtag := c35MutateABI(r, enc)
			mr, mu := c35DecGmp(m)
			o.Emit("abi_gmp_dec", hx.H(m), c35Res{"dec": mr, "unmarshal": mu}, mtag)
		}
	}
	for i := 0; i < n/4; i++ {
		bz, tag := c35RandomBytes(r)
		mr, mu := c35DecGmp(bz)
		o.Emit("abi_gmp_dec", hx.H(bz), c35Res{"dec": mr, "unmarshal": mu}, tag)
	}
	for i := 0; i < n/2; i++ {
		a := gmptypes.NewAcknowledgement([]byte(c35Str(r)))
		var enc []byte
		var encRes c35Res
		if p, msg := hx.Catch(func() {
			bz, err := gmptypes.EncodeABIAcknowledgement(&a)
			if err != nil {
				encRes = c35Err()
			} else {
				enc = bz
				encRes = c35Ok(hx.H(bz))
			}
		}); p {
			encRes = c35Panic(msg)
		}
		var raw, unm any
		if enc != nil {
			raw, unm = c35DecGmpAck(enc)
		}
		o.Emit("abi_gmpack_rt", hx.H(a.Result), c35Res{"enc": encRes, "dec": raw, "unmarshal": unm})
		var m []byte
		var mtag string
		if enc != nil && r.Bool() {
			m, mtag = c35MutateABI(r, enc)
		} else {
			m, mtag = c35RandomBytes(r)
		}
		mr, mu := c35DecGmpAck(m)
		o.Emit("abi_gmpack_dec", hx.H(m), c35Res{"dec": mr, "unmarshal": mu}, mtag)
	}
}

// ---- attestations -----------------------------------------------------------------------------

func c35DecStateAtt(bz []byte) c35Res {
	var res c35Res
	if p, msg := hx.Catch(func() {
		sa, err := attestations.ABIDecodeStateAttestation(bz)
		if err != nil {
			res = c35Err()
		} else {
			res = c35Ok([]string{hx.U(sa.Height), hx.U(sa.Timestamp)})
		}
	}); p {
		return c35Panic(msg)
	}
	return res
}

func c35Packets(ps []attestations.PacketCompact) [][]string {
	out := make([][]string, len(ps))
	for i, p := range ps {
		out[i] = []string{hx.H(p.Path), hx.H(p.Commitment)}
	}
	return out
}

func c35DecPacketAtt(bz []byte) c35Res {
	var res c35Res
	if p, msg := hx.Catch(func() {
		pa, err := attestations.ABIDecodePacketAttestation(bz)
		if err != nil {
			res = c35Err()
		} else {
			res = c35Ok(map[string]any{"h": hx.U(pa.Height), "ps": c35Packets(pa.Packets)})
		}
	}); p {
		return c35Panic(msg)
	}
	return res
}

func c35Att(r *hx.Rng, o *hx.Out, n int) {
	for i := 0; i < n/2; i++ {
		sa := attestations.StateAttestation{Height: r.U64B(), Timestamp: r.U64B()}
		tag := "arbitrary"
		if r.Chance(1, 2) {
			sa.Timestamp = (sa.Timestamp / 1_000_000_000) * 1_000_000_000
			tag = "whole-seconds"
		}
		var enc []byte
		var encRes c35Res
		if p, msg := hx.Catch(func() {
			bz, err := sa.ABIEncode()
			if err != nil {
				encRes = c35Err()
			} else {
				enc = bz
				encRes = c35Ok(hx.H(bz))
			}
		}); p {
			encRes = c35Panic(msg)
		}
		var dec any
		if enc != nil {
			dec = c35DecStateAtt(enc)
		}
		o.Emit("abi_stateatt_rt", []string{hx.U(sa.Height), hx.U(sa.Timestamp)}, c35Res{"enc": encRes, "dec": dec}, tag)
		var m []byte
		var mtag string
		if enc != nil && r.Bool() {
			m, mtag = c35MutateABI(r, enc)
		} else {
			m, mtag = c35RandomBytes(r)
		}
		o.Emit("abi_stateatt_dec", hx.H(m), c35Res{"dec": c35DecStateAtt(m)}, mtag)
	}
	for i := 0; i < n/2; i++ {
		np := []int{0, 1, 2, 3, 5}[r.Intn(5)]
		pa := attestations.PacketAttestation{Height: r.U64B()}
		tag := "bytes32"
		for j := 0; j < np; j++ {
			pl, cl := 32, 32
			if r.Chance(1, 6) {
				pl = []int{0, 1, 31, 33, 64}[r.Intn(5)]
				tag = "not-32-bytes"
			}
			if r.Chance(1, 6) {
				cl = []int{0, 1, 31, 33, 64}[r.Intn(5)]
				tag = "not-32-bytes"
			}
			pa.Packets = append(pa.Packets, attestations.PacketCompact{Path: r.Bytes(pl), Commitment: r.Bytes(cl)})
		}
		var enc []byte
		var encRes c35Res
		if p, msg := hx.Catch(func() {
			bz, err := pa.ABIEncode()
			if err != nil {
				encRes = c35Err()
			} else {
				enc = bz
				encRes = c35Ok(hx.H(bz))
			}
		}); p {
			encRes = c35Panic(msg)
		}
		var dec any
		if enc != nil {
			dec = c35DecPacketAtt(enc)
		}
		o.Emit("abi_packetatt_rt", map[string]any{"h": hx.U(pa.Height), "ps": c35Packets(pa.Packets)}, c35Res{"enc": encRes, "dec": dec}, tag)
		var m []byte
		var mtag string
		if enc != nil && r.Chance(2, 3) {
			m, mtag = c35MutateABI(r, enc)
		} else {
			m, mtag = c35RandomBytes(r)
		}
		o.Emit("abi_packetatt_dec", hx.H(m), c35Res{"dec": c35DecPacketAtt(m)}, mtag)
	}
}
