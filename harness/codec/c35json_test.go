package codec

import (
	"encoding/json"
	"strings"
	"unicode"
	"unicode/utf8"

	"github.com/cosmos/gogoproto/proto"

	transfertypes "github.com/cosmos/ibc-go/v11/modules/apps/transfer/types"

	"verif/harness/hx"
)

// C35 JSON path: encoding/json on transfertypes.FungibleTokenPacketData, exactly as
// MarshalPacketData / GetBytes / UnmarshalPacketData of modules/apps/transfer/types/packet.go use it.
//
// Record kinds (strings travel as hex):
//   c35j_enc     in  [denom amount sender receiver memo]
//                out {bz: MarshalPacketData(..V1, EncodingJSON) bytes, gb: GetBytes() bytes, mr: ok|err|panic,
//                     rt: raw json.Unmarshal of bz, upd: UnmarshalPacketData(bz) outcome}
//   c35j_dec     in  bz   out {r: ok|nil|err|panic, v: [5 fields] and vb: ValidateBasic()==nil when ok,
//                          upd: {r: ok|err|panic, v: [...]}}
//   c35j_foldtab in  []   out [[r, foldRune(r)] ...] for all non-ASCII runes that fold to ASCII
//   c35j_utf8    in  s    out {valid: utf8.ValidString(s), san: invalid bytes replaced by U+FFFD}

const c35jBS = "\\" // one backslash

func c35jEsc(hex4 string) string { return c35jBS + "u" + hex4 }

type c35jVal [5]string

func (v c35jVal) data() transfertypes.FungibleTokenPacketData {
	return transfertypes.FungibleTokenPacketData{Denom: v[0], Amount: v[1], Sender: v[2], Receiver: v[3], Memo: v[4]}
}

func c35jHexes(v [5]string) []string {
	out := make([]string, 5)
	for i := range v {
		out[i] = hx.HS(v[i])
	}
	return out
}

// c35jRaw performs the decoder call of UnmarshalPacketData's JSON branch verbatim.
func c35jRaw(bz []byte) map[string]any {
	var data proto.Message = &transfertypes.FungibleTokenPacketData{}
	var err error
	panicked, _ := hx.Catch(func() { err = json.Unmarshal(bz, &data) })
	switch {
	case panicked:
		return map[string]any{"r": "panic"}
	case err != nil:
		return map[string]any{"r": "err"}
	case data == nil:
		return map[string]any{"r": "nil"}
	}
	d, ok := data.(*transfertypes.FungibleTokenPacketData)
	if !ok || d == nil {
		return map[string]any{"r": "nil"}
	}
	// vb: does the decoded value pass the stateless validation UnmarshalPacketData applies next
	vb := false
	hx.Catch(func() { vb = d.ValidateBasic() == nil })
	return map[string]any{"r": "ok", "v": c35jHexes([5]string{d.Denom, d.Amount, d.Sender, d.Receiver, d.Memo}), "vb": vb}
}

// c35jUpd records the outcome class of the whole UnmarshalPacketData (decoder + ValidateBasic + conversion).
func c35jUpd(bz []byte) map[string]any {
	var itr transfertypes.InternalTransferRepresentation
	var err error
	panicked, _ := hx.Catch(func() { itr, err = transfertypes.UnmarshalPacketData(bz, transfertypes.V1, transfertypes.EncodingJSON) })
	switch {
	case panicked:
		return map[string]any{"r": "panic"}
	case err != nil:
		return map[string]any{"r": "err"}
	}
	return map[string]any{"r": "ok", "v": c35jHexes([5]string{itr.Token.Denom.Path(), itr.Token.Amount, itr.Sender, itr.Receiver, itr.Memo})}
}

func c35jEmitDec(o *hx.Out, bz []byte, tag string) {
	out := c35jRaw(bz)
	out["upd"] = c35jUpd(bz)
	o.Emit("c35j_dec", hx.H(bz), out, tag)
}

func c35jEmitEnc(o *hx.Out, v c35jVal, tag string) { c35jEmitEnc2(o, v, tag, true) }

func c35jEmitEnc2(o *hx.Out, v c35jVal, tag string, alsoDec bool) {
	data := v.data()
	var bz, gb []byte
	var err error
	mr := "ok"
	if p, _ := hx.Catch(func() { bz, err = transfertypes.MarshalPacketData(data, transfertypes.V1, transfertypes.EncodingJSON) }); p {
		mr = "panic"
	} else if err != nil {
		mr = "err"
	}
	if p, _ := hx.Catch(func() { gb = data.GetBytes() }); p {
		mr = "panic"
	}
	out := map[string]any{"bz": hx.H(bz), "gb": hx.H(gb), "mr": mr, "rt": c35jRaw(bz), "upd": c35jUpd(bz)}
	o.Emit("c35j_enc", c35jHexes(v), out, tag)
	// the encoder's output is also a decoder input of its own (model decodes it too)
	if alsoDec {
		c35jEmitDec(o, bz, "roundtrip:"+tag)
	}
}

func c35jSanitize(s string) string {
	var b strings.Builder
	for i := 0; i < len(s); {
		r, n := utf8.DecodeRuneInString(s[i:])
		if r == utf8.RuneError && n == 1 {
			b.WriteString("\xef\xbf\xbd")
		} else {
			b.WriteString(s[i : i+n])
		}
		i += n
	}
	return b.String()
}

func c35jEmitUtf8(o *hx.Out, s string, tag string) {
	o.Emit("c35j_utf8", hx.HS(s), map[string]any{"valid": utf8.ValidString(s), "san": hx.HS(c35jSanitize(s))}, tag)
}

// all ASCII bytes, in order
func c35jAllASCII() string {
	b := make([]byte, 128)
	for i := range b {
		b[i] = byte(i)
	}
	return string(b)
}

var c35jUnicode = []string{
	"é", "ß", "ſ", "K", " ", " ", "‧", "‪", "�", "￾", "￿",
	"\u0080", "߿", "ࠀ", "퟿", "", "\U00010000", "\U0001f600", "\U0010ffff",
	"日本語", "á", "​", "\xef\xbb\xbf",
}

var c35jInvalid = []string{
	"\x80", "\xbf", "\xc0\x80", "\xc1\xbf", "\xc2", "\xc2\x41", "\xe0\x80\x80", "\xe0\x9f\xbf", "\xe0\xa0", "\xe2\x80",
	"\xe2\x80\x41", "\xed\xa0\x80", "\xed\xbf\xbf", "\xed\x9f\xbf\xed", "\xf0\x80\x80\x80", "\xf0\x8f\xbf\xbf", "\xf0\x90\x80",
	"\xf0\x9f\x98", "\xf4\x90\x80\x80", "\xf4\x8f\xbf", "\xf5\x80\x80\x80", "\xf8\x88\x80\x80\x80", "\xfe", "\xff", "\xff\xfe\xfd",
	"\xef\xbf", "\xe2\x80\xa8\xff", "\xffA\xff", "\xc3\xa9\xc3",
}

var c35jAsciiSpecial = []string{
	"\"", "\\", "/", "\b", "\f", "\n", "\r", "\t", "\x00", "\x01", "\x1f", "\x7f", "<", ">", "&", "'", " ", "</script>",
	"a\"b\\c", "\\u0041", "\\n", "{\"denom\":\"x\"}", "null", "\"\"", "\\\"", "\\\\",
}

func c35jPiece(r *hx.Rng) string {
	switch r.Intn(8) {
	case 0:
		return c35jUnicode[r.Intn(len(c35jUnicode))]
	case 1:
		return c35jInvalid[r.Intn(len(c35jInvalid))]
	case 2:
		return c35jAsciiSpecial[r.Intn(len(c35jAsciiSpecial))]
	case 3:
		return string(r.Bytes(1 + r.Intn(4)))
	case 4:
		return string([]byte{byte(r.Intn(128))})
	default:
		return r.Str("abcdefghijklmnopqrstuvwxyzABCXYZ0123456789/-._ ", 1, 8)
	}
}

func c35jPieceValid(r *hx.Rng) string {
	switch r.Intn(5) {
	case 0:
		return c35jUnicode[r.Intn(len(c35jUnicode))]
	case 1:
		return c35jAsciiSpecial[r.Intn(len(c35jAsciiSpecial))]
	case 2:
		return string([]byte{byte(r.Intn(128))})
	default:
		return r.Str("abcdefghijklmnopqrstuvwxyzABCXYZ0123456789/-._ ", 1, 8)
	}
}

func c35jStr(r *hx.Rng, valid bool) string {
	n := r.Intn(5)
	var b strings.Builder
	for i := 0; i < n; i++ {
		if valid {
			b.WriteString(c35jPieceValid(r))
		} else {
			b.WriteString(c35jPiece(r))
		}
	}
	return b.String()
}

// a plausible valid transfer
func c35jBase(r *hx.Rng) c35jVal {
	denoms := []string{"uatom", "transfer/channel-0/uatom", "ibc/27394FB092D2ECCD56123C74F36E4C1F926001CEADA9CA97EA622B25F41E5EB2", "gamm/pool/1", "a"}
	amounts := []string{"1", "100", "18446744073709551616", "115792089237316195423570985008687907853269984665640564039457584007913129639935"}
	return c35jVal{denoms[r.Intn(len(denoms))], amounts[r.Intn(len(amounts))],
		"cosmos1" + r.Str("qpzry9x8gf2tvdw0s3jn54khce6mua7l", 38, 38), "0x" + r.Str("0123456789abcdef", 40, 40), ""}
}

// ---- JSON text generators for the decoder ---------------------------------------------------------

var c35jKnownKeys = []string{"denom", "amount", "sender", "receiver", "memo"}

func c35jWS(r *hx.Rng) string {
	if r.Chance(2, 3) {
		return ""
	}
	return r.Str(" \t\r\n", 1, 3)
}

// c35jJSONString renders s as a JSON string literal with randomly chosen (valid) escape forms.
func c35jJSONString(r *hx.Rng, s string) string {
	var b strings.Builder
	b.WriteByte('"')
	for _, c := range s { // runes; invalid bytes become U+FFFD which is what the decoder yields anyway
		switch {
		case c == '"' || c == '\\':
			b.WriteString(c35jBS + string(c))
		case c == '/' && r.Bool():
			b.WriteString(c35jBS + "/")
		case c == '\n' && r.Bool():
			b.WriteString(c35jBS + "n")
		case c == '\t' && r.Bool():
			b.WriteString(c35jBS + "t")
		case c < 0x20 || (c < 0x10000 && r.Chance(1, 6)):
			hexd := "0123456789abcdef"
			if r.Bool() {
				hexd = "0123456789ABCDEF"
			}
			b.WriteString(c35jBS + "u" + string([]byte{hexd[(c>>12)&15], hexd[(c>>8)&15], hexd[(c>>4)&15], hexd[c&15]}))
		case c >= 0x10000 && r.Bool():
			c -= 0x10000
			hi, lo := 0xd800+(c>>10), 0xdc00+(c&0x3ff)
			hexd := "0123456789abcdef"
			for _, u := range []rune{hi, lo} {
				b.WriteString(c35jBS + "u" + string([]byte{hexd[(u>>12)&15], hexd[(u>>8)&15], hexd[(u>>4)&15], hexd[u&15]}))
			}
		default:
			b.WriteString(string(c))
		}
	}
	b.WriteByte('"')
	return b.String()
}

var c35jNumbers = []string{"0", "-0", "1", "-1", "10", "1e5", "1E+5", "1e-5", "0.5", "-0.5e+10", "123456789012345678901234567890", "1.0E0", "0e0"}
var c35jBadNumbers = []string{"01", "1.", ".5", "-", "+1", "1e", "1e+", "0x10", "1.e5", "--1", "1.5.5", "00", "-01", "1e5.5", "Infinity", "NaN"}

// c35jGenValue writes a random syntactically valid JSON value.
func c35jGenValue(r *hx.Rng, depth int) string {
	k := r.Intn(8)
	if depth <= 0 && k >= 6 {
		k = r.Intn(6)
	}
	switch k {
	case 0:
		return "null"
	case 1:
		return "true"
	case 2:
		return "false"
	case 3:
		return c35jNumbers[r.Intn(len(c35jNumbers))]
	case 4, 5:
		return c35jJSONString(r, c35jStr(r, true))
	case 6:
		n := r.Intn(4)
		parts := make([]string, n)
		for i := range parts {
			parts[i] = c35jWS(r) + c35jGenValue(r, depth-1) + c35jWS(r)
		}
		if n == 0 {
			return "[" + c35jWS(r) + "]"
		}
		return "[" + strings.Join(parts, ",") + "]"
	default:
		n := r.Intn(4)
		parts := make([]string, n)
		for i := range parts {
			parts[i] = c35jWS(r) + c35jJSONString(r, c35jKeyAny(r)) + c35jWS(r) + ":" + c35jWS(r) + c35jGenValue(r, depth-1) + c35jWS(r)
		}
		if n == 0 {
			return "{" + c35jWS(r) + "}"
		}
		return "{" + strings.Join(parts, ",") + "}"
	}
}

func c35jCaseMix(r *hx.Rng, k string) string {
	b := []byte(k)
	for i := range b {
		if r.Bool() {
			b[i] = byte(unicode.ToUpper(rune(b[i])))
		}
	}
	return string(b)
}

// a key: known, case variant, long-s / Kelvin trick, near miss, unknown
func c35jKeyAny(r *hx.Rng) string {
	k := c35jKnownKeys[r.Intn(5)]
	switch r.Intn(10) {
	case 0, 1, 2, 3:
		return k
	case 4:
		return c35jCaseMix(r, k)
	case 5:
		return strings.ToUpper(k)
	case 6:
		return strings.NewReplacer("s", "ſ", "k", "K").Replace(k)
	case 7:
		near := []string{k + " ", " " + k, k + "s", k[1:], k + "\x00", strings.Replace(k, "e", "é", 1), strings.Replace(k, "m", "ḿ", 1), "ſender", "ſENDER", "memoK", "K", ""}
		return near[r.Intn(len(near))]
	default:
		return r.Str("abcxyzDENOMdenom_ ", 0, 6)
	}
}

// c35jGenObject writes a random valid top-level object aimed at the struct: known keys with string values
// mostly, sometimes null / wrong types, unknown keys with arbitrary values, duplicates.
func c35jGenObject(r *hx.Rng) string {
	n := r.Intn(7)
	parts := make([]string, n)
	for i := range parts {
		key := c35jKeyAny(r)
		var val string
		switch r.Intn(10) {
		case 0:
			val = "null"
		case 1:
			val = c35jGenValue(r, 2)
		default:
			val = c35jJSONString(r, c35jStr(r, true))
		}
		parts[i] = c35jWS(r) + c35jJSONString(r, key) + c35jWS(r) + ":" + c35jWS(r) + val + c35jWS(r)
	}
	if n == 0 {
		return c35jWS(r) + "{" + c35jWS(r) + "}" + c35jWS(r)
	}
	return c35jWS(r) + "{" + strings.Join(parts, ",") + "}" + c35jWS(r)
}

func c35jDirected() [][2]string {
	q := func(s string) string { return "\"" + s + "\"" }
	obj := func(k, v string) string { return "{" + q(k) + ":" + v + "}" }
	u := c35jEsc
	var cs [][2]string
	add := func(tag, s string) { cs = append(cs, [2]string{tag, s}) }

	// top level shapes
	for _, s := range []string{"", " ", "{}", " {} ", "{ }", "null", " null ", "nul", "nulll", "null null", "true", "false", "0", "-1.5e3", q("x"), "[]", "[1,2]", "[{}]",
		"{", "}", "{}}", "{}{}", "{} x", "{},", "\xef\xbb\xbf{}", "{}\x00", "\x00{}", "\t\n\r {}\t\n\r ", "\v{}", "\f{}", "{}\v", " {}", "{ }", "//c\n{}", "{}//c", "'{}'", "{'denom':'x'}"} {
		add("top", s)
	}
	// keys: exact, case variants, fold tricks, duplicates, escapes in keys
	for _, k := range []string{"denom", "DENOM", "Denom", "denoM", "dEnOm", "amount", "AMOUNT", "sender", "SENDER", "Sender", "receiver", "RECEIVER", "memo", "MEMO", "Memo",
		"ſender", "ſENDER", "SENDEſ", "ſ", "K", "memoK", "dénom", "DÉNOM", "denom ", " denom", "denom\x00", "denoms", "deno", "", "denoḿ",
		"\xc5\xbfender", "\xc5ender", "\xffdenom", "send\xc5\xbfr",
		u("0064") + "enom", u("0044") + "ENOM", u("017f") + "ender", u("017F") + "ender", u("212a") + "emo", c35jBS + "/denom", c35jBS + "u00", c35jBS + "x64enom", "de" + c35jBS + "nnom"} {
		add("key", obj(k, q("v")))
	}
	add("dup", "{"+q("denom")+":"+q("a")+","+q("denom")+":"+q("b")+"}")
	add("dup", "{"+q("denom")+":"+q("a")+","+q("DENOM")+":"+q("b")+"}")
	add("dup", "{"+q("DENOM")+":"+q("a")+","+q("denom")+":"+q("b")+"}")
	add("dup", "{"+q("denom")+":"+q("a")+","+q("denom")+":null}")
	add("dup", "{"+q("denom")+":"+q("a")+","+q("denom")+":1}")
	add("dup", "{"+q("denom")+":1,"+q("denom")+":"+q("a")+"}")
	add("dup", "{"+q("sender")+":"+q("a")+","+q("ſender")+":"+q("b")+","+q("receiver")+":"+q("c")+"}")
	// values for a known key
	for _, v := range []string{q(""), q("x"), "null", "true", "false", "0", "-0", "1e5", "1E+5", "1.5", "[]", "[1]", "{}", "{" + q("a") + ":1}", "[" + q("x") + "]", q("x") + q("y"), "nul", "tru", "fals", "True", "NULL", "undefined", "x", "'x'", q("x"), "",
		"01", "1.", ".5", "-", "+1", "1e", "1e+", "0x10", "--1", "1.5.5", "00", "-01", "NaN", "Infinity", "-Infinity"} {
		add("val", obj("denom", v))
		add("val-unknown", obj("other", v))
	}
	// numbers and bad numbers at every value position
	for _, n := range append(append([]string{}, c35jNumbers...), c35jBadNumbers...) {
		add("num", n)
		add("num", "{"+q("k")+":["+n+","+n+"],"+q("memo")+":"+q("m")+"}")
	}
	// string escapes
	for _, e := range []string{c35jBS + "\"", c35jBS + c35jBS, c35jBS + "/", c35jBS + "b", c35jBS + "f", c35jBS + "n", c35jBS + "r", c35jBS + "t", c35jBS + "'", c35jBS + "a", c35jBS + "v", c35jBS + "0", c35jBS + "x41", c35jBS + "U0041", c35jBS,
		u("0041"), u("00e9"), u("00E9"), u("0000"), u("001f"), u("007f"), u("2028"), u("2029"), u("fffd"), u("FFFF"), u("d83d") + u("de00"), u("D83D") + u("DE00"), u("d800"), u("dbff"), u("dc00"), u("dfff"),
		u("dc00") + u("d800"), u("d800") + u("d800"), u("d800") + u("dc00"), u("dbff") + u("dfff"), u("d800") + "A", u("d800") + c35jBS + "n", u("d800") + u("0041"), u("d800") + c35jBS + "u", u("d800") + c35jBS + "udc0", u("d83d") + c35jBS + "ude0g",
		u("d800") + "\xed\xb0\x80", c35jBS + "u", c35jBS + "u0", c35jBS + "u00", c35jBS + "u004", c35jBS + "u004g", c35jBS + "uGGGG", c35jBS + "u 041", c35jBS + "u+041", c35jBS + "u-041",
		"\x00", "\x01", "\x1f", "\n", "\t", "\r", "\x7f", "\x80", "\xff", "\xc0\x80", "\xed\xa0\x80", "\xf4\x90\x80\x80", "\xe2\x80", "\xe2\x80\xa8", "\xe2\x80\xa9", "\xf0\x9f\x98\x80", "\xef\xbf\xbd", "a\xffb", "\xc3", "\xc3\xa9\xc3",
		"<>&", "</script>"} {
		add("esc", obj("memo", q(e)))
		add("esc-embedded", obj("memo", q("a"+e+"z")))
	}
	// structure errors around a valid object
	base := "{" + q("denom") + ":" + q("uatom") + "," + q("amount") + ":" + q("1") + "}"
	for _, s := range []string{
		"{" + q("denom") + q("uatom") + "}", "{" + q("denom") + "::" + q("uatom") + "}", "{" + q("denom") + ":" + q("uatom") + ",}", "{," + q("denom") + ":" + q("uatom") + "}",
		"{" + q("denom") + ":" + q("uatom") + " " + q("amount") + ":" + q("1") + "}", "{" + q("denom") + ":" + q("uatom") + ",," + q("amount") + ":" + q("1") + "}",
		"{denom:" + q("uatom") + "}", "{" + q("denom") + ":uatom}", "{" + q("denom") + ":" + q("uatom") + "]", "[" + q("denom") + ":" + q("uatom") + "]", "{" + q("denom") + "}", "{" + q("denom") + ":}", "{:" + q("x") + "}", "{1:" + q("x") + "}", "{null:" + q("x") + "}",
		"{[" + q("denom") + "]:" + q("x") + "}", base + base, base + "," + base, "[" + base + "]", "{" + q("a") + ":" + base + "}", "{" + q("denom") + ":" + base + "}",
		"{" + q("x") + ":[1,2,{" + q("y") + ":[]," + q("z") + ":{" + q("denom") + ":" + q("inner") + "}}]," + q("denom") + ":" + q("outer") + "}",
		"{" + q("x") + ":" + q("}") + "," + q("denom") + ":" + q("a") + "}", "{" + q("x") + ":[" + q("]") + "," + q(c35jBS+"\"") + "]," + q("denom") + ":" + q("a") + "}",
		"{" + q("x") + ":{" + q("}") + ":" + q("{") + "}," + q("denom") + ":" + q("a") + "}", "{" + q("x") + ":[" + q(c35jBS+c35jBS) + "]," + q("denom") + ":" + q("a") + "}",
		"{" + q("x") + ":[1,2}," + q("denom") + ":" + q("a") + "}", "{" + q("x") + ":{" + q("a") + ":1]," + q("denom") + ":" + q("a") + "}", "{" + q("x") + ":[1 2]}", "{" + q("x") + ":[1,]}", "{" + q("x") + ":[,1]}", "{" + q("x") + ":[[],[[]],{}]}",
		"{" + q("x") + ":tru," + q("denom") + ":" + q("a") + "}", "{" + q("x") + ":truee}", "{" + q("x") + ":nullnull}", "{" + q("x") + ":-}", "{" + q("x") + ":1-2}", "{" + q("x") + ":1e5e5}", "{" + q("x") + ":1+2}",
	} {
		add("struct", s)
	}
	// whitespace of all four kinds everywhere; other whitespace-like bytes
	for _, w := range []string{" ", "\t", "\r", "\n", " \t\r\n", "\v", "\f", "\x00", " ", " ", "\xef\xbb\xbf"} {
		add("ws", w+"{"+w+q("denom")+w+":"+w+q("a")+w+","+w+q("memo")+w+":"+w+"null"+w+"}"+w)
		add("ws", "{"+q("denom")+":"+q("a")+"}"+w)
		add("ws", w+"{"+q("denom")+":"+q("a")+"}")
		add("ws", "{"+q("x")+":["+w+"1"+w+","+w+"true"+w+"]"+w+"}")
	}
	return cs
}

func c35jNest(open, close string, n int, inner string) string {
	return strings.Repeat(open, n) + inner + strings.Repeat(close, n)
}

// foldRune of encoding/json/fold.go
func c35jFoldRune(r rune) rune {
	for {
		r2 := unicode.SimpleFold(r)
		if r2 <= r {
			return r2
		}
		r = r2
	}
}

// famC35Json drives the JSON path of the ICS-20 packet data codec (encoding/json).
func famC35Json(r *hx.Rng, o *hx.Out) {
	// ---- Unicode-table fact the key-folding model relies on -------------------------------------
	tab := [][2]string{}
	for c := rune(0x80); c <= unicode.MaxRune; c++ {
		if f := c35jFoldRune(c); f < 0x80 {
			tab = append(tab, [2]string{hx.U(uint64(c)), hx.U(uint64(f))})
		}
	}
	o.Emit("c35j_foldtab", []string{}, tab, "all-runes")

	// ---- UTF-8 validity / sanitising model ------------------------------------------------------
	for _, s := range c35jUnicode {
		c35jEmitUtf8(o, s, "unicode")
	}
	for _, s := range c35jInvalid {
		c35jEmitUtf8(o, "a"+s+"é", "invalid-embedded")
	}
	for i := 0; i < hx.N(15, 400); i++ {
		c35jEmitUtf8(o, c35jStr(r, false), "mixed")
	}
	for i := 0; i < hx.N(15, 400); i++ {
		c35jEmitUtf8(o, string(r.Bytes(1+r.Intn(6))), "random")
	}
	// every lead byte with every class of second byte
	if hx.Tier() == "thorough" {
		for b0 := 0x80; b0 < 0x100; b0++ {
			for _, b1 := range []byte{0x00, 0x7f, 0x80, 0x8f, 0x90, 0x9f, 0xa0, 0xbf, 0xc0, 0xff} {
				c35jEmitUtf8(o, string([]byte{byte(b0), b1, 0x80, 0x80}), "lead-sweep")
				c35jEmitUtf8(o, string([]byte{byte(b0), b1, 0xbf}), "lead-sweep")
			}
		}
	}

	// ---- encoder (+ round trip through the real decoder) ----------------------------------------
	c35jEmitEnc(o, c35jVal{}, "empty")
	for i := 0; i < 5; i++ { // exactly one field set, exactly one field empty
		var one, four c35jVal
		four = c35jVal{"a", "b", "c", "d", "e"}
		one[i] = "x"
		four[i] = ""
		c35jEmitEnc(o, one, "omitempty-one")
		c35jEmitEnc(o, four, "omitempty-four")
	}
	for _, n := range []int{1, 31, 32, 33, 64} {
		v := c35jBase(r)
		v[r.Intn(5)] = r.Str("abcdefghijklmnopqrstuvwxyz0123456789", n, n)
		c35jEmitEnc(o, v, "len")
		c35jEmitEnc(o, c35jVal{strings.Repeat("\"", n), strings.Repeat(" ", n), strings.Repeat("\xff", n), strings.Repeat("<", n), strings.Repeat("\x00", n)}, "len-escaped")
	}
	c35jEmitEnc(o, c35jVal{c35jAllASCII(), "1", "s", "r", c35jAllASCII()}, "all-ascii")
	for _, s := range c35jAsciiSpecial {
		v := c35jBase(r)
		v[4] = s
		c35jEmitEnc(o, v, "ascii-special")
	}
	for _, s := range c35jUnicode {
		v := c35jBase(r)
		v[2+r.Intn(3)] = "x" + s + "y" + s
		c35jEmitEnc(o, v, "unicode")
	}
	for _, s := range c35jInvalid {
		v := c35jBase(r)
		v[r.Intn(5)] = s
		c35jEmitEnc(o, v, "invalid-utf8")
		v = c35jBase(r)
		v[4] = "é" + s + " " + s + "z"
		c35jEmitEnc(o, v, "invalid-utf8-embedded")
	}
	for i := 0; i < hx.N(15, 400); i++ {
		c35jEmitEnc2(o, c35jBase(r), "plausible", i%3 == 0)
	}
	for i := 0; i < hx.N(30, 1000); i++ {
		c35jEmitEnc2(o, c35jVal{c35jStr(r, true), c35jStr(r, true), c35jStr(r, true), c35jStr(r, true), c35jStr(r, true)}, "random-valid-utf8", i%3 == 0)
	}
	for i := 0; i < hx.N(30, 1000); i++ {
		c35jEmitEnc2(o, c35jVal{c35jStr(r, false), c35jStr(r, false), c35jStr(r, false), c35jStr(r, false), c35jStr(r, false)}, "random-any-bytes", i%3 == 0)
	}

	// ---- decoder on directed, mutated and random inputs -----------------------------------------
	for i, c := range c35jDirected() {
		if hx.Tier() == "quick" && (c[0] == "esc-embedded" || c[0] == "val-unknown") && i%3 != 0 {
			continue
		}
		c35jEmitDec(o, []byte(c[1]), c[0])
	}
	// truncation at every position of small encodings
	truncBases := []c35jVal{{"uatom", "1", "a", "b", ""}, {"a\"b", "é", "<", "\xff", "m\n"}}
	for _, v := range truncBases {
		bz := v.data().GetBytes()
		step := hx.N(2, 1)
		for i := 0; i < len(bz); i += step {
			c35jEmitDec(o, bz[:i], "truncated")
		}
	}
	// a valid transfer with something before / after the JSON value
	for i := 0; i < hx.N(6, 120); i++ {
		bz := c35jBase(r).data().GetBytes()
		for _, x := range []string{"x", "{}", ",", "]", "}", "\x00", " x", "null", "\n{}", " ", "\n", "\"\"", "0"} {
			c35jEmitDec(o, append(append([]byte{}, bz...), x...), "valid+trailing")
		}
		for _, x := range []string{"x", "{}", ",", "[", "\x00", " ", "\n\t", "\xef\xbb\xbf", "null"} {
			c35jEmitDec(o, append([]byte(x), bz...), "leading+valid")
		}
	}
	// one byte replaced / inserted / deleted, quotes removed
	for i := 0; i < hx.N(60, 1600); i++ {
		v := c35jBase(r)
		if r.Bool() {
			v[4] = c35jStr(r, true)
		}
		bz := v.data().GetBytes()
		p := r.Intn(len(bz))
		var m []byte
		tag := ""
		switch r.Intn(5) {
		case 0:
			m = append([]byte{}, bz...)
			m[p] ^= 1 << uint(r.Intn(8))
			tag = "bitflip"
		case 1:
			m = append([]byte{}, bz...)
			const repl = "\"\\{}[],: \x00\xffnt0-"
			m[p] = repl[r.Intn(len(repl))]
			tag = "byte-replaced"
		case 2:
			const ins = "\"\\{}[],: \n\x00\xff1e"
			m = append(append(append([]byte{}, bz[:p]...), ins[r.Intn(len(ins))]), bz[p:]...)
			tag = "byte-inserted"
		case 3:
			m = append(append([]byte{}, bz[:p]...), bz[p+1:]...)
			tag = "byte-deleted"
		default:
			qs := []int{}
			for j, c := range bz {
				if c == '"' {
					qs = append(qs, j)
				}
			}
			j := qs[r.Intn(len(qs))]
			m = append(append([]byte{}, bz[:j]...), bz[j+1:]...)
			tag = "quote-removed"
		}
		c35jEmitDec(o, m, tag)
	}
	// random valid objects aimed at the struct, and random valid JSON values of any type
	for i := 0; i < hx.N(70, 2000); i++ {
		c35jEmitDec(o, []byte(c35jGenObject(r)), "gen-object")
	}
	for i := 0; i < hx.N(20, 600); i++ {
		c35jEmitDec(o, []byte(c35jWS(r)+c35jGenValue(r, 3)+c35jWS(r)), "gen-value")
	}
	// token soup and random bytes
	toks := []string{"{", "}", "[", "]", ":", ",", "\"denom\"", "\"memo\"", "\"x\"", "\"", "1", "-", "0.5", "e", "null", "true", "false", " ", "\n", c35jBS, c35jBS + "u00", "\xff", "nul"}
	for i := 0; i < hx.N(40, 1200); i++ {
		var b strings.Builder
		n := 1 + r.Intn(8)
		for j := 0; j < n; j++ {
			b.WriteString(toks[r.Intn(len(toks))])
		}
		c35jEmitDec(o, []byte(b.String()), "token-soup")
	}
	for i := 0; i < hx.N(20, 800); i++ {
		c35jEmitDec(o, r.Bytes(r.Intn(24)), "random-bytes")
	}
	// deep nesting: top level and under an unknown key (the scanner's limit is 10000)
	depths := []int{1, 2, 50, 300}
	if hx.Tier() == "thorough" {
		depths = append(depths, 9998, 9999, 10000, 10001)
	}
	for _, n := range depths {
		c35jEmitDec(o, []byte(c35jNest("[", "]", n, "")), "deep-top-array")
		c35jEmitDec(o, []byte("{\"x\":"+c35jNest("[", "]", n, "1")+",\"denom\":\"a\"}"), "deep-unknown-array")
		c35jEmitDec(o, []byte("{\"x\":"+c35jNest("{\"a\":", "}", n, "null")+",\"denom\":\"a\"}"), "deep-unknown-object")
		c35jEmitDec(o, []byte("{\"memo\":"+c35jNest("[", "]", n, "")+",\"denom\":\"a\"}"), "deep-known-array")
		c35jEmitDec(o, []byte(c35jNest("[", "]", n, "")[:n+n/2]), "deep-unclosed")
	}
}
