"""C35 JSON record kinds of the `codec` family (loaded by tools/families/codec.py).
Every enc() must return a Gallina term of type Case35J (Codec/Corr35Json.v); codec.py wraps it in K35J.

Monitors below are independent of the Coq model: they use Python's own UTF-8 codec and json module as the
reference for what "the JSON encoding of the value" means."""
import json
from lib.coqgen import N, Z, b, hx, opt, lst

FIELDS = ["denom", "amount", "sender", "receiver", "memo"]
FFFD = b"\xef\xbf\xbd"


_hx = hx


def hx(h):  # noqa: F811
    """bytes term; long inputs are split so that no Coq string literal is deeper than the parser's stack allows"""
    if len(h) <= 4000:
        return _hx(h)
    parts = [h[i:i + 4000] for i in range(0, len(h), 4000)]
    t = _hx(parts[-1])
    for p in reversed(parts[:-1]):
        t = "(app %s %s)" % (_hx(p), t)
    return t


def _jftpd(v):
    return "(mkJFTPD %s)" % " ".join(hx(x) for x in v)


def _jres(o):
    r = o["r"]
    if r == "ok":
        return "(JOk %s)" % _jftpd(o["v"])
    return {"nil": "JNil", "err": "JErr", "panic": "JPanic"}[r]


# ---- independent UTF-8 reference -------------------------------------------------------------------

def _seq_len(bs, i):
    """Length of the well-formed UTF-8 sequence starting at bs[i], or 0 (Unicode Standard table 3-7)."""
    b0 = bs[i]
    if b0 < 0x80:
        return 1
    for n in (2, 3, 4):
        chunk = bs[i:i + n]
        if len(chunk) == n:
            try:
                chunk.decode("utf-8", errors="strict")
                return n
            except UnicodeDecodeError:
                pass
    return 0


def sanitize(bs):
    """Each byte that does not start a well-formed sequence -> U+FFFD (Go's policy: one per byte)."""
    out = bytearray()
    i = 0
    while i < len(bs):
        n = _seq_len(bs, i)
        if n == 0:
            out += FFFD
            i += 1
        else:
            out += bs[i:i + n]
            i += n
    return bytes(out)


def is_valid_utf8(bs):
    try:
        bs.decode("utf-8", errors="strict")
        return True
    except UnicodeDecodeError:
        return False


def _show(bs):
    return repr(bs)


# ---- c35j_enc --------------------------------------------------------------------------------------

def enc_enc(r):
    return "C35JEnc %s %s" % (_jftpd(r["in"]), hx(r["out"]["bz"]))


def spec_enc(r):
    x = [bytes.fromhex(h) for h in r["in"]]
    o = r["out"]
    if o["mr"] != "ok":
        return "MarshalPacketData/GetBytes(JSON) outcome %s on %s" % (o["mr"], [_show(v) for v in x])
    if o["bz"] != o["gb"]:
        return "MarshalPacketData(JSON) and GetBytes disagree on %s" % [_show(v) for v in x]
    if o["rt"]["r"] == "panic" or o["upd"]["r"] == "panic":
        return "decoding the JSON encoding of %s panicked" % [_show(v) for v in x]
    want = [sanitize(v) for v in x]
    valid = all(is_valid_utf8(v) for v in x)
    if valid:
        assert want == x
    got = None if o["rt"]["r"] != "ok" else [bytes.fromhex(h) for h in o["rt"]["v"]]
    if got != want:
        if valid:
            return "JSON round trip changed a valid value: %s -> %s (%s)" % ([_show(v) for v in x], o["rt"]["r"], None if got is None else [_show(v) for v in got])
        return "JSON round trip of a value with invalid UTF-8 %s gave %s (%s), expected the U+FFFD-sanitised value" % (
            [_show(v) for v in x], o["rt"]["r"], None if got is None else [_show(v) for v in got])
    # the bytes are a JSON text that an independent parser reads as exactly the non-empty fields, in order
    bz = bytes.fromhex(o["bz"])
    try:
        pairs = json.loads(bz.decode("utf-8"), object_pairs_hook=lambda p: p)
    except Exception as e:  # noqa
        return "JSON encoding of %s is not valid JSON/UTF-8 for an independent parser: %r (%s)" % ([_show(v) for v in x], bz, e)
    exp_pairs = [(k, v.decode("utf-8")) for k, v in zip(FIELDS, want) if len(v) > 0]
    if pairs != exp_pairs:
        return "JSON encoding of %s reads back as %r, expected %r" % ([_show(v) for v in x], pairs, exp_pairs)
    # whole UnmarshalPacketData: when it accepts, amount/sender/receiver/memo are the sent ones
    if valid and o["upd"]["r"] == "ok":
        u = [bytes.fromhex(h) for h in o["upd"]["v"]]
        if u[1:] != x[1:]:
            return "UnmarshalPacketData(MarshalPacketData(x)) changed the transfer: %s -> %s" % ([_show(v) for v in x], [_show(v) for v in u])
        if b"/" not in x[0] and u[0] != x[0]:
            return "UnmarshalPacketData(MarshalPacketData(x)) changed the base denomination: %s -> %s" % (_show(x[0]), _show(u[0]))
    return None


# ---- c35j_dec --------------------------------------------------------------------------------------

def enc_dec(r):
    return "C35JDec %s %s" % (hx(r["in"]), _jres(r["out"]))


class _Reject(Exception):
    pass


def _no_const(name):
    raise _Reject(name)


def _fold_key(k):
    out = []
    for ch in k:
        if "a" <= ch <= "z":
            out.append(ch.upper())
        elif ch == "ſ":
            out.append("S")
        elif ch == "K":
            out.append("K")
        else:
            out.append(ch)
    return "".join(out)


def _go_string(s):
    """Python str from json.loads (may hold lone surrogates) -> the bytes Go yields (lone surrogate -> U+FFFD)."""
    return "".join("�" if 0xD800 <= ord(ch) <= 0xDFFF else ch for ch in s).encode("utf-8")


def reference_decode(bz):
    """Independent reference for strictly-UTF-8 inputs: list of acceptable outcomes among
    ('ok', [5 bytes]) | ('nil',) | ('err',), or None (no opinion).  Unknown object keys may be ignored or
    rejected (the property does not say; ibc-go's UnmarshalJSON rejects them)."""
    try:
        text = bz.decode("utf-8", errors="strict")
    except UnicodeDecodeError:
        return None
    try:
        val = json.loads(text, object_pairs_hook=lambda p: ("obj", p), parse_constant=_no_const)
    except RecursionError:
        return None
    except (_Reject, ValueError):
        return [("err",)]
    if val is None:
        return [("nil",)]
    if not (isinstance(val, tuple) and len(val) == 2 and val[0] == "obj"):
        return [("err",)]
    cur = [b""] * 5
    bad = False
    unknown = False
    for k, v in val[1]:
        if k in FIELDS:
            idx = FIELDS.index(k)
        else:
            fk = _fold_key(_go_string(k).decode("utf-8"))
            up = [f.upper() for f in FIELDS]
            idx = up.index(fk) if fk in up else None
        if idx is None:
            unknown = True
            continue
        if isinstance(v, str):
            cur[idx] = _go_string(v)
        elif v is None:
            pass
        else:
            bad = True
    if bad:
        return [("err",)]
    return [("err",), ("ok", cur)] if unknown else [("ok", cur)]


def spec_dec(r):
    bz = bytes.fromhex(r["in"])
    o = r["out"]
    if o["r"] == "panic":
        return "json.Unmarshal into FungibleTokenPacketData panicked on %r" % bz
    if o["upd"]["r"] == "panic":
        return "UnmarshalPacketData(JSON) panicked on %r" % bz
    if o["r"] in ("err", "nil") and o["upd"]["r"] == "ok":
        return "UnmarshalPacketData(JSON) accepted %r although decoding failed (%s)" % (bz, o["r"])
    # UnmarshalPacketData = json.Unmarshal as above, then ValidateBasic, then the conversion: same transfer
    if o["r"] == "ok":
        if o["vb"] and o["upd"]["r"] != "ok":
            return "UnmarshalPacketData(JSON) rejected %r although it decodes to a value that passes ValidateBasic" % bz
        if not o["vb"] and o["upd"]["r"] == "ok":
            return "UnmarshalPacketData(JSON) accepted %r although the decoded value fails ValidateBasic" % bz
        if o["upd"]["r"] == "ok" and o["upd"]["v"][1:] != o["v"][1:]:
            return "UnmarshalPacketData(JSON) of %r returned %s, the decoded packet data is %s" % (
                bz, [bytes.fromhex(h) for h in o["upd"]["v"]], [bytes.fromhex(h) for h in o["v"]])
    ref = reference_decode(bz)
    if ref is None:
        return None
    got = (o["r"],) if o["r"] != "ok" else ("ok", [bytes.fromhex(h) for h in o["v"]])
    if got not in ref:
        return "JSON decoding of %r gave %s, an independent JSON reader gives %s" % (bz, got, ref)
    return None


# ---- c35j_foldtab / c35j_utf8 ----------------------------------------------------------------------

def enc_foldtab(r):
    return "C35JFoldTab %s" % lst(r["out"], lambda p: "(%s, %s)" % (N(p[0]), N(p[1])))


def spec_foldtab(r):
    return None


def enc_utf8(r):
    return "C35JUtf8 %s %s %s" % (hx(r["in"]), b(r["out"]["valid"]), hx(r["out"]["san"]))


def spec_utf8(r):
    s = bytes.fromhex(r["in"])
    if r["out"]["valid"] != is_valid_utf8(s) or bytes.fromhex(r["out"]["san"]) != sanitize(s):
        return "harness self-check: Go utf8 validity/sanitising of %r differs from the Python reference" % s
    return None


def _nontrivial_dec(r):
    return r["out"]["r"] == "ok"


KINDS35J = {
    "c35j_enc": dict(props=["C35"], enc=enc_enc, spec=spec_enc, exact=True),
    "c35j_dec": dict(props=["C35"], enc=enc_dec, spec=spec_dec, exact=True, nontrivial=_nontrivial_dec),
    "c35j_foldtab": dict(props=["C35"], enc=enc_foldtab, spec=spec_foldtab, exact=True),
    "c35j_utf8": dict(props=["C35"], enc=enc_utf8, spec=spec_utf8, exact=True),
}
KNOWN35J = {}
