package codec

import (
	"testing"

	"verif/harness/hx"
)

// TestFamily writes the trace of the `codec` scenario family (C35 encodings, C47 no panics).
func TestFamily(t *testing.T) {
	r := hx.NewRng("codec")
	o := hx.NewOut()
	defer o.Close()
	famC35(r, o)
	famC35Json(r, o)
	famC47(r, o)
	t.Logf("records=%d", o.Count())
}
