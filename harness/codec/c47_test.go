package codec

import (
	"encoding/json"
	"math"
	"sort"
	"strings"
	"time"

	sdkmath "cosmossdk.io/math"

	codectypes "github.com/cosmos/cosmos-sdk/codec/types"
	sdk "github.com/cosmos/cosmos-sdk/types"

	icatypes "github.com/cosmos/ibc-go/v11/modules/apps/27-interchain-accounts/types"
	cbtypes "github.com/cosmos/ibc-go/v11/modules/apps/callbacks/types"
	pfmtypes "github.com/cosmos/ibc-go/v11/modules/apps/packet-forward-middleware/types"
	transfertypes "github.com/cosmos/ibc-go/v11/modules/apps/transfer/types"
	clienttypes "github.com/cosmos/ibc-go/v11/modules/core/02-client/types"
	connectiontypes "github.com/cosmos/ibc-go/v11/modules/core/03-connection/types"
	channeltypes "github.com/cosmos/ibc-go/v11/modules/core/04-channel/types"
	channeltypesv2 "github.com/cosmos/ibc-go/v11/modules/core/04-channel/v2/types"
	commitmenttypes "github.com/cosmos/ibc-go/v11/modules/core/23-commitment/types"
	host "github.com/cosmos/ibc-go/v11/modules/core/24-host"
	ibctm "github.com/cosmos/ibc-go/v11/modules/light-clients/07-tendermint"

	"verif/harness/hx"
)

// c47Run runs f under recover() and returns the outcome class of the call.
func c47Run(f func() error) string {
	var err error
	p, _ := hx.Catch(func() { err = f() })
	if p {
		return "panic"
	}
	if err != nil {
		return "err"
	}
	return "ok"
}

const c47Signer = "cosmos1qqqqqqqqqqqqqqqqqqqqqqqqqqqqqqqqnrql8a"

func c47SignerOK(s string) bool {
	_, err := sdk.AccAddressFromBech32(s)
	return err == nil
}

// c47Signer draws a signer string: mostly valid.
func c47GenSigner(r *hx.Rng) string {
	switch r.Intn(8) {
	case 0:
		return ""
	case 1:
		return "cosmos1" + r.Str("qpzry9x8gf2tvdw0s3jn54khce6mua7l", 0, 40)
	case 2:
		return "  "
	default:
		return c47Signer
	}
}

const c47IDChars = "abcdefghijklmnopqrstuvwxyzABCDEFGHIJKLMNOPQRSTUVWXYZ0123456789._+-#[]<>"

var c47Lens = []int{0, 1, 2, 3, 4, 5, 7, 8, 9, 10, 11, 20, 63, 64, 65, 127, 128, 129, 200}

var c47Spaces = []string{" ", "\t", "\n", "\v", "\f", "\r", "\u0085", "\u00a0", "\u1680", "\u2000", "\u2005", "\u200a", "\u2028", "\u2029", "\u202f", "\u205f", "\u3000"}

// c47Blank draws a string made of Unicode white space only (TrimSpace(s) == "").
func c47Blank(r *hx.Rng) string {
	n := r.Intn(5)
	var sb strings.Builder
	for i := 0; i < n; i++ {
		sb.WriteString(c47Spaces[r.Intn(len(c47Spaces))])
	}
	return sb.String()
}

// c47ID draws an identifier-like string; minl/maxl are the limits of the validator it is meant for.
func c47ID(r *hx.Rng, minl, maxl int) (string, string) {
	switch r.Intn(12) {
	case 0:
		return c47Blank(r), "blank"
	case 1:
		s := r.Str(c47IDChars, minl, maxl)
		i := r.Intn(len(s) + 1)
		return s[:i] + "/" + s[i:], "slash"
	case 2:
		return r.Str(c47IDChars, 0, minl), "short"
	case 3:
		return r.Str(c47IDChars, maxl, maxl+2), "long"
	case 4:
		s := r.Str(c47IDChars, minl, maxl-4)
		bad := []string{"\x00", "\u00e9", "\u00a0", "\u2003", "\xff", "*", "\n", "$", "\xc2", "\xe2\x80", "\u200b"}
		i := r.Intn(len(s) + 1)
		return s[:i] + bad[r.Intn(len(bad))] + s[i:], "badchar"
	case 5:
		return r.Str(c47IDChars, c47Lens[r.Intn(len(c47Lens))], c47Lens[r.Intn(len(c47Lens))]), "boundary-len"
	case 6:
		return c47Blank(r) + "\xe2\x80" + c47Blank(r), "almost-blank"
	default:
		return r.Str(c47IDChars, minl, maxl), "valid"
	}
}

func c47Port(r *hx.Rng) string {
	if r.Chance(5, 6) {
		return r.Pick([]string{"transfer", "icahost", "icacontroller-abc", "mock", "p1"})
	}
	s, _ := c47ID(r, 2, 128)
	return s
}

func c47Chan(r *hx.Rng) string {
	if r.Chance(5, 6) {
		return "channel-" + hx.U(uint64(r.Intn(1000)))
	}
	s, _ := c47ID(r, 8, 64)
	return s
}

// c47SeqID draws strings around the "<prefix>{N}" identifier format.
func c47SeqID(r *hx.Rng, prefix string) (string, string) {
	digits := "0123456789"
	switch r.Intn(12) {
	case 0:
		return prefix + hx.U(r.U64B()), "valid"
	case 1:
		return prefix + r.Str(digits, 19, 22), "digits-19-22"
	case 2:
		return prefix + "18446744073709551616", "overflow"
	case 3:
		return prefix + prefix + r.Str(digits, 1, 3), "double-prefix"
	case 4:
		return prefix, "prefix-only"
	case 5:
		return r.Str(digits, 1, 3) + prefix + r.Str(digits, 1, 3), "not-at-start"
	case 6:
		return prefix + r.Str(digits, 1, 3) + prefix, "prefix-at-end"
	case 7:
		return prefix + r.Str(digits+"-+_ x", 0, 6), "junk-seq"
	case 8:
		return prefix[:r.Intn(len(prefix))] + r.Str(digits, 0, 3), "cut-prefix"
	case 9:
		return prefix + "00" + r.Str(digits, 0, 18), "leading-zeros"
	case 10:
		return prefix + r.Str(digits, 1, 5) + "\n", "newline"
	default:
		return r.Str(c47IDChars+"-", 0, 24), "random"
	}
}

func c47ClientID(r *hx.Rng) (string, string) {
	digits := "0123456789"
	w := "abcXYZ019_"
	switch r.Intn(14) {
	case 0:
		return "07-tendermint-" + hx.U(r.U64B()), "valid-tm"
	case 1:
		return "09-localhost", "localhost"
	case 2:
		return r.Str(w, 1, 6) + "-" + r.Str(digits, 1, 22), "word-digits"
	case 3:
		return r.Str(w+"-", 0, 8) + "-" + r.Str(digits, 0, 3), "dashes"
	case 4:
		return "-" + r.Str(w, 1, 4) + "-" + r.Str(digits, 1, 3), "leading-dash"
	case 5:
		return r.Str(w, 1, 4) + "--" + r.Str(digits, 1, 3), "double-dash"
	case 6:
		return r.Str(w, 1, 4) + "-" + r.Str(w, 1, 3) + "-" + "18446744073709551616", "overflow"
	case 7:
		return r.Str(w, 1, 4) + " -" + r.Str(digits, 1, 3), "space"
	case 8:
		return r.Str(digits, 1, 4), "digits-only"
	case 9:
		return r.Str(w, 1, 4) + "-" + r.Str(digits, 1, 3) + "\n", "newline"
	case 10:
		return r.Str(w, 1, 4) + "é-" + r.Str(digits, 1, 3), "unicode"
	case 11:
		return r.Str(digits, 1, 3) + "-" + r.Str(digits, 1, 3) + "-" + r.Str(digits, 1, 3), "all-digits"
	default:
		return r.Str(w+"-", 0, 12), "random"
	}
}

func c47DenomPath(r *hx.Rng) (string, string) {
	base := []string{"uatom", "gamm/pool/1", "", "a/b", "ibc/ABCDEF", " ", "stake", "channel-3", "x/channel-9", "07-tendermint-0"}
	hop := func() string {
		p := c47Port(r)
		switch r.Intn(6) {
		case 0:
			return p + "/07-tendermint-" + hx.U(uint64(r.Intn(50)))
		case 1:
			c, _ := c47SeqID(r, "channel-")
			return p + "/" + c
		case 2:
			c, _ := c47ClientID(r)
			return p + "/" + c
		default:
			return p + "/channel-" + hx.U(uint64(r.Intn(50)))
		}
	}
	switch r.Intn(10) {
	case 0:
		return r.Pick(base), "native"
	case 1:
		return hop() + "/" + r.Pick(base), "one-hop"
	case 2:
		return hop() + "/" + hop() + "/" + r.Pick(base), "two-hops"
	case 3:
		return hop(), "hop-only"
	case 4:
		return hop() + "/", "trailing-slash"
	case 5:
		return "/" + hop() + "/" + r.Pick(base), "leading-slash"
	case 6:
		return strings.Repeat("/", r.Intn(6)), "slashes"
	case 7:
		n := r.Intn(7)
		parts := make([]string, n)
		for i := range parts {
			parts[i] = r.Pick([]string{"transfer", "channel-1", "", "07-tendermint-2", "x", "channel-", "09-localhost"})
		}
		return strings.Join(parts, "/"), "segments"
	case 8:
		var sb strings.Builder
		for i, n := 0, 1+r.Intn(6); i < n; i++ {
			sb.WriteString(hop() + "/")
		}
		return sb.String() + r.Pick(base), "many-hops"
	default:
		return hop() + "/" + hop(), "even-all-hops"
	}
}

// ---------------------------------------------------------------------------------------- JSON trees

// c47Tree renders a decoded JSON value (encoding/json into any) as the tagged tree the model reads.
func c47Tree(v any) any {
	switch x := v.(type) {
	case nil:
		return []any{"n"}
	case bool:
		return []any{"b", x}
	case float64:
		neg := math.Signbit(x)
		frac, exp := math.Frexp(math.Abs(x))
		mant := uint64(frac * (1 << 53))
		if x == 0 {
			mant, exp = 0, 53
		}
		return []any{"f", neg, hx.U(mant), exp - 53}
	case string:
		_, derr := time.ParseDuration(x)
		return []any{"s", hx.HS(x), derr == nil, c47Parse(x)}
	case []any:
		l := make([]any, len(x))
		for i := range x {
			l[i] = c47Tree(x[i])
		}
		return []any{"a", l}
	case map[string]any:
		return []any{"o", c47Members(x)}
	default:
		panic("c47Tree: unexpected type")
	}
}

func c47Members(m map[string]any) any {
	keys := make([]string, 0, len(m))
	for k := range m {
		keys = append(keys, k)
	}
	sort.Strings(keys)
	l := make([]any, len(keys))
	for i, k := range keys {
		l[i] = []any{hx.HS(k), c47Tree(m[k])}
	}
	return l
}

// c47Parse is what json.Unmarshal([]byte(s), &map[string]any{}) gives: error, nil map, or members.
func c47Parse(s string) any {
	var m map[string]any
	if err := json.Unmarshal([]byte(s), &m); err != nil {
		return []any{"e"}
	}
	if m == nil {
		return []any{"z"}
	}
	return []any{"o", c47Members(m)}
}

func c47JSON(v any) string {
	bz, err := json.Marshal(v)
	if err != nil {
		panic(err)
	}
	return string(bz)
}

// c47Weird draws a JSON value of every type.
func c47Weird(r *hx.Rng) any {
	switch r.Intn(16) {
	case 0:
		return nil
	case 1:
		return r.Bool()
	case 2:
		return float64(r.Intn(300))
	case 3:
		return -float64(r.Intn(3)) - 0.5
	case 4:
		return 255.5
	case 5:
		return 1e300
	case 6:
		return "10m"
	case 7:
		return ""
	case 8:
		return []any{"a", 1.0}
	case 9:
		return map[string]any{}
	case 10:
		return map[string]any{"forward": "x"}
	case 11:
		return "null"
	case 12:
		return hx.U(r.U64B())
	case 13:
		return math.Copysign(0, -1)
	case 14:
		return "{\"forward\":{\"receiver\":\"r\",\"port\":\"transfer\",\"channel\":\"channel-2\"}}"
	default:
		return r.Str("abc 1", 0, 5)
	}
}

func c47ValidForward(r *hx.Rng, depth int) map[string]any {
	f := map[string]any{"receiver": r.Pick([]string{"cosmos1xyz", "bob", "r"}), "port": c47Port(r), "channel": c47Chan(r)}
	if r.Bool() {
		f["timeout"] = r.Pick([]string{"10m", "1h30m", "500ms", "1.5h"})
	} else if r.Bool() {
		f["timeout"] = float64(r.Intn(1000000))
	}
	if r.Bool() {
		f["retries"] = float64(r.Intn(256))
	}
	if depth > 0 && r.Chance(2, 3) {
		nxt := map[string]any{"forward": c47ValidForward(r, depth-1)}
		if r.Bool() {
			f["next"] = nxt
		} else {
			f["next"] = c47JSON(nxt)
		}
	}
	return f
}

var c47FwdKeys = []string{"receiver", "port", "channel", "timeout", "retries", "next"}

// c47ForwardMemo draws a memo for the forward-metadata parser; guard-directed.
func c47ForwardMemo(r *hx.Rng) (string, string) {
	mode := r.Intn(14)
	f := c47ValidForward(r, 2)
	switch mode {
	case 0:
		return c47JSON(map[string]any{"forward": f}), "valid"
	case 1: // one key of the top forward object gets a value of an arbitrary JSON type
		k := c47FwdKeys[r.Intn(len(c47FwdKeys))]
		f[k] = c47Weird(r)
		return c47JSON(map[string]any{"forward": f}), "mut-" + k
	case 2:
		k := c47FwdKeys[r.Intn(3)]
		delete(f, k)
		return c47JSON(map[string]any{"forward": f}), "missing-" + k
	case 3:
		return c47JSON(map[string]any{"forward": c47Weird(r)}), "forward-weird"
	case 4:
		return r.Pick([]string{"", "null", "[]", "{}", "{", "\"forward\"", "{\"forward\":}", "123", "{\"forward\":null}", "{\"Forward\":{}}", " {} ", "{\"forward\":{}}"}), "degenerate"
	case 5: // retries boundaries
		f["retries"] = c47PickAny(r, []any{0.0, 255.0, 256.0, -1.0, 254.999, 255.0000001, 1e19, -1e-9, "3", 7.9})
		return c47JSON(map[string]any{"forward": f}), "retries-boundary"
	case 6:
		f["timeout"] = c47PickAny(r, []any{"10m", "-5s", "abc", "", "1e3s", -3.0, 9.3e18, 1e30, "9999999999h", true, []any{}})
		return c47JSON(map[string]any{"forward": f}), "timeout-variants"
	case 7: // next given as nested structure with a defect one level down
		inner := c47ValidForward(r, 1)
		k := c47FwdKeys[r.Intn(len(c47FwdKeys))]
		inner[k] = c47Weird(r)
		if r.Bool() {
			f["next"] = map[string]any{"forward": inner}
		} else {
			f["next"] = c47JSON(map[string]any{"forward": inner})
		}
		return c47JSON(map[string]any{"forward": f}), "next-mut-" + k
	case 8:
		f["next"] = c47PickAny(r, []any{"null", "{}", "{\"forward\":null}", "{\"forward\":\"x\"}", "[]", "not json", map[string]any{"forward": nil}, map[string]any{"forward": 3.0}, map[string]any{}})
		return c47JSON(map[string]any{"forward": f}), "next-degenerate"
	case 9: // deep nesting, alternating object / string form
		d := 3 + r.Intn(4)
		cur := c47ValidForward(r, 0)
		for i := 0; i < d; i++ {
			up := c47ValidForward(r, 0)
			if i%2 == 0 || i > 3 {
				up["next"] = map[string]any{"forward": cur}
			} else {
				up["next"] = c47JSON(map[string]any{"forward": cur})
			}
			cur = up
		}
		return c47JSON(map[string]any{"forward": cur}), "deep"
	case 10: // duplicate keys / other keys around
		return "{\"forward\":1,\"forward\":" + c47JSON(f) + ",\"x\":[1,2,{\"y\":null}]}", "dup-keys"
	case 11: // raw bytes
		return string(r.Bytes(r.Intn(40))), "raw-bytes"
	case 12: // mutated valid memo: one byte flipped / cut
		s := []byte(c47JSON(map[string]any{"forward": f}))
		if r.Bool() {
			s[r.Intn(len(s))] ^= byte(1 << uint(r.Intn(8)))
		} else {
			s = s[:r.Intn(len(s))]
		}
		return string(s), "mutated-bytes"
	default:
		return c47JSON(map[string]any{"forward": f, "src_callback": map[string]any{"address": "a"}}), "valid-with-callback"
	}
}

func c47Fmd(m pfmtypes.ForwardMetadata) any {
	var retries, next any
	if m.Retries != nil {
		retries = hx.U(uint64(*m.Retries))
	}
	if m.Next != nil {
		next = c47Fmd(m.Next.Forward)
	}
	return []any{hx.HS(m.Receiver), hx.HS(m.Port), hx.HS(m.Channel), retries, next}
}

func c47CallbackMemo(r *hx.Rng, key string) (string, string) {
	cb := map[string]any{"address": r.Pick([]string{"cosmos1contract", "0xabc", "c"})}
	if r.Bool() {
		cb["gas_limit"] = hx.U(r.U64B())
	}
	if r.Bool() {
		cb["calldata"] = hx.H(r.Bytes(r.Intn(8)))
	}
	switch r.Intn(12) {
	case 0:
		return c47JSON(map[string]any{key: cb}), "valid"
	case 1:
		cb["address"] = c47Weird(r)
		return c47JSON(map[string]any{key: cb}), "mut-address"
	case 2:
		cb["gas_limit"] = c47PickAny(r, []any{"0", "", "18446744073709551615", "18446744073709551616", "-1", "1_000", "+5", "0x10", 5.0, nil, "  7", true, []any{}, "007"})
		return c47JSON(map[string]any{key: cb}), "gas-variants"
	case 3:
		cb["calldata"] = c47PickAny(r, []any{"", "0", "zz", "ABCDEF", "abcde", 5.0, nil, map[string]any{}, "0x12"})
		return c47JSON(map[string]any{key: cb}), "calldata-variants"
	case 4:
		cb["address"] = r.Pick([]string{"", " ", "\t\n", "\u00a0", "\u2003 \u3000", "\u200b", "\u0085"})
		return c47JSON(map[string]any{key: cb}), "blank-address"
	case 5:
		delete(cb, "address")
		return c47JSON(map[string]any{key: cb}), "missing-address"
	case 6:
		return c47JSON(map[string]any{key: c47Weird(r)}), "key-weird"
	case 7:
		other := "dest_callback"
		if key == other {
			other = "src_callback"
		}
		return c47JSON(map[string]any{other: cb}), "other-key"
	case 8:
		return r.Pick([]string{"", "null", "{}", "[]", "{\"src_callback\":null}", "{\"dest_callback\":{}}", "x"}), "degenerate"
	case 9:
		s := []byte(c47JSON(map[string]any{key: cb}))
		s[r.Intn(len(s))] ^= byte(1 << uint(r.Intn(8)))
		return string(s), "mutated-bytes"
	case 10:
		cb["gas_limit"] = c47Weird(r)
		cb["calldata"] = c47Weird(r)
		return c47JSON(map[string]any{key: cb}), "mut-gas-calldata"
	default:
		return c47JSON(map[string]any{key: cb, "forward": c47ValidForward(r, 0)}), "valid-with-forward"
	}
}

// ---------------------------------------------------------------------------------------- messages

func c47GenHeight(r *hx.Rng) clienttypes.Height {
	if r.Chance(1, 3) {
		return clienttypes.ZeroHeight()
	}
	return clienttypes.NewHeight(r.U64B(), r.U64B())
}

func c47HJ(h clienttypes.Height) []string {
	return []string{hx.U(h.RevisionNumber), hx.U(h.RevisionHeight)}
}

func c47Proof(r *hx.Rng) []byte {
	if r.Chance(1, 6) {
		if r.Bool() {
			return nil
		}
		return []byte{}
	}
	return r.Bytes(1 + r.Intn(4))
}

func c47U64Z(r *hx.Rng) uint64 {
	if r.Chance(1, 5) {
		return 0
	}
	return r.U64B()
}

func c47GenPacket(r *hx.Rng) channeltypes.Packet {
	p := channeltypes.Packet{
		Sequence: c47U64Z(r), SourcePort: c47Port(r), SourceChannel: c47Chan(r),
		DestinationPort: c47Port(r), DestinationChannel: c47Chan(r),
		Data: c47Proof(r), TimeoutHeight: c47GenHeight(r), TimeoutTimestamp: c47U64Z(r),
	}
	if r.Chance(1, 40) {
		p.Data = make([]byte, channeltypes.MaximumPayloadsSize+r.Intn(3)-1)
	}
	return p
}

func c47PacketJ(p channeltypes.Packet) any {
	// data travels as its length only when it is large
	var data any = hx.H(p.Data)
	if len(p.Data) > 4096 {
		data = []any{"zeros", len(p.Data)}
	}
	return []any{hx.U(p.Sequence), hx.HS(p.SourcePort), hx.HS(p.SourceChannel), hx.HS(p.DestinationPort),
		hx.HS(p.DestinationChannel), data, c47HJ(p.TimeoutHeight), hx.U(p.TimeoutTimestamp)}
}

func c47GenChannel(r *hx.Rng, wantState channeltypes.State) channeltypes.Channel {
	ch := channeltypes.Channel{State: wantState, Ordering: channeltypes.Order(1 + r.Intn(2)),
		Counterparty: channeltypes.Counterparty{PortId: c47Port(r)}, ConnectionHops: []string{"connection-" + hx.U(uint64(r.Intn(9)))}, Version: "v"}
	if wantState == channeltypes.TRYOPEN {
		ch.Counterparty.ChannelId = c47Chan(r)
	}
	switch r.Intn(10) {
	case 0:
		ch.State = channeltypes.State(r.Intn(6))
	case 1:
		ch.Ordering = channeltypes.Order(r.Intn(5) - 1)
	case 2:
		ch.ConnectionHops = nil
	case 3:
		ch.ConnectionHops = []string{}
	case 4:
		ch.ConnectionHops = []string{"connection-0", "connection-1"}
	case 5:
		s, _ := c47ID(r, 10, 64)
		ch.ConnectionHops = []string{s}
	case 6:
		ch.Counterparty.ChannelId = c47Chan(r)
	case 7:
		s, _ := c47ID(r, 8, 64)
		ch.Counterparty.ChannelId = s
	}
	return ch
}

func c47ChannelJ(ch channeltypes.Channel) any {
	hops := make([]string, len(ch.ConnectionHops))
	for i, h := range ch.ConnectionHops {
		hops[i] = hx.HS(h)
	}
	return []any{int(ch.State), int(ch.Ordering), hx.HS(ch.Counterparty.PortId), hx.HS(ch.Counterparty.ChannelId), hops}
}

func c47GenPayload(r *hx.Rng) channeltypesv2.Payload {
	p := channeltypesv2.Payload{SourcePort: c47Port(r), DestinationPort: c47Port(r), Version: "ics20-1", Encoding: "application/json", Value: r.Bytes(1 + r.Intn(5))}
	switch r.Intn(10) {
	case 0:
		p.Version = c47Blank(r)
	case 1:
		p.Encoding = c47Blank(r)
	case 2:
		p.Value = nil
	case 3:
		p.Value = make([]byte, 131072+r.Intn(2))
	}
	return p
}

func c47PayloadJ(p channeltypesv2.Payload) any {
	var v any = hx.H(p.Value)
	if len(p.Value) > 4096 {
		v = []any{"zeros", len(p.Value)}
	}
	return []any{hx.HS(p.SourcePort), hx.HS(p.DestinationPort), hx.HS(p.Version), hx.HS(p.Encoding), v}
}

func c47GenPayloads(r *hx.Rng) []channeltypesv2.Payload {
	n := 1
	switch r.Intn(8) {
	case 0:
		n = 0
	case 1:
		n = 2 + r.Intn(2)
	}
	if n == 0 && r.Bool() {
		return nil
	}
	ps := make([]channeltypesv2.Payload, n)
	for i := range ps {
		ps[i] = c47GenPayload(r)
	}
	return ps
}

func c47PayloadsJ(ps []channeltypesv2.Payload) any {
	l := make([]any, len(ps))
	for i := range ps {
		l[i] = c47PayloadJ(ps[i])
	}
	return l
}

func c47GenPacketV2(r *hx.Rng) channeltypesv2.Packet {
	cid := func() string {
		if r.Chance(5, 6) {
			return "07-tendermint-" + hx.U(uint64(r.Intn(100)))
		}
		s, _ := c47ID(r, 8, 64)
		return s
	}
	return channeltypesv2.Packet{Sequence: c47U64Z(r), SourceClient: cid(), DestinationClient: cid(), TimeoutTimestamp: c47U64Z(r), Payloads: c47GenPayloads(r)}
}

func c47PacketV2J(p channeltypesv2.Packet) any {
	return []any{hx.U(p.Sequence), hx.HS(p.SourceClient), hx.HS(p.DestinationClient), hx.U(p.TimeoutTimestamp), c47PayloadsJ(p.Payloads)}
}

// c47AnyCS describes a *Any client/consensus state field for the model: nil | [valueLen, null | [type, validateClass]]
type c47csLike interface{ ClientType() string }

func c47AnyJ(a *codectypes.Any, isClientState bool) any {
	if a == nil {
		return nil
	}
	var cached any
	v := a.GetCachedValue()
	if isClientState {
		if cs, ok := v.(interface {
			ClientType() string
			Validate() error
		}); ok {
			if _, isCS := v.(*ibctm.ClientState); isCS {
				cached = []any{hx.HS(cs.ClientType()), c47Run(cs.Validate)}
			}
		}
	} else {
		if cs, ok := v.(interface {
			ClientType() string
			ValidateBasic() error
		}); ok {
			if _, isCons := v.(*ibctm.ConsensusState); isCons {
				cached = []any{hx.HS(cs.ClientType()), c47Run(cs.ValidateBasic)}
			}
		}
	}
	return []any{len(a.Value), cached}
}

func c47TmClientState(r *hx.Rng, chainID string) *ibctm.ClientState {
	rev := clienttypes.ParseChainID
	var revision uint64
	if p, _ := hx.Catch(func() { revision = rev(chainID) }); p {
		revision = 1
	}
	cs := ibctm.NewClientState(chainID, ibctm.DefaultTrustLevel, time.Hour*24*7, time.Hour*24*14, time.Second*10,
		clienttypes.NewHeight(revision, 10), commitmenttypes.GetSDKSpecs(), []string{"upgrade", "upgradedIBCState"})
	switch r.Intn(8) {
	case 0:
		cs.TrustingPeriod = 0
	case 1:
		cs.LatestHeight = clienttypes.NewHeight(revision+1, 10)
	case 2:
		cs.LatestHeight = clienttypes.NewHeight(revision, 0)
	case 3:
		cs.ProofSpecs = nil
	}
	return cs
}

func c47ChainID(r *hx.Rng) (string, string) {
	digits := "0123456789"
	switch r.Intn(12) {
	case 0:
		return "cosmoshub-" + hx.U(uint64(1+r.Intn(50))), "valid"
	case 1:
		return "testchain", "no-revision"
	case 2:
		return r.Str("abc-", 1, 8) + "-" + r.Str(digits, 1, 24), "digits-le-24"
	case 3:
		return r.Str("abc", 1, 3) + "-0" + r.Str(digits, 0, 3), "leading-zero"
	case 4:
		return r.Str("abc", 1, 3) + "--" + r.Str("123456789", 1, 3), "double-dash"
	case 5:
		return "-" + r.Str("123456789", 1, 3), "only-revision"
	case 6:
		return r.Str("ab\n", 1, 4) + "-" + r.Str("123456789", 1, 3), "newline"
	case 7:
		return "", "empty"
	case 8:
		return "a-1844674407370955161" + r.Pick([]string{"5", "6", "7", "50"}), "around-max-u64"
	case 9:
		return r.Str("abc", 1, 3) + "-" + r.Str("123456789", 1, 2) + r.Pick([]string{"x", " ", "\n", "-"}), "trailing-junk"
	case 10:
		return "é\xff-" + r.Str("123456789", 1, 4), "non-utf8"
	default:
		return r.Str("abc-19", 0, 12), "random"
	}
}

type c47IcaKeeper struct {
	icatypes.ChannelKeeper
	cp    string
	found bool
}

func (k c47IcaKeeper) GetConnection(_ sdk.Context, _ string) (connectiontypes.ConnectionEnd, error) {
	if !k.found {
		return connectiontypes.ConnectionEnd{}, connectiontypes.ErrConnectionNotFound
	}
	return connectiontypes.ConnectionEnd{Counterparty: connectiontypes.Counterparty{ConnectionId: k.cp}}, nil
}

func c47HexList(xs []string) []string {
	out := make([]string, len(xs))
	for i, x := range xs {
		out[i] = hx.HS(x)
	}
	return out
}

// famC47 drives stateless validation / parsers / decoders under recover().
func famC47(r *hx.Rng, o *hx.Out) {
	q := hx.N(1, 10)

	// ---- 24-host validators
	vals := []func(string) error{host.ClientIdentifierValidator, host.ConnectionIdentifierValidator, host.ChannelIdentifierValidator, host.PortIdentifierValidator}
	lims := [][2]int{{4, 64}, {10, 64}, {8, 64}, {2, 128}}
	for i := 0; i < 100*q; i++ {
		w := r.Intn(4)
		s, tag := c47ID(r, lims[w][0], lims[w][1])
		o.Emit("c47_idval", []any{w, hx.HS(s)}, []any{c47Run(func() error { return vals[w](s) })}, tag)
	}
	for w := 0; w < 4; w++ { // exact boundary lengths
		for _, n := range []int{lims[w][0] - 1, lims[w][0], lims[w][1], lims[w][1] + 1} {
			s := strings.Repeat("a", n)
			o.Emit("c47_idval", []any{w, hx.HS(s)}, []any{c47Run(func() error { return vals[w](s) })}, "exact-boundary")
		}
	}

	// ---- ParseIdentifier, ParseChannelSequence, ParseConnectionSequence
	for i := 0; i < 60*q; i++ {
		pfx := r.Pick([]string{"channel-", "connection-", "client-", "ab", "aa", "-"})
		s, tag := c47SeqID(r, pfx)
		var seq uint64
		c := c47Run(func() error { var e error; seq, e = host.ParseIdentifier(s, pfx); return e })
		var res any
		if c == "ok" {
			res = hx.U(seq)
		}
		o.Emit("c47_parse_id", []any{hx.HS(s), hx.HS(pfx)}, []any{c, res}, tag)
	}
	for _, s := range []string{"aaa1", "aaaa", "aa", "aaa", "ababab1", "abab", "aa12", "aaaa7"} { // overlapping separators
		pfx := s[:2]
		var seq uint64
		c := c47Run(func() error { var e error; seq, e = host.ParseIdentifier(s, pfx); return e })
		var res any
		if c == "ok" {
			res = hx.U(seq)
		}
		o.Emit("c47_parse_id", []any{hx.HS(s), hx.HS(pfx)}, []any{c, res}, "overlap")
	}
	for i := 0; i < 60*q; i++ {
		w := r.Intn(2)
		pfx := []string{"channel-", "connection-"}[w]
		s, tag := c47SeqID(r, pfx)
		var seq uint64
		c := c47Run(func() error {
			var e error
			if w == 0 {
				seq, e = channeltypes.ParseChannelSequence(s)
			} else {
				seq, e = connectiontypes.ParseConnectionSequence(s)
			}
			return e
		})
		var res any
		if c == "ok" {
			res = hx.U(seq)
		}
		o.Emit("c47_seq", []any{w, hx.HS(s)}, []any{c, res}, tag)
	}

	// ---- paths (Must* panic by design; recorded, compared, not flagged)
	for i := 0; i < 60*q; i++ {
		w := r.Intn(5)
		var s, tag string
		switch r.Intn(8) {
		case 0:
			s, tag = "clients/07-tendermint-3/clientState", "valid-client"
		case 1:
			s, tag = "connections/connection-1", "valid-conn"
		case 2:
			s, tag = "channelEnds/ports/transfer/channels/channel-0", "valid-chan"
		case 3:
			s, tag = "clients/"+c47Blank(r)+"/clientState", "blank-id"
		case 4:
			parts := make([]string, r.Intn(8))
			for j := range parts {
				parts[j] = r.Pick([]string{"clients", "clientState", "ports", "channels", "x", "", "connections", "channelEnds"})
			}
			s, tag = strings.Join(parts, "/"), "segments"
		case 5:
			s, tag = "channelEnds/ports/transfer/channels", "chan-short"
		case 6:
			s, tag = "a/ports/p/channels/c/extra/more", "chan-long"
		default:
			s, tag = r.Str("ab/", 0, 10), "random"
		}
		var out []string
		c := c47Run(func() error {
			switch w {
			case 0:
				out = []string{host.MustParseClientStatePath(s)}
			case 1:
				x, e := host.ParseConnectionPath(s)
				out = []string{x}
				return e
			case 2:
				x, y, e := host.ParseChannelPath(s)
				out = []string{x, y}
				return e
			case 3:
				out = []string{host.MustParseConnectionPath(s)}
			default:
				x, y := host.MustParseChannelPath(s)
				out = []string{x, y}
			}
			return nil
		})
		if c != "ok" {
			out = nil
		}
		o.Emit("c47_path", []any{w, hx.HS(s)}, []any{c, c47HexList(out)}, tag)
	}

	// ---- ParseHeight (explicit-index model), ParseChainID, SetRevisionNumber
	for i := 0; i < 40*q; i++ {
		s := r.Pick([]string{hx.U(r.U64B()) + "-" + hx.U(r.U64B()), r.Str("0123456789-", 0, 8), "1-2-3", "-", "", "1-", "-1", "18446744073709551616-1", "a-b"})
		var h clienttypes.Height
		c := c47Run(func() error { var e error; h, e = clienttypes.ParseHeight(s); return e })
		var res any
		if c == "ok" {
			res = c47HJ(h)
		}
		o.Emit("c47_height", hx.HS(s), []any{c, res})
	}
	for i := 0; i < 80*q; i++ {
		s, tag := c47ChainID(r)
		var rev uint64
		c := c47Run(func() error { rev = clienttypes.ParseChainID(s); return nil })
		var res any
		if c == "ok" {
			res = hx.U(rev)
		}
		o.Emit("c47_chainid", hx.HS(s), []any{c, res}, tag)
		n := r.U64B()
		var out string
		c = c47Run(func() error { var e error; out, e = clienttypes.SetRevisionNumber(s, n); return e })
		res = nil
		if c == "ok" {
			res = hx.HS(out)
		}
		o.Emit("c47_setrev", []any{hx.HS(s), hx.U(n)}, []any{c, res}, tag)
	}
	// regression corpus: the former ParseChainID panic witnesses (fixed by d71d2e9: now revision 0)
	for _, s := range []string{"a-18446744073709551616", "cosmoshub-99999999999999999999", "x-1" + strings.Repeat("0", 30)} {
		var rev uint64
		c := c47Run(func() error { rev = clienttypes.ParseChainID(s); return nil })
		var res any
		if c == "ok" {
			res = hx.U(rev)
		}
		o.Emit("c47_chainid", hx.HS(s), []any{c, res}, "regression-revision-overflow")
	}

	// ---- client identifiers
	for i := 0; i < 100*q; i++ {
		s, tag := c47ClientID(r)
		var ct string
		var seq uint64
		c := c47Run(func() error { var e error; ct, seq, e = clienttypes.ParseClientIdentifier(s); return e })
		var res any
		if c == "ok" {
			res = []string{hx.HS(ct), hx.U(seq)}
		}
		valid := false
		c2 := c47Run(func() error { valid = clienttypes.IsValidClientID(s); return nil })
		o.Emit("c47_clientid", hx.HS(s), []any{c, res, c2, valid}, tag)
	}
	for i := 0; i < 30*q; i++ {
		s := r.Pick([]string{"07-tendermint", "06-solomachine", "", " ", "a", "ab", "-a", "a-", "a--b", "x_y", "é", r.Str("abc-_", 0, 10), strings.Repeat("c", 40+r.Intn(10)), "08-wasm", "a/b"})
		o.Emit("c47_clienttype", hx.HS(s), []any{c47Run(func() error { return clienttypes.ValidateClientType(s) })})
	}

	// ---- denominations
	for i := 0; i < 120*q; i++ {
		s, tag := c47DenomPath(r)
		var d transfertypes.Denom
		c := c47Run(func() error { d = transfertypes.ExtractDenomFromPath(s); return nil })
		var out []any
		if c == "ok" {
			tr := make([]any, len(d.Trace))
			for j, h := range d.Trace {
				tr[j] = []string{hx.HS(h.PortId), hx.HS(h.ChannelId)}
			}
			vc := c47Run(d.Validate)
			hp := false
			c3 := c47Run(func() error { hp = d.HasPrefix("transfer", "channel-1"); return nil })
			out = []any{c, hx.HS(d.Base), tr, vc, c3, hp}
		} else {
			out = []any{c, "", []any{}, "ok", "ok", false}
		}
		o.Emit("c47_denom", hx.HS(s), out, tag)
	}

	// ---- FungibleTokenPacketData.ValidateBasic
	for i := 0; i < 80*q; i++ {
		d, _ := c47DenomPath(r)
		amt := "100"
		snd, rcv := "alice", "bob"
		tag := "valid"
		switch r.Intn(10) {
		case 0:
			amt, tag = r.Pick([]string{"", "abc", "1.5", " 1", "0x", "1e3", "--1", "1_", "_1"}), "amount-unparsable"
		case 1:
			amt, tag = r.Pick([]string{"0", "-1", "-0", "+0", "-115792089237316195423570985008687907853269984665640564039457584007913129639935"}), "amount-nonpositive"
		case 2:
			amt, tag = r.Pick([]string{"115792089237316195423570985008687907853269984665640564039457584007913129639935", "115792089237316195423570985008687907853269984665640564039457584007913129639936", "0x10", "0b11", "1_000", "+5", "0o17", "017"}), "amount-forms"
		case 3:
			snd, tag = c47Blank(r), "blank-sender"
		case 4:
			rcv, tag = c47Blank(r), "blank-receiver"
		case 5:
			snd, rcv, tag = "\x00", "\xff\xfe", "binary-addresses"
		case 6:
			amt, tag = strings.Repeat("9", 60+r.Intn(40)), "amount-long"
		}
		ftpd := transfertypes.FungibleTokenPacketData{Denom: d, Amount: amt, Sender: snd, Receiver: rcv}
		var parsed any
		if v, ok := sdkmath.NewIntFromString(amt); ok {
			parsed = v.String()
		}
		o.Emit("c47_ftpd", []any{hx.HS(d), parsed, hx.HS(snd), hx.HS(rcv)}, []any{c47Run(ftpd.ValidateBasic)}, tag)
	}

	// ---- MsgTransfer.ValidateBasic
	for i := 0; i < 120*q; i++ {
		m := transfertypes.MsgTransfer{SourcePort: "transfer", SourceChannel: "channel-0", Token: sdk.NewCoin("uatom", sdkmath.NewInt(int64(1+r.Intn(100)))),
			Sender: c47Signer, Receiver: "bob", TimeoutTimestamp: 1, Memo: ""}
		tag := "valid"
		switch r.Intn(20) {
		case 0:
			m.SourcePort, tag = c47Port(r), "port"
			if r.Bool() {
				m.SourcePort, _ = c47ID(r, 2, 128)
			}
		case 1:
			m.SourceChannel, tag = c47SeqID(r, "channel-")
			m.UseAliasing = r.Bool()
		case 2:
			m.SourceChannel, tag = c47ClientID(r)
			m.UseAliasing = r.Bool()
		case 3:
			m.Token, tag = sdk.Coin{Denom: "uatom"}, "nil-amount"
		case 4:
			m.Token, tag = sdk.Coin{Denom: "uatom", Amount: sdkmath.NewInt(int64(r.Intn(3) - 1))}, "amount-sign"
		case 5:
			m.Token.Denom, tag = r.Pick([]string{"", "a", "ab", "abc", "1abc", "ab c", strings.Repeat("a", 128), strings.Repeat("a", 129), "a/b:c._-", "aé1", "abc\n"}), "denom-regex"
		case 6:
			m.Token.Denom, tag = r.Pick([]string{"ibc", "ibc/", "ibc/ ", "ibc/zz", "ibc/ABCD", "ibc/" + strings.Repeat("AB", 32), "ibc/" + strings.Repeat("ab", 31), "ibc/" + strings.Repeat("A", 63), "ibc/a/b", "ibcx/a", "Ibc/AB", "ibc/-.", "ibc/" + strings.Repeat("AB", 33)}), "ibc-denom"
		case 7:
			m.Sender, tag = c47Blank(r), "blank-sender"
		case 8:
			m.Receiver, tag = c47Blank(r), "blank-receiver"
		case 9:
			m.Receiver, tag = strings.Repeat("r", 2047+r.Intn(3)), "receiver-length"
		case 10:
			m.Memo, tag = strings.Repeat("m", 32767+r.Intn(3)), "memo-length"
		case 11:
			m.UseAliasing, tag = true, "alias-valid"
		case 12:
			m.Token, tag = sdk.Coin{}, "zero-coin"
		case 13:
			m.Token.Denom, m.Token.Amount, tag = "ibc/zz", sdkmath.Int{}, "nil-amount-bad-denom"
		case 14:
			m.Memo, tag = string(r.Bytes(r.Intn(64))), "memo-bytes"
		}
		var amt any
		if !m.Token.Amount.IsNil() {
			amt = m.Token.Amount.String()
		}
		o.Emit("c47_msgtransfer", []any{hx.HS(m.SourcePort), hx.HS(m.SourceChannel), hx.HS(m.Token.Denom), amt, hx.HS(m.Sender), hx.HS(m.Receiver), len(m.Memo), m.UseAliasing},
			[]any{c47Run(m.ValidateBasic)}, tag)
	}

	// ---- forward metadata
	for i := 0; i < 200*q; i++ {
		memo, tag := c47ForwardMemo(r)
		ftpd := transfertypes.FungibleTokenPacketData{Denom: "uatom", Amount: "1", Sender: "a", Receiver: "b", Memo: memo}
		var md pfmtypes.PacketMetadata
		var isPFM bool
		c := c47Run(func() error { var e error; md, isPFM, e = pfmtypes.GetPacketMetadataFromPacketdata(ftpd); return e })
		var parsed, vc any
		if c == "ok" {
			parsed = c47Fmd(md.Forward)
			vc = c47Run(md.Forward.Validate)
		}
		o.Emit("c47_forward", []any{hx.HS(memo), c47Parse(memo)}, []any{c, isPFM, parsed, vc}, tag)
	}

	// ---- callback data
	for i := 0; i < 160*q; i++ {
		key := r.Pick([]string{cbtypes.SourceCallbackKey, cbtypes.DestinationCallbackKey})
		memo, tag := c47CallbackMemo(r, key)
		remaining, maxGas := r.U64B(), r.U64B()
		var pd any = transfertypes.FungibleTokenPacketData{Denom: "uatom", Amount: "1", Sender: "a", Receiver: "b", Memo: memo}
		provider := true
		if r.Chance(1, 25) {
			pd, provider, tag = "x", false, "not-a-provider"
		}
		var cb cbtypes.CallbackData
		var isCb bool
		c := c47Run(func() error {
			var e error
			cb, isCb, e = cbtypes.GetCallbackData(pd, "ics20-1", "transfer", remaining, maxGas, key)
			return e
		})
		var parsed any
		if c == "ok" {
			parsed = []any{hx.HS(cb.CallbackAddress), hx.U(cb.ExecutionGasLimit), hx.U(cb.CommitGasLimit), hx.H(cb.Calldata)}
		}
		o.Emit("c47_callback", []any{provider, hx.HS(memo), c47Parse(memo), hx.U(remaining), hx.U(maxGas), hx.HS(key)}, []any{c, isCb, parsed}, tag)
	}

	// ---- ICA metadata validation (connectionHops[0] is unguarded inside the function: its callers pass
	//      the hops of a channel that passed Channel.ValidateBasic; the empty-hops call is the model's witness)
	for i := 0; i < 60*q; i++ {
		md := icatypes.Metadata{Version: icatypes.Version, ControllerConnectionId: "connection-0", HostConnectionId: "connection-1",
			Encoding: icatypes.EncodingProtobuf, TxType: icatypes.TxTypeSDKMultiMsg}
		hops := []string{"connection-0"}
		controller := r.Bool()
		if !controller {
			hops = []string{"connection-1"}
		}
		k := c47IcaKeeper{cp: "connection-1", found: true}
		if !controller {
			k.cp = "connection-0"
		}
		tag := "valid"
		switch r.Intn(14) {
		case 0:
			md.Encoding, tag = r.Pick([]string{"", "proto3json", "json", "PROTO3"}), "encoding"
		case 1:
			md.TxType, tag = r.Pick([]string{"", "sdk_multi_msg ", "x"}), "tx-type"
		case 2:
			k.found, tag = false, "connection-not-found"
		case 3:
			md.ControllerConnectionId, tag = "connection-9", "controller-conn-mismatch"
		case 4:
			md.HostConnectionId, tag = "connection-9", "host-conn-mismatch"
		case 5:
			md.Address, tag = r.Pick([]string{"cosmos1abc", "a b", "é", strings.Repeat("a", 128), strings.Repeat("a", 129), "a-b", "\x00"}), "address"
		case 6:
			md.Version, tag = r.Pick([]string{"", "ics27-2", "ics27-1 "}), "version"
		case 7:
			hops, tag = append(hops, "connection-5"), "two-hops"
		case 8:
			hops, tag = nil, "witness-empty-hops"
		case 9:
			hops, md.Encoding, tag = []string{}, "bad", "empty-hops-bad-encoding"
		}
		c := c47Run(func() error {
			if controller {
				return icatypes.ValidateControllerMetadata(sdk.Context{}, k, hops, md)
			}
			return icatypes.ValidateHostMetadata(sdk.Context{}, k, hops, md)
		})
		var found any
		if k.found {
			found = hx.HS(k.cp)
		}
		o.Emit("c47_ica", []any{controller, found, c47HexList(hops), c47HexList([]string{md.Version, md.ControllerConnectionId, md.HostConnectionId, md.Address, md.Encoding, md.TxType})}, []any{c}, tag)
	}

	// ---- acknowledgements (v1 oneof)
	for i := 0; i < 40*q; i++ {
		var ack channeltypes.Acknowledgement
		var in any
		tag := ""
		switch r.Intn(7) {
		case 0:
			in, tag = []any{"n"}, "nil-response"
		case 1:
			b := r.Bytes(r.Intn(3))
			ack.Response, in, tag = &channeltypes.Acknowledgement_Result{Result: b}, []any{"r", hx.H(b)}, "result"
		case 2:
			ack.Response, in, tag = &channeltypes.Acknowledgement_Result{}, []any{"r", ""}, "result-nil-bytes"
		case 3:
			s := r.Pick([]string{"boom", "", " ", "\u00a0", "x y"})
			ack.Response, in, tag = &channeltypes.Acknowledgement_Error{Error: s}, []any{"e", hx.HS(s)}, "error"
		case 4: // typed nil wrapper: constructible through the Go API only, never produced by a decoder
			ack.Response, in, tag = (*channeltypes.Acknowledgement_Result)(nil), []any{"r", nil}, "api-typed-nil-result"
		case 5:
			ack.Response, in, tag = (*channeltypes.Acknowledgement_Error)(nil), []any{"e", nil}, "api-typed-nil-error"
		default: // decoded from JSON bytes
			js := r.Pick([]string{"{}", "{\"result\":\"AQ==\"}", "{\"error\":\"e\"}", "{\"result\":null}", "{\"error\":null}", "{\"result\":\"\"}", "{\"error\":\"\"}"})
			if err := transfertypes.ModuleCdc.UnmarshalJSON([]byte(js), &ack); err != nil {
				continue
			}
			switch x := ack.Response.(type) {
			case *channeltypes.Acknowledgement_Result:
				if x == nil {
					in = []any{"r", nil}
				} else {
					in = []any{"r", hx.H(x.Result)}
				}
			case *channeltypes.Acknowledgement_Error:
				if x == nil {
					in = []any{"e", nil}
				} else {
					in = []any{"e", hx.HS(x.Error)}
				}
			default:
				in = []any{"n"}
			}
			tag = "decoded-json"
		}
		succ := false
		c2 := c47Run(func() error { succ = ack.Success(); return nil })
		o.Emit("c47_ack", in, []any{c47Run(ack.ValidateBasic), c2, succ}, tag)
	}

	c47Msgs(r, o, q)
	c47Samples(r, o, q)
}

func c47PfmGet(memo string) (any, bool, error) {
	ftpd := transfertypes.FungibleTokenPacketData{Denom: "uatom", Amount: "1", Sender: "a", Receiver: "b", Memo: memo}
	return pfmtypes.GetPacketMetadataFromPacketdata(ftpd)
}

func c47PickAny(r *hx.Rng, xs []any) any { return xs[r.Intn(len(xs))] }
