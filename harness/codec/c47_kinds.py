"""C47 record kinds of the `codec` family (loaded by tools/families/codec.py).
Every enc() returns a Gallina term of type Case47 (Codec/Corr47.v); codec.py wraps it in K47.

Monitor (independent of the model): ANY record whose observed outcome is "panic" violates C47 and is
reported with the function and the input — except calls that panic by design / are not decodable inputs
(Must* path parsers; Go-API-only typed-nil oneof wrappers; the ICA metadata validators called with an empty
hop list, which their only callers exclude), which are recorded and compared with the model but not flagged."""
from lib.coqgen import N, Z, b, hx, opt, lst

CLS = {"ok": 0, "err": 1, "panic": 2}

def cl(x):
    return "%d" % CLS[x]

def hxs(xs):
    return lst(xs, hx)

def optN(x):
    return opt(x, N)

def zopt(x):
    return "None" if x is None else "(Some %s)" % Z(x)

# ---- JSON trees ---------------------------------------------------------------------------------
def members(l):
    t = "MNil"
    for k, v in reversed(l):
        t = "(MCons %s %s %s)" % (hx(k), tree(v), t)
    return t

def jlist(l):
    t = "LNil"
    for v in reversed(l):
        t = "(LCons %s %s)" % (tree(v), t)
    return t

def parse(p):
    if p[0] == "e":
        return "PErr"
    if p[0] == "z":
        return "PNil"
    return "(PObj %s)" % members(p[1])

def tree(v):
    t = v[0]
    if t == "n":
        return "JNull"
    if t == "b":
        return "(JBool %s)" % b(v[1])
    if t == "f":
        return "(JNum (mkNum %s %s %s))" % (b(v[1]), N(v[2]), Z(v[3]))
    if t == "s":
        return "(JStr %s %s %s)" % (hx(v[1]), b(v[2]), parse(v[3]))
    if t == "a":
        return "(JArr %s)" % jlist(v[1])
    if t == "o":
        return "(JObj %s)" % members(v[1])
    raise ValueError("tree tag %r" % (t,))

def fmd(x):
    return "(FMD %s %s %s %s %s)" % (hx(x[0]), hx(x[1]), hx(x[2]), optN(x[3]), opt(x[4], fmd))

def data(x):
    if isinstance(x, list):       # ["zeros", n]
        return "(c47_zeros %s)" % N(x[1])
    return hx(x)

def height(h):
    return "(mkH %s %s)" % (N(h[0]), N(h[1]))

# ---- encoders -----------------------------------------------------------------------------------
def enc_idval(r):
    return "IdVal %s %s %s" % (N(r["in"][0]), hx(r["in"][1]), cl(r["out"][0]))

def enc_parse_id(r):
    return "ParseId %s %s %s %s" % (hx(r["in"][0]), hx(r["in"][1]), cl(r["out"][0]), optN(r["out"][1]))

def enc_seq(r):
    return "SeqParse %s %s %s %s" % (N(r["in"][0]), hx(r["in"][1]), cl(r["out"][0]), optN(r["out"][1]))

def enc_path(r):
    return "PathParse %s %s %s %s" % (N(r["in"][0]), hx(r["in"][1]), cl(r["out"][0]), hxs(r["out"][1] or []))

def enc_height(r):
    return "HeightX %s %s %s" % (hx(r["in"]), cl(r["out"][0]), opt(r["out"][1], height))

def enc_chainid(r):
    return "ChainId %s %s %s" % (hx(r["in"]), cl(r["out"][0]), optN(r["out"][1]))

def enc_setrev(r):
    return "SetRev %s %s %s %s" % (hx(r["in"][0]), N(r["in"][1]), cl(r["out"][0]), opt(r["out"][1], hx))

def enc_clientid(r):
    o = r["out"]
    return "ClientId %s %s %s %s %s" % (hx(r["in"]), cl(o[0]), opt(o[1], lambda v: "(%s, %s)" % (hx(v[0]), N(v[1]))), cl(o[2]), b(o[3]))

def enc_clienttype(r):
    return "ClientType %s %s" % (hx(r["in"]), cl(r["out"][0]))

def enc_denom(r):
    o = r["out"]
    return "DenomX %s %s %s %s %s %s %s" % (hx(r["in"]), cl(o[0]), hx(o[1]),
                                            lst(o[2], lambda h: "(mkHop %s %s)" % (hx(h[0]), hx(h[1]))), cl(o[3]), cl(o[4]), b(o[5]))

def enc_ftpd(r):
    i = r["in"]
    return "Ftpd %s %s %s %s %s" % (hx(i[0]), zopt(i[1]), hx(i[2]), hx(i[3]), cl(r["out"][0]))

def enc_msgtransfer(r):
    i = r["in"]
    return "MsgTr (mkMsgTransfer %s %s %s %s %s %s (c47_zeros %s) %s) %s" % (
        hx(i[0]), hx(i[1]), hx(i[2]), zopt(i[3]), hx(i[4]), hx(i[5]), N(i[6]), b(i[7]), cl(r["out"][0]))

def enc_forward(r):
    i, o = r["in"], r["out"]
    return "Fwd %s %s %s %s %s %s" % (hx(i[0]), parse(i[1]), cl(o[0]), b(o[1]), opt(o[2], fmd),
                                      opt(o[3], lambda c: cl(c)))

def enc_callback(r):
    i, o = r["in"], r["out"]
    cbv = opt(o[2], lambda v: "(mkCB %s %s %s %s)" % (hx(v[0]), N(v[1]), N(v[2]), hx(v[3])))
    return "Cb %s %s %s %s %s %s %s %s %s" % (b(i[0]), hx(i[1]), parse(i[2]), N(i[3]), N(i[4]), hx(i[5]), cl(o[0]), b(o[1]), cbv)

def enc_ica(r):
    i = r["in"]
    md = "(mkIca %s)" % " ".join(hx(x) for x in i[3])
    return "Ica %s %s %s %s %s" % (b(i[0]), opt(i[1], hx), hxs(i[2]), md, cl(r["out"][0]))

def enc_ack(r):
    i, o = r["in"], r["out"]
    if i[0] == "n":
        resp = "RNone"
    elif i[0] == "r":
        resp = "(RResult %s)" % opt(i[1], hx)
    else:
        resp = "(RError %s)" % opt(i[1], hx)
    return "AckV %s %s %s %s" % (resp, cl(o[0]), cl(o[1]), b(o[2]))

def chan(c):
    return "(mkChan %s %s (mkCp %s %s) %s)" % (N(c[0]) if c[0] >= 0 else "99", N(c[1]) if c[1] >= 0 else "99", hx(c[2]), hx(c[3]), hxs(c[4]))

def packet(p):
    return "(mkPkt %s %s %s %s %s %s %s %s)" % (N(p[0]), hx(p[1]), hx(p[2]), hx(p[3]), hx(p[4]), data(p[5]), height(p[6]), N(p[7]))

def enc_msgv1(r):
    i = r["in"]
    t = i[0]
    if t == "open_init":
        m = "ChanOpenInit %s %s %s" % (hx(i[1]), chan(i[2]), b(i[3]))
    elif t == "open_try":
        m = "ChanOpenTry %s %s %s %s %s" % (hx(i[1]), hx(i[2]), chan(i[3]), hx(i[4]), b(i[5]))
    elif t == "open_ack":
        m = "ChanOpenAck %s %s %s %s %s" % (hx(i[1]), hx(i[2]), hx(i[3]), hx(i[4]), b(i[5]))
    elif t == "open_confirm":
        m = "ChanOpenConfirm %s %s %s %s" % (hx(i[1]), hx(i[2]), hx(i[3]), b(i[4]))
    elif t == "close_init":
        m = "ChanCloseInit %s %s %s" % (hx(i[1]), hx(i[2]), b(i[3]))
    elif t == "close_confirm":
        m = "ChanCloseConfirm %s %s %s %s" % (hx(i[1]), hx(i[2]), hx(i[3]), b(i[4]))
    elif t == "recv":
        m = "RecvPacket %s %s %s" % (packet(i[1]), hx(i[2]), b(i[3]))
    elif t == "timeout":
        m = "TimeoutMsg %s %s %s %s" % (packet(i[1]), hx(i[2]), N(i[3]), b(i[4]))
    elif t == "timeout_on_close":
        m = "TimeoutOnClose %s %s %s %s %s" % (packet(i[1]), hx(i[2]), hx(i[3]), N(i[4]), b(i[5]))
    elif t == "ack":
        m = "AckMsg %s %s %s %s" % (packet(i[1]), hx(i[2]), hx(i[3]), b(i[4]))
    else:
        raise ValueError(t)
    return "MV1 (%s) %s" % (m, cl(r["out"][0]))

def payload(p):
    return "(mkPl %s %s %s %s %s)" % (hx(p[0]), hx(p[1]), hx(p[2]), hx(p[3]), data(p[4]))

def packet2(p):
    return "(mkPkt2 %s %s %s %s %s)" % (N(p[0]), hx(p[1]), hx(p[2]), N(p[3]), lst(p[4], payload))

def enc_msgv2(r):
    u, i = r["in"]
    t = i[0]
    if t == "send":
        m = "SendPacket2 %s %s %s %s" % (hx(i[1]), N(i[2]), lst(i[3], payload), b(i[4]))
    elif t == "recv":
        m = "RecvPacket2 %s %s %s" % (packet2(i[1]), hx(i[2]), b(i[3]))
    elif t == "ack":
        m = "AckMsg2 %s %s %s %s" % (packet2(i[1]), hxs(i[2]), hx(i[3]), b(i[4]))
    elif t == "timeout":
        m = "TimeoutMsg2 %s %s %s" % (packet2(i[1]), hx(i[2]), b(i[3]))
    else:
        raise ValueError(t)
    return "MV2 %s (%s) %s" % (hx(u), m, cl(r["out"][0]))

RES = {"ok": "(Ok tt)", "err": "Err", "panic": "Panic"}

def anycs(a):
    if a is None:
        return "AnyNil"
    n, c = a
    if c is None:
        return "(AnyVal %s CNone)" % N(n)
    return "(AnyVal %s (CVal (mkCS %s %s)))" % (N(n), hx(c[0]), RES[c[1]])

def anymsg(a):
    if a is None:
        return "AnyNil"
    n, c = a
    if c is None:
        return "(AnyVal %s CNone)" % N(n)
    return "(AnyVal %s (CVal %s))" % (N(n), RES[c[0]])

def enc_msgclient(r):
    i = r["in"]
    t = i[0]
    if t == "create":
        m = "CreateClient %s %s %s" % (b(i[1]), anycs(i[2]), anycs(i[3]))
    elif t == "update":
        m = "UpdateClient %s %s %s" % (b(i[1]), anymsg(i[2]), hx(i[3]))
    elif t == "upgrade":
        m = "UpgradeClient %s %s %s %s %s %s" % (anycs(i[1]), anycs(i[2]), hx(i[3]), hx(i[4]), b(i[5]), hx(i[6]))
    elif t == "recover":
        m = "RecoverClient %s %s %s" % (b(i[1]), hx(i[2]), hx(i[3]))
    elif t == "software_upgrade":
        m = "IBCSoftwareUpgrade %s %s %s" % (b(i[1]), anycs(i[2]), RES[i[3]])
    elif t == "delete_creator":
        m = "DeleteClientCreator %s %s" % (b(i[1]), hx(i[2]))
    else:
        raise ValueError(t)
    return "MC (%s) %s" % (m, cl(r["out"][0]))

def sigdata(x):
    return "(mkSD %s %s %s %s)" % (hx(x[0]), hx(x[1]), hx(x[2]), N(x[3]))

def enc_solomis(r):
    i = r["in"]
    return "SoloMis %s %s %s %s" % (N(i[0]), opt(i[1], sigdata), opt(i[2], sigdata), cl(r["out"][0]))

def enc_sample(r):
    return "Sample %s" % cl(r["out"][0])

# ---- monitors -----------------------------------------------------------------------------------
def _s(h):
    try:
        return repr(bytes.fromhex(h))
    except Exception:
        return repr(h)

def mon(name, fmt=None, exempt=None):
    def spec(r):
        outs = [x for x in r["out"] if isinstance(x, str) and x == "panic"]
        if not outs:
            return None
        if exempt is not None and exempt(r):
            return None
        return "%s panicked on input %s (generator mode %s)" % (name, (fmt(r) if fmt else json_short(r["in"])), r.get("tag", "-"))
    return spec

def json_short(x):
    import json
    s = json.dumps(x)
    return s if len(s) <= 600 else s[:600] + "..."

def path_exempt(r):
    # MustParseClientStatePath / MustParseConnectionPath / MustParseChannelPath panic by design;
    # the property is stated for ParseConnectionPath / ParseChannelPath (which = 1, 2)
    return r["in"][0] in (0, 3, 4)

def ack_exempt(r):
    # a typed-nil oneof wrapper cannot be produced by the JSON/proto decoders
    return r["in"][0] in ("r", "e") and r["in"][1] is None

def ica_exempt(r):
    # ValidateControllerMetadata / ValidateHostMetadata index connectionHops[0] unguarded; their callers
    # (ICA OnChanOpen*) pass the hops of a channel that passed Channel.ValidateBasic (exactly one hop)
    return len(r["in"][2]) == 0

def sample_fmt(r):
    return "%s(%s %s)" % (r["in"][0], _s(r["in"][1]) if len(r["in"][1]) < 400 else "<%d hex chars>" % len(r["in"][1]), r["in"][2])

IDV = ["ClientIdentifierValidator", "ConnectionIdentifierValidator", "ChannelIdentifierValidator", "PortIdentifierValidator"]

KINDS47 = {
    "c47_idval": dict(props=["C47"], enc=enc_idval, exact=True,
                      spec=mon("host identifier validator", lambda r: "%s(%s)" % (IDV[r["in"][0]], _s(r["in"][1])))),
    "c47_parse_id": dict(props=["C47"], enc=enc_parse_id, exact=True,
                         spec=mon("host.ParseIdentifier", lambda r: "(%s, %s)" % (_s(r["in"][0]), _s(r["in"][1])))),
    "c47_seq": dict(props=["C47"], enc=enc_seq, exact=True,
                    spec=mon("ParseChannelSequence/ParseConnectionSequence", lambda r: _s(r["in"][1]))),
    "c47_path": dict(props=["C47"], enc=enc_path, exact=True,
                     spec=mon("host path parser", lambda r: "which=%d %s" % (r["in"][0], _s(r["in"][1])), exempt=path_exempt)),
    "c47_height": dict(props=["C47"], enc=enc_height, exact=True, spec=mon("clienttypes.ParseHeight", lambda r: _s(r["in"]))),
    "c47_chainid": dict(props=["C47"], enc=enc_chainid, exact=True, spec=mon("clienttypes.ParseChainID", lambda r: _s(r["in"]))),
    "c47_setrev": dict(props=["C47"], enc=enc_setrev, exact=True, spec=mon("clienttypes.SetRevisionNumber", lambda r: _s(r["in"][0]))),
    "c47_clientid": dict(props=["C47"], enc=enc_clientid, exact=True,
                         spec=mon("clienttypes.ParseClientIdentifier/IsValidClientID", lambda r: _s(r["in"]))),
    "c47_clienttype": dict(props=["C47"], enc=enc_clienttype, exact=True, spec=mon("clienttypes.ValidateClientType", lambda r: _s(r["in"]))),
    "c47_denom": dict(props=["C47"], enc=enc_denom, exact=True,
                      spec=mon("transfertypes.ExtractDenomFromPath / Denom.Validate / Denom.HasPrefix", lambda r: _s(r["in"]))),
    "c47_ftpd": dict(props=["C47"], enc=enc_ftpd, exact=True, spec=mon("FungibleTokenPacketData.ValidateBasic")),
    "c47_msgtransfer": dict(props=["C47"], enc=enc_msgtransfer, exact=True, spec=mon("MsgTransfer.ValidateBasic")),
    "c47_forward": dict(props=["C47"], enc=enc_forward, exact=True,
                        spec=mon("pfm GetPacketMetadataFromPacketdata / ForwardMetadata.Validate", lambda r: "memo " + _s(r["in"][0]))),
    "c47_callback": dict(props=["C47"], enc=enc_callback, exact=True,
                         spec=mon("callbacks GetCallbackData", lambda r: "memo %s key %s" % (_s(r["in"][1]), _s(r["in"][5])))),
    "c47_ica": dict(props=["C47"], enc=enc_ica, exact=True, spec=mon("ica ValidateControllerMetadata/ValidateHostMetadata", exempt=ica_exempt)),
    "c47_ack": dict(props=["C47"], enc=enc_ack, exact=True, spec=mon("channeltypes.Acknowledgement.ValidateBasic/Success", exempt=ack_exempt)),
    "c47_msgv1": dict(props=["C47"], enc=enc_msgv1, exact=True, spec=mon("channel v1 Msg.ValidateBasic")),
    "c47_msgv2": dict(props=["C47"], enc=enc_msgv2, exact=True, spec=mon("channel v2 Msg.ValidateBasic", lambda r: json_short(r["in"][1]))),
    "c47_msgclient": dict(props=["C47"], enc=enc_msgclient, exact=True, spec=mon("client Msg.ValidateBasic")),
    "c47_solomis": dict(props=["C47"], enc=enc_solomis, exact=True, spec=mon("solomachine Misbehaviour.ValidateBasic")),
    "c47_sample": dict(props=["C47"], enc=enc_sample, exact=False, spec=mon("sampled decoder", sample_fmt)),
}

# the panics found by this check (ParseChainID revision overflow; MsgCreateClient nil Any; solo machine
# misbehaviour nil signatures) are fixed in /repo (d71d2e9, e3d0037, 6331512); their inputs stay in the harness
# as regression corpus (tags regression-*), so there is nothing to match here.
KNOWN47 = {}
