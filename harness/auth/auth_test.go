// Package auth is the `auth` scenario family (C46): operation x signer class x configuration matrix through
// the real message servers of ibctesting's simapp, plus histories of client-scoped operations.
package auth

import (
	"fmt"
	"os"
	"strings"
	"testing"
	"time"

	sdkmath "cosmossdk.io/math"
	upgradetypes "github.com/cosmos/cosmos-sdk/x/upgrade/types"

	cmtproto "github.com/cometbft/cometbft/proto/tendermint/types"

	sdk "github.com/cosmos/cosmos-sdk/types"

	icacontrollertypes "github.com/cosmos/ibc-go/v11/modules/apps/27-interchain-accounts/controller/types"
	icahostkeeper "github.com/cosmos/ibc-go/v11/modules/apps/27-interchain-accounts/host/keeper"
	icahosttypes "github.com/cosmos/ibc-go/v11/modules/apps/27-interchain-accounts/host/types"
	ratelimitkeeper "github.com/cosmos/ibc-go/v11/modules/apps/rate-limiting/keeper"
	ratelimittypes "github.com/cosmos/ibc-go/v11/modules/apps/rate-limiting/types"
	transfertypes "github.com/cosmos/ibc-go/v11/modules/apps/transfer/types"
	clienttypes "github.com/cosmos/ibc-go/v11/modules/core/02-client/types"
	clientv2types "github.com/cosmos/ibc-go/v11/modules/core/02-client/v2/types"
	connectiontypes "github.com/cosmos/ibc-go/v11/modules/core/03-connection/types"
	channeltypes "github.com/cosmos/ibc-go/v11/modules/core/04-channel/types"
	channeltypesv2 "github.com/cosmos/ibc-go/v11/modules/core/04-channel/v2/types"
	commitmenttypes "github.com/cosmos/ibc-go/v11/modules/core/23-commitment/types"
	host "github.com/cosmos/ibc-go/v11/modules/core/24-host"
	hostv2 "github.com/cosmos/ibc-go/v11/modules/core/24-host/v2"
	"github.com/cosmos/ibc-go/v11/modules/core/exported"
	ibctm "github.com/cosmos/ibc-go/v11/modules/light-clients/07-tendermint"
	ibctesting "github.com/cosmos/ibc-go/v11/testing"
	mockv2 "github.com/cosmos/ibc-go/v11/testing/mock/v2"

	"verif/harness/hx"
)

func TestFamily(t *testing.T) {
	r := hx.NewRng("auth")
	o := hx.NewOut()
	defer o.Close()
	purePart(r, o)
	w := newWorld(t)
	w.matrix(r, o)
	nh := hx.N(12, 200)
	for i := 0; i < nh; i++ {
		history(t, r, o, i)
	}
	t.Logf("records=%d", o.Count())
}

// ---------------------------------------------------------------------------------------------- helpers

func decode(s string) (string, bool) {
	a, err := sdk.AccAddressFromBech32(s)
	if err != nil {
		return "", false
	}
	return hx.H(a), true
}

// table lists the observed decodings of the given bech32 texts (only the ones that decode).
func table(texts ...string) [][]string {
	seen := map[string]bool{}
	out := [][]string{}
	for _, s := range texts {
		if seen[s] {
			continue
		}
		seen[s] = true
		if a, ok := decode(s); ok {
			out = append(out, []string{hx.HS(s), a})
		}
	}
	return out
}

func hexs(xs []string) []string {
	out := make([]string, len(xs))
	for i, x := range xs {
		out[i] = hx.HS(x)
	}
	return out
}

func outcome(f func() error) string {
	var err error
	p, _ := hx.Catch(func() { err = f() })
	if p {
		return "panic"
	}
	if err != nil {
		if os.Getenv("AUTH_DEBUG") != "" {
			fmt.Fprintln(os.Stderr, "ERR:", err)
		}
		return "err"
	}
	return "ok"
}

var dumpStores = []string{"ibc", "transfer", "ratelimit", "icahost", "icacontroller", "upgrade", "packetfowardmiddleware", "gmp", "bank"}

func (w *world) dump(ctx sdk.Context) string {
	var sb strings.Builder
	app := w.A.GetSimApp()
	for _, name := range dumpStores {
		k := app.GetKey(name)
		if k == nil {
			continue
		}
		it := ctx.KVStore(k).Iterator(nil, nil)
		for ; it.Valid(); it.Next() {
			sb.WriteString(name)
			sb.WriteByte(0)
			sb.Write(it.Key())
			sb.WriteByte(1)
			sb.Write(it.Value())
			sb.WriteByte(2)
		}
		it.Close()
	}
	return sb.String()
}

// ---------------------------------------------------------------------------------------------- pure part

func purePart(r *hx.Rng, o *hx.Out) {
	types := []string{"07-tendermint", "06-solomachine", "09-localhost", "08-wasm", "*", "", " ", "\t\n", " 07-tendermint", "x"}
	n := hx.N(150, 4000)
	for i := 0; i < n; i++ {
		var al []string
		switch r.Intn(6) {
		case 0:
			al = []string{"*"}
		case 1:
			al = []string{}
		case 2:
			al = []string{r.Pick(types)}
		default:
			k := 1 + r.Intn(4)
			for j := 0; j < k; j++ {
				al = append(al, r.Pick(types))
			}
		}
		ct := r.Pick(types)
		p := clienttypes.NewParams(al...)
		o.Emit("allowed_client", []any{hexs(al), hx.HS(ct)}, p.IsAllowedClient(ct), fmt.Sprintf("len%d", len(al)))
	}
	addrs := []string{}
	for i := 0; i < 5; i++ {
		addrs = append(addrs, sdk.AccAddress(r.Bytes(20)).String())
	}
	bad := []string{"", "cosmos1", "notbech32", strings.ToUpper(addrs[0])[:10]}
	for i := 0; i < n; i++ {
		var rs []string
		k := r.Intn(4)
		tag := "valid-list"
		for j := 0; j < k; j++ {
			switch r.Intn(8) {
			case 0:
				rs = append(rs, r.Pick(bad))
				tag = "bad-entry"
			case 1:
				rs = append(rs, strings.ToUpper(r.Pick(addrs)))
			default:
				rs = append(rs, r.Pick(addrs))
			}
		}
		if k == 0 {
			tag = "empty-list"
		}
		who := r.Pick(addrs)
		a, _ := sdk.AccAddressFromBech32(who)
		var res any
		p, _ := hx.Catch(func() { res = clientv2types.NewConfig(rs...).IsAllowedRelayer(a) })
		if p {
			res = nil
		}
		o.Emit("allowed_relayer", []any{table(rs...), hexs(rs), hx.H(a)}, res, tag)
	}
}

// ---------------------------------------------------------------------------------------------- world

type world struct {
	t     *testing.T
	coord *ibctesting.Coordinator
	A, B  *ibctesting.TestChain

	pathT  *ibctesting.Path // transfer v1 channel
	pathT2 *ibctesting.Path // second transfer channel (rate limit add target)
	pathV  *ibctesting.Path // v2 clients with counterparties
	pathR  *ibctesting.Path // clients only, no counterparty registered
	subj   *ibctesting.Path // frozen subject client
	subst  *ibctesting.Path // active substitute

	keeperAuth string
	override   string
	creator    string // signer that created every client on A
	listed     string // a relayer put on allow lists
	stranger   string
	signers    []signerT

	recvV2    *channeltypesv2.MsgRecvPacket
	ackV2     *channeltypesv2.MsgAcknowledgement
	timeoutV2 *channeltypesv2.MsgTimeout
	recvV1    *channeltypes.MsgRecvPacket
	updHeader exported.ClientMessage
	tmState   *ibctm.ClientState
	tmCons    *ibctm.ConsensusState
}

type signerT struct {
	class string
	text  string
}

func must(t *testing.T, err error) {
	t.Helper()
	if err != nil {
		t.Fatalf("setup: %v", err)
	}
}

func newWorld(t *testing.T) *world {
	w := &world{t: t}
	w.coord = ibctesting.NewCoordinator(t, 2)
	w.A = w.coord.GetChain(ibctesting.GetChainID(1))
	w.B = w.coord.GetChain(ibctesting.GetChainID(2))

	w.pathT = ibctesting.NewTransferPath(w.A, w.B)
	w.pathT.Setup()
	w.pathT2 = ibctesting.NewTransferPath(w.A, w.B)
	w.pathT2.Setup()
	// an unrelated client on A only, so that the two ends of every later path have DIFFERENT client identifiers
	// (07-tendermint-N+1 on A, 07-tendermint-N on B): a gate that looks at the counterparty's identifier instead of
	// the local one then consults another client's configuration (seeded change C46-1)
	extra := ibctesting.NewPath(w.A, w.B)
	must(t, extra.EndpointA.CreateClient())
	w.pathV = ibctesting.NewPath(w.A, w.B)
	w.pathV.SetupV2()
	if w.pathV.EndpointA.ClientID == w.pathV.EndpointB.ClientID {
		t.Fatal("client identifiers of the v2 path are meant to differ")
	}
	w.pathR = ibctesting.NewPath(w.A, w.B)
	w.pathR.SetupClients()
	w.subj = ibctesting.NewPath(w.A, w.B)
	w.subj.SetupClients()
	w.subst = ibctesting.NewPath(w.A, w.B)
	w.subst.SetupClients()
	must(t, w.subst.EndpointA.UpdateClient())
	must(t, w.subst.EndpointA.UpdateClient())

	app := w.A.GetSimApp()
	w.keeperAuth = app.GetIBCKeeper().GetAuthority()
	w.override = sdk.AccAddress("override_authority___").String()
	w.creator = w.A.SenderAccount.GetAddress().String()
	w.listed = w.A.SenderAccounts[1].SenderAccount.GetAddress().String()
	w.stranger = w.A.SenderAccounts[2].SenderAccount.GetAddress().String()
	w.signers = []signerT{
		{"authority", w.keeperAuth},
		{"override", w.override},
		{"creator", w.creator},
		{"listed", w.listed},
		{"stranger", w.stranger},
		{"creator-upper", strings.ToUpper(w.creator)},
		{"authority-upper", strings.ToUpper(w.keeperAuth)},
		{"invalid", "notbech32"},
		{"empty", ""},
	}

	// a rate limit to update / remove / reset
	must(t, app.RateLimitKeeper.AddRateLimit(w.A.GetContext(), &ratelimittypes.MsgAddRateLimit{
		Signer: w.keeperAuth, Denom: sdk.DefaultBondDenom, ChannelOrClientId: w.pathT.EndpointA.ChannelID,
		MaxPercentSend: sdkmath.NewInt(10), MaxPercentRecv: sdkmath.NewInt(10), DurationHours: 24,
	}))

	// v2 traffic: B -> A (to receive on A), A -> B received (to acknowledge on A), A -> B expiring (to time out on A)
	ts := w.B.GetTimeoutTimestampSecs()
	pRecv, err := w.pathV.EndpointB.MsgSendPacket(ts, mockv2.NewMockPayload(mockv2.ModuleNameB, mockv2.ModuleNameA))
	must(t, err)
	pAck, err := w.pathV.EndpointA.MsgSendPacket(w.A.GetTimeoutTimestampSecs(), mockv2.NewMockPayload(mockv2.ModuleNameA, mockv2.ModuleNameB))
	must(t, err)
	ack, err := w.pathV.EndpointB.MsgRecvPacketWithAck(pAck)
	must(t, err)
	shortTs := uint64(w.A.GetContext().BlockTime().Add(30 * time.Second).Unix())
	pTo, err := w.pathV.EndpointA.MsgSendPacket(shortTs, mockv2.NewMockPayload(mockv2.ModuleNameA, mockv2.ModuleNameB))
	must(t, err)

	// v1 traffic: B -> A on the transfer channel (arbitrary data: the app answers with an error ack, the message succeeds)
	seq, err := w.pathT.EndpointB.SendPacket(clienttypes.NewHeight(1, 100000), 0, []byte("not ics20 data"))
	must(t, err)
	pV1 := channeltypes.NewPacket([]byte("not ics20 data"), seq, w.pathT.EndpointB.ChannelConfig.PortID, w.pathT.EndpointB.ChannelID,
		w.pathT.EndpointA.ChannelConfig.PortID, w.pathT.EndpointA.ChannelID, clienttypes.NewHeight(1, 100000), 0)

	// let the short timeout pass on B, then bring every client on A up to date
	w.coord.IncrementTimeBy(2 * time.Minute)
	w.coord.CommitBlock(w.A, w.B)
	must(t, w.pathV.EndpointA.UpdateClient())
	must(t, w.pathT.EndpointA.UpdateClient())

	// freeze the subject client
	cs, ok := w.A.GetClientState(w.subj.EndpointA.ClientID).(*ibctm.ClientState)
	if !ok {
		t.Fatal("subject client state")
	}
	cs.FrozenHeight = cs.LatestHeight
	app.GetIBCKeeper().ClientKeeper.SetClientState(w.A.GetContext(), w.subj.EndpointA.ClientID, cs)
	w.coord.CommitBlock(w.A)

	// proofs against the (now fixed) latest heights of A's clients
	proof, ph := w.pathV.EndpointB.QueryProof(hostv2.PacketCommitmentKey(pRecv.SourceClient, pRecv.Sequence))
	w.recvV2 = channeltypesv2.NewMsgRecvPacket(pRecv, proof, ph, "")
	proof, ph = w.pathV.EndpointB.QueryProof(hostv2.PacketAcknowledgementKey(pAck.DestinationClient, pAck.Sequence))
	w.ackV2 = channeltypesv2.NewMsgAcknowledgement(pAck, ack, proof, ph, "")
	proof, ph = w.pathV.EndpointB.QueryProof(hostv2.PacketReceiptKey(pTo.DestinationClient, pTo.Sequence))
	w.timeoutV2 = channeltypesv2.NewMsgTimeout(pTo, proof, ph, "")
	proof, ph = w.pathT.EndpointB.QueryProof(host.PacketCommitmentKey(pV1.GetSourcePort(), pV1.GetSourceChannel(), pV1.GetSequence()))
	w.recvV1 = channeltypes.NewMsgRecvPacket(pV1, proof, ph, "")

	// a header that updates pathV's client on A
	w.coord.CommitBlock(w.B)
	trusted, _ := w.pathV.EndpointA.GetClientLatestHeight().(clienttypes.Height)
	hdr, err := w.B.IBCClientHeader(w.B.LatestCommittedHeader, trusted)
	must(t, err)
	w.updHeader = hdr

	// material for CreateClient / IBCSoftwareUpgrade
	tmc, _ := w.pathV.EndpointA.ClientConfig.(*ibctesting.TendermintConfig)
	h, _ := w.B.LatestCommittedHeader.GetHeight().(clienttypes.Height)
	w.tmState = ibctm.NewClientState(w.B.ChainID, tmc.TrustLevel, tmc.TrustingPeriod, tmc.UnbondingPeriod, tmc.MaxClockDrift,
		h, commitmenttypes.GetSDKSpecs(), ibctesting.UpgradePath)
	w.tmCons = w.B.LatestCommittedHeader.ConsensusState()
	return w
}

// cfg is one configuration of everything a gate can look at.
type cfg struct {
	cpAuth    string   // consensus-params authority ("" = unset)
	creator   bool     // creator entry present
	cpSet     bool     // use the client that has a counterparty registered
	relayers  []string // allow list of the scoped client
	allowed   []string // Params.AllowedClients
	pre, body bool
}

type opT struct {
	name string
	// which dimensions matter (others are drawn at random)
	dEnv, dCreator, dCp, dRel, dAllowed, dPre, dBody bool
	// id of the client the gate is scoped to / routes on, given the configuration
	client func(w *world, c cfg) string
	run    func(w *world, ctx sdk.Context, c cfg, signer string, cell int) error
}

func (w *world) relayerLists() [][]string {
	other := w.A.SenderAccounts[3].SenderAccount.GetAddress().String()
	return [][]string{
		{},
		{w.listed},
		{other, w.listed},
		{other},
		{strings.ToUpper(w.listed)},
		{"notbech32", w.listed},
		{w.listed, "notbech32"},
	}
}

var allowedLists = [][]string{
	{"*"},
	{"07-tendermint"},
	{"06-solomachine", "07-tendermint", "09-localhost"},
	{"06-solomachine"},
	{},
	{"*", "06-solomachine"},
}

func clientV(w *world, c cfg) string {
	if c.cpSet {
		return w.pathV.EndpointA.ClientID
	}
	return w.pathR.EndpointA.ClientID
}

func flip(b []byte) []byte {
	out := append([]byte{}, b...)
	if len(out) > 0 {
		out[len(out)/2] ^= 0x41
	}
	return out
}

func (w *world) ops() []opT {
	app := w.A.GetSimApp()
	k := app.GetIBCKeeper()
	rl := ratelimitkeeper.NewMsgServerImpl(app.RateLimitKeeper)
	icah := icahostkeeper.NewMsgServerImpl(app.ICAHostKeeper)
	fixedV := func(w *world, c cfg) string { return w.pathV.EndpointA.ClientID }
	return []opT{
		{name: "RecoverClient", dEnv: true, dAllowed: true, dBody: true,
			client: func(w *world, c cfg) string { return w.subj.EndpointA.ClientID },
			run: func(w *world, ctx sdk.Context, c cfg, s string, _ int) error {
				sub := w.subst.EndpointA.ClientID
				if !c.body {
					sub = w.subj.EndpointA.ClientID // substitute not active
				}
				_, err := k.RecoverClient(ctx, clienttypes.NewMsgRecoverClient(s, w.subj.EndpointA.ClientID, sub))
				return err
			}},
		{name: "SoftwareUpgrade", dEnv: true, dPre: true, dBody: true, client: fixedV,
			run: func(w *world, ctx sdk.Context, c cfg, s string, _ int) error {
				plan := upgradetypes.Plan{Name: "upgrade IBC clients", Height: 100000}
				if !c.body {
					plan.Height = 0
				}
				cs := *w.tmState
				cs.TrustingPeriod += 100
				msg, err := clienttypes.NewMsgIBCSoftwareUpgrade(s, plan, &cs)
				if err != nil {
					return err
				}
				if !c.pre {
					msg.UpgradedClientState = nil
				}
				_, err = k.IBCSoftwareUpgrade(ctx, msg)
				return err
			}},
		{name: "ClientParams", dEnv: true, client: fixedV,
			run: func(w *world, ctx sdk.Context, c cfg, s string, cell int) error {
				_, err := k.UpdateClientParams(ctx, clienttypes.NewMsgUpdateParams(s, clienttypes.NewParams("07-tendermint", fmt.Sprintf("zz-%d", cell))))
				return err
			}},
		{name: "ConnParams", dEnv: true, client: fixedV,
			run: func(w *world, ctx sdk.Context, c cfg, s string, cell int) error {
				_, err := k.UpdateConnectionParams(ctx, connectiontypes.NewMsgUpdateParams(s, connectiontypes.NewParams(uint64(777+cell))))
				return err
			}},
		{name: "TransferParams", dEnv: true, client: fixedV,
			run: func(w *world, ctx sdk.Context, c cfg, s string, _ int) error {
				p := app.TransferKeeper.GetParams(ctx)
				p.SendEnabled = !p.SendEnabled
				_, err := app.TransferKeeper.UpdateParams(ctx, transfertypes.NewMsgUpdateParams(s, p))
				return err
			}},
		{name: "IcaHostParams", dEnv: true, client: fixedV,
			run: func(w *world, ctx sdk.Context, c cfg, s string, _ int) error {
				p := app.ICAHostKeeper.GetParams(ctx)
				p.HostEnabled = !p.HostEnabled
				_, err := icah.UpdateParams(ctx, icahosttypes.NewMsgUpdateParams(s, p))
				return err
			}},
		{name: "IcaCtrlParams", dEnv: true, client: fixedV,
			run: func(w *world, ctx sdk.Context, c cfg, s string, _ int) error {
				p := app.ICAControllerKeeper.GetParams(ctx)
				p.ControllerEnabled = !p.ControllerEnabled
				_, err := app.ICAControllerKeeper.UpdateParams(ctx, icacontrollertypes.NewMsgUpdateParams(s, p))
				return err
			}},
		{name: "RlAdd", dEnv: true, dBody: true, client: fixedV,
			run: func(w *world, ctx sdk.Context, c cfg, s string, _ int) error {
				ch := w.pathT2.EndpointA.ChannelID
				if !c.body {
					ch = w.pathT.EndpointA.ChannelID // already exists
				}
				_, err := rl.AddRateLimit(ctx, &ratelimittypes.MsgAddRateLimit{Signer: s, Denom: sdk.DefaultBondDenom, ChannelOrClientId: ch,
					MaxPercentSend: sdkmath.NewInt(20), MaxPercentRecv: sdkmath.NewInt(20), DurationHours: 12})
				return err
			}},
		{name: "RlUpdate", dEnv: true, dBody: true, client: fixedV,
			run: func(w *world, ctx sdk.Context, c cfg, s string, _ int) error {
				ch := w.pathT.EndpointA.ChannelID
				if !c.body {
					ch = w.pathT2.EndpointA.ChannelID // no such limit
				}
				_, err := rl.UpdateRateLimit(ctx, &ratelimittypes.MsgUpdateRateLimit{Signer: s, Denom: sdk.DefaultBondDenom, ChannelOrClientId: ch,
					MaxPercentSend: sdkmath.NewInt(33), MaxPercentRecv: sdkmath.NewInt(33), DurationHours: 6})
				return err
			}},
		{name: "RlRemove", dEnv: true, dBody: true, client: fixedV,
			run: func(w *world, ctx sdk.Context, c cfg, s string, _ int) error {
				ch := w.pathT.EndpointA.ChannelID
				if !c.body {
					ch = w.pathT2.EndpointA.ChannelID
				}
				_, err := rl.RemoveRateLimit(ctx, &ratelimittypes.MsgRemoveRateLimit{Signer: s, Denom: sdk.DefaultBondDenom, ChannelOrClientId: ch})
				return err
			}},
		{name: "RlReset", dEnv: true, dBody: true, client: fixedV,
			run: func(w *world, ctx sdk.Context, c cfg, s string, _ int) error {
				ch := w.pathT.EndpointA.ChannelID
				if !c.body {
					ch = w.pathT2.EndpointA.ChannelID
				}
				// make the reset observable: put a non-zero flow first (part of the configuration, before the snapshot)
				_, err := rl.ResetRateLimit(ctx, &ratelimittypes.MsgResetRateLimit{Signer: s, Denom: sdk.DefaultBondDenom, ChannelOrClientId: ch})
				return err
			}},
		{name: "RegisterCounterparty", dCreator: true, dCp: true, client: clientV,
			run: func(w *world, ctx sdk.Context, c cfg, s string, _ int) error {
				_, err := k.RegisterCounterparty(ctx, clientv2types.NewMsgRegisterCounterparty(clientV(w, c), [][]byte{[]byte("ibc"), []byte("")}, "07-tendermint-77", s))
				return err
			}},
		{name: "UpdateClientConfig", dEnv: true, dCreator: true, client: clientV,
			run: func(w *world, ctx sdk.Context, c cfg, s string, cell int) error {
				newCfg := clientv2types.NewConfig(w.stranger, sdk.AccAddress(fmt.Sprintf("cell-%015d", cell)).String())
				_, err := k.UpdateClientConfig(ctx, clientv2types.NewMsgUpdateClientConfig(clientV(w, c), s, newCfg))
				return err
			}},
		{name: "DeleteClientCreator", dEnv: true, dCreator: true, client: clientV,
			run: func(w *world, ctx sdk.Context, c cfg, s string, _ int) error {
				_, err := k.DeleteClientCreator(ctx, clienttypes.NewMsgDeleteClientCreator(clientV(w, c), s))
				return err
			}},
		{name: "CreateClient", dAllowed: true, dPre: true, dBody: true,
			client: func(w *world, c cfg) string {
				return clienttypes.FormatClientIdentifier(exported.Tendermint, k.ClientKeeper.GetNextClientSequence(w.A.GetContext()))
			},
			run: func(w *world, ctx sdk.Context, c cfg, s string, _ int) error {
				cs := *w.tmState
				if !c.body {
					cs.ChainId = "" // Initialize -> Validate fails
				}
				msg, err := clienttypes.NewMsgCreateClient(&cs, w.tmCons, s)
				if err != nil {
					return err
				}
				if !c.pre {
					msg.ClientState = nil
				}
				_, err = k.CreateClient(ctx, msg)
				return err
			}},
		{name: "UpdateClient", dRel: true, dAllowed: true, dPre: true, dBody: true, client: fixedV,
			run: func(w *world, ctx sdk.Context, c cfg, s string, _ int) error {
				msg, err := clienttypes.NewMsgUpdateClient(w.pathV.EndpointA.ClientID, w.updHeader, s)
				if err != nil {
					return err
				}
				if !c.body {
					hdr, _ := w.updHeader.(*ibctm.Header)
					bad := *hdr
					bad.TrustedHeight = clienttypes.NewHeight(1, 1) // no such consensus state
					msg, _ = clienttypes.NewMsgUpdateClient(w.pathV.EndpointA.ClientID, &bad, s)
				}
				if !c.pre {
					msg.ClientMessage = nil
				}
				_, err = k.UpdateClient(ctx, msg)
				return err
			}},
		{name: "RecvV2", dRel: true, dAllowed: true, dBody: true, client: fixedV,
			run: func(w *world, ctx sdk.Context, c cfg, s string, _ int) error {
				m := *w.recvV2
				m.Signer = s
				if !c.body {
					m.ProofCommitment = flip(m.ProofCommitment)
				}
				_, err := k.ChannelKeeperV2.RecvPacket(ctx, &m)
				return err
			}},
		{name: "AckV2", dRel: true, dAllowed: true, dBody: true, client: fixedV,
			run: func(w *world, ctx sdk.Context, c cfg, s string, _ int) error {
				m := *w.ackV2
				m.Signer = s
				if !c.body {
					m.ProofAcked = flip(m.ProofAcked)
				}
				_, err := k.ChannelKeeperV2.Acknowledgement(ctx, &m)
				return err
			}},
		{name: "TimeoutV2", dRel: true, dAllowed: true, dBody: true, client: fixedV,
			run: func(w *world, ctx sdk.Context, c cfg, s string, _ int) error {
				m := *w.timeoutV2
				m.Signer = s
				if !c.body {
					m.ProofUnreceived = flip(m.ProofUnreceived)
				}
				_, err := k.ChannelKeeperV2.Timeout(ctx, &m)
				return err
			}},
		{name: "RecvV1Use", dAllowed: true, dBody: true,
			client: func(w *world, c cfg) string { return w.pathT.EndpointA.ClientID },
			run: func(w *world, ctx sdk.Context, c cfg, s string, _ int) error {
				m := *w.recvV1
				m.Signer = s
				if !c.body {
					m.ProofCommitment = flip(m.ProofCommitment)
				}
				_, err := k.RecvPacket(ctx, &m)
				return err
			}},
		{name: "ClientStatus", dAllowed: true, client: fixedV,
			run: func(w *world, ctx sdk.Context, c cfg, s string, cell int) error {
				id := w.pathV.EndpointA.ClientID
				if st := k.ClientKeeper.GetClientStatus(ctx, id); st == exported.Unauthorized {
					return fmt.Errorf("unauthorized")
				}
				return nil
			}},
	}
}

// apply writes the configuration into the (branched) state.
func (w *world) apply(ctx sdk.Context, op opT, c cfg) {
	app := w.A.GetSimApp()
	k := app.GetIBCKeeper()
	k.ClientKeeper.SetParams(ctx, clienttypes.NewParams(c.allowed...))
	id := op.client(w, c)
	if !c.creator {
		k.ClientKeeper.DeleteClientCreator(ctx, id)
	}
	k.ClientV2Keeper.SetConfig(ctx, id, clientv2types.NewConfig(c.relayers...))
	if op.name == "RlReset" {
		// give the limit a non-zero flow so that a reset is a visible change
		rlim, found := app.RateLimitKeeper.GetRateLimit(ctx, sdk.DefaultBondDenom, w.pathT.EndpointA.ChannelID)
		if found {
			rlim.Flow.Outflow = sdkmath.NewInt(5)
			app.RateLimitKeeper.SetRateLimit(ctx, rlim)
		}
	}
}

func (w *world) matrix(r *hx.Rng, o *hx.Out) {
	k := w.A.GetSimApp().GetIBCKeeper()
	rels := w.relayerLists()
	cell := 0
	rep := hx.N(1, 6)
	for _, op := range w.ops() {
		// dimensions that matter for this operation are enumerated in full, the rest are drawn at random
		envs := []string{""}
		if op.dEnv {
			envs = []string{"", w.override}
		}
		crs := []bool{true}
		if op.dCreator {
			crs = []bool{true, false}
		}
		cps := []bool{true}
		if op.dCp {
			cps = []bool{true, false}
		}
		rls := [][]string{nil}
		if op.dRel {
			rls = rels
		}
		als := [][]string{nil}
		if op.dAllowed {
			als = allowedLists
		}
		pres := []bool{true}
		if op.dPre {
			pres = []bool{true, false}
		}
		bodies := []bool{true}
		if op.dBody {
			bodies = []bool{true, false}
		}
		for rp := 0; rp < rep; rp++ {
			for _, sg := range w.signers {
				for _, e := range envs {
					for _, cr := range crs {
						for _, cp := range cps {
							for _, rl := range rls {
								for _, al := range als {
									for _, pre := range pres {
										for _, bd := range bodies {
											if (op.dRel && op.dAllowed) && !pre && r.Chance(2, 3) {
												continue // thin out the largest products
											}
											c := cfg{cpAuth: e, creator: cr, cpSet: cp, relayers: rl, allowed: al, pre: pre, body: bd}
											if !op.dEnv && r.Chance(1, 3) {
												c.cpAuth = w.override
											}
											if !op.dCreator && r.Chance(1, 3) {
												c.creator = false
											}
											if !op.dCp {
												c.cpSet = r.Bool()
												if op.name != "UpdateClientConfig" && op.name != "DeleteClientCreator" {
													c.cpSet = true
												}
											}
											if !op.dRel {
												c.relayers = rels[r.Intn(5)] // without the panicking entries
											}
											if !op.dAllowed {
												c.allowed = allowedLists[r.Intn(3)]
												if r.Chance(1, 4) {
													c.allowed = allowedLists[r.Intn(len(allowedLists))]
												}
											}
											w.runCell(o, k.GetAuthority(), op, c, sg, cell)
											cell++
										}
									}
								}
							}
						}
					}
				}
			}
		}
	}
	// routing corner cases: unparsable id, type without a registered module
	for _, id := range []string{"bad", "08-wasm-5", "07-tendermint-", "tendermint-1", "09-localhost"} {
		for _, al := range allowedLists {
			ctx, _ := w.A.GetContext().CacheContext()
			k.ClientKeeper.SetParams(ctx, clienttypes.NewParams(al...))
			before := w.dump(ctx)
			c2, _ := ctx.CacheContext()
			var st exported.Status
			out := outcome(func() error {
				st = k.ClientKeeper.GetClientStatus(c2, id)
				if st == exported.Unauthorized {
					return fmt.Errorf("unauthorized")
				}
				return nil
			})
			var ct any
			ctype, _, err := clienttypes.ParseClientIdentifier(id)
			if err == nil {
				ct = hx.HS(ctype)
			}
			_, routed := routedTypes[ctype]
			o.Emit("auth_cell", map[string]any{
				"op": "ClientStatus", "signer": "", "table": [][]string{}, "keeper_auth": hx.HS(w.keeperAuth), "cp_auth": "",
				"creator": "", "cp_set": false, "relayers": []string{}, "allowed": hexs(al), "ctype": ct, "routed": routed && err == nil,
				"pre": true, "body": true, "class": "none", "client": id,
			}, map[string]any{"outcome": out, "dirty": before != w.dump(c2)}, "ClientStatus/route-corner")
		}
	}
}

var routedTypes = map[string]bool{"07-tendermint": true, "06-solomachine": true, "09-localhost": true}

func (w *world) runCell(o *hx.Out, keeperAuth string, op opT, c cfg, sg signerT, cell int) {
	k := w.A.GetSimApp().GetIBCKeeper()
	base, _ := w.A.GetContext().CacheContext()
	if c.cpAuth != "" {
		base = base.WithConsensusParams(cmtproto.ConsensusParams{Authority: &cmtproto.AuthorityParams{Authority: c.cpAuth}})
	}
	w.apply(base, op, c)
	id := op.client(w, c)
	creator := k.ClientKeeper.GetClientCreator(base, id)
	_, cpSet := k.ClientV2Keeper.GetClientCounterparty(base, id)
	before := w.dump(base)
	ctx, _ := base.CacheContext()
	out := outcome(func() error { return op.run(w, ctx, c, sg.text, cell) })
	dirty := before != w.dump(ctx)

	var ct any
	ctype, _, err := clienttypes.ParseClientIdentifier(id)
	if err == nil {
		ct = hx.HS(ctype)
	}
	texts := append([]string{sg.text}, c.relayers...)
	in := map[string]any{
		"op": op.name, "signer": hx.HS(sg.text), "table": table(texts...),
		"keeper_auth": hx.HS(keeperAuth), "cp_auth": hx.HS(c.cpAuth),
		"creator": hx.H(creator), "cp_set": cpSet, "relayers": hexs(c.relayers), "allowed": hexs(c.allowed),
		"ctype": ct, "routed": routedTypes[ctype] && err == nil, "pre": c.pre, "body": c.body,
		"class": sg.class, "client": id,
	}
	tag := op.name + "/" + sg.class
	o.Emit("auth_cell", in, map[string]any{"outcome": out, "dirty": dirty}, tag)
}

// ---------------------------------------------------------------------------------------------- histories

// history runs client-scoped operations on a fresh chain pair through the real message server, committing each
// successful step (a failed message leaves no trace, as under baseapp's transaction atomicity).
func history(t *testing.T, r *hx.Rng, o *hx.Out, idx int) {
	coord := ibctesting.NewCoordinator(t, 2)
	A := coord.GetChain(ibctesting.GetChainID(1))
	B := coord.GetChain(ibctesting.GetChainID(2))
	k := A.GetSimApp().GetIBCKeeper()
	auth := k.GetAuthority()
	accs := []string{}
	for i := 0; i < 4; i++ {
		accs = append(accs, A.SenderAccounts[i].SenderAccount.GetAddress().String())
	}
	pickSigner := func() string {
		switch r.Intn(10) {
		case 0, 1:
			return auth
		case 2:
			return strings.ToUpper(accs[r.Intn(len(accs))])
		case 3:
			if r.Bool() {
				return "notbech32"
			}
			return ""
		default:
			return accs[r.Intn(len(accs))]
		}
	}
	allowed0 := []string{"*"}
	k.ClientKeeper.SetParams(A.GetContext(), clienttypes.NewParams(allowed0...))
	tmc := ibctesting.NewTendermintConfig()
	created := 0 // number of successful creations = next client sequence
	var creators []string
	texts := []string{auth}
	ops := []any{}
	outs := []string{}
	n := 12 + r.Intn(hx.N(20, 40))
	step := func(f func(ctx sdk.Context) error) string {
		ctx, write := A.GetContext().CacheContext()
		out := outcome(func() error { return f(ctx) })
		if out == "ok" {
			write()
		}
		return out
	}
	for i := 0; i < n; i++ {
		sg := pickSigner()
		texts = append(texts, sg)
		pickID := func() int {
			if created == 0 || r.Chance(1, 8) {
				return created + r.Intn(2)
			}
			return r.Intn(created)
		}
		choice := r.Intn(12)
		if created == 0 && i < 2 {
			choice = 0
		}
		switch {
		case choice <= 1: // create
			bd := !r.Chance(1, 6)
			coord.CommitBlock(B) // advances the coordinator time, so later headers are strictly newer
			h, _ := B.LatestCommittedHeader.GetHeight().(clienttypes.Height)
			cs := ibctm.NewClientState(B.ChainID, tmc.TrustLevel, tmc.TrustingPeriod, tmc.UnbondingPeriod, tmc.MaxClockDrift, h, commitmenttypes.GetSDKSpecs(), ibctesting.UpgradePath)
			if !bd {
				cs.ChainId = ""
			}
			out := step(func(ctx sdk.Context) error {
				msg, err := clienttypes.NewMsgCreateClient(cs, B.LatestCommittedHeader.ConsensusState(), sg)
				if err != nil {
					return err
				}
				_, err = k.CreateClient(ctx, msg)
				return err
			})
			if out == "ok" {
				created++
				creators = append(creators, sg)
			}
			ops = append(ops, []any{"create", hx.HS(sg), hx.HS(exported.Tendermint), bd})
			outs = append(outs, out)
		case choice <= 4: // register counterparty (prefer the creator)
			id := pickID()
			if id < len(creators) && r.Chance(2, 3) {
				sg = creators[id]
			}
			out := step(func(ctx sdk.Context) error {
				_, err := k.RegisterCounterparty(ctx, clientv2types.NewMsgRegisterCounterparty(tmID(id), [][]byte{[]byte("ibc"), []byte("")}, "07-tendermint-9", sg))
				return err
			})
			ops = append(ops, []any{"register", id, hx.HS(sg)})
			outs = append(outs, out)
		case choice <= 6: // config
			id := pickID()
			if id < len(creators) && r.Chance(1, 2) {
				sg = creators[id]
			}
			var rs []string
			for j := r.Intn(3); j > 0; j-- {
				if r.Chance(1, 10) {
					rs = append(rs, "notbech32")
				} else {
					rs = append(rs, accs[r.Intn(len(accs))])
				}
			}
			texts = append(texts, rs...)
			out := step(func(ctx sdk.Context) error {
				_, err := k.UpdateClientConfig(ctx, clientv2types.NewMsgUpdateClientConfig(tmID(id), sg, clientv2types.NewConfig(rs...)))
				return err
			})
			ops = append(ops, []any{"config", id, hx.HS(sg), hexs(rs)})
			outs = append(outs, out)
		case choice == 7: // delete creator
			id := pickID()
			if id < len(creators) && r.Chance(1, 2) {
				sg = creators[id]
			}
			out := step(func(ctx sdk.Context) error {
				_, err := k.DeleteClientCreator(ctx, clienttypes.NewMsgDeleteClientCreator(tmID(id), sg))
				return err
			})
			ops = append(ops, []any{"delete", id, hx.HS(sg)})
			outs = append(outs, out)
		case choice <= 10: // update
			id := pickID()
			exists := id < created
			bd := exists && !r.Chance(1, 6)
			coord.CommitBlock(B)
			coord.CommitBlock(A) // A's block time must not lag behind the header (clock drift check)
			var msg *clienttypes.MsgUpdateClient
			if exists {
				trusted := k.ClientKeeper.GetClientLatestHeight(A.GetContext(), tmID(id))
				if trusted.IsZero() {
					// the type is currently not allowed: read the height from the stored client state
					if cs, ok := A.GetClientState(tmID(id)).(*ibctm.ClientState); ok {
						trusted = cs.LatestHeight
					}
				}
				hdr, err := B.IBCClientHeader(B.LatestCommittedHeader, trusted)
				if err != nil {
					t.Fatalf("header: %v", err)
				}
				if !bd {
					hdr.TrustedHeight = clienttypes.NewHeight(1, 1)
				}
				msg, _ = clienttypes.NewMsgUpdateClient(tmID(id), hdr, sg)
			} else {
				msg, _ = clienttypes.NewMsgUpdateClient(tmID(id), B.LatestCommittedHeader, sg)
			}
			out := step(func(ctx sdk.Context) error {
				_, err := k.UpdateClient(ctx, msg)
				return err
			})
			ops = append(ops, []any{"update", id, hx.HS(sg), hx.HS(exported.Tendermint), bd})
			outs = append(outs, out)
		default: // params
			al := allowedLists[r.Intn(len(allowedLists))]
			if r.Chance(1, 2) {
				sg = auth
			}
			out := step(func(ctx sdk.Context) error {
				_, err := k.UpdateClientParams(ctx, clienttypes.NewMsgUpdateParams(sg, clienttypes.NewParams(al...)))
				return err
			})
			ops = append(ops, []any{"params", hx.HS(sg), hexs(al)})
			outs = append(outs, out)
		}
		texts = append(texts, sg)
		if r.Chance(1, 4) {
			coord.CommitBlock(A)
		}
	}
	o.Emit("auth_hist", map[string]any{
		"table": table(texts...), "keeper_auth": hx.HS(auth), "cp_auth": "", "allowed0": hexs(allowed0), "ops": ops,
	}, outs, fmt.Sprintf("hist/%d-creates", created))
}

func tmID(i int) string { return clienttypes.FormatClientIdentifier(exported.Tendermint, uint64(i)) }
