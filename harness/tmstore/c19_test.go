package tmstore

import (
	clienttypes "github.com/cosmos/ibc-go/v11/modules/core/02-client/types"
	connectionkeeper "github.com/cosmos/ibc-go/v11/modules/core/03-connection/keeper"
	connectiontypes "github.com/cosmos/ibc-go/v11/modules/core/03-connection/types"
	ibctm "github.com/cosmos/ibc-go/v11/modules/light-clients/07-tendermint"

	"verif/harness/hx"
)

const max64 = ^uint64(0)

// regression witnesses of the two fixed defects (float64 ceiling; wrapping sums) stay in the corpus
var delayWitnesses = [][2]uint64{
	{1<<53 + 1, 2}, {1<<53 + 1, 1}, {max64, 1}, {1 << 62, 3}, {max64, 2}, {max64, max64}, {max64 - 1, max64},
	{1, max64}, {0, 5}, {5, 0}, {0, 0}, {1 << 63, 1 << 62}, {1<<63 + 1, 1 << 62}, {1<<53 + 1, 3}, {1<<54 + 2, 4},
	{9007199254740993, 9007199254740992}, {18446744073709551557, 3}, {18446744073709551557, 18446744073709551556},
}

func (e *env) blockDelay(d, p uint64) (uint64, bool) {
	ctx := e.branch()
	e.connk.SetParams(ctx, connectiontypes.NewParams(p))
	conn := connectiontypes.ConnectionEnd{DelayPeriod: d}
	var res uint64
	panicked, _ := hx.Catch(func() { res = connectionkeeper.VerifGetBlockDelay(e.connk, ctx, conn) })
	return res, panicked
}

type delayIn struct {
	Pt   *string  `json:"pt"`   // processed time stored for the proof height (nil: none)
	Ph   []string `json:"ph"`   // processed height stored for the proof height (nil: none)
	Now  string   `json:"now"`  // uint64(ctx.BlockTime().UnixNano())
	Self []string `json:"self"` // GetSelfHeight(ctx)
	Dt   string   `json:"dt"`
	Db   string   `json:"db"`
}

func (e *env) delayPassed(pt *uint64, ph *clienttypes.Height, now uint64, self clienttypes.Height, dt, db uint64) string {
	ctx := at(e.branch(), self.RevisionNumber, self.RevisionHeight, now)
	store := e.clientStore(ctx, "07-tendermint-4242")
	proofHeight := clienttypes.NewHeight(3, 77)
	if pt != nil {
		ibctm.SetProcessedTime(store, proofHeight, *pt)
	}
	if ph != nil {
		ibctm.SetProcessedHeight(store, proofHeight, *ph)
	}
	var err error
	panicked, _ := hx.Catch(func() { err = ibctm.VerifVerifyDelayPeriodPassed(ctx, store, proofHeight, dt, db) })
	switch {
	case panicked:
		return "panic"
	case err != nil:
		return "err"
	}
	return "ok"
}

func famC19(r *hx.Rng, o *sink, e *env) {
	emitBD := func(d, p uint64, tag string) {
		res, panicked := e.blockDelay(d, p)
		var out any = hx.U(res)
		if panicked {
			out = "panic"
		}
		o.Emit("block_delay", []string{hx.U(d), hx.U(p)}, out, tag)
	}
	for _, w := range delayWitnesses {
		emitBD(w[0], w[1], "witness")
	}
	n := hx.N(800, 8000)
	for i := 0; i < n; i++ {
		switch r.Intn(5) {
		case 0: // exact multiples and their neighbours
			p := r.U64B()
			if p == 0 {
				p = 1
			}
			q := r.U64B()
			if p > 1 {
				q %= max64/p + 1
			}
			d := q * p
			emitBD(d, p, "multiple")
			emitBD(d+1, p, "multiple+1")
			emitBD(d-1, p, "multiple-1")
		case 1: // above 2^53 where float64 loses integers
			emitBD(1<<53+r.U64()%(1<<20), 1+r.U64()%16, "above-2^53")
		case 2:
			emitBD(max64-r.U64()%8, 1+r.U64()%8, "near-max")
		case 3:
			emitBD(r.U64B(), 0, "zero-param")
		default:
			emitBD(r.U64B(), r.U64B(), "random")
		}
	}

	emitDP := func(pt *uint64, ph *clienttypes.Height, now uint64, self clienttypes.Height, dt, db uint64, tag string) {
		in := delayIn{Now: hx.U(now), Self: hj(self), Dt: hx.U(dt), Db: hx.U(db)}
		if pt != nil {
			s := hx.U(*pt)
			in.Pt = &s
		}
		if ph != nil {
			in.Ph = hj(*ph)
		}
		o.Emit("delay_passed", in, e.delayPassed(pt, ph, now, self, dt, db), tag)
	}
	u := func(x uint64) *uint64 { return &x }
	hp := func(a, b uint64) *clienttypes.Height { h := clienttypes.NewHeight(a, b); return &h }
	// sums that wrap around 2^64 (fixed defect F1b) and their non-wrapping neighbours
	emitDP(u(max64-5), hp(1, 10), 3, clienttypes.NewHeight(1, 100), 10, 0, "witness-time-wrap")
	emitDP(u(max64-5), hp(1, 10), max64, clienttypes.NewHeight(1, 100), 5, 0, "witness-time-max")
	emitDP(u(max64-5), hp(1, 10), max64, clienttypes.NewHeight(1, 100), 6, 0, "witness-time-wrap")
	emitDP(u(5), hp(1, max64-5), 100, clienttypes.NewHeight(1, 3), 0, 10, "witness-height-wrap")
	emitDP(u(5), hp(1, max64-5), 100, clienttypes.NewHeight(1, max64), 0, 5, "witness-height-max")
	emitDP(u(5), hp(1, max64-5), 100, clienttypes.NewHeight(1, max64), 0, 6, "witness-height-wrap")
	emitDP(u(5), hp(1, max64-5), 100, clienttypes.NewHeight(2, 0), 0, 6, "witness-height-wrap-later-revision")
	emitDP(u(1<<63), hp(1, 1<<63), 0, clienttypes.NewHeight(1, 0), 1 << 63, 1 << 63, "witness-both-wrap")
	n = hx.N(1200, 12000)
	for i := 0; i < n; i++ {
		pt := r.U64B()
		dt := r.U64B()
		ph := clienttypes.NewHeight(r.U64B()%4, r.U64B())
		db := r.U64B()
		now := r.U64B(pt+dt, pt, dt)
		self := clienttypes.NewHeight(r.U64B(ph.RevisionNumber)%4, r.U64B(ph.RevisionHeight+db, ph.RevisionHeight, db))
		tag := "random"
		ptp, php := &pt, &ph
		switch r.Intn(12) {
		case 0: // time boundary: exactly at, one before, one after (no wrap)
			pt >>= 1
			dt = 1 + dt>>1
			now = pt + dt + uint64(r.Intn(3)) - 1
			tag = "time-boundary"
		case 1: // height boundary
			ph.RevisionHeight >>= 1
			db = 1 + db>>1
			self = clienttypes.NewHeight(ph.RevisionNumber, ph.RevisionHeight+db+uint64(r.Intn(3))-1)
			tag = "height-boundary"
		case 2: // both exactly satisfied
			pt >>= 1
			dt >>= 1
			ph.RevisionHeight >>= 1
			db >>= 1
			now = pt + dt
			self = clienttypes.NewHeight(ph.RevisionNumber, ph.RevisionHeight+db)
			tag = "both-exact"
		case 3:
			dt = 0
			tag = "no-time-delay"
		case 4:
			db = 0
			tag = "no-block-delay"
		case 5:
			ptp = nil
			tag = "missing-time"
		case 6:
			php = nil
			tag = "missing-height"
		case 7: // wrapping time sum
			pt = max64 - r.U64()%1000
			dt = 1 + r.U64()%2000
			now = r.U64B(pt+dt, max64)
			tag = "time-sum-near-wrap"
		case 8: // wrapping height sum
			ph.RevisionHeight = max64 - r.U64()%1000
			db = 1 + r.U64()%2000
			self = clienttypes.NewHeight(r.U64B(ph.RevisionNumber)%4, r.U64B(ph.RevisionHeight+db, max64))
			tag = "height-sum-near-wrap"
		case 9: // self revision differs from the processed revision
			self.RevisionNumber = ph.RevisionNumber + uint64(r.Intn(3)) - 1
			if ph.RevisionNumber == 0 && self.RevisionNumber == max64 {
				self.RevisionNumber = 0
			}
			tag = "revision-differs"
		}
		emitDP(ptp, php, now, self, dt, db, tag)
	}
}
