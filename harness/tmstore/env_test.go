package tmstore

import (
	"testing"
	"time"

	"github.com/cosmos/cosmos-sdk/codec"
	storetypes "github.com/cosmos/cosmos-sdk/store/v2/types"
	sdk "github.com/cosmos/cosmos-sdk/types"

	clientkeeper "github.com/cosmos/ibc-go/v11/modules/core/02-client/keeper"
	clienttypes "github.com/cosmos/ibc-go/v11/modules/core/02-client/types"
	connectionkeeper "github.com/cosmos/ibc-go/v11/modules/core/03-connection/keeper"
	ibctesting "github.com/cosmos/ibc-go/v11/testing"

	"verif/harness/hx"
)

// env wraps one real simapp chain (A). Every record/history works on a cache branch of A's
// context that is never written back, so records are independent of each other.
type env struct {
	t      *testing.T
	coord  *ibctesting.Coordinator
	A, B   *ibctesting.TestChain
	cdc    codec.BinaryCodec
	ck     *clientkeeper.Keeper
	connk  *connectionkeeper.Keeper
	nextID int
}

func newEnv(t *testing.T, coord *ibctesting.Coordinator) *env {
	a := coord.GetChain(ibctesting.GetChainID(1))
	b := coord.GetChain(ibctesting.GetChainID(2))
	return &env{
		t: t, coord: coord, A: a, B: b,
		cdc:   a.App.AppCodec(),
		ck:    a.App.GetIBCKeeper().ClientKeeper,
		connk: a.App.GetIBCKeeper().ConnectionKeeper,
	}
}

// branch returns a fresh cache branch of chain A's current context.
func (e *env) branch() sdk.Context {
	ctx, _ := e.A.GetContext().CacheContext()
	return ctx
}

// at sets the executing chain's identity (revision via chain id), block height and time on ctx.
// selfRev 0 is a chain id without revision suffix. height and now are the uint64 values the code
// obtains by its casts uint64(ctx.BlockHeight()) and uint64(ctx.BlockTime().UnixNano()).
func at(ctx sdk.Context, selfRev, height, now uint64) sdk.Context {
	id := "verif"
	if selfRev != 0 {
		id = "verif-" + hx.U(selfRev)
	}
	return ctx.WithChainID(id).WithBlockHeight(int64(height)).WithBlockTime(time.Unix(0, int64(now)))
}

func (e *env) clientStore(ctx sdk.Context, clientID string) storetypes.KVStore {
	return e.ck.ClientStore(ctx, clientID)
}

func hj(h clienttypes.Height) []string {
	return []string{hx.U(h.RevisionNumber), hx.U(h.RevisionHeight)}
}
