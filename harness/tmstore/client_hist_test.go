package tmstore

import (
	"sort"
	"time"

	sdk "github.com/cosmos/cosmos-sdk/types"

	clienttypes "github.com/cosmos/ibc-go/v11/modules/core/02-client/types"
	"github.com/cosmos/ibc-go/v11/modules/core/exported"
	ibctm "github.com/cosmos/ibc-go/v11/modules/light-clients/07-tendermint"

	"verif/harness/hx"
)

type misbIn struct {
	H1      []string `json:"h1"`
	H2      []string `json:"h2"`
	T1      string   `json:"t1"`
	T2      string   `json:"t2"`
	Th1     []string `json:"th1"`
	Th2     []string `json:"th2"`
	IDsOk   bool     `json:"ids_ok"`
	Differs bool     `json:"differs"` // block id hashes differ
	Ok      bool     `json:"ok"`      // VerifyClientMessage on the pre-state
}

type subIn struct {
	Client   []any    `json:"client"` // latest, frozen, trusting period
	Cons     []string `json:"cons"`   // consensus state at its latest height (nil: none)
	Ph       []string `json:"ph"`
	Pt       *string  `json:"pt"`
	Matching bool     `json:"matching"`
}

// view is the harness's reading of the client store, used only to direct the generator.
type view struct {
	cs      *ibctm.ClientState
	heights []clienttypes.Height
	cons    map[clienttypes.Height]*ibctm.ConsensusState
}

func (e *env) view(ctx sdk.Context, clientID string) view {
	store := e.clientStore(ctx, clientID)
	v := view{cons: map[clienttypes.Height]*ibctm.ConsensusState{}}
	v.cs, _ = ibctm.VerifGetClientState(store, e.cdc)
	ibctm.IterateConsensusStateAscending(store, func(h exported.Height) bool {
		hh := h.(clienttypes.Height)
		if c, ok := ibctm.GetConsensusState(store, e.cdc, hh); ok {
			v.heights = append(v.heights, hh)
			v.cons[hh] = c
		}
		return false
	})
	return v
}

func (v view) status(now int64) string {
	if v.cs == nil {
		return "unknown"
	}
	if !v.cs.FrozenHeight.IsZero() {
		return "frozen"
	}
	c, ok := v.cons[v.cs.LatestHeight]
	if !ok || c.Timestamp.UnixNano()+int64(v.cs.TrustingPeriod) <= now {
		return "expired"
	}
	return "active"
}

// atomicOp runs one keeper call the way the SDK runs a message: on a cache branch written back only on success.
func atomicOp(ctx sdk.Context, f func(sdk.Context) error) string {
	cctx, write := ctx.CacheContext()
	var err error
	panicked, _ := hx.Catch(func() { err = f(cctx) })
	switch {
	case panicked:
		return "panic"
	case err != nil:
		return "err"
	}
	write()
	return "ok"
}

const (
	t0   = int64(1_700_000_000) * sec
	step = 10 * sec
)

func honestTs(h uint64) int64 { return t0 + int64(h)*step }

// famClient: histories of the real client through the 02-client keeper with real signed headers.
func famClient(r *hx.Rng, o *sink, e *env) {
	n := hx.N(30, 350)
	cp := &cpty{chainID: "cpty-1", rev: 1, vals: e.B.Vals, signers: e.B.Signers}
	nvh := cp.vals.Hash()
	for hi := 0; hi < n; hi++ {
		ctx := e.branch()
		tp := time.Duration(300+r.Intn(500)) * time.Second
		selfH := clienttypes.NewHeight(uint64(r.Intn(3)), uint64(10+r.Intn(100)))
		h0 := uint64(2 + r.Intn(20))
		now := honestTs(h0) + int64(r.Intn(20))*sec
		var ops []opIn
		var outs []obs
		var clientID string
		H := func(h uint64) clienttypes.Height { return clienttypes.NewHeight(cp.rev, h) }
		cur := func() sdk.Context { return at(ctx, selfH.RevisionNumber, selfH.RevisionHeight, uint64(now)) }
		emit := func(op opIn, out string) {
			v := e.view(ctx, clientID)
			pool := append([]clienttypes.Height{H(h0)}, v.heights...)
			ps := neighbours(r, pool)
			for i := range ps {
				if ps[i].RevisionNumber != cp.rev && r.Chance(3, 4) {
					ps[i] = H(uint64(r.Intn(int(h0) + 60)))
				}
			}
			op.Probes = hjs(ps)
			op.Now = hx.U(uint64(now))
			op.Self = hj(selfH)
			ops = append(ops, op)
			outs = append(outs, obs{Out: out, Store: e.dump(ctx, clientID), Probes: e.probe(ctx, clientID, ps)})
		}
		// CreateClient
		{
			cs := mkClient(cp.chainID, H(h0), tp, false)
			cons := mkCons(honestTs(h0), root32('a', h0), nvh)
			csBz, _ := cs.Marshal()
			consBz, _ := cons.Marshal()
			out := atomicOp(cur(), func(c sdk.Context) error {
				id, err := e.ck.CreateClient(c, exported.Tendermint, csBz, consBz)
				clientID = id
				return err
			})
			if out != "ok" {
				e.t.Fatalf("create client: %s", out)
			}
			emit(opIn{Op: "init", Client: projClient(cs)[1:], Cons: projCons(cons)[1:]}, out)
		}
		verify := func(msg exported.ClientMessage) bool {
			vctx, _ := cur().CacheContext()
			lcm, err := e.ck.Route(vctx, clientID)
			if err != nil {
				e.t.Fatal(err)
			}
			var verr error
			panicked, _ := hx.Catch(func() { verr = lcm.VerifyClientMessage(vctx, clientID, msg) })
			return !panicked && verr == nil
		}
		update := func(hdr *ibctm.Header, tag string) {
			ok := verify(hdr)
			in := projHdr(hdr, ok)
			out := atomicOp(cur(), func(c sdk.Context) error { return e.ck.UpdateClient(c, clientID, hdr) })
			emit(opIn{Op: "update", Hdr: &in, Tag: tag}, out)
		}
		// trusted height for a header at h: a stored height below h, preferably the greatest unexpired one
		trustedFor := func(v view, h uint64) clienttypes.Height {
			var below []clienttypes.Height
			for _, x := range v.heights {
				if x.RevisionNumber == cp.rev && x.RevisionHeight < h {
					below = append(below, x)
				}
			}
			if len(below) == 0 {
				return H(h0)
			}
			if r.Chance(1, 5) {
				return below[r.Intn(len(below))]
			}
			return below[len(below)-1]
		}
		steps := 12 + r.Intn(22)
		for len(ops) < steps {
			// time passes on the executing chain
			v := e.view(ctx, clientID)
			switch k := r.Intn(30); {
			case k < 20:
				now += int64(1+r.Intn(40)) * sec
			case k < 26:
				now += int64(tp) / 3
			case k < 27:
				now += int64(tp) - int64(r.Intn(30))*sec
			case k < 28:
				now += int64(tp) + int64(r.Intn(100))*sec
			case k < 29: // the client's expiry boundary to the nanosecond
				if c, ok := v.cons[v.cs.LatestHeight]; ok {
					if b := c.Timestamp.UnixNano() + int64(tp) + int64(r.Intn(3)) - 1; b > now {
						now = b
					}
				}
			default: // the oldest consensus state's expiry boundary to the nanosecond
				if len(v.heights) > 0 {
					if b := v.cons[v.heights[0]].Timestamp.UnixNano() + int64(tp) + int64(r.Intn(3)) - 1; b > now {
						now = b
					}
				}
			}
			selfH.RevisionHeight += uint64(1 + r.Intn(3))
			latest := v.cs.LatestHeight.RevisionHeight
			hn := uint64((now - t0) / step) // honest counterparty height by now
			st := v.status(now)
			k := r.Intn(100)
			if len(v.heights) == 0 {
				k = 92
				if r.Bool() {
					k = 0
				}
			} else if st != "active" {
				if k < 55 {
					k = 92 // recover
				} else if k < 80 {
					k = 0
				}
			}
			switch {
			case k < 37: // new latest height
				if hn <= latest && st == "active" { // no newer honest header yet: let time pass
					now += int64(10+r.Intn(40)) * sec
					hn = uint64((now - t0) / step)
				}
				h := latest + 1 + uint64(r.Intn(4))
				if hn > latest && (h > hn || r.Chance(1, 2)) {
					h = hn - uint64(r.Intn(int(min64(hn-latest, 4))))
				}
				update(cp.header(e, h, honestTs(h), root32('a', h), trustedFor(v, h), false), "new")
			case k < 52: // past height filling a gap
				lo := v.heights[0].RevisionHeight
				if latest <= lo+1 {
					continue
				}
				h := lo + 1 + uint64(r.Intn(int(latest-lo-1)))
				update(cp.header(e, h, honestTs(h), root32('a', h), trustedFor(v, h), false), "gap")
			case k < 60: // resubmission of a stored header
				hh := v.heights[r.Intn(len(v.heights))]
				c := v.cons[hh]
				update(cp.header(e, hh.RevisionHeight, c.Timestamp.UnixNano(), c.Root.Hash, trustedFor(v, hh.RevisionHeight), false), "duplicate")
			case k < 70: // conflicting header for a stored height: every field of the consensus state alone, and combinations
				hh := v.heights[r.Intn(len(v.heights))]
				if len(v.heights) > 1 && r.Chance(4, 5) { // a height with a stored (trustable) height below it
					hh = v.heights[1+r.Intn(len(v.heights)-1)]
				}
				c := v.cons[hh]
				ts, root := c.Timestamp.UnixNano(), c.Root.Hash
				signer := cp
				tag := ""
				mode := r.Intn(5)
				if mode == 0 || (mode == 4 && r.Bool()) {
					ts += int64(1 + r.Intn(3))
					tag += "-time"
				}
				if mode == 1 || (mode == 4 && r.Bool()) {
					root = root32('b', hh.RevisionHeight)
					tag += "-root"
				}
				if mode == 2 || mode == 3 || (mode == 4 && (tag == "" || r.Bool())) {
					// same height, time and app hash, validly signed, but another next validator set
					signer = cp.withNext(root32('n', hh.RevisionHeight+uint64(r.Intn(3))))
					tag += "-nvh"
				}
				update(signer.header(e, hh.RevisionHeight, ts, root, trustedFor(v, hh.RevisionHeight), false), "conflict"+tag)
			case k < 80: // time outside the neighbours' range (or exactly a neighbour's time)
				lo := v.heights[0].RevisionHeight
				h := latest + 1 + uint64(r.Intn(4))
				if latest > lo+1 && r.Bool() {
					h = lo + 1 + uint64(r.Intn(int(latest-lo-1)))
				}
				var prev, next *ibctm.ConsensusState
				for _, x := range v.heights {
					if x.RevisionHeight < h {
						prev = v.cons[x]
					} else if x.RevisionHeight > h && next == nil {
						next = v.cons[x]
					}
				}
				ts := honestTs(h)
				switch {
				case next != nil && r.Bool():
					ts = next.Timestamp.UnixNano() + int64(r.Intn(3)) - 1 // next-1 is still fine when > prev
				case prev != nil:
					ts = prev.Timestamp.UnixNano() + int64(r.Intn(3)) - 1
				}
				// trust an older state so that light.Verify's "newer than trusted" check still passes
				tr := v.heights[0]
				for _, x := range v.heights {
					if x.RevisionHeight < h && v.cons[x].Timestamp.UnixNano()+int64(tp) > now {
						tr = x
						break
					}
				}
				update(cp.header(e, h, ts, root32('a', h), tr, false), "time-vs-neighbours")
			case k < 85: // headers that fail verification
				h := latest + 1 + uint64(r.Intn(3))
				switch r.Intn(5) {
				case 0:
					update(cp.header(e, h, honestTs(h), root32('a', h), trustedFor(v, h), true), "bad-signature")
				case 1:
					update(cp.header(e, h, honestTs(h), root32('a', h), H(latest+50), false), "unknown-trusted-height")
				case 2:
					hh := v.heights[r.Intn(len(v.heights))]
					update(cp.header(e, hh.RevisionHeight, honestTs(hh.RevisionHeight), root32('a', hh.RevisionHeight), hh, false), "height-not-above-trusted")
				case 3:
					update(cp.header(e, h, now+int64(time.Hour), root32('a', h), trustedFor(v, h), false), "time-in-future")
				default:
					other := &cpty{chainID: "cpty-2", rev: 2, vals: cp.vals, signers: cp.signers}
					update(other.header(e, h, honestTs(h), root32('a', h), trustedFor(v, h), false), "other-revision")
				}
			case k < 90: // misbehaviour messages
				h := latest + uint64(r.Intn(3))
				if h > hn {
					h = hn
				}
				tr := trustedFor(v, h)
				if tr.RevisionHeight >= h {
					h = tr.RevisionHeight + 1
				}
				h1 := cp.header(e, h, honestTs(h), root32('a', h), tr, false)
				var h2 *ibctm.Header
				tag := "misbehaviour-fork"
				switch r.Intn(4) {
				case 0: // same header twice: not misbehaviour
					h2 = cp.header(e, h, honestTs(h), root32('a', h), tr, false)
					tag = "misbehaviour-same"
				case 1: // time violation: lower height, not earlier time
					if h-1 > tr.RevisionHeight {
						h2 = cp.header(e, h-1, honestTs(h)+int64(r.Intn(2))*sec, root32('a', h-1), tr, false)
						tag = "misbehaviour-time"
					} else {
						h2 = cp.header(e, h, honestTs(h), root32('b', h), tr, false)
					}
				case 2: // different heights with increasing time: not misbehaviour
					if h-1 > tr.RevisionHeight {
						h2 = cp.header(e, h-1, honestTs(h-1), root32('a', h-1), tr, false)
						tag = "misbehaviour-none"
					} else {
						h2 = cp.header(e, h, honestTs(h), root32('b', h), tr, false)
					}
				default:
					h2 = cp.header(e, h, honestTs(h), root32('b', h), tr, r.Chance(1, 4))
				}
				m := &ibctm.Misbehaviour{Header1: h1, Header2: h2}
				ok := verify(m)
				in := misbIn{H1: hj(h1.GetHeight().(clienttypes.Height)), H2: hj(h2.GetHeight().(clienttypes.Height)),
					T1: hx.U(uint64(h1.GetTime().UnixNano())), T2: hx.U(uint64(h2.GetTime().UnixNano())),
					Th1: hj(h1.TrustedHeight), Th2: hj(h2.TrustedHeight), IDsOk: true,
					Differs: string(h1.Commit.BlockID.Hash) != string(h2.Commit.BlockID.Hash), Ok: ok}
				out := atomicOp(cur(), func(c sdk.Context) error { return e.ck.UpdateClient(c, clientID, m) })
				emit(opIn{Op: "misb", Misb: &in, Tag: tag}, out)
			case k < 92:
				emit(opIn{Op: "prune"}, e.pruneOp(cur(), clientID, false))
			case k < 97: // recovery with a freshly created substitute client
				subLatest := latest + uint64(r.Intn(8))
				if r.Chance(4, 5) {
					subLatest = max64u(latest+1, hn)
				}
				subTp := tp
				tag := "recover"
				subTs := honestTs(subLatest)
				trust := ibctm.DefaultTrustLevel
				switch r.Intn(8) {
				case 0:
					trust = ibctm.Fraction{Numerator: 1, Denominator: 2}
					tag = "recover-not-matching"
				case 1:
					subTs = now - int64(tp) + int64(r.Intn(3)) - 1
					tag = "recover-substitute-expired-boundary"
				case 2:
					subTp = tp / 2
					tag = "recover-other-trusting-period"
				}
				scs := mkClient(cp.chainID, H(subLatest), subTp, false)
				scs.TrustLevel = trust
				scons := mkCons(subTs, root32('s', subLatest), nvh)
				var subID string
				csBz, _ := scs.Marshal()
				consBz, _ := scons.Marshal()
				// the substitute lives in the same branch; a failed creation (expired at birth) leaves no client
				created := atomicOp(cur(), func(c sdk.Context) error {
					id, err := e.ck.CreateClient(c, exported.Tendermint, csBz, consBz)
					subID = id
					return err
				})
				sub := subIn{Client: projClient(scs)[1:]}
				if created == "ok" {
					sstore := e.clientStore(ctx, subID)
					if r.Chance(1, 10) {
						ibctm.VerifDeleteConsensusMetadata(sstore, H(subLatest))
						tag = "recover-substitute-without-metadata"
					}
					if r.Chance(1, 12) {
						fz := *scs
						fz.FrozenHeight = ibctm.FrozenHeight
						ibctm.VerifSetClientState(sstore, e.cdc, &fz)
						sub.Client = projClient(&fz)[1:]
						tag = "recover-substitute-frozen"
					}
					if c, ok := ibctm.GetConsensusState(sstore, e.cdc, H(subLatest)); ok {
						sub.Cons = projCons(c)[1:]
					}
					if ph, ok := ibctm.GetProcessedHeight(sstore, H(subLatest)); ok {
						sub.Ph = hj(ph.(clienttypes.Height))
					}
					if pt, ok := ibctm.GetProcessedTime(sstore, H(subLatest)); ok {
						s := hx.U(pt)
						sub.Pt = &s
					}
					sub.Matching = ibctm.IsMatchingClientState(*v.cs, *scs)
				} else {
					// no substitute client at all: its status is Unknown; the model sees a substitute without consensus state
					subID = "07-tendermint-777"
					sub.Matching = ibctm.IsMatchingClientState(*v.cs, *scs)
					tag = "recover-substitute-missing"
				}
				out := atomicOp(cur(), func(c sdk.Context) error { return e.ck.RecoverClient(c, clientID, subID) })
				emit(opIn{Op: "recover", Sub: &sub, Tag: tag}, out)
			default:
				emit(opIn{Op: "pruneall"}, e.pruneOp(cur(), clientID, true))
			}
		}
		o.Emit("client_hist", ops, outs, "client")
	}
}

func min64(a, b uint64) uint64 {
	if a < b {
		return a
	}
	return b
}

func max64u(a, b uint64) uint64 {
	if a > b {
		return a
	}
	return b
}

var _ = sort.Ints
