package tmstore

import (
	"bytes"
	"strings"
	"time"

	sdk "github.com/cosmos/cosmos-sdk/types"

	"github.com/cometbft/cometbft/crypto/tmhash"
	cmtprotoversion "github.com/cometbft/cometbft/proto/tendermint/version"
	cmttypes "github.com/cometbft/cometbft/types"
	cmtversion "github.com/cometbft/cometbft/version"

	clienttypes "github.com/cosmos/ibc-go/v11/modules/core/02-client/types"
	commitmenttypes "github.com/cosmos/ibc-go/v11/modules/core/23-commitment/types"
	host "github.com/cosmos/ibc-go/v11/modules/core/24-host"
	ibctm "github.com/cosmos/ibc-go/v11/modules/light-clients/07-tendermint"
	ibctesting "github.com/cosmos/ibc-go/v11/testing"

	"verif/harness/hx"
)

// ---- projections -------------------------------------------------------------------------------------

func projCons(c *ibctm.ConsensusState) []string {
	return []string{"cons", hx.U(uint64(c.Timestamp.UnixNano())), hx.H(c.Root.Hash), hx.H(c.NextValidatorsHash)}
}

func projConsOpt(c *ibctm.ConsensusState, ok bool) any {
	if !ok || c == nil {
		return nil
	}
	return projCons(c)[1:]
}

func projClient(c *ibctm.ClientState) []any {
	return []any{"client", hj(c.LatestHeight), !c.FrozenHeight.IsZero(), hx.U(uint64(c.TrustingPeriod.Nanoseconds()))}
}

// dump lists the whole client store in the store's own iteration order. A value is projected by the shape of
// its key: clientState -> (latest, frozen, trusting period); consensusStates/<x> without further '/' ->
// (timestamp, root, next validators hash); everything else raw bytes.
func (e *env) dump(ctx sdk.Context, clientID string) []any {
	store := e.clientStore(ctx, clientID)
	it := store.Iterator(nil, nil)
	defer it.Close()
	out := []any{}
	for ; it.Valid(); it.Next() {
		k, v := it.Key(), it.Value()
		var val any
		switch {
		case bytes.Equal(k, host.ClientStateKey()):
			var cs ibctm.ClientState
			if st, err := clienttypes.UnmarshalClientState(e.cdc, v); err == nil {
				if tm, ok := st.(*ibctm.ClientState); ok {
					cs = *tm
					val = projClient(&cs)
				}
			}
		case strings.HasPrefix(string(k), host.KeyConsensusStatePrefix+"/") &&
			!strings.Contains(string(k[len(host.KeyConsensusStatePrefix)+1:]), "/"):
			if st, err := clienttypes.UnmarshalConsensusState(e.cdc, v); err == nil {
				if tm, ok := st.(*ibctm.ConsensusState); ok {
					val = projCons(tm)
				}
			}
		}
		if val == nil {
			val = []string{"raw", hx.H(v)}
		}
		out = append(out, []any{hx.H(k), val})
	}
	return out
}

func (e *env) probe(ctx sdk.Context, clientID string, hs []clienttypes.Height) []any {
	store := e.clientStore(ctx, clientID)
	out := []any{}
	for _, h := range hs {
		var res any
		panicked, _ := hx.Catch(func() {
			n, nok := ibctm.GetNextConsensusState(store, e.cdc, h)
			p, pok := ibctm.GetPreviousConsensusState(store, e.cdc, h)
			res = []any{projConsOpt(n, nok), projConsOpt(p, pok)}
		})
		if panicked {
			res = "panic"
		}
		out = append(out, res)
	}
	return out
}

type obs struct {
	Out    string `json:"out"`
	Store  []any  `json:"store"`
	Probes []any  `json:"probes"`
}

// ---- synthetic counterparty: real CometBFT headers signed by chain B's validators --------------------

type cpty struct {
	chainID string
	rev     uint64
	vals    *cmttypes.ValidatorSet
	signers map[string]cmttypes.PrivValidator
	// nextHash, when set, is the header's NextValidatorsHash (default: the hash of vals)
	nextHash []byte
}

// withNext returns a copy of the counterparty whose headers announce another next validator set.
func (c *cpty) withNext(h []byte) *cpty {
	cc := *c
	cc.nextHash = h
	return &cc
}

var unusedHash = tmhash.Sum([]byte{0x00})

// header builds a signed 07-tendermint Header for the given height/time/app hash with the trusted fields set.
func (c *cpty) header(e *env, height uint64, ts int64, appHash []byte, trusted clienttypes.Height, corruptSig bool) *ibctm.Header {
	nextHash := c.vals.Hash()
	if c.nextHash != nil {
		nextHash = c.nextHash
	}
	ph := cmttypes.Header{
		Version:            cmtprotoversion.Consensus{Block: cmtversion.BlockProtocol, App: 2},
		ChainID:            c.chainID,
		Height:             int64(height),
		Time:               time.Unix(0, ts).UTC(),
		LastBlockID:        ibctesting.MakeBlockID(make([]byte, tmhash.Size), 10_000, make([]byte, tmhash.Size)),
		LastCommitHash:     unusedHash,
		DataHash:           unusedHash,
		ValidatorsHash:     c.vals.Hash(),
		NextValidatorsHash: nextHash,
		ConsensusHash:      unusedHash,
		AppHash:            appHash,
		LastResultsHash:    unusedHash,
		EvidenceHash:       unusedHash,
		ProposerAddress:    c.vals.Proposer.Address,
	}
	sh, err := ibctesting.CommitHeader(ph, c.vals, c.signers)
	if err != nil {
		e.t.Fatalf("commit header: %v", err)
	}
	if corruptSig {
		for i := range sh.Commit.Signatures {
			if len(sh.Commit.Signatures[i].Signature) > 0 {
				sh.Commit.Signatures[i].Signature[0] ^= 0x55
			}
		}
	}
	vs, err := c.vals.ToProto()
	if err != nil {
		e.t.Fatal(err)
	}
	vs.TotalVotingPower = c.vals.TotalVotingPower()
	tv, _ := c.vals.ToProto()
	tv.TotalVotingPower = c.vals.TotalVotingPower()
	return &ibctm.Header{SignedHeader: sh, ValidatorSet: vs, TrustedHeight: trusted, TrustedValidators: tv}
}

type hdrIn struct {
	H    []string `json:"h"`
	Th   []string `json:"th"`
	Ts   string   `json:"ts"`
	Root string   `json:"root"`
	Nvh  string   `json:"nvh"`
	Ok   bool     `json:"ok"` // result of VerifyClientMessage on the pre-state (the verification oracle)
}

func projHdr(h *ibctm.Header, ok bool) hdrIn {
	hh := h.GetHeight().(clienttypes.Height)
	return hdrIn{H: hj(hh), Th: hj(h.TrustedHeight), Ts: hx.U(uint64(h.GetTime().UnixNano())),
		Root: hx.H(h.Header.GetAppHash()), Nvh: hx.H(h.Header.NextValidatorsHash), Ok: ok}
}

func root32(tag byte, h uint64) []byte {
	return tmhash.Sum(append([]byte{tag}, []byte(hx.U(h))...))
}

var _ = commitmenttypes.NewMerkleRoot
