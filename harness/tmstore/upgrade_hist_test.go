package tmstore

import (
	"time"

	sdk "github.com/cosmos/cosmos-sdk/types"
	upgradetypes "github.com/cosmos/cosmos-sdk/x/upgrade/types"

	clienttypes "github.com/cosmos/ibc-go/v11/modules/core/02-client/types"
	commitmenttypes "github.com/cosmos/ibc-go/v11/modules/core/23-commitment/types"
	"github.com/cosmos/ibc-go/v11/modules/core/exported"
	ibctm "github.com/cosmos/ibc-go/v11/modules/light-clients/07-tendermint"
	ibctesting "github.com/cosmos/ibc-go/v11/testing"

	"verif/harness/hx"
)

type upgIn struct {
	Latest []string `json:"latest"` // the upgraded (committed) client's latest height
	Ts     string   `json:"ts"`     // upgraded consensus state: timestamp
	Nvh    string   `json:"nvh"`    // upgraded consensus state: next validators hash
	Tp     string   `json:"tp"`     // trusting period after the unbonding-period scaling
	Ok     bool     `json:"ok"`     // VerifyUpgradeAndUpdateState on the pre-state (the proof-verification oracle)
}

// famUpgrade: client histories of a client of the REAL chain B (real headers, real app hashes) that go through a
// real client upgrade: the upgraded client / consensus state are committed in chain B's upgrade store, proved with
// real upgrade proofs and passed to keeper.UpgradeClient (failing attempts first, then the valid one). After the
// upgrade the history continues in the new revision with signed headers of the upgraded chain: updates, duplicates,
// time jumps (so that the old revision's states expire and are pruned, oldest first across revisions), prune-all,
// neighbour probes across both revisions.
func famUpgrade(r *hx.Rng, o *sink, e *env) {
	n := hx.N(5, 50)
	for hi := 0; hi < n; hi++ {
		ctx := e.branch()
		B := e.B
		tp := time.Duration(2*(150+r.Intn(300))) * time.Second
		ubd := 3 * tp
		selfH := clienttypes.NewHeight(uint64(r.Intn(3)), uint64(10+r.Intn(100)))
		var ops []opIn
		var outs []obs
		var clientID string
		var now int64
		cur := func() sdk.Context { return at(ctx, selfH.RevisionNumber, selfH.RevisionHeight, uint64(now)) }
		emit := func(op opIn, out string) {
			v := e.view(ctx, clientID)
			pool := append([]clienttypes.Height{}, v.heights...)
			if len(pool) == 0 {
				pool = append(pool, clienttypes.NewHeight(1, 1))
			}
			ps := neighbours(r, pool)
			for i := range ps { // probes around the revision boundary
				switch r.Intn(6) {
				case 0:
					ps[i] = clienttypes.NewHeight(ps[i].RevisionNumber+1, 0)
				case 1:
					ps[i] = clienttypes.NewHeight(ps[i].RevisionNumber, max64)
				}
			}
			op.Probes = hjs(ps)
			op.Now = hx.U(uint64(now))
			op.Self = hj(selfH)
			ops = append(ops, op)
			outs = append(outs, obs{Out: out, Store: e.dump(ctx, clientID), Probes: e.probe(ctx, clientID, ps)})
			selfH.RevisionHeight += uint64(1 + r.Intn(3))
		}
		verify := func(msg exported.ClientMessage) bool {
			vctx, _ := cur().CacheContext()
			lcm, err := e.ck.Route(vctx, clientID)
			if err != nil {
				e.t.Fatal(err)
			}
			var verr error
			panicked, _ := hx.Catch(func() { verr = lcm.VerifyClientMessage(vctx, clientID, msg) })
			return !panicked && verr == nil
		}
		update := func(hdr *ibctm.Header, tag string) string {
			in := projHdr(hdr, verify(hdr))
			out := atomicOp(cur(), func(c sdk.Context) error { return e.ck.UpdateClient(c, clientID, hdr) })
			emit(opIn{Op: "update", Hdr: &in, Tag: tag}, out)
			return out
		}
		latest := func() clienttypes.Height { return e.view(ctx, clientID).cs.LatestHeight }
		realUpdate := func() string {
			hdr, err := B.IBCClientHeader(B.LatestCommittedHeader, latest())
			if err != nil {
				e.t.Fatal(err)
			}
			now = hdr.GetTime().UnixNano() + int64(r.Intn(8))*sec
			return update(hdr, "real")
		}

		// CreateClient from chain B's last committed header
		e.coord.CommitBlock(B)
		{
			h0 := B.LatestCommittedHeader.GetHeight().(clienttypes.Height)
			now = B.LatestCommittedHeader.GetTime().UnixNano() + int64(r.Intn(8))*sec
			cs := ibctm.NewClientState(B.ChainID, ibctm.DefaultTrustLevel, tp, ubd, 10*time.Second, h0,
				commitmenttypes.GetSDKSpecs(), ibctesting.UpgradePath)
			cons := B.LatestCommittedHeader.ConsensusState()
			csBz, _ := cs.Marshal()
			consBz, _ := cons.Marshal()
			out := atomicOp(cur(), func(c sdk.Context) error {
				id, err := e.ck.CreateClient(c, exported.Tendermint, csBz, consBz)
				clientID = id
				return err
			})
			if out != "ok" {
				e.t.Fatalf("create client: %s", out)
			}
			emit(opIn{Op: "init", Client: projClient(cs)[1:], Cons: projCons(cons)[1:]}, out)
		}
		for i := r.Intn(3); i > 0; i-- {
			e.coord.CommitBlock(B)
			if r.Bool() {
				e.coord.CommitBlock(B)
			}
			realUpdate()
		}

		// the upgrade plan: committed by chain B under <upgrade path>/<client's latest height>/...
		rev := clienttypes.ParseChainID(B.ChainID)
		newChainID, err := clienttypes.SetRevisionNumber(B.ChainID, rev+1)
		if err != nil {
			e.t.Fatal(err)
		}
		planHeight := uint64(B.GetContext().BlockHeight() + 1)
		newHeight := clienttypes.NewHeight(rev+1, planHeight+1+uint64(r.Intn(3)))
		newUbd := ubd
		newTp := tp
		if r.Chance(1, 3) { // a smaller unbonding period scales the trusting period down
			newUbd = ubd / 2
			newTp = tp / 2
		}
		upgClient := ibctm.NewClientState(newChainID, ibctm.DefaultTrustLevel, tp, newUbd, 10*time.Second, newHeight,
			commitmenttypes.GetSDKSpecs(), ibctesting.UpgradePath)
		upgTs := e.coord.CurrentTime.UnixNano() + 12*sec
		upgCons := &ibctm.ConsensusState{Timestamp: time.Unix(0, upgTs).UTC(), NextValidatorsHash: B.Vals.Hash()}
		committedClientBz, err := clienttypes.MarshalClientState(e.cdc, upgClient.ZeroCustomFields())
		if err != nil {
			e.t.Fatal(err)
		}
		committedConsBz, err := clienttypes.MarshalConsensusState(e.cdc, upgCons)
		if err != nil {
			e.t.Fatal(err)
		}
		uk := B.GetSimApp().UpgradeKeeper
		if err := uk.SetUpgradedClient(B.GetContext(), int64(planHeight), committedClientBz); err != nil {
			e.t.Fatal(err)
		}
		if err := uk.SetUpgradedConsensusState(B.GetContext(), int64(planHeight), committedConsBz); err != nil {
			e.t.Fatal(err)
		}
		e.coord.CommitBlock(B) // commits the plan (block planHeight-1 ... its app hash appears in header planHeight)
		e.coord.CommitBlock(B)
		if got := uint64(B.LatestCommittedHeader.Header.Height); got != planHeight {
			e.t.Fatalf("upgrade plan height %d, committed header %d", planHeight, got)
		}
		if realUpdate() != "ok" || latest().RevisionHeight != planHeight {
			e.t.Fatalf("client not at the plan height %d: %s", planHeight, latest())
		}
		proofClient, _ := B.QueryUpgradeProof(upgradetypes.UpgradedClientKey(int64(planHeight)), planHeight)
		proofCons, _ := B.QueryUpgradeProof(upgradetypes.UpgradedConsStateKey(int64(planHeight)), planHeight)
		clientBz, _ := upgClient.Marshal()
		consBz, _ := upgCons.Marshal()

		upgrade := func(cBz, csBz, p1, p2 []byte, in upgIn, tag string) string {
			vctx, _ := cur().CacheContext()
			lcm, _ := e.ck.Route(vctx, clientID)
			var verr error
			panicked, _ := hx.Catch(func() { verr = lcm.VerifyUpgradeAndUpdateState(vctx, clientID, cBz, csBz, p1, p2) })
			in.Ok = !panicked && verr == nil
			out := atomicOp(cur(), func(c sdk.Context) error { return e.ck.UpgradeClient(c, clientID, cBz, csBz, p1, p2) })
			emit(opIn{Op: "upgrade", Upg: &in, Tag: tag}, out)
			return out
		}
		good := upgIn{Latest: hj(newHeight), Ts: hx.U(uint64(upgTs)), Nvh: hx.H(upgCons.NextValidatorsHash), Tp: hx.U(uint64(newTp))}
		// failing attempts
		for i := r.Intn(3); i > 0; i-- {
			now += int64(r.Intn(5)) * sec
			switch r.Intn(4) {
			case 0: // corrupted client proof
				bad := append([]byte{}, proofClient...)
				bad[len(bad)/2] ^= 0x5a
				upgrade(clientBz, consBz, bad, proofCons, good, "upgrade-bad-client-proof")
			case 1: // proof of the client used for the consensus state
				upgrade(clientBz, consBz, proofClient, proofClient, good, "upgrade-wrong-consensus-proof")
			case 2: // upgraded height not above the client's latest height
				low := *upgClient
				low.LatestHeight = latest()
				if r.Bool() {
					low.LatestHeight = clienttypes.NewHeight(rev, planHeight-1)
				}
				lowBz, _ := low.Marshal()
				in := good
				in.Latest = hj(low.LatestHeight)
				upgrade(lowBz, consBz, proofClient, proofCons, in, "upgrade-height-not-greater")
			default: // a consensus state that was not committed
				other := &ibctm.ConsensusState{Timestamp: time.Unix(0, upgTs+1).UTC(), NextValidatorsHash: B.Vals.Hash()}
				otherBz, _ := other.Marshal()
				in := good
				in.Ts = hx.U(uint64(upgTs + 1))
				upgrade(clientBz, otherBz, proofClient, proofCons, in, "upgrade-uncommitted-consensus-state")
			}
		}
		// the valid upgrade
		now += int64(r.Intn(5)) * sec
		if upgrade(clientBz, consBz, proofClient, proofCons, good, "upgrade") != "ok" {
			e.t.Fatalf("valid upgrade failed")
		}
		if r.Chance(1, 3) { // the same upgrade again: the height is no longer greater
			upgrade(clientBz, consBz, proofClient, proofCons, good, "upgrade-repeated")
		}

		// life in the new revision
		cp := &cpty{chainID: newChainID, rev: rev + 1, vals: B.Vals, signers: B.Signers}
		steps := 6 + r.Intn(8)
		for i := 0; i < steps; i++ {
			v := e.view(ctx, clientID)
			lh := v.cs.LatestHeight.RevisionHeight
			switch k := r.Intn(20); {
			case k < 9:
				now += int64(1+r.Intn(30)) * sec
			case k < 16:
				now += int64(newTp) / 3
			case k < 18: // the oldest consensus state's expiry boundary to the nanosecond
				if len(v.heights) > 0 {
					if b := v.cons[v.heights[0]].Timestamp.UnixNano() + int64(v.cs.TrustingPeriod) + int64(r.Intn(3)) - 1; b > now {
						now = b
					}
				}
			}
			// trusted: the greatest stored height of the new revision
			tr := newHeight
			for _, x := range v.heights {
				if x.RevisionNumber == cp.rev {
					tr = x
				}
			}
			switch k := r.Intn(20); {
			case k < 11: // new latest height; its time follows the executing chain's clock and stays above the latest state's
				h := lh + 1 + uint64(r.Intn(4))
				ts := now - int64(r.Intn(3))*sec
				if c, ok := v.cons[v.cs.LatestHeight]; ok && ts <= c.Timestamp.UnixNano() {
					ts = c.Timestamp.UnixNano() + step
					if ts > now {
						now = ts + int64(r.Intn(5))*sec
					}
				}
				update(cp.header(e, h, ts, root32('u', h), tr, false), "new-revision")
			case k < 13: // resubmission of a stored header of the new revision
				if tr.RevisionHeight > newHeight.RevisionHeight {
					c := v.cons[tr]
					update(cp.header(e, tr.RevisionHeight, c.Timestamp.UnixNano(), c.Root.Hash, newHeight, false), "duplicate")
				}
			case k < 14: // a header of the OLD revision after the upgrade (chain id no longer matches)
				old := &cpty{chainID: B.ChainID, rev: rev, vals: B.Vals, signers: B.Signers}
				update(old.header(e, planHeight+1, now-sec, root32('o', planHeight+1), clienttypes.NewHeight(rev, planHeight), false), "old-revision-header")
			case k < 15: // a header at the upgrade height itself (conflicts with the sentinel-root state)
				update(cp.header(e, newHeight.RevisionHeight, upgTs, root32('u', 0), newHeight, false), "at-upgrade-height")
			case k < 18:
				emit(opIn{Op: "prune"}, e.pruneOp(cur(), clientID, false))
			default:
				emit(opIn{Op: "pruneall"}, e.pruneOp(cur(), clientID, true))
			}
		}
		o.Emit("client_hist", ops, outs, "upgrade")
	}
}
