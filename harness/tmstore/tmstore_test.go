package tmstore

import (
	"testing"

	ibctesting "github.com/cosmos/ibc-go/v11/testing"

	"verif/harness/hx"
)

type rec struct {
	k, tag  string
	in, out any
}

// sink collects records so that the few heavy history records can be spread evenly between the many
// light pure records (the driver evaluates consecutive slices of the trace in parallel).
type sink struct{ recs []rec }

func (s *sink) Emit(k string, in, out any, tag ...string) {
	t := ""
	if len(tag) > 0 {
		t = tag[0]
	}
	s.recs = append(s.recs, rec{k: k, tag: t, in: in, out: out})
}

// TestFamily writes the trace of the `tmstore` scenario family: pure delay-period records (C19),
// store-level histories on a client store with crafted heights (C22) and histories of the real
// 07-tendermint client driven through the 02-client keeper with real signed headers (C20 C22 C23).
func TestFamily(t *testing.T) {
	r := hx.NewRng("tmstore")
	o := hx.NewOut()
	defer o.Close()
	coord := ibctesting.NewCoordinator(t, 2)
	env := newEnv(t, coord)
	var pure, hist sink
	famC19(r, &pure, env)
	famStore(r, &hist, env)
	famClient(r, &hist, env)
	famUpgrade(r, &hist, env)
	// store and client histories alternate; one history after every len(pure)/len(hist) pure records
	nh := len(hist.recs)
	order := make([]rec, 0, nh)
	for i, j := 0, nh-1; i <= j; i, j = i+1, j-1 {
		order = append(order, hist.recs[i])
		if i != j {
			order = append(order, hist.recs[j])
		}
	}
	every := 1
	if nh > 0 {
		every = len(pure.recs)/nh + 1
	}
	hi := 0
	for i, p := range pure.recs {
		o.Emit(p.k, p.in, p.out, p.tag)
		if (i+1)%every == 0 && hi < nh {
			o.Emit(order[hi].k, order[hi].in, order[hi].out, order[hi].tag)
			hi++
		}
	}
	for ; hi < nh; hi++ {
		o.Emit(order[hi].k, order[hi].in, order[hi].out, order[hi].tag)
	}
	t.Logf("records=%d", o.Count())
}
