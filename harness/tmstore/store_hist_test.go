package tmstore

import (
	"time"

	sdk "github.com/cosmos/cosmos-sdk/types"

	clienttypes "github.com/cosmos/ibc-go/v11/modules/core/02-client/types"
	commitmenttypes "github.com/cosmos/ibc-go/v11/modules/core/23-commitment/types"
	ibctm "github.com/cosmos/ibc-go/v11/modules/light-clients/07-tendermint"
	ibctesting "github.com/cosmos/ibc-go/v11/testing"

	"verif/harness/hx"
)

// opIn is one operation of a history as the model replays it.
type opIn struct {
	Op     string     `json:"op"`
	Now    string     `json:"now,omitempty"`  // ctx.BlockTime().UnixNano()
	Self   []string   `json:"self,omitempty"` // GetSelfHeight(ctx)
	H      []string   `json:"h,omitempty"`
	Ph     []string   `json:"ph,omitempty"`
	Pt     string     `json:"pt,omitempty"`
	Cons   []string   `json:"cons,omitempty"`   // ts, root, nvh
	Client []any      `json:"client,omitempty"` // latest, frozen, trusting period
	K      string     `json:"key,omitempty"`
	V      string     `json:"val,omitempty"`
	Hdr    *hdrIn     `json:"hdr,omitempty"`
	Misb   *misbIn    `json:"misb,omitempty"`
	Sub    *subIn     `json:"sub,omitempty"`
	Upg    *upgIn     `json:"upg,omitempty"`
	Probes [][]string `json:"probes"`
	Tag    string     `json:"tag,omitempty"`
}

var specials = []uint64{0, 1, 2, 9, 10, 46, 47, 48, 0x2f00, 0x2f2f, 0xff, 0x100, 0xff00, 0x2fff, 0x002f00ff, 1 << 32,
	0x2f << 56, 0xff << 56, max64, max64 - 1, 0x2f2f2f2f2f2f2f2f, 0x00ff00ff00ff00ff, 0xff2f, 0x2f000000, 0x7fffffffffffffff, 1 << 63}

func craftedU64(r *hx.Rng) uint64 {
	switch r.Intn(8) {
	case 0:
		return r.U64B()
	case 1: // a random value with one byte forced to '/', 0x00 or 0xff
		x := r.U64()
		sh := uint(8 * r.Intn(8))
		bs := []uint64{0x2f, 0x00, 0xff}
		return (x &^ (0xff << sh)) | bs[r.Intn(3)]<<sh
	default:
		return specials[r.Intn(len(specials))]
	}
}

func neighbours(r *hx.Rng, pool []clienttypes.Height) []clienttypes.Height {
	var out []clienttypes.Height
	for i := 0; i < 3; i++ {
		h := pool[r.Intn(len(pool))]
		switch r.Intn(5) {
		case 0:
			h.RevisionHeight++
		case 1:
			h.RevisionHeight--
		case 2:
			h = clienttypes.NewHeight(craftedU64(r), craftedU64(r))
		}
		out = append(out, h)
	}
	return out
}

func hjs(hs []clienttypes.Height) [][]string {
	out := [][]string{}
	for _, h := range hs {
		out = append(out, hj(h))
	}
	return out
}

const sec = int64(time.Second)

func mkCons(ts int64, root, nvh []byte) *ibctm.ConsensusState {
	return ibctm.NewConsensusState(time.Unix(0, ts).UTC(), commitmenttypes.NewMerkleRoot(root), nvh)
}

func mkClient(chainID string, latest clienttypes.Height, tp time.Duration, frozen bool) *ibctm.ClientState {
	cs := ibctm.NewClientState(chainID, ibctm.DefaultTrustLevel, tp, tp*3, 10*time.Second, latest,
		commitmenttypes.GetSDKSpecs(), ibctesting.UpgradePath)
	if frozen {
		cs.FrozenHeight = ibctm.FrozenHeight
	}
	return cs
}

// pruneOp runs pruneOldestConsensusState / PruneAllExpiredConsensusStates alone, on a cache branch that is
// written back only when the call returns normally.
func (e *env) pruneOp(ctx sdk.Context, clientID string, all bool) string {
	cctx, write := ctx.CacheContext()
	store := e.clientStore(cctx, clientID)
	cs, found := ibctm.VerifGetClientState(store, e.cdc)
	if !found {
		return "err"
	}
	panicked, _ := hx.Catch(func() {
		if all {
			ibctm.PruneAllExpiredConsensusStates(cctx, store, e.cdc, cs)
		} else {
			ibctm.VerifPruneOldestConsensusState(cs, cctx, e.cdc, store)
		}
	})
	if panicked {
		return "panic"
	}
	write()
	return "ok"
}

// famStore: store-level histories on a client store with crafted (revision, height) pairs whose big-endian
// encodings contain 0x2f, 0x00 and 0xff bytes: iteration order, neighbour lookup, pruning.
func famStore(r *hx.Rng, o *sink, e *env) {
	n := hx.N(36, 400)
	for hi := 0; hi < n; hi++ {
		ctx := e.branch()
		clientID := "07-tendermint-900"
		store := e.clientStore(ctx, clientID)
		pool := make([]clienttypes.Height, 3+r.Intn(6))
		for i := range pool {
			pool[i] = clienttypes.NewHeight(craftedU64(r), craftedU64(r))
			if i > 0 && r.Chance(1, 3) { // same revision, nearby height; or same height, other revision
				pool[i] = pool[r.Intn(i)]
				if r.Bool() {
					pool[i].RevisionHeight += uint64(r.Intn(3)) - 1
				} else {
					pool[i].RevisionNumber = craftedU64(r)
				}
			}
		}
		pick := func() clienttypes.Height { return pool[r.Intn(len(pool))] }
		tp := 500 * time.Second
		now := (1000 + int64(r.Intn(600))) * sec
		selfH := clienttypes.NewHeight(uint64(r.Intn(3)), 5)
		var ops []opIn
		var outs []obs
		emit := func(op opIn, out string) {
			ps := neighbours(r, pool)
			op.Probes = hjs(ps)
			ops = append(ops, op)
			outs = append(outs, obs{Out: out, Store: e.dump(ctx, clientID), Probes: e.probe(ctx, clientID, ps)})
		}
		randCons := func() (*ibctm.ConsensusState, []string) {
			ts := (900 + int64(r.Intn(900))) * sec
			if r.Chance(1, 6) {
				ts = now - int64(tp) + int64(r.Intn(3)) - 1 // expiry boundary
			}
			c := mkCons(ts, r.Bytes(1+r.Intn(4)), r.Bytes(2))
			return c, projCons(c)[1:]
		}
		setCons := func(h clienttypes.Height) {
			c, pj := randCons()
			ibctm.VerifSetConsensusState(store, e.cdc, c, h)
			emit(opIn{Op: "setcons", H: hj(h), Cons: pj}, "ok")
		}
		setMeta := func(h clienttypes.Height) {
			ph := clienttypes.NewHeight(r.U64B()%5, r.U64B())
			pt := r.U64B()
			ibctm.VerifSetConsensusMetadataWithValues(store, h, ph, pt)
			emit(opIn{Op: "setmeta", H: hj(h), Ph: hj(ph), Pt: hx.U(pt)}, "ok")
		}
		// most histories start with a client state so that pruning has a trusting period
		if !r.Chance(1, 10) {
			cs := mkClient("cpty-1", pick(), tp, false)
			ibctm.VerifSetClientState(store, e.cdc, cs)
			emit(opIn{Op: "setclient", Client: projClient(cs)[1:]}, "ok")
		}
		steps := 12 + r.Intn(20)
		for len(ops) < steps {
			if r.Chance(1, 4) {
				now += int64(r.Intn(400)) * sec
			}
			cctx := at(ctx, selfH.RevisionNumber, selfH.RevisionHeight, uint64(now))
			switch k := r.Intn(100); {
			case k < 40:
				h := pick()
				setCons(h)
				setMeta(h)
			case k < 45:
				setCons(pick())
			case k < 50:
				setMeta(pick())
			case k < 55:
				h := pick()
				ibctm.VerifDeleteConsensusState(store, h)
				emit(opIn{Op: "delcons", H: hj(h)}, "ok")
			case k < 60:
				h := pick()
				ibctm.VerifDeleteConsensusMetadata(store, h)
				emit(opIn{Op: "delmeta", H: hj(h)}, "ok")
			case k < 68:
				h := pick()
				ibctm.VerifDeleteConsensusState(store, h)
				emit(opIn{Op: "delcons", H: hj(h)}, "ok")
				ibctm.VerifDeleteConsensusMetadata(store, h)
				emit(opIn{Op: "delmeta", H: hj(h)}, "ok")
			case k < 84:
				out := e.pruneOp(cctx, clientID, false)
				emit(opIn{Op: "prune", Now: hx.U(uint64(now)), Self: hj(selfH)}, out)
			case k < 90:
				out := e.pruneOp(cctx, clientID, true)
				emit(opIn{Op: "pruneall", Now: hx.U(uint64(now)), Self: hj(selfH)}, out)
			case k < 94:
				cs := mkClient("cpty-1", pick(), time.Duration(100+r.Intn(800))*time.Second, r.Chance(1, 4))
				ibctm.VerifSetClientState(store, e.cdc, cs)
				emit(opIn{Op: "setclient", Client: projClient(cs)[1:]}, "ok")
			case k < 97:
				// foreign keys around the iteration prefix (a too-short iteration key makes the height decoding panic)
				keys := [][]byte{[]byte("iterateConsensusStates\x00\x01"), []byte("iterateConsensusState"), []byte("iterateConsensusStatet"),
					[]byte("iterateConsensusStatesX"), []byte("j"), []byte("consensusStates0"), []byte("a/b")}
				key := keys[r.Intn(len(keys))]
				val := r.Bytes(1 + r.Intn(3))
				store.Set(key, val)
				emit(opIn{Op: "setraw", K: hx.H(key), V: hx.H(val)}, "ok")
			default:
				keys := [][]byte{[]byte("iterateConsensusStates\x00\x01"), []byte("iterateConsensusState"), []byte("iterateConsensusStatet"),
					[]byte("iterateConsensusStatesX"), []byte("j"), []byte("clientState")}
				key := keys[r.Intn(len(keys))]
				store.Delete(key)
				emit(opIn{Op: "delkey", K: hx.H(key)}, "ok")
			}
		}
		o.Emit("store_hist", ops, outs, "store")
	}
}
