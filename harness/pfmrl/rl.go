package pfmrl

import (
	"fmt"
	"math/big"
	"testing"
	"time"

	sdkmath "cosmossdk.io/math"

	sdk "github.com/cosmos/cosmos-sdk/types"

	ratelimitkeeper "github.com/cosmos/ibc-go/v11/modules/apps/rate-limiting/keeper"
	ratelimittypes "github.com/cosmos/ibc-go/v11/modules/apps/rate-limiting/types"
	transfertypes "github.com/cosmos/ibc-go/v11/modules/apps/transfer/types"
	clienttypes "github.com/cosmos/ibc-go/v11/modules/core/02-client/types"
	channeltypes "github.com/cosmos/ibc-go/v11/modules/core/04-channel/types"
	ibctesting "github.com/cosmos/ibc-go/v11/testing"

	"verif/harness/hx"
)

// rlHist is one rate-limit history on chain B of a line A - B - C. B is the rate-limited chain: it sends to A,
// receives from A (fresh vouchers and its own returning tokens) and forwards A -> B -> C through PFM.
type rlHist struct {
	w       *world
	r       *hx.Rng
	A, B, C *ibctesting.TestChain
	epAB    *ibctesting.Endpoint // A's end of A-B
	epBA    *ibctesting.Endpoint // B's end of A-B
	epBC    *ibctesting.Endpoint // B's end of B-C
	epCB    *ibctesting.Endpoint // C's end of B-C
	ibcA    string               // voucher of A's stake on B
	ibcB    string               // voucher of B's stake on A
	paths   [][2]string          // tracked (denom, channel) on B
	denoms  []string
	curSup  [][2]string
	ops     []any
	obs     []any
	out     []outPkt // B -> A packets not yet relayed
	fwd     []fwdPkt
	obs0    map[string]any
	srv     ratelimittypes.MsgServer
	nsteps  int
}

type outPkt struct {
	p       channeltypes.Packet
	pk      map[string]any
	timeout bool
}

var bond = sdk.DefaultBondDenom

func newRlHist(t *testing.T, r *hx.Rng) *rlHist {
	w := newWorld(t, 3)
	h := &rlHist{w: w, r: r, A: w.chains[0], B: w.chains[1], C: w.chains[2]}
	h.epAB, h.epBA = w.paths[0].EndpointA, w.paths[0].EndpointB
	h.epBC, h.epCB = w.paths[1].EndpointA, w.paths[1].EndpointB
	h.ibcA = transfertypes.NewDenom(bond, transfertypes.NewHop("transfer", h.epBA.ChannelID)).IBCDenom()
	h.ibcB = transfertypes.NewDenom(bond, transfertypes.NewHop("transfer", h.epAB.ChannelID)).IBCDenom()
	h.paths = [][2]string{
		{bond, h.epBA.ChannelID}, {h.ibcA, h.epBA.ChannelID}, {h.ibcA, h.epBC.ChannelID}, {bond, h.epBC.ChannelID},
		{bond, "channel-77"},
	}
	h.denoms = []string{bond, h.ibcA}
	h.srv = ratelimitkeeper.NewMsgServerImpl(h.B.GetSimApp().RateLimitKeeper)
	// ibctesting's InitChain runs with a zero block time, which leaves the hour epoch with a zero start time
	// (BeginBlocker then only logs an error). Initialise it the way InitGenesis does on a chain with a genesis time.
	bt := h.B.GetContext().BlockTime()
	if err := h.k().SetHourEpoch(h.B.GetContext(), ratelimittypes.HourEpoch{EpochNumber: uint64(bt.Hour()), EpochStartTime: bt.Truncate(time.Hour),
		Duration: time.Hour, EpochStartHeight: h.B.GetContext().BlockHeight()}); err != nil {
		t.Fatalf("set hour epoch: %v", err)
	}
	h.curSup = h.readSup()
	h.obs0 = h.observe(0)
	w.watch = h.B
	w.lastH = height(h.B)
	w.onBlock = func(bt time.Time) {
		// supplies as the rate limiter's BeginBlocker saw them: the mint module's BeginBlocker runs first and mints
		// the bond denom (no transaction of these histories changes its supply, so the value after the block is the
		// value at BeginBlocker); every other denom still has the supply it had before the block
		now := h.readSup()
		sup := append([][2]string{}, h.curSup...)
		for i := range sup {
			if sup[i][0] == bond {
				sup[i][1] = now[i][1]
			}
		}
		h.emit(map[string]any{"op": "block", "t": fmt.Sprint(bt.UnixNano()), "sup": sup}, nil)
		h.curSup = now
	}
	return h
}

func (h *rlHist) readSup() [][2]string {
	var out [][2]string
	for _, d := range h.denoms {
		out = append(out, [2]string{d, supply(h.B, d).String()})
	}
	return out
}

func (h *rlHist) emit(op map[string]any, obs any) {
	h.ops = append(h.ops, op)
	h.obs = append(h.obs, obs)
}

func (h *rlHist) k() *ratelimitkeeper.Keeper { return h.B.GetSimApp().RateLimitKeeper }

// observe projects the rate-limit state of B: outcome class, the tracked rate limits, both pending sets, the epoch.
func (h *rlHist) observe(cls int) map[string]any {
	ctx := h.B.GetContext()
	k := h.k()
	lims := []any{}
	for _, p := range h.paths {
		rl, found := k.GetRateLimit(ctx, p[0], p[1])
		if !found {
			lims = append(lims, nil)
			continue
		}
		lims = append(lims, []string{rl.Quota.MaxPercentSend.String(), rl.Quota.MaxPercentRecv.String(), hx.U(rl.Quota.DurationHours),
			rl.Flow.Inflow.String(), rl.Flow.Outflow.String(), rl.Flow.ChannelValue.String()})
	}
	ps, err := k.GetAllPendingSendPackets(ctx)
	if err != nil {
		h.w.t.Fatalf("pending send: %v", err)
	}
	pr, err := k.GetAllPendingReceivePackets(ctx)
	if err != nil {
		h.w.t.Fatalf("pending recv: %v", err)
	}
	ep, err := k.GetHourEpoch(ctx)
	if err != nil {
		h.w.t.Fatalf("epoch: %v", err)
	}
	return map[string]any{"cls": cls, "lims": lims, "ps": sortedStrings(ps), "pr": sortedStrings(pr),
		"epn": hx.U(ep.EpochNumber), "eps": fmt.Sprint(ep.EpochStartTime.UnixNano()), "epd": fmt.Sprint(int64(ep.Duration))}
}

// pkOf is the rate limiter's own view of a packet (keeper.ParsePacketInfo on the real packet).
func (h *rlHist) pkOf(p channeltypes.Packet, dir ratelimittypes.PacketDirection) map[string]any {
	info, err := ratelimitkeeper.ParsePacketInfo(p, dir)
	if err != nil {
		h.w.t.Fatalf("ParsePacketInfo: %v", err)
	}
	return map[string]any{"denom": info.Denom, "chan": info.ChannelID, "seq": hx.U(p.Sequence), "amt": info.Amount.String(),
		"from": info.Sender, "to": info.Receiver}
}

func (h *rlHist) nextSeq(c *ibctesting.TestChain, channel string) uint64 {
	s, ok := c.App.GetIBCKeeper().ChannelKeeper.GetNextSequenceSend(c.GetContext(), "transfer", channel)
	if !ok {
		h.w.t.Fatalf("no next sequence send for %s", channel)
	}
	return s
}

// pickAmt chooses an amount around the remaining room of the rate limit on (denom, channel), if there is one.
func (h *rlHist) pickAmt(denom, channel string, send bool, bal sdkmath.Int) sdkmath.Int {
	small := sdkmath.NewInt(int64(1 + h.r.Intn(400)))
	rl, found := h.k().GetRateLimit(h.B.GetContext(), denom, channel)
	if !found || h.r.Chance(1, 5) {
		return small
	}
	pct := rl.Quota.MaxPercentRecv
	net := rl.Flow.Inflow.Sub(rl.Flow.Outflow)
	if send {
		pct = rl.Quota.MaxPercentSend
		net = rl.Flow.Outflow.Sub(rl.Flow.Inflow)
	}
	thr := rl.Flow.ChannelValue.Mul(pct).Quo(sdkmath.NewInt(100))
	room := thr.Sub(net)
	var a sdkmath.Int
	switch h.r.Intn(7) {
	case 0:
		a = room
	case 1:
		a = room.AddRaw(1)
	case 2:
		a = room.SubRaw(1)
	case 3:
		a = room.QuoRaw(2).AddRaw(1)
	case 4:
		a = room.QuoRaw(3).AddRaw(1)
	case 5:
		a = room.MulRaw(2)
	default:
		a = small
	}
	if !a.IsPositive() {
		a = sdkmath.NewInt(int64(1 + h.r.Intn(3)))
	}
	if bal.IsPositive() && a.GT(bal) && h.r.Chance(4, 5) {
		a = bal
	}
	return a
}

func (h *rlHist) quota(denom string) (sdkmath.Int, sdkmath.Int, uint64) {
	pcts := []int64{0, 1, 2, 5}
	if denom != bond {
		pcts = []int64{0, 10, 50, 100}
	}
	s := pcts[h.r.Intn(len(pcts))]
	rv := pcts[h.r.Intn(len(pcts))]
	if s == 0 && rv == 0 {
		s = pcts[1]
	}
	return sdkmath.NewInt(s), sdkmath.NewInt(rv), uint64(1 + h.r.Intn(3))
}

var badAddr = "notanaddress"

// ---- operations -------------------------------------------------------------------------------

// opSend: MsgTransfer B -> A of stake or of the A-voucher.
func (h *rlHist) opSend() {
	denom := bond
	if h.r.Chance(1, 3) {
		denom = h.ibcA
	}
	ui := 1 + h.r.Intn(3)
	acct := h.B.SenderAccounts[ui]
	bal := balance(h.B, acct.SenderAccount.GetAddress(), denom)
	if denom == h.ibcA && !bal.IsPositive() {
		denom = bond
		bal = balance(h.B, acct.SenderAccount.GetAddress(), denom)
	}
	amt := h.pickAmt(denom, h.epBA.ChannelID, true, bal)
	receiver := h.A.SenderAccounts[1+h.r.Intn(2)].SenderAccount.GetAddress().String()
	bad := h.r.Chance(1, 5)
	if bad {
		receiver = badAddr
	}
	h.send(denom, ui, amt, receiver, !bad && h.r.Chance(1, 4))
}

// send: one MsgTransfer B -> A.
func (h *rlHist) send(denom string, ui int, amt sdkmath.Int, receiver string, willTimeout bool) {
	acct := h.B.SenderAccounts[ui]
	bal := balance(h.B, acct.SenderAccount.GetAddress(), denom)
	envOK := amt.LTE(bal)
	th := clienttypes.NewHeight(1, height(h.A)+100000)
	if willTimeout {
		th = clienttypes.NewHeight(1, height(h.A)+2)
	}
	seq := h.nextSeq(h.B, h.epBA.ChannelID)
	// the packet as the stack will see it, for the rate limiter's view of a denied send
	tok, err := h.B.GetSimApp().TransferKeeper.TokenFromCoin(h.B.GetContext(), sdk.NewCoin(denom, amt))
	if err != nil {
		h.w.t.Fatalf("TokenFromCoin: %v", err)
	}
	sender := acct.SenderAccount.GetAddress().String()
	data := transfertypes.NewFungibleTokenPacketData(tok.Denom.Path(), amt.String(), sender, receiver, "")
	shadow := channeltypes.Packet{Sequence: seq, SourcePort: "transfer", SourceChannel: h.epBA.ChannelID,
		DestinationPort: "transfer", DestinationChannel: h.epAB.ChannelID, Data: data.GetBytes()}
	pk := h.pkOf(shadow, ratelimittypes.PACKET_SEND)
	p, err := h.w.transfer(h.B, &acct, "transfer", h.epBA.ChannelID, sdk.NewCoin(denom, amt), receiver, th, 0, "")
	cls := 0
	if err != nil {
		cls = 1
	} else {
		if p.Sequence != seq {
			h.w.t.Fatalf("sequence %d != %d", p.Sequence, seq)
		}
		h.out = append(h.out, outPkt{p: *p, pk: pk, timeout: willTimeout})
	}
	h.emit(map[string]any{"op": "send", "pk": pk, "env_ok": envOK}, h.observe(cls))
}

// opRelayOut: finish one B -> A packet: timeout, or receive on A and acknowledge on B.
func (h *rlHist) opRelayOut() {
	if len(h.out) == 0 {
		h.opSend()
		return
	}
	i := h.r.Intn(len(h.out))
	o := h.out[i]
	h.out = append(h.out[:i], h.out[i+1:]...)
	if o.timeout {
		for height(h.A) < o.p.TimeoutHeight.RevisionHeight+1 {
			h.w.block(h.A)
		}
		h.w.timeoutPacket(h.epBA, o.p)
		h.emit(map[string]any{"op": "timeout", "pk": o.pk}, h.observe(0))
		return
	}
	rr := h.w.recv(h.epAB, o.p)
	if rr.ack == nil {
		h.w.t.Fatalf("no ack for B->A packet")
	}
	h.w.ackPacket(h.epBA, o.p, rr.ack)
	h.emit(map[string]any{"op": "ack", "pk": o.pk, "success": ackClass(rr.ack) == 0}, h.observe(0))
}

// opRecv: A sends to B (fresh voucher, or B's own stake coming home) and the packet is relayed; the ack goes back to A.
func (h *rlHist) opRecv() {
	ai := 1 + h.r.Intn(2)
	acct := h.A.SenderAccounts[ai]
	denom := bond // on A: A's stake -> voucher ibcA on B
	rlDenom := h.ibcA
	if h.r.Chance(1, 2) && balance(h.A, acct.SenderAccount.GetAddress(), h.ibcB).IsPositive() {
		denom = h.ibcB // B's stake returning: rate-limit denom is "stake"
		rlDenom = bond
	}
	bal := balance(h.A, acct.SenderAccount.GetAddress(), denom)
	amt := h.pickAmt(rlDenom, h.epBA.ChannelID, false, bal)
	if amt.GT(bal) {
		amt = bal
	}
	h.recvFrom(ai, denom, amt, h.r.Chance(1, 5))
}

// opRecvFixed: A sends amt of its stake to B.
func (h *rlHist) opRecvFixed(amt int64, bad bool) { h.recvFrom(1, bond, sdkmath.NewInt(amt), bad) }

func (h *rlHist) recvFrom(ai int, denom string, amt sdkmath.Int, bad bool) {
	acct := h.A.SenderAccounts[ai]
	receiver := h.B.SenderAccounts[1+h.r.Intn(3)].SenderAccount.GetAddress().String()
	app := "ok"
	if bad {
		receiver = badAddr
		app = "err"
	}
	p, err := h.w.transfer(h.A, &acct, "transfer", h.epAB.ChannelID, sdk.NewCoin(denom, amt), receiver, clienttypes.NewHeight(1, height(h.B)+1000), 0, "")
	if err != nil {
		h.w.t.Fatalf("A->B transfer: %v", err)
	}
	pk := h.pkOf(*p, ratelimittypes.PACKET_RECV)
	rr := h.w.recv(h.epBA, *p)
	h.emit(map[string]any{"op": "recv", "pk": pk, "app": app}, h.observe(ackClass(rr.ack)))
	h.w.ackPacket(h.epAB, *p, rr.ack)
}

// fwdPkt is a forward A -> B -> C whose second hop is still in flight.
type fwdPkt struct {
	p       channeltypes.Packet // A -> B packet (async ack pending on B)
	pk      map[string]any
	fp      channeltypes.Packet // B -> C packet
	pk2     map[string]any
	mode    int // 0 deliver (success), 1 deliver (error ack: bad receiver), 2 time out
	retries int
}

// opForwardStart: A -> B -> C through PFM. On B this is a receive (async ack) plus a send in the same transaction.
func (h *rlHist) opForwardStart() {
	bal := balance(h.A, h.A.SenderAccounts[1].SenderAccount.GetAddress(), bond)
	amt := h.pickAmt(h.ibcA, h.epBA.ChannelID, false, bal)
	if h.r.Chance(1, 2) {
		amt = h.pickAmt(h.ibcA, h.epBC.ChannelID, true, bal)
	}
	h.forwardStart(amt, h.r.Intn(3), h.r.Intn(2))
}

func (h *rlHist) forwardStartFixed(amt int64, mode, retries int) {
	h.forwardStart(sdkmath.NewInt(amt), mode, retries)
}

func (h *rlHist) forwardStart(amt sdkmath.Int, mode, retries int) {
	acct := h.A.SenderAccounts[1+h.r.Intn(2)]
	final := h.C.SenderAccounts[1].SenderAccount.GetAddress().String()
	if mode == 1 {
		final = badAddr
	}
	memo := fmt.Sprintf(`{"forward":{"receiver":%q,"port":"transfer","channel":%q,"retries":%d,"timeout":"6h"}}`, final, h.epBC.ChannelID, retries)
	p, err := h.w.transfer(h.A, &acct, "transfer", h.epAB.ChannelID, sdk.NewCoin(bond, amt), "pfm", clienttypes.NewHeight(1, height(h.B)+100000), 0, memo)
	if err != nil {
		h.w.t.Fatalf("A->B forward transfer: %v", err)
	}
	pk := h.pkOf(*p, ratelimittypes.PACKET_RECV)
	seq2 := h.nextSeq(h.B, h.epBC.ChannelID)
	rr := h.w.recv(h.epBA, *p)
	if rr.ack != nil {
		// denied by the rate limiter (inflow or the forward's outflow): error ack, everything discarded
		if ackClass(rr.ack) != 1 {
			h.w.t.Fatalf("forward receive answered a success ack")
		}
		over, _ := pfmReceiver(h.B, h.epBA.ChannelID, packetData(*p).Sender)
		pk2 := map[string]any{"denom": h.ibcA, "chan": h.epBC.ChannelID, "seq": hx.U(seq2), "amt": amt.String(), "from": over, "to": final}
		h.emit(map[string]any{"op": "recvfwd", "pk": pk, "pk2": pk2, "env_ok": true}, h.observe(1))
		h.w.ackPacket(h.epAB, *p, rr.ack)
		return
	}
	if len(rr.sent) != 1 {
		h.w.t.Fatalf("forward: %d packets sent", len(rr.sent))
	}
	fp := rr.sent[0]
	pk2 := h.pkOf(fp, ratelimittypes.PACKET_SEND)
	h.emit(map[string]any{"op": "recvfwd", "pk": pk, "pk2": pk2, "env_ok": true}, h.observe(2))
	h.fwd = append(h.fwd, fwdPkt{p: *p, pk: pk, fp: fp, pk2: pk2, mode: mode, retries: retries})
}

// opForwardFinish: the forwarded packet is delivered (success / error ack) or times out (retry or give up).
func (h *rlHist) opForwardFinish() {
	if len(h.fwd) == 0 {
		h.opForwardStart()
		return
	}
	i := h.r.Intn(len(h.fwd))
	f := h.fwd[i]
	h.fwd = append(h.fwd[:i], h.fwd[i+1:]...)
	expired := uint64(h.w.coord.CurrentTime.UnixNano())+uint64(time.Minute) >= f.fp.TimeoutTimestamp
	if f.mode == 2 || expired {
		if !expired {
			d := time.Duration(f.fp.TimeoutTimestamp-uint64(h.w.coord.CurrentTime.UnixNano())) + time.Minute
			h.w.coord.IncrementTimeBy(d)
		}
		h.w.block(h.C)
		seq3 := h.nextSeq(h.B, h.epBC.ChannelID)
		h.w.updateClient(h.epBC)
		res, err := h.epBC.TimeoutPacketWithResult(f.fp)
		h.w.sync()
		if f.retries > 0 {
			pk3 := map[string]any{"denom": f.pk2["denom"], "chan": f.pk2["chan"], "seq": hx.U(seq3), "amt": f.pk2["amt"], "from": f.pk2["from"], "to": f.pk2["to"]}
			if err != nil {
				// the retry was denied: the whole MsgTimeout is reverted; the packet is abandoned by this relayer
				h.emit(map[string]any{"op": "timeoutretry", "pk": f.pk2, "pk2": pk3, "env_ok": true}, h.observe(1))
				return
			}
			tr := termOf(res)
			if len(tr.sent) != 1 || tr.sent[0].Sequence != seq3 {
				h.w.t.Fatalf("retry did not send one packet")
			}
			h.emit(map[string]any{"op": "timeoutretry", "pk": f.pk2, "pk2": pk3, "env_ok": true}, h.observe(0))
			f.fp = tr.sent[0]
			f.pk2 = h.pkOf(f.fp, ratelimittypes.PACKET_SEND)
			f.retries--
			if f.mode == 2 && h.r.Bool() {
				f.mode = 0
			}
			h.fwd = append(h.fwd, f)
			return
		}
		if err != nil {
			h.w.t.Fatalf("timeout of forwarded packet: %v", err)
		}
		tr := termOf(res)
		if tr.ack == nil {
			h.w.t.Fatalf("no async ack after giving up")
		}
		h.emit(map[string]any{"op": "timeout", "pk": f.pk2}, nil)
		h.emit(map[string]any{"op": "writeack", "pk": f.pk, "success": false}, h.observe(0))
		h.w.ackPacket(h.epAB, f.p, tr.ack)
		return
	}
	rc := h.w.recv(h.epCB, f.fp)
	if rc.ack == nil {
		h.w.t.Fatalf("no ack on C")
	}
	tr := h.w.ackPacket(h.epBC, f.fp, rc.ack)
	ok := ackClass(rc.ack) == 0
	if tr.ack == nil {
		h.w.t.Fatalf("no async ack written on B")
	}
	h.emit(map[string]any{"op": "ack", "pk": f.pk2, "success": ok}, nil)
	h.emit(map[string]any{"op": "writeack", "pk": f.pk, "success": ok}, h.observe(0))
	h.w.ackPacket(h.epAB, f.p, tr.ack)
}

// opAdmin: the four admin messages through the msg server, with the authority or with a wrong signer.
func (h *rlHist) opAdmin(kind int, pi int) {
	sq, rq, hrs := h.quota(h.paths[pi][0])
	h.admin(kind, pi, !h.r.Chance(1, 10), sq, rq, hrs)
}

func (h *rlHist) admin(kind int, pi int, auth bool, s, rv sdkmath.Int, hrs uint64) {
	p := h.paths[pi]
	signer := h.k().GetAuthority()
	if !auth {
		signer = h.B.SenderAccount.GetAddress().String()
	}
	ctx, write := h.B.GetContext().CacheContext()
	cv := supply(h.B, p[0]).String()
	var err error
	var op map[string]any
	path := []string{p[0], p[1]}
	switch kind {
	case 0:
		_, chanFound := h.B.App.GetIBCKeeper().ChannelKeeper.GetChannel(h.B.GetContext(), "transfer", p[1])
		_, err = h.srv.AddRateLimit(ctx, &ratelimittypes.MsgAddRateLimit{Signer: signer, Denom: p[0], ChannelOrClientId: p[1], MaxPercentSend: s, MaxPercentRecv: rv, DurationHours: hrs})
		op = map[string]any{"op": "add", "path": path, "q": []string{s.String(), rv.String(), hx.U(hrs)}, "cv": cv, "chan_exists": chanFound, "auth": auth}
	case 1:
		_, err = h.srv.UpdateRateLimit(ctx, &ratelimittypes.MsgUpdateRateLimit{Signer: signer, Denom: p[0], ChannelOrClientId: p[1], MaxPercentSend: s, MaxPercentRecv: rv, DurationHours: hrs})
		op = map[string]any{"op": "update", "path": path, "q": []string{s.String(), rv.String(), hx.U(hrs)}, "cv": cv, "auth": auth}
	case 2:
		_, err = h.srv.RemoveRateLimit(ctx, &ratelimittypes.MsgRemoveRateLimit{Signer: signer, Denom: p[0], ChannelOrClientId: p[1]})
		op = map[string]any{"op": "remove", "path": path, "auth": auth}
	default:
		_, err = h.srv.ResetRateLimit(ctx, &ratelimittypes.MsgResetRateLimit{Signer: signer, Denom: p[0], ChannelOrClientId: p[1]})
		op = map[string]any{"op": "reset", "path": path, "cv": cv, "auth": auth}
	}
	cls := 1
	if err == nil {
		write()
		cls = 0
	}
	h.emit(op, h.observe(cls))
}

func (h *rlHist) opTime() {
	mins := []int{10, 25, 50, 61, 125}
	h.opTimeFixed(mins[h.r.Intn(len(mins))])
}

func (h *rlHist) opTimeFixed(mins int) {
	h.w.coord.IncrementTimeBy(time.Duration(mins) * time.Minute)
	h.w.block(h.B)
	h.obs[len(h.obs)-1] = h.observe(0)
}

func (h *rlHist) opLists() {
	ctx := h.B.GetContext()
	if h.r.Bool() {
		d := h.denoms[h.r.Intn(len(h.denoms))]
		v := !h.k().IsDenomBlacklisted(ctx, d)
		if v {
			h.k().AddDenomToBlacklist(ctx, d)
		} else {
			h.k().RemoveDenomFromBlacklist(ctx, d)
		}
		h.emit(map[string]any{"op": "blacklist", "denom": d, "v": v}, h.observe(0))
		return
	}
	// whitelist a (sender, receiver) pair used by sends or by receives
	var a, b string
	if h.r.Bool() {
		a = h.B.SenderAccounts[1+h.r.Intn(3)].SenderAccount.GetAddress().String()
		b = h.A.SenderAccounts[1+h.r.Intn(2)].SenderAccount.GetAddress().String()
	} else {
		a = h.A.SenderAccounts[1+h.r.Intn(2)].SenderAccount.GetAddress().String()
		b = h.B.SenderAccounts[1+h.r.Intn(3)].SenderAccount.GetAddress().String()
	}
	v := !h.k().IsAddressPairWhitelisted(ctx, a, b)
	if v {
		h.k().SetWhitelistedAddressPair(ctx, ratelimittypes.WhitelistedAddressPair{Sender: a, Receiver: b})
	} else {
		h.k().RemoveWhitelistedAddressPair(ctx, a, b)
	}
	h.emit(map[string]any{"op": "whitelist", "a": a, "b": b, "v": v}, h.observe(0))
}

func (h *rlHist) record(o *hx.Out, tag string) {
	ep0 := h.obs0
	o.Emit("rl_hist", map[string]any{"init": ep0, "paths": h.paths, "ops": h.ops}, h.obs, tag)
}

// big helper kept for amounts above int64 in corpus cases
func bigInt(s string) sdkmath.Int {
	b, ok := new(big.Int).SetString(s, 10)
	if !ok {
		panic("bad int " + s)
	}
	return sdkmath.NewIntFromBigInt(b)
}
