package pfmrl

import (
	"testing"

	packetforward "github.com/cosmos/ibc-go/v11/modules/apps/packet-forward-middleware"
	ibctesting "github.com/cosmos/ibc-go/v11/testing"

	"verif/harness/hx"
)

// pfmReceiver is the override receiver PFM uses on chain c for a packet that arrived over `channel` from `sender`.
func pfmReceiver(c *ibctesting.TestChain, channel, sender string) (string, error) {
	return packetforward.GetReceiver(c.GetSimApp().PFMKeeper.GetAddressCodec(), channel, sender)
}

func famPFM(t *testing.T, r *hx.Rng, o *hx.Out) {}
