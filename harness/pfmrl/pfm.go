package pfmrl

import (
	"fmt"
	"sort"
	"strings"
	"testing"
	"time"

	sdkmath "cosmossdk.io/math"

	sdk "github.com/cosmos/cosmos-sdk/types"

	packetforward "github.com/cosmos/ibc-go/v11/modules/apps/packet-forward-middleware"
	transfertypes "github.com/cosmos/ibc-go/v11/modules/apps/transfer/types"
	clienttypes "github.com/cosmos/ibc-go/v11/modules/core/02-client/types"
	channeltypes "github.com/cosmos/ibc-go/v11/modules/core/04-channel/types"
	ibctesting "github.com/cosmos/ibc-go/v11/testing"

	"verif/harness/hx"
)

// pfmReceiver is the override receiver PFM uses on chain c for a packet that arrived over `channel` from `sender`.
func pfmReceiver(c *ibctesting.TestChain, channel, sender string) (string, error) {
	return packetforward.GetReceiver(c.GetSimApp().PFMKeeper.GetAddressCodec(), channel, sender)
}

// pfmWorld is one line of chains on which routes are run one after the other; after each route (at quiescence) all
// balances, voucher supplies, total escrows and in-flight records of every chain are recorded.
type pfmWorld struct {
	w      *world
	r      *hx.Rng
	n      int
	labels map[string][]any // address -> ["user"] | ["escrow", channel] | ["override", channel, sender address]
	accts  []map[string]bool
	routes []any
	obs    []any
	ops    []any // operations of the current route
	esctr  []any // after the origin transfer and after every relayer operation: tracked total escrow and escrow-account balances of every chain
	dead   bool  // a relayer transaction failed: the world is not used any further
	init0  []any
}

func newPfmWorld(t *testing.T, r *hx.Rng, n int) *pfmWorld {
	pw := &pfmWorld{w: newWorld(t, n), r: r, n: n, labels: map[string][]any{}}
	for i := 0; i < n; i++ {
		pw.accts = append(pw.accts, map[string]bool{})
		for u := 1; u <= 3; u++ {
			pw.track(i, pw.w.chains[i].SenderAccounts[u].SenderAccount.GetAddress().String(), []any{"user"})
		}
	}
	for i, p := range pw.w.paths {
		pw.track(i, transfertypes.GetEscrowAddress("transfer", p.EndpointA.ChannelID).String(), []any{"escrow", p.EndpointA.ChannelID})
		pw.track(i+1, transfertypes.GetEscrowAddress("transfer", p.EndpointB.ChannelID).String(), []any{"escrow", p.EndpointB.ChannelID})
	}
	return pw
}

func (pw *pfmWorld) track(chain int, addr string, label []any) {
	if old, ok := pw.labels[addr]; ok && fmt.Sprint(old) != fmt.Sprint(label) {
		pw.w.t.Fatalf("address %s labelled twice: %v %v", addr, old, label)
	}
	pw.labels[addr] = label
	pw.accts[chain][addr] = true
}

// ends returns the endpoint on chain i towards chain j (|i-j| = 1) and its counterparty.
func (pw *pfmWorld) ends(i, j int) (*ibctesting.Endpoint, *ibctesting.Endpoint) {
	if j == i+1 {
		return pw.w.paths[i].EndpointA, pw.w.paths[i].EndpointB
	}
	return pw.w.paths[j].EndpointB, pw.w.paths[j].EndpointA
}

func (pw *pfmWorld) chainIndex(c *ibctesting.TestChain) int {
	for i, x := range pw.w.chains {
		if x == c {
			return i
		}
	}
	return -1
}

// endpointOf finds the endpoint of chain i that owns channel ch.
func (pw *pfmWorld) endpointOf(i int, ch string) *ibctesting.Endpoint {
	for _, p := range pw.w.paths {
		if p.EndpointA.Chain == pw.w.chains[i] && p.EndpointA.ChannelID == ch {
			return p.EndpointA
		}
		if p.EndpointB.Chain == pw.w.chains[i] && p.EndpointB.ChannelID == ch {
			return p.EndpointB
		}
	}
	return nil
}

func (pw *pfmWorld) emit(kind string, chain int, ch string, seq uint64) {
	pw.ops = append(pw.ops, []any{kind, chain, ch, hx.U(seq)})
}

func (pw *pfmWorld) nextSeq(i int, ch string) uint64 {
	c := pw.w.chains[i]
	s, ok := c.App.GetIBCKeeper().ChannelKeeper.GetNextSequenceSend(c.GetContext(), "transfer", ch)
	if !ok {
		pw.w.t.Fatalf("no next sequence send")
	}
	return s
}

// relay relays the packet sent by chain si (depth-first, like the model's relay) and returns the acknowledgement
// bytes that were written for the previous hop's packet by this hop's terminal handler (nil at the origin).
func (pw *pfmWorld) relay(si int, pkt channeltypes.Packet, timeouts []int, depth int) []byte {
	w := pw.w
	srcEp := pw.endpointOf(si, pkt.SourceChannel)
	dstEp := srcEp.Counterparty
	di := pw.chainIndex(dstEp.Chain)
	k := 0
	if depth < len(timeouts) {
		k = timeouts[depth]
	}
	for ; k > 0; k-- {
		now := uint64(w.coord.CurrentTime.UnixNano())
		if pkt.TimeoutTimestamp+uint64(time.Minute) > now {
			w.coord.IncrementTimeBy(time.Duration(pkt.TimeoutTimestamp+uint64(time.Minute)-now) * time.Nanosecond)
		}
		w.block(dstEp.Chain)
		pw.emit("timeout", si, pkt.SourceChannel, pkt.Sequence)
		tr := w.timeoutPacket(srcEp, pkt)
		pw.snap()
		if len(tr.sent) == 1 {
			pkt = tr.sent[0] // retried
			continue
		}
		return tr.ack
	}
	pw.emit("recv", di, pkt.DestinationChannel, pkt.Sequence)
	rr := w.recv(dstEp, pkt)
	pw.snap()
	if rr.ack != nil {
		pw.emit("ack", si, pkt.SourceChannel, pkt.Sequence)
		tr := w.ackPacket(srcEp, pkt, rr.ack)
		pw.snap()
		return tr.ack
	}
	if len(rr.sent) != 1 {
		w.t.Fatalf("async receive without exactly one forwarded packet (%d)", len(rr.sent))
	}
	up := pw.relay(di, rr.sent[0], timeouts, depth+1)
	if up == nil {
		w.t.Fatalf("forwarded packet finished without an acknowledgement for the previous hop")
	}
	pw.emit("ack", si, pkt.SourceChannel, pkt.Sequence)
	tr := w.ackPacket(srcEp, pkt, up)
	pw.snap()
	return tr.ack
}

// snap records, for every chain, the tracked total escrow of every denomination and the balances of the chain's
// transfer escrow accounts (property C31 is evaluated on these after every operation).
func (pw *pfmWorld) snap() {
	var out []any
	for i, c := range pw.w.chains {
		ctx := c.GetContext()
		app := c.GetSimApp()
		var escs, held [][]string
		for _, coin := range app.TransferKeeper.GetAllTotalEscrowed(ctx) {
			escs = append(escs, []string{coin.Denom, coin.Amount.String()})
		}
		addrs := make([]string, 0)
		for a := range pw.accts[i] {
			if pw.labels[a][0] == "escrow" {
				addrs = append(addrs, a)
			}
		}
		sort.Strings(addrs)
		for _, a := range addrs {
			for _, coin := range app.BankKeeper.GetAllBalances(ctx, sdk.MustAccAddressFromBech32(a)) {
				held = append(held, []string{a, coin.Denom, coin.Amount.String()})
			}
		}
		out = append(out, map[string]any{"esc": escs, "held": held})
	}
	pw.esctr = append(pw.esctr, out)
}

type routePlan struct {
	chainsIdx []int // c0 .. cm
	retries   []int // per forward hop (index 1..m-1)
	timeouts  []int // per hop 0..m-1
	badRecv   bool
	badChanAt int // forward hop whose memo names a channel that does not exist (-1: none)
}

// runRoute executes one route and records it.
func (pw *pfmWorld) runRoute(pl routePlan, ui int, denom string, amt sdkmath.Int, tag string) {
	w := pw.w
	m := len(pl.chainsIdx) - 1
	c0 := pl.chainsIdx[0]
	acct := w.chains[c0].SenderAccounts[ui]
	sender := acct.SenderAccount.GetAddress().String()
	last := w.chains[pl.chainsIdx[m]]
	final := last.SenderAccounts[1+pw.r.Intn(3)].SenderAccount.GetAddress().String()
	if pl.badRecv {
		final = badAddr
	}
	// nested memo, innermost first; override accounts along the way
	memo := ""
	var memoModel any
	for j := m - 1; j >= 1; j-- {
		ep, _ := pw.ends(pl.chainsIdx[j], pl.chainsIdx[j+1])
		ch := ep.ChannelID
		if pl.badChanAt == j {
			ch = "channel-99"
		}
		recv := "pfm"
		if j == m-1 {
			recv = final
		}
		next := ""
		if memo != "" {
			next = `,"next":` + memo
		}
		memo = fmt.Sprintf(`{"forward":{"receiver":%q,"port":"transfer","channel":%q,"retries":%d,"timeout":"10m"%s}}`, recv, ch, pl.retries[j], next)
		memoModel = map[string]any{"recv": recv, "chan": ch, "retries": pl.retries[j], "next": memoModel}
	}
	prevSender := sender
	for j := 1; j < m; j++ {
		_, in := pw.ends(pl.chainsIdx[j-1], pl.chainsIdx[j])
		ov, err := pfmReceiver(w.chains[pl.chainsIdx[j]], in.ChannelID, prevSender)
		if err != nil {
			w.t.Fatalf("override receiver: %v", err)
		}
		pw.track(pl.chainsIdx[j], ov, []any{"override", in.ChannelID, prevSender})
		prevSender = ov
	}
	ep0, _ := pw.ends(c0, pl.chainsIdx[1])
	recv0 := final
	if m > 1 {
		recv0 = "pfm"
	}
	pw.ops = nil
	pw.esctr = nil
	tts := uint64(w.coord.CurrentTime.UnixNano()) + uint64(10*time.Minute)
	pkt, err := w.transfer(w.chains[c0], &acct, "transfer", ep0.ChannelID, sdk.NewCoin(denom, amt), recv0, clienttypes.ZeroHeight(), tts, memo)
	route := map[string]any{"chain": c0, "sender": sender, "chan": ep0.ChannelID, "denom": denom, "amt": amt.String(),
		"recv": recv0, "memo": memoModel, "timeouts": pl.timeouts, "ok": err == nil}
	pw.snap()
	rec := map[string]any{"route": route, "tag": tag}
	if err == nil {
		// a relayer transaction that fails (or panics) leaves the route unfinished: recorded as an outcome, the world is
		// not used any further
		if panicked, msg := hx.Catch(func() { pw.relay(c0, *pkt, pl.timeouts, 0) }); panicked {
			if len(msg) > 400 {
				msg = msg[:400]
			}
			rec["failed"] = msg
			pw.dead = true
		}
	}
	rec["ops"] = pw.ops
	rec["esctr"] = pw.esctr
	pw.routes = append(pw.routes, rec)
	pw.obs = append(pw.obs, pw.observe())
}

// unwindFailRoute: the shape property C31 needs. A voucher of the far end's token (it travelled n-1 -> ... -> 0 in the
// seeding forward) is sent 0 -> 1 with a forward to 2 whose receiver is invalid: chain 1 unescrows it, burns it on the
// forward (it is a voucher of the forward channel) and, on the error acknowledgement, mints it back into the refund
// channel's escrow account.
func (pw *pfmWorld) unwindFailRoute(timeoutInstead bool) {
	c := pw.w.chains[0]
	for ui := 1; ui <= 3; ui++ {
		for _, coin := range c.GetSimApp().BankKeeper.GetAllBalances(c.GetContext(), c.SenderAccounts[ui].SenderAccount.GetAddress()) {
			if strings.HasPrefix(coin.Denom, "ibc/") && coin.Amount.GTE(sdkmath.NewInt(300)) {
				pl := routePlan{chainsIdx: []int{0, 1, 2}, retries: []int{0, 0}, timeouts: []int{0, 0}, badRecv: !timeoutInstead, badChanAt: -1}
				if timeoutInstead {
					pl.timeouts = []int{0, 1}
				}
				pw.runRoute(pl, ui, coin.Denom, sdkmath.NewInt(300), "corpus-unwind-fail")
				return
			}
		}
	}
	pw.w.t.Fatalf("harness: no voucher on chain 0 for the unwinding corpus route")
}

// observe: every tracked account's balances, voucher supplies, total escrows, in-flight records, per chain.
func (pw *pfmWorld) observe() []any {
	var out []any
	for i, c := range pw.w.chains {
		ctx := c.GetContext()
		app := c.GetSimApp()
		var bals [][]string
		addrs := make([]string, 0, len(pw.accts[i]))
		for a := range pw.accts[i] {
			addrs = append(addrs, a)
		}
		sort.Strings(addrs)
		for _, a := range addrs {
			for _, coin := range app.BankKeeper.GetAllBalances(ctx, sdk.MustAccAddressFromBech32(a)) {
				bals = append(bals, []string{a, coin.Denom, coin.Amount.String()})
			}
		}
		var sups [][]string
		app.BankKeeper.IterateTotalSupply(ctx, func(coin sdk.Coin) bool {
			if strings.HasPrefix(coin.Denom, "ibc/") {
				sups = append(sups, []string{coin.Denom, coin.Amount.String()})
			}
			return false
		})
		var escs [][]string
		for _, coin := range app.TransferKeeper.GetAllTotalEscrowed(ctx) {
			escs = append(escs, []string{coin.Denom, coin.Amount.String()})
		}
		var infl []string
		for key := range app.PFMKeeper.ExportGenesis(ctx).InFlightPackets {
			infl = append(infl, key)
		}
		sort.Strings(infl)
		out = append(out, map[string]any{"bal": bals, "sup": sups, "esc": escs, "infl": infl})
	}
	return out
}

func (pw *pfmWorld) record(o *hx.Out, tag string) {
	var chans []any
	for i, p := range pw.w.paths {
		chans = append(chans, []any{i, p.EndpointA.ChannelID, i + 1, p.EndpointB.ChannelID})
	}
	o.Emit("pfm_hist", map[string]any{"n": pw.n, "chans": chans, "labels": pw.labels, "init": pw.init0, "routes": pw.routes}, pw.obs, tag)
}

// pickToken chooses a token the user holds on chain i.
func (pw *pfmWorld) pickToken(i, ui int) (string, sdkmath.Int) {
	c := pw.w.chains[i]
	coins := c.GetSimApp().BankKeeper.GetAllBalances(c.GetContext(), c.SenderAccounts[ui].SenderAccount.GetAddress())
	// prefer vouchers when there are some: they exercise unwinding
	var vs []sdk.Coin
	for _, x := range coins {
		if strings.HasPrefix(x.Denom, "ibc/") {
			vs = append(vs, x)
		}
	}
	if len(vs) > 0 && pw.r.Chance(2, 3) {
		x := vs[pw.r.Intn(len(vs))]
		a := sdkmath.NewInt(int64(1 + pw.r.Intn(50)))
		if a.GT(x.Amount) || pw.r.Chance(1, 6) {
			a = x.Amount
		}
		return x.Denom, a
	}
	return bond, sdkmath.NewInt(int64(100 + pw.r.Intn(900)))
}

func (pw *pfmWorld) randomRoute(maxHops int) {
	n := pw.n
	dir := 1
	if pw.r.Bool() {
		dir = -1
	}
	m := 1 + pw.r.Intn(maxHops)
	if pw.r.Chance(1, 2) {
		m = maxHops
	}
	var start int
	if dir == 1 {
		start = pw.r.Intn(n - m)
	} else {
		start = m + pw.r.Intn(n-m)
	}
	pl := routePlan{badChanAt: -1}
	for j := 0; j <= m; j++ {
		pl.chainsIdx = append(pl.chainsIdx, start+dir*j)
	}
	for j := 0; j < m; j++ {
		pl.retries = append(pl.retries, pw.r.Intn(3))
		t := 0
		if pw.r.Chance(1, 4) {
			t = 1 + pw.r.Intn(2)
		}
		pl.timeouts = append(pl.timeouts, t)
	}
	pl.badRecv = pw.r.Chance(1, 4)
	if m > 1 && pw.r.Chance(1, 8) {
		pl.badChanAt = 1 + pw.r.Intn(m-1)
	}
	ui := 1 + pw.r.Intn(3)
	denom, amt := pw.pickToken(start, ui)
	pw.runRoute(pl, ui, denom, amt, "random")
}

// famPfmDenom: getDenomForThisChain (through the verif hook) on generated traces: first hop equal to the counterparty
// (port, channel), equal in one component only, empty trace, unwinding to native, unwinding to a shorter trace.
func famPfmDenom(r *hx.Rng, o *hx.Out) {
	ports := []string{"transfer", "icahost", "tr"}
	chs := []string{"channel-0", "channel-1", "channel-12", "07-tendermint-3"}
	bases := []string{"stake", "uatom", "gamm/pool/1", "a"}
	n := hx.N(120, 3000)
	for i := 0; i < n; i++ {
		port, ch := r.Pick(ports), r.Pick(chs)
		cport, cch := r.Pick(ports), r.Pick(chs)
		var trace []transfertypes.Hop
		tag := "random"
		for l := r.Intn(4); l > 0; l-- {
			trace = append(trace, transfertypes.NewHop(r.Pick(ports), r.Pick(chs)))
		}
		switch r.Intn(6) {
		case 0:
			trace = append([]transfertypes.Hop{transfertypes.NewHop(cport, cch)}, trace...)
			tag = "prefix"
		case 1:
			trace = append([]transfertypes.Hop{transfertypes.NewHop(cport, r.Pick(chs))}, trace...)
			tag = "port-only"
		case 2:
			trace = append([]transfertypes.Hop{transfertypes.NewHop(r.Pick(ports), cch)}, trace...)
			tag = "channel-only"
		case 3:
			trace = []transfertypes.Hop{transfertypes.NewHop(cport, cch)}
			tag = "unwind-to-native"
		case 4:
			trace = nil
			tag = "native"
		}
		base := r.Pick(bases)
		var tr [][]string
		for _, h := range trace {
			tr = append(tr, []string{hx.HS(h.PortId), hx.HS(h.ChannelId)})
		}
		d := transfertypes.Denom{Base: base, Trace: append([]transfertypes.Hop{}, trace...)}
		out := packetforward.VerifGetDenomForThisChain(port, ch, cport, cch, d)
		o.Emit("pfm_denom", []any{hx.HS(port), hx.HS(ch), hx.HS(cport), hx.HS(cch), tr, hx.HS(base)}, hx.HS(out), tag)
	}
}

func famPFM(t *testing.T, r *hx.Rng, o *hx.Out) {
	famPfmDenom(r, o)
	worlds := hx.N(4, 24)
	for i := 0; i < worlds; i++ {
		n := 4
		if hx.Tier() == "thorough" && i%2 == 1 {
			n = 5
		}
		pw := newPfmWorld(t, r, n)
		pw.init0 = pw.observe()
		// two full-length successful forwards first, one in each direction: afterwards both ends hold vouchers, so
		// the random routes below unwind as often as they wind
		for _, dir := range []int{1, -1} {
			pl := routePlan{badChanAt: -1}
			for j := 0; j < n; j++ {
				idx := j
				if dir == -1 {
					idx = n - 1 - j
				}
				pl.chainsIdx = append(pl.chainsIdx, idx)
				pl.retries = append(pl.retries, 0)
				pl.timeouts = append(pl.timeouts, 0)
			}
			pw.runRoute(pl, 1+i%3, bond, sdkmath.NewInt(5000), "seed-vouchers")
		}
		// corpus: failed unwinding forwards (error acknowledgement, then final timeout), then the vouchers go home
		if !pw.dead {
			pw.unwindFailRoute(false)
		}
		if !pw.dead {
			pw.unwindFailRoute(true)
		}
		routes := hx.N(7, 16)
		for j := 0; j < routes && !pw.dead; j++ {
			pw.randomRoute(n - 1)
		}
		pw.record(o, fmt.Sprintf("line-%d", n))
	}
}
