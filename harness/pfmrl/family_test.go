package pfmrl

import (
	"testing"

	sdkmath "cosmossdk.io/math"

	"verif/harness/hx"
)

// TestFamily writes the trace of the `pfmrl` scenario family: rate-limit histories (C41) and
// packet-forward routes (C43).
func TestFamily(t *testing.T) {
	r := hx.NewRng("pfmrl")
	o := hx.NewOut()
	defer o.Close()
	famRL(t, r, o)
	famPFM(t, r, o)
	t.Logf("records=%d", o.Count())
}

// famRL: corpus histories first (F4 and the shapes the mutation tests need), then random histories.
func famRL(t *testing.T, r *hx.Rng, o *hx.Out) {
	scriptF4(t, r, o, 1)      // update between send and timeout
	scriptF4(t, r, o, 0)      // remove + add between send and timeout
	scriptF4(t, r, o, 3)      // reset between send and timeout
	scriptRecvPending(t, r, o) // window change while a forwarded receive is pending, then its error ack
	n := hx.N(10, 120)
	for i := 0; i < n; i++ {
		h := newRlHist(t, r)
		steps := hx.N(18, 30) + r.Intn(hx.N(14, 30))
		// most histories start with a rate limit on the busiest paths
		if r.Chance(3, 4) {
			h.opAdmin(0, 0)
		}
		for s := 0; s < steps; s++ {
			switch x := r.Intn(100); {
			case x < 22:
				h.opSend()
			case x < 40:
				h.opRelayOut()
			case x < 56:
				h.opRecv()
			case x < 64:
				h.opForwardStart()
			case x < 74:
				h.opForwardFinish()
			case x < 90:
				h.opAdmin(r.Intn(4), r.Intn(len(h.paths)))
			case x < 96:
				h.opTime()
			default:
				h.opLists()
			}
		}
		h.record(o, "random")
	}
}

// scriptF4 is the witness of finding F4 (fixed by 395272a): send 10; admin op restarting the window; send 5;
// timeout of the first packet. The outflow must stay 5.
func scriptF4(t *testing.T, r *hx.Rng, o *hx.Out, kind int) {
	h := newRlHist(t, r)
	one, hrs := sdkmath.NewInt(1), uint64(1)
	recv := h.A.SenderAccounts[1].SenderAccount.GetAddress().String()
	h.admin(0, 0, true, one, one, hrs)
	h.send(bond, 1, sdkmath.NewInt(10), recv, true)
	switch kind {
	case 0:
		h.admin(2, 0, true, one, one, hrs)
		h.admin(0, 0, true, one, one, hrs)
	default:
		h.admin(kind, 0, true, sdkmath.NewInt(2), one, hrs)
	}
	h.send(bond, 1, sdkmath.NewInt(5), recv, false)
	h.opRelayOut() // only the first packet is marked for timeout ...
	h.opRelayOut() // ... the second is received and acknowledged
	h.record(o, "corpus-F4")
}

// scriptRecvPending: a forward is in flight (pending receive marker on B) when the window restarts (reset, update,
// epoch); new inflow is accepted; then the old forward fails. The new window's inflow must not be lowered.
func scriptRecvPending(t *testing.T, r *hx.Rng, o *hx.Out) {
	for kind := 0; kind < 3; kind++ {
		h := newRlHist(t, r)
		// some voucher supply first, so the rate limit on (ibcA, chBA) can be added
		h.opRecvFixed(1000, false)
		h.admin(0, 1, true, sdkmath.NewInt(100), sdkmath.NewInt(100), 1)
		h.forwardStartFixed(40, 1, 0) // will fail on C (bad receiver)
		switch kind {
		case 0:
			h.admin(3, 1, true, sdkmath.NewInt(100), sdkmath.NewInt(100), 1)
		case 1:
			h.admin(1, 1, true, sdkmath.NewInt(50), sdkmath.NewInt(100), 1)
		default:
			h.opTimeFixed(61)
		}
		h.opRecvFixed(25, false)
		h.opForwardFinish()
		h.record(o, "corpus-recv-pending")
	}
}
