// Package pfmrl is the scenario family for rate limiting (C41) and packet forwarding (C43):
// real simapp chains (transfer + PFM + rate-limiting stack) driven through ibctesting.
package pfmrl

import (
	"fmt"
	"sort"
	"testing"
	"time"

	abci "github.com/cometbft/cometbft/abci/types"

	sdkmath "cosmossdk.io/math"

	sdk "github.com/cosmos/cosmos-sdk/types"

	transfertypes "github.com/cosmos/ibc-go/v11/modules/apps/transfer/types"
	clienttypes "github.com/cosmos/ibc-go/v11/modules/core/02-client/types"
	channeltypes "github.com/cosmos/ibc-go/v11/modules/core/04-channel/types"
	host "github.com/cosmos/ibc-go/v11/modules/core/24-host"
	ibctesting "github.com/cosmos/ibc-go/v11/testing"
)

// world is a line of chains c0 - c1 - ... joined by transfer channels; paths[i] joins chains[i] (EndpointA)
// and chains[i+1] (EndpointB).
type world struct {
	t      *testing.T
	coord  *ibctesting.Coordinator
	chains []*ibctesting.TestChain
	paths  []*ibctesting.Path

	// block watcher (rate-limit histories): every block committed on `watch` is reported
	watch   *ibctesting.TestChain
	lastH   uint64
	onBlock func(t time.Time)
}

func newWorld(t *testing.T, n int) *world {
	w := &world{t: t}
	w.coord = ibctesting.NewCoordinator(t, n)
	for i := 0; i < n; i++ {
		w.chains = append(w.chains, w.coord.GetChain(ibctesting.GetChainID(i+1)))
	}
	for i := 0; i+1 < n; i++ {
		p := ibctesting.NewTransferPath(w.chains[i], w.chains[i+1])
		p.Setup()
		w.paths = append(w.paths, p)
	}
	return w
}

func height(c *ibctesting.TestChain) uint64 {
	return c.LatestCommittedHeader.GetHeight().GetRevisionHeight()
}

// sync reports blocks committed on the watched chain since the last call; every primitive below commits at
// most one block per chain, so the time of the last committed header is the time of that block.
func (w *world) sync() {
	if w.watch == nil {
		return
	}
	h := height(w.watch)
	switch {
	case h == w.lastH:
	case h == w.lastH+1:
		w.lastH = h
		if w.onBlock != nil {
			w.onBlock(w.watch.LatestCommittedHeader.GetTime())
		}
	default:
		w.t.Fatalf("harness: %d blocks on the watched chain inside one primitive", h-w.lastH)
	}
}

// updateClient updates ep's client of the counterparty (one block on each of the two chains).
func (w *world) updateClient(ep *ibctesting.Endpoint) {
	if err := ep.UpdateClient(); err != nil {
		w.t.Fatalf("update client: %v", err)
	}
	w.sync()
}

// tx delivers msgs on chain c signed by acct (nil = default sender); one block on c.
func (w *world) tx(c *ibctesting.TestChain, acct *ibctesting.SenderAccount, msgs ...sdk.Msg) (*abci.ExecTxResult, error) {
	var res *abci.ExecTxResult
	var err error
	if acct == nil {
		res, err = c.SendMsgs(msgs...)
	} else {
		res, err = c.SendMsgsWithSender(*acct, msgs...)
	}
	w.sync()
	return res, err
}

// transfer sends MsgTransfer; returns the packet when the transaction succeeded.
func (w *world) transfer(c *ibctesting.TestChain, acct *ibctesting.SenderAccount, port, channel string, coin sdk.Coin, receiver string, th clienttypes.Height, tts uint64, memo string) (*channeltypes.Packet, error) {
	sender := c.SenderAccount.GetAddress().String()
	if acct != nil {
		sender = acct.SenderAccount.GetAddress().String()
	}
	msg := transfertypes.NewMsgTransfer(port, channel, coin, sender, receiver, th, tts, memo)
	res, err := w.tx(c, acct, msg)
	if err != nil {
		return nil, err
	}
	p, err := ibctesting.ParseV1PacketFromEvents(res.Events)
	if err != nil {
		w.t.Fatalf("no packet in transfer events: %v", err)
	}
	return &p, nil
}

// txFailure is raised when a relayer transaction that must succeed for the history to continue fails (the packet is
// stuck); route-level callers recover it and record the failure as an outcome.
type txFailure string

// recvResult is what a MsgRecvPacket produced: the written acknowledgement (nil when async) and the packets sent
// inside the same transaction (PFM forwards).
type recvResult struct {
	ack  []byte
	sent []channeltypes.Packet
}

// recv relays packet to ep's chain (ep is the destination end).
func (w *world) recv(ep *ibctesting.Endpoint, packet channeltypes.Packet) recvResult {
	w.updateClient(ep)
	key := host.PacketCommitmentKey(packet.GetSourcePort(), packet.GetSourceChannel(), packet.GetSequence())
	proof, proofHeight := ep.Counterparty.Chain.QueryProof(key)
	msg := channeltypes.NewMsgRecvPacket(packet, proof, proofHeight, ep.Chain.SenderAccount.GetAddress().String())
	res, err := w.tx(ep.Chain, nil, msg)
	if err != nil {
		panic(txFailure("recv packet: " + err.Error()))
	}
	var out recvResult
	if ack, err := ibctesting.ParseAckFromEvents(res.Events); err == nil {
		out.ack = ack
	}
	if ps, err := ibctesting.ParseIBCV1Packets(channeltypes.EventTypeSendPacket, res.Events); err == nil {
		out.sent = ps
	}
	return out
}

// termResult is what a MsgAcknowledgement / MsgTimeout produced on a forwarding chain: the acknowledgement written
// for the previous hop (async ack) and a retried forward.
type termResult struct {
	ack  []byte
	sent []channeltypes.Packet
}

// ackPacket relays an acknowledgement to ep's chain (ep is the source end of packet).
func (w *world) ackPacket(ep *ibctesting.Endpoint, packet channeltypes.Packet, ack []byte) termResult {
	w.updateClient(ep)
	key := host.PacketAcknowledgementKey(packet.GetDestPort(), packet.GetDestChannel(), packet.GetSequence())
	proof, proofHeight := ep.Counterparty.QueryProof(key)
	msg := channeltypes.NewMsgAcknowledgement(packet, ack, proof, proofHeight, ep.Chain.SenderAccount.GetAddress().String())
	res, err := w.tx(ep.Chain, nil, msg)
	if err != nil {
		panic(txFailure("acknowledge packet: " + err.Error()))
	}
	return termOf(res)
}

// timeoutPacket relays a timeout to ep's chain (ep is the source end); the caller made the timeout elapse.
func (w *world) timeoutPacket(ep *ibctesting.Endpoint, packet channeltypes.Packet) termResult {
	w.updateClient(ep)
	res, err := ep.TimeoutPacketWithResult(packet)
	w.sync()
	if err != nil {
		panic(txFailure("timeout packet: " + err.Error()))
	}
	return termOf(res)
}

func termOf(res *abci.ExecTxResult) termResult {
	var out termResult
	if ack, err := ibctesting.ParseAckFromEvents(res.Events); err == nil {
		out.ack = ack
	}
	if ps, err := ibctesting.ParseIBCV1Packets(channeltypes.EventTypeSendPacket, res.Events); err == nil {
		out.sent = ps
	}
	return out
}

// block commits one empty block on c.
func (w *world) block(c *ibctesting.TestChain) {
	c.NextBlock()
	w.coord.IncrementTime()
	w.sync()
}

// ackClass: 0 success, 1 error, 2 none (async)
func ackClass(ack []byte) int {
	if ack == nil {
		return 2
	}
	var a channeltypes.Acknowledgement
	if err := transfertypes.ModuleCdc.UnmarshalJSON(ack, &a); err != nil {
		return 1
	}
	if a.Success() {
		return 0
	}
	return 1
}

func balance(c *ibctesting.TestChain, addr sdk.AccAddress, denom string) sdkmath.Int {
	return c.GetSimApp().BankKeeper.GetBalance(c.GetContext(), addr, denom).Amount
}

func supply(c *ibctesting.TestChain, denom string) sdkmath.Int {
	return c.GetSimApp().BankKeeper.GetSupply(c.GetContext(), denom).Amount
}

func packetData(p channeltypes.Packet) transfertypes.FungibleTokenPacketData {
	var d transfertypes.FungibleTokenPacketData
	if err := transfertypes.ModuleCdc.UnmarshalJSON(p.GetData(), &d); err != nil {
		panic(fmt.Sprintf("packet data: %v", err))
	}
	return d
}

func sortedStrings(xs []string) []string {
	out := append([]string{}, xs...)
	sort.Strings(out)
	return out
}
