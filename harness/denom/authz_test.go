package denom

import (
	"math/big"
	"sort"

	"github.com/cosmos/gogoproto/proto"

	sdkmath "cosmossdk.io/math"

	sdk "github.com/cosmos/cosmos-sdk/types"
	"github.com/cosmos/cosmos-sdk/x/authz"

	transfertypes "github.com/cosmos/ibc-go/v11/modules/apps/transfer/types"
	clienttypes "github.com/cosmos/ibc-go/v11/modules/core/02-client/types"
	ibctesting "github.com/cosmos/ibc-go/v11/testing"

	"verif/harness/hx"
)

var (
	authzDenoms = []string{"stake", "uatom", "gamm/pool/1", "ibc/27394FB092D2ECCD56123C74F36E4C1F926001CEADA9CA97EA622B25F41E5EB2", "aaa"}
	authzMemos  = []string{"", " ", "memo", " memo ", "other", "{\"forward\":1}", "*"}
)

func sentinelInt() sdkmath.Int { return transfertypes.UnboundedSpendLimit() }

func coinsJ(cs sdk.Coins) [][]string {
	out := make([][]string, 0, len(cs))
	for _, c := range cs {
		amt := "nil"
		if !c.Amount.IsNil() {
			amt = c.Amount.String()
		}
		out = append(out, []string{hx.HS(c.Denom), amt})
	}
	return out
}

func strsJ(xs []string) []string {
	out := make([]string, 0, len(xs))
	for _, x := range xs {
		out = append(out, hx.HS(x))
	}
	return out
}

func allocJ(a transfertypes.Allocation) map[string]any {
	return map[string]any{"port": hx.HS(a.SourcePort), "chan": hx.HS(a.SourceChannel), "limit": coinsJ(a.SpendLimit),
		"allow": strsJ(a.AllowList), "memos": strsJ(a.AllowedPacketData)}
}

func grantJ(t *transfertypes.TransferAuthorization) []map[string]any {
	out := make([]map[string]any, 0, len(t.Allocations))
	for _, a := range t.Allocations {
		out = append(out, allocJ(a))
	}
	return out
}

// genLimit draws a valid spend limit: 1–3 distinct denoms, small amounts (so that sequences exhaust them),
// sometimes the sentinel, sometimes a large amount.
func genLimit(r *hx.Rng) sdk.Coins {
	n := 1 + r.Intn(3)
	perm := append([]string{}, authzDenoms...)
	var cs sdk.Coins
	for i := 0; i < n; i++ {
		j := i + r.Intn(len(perm)-i)
		perm[i], perm[j] = perm[j], perm[i]
		var amt sdkmath.Int
		switch r.Intn(8) {
		case 0:
			amt = sentinelInt()
		case 1:
			amt = sentinelInt().SubRaw(int64(1 + r.Intn(3)))
		default:
			amt = sdkmath.NewInt(int64(1 + r.Intn(40)))
		}
		cs = append(cs, sdk.Coin{Denom: perm[i], Amount: amt})
	}
	sort.Slice(cs, func(i, j int) bool { return cs[i].Denom < cs[j].Denom })
	return cs
}

func genAllocs(r *hx.Rng, chans []string, addrs []string) []transfertypes.Allocation {
	n := 1 + r.Intn(len(chans))
	perm := append([]string{}, chans...)
	var out []transfertypes.Allocation
	for i := 0; i < n; i++ {
		j := i + r.Intn(len(perm)-i)
		perm[i], perm[j] = perm[j], perm[i]
		a := transfertypes.Allocation{SourcePort: "transfer", SourceChannel: perm[i], SpendLimit: genLimit(r)}
		for _, ad := range addrs {
			if r.Chance(1, 3) {
				a.AllowList = append(a.AllowList, ad)
			}
		}
		switch r.Intn(5) {
		case 0:
			a.AllowedPacketData = []string{"*"}
		case 1:
			a.AllowedPacketData = []string{"memo", " other "}
		case 2:
			a.AllowedPacketData = []string{"*", "memo"}
		case 3:
			a.AllowedPacketData = []string{r.Pick(authzMemos[2:])}
		}
		out = append(out, a)
	}
	return out
}

type reqT struct {
	port, channel, denom string
	amt                  sdkmath.Int
	receiver, memo       string
}

func reqJ(q reqT) map[string]any {
	return map[string]any{"port": hx.HS(q.port), "chan": hx.HS(q.channel), "denom": hx.HS(q.denom), "amt": q.amt.String(),
		"receiver": hx.HS(q.receiver), "memo": hx.HS(q.memo)}
}

// genReq draws a request aimed at the current grant: mostly a live allocation and a granted denom, amounts
// around what is left (exact, +1, sentinel), receivers inside/outside the allow list, memos from a small pool.
func genReq(r *hx.Rng, cur *transfertypes.TransferAuthorization, chans, addrs []string) reqT {
	q := reqT{port: "transfer", channel: r.Pick(chans), denom: r.Pick(authzDenoms), receiver: r.Pick(addrs), memo: ""}
	var left sdkmath.Int
	if cur != nil && len(cur.Allocations) > 0 && r.Chance(5, 6) {
		a := cur.Allocations[r.Intn(len(cur.Allocations))]
		q.port, q.channel = a.SourcePort, a.SourceChannel
		if len(a.SpendLimit) > 0 && r.Chance(5, 6) {
			c := a.SpendLimit[r.Intn(len(a.SpendLimit))]
			q.denom, left = c.Denom, c.Amount
		}
		if len(a.AllowList) > 0 && r.Chance(4, 5) {
			q.receiver = a.AllowList[r.Intn(len(a.AllowList))]
		}
		if len(a.AllowedPacketData) > 0 && r.Chance(3, 4) {
			q.memo = a.AllowedPacketData[r.Intn(len(a.AllowedPacketData))]
		}
	}
	if r.Chance(1, 4) {
		q.memo = r.Pick(authzMemos)
	}
	if r.Chance(1, 12) {
		q.port = "icahost"
	}
	switch k := r.Intn(10); {
	case k == 0:
		q.amt = sentinelInt()
	case k == 1 && !left.IsNil():
		q.amt = left
	case k == 2 && !left.IsNil() && left.LT(sentinelInt()):
		q.amt = left.AddRaw(1)
	case k == 3 && !left.IsNil() && left.GT(sdkmath.OneInt()):
		q.amt = left.SubRaw(1)
	case k == 4:
		q.amt = sdkmath.ZeroInt()
	default:
		q.amt = sdkmath.NewInt(int64(1 + r.Intn(25)))
	}
	return q
}

func cloneAuth(t *transfertypes.TransferAuthorization) *transfertypes.TransferAuthorization {
	bz, err := proto.Marshal(t)
	if err != nil {
		panic(err)
	}
	var out transfertypes.TransferAuthorization
	if err := proto.Unmarshal(bz, &out); err != nil {
		panic(err)
	}
	return &out
}

func stateJ(cur *transfertypes.TransferAuthorization) any {
	if cur == nil {
		return nil
	}
	return grantJ(cur)
}

// famAuthz drives TransferAuthorization.ValidateBasic and Accept with a real sdk.Context, consuming the
// AcceptResponse the way the x/authz keeper does, and a few real MsgGrant/MsgExec sequences.
func famAuthz(w *world, r *hx.Rng, o *hx.Out) {
	ctx := w.A.GetContext()
	chans := []string{"channel-0", "channel-1", "channel-27"}
	addrs := []string{"cosmos1receiverA", "cosmos1receiverB", "cosmos1receiverC", w.B.SenderAccount.GetAddress().String()}
	n := hx.N(150, 1200)

	// ValidateBasic: valid grants and one-defect mutations
	for i := 0; i < n; i++ {
		t := transfertypes.NewTransferAuthorization(genAllocs(r, chans, addrs)...)
		tag := "valid"
		a := &t.Allocations[r.Intn(len(t.Allocations))]
		switch r.Intn(14) {
		case 0:
			t.Allocations, tag = nil, "no-allocations"
		case 1:
			t.Allocations, tag = append(t.Allocations, t.Allocations[0]), "dup-channel"
		case 2:
			a.SpendLimit, tag = nil, "nil-limit"
		case 3:
			a.SpendLimit, tag = append(sdk.Coins{}, sdk.Coin{Denom: "stake", Amount: sdkmath.ZeroInt()}), "zero-coin"
		case 4:
			a.SpendLimit, tag = sdk.Coins{sdk.NewInt64Coin("uatom", 3), sdk.NewInt64Coin("stake", 4)}, "unsorted"
		case 5:
			a.SpendLimit, tag = sdk.Coins{sdk.NewInt64Coin("stake", 3), sdk.NewInt64Coin("stake", 4)}, "dup-denom"
		case 6:
			a.SourcePort, tag = r.Pick([]string{"", "p", "tr/ansfer", "bad port"}), "bad-port"
		case 7:
			a.SourceChannel, tag = r.Pick([]string{"", "chan", "channel/0", "bad chan 01"}), "bad-chan"
		case 8:
			a.AllowList, tag = []string{"x", "y", "x"}, "dup-allow"
		case 9:
			a.SpendLimit, tag = sdk.Coins{sdk.Coin{Denom: "1bad", Amount: sdkmath.NewInt(1)}}, "bad-denom"
		case 10:
			a.SpendLimit, tag = sdk.Coins{sdk.Coin{Denom: "stake", Amount: sdkmath.NewInt(-1)}}, "negative-coin"
		}
		var err error
		panicked, _ := hx.Catch(func() { err = t.ValidateBasic() })
		o.Emit("authz_valid", grantJ(t), map[string]any{"ok": !panicked && err == nil, "panic": panicked}, tag)
	}

	// sequences of Accept
	for i := 0; i < n; i++ {
		t := transfertypes.NewTransferAuthorization(genAllocs(r, chans, addrs)...)
		if t.ValidateBasic() != nil {
			continue
		}
		in := map[string]any{"grant": grantJ(t)}
		cur := cloneAuth(t)
		var reqs []map[string]any
		var outs []map[string]any
		k := 3 + r.Intn(12)
		for j := 0; j < k; j++ {
			q := genReq(r, cur, chans, addrs)
			reqs = append(reqs, reqJ(q))
			ok := false
			panicked := false
			if cur != nil {
				msg := &transfertypes.MsgTransfer{SourcePort: q.port, SourceChannel: q.channel, Token: sdk.Coin{Denom: q.denom, Amount: q.amt},
					Sender: "granter", Receiver: q.receiver, Memo: q.memo}
				work := cloneAuth(cur) // x/authz unpacks a fresh copy from the store for every MsgExec
				var resp authz.AcceptResponse
				var err error
				panicked, _ = hx.Catch(func() { resp, err = work.Accept(ctx, msg) })
				if !panicked && err == nil && resp.Accept {
					ok = true
					switch {
					case resp.Delete:
						cur = nil
					case resp.Updated != nil:
						cur = cloneAuth(resp.Updated.(*transfertypes.TransferAuthorization))
					}
				}
			}
			outs = append(outs, map[string]any{"ok": ok, "panic": panicked, "state": stateJ(cur)})
		}
		in["reqs"] = reqs
		o.Emit("authz_run", in, outs, "accept")
	}

	famAuthzExec(w, r, o)
}

// famAuthzExec: real MsgGrant + MsgExec(MsgTransfer) transactions on chain A.
func famAuthzExec(w *world, r *hx.Rng, o *hx.Out) {
	granter, grantee := w.A.SenderAccounts[0], w.A.SenderAccounts[1]
	gAddr, eAddr := granter.SenderAccount.GetAddress(), grantee.SenderAccount.GetAddress()
	recvOK, recvOther := w.B.SenderAccounts[0].SenderAccount.GetAddress().String(), w.B.SenderAccounts[2].SenderAccount.GetAddress().String()
	chans := []string{w.paths[0].EndpointA.ChannelID, w.paths[1].EndpointA.ChannelID}
	denoms := []string{"stake", "uauthz"}
	msgType := sdk.MsgTypeURL(&transfertypes.MsgTransfer{})
	seqs := hx.N(5, 30)
	for s := 0; s < seqs; s++ {
		if err := mintTo(w.A, gAddr, sdk.NewInt64Coin("uauthz", int64(500+r.Intn(500)))); err != nil {
			w.t.Fatalf("mint: %v", err)
		}
		var allocs []transfertypes.Allocation
		for i, c := range chans {
			if i > 0 && r.Bool() {
				continue
			}
			var limit sdk.Coins
			for _, d := range denoms {
				switch r.Intn(4) {
				case 0:
					limit = append(limit, sdk.Coin{Denom: d, Amount: sentinelInt()})
				case 1:
				default:
					limit = append(limit, sdk.NewInt64Coin(d, int64(5+r.Intn(60))))
				}
			}
			if len(limit) == 0 {
				limit = sdk.NewCoins(sdk.NewInt64Coin("stake", 20))
			}
			sort.Slice(limit, func(i, j int) bool { return limit[i].Denom < limit[j].Denom })
			a := transfertypes.Allocation{SourcePort: "transfer", SourceChannel: c, SpendLimit: limit}
			if r.Bool() {
				a.AllowList = []string{recvOK}
			}
			if r.Bool() {
				a.AllowedPacketData = []string{"memo"}
			}
			allocs = append(allocs, a)
		}
		t := transfertypes.NewTransferAuthorization(allocs...)
		exp := w.A.ProposedHeader.Time.Add(1000 * 3600 * 1e9)
		mg, err := authz.NewMsgGrant(gAddr, eAddr, t, &exp)
		if err != nil {
			w.t.Fatalf("msg grant: %v", err)
		}
		if _, err := w.A.SendMsgs(mg); err != nil {
			w.t.Fatalf("grant tx: %v", err)
		}
		in := map[string]any{"grant": grantJ(t)}
		var reqs, outs []map[string]any
		var cur *transfertypes.TransferAuthorization = t
		k := 3 + r.Intn(5)
		for j := 0; j < k; j++ {
			q := genReq(r, cur, chans, []string{recvOK, recvOther})
			if q.port != "transfer" || q.amt.IsZero() || (q.denom != "stake" && q.denom != "uauthz") {
				q.port, q.denom, q.amt = "transfer", r.Pick(denoms), sdkmath.NewInt(int64(1+r.Intn(30)))
			}
			if q.memo != "" && q.memo != "memo" {
				q.memo = r.Pick([]string{"", "memo", "x"})
			}
			if q.amt.Equal(sentinelInt()) && q.denom == "stake" {
				q.denom = "uauthz" // never move the whole staking balance (fees)
			}
			before := balOf(w.A, gAddr, q.denom)
			mt := transfertypes.NewMsgTransfer(q.port, q.channel, sdk.Coin{Denom: q.denom, Amount: q.amt}, gAddr.String(), q.receiver,
				clienttypes.NewHeight(1, 1000000), 0, q.memo)
			me := authz.NewMsgExec(eAddr, []sdk.Msg{mt})
			// would the stored authorization accept this message on its own? (tells an authorization rejection
			// from a failure of the transfer itself, which reverts the whole transaction)
			acceptOK := false
			if cur != nil {
				cctx, _ := w.A.GetContext().CacheContext()
				resp, aerr := cloneAuth(cur).Accept(cctx, mt)
				acceptOK = aerr == nil && resp.Accept
			}
			_, err := w.A.SendMsgsWithSender(grantee, &me)
			errText := ""
			if err != nil {
				resync(w.A, grantee.SenderAccount)
				errText = err.Error()
				if len(errText) > 600 {
					errText = errText[:600]
				}
			}
			execFailed := err != nil && acceptOK
			moved := before.Sub(balOf(w.A, gAddr, q.denom))
			stored, _ := w.A.GetSimApp().AuthzKeeper.GetAuthorization(w.A.GetContext(), eAddr, gAddr, msgType)
			cur = nil
			if stored != nil {
				cur = stored.(*transfertypes.TransferAuthorization)
			}
			rq := reqJ(q)
			rq["spendable"] = before.String()
			rq["exec_failed"] = execFailed
			reqs = append(reqs, rq)
			outs = append(outs, map[string]any{"ok": err == nil, "panic": false, "state": stateJ(cur), "moved": moved.String(), "why": errText})
		}
		in["reqs"] = reqs
		o.Emit("authz_exec", in, outs, "msgexec")
		// leave no grant behind for the next sequence
		if cur != nil {
			rv := authz.NewMsgRevoke(gAddr, eAddr, msgType)
			if _, err := w.A.SendMsgs(&rv); err != nil {
				w.t.Fatalf("revoke: %v", err)
			}
		}
	}
	_ = big.NewInt
	_ = ibctesting.GetChainID
}
