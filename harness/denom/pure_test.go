package denom

import (
	"strings"

	sdk "github.com/cosmos/cosmos-sdk/types"

	ratelimitkeeper "github.com/cosmos/ibc-go/v11/modules/apps/rate-limiting/keeper"
	ratelimitv2 "github.com/cosmos/ibc-go/v11/modules/apps/rate-limiting/v2"
	transfertypes "github.com/cosmos/ibc-go/v11/modules/apps/transfer/types"
	clienttypes "github.com/cosmos/ibc-go/v11/modules/core/02-client/types"
	channeltypes "github.com/cosmos/ibc-go/v11/modules/core/04-channel/types"
	channeltypesv2 "github.com/cosmos/ibc-go/v11/modules/core/04-channel/v2/types"
	host "github.com/cosmos/ibc-go/v11/modules/core/24-host"

	"verif/harness/hx"
)

func traceJ(d transfertypes.Denom) [][]string {
	out := make([][]string, 0, len(d.Trace))
	for _, h := range d.Trace {
		out = append(out, []string{hx.HS(h.PortId), hx.HS(h.ChannelId)})
	}
	return out
}

func denomOut(d transfertypes.Denom) map[string]any {
	return map[string]any{
		"base": hx.HS(d.Base), "trace": traceJ(d), "valid": d.Validate() == nil,
		"path": hx.HS(d.Path()), "hash": hx.H(d.Hash()), "ibc": hx.HS(d.IBCDenom()),
	}
}

func emitIdent(o *hx.Out, s, tag string) {
	o.Emit("ident", hx.HS(s), []bool{
		host.PortIdentifierValidator(s) == nil,
		host.ChannelIdentifierValidator(s) == nil,
		host.ClientIdentifierValidator(s) == nil,
		channeltypes.IsValidChannelID(s),
		clienttypes.IsValidClientID(s),
		sdk.ValidateDenom(s) == nil,
		strings.TrimSpace(s) == "",
	}, tag)
}

func emitExtract(o *hx.Out, s, tag string) {
	var d transfertypes.Denom
	if p, _ := hx.Catch(func() { d = transfertypes.ExtractDenomFromPath(s) }); p {
		o.Emit("extract", hx.HS(s), map[string]any{"panic": true}, tag)
		return
	}
	o.Emit("extract", hx.HS(s), denomOut(d), tag)
}

// famPure drives the exported pure functions of C34 and C42.
func famPure(r *hx.Rng, o *hx.Out) {
	n := hx.N(150, 1500)

	// identifier recognisers
	for i := 0; i < n; i++ {
		var s, tag string
		switch r.Intn(8) {
		case 0:
			s, tag = chanID(r), "chan"
		case 1:
			s, tag = clientID(r), "client"
		case 2:
			s, tag = segment(r)
		case 3:
			s, tag = r.Str(alnum+idPunct, 0, 10), "idchars"
		case 4:
			s, tag = r.Str(alnum+idPunct+"/ @", 1, 9), "idchars-bad"
		case 5:
			// length boundaries of the validators: 1,2 | 3,4 | 7,8 | 64,65 | 128,129
			s, tag = r.Str(lower, 1, 1)+strings.Repeat("a", pickInt(r, []int{0, 1, 2, 3, 6, 7, 8, 63, 64, 127, 128})), "len-boundary"
		case 6:
			s, tag = r.Pick([]string{"", " ", "\t \n", "\u0085", "\u00a0", "\u1680", "\u2000", "\u200a", "\u200b", "\u2028", "\u2029", "\u202f", "\u205f", "\u3000", "\xc2", "\xe2\x80", " a ", "\x85", "\xa0", "\u0085\u3000 ", "\u180e", "\ufeff"}), "space"
		default:
			s, tag = sdkEdge(r), "sdk-edge"
		}
		emitIdent(o, s, tag)
	}

	// ExtractDenomFromPath and the methods of its result
	for i := 0; i < 2*n; i++ {
		s, tag := pathString(r)
		emitExtract(o, s, tag)
	}
	for _, w := range witnesses {
		emitExtract(o, w, "witness")
	}

	// Denom methods on arbitrary (trace, base), not only on parser output
	for i := 0; i < n; i++ {
		var d transfertypes.Denom
		tag := "free"
		nh := r.Intn(4)
		for j := 0; j < nh; j++ {
			p, c := portID(r), chanIdent(r)
			switch r.Intn(8) {
			case 0:
				p, tag = r.Str(lower, 0, 1), "bad-port"
			case 1:
				c, tag = r.Str(lower, 0, 7), "bad-chan"
			case 2:
				p, tag = p+"/x", "slash-port"
			}
			d.Trace = append(d.Trace, transfertypes.NewHop(p, c))
		}
		d.Base = shape(r)
		if r.Chance(1, 8) {
			d.Base, tag = r.Pick([]string{"", " ", "\t", "\u00a0"}), "blank"
		}
		qp, qc := portID(r), chanIdent(r)
		if len(d.Trace) > 0 && r.Chance(2, 3) {
			qp, qc = d.Trace[0].PortId, d.Trace[0].ChannelId
			if r.Chance(1, 3) {
				qc += "0"
			}
		}
		out := denomOut(d)
		out["has_prefix"] = d.HasPrefix(qp, qc)
		o.Emit("denom", map[string]any{"base": hx.HS(d.Base), "trace": traceJ(d), "port": hx.HS(qp), "chan": hx.HS(qc)}, out, tag)
	}

	// escrow addresses on valid identifier pairs, including pairs whose concatenations coincide
	for i := 0; i < n; i++ {
		p, c := portID(r), chanIdent(r)
		tag := "valid-pair"
		if r.Chance(1, 4) {
			// move one character across the separator: ("ab","cdefghij") vs ("abc","defghij")
			q := p + c
			k := 2 + r.Intn(3)
			if len(q) > k+8 {
				o.Emit("escrow", []string{hx.HS(q[:k]), hx.HS(q[k:])}, hx.H(transfertypes.GetEscrowAddress(q[:k], q[k:])), "shifted")
				o.Emit("escrow", []string{hx.HS(q[:k+1]), hx.HS(q[k+1:])}, hx.H(transfertypes.GetEscrowAddress(q[:k+1], q[k+1:])), "shifted")
			}
		}
		o.Emit("escrow", []string{hx.HS(p), hx.HS(c)}, hx.H(transfertypes.GetEscrowAddress(p, c)), tag)
	}

	// rate limiting: the denomination charged for a packet
	for i := 0; i < n; i++ {
		s, tag := pathString(r)
		if r.Chance(1, 10) {
			s, tag = "ibc/"+r.Str("0123456789ABCDEF", 0, 64), "ibc-prefixed"
		}
		o.Emit("rl_send", hx.HS(s), hx.HS(ratelimitkeeper.ParseDenomFromSendPacket(transfertypes.FungibleTokenPacketData{Denom: s})), tag)
	}
	for i := 0; i < 2*n; i++ {
		sp, sc, dp, dc := "transfer", "channel-"+r.Str(digits, 1, 2), "transfer", "channel-"+r.Str(digits, 1, 2)
		s, tag := pathString(r)
		switch r.Intn(8) {
		case 0, 1:
			s, tag = sp+"/"+sc+"/"+s, "returning"
		case 2:
			sc, tag = r.Str(lower, 4, 6)+"-"+r.Str(lower, 3, 4), "foreign-src-chan"
			s = sp + "/" + sc + "/" + s
		case 3:
			sc, dc, tag = "07-tendermint-"+r.Str(digits, 1, 2), "08-wasm-"+r.Str(digits, 1, 2), "v2-clients"
			if r.Bool() {
				s = sp + "/" + sc + "/" + s
			}
		case 4:
			s, tag = sp+"/"+sc, "returning-no-base"
		case 5:
			sp, dp, tag = portID(r), portID(r), "other-ports"
			if r.Bool() {
				s = sp + "/" + sc + "/" + s
			}
		}
		pkt := channeltypes.Packet{SourcePort: sp, SourceChannel: sc, DestinationPort: dp, DestinationChannel: dc}
		got := ratelimitkeeper.ParseDenomFromRecvPacket(pkt, transfertypes.FungibleTokenPacketData{Denom: s})
		o.Emit("rl_recv", []string{hx.HS(sp), hx.HS(sc), hx.HS(dp), hx.HS(dc), hx.HS(s)}, hx.HS(got), tag)
	}

	// v2 middleware: the denomination in the re-encoded v1 packet
	for i := 0; i < n; i++ {
		s, tag := pathString(r)
		if !isPlainASCII(s) {
			s, tag = shape(r), "shape"
		}
		enc := r.Pick([]string{transfertypes.EncodingJSON, transfertypes.EncodingProtobuf, transfertypes.EncodingABI})
		data := transfertypes.FungibleTokenPacketData{Denom: s, Amount: "7", Sender: "sender", Receiver: "receiver"}
		bz, err := transfertypes.MarshalPacketData(data, transfertypes.V1, enc)
		if err != nil {
			continue
		}
		payload := channeltypesv2.NewPayload(transfertypes.PortID, transfertypes.PortID, transfertypes.V1, enc, bz)
		pkt, err := ratelimitv2.VerifV2ToV1Packet(payload, "07-tendermint-0", "07-tendermint-1", 1)
		var out any
		if err == nil {
			var back transfertypes.FungibleTokenPacketData
			if e := transfertypes.ModuleCdc.UnmarshalJSON(pkt.Data, &back); e != nil {
				out = map[string]any{"undecodable": true}
			} else {
				out = hx.HS(back.Denom)
			}
		}
		o.Emit("v2reenc", hx.HS(s), out, tag+"/"+enc)
	}
}

func isPlainASCII(s string) bool {
	for i := 0; i < len(s); i++ {
		if s[i] < 0x20 || s[i] > 0x7e {
			return false
		}
	}
	return true
}

// sdkEdge draws strings around the SDK denom regexp [a-zA-Z][a-zA-Z0-9/:._-]{2,127}.
func sdkEdge(r *hx.Rng) string {
	switch r.Intn(6) {
	case 0:
		return r.Str(lower, 1, 1) + r.Str(denomAB, 1, 2) // length 2..3
	case 1:
		return r.Str(lower, 1, 1) + strings.Repeat("x", 126+r.Intn(3)) // 127..129
	case 2:
		return r.Str(digits+"/._", 1, 1) + r.Str(denomAB, 2, 6) // bad first char
	case 3:
		return r.Str(lower, 1, 3) + r.Str("+#@ ~", 1, 1) + r.Str(lower, 1, 3)
	default:
		return shape(r)
	}
}

func pickInt(r *hx.Rng, xs []int) int { return xs[r.Intn(len(xs))] }
