package denom

import (
	"strings"

	"verif/harness/hx"
)

const (
	lower    = "abcdefghijklmnopqrstuvwxyz"
	alnum    = "abcdefghijklmnopqrstuvwxyzABCDEFGHIJKLMNOPQRSTUVWXYZ0123456789"
	digits   = "0123456789"
	denomAB  = "abcXYZ019/:._-"             // the SDK denom alphabet (sample) incl. '/'
	idPunct  = "._+-#[]<>"                  // host.IsValidID punctuation
	wordish  = "abcxyzABC019_-"             // \w and '-'
	spaceish = " \t\n\v\f\r"
)

// chanID draws identifiers around the `channel-{N}` format, valid and just-invalid.
func chanID(r *hx.Rng) string {
	switch r.Intn(12) {
	case 0:
		return "channel-18446744073709551615"
	case 1:
		return "channel-18446744073709551616" // 20 digits, does not fit uint64
	case 2:
		return "channel-" + r.Str(digits, 21, 22)
	case 3:
		return "channel-"
	case 4:
		return "channel-0" + r.Str(digits, 1, 19)
	case 5:
		return "Channel-" + r.Str(digits, 1, 3)
	case 6:
		return "channel-" + r.Str(digits, 1, 2) + r.Str("x_-", 1, 1)
	case 7:
		return "channel-channel-" + r.Str(digits, 1, 2)
	case 8:
		return "channel" + r.Str(digits, 1, 3)
	default:
		return "channel-" + hx.U(r.U64B()>>uint(r.Intn(64)))
	}
}

// clientID draws identifiers around the `{client-type}-{N}` format.
func clientID(r *hx.Rng) string {
	switch r.Intn(14) {
	case 0:
		return "07-tendermint-" + r.Str(digits, 1, 4)
	case 1:
		return "08-wasm-" + r.Str(digits, 1, 4)
	case 2:
		return "09-localhost"
	case 3:
		return "09-localhost-" + r.Str(digits, 0, 2)
	case 4:
		return r.Str(lower, 1, 1) + "-" + r.Str(digits, 1, 20)
	case 5:
		return "-" + r.Str(lower, 1, 3) + "-" + r.Str(digits, 1, 3) // leading dash
	case 6:
		return r.Str(lower, 1, 3) + "--" + r.Str(digits, 1, 3) // type ends with dash
	case 7:
		return r.Str(wordish, 1, 6) + "-" + r.Str(digits, 1, 21)
	case 8:
		return "x-18446744073709551616"
	case 9:
		return "x-18446744073709551615"
	case 10:
		return r.Str(lower, 2, 5) + "." + r.Str(lower, 1, 3) + "-" + r.Str(digits, 1, 3) // '.' is not \w
	case 11:
		return r.Str(wordish, 0, 4) + "-"
	case 12:
		return "10-attestations-" + r.Str(digits, 1, 3)
	default:
		return r.Str(wordish, 1, 8) + "-" + r.Str(digits, 1, 4)
	}
}

// segment draws one '/'-free denomination segment of the given class.
func segment(r *hx.Rng) (string, string) {
	switch r.Intn(9) {
	case 0:
		return r.Str(lower, 1, 8), "word"
	case 1:
		return "channel-" + r.Str(digits, 1, 3), "channel"
	case 2:
		return "07-tendermint-" + r.Str(digits, 1, 3), "tm"
	case 3:
		return "08-wasm-" + r.Str(digits, 1, 3), "wasm"
	case 4:
		return "transfer", "port"
	case 5:
		return r.Str(digits, 1, 6), "digits"
	case 6:
		return r.Str(lower, 1, 4) + r.Str(":._-", 1, 1) + r.Str(alnum, 1, 5), "punct"
	case 7:
		if r.Bool() {
			return chanID(r), "chan-edge"
		}
		return clientID(r), "client-edge"
	default:
		return r.Pick([]string{"uatom", "stake", "gamm", "pool", "factory", "ibc", "foo", "bar"}), "word"
	}
}

// shape draws a denomination of 1–6 '/'-separated segments.
func shape(r *hx.Rng) string {
	n := 1 + r.Intn(6)
	segs := make([]string, n)
	for i := range segs {
		segs[i], _ = segment(r)
	}
	return strings.Join(segs, "/")
}

// sdkShape draws a shape that is a valid SDK coin denom (starts with a letter, 3..128 chars of the denom alphabet).
func sdkShape(r *hx.Rng) string {
	for {
		s := shape(r)
		if sdkValid(s) {
			return s
		}
	}
}

func sdkValid(s string) bool {
	if len(s) < 3 || len(s) > 128 {
		return false
	}
	c := s[0]
	if !(c >= 'a' && c <= 'z' || c >= 'A' && c <= 'Z') {
		return false
	}
	for i := 1; i < len(s); i++ {
		c := s[i]
		if !(c >= 'a' && c <= 'z' || c >= 'A' && c <= 'Z' || c >= '0' && c <= '9' || strings.IndexByte("/:._-", c) >= 0) {
			return false
		}
	}
	return true
}

// pathString draws inputs for the pure parsers: shapes, raw strings over the denom alphabet, empty
// segments, blank bases, whitespace.
func pathString(r *hx.Rng) (string, string) {
	switch r.Intn(10) {
	case 0, 1, 2, 3:
		return shape(r), "shape"
	case 4:
		return r.Str(denomAB, 0, 24), "alphabet"
	case 5:
		// hops followed by an empty or blank base
		return hops(r, 1+r.Intn(2)) + r.Pick([]string{"", " ", "\t", "\u00a0", "  ", "\u0085", "\xc2", "\xe2\x80", " x", "\u3000\u2003"}), "blank-base"
	case 6:
		// empty segments
		s := shape(r)
		i := r.Intn(len(s) + 1)
		return s[:i] + "/" + s[i:], "extra-slash"
	case 7:
		return hops(r, 1+r.Intn(3)) + shape(r), "hops+shape"
	case 8:
		// all segments consumed: even number of segments, every second one an identifier
		return strings.TrimSuffix(hops(r, 2+r.Intn(2)), "/"), "all-hops"
	default:
		return witnesses[r.Intn(len(witnesses))], "witness"
	}
}

var witnesses = []string{
	"foo/channel-5", "foo/channel-5/bar", "transfer/channel-0", "transfer/channel-1/stake", "gamm/pool/1",
	"factory/cosmos1xyz/sub", "uatom", "", "/", "//", "transfer/channel-0/", "ibc/channel-0/uatom",
	"ibc/27394FB092D2ECCD56123C74F36E4C1F926001CEADA9CA97EA622B25F41E5EB2", "transfer/09-localhost/x",
	"a/07-tendermint-0/b/08-wasm-1/c/channel-2/d", "transfer/channel-18446744073709551616/x",
}

func hops(r *hx.Rng, n int) string {
	var sb strings.Builder
	for i := 0; i < n; i++ {
		if r.Chance(2, 3) {
			sb.WriteString("transfer")
		} else {
			sb.WriteString(r.Str(lower, 2, 6))
		}
		sb.WriteByte('/')
		switch r.Intn(3) {
		case 0:
			sb.WriteString("channel-" + r.Str(digits, 1, 3))
		case 1:
			sb.WriteString("07-tendermint-" + r.Str(digits, 1, 2))
		default:
			sb.WriteString("08-wasm-" + r.Str(digits, 1, 2))
		}
		sb.WriteByte('/')
	}
	return sb.String()
}

// portID / chanIdent draw identifiers for (port, channel) pairs accepted by the ICS-24 validators.
func portID(r *hx.Rng) string {
	switch r.Intn(5) {
	case 0:
		return "transfer"
	case 1:
		return r.Str(alnum+idPunct, 2, 12)
	case 2:
		return "icahost"
	default:
		return r.Str(lower, 2, 10)
	}
}

func chanIdent(r *hx.Rng) string {
	switch r.Intn(4) {
	case 0:
		return r.Str(alnum+idPunct, 8, 16)
	case 1:
		return "07-tendermint-" + r.Str(digits, 1, 3)
	default:
		return "channel-" + r.Str(digits, 1, 4)
	}
}
