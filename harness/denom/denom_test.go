package denom

import (
	"testing"

	"verif/harness/hx"
)

// TestFamily writes the trace of the `denom` scenario family.
func TestFamily(t *testing.T) {
	r := hx.NewRng("denom")
	o := hx.NewOut()
	defer o.Close()
	famPure(r, o)
	famChain(t, r, o)
	t.Logf("records=%d", o.Count())
}
