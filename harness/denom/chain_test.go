package denom

import (
	"bytes"
	"context"
	"sort"
	"testing"

	sdkmath "cosmossdk.io/math"

	storetypes "github.com/cosmos/cosmos-sdk/store/v2/types"
	sdk "github.com/cosmos/cosmos-sdk/types"
	banktypes "github.com/cosmos/cosmos-sdk/x/bank/types"
	minttypes "github.com/cosmos/cosmos-sdk/x/mint/types"

	ratelimitkeeper "github.com/cosmos/ibc-go/v11/modules/apps/rate-limiting/keeper"
	ratelimittypes "github.com/cosmos/ibc-go/v11/modules/apps/rate-limiting/types"
	transferkeeper "github.com/cosmos/ibc-go/v11/modules/apps/transfer/keeper"
	transfertypes "github.com/cosmos/ibc-go/v11/modules/apps/transfer/types"
	clienttypes "github.com/cosmos/ibc-go/v11/modules/core/02-client/types"
	channeltypes "github.com/cosmos/ibc-go/v11/modules/core/04-channel/types"
	ibctesting "github.com/cosmos/ibc-go/v11/testing"

	"verif/harness/hx"
)

// world: three chains; B opens a channel to C first so that channel identifiers on A and B differ.
type world struct {
	t     *testing.T
	coord *ibctesting.Coordinator
	A, B  *ibctesting.TestChain
	paths []*ibctesting.Path // A <-> B transfer paths
}

func newWorld(t *testing.T) *world {
	coord := ibctesting.NewCoordinator(t, 3)
	w := &world{t: t, coord: coord, A: coord.GetChain(ibctesting.GetChainID(1)), B: coord.GetChain(ibctesting.GetChainID(2))}
	c := coord.GetChain(ibctesting.GetChainID(3))
	bc := ibctesting.NewTransferPath(w.B, c)
	bc.Setup()
	for i := 0; i < 2; i++ {
		p := ibctesting.NewTransferPath(w.A, w.B)
		p.Setup()
		w.paths = append(w.paths, p)
	}
	return w
}

func mintTo(chain *ibctesting.TestChain, addr sdk.AccAddress, coin sdk.Coin) error {
	ctx := chain.GetContext()
	bk := chain.GetSimApp().BankKeeper
	if err := bk.MintCoins(ctx, minttypes.ModuleName, sdk.NewCoins(coin)); err != nil {
		return err
	}
	return bk.SendCoinsFromModuleToAccount(ctx, minttypes.ModuleName, addr, sdk.NewCoins(coin))
}

// resync sets the test account's local sequence to the one in state: a transaction rejected before the ante
// handler (message ValidateBasic) does not consume a sequence number, but ibctesting counts it anyway.
func resync(chain *ibctesting.TestChain, acc sdk.AccountI) {
	st := chain.GetSimApp().AccountKeeper.GetAccount(chain.GetContext(), acc.GetAddress())
	if st != nil {
		_ = acc.SetSequence(st.GetSequence())
	}
}

func balOf(chain *ibctesting.TestChain, addr sdk.AccAddress, denom string) sdkmath.Int {
	return chain.GetSimApp().BankKeeper.GetBalance(chain.GetContext(), addr, denom).Amount
}

func allBal(chain *ibctesting.TestChain, addr sdk.AccAddress) map[string]sdkmath.Int {
	out := map[string]sdkmath.Int{}
	for _, c := range chain.GetSimApp().BankKeeper.GetAllBalances(chain.GetContext(), addr) {
		out[c.Denom] = c.Amount
	}
	return out
}

// gained returns the denominations whose balance grew between two snapshots (sorted).
func gained(before, after map[string]sdkmath.Int) []string {
	var out []string
	for d, a := range after {
		if b, ok := before[d]; !ok || a.GT(b) {
			out = append(out, d)
		}
	}
	sort.Strings(out)
	return out
}

// watch registers a rate limit (no quota: channel value zero, never reset) so that the flow charged to
// (denom, channel) becomes observable; returns the current (inflow, outflow).
func watch(chain *ibctesting.TestChain, denom, channel string) {
	k := chain.GetSimApp().RateLimitKeeper
	ctx := chain.GetContext()
	if _, found := k.GetRateLimit(ctx, denom, channel); found {
		return
	}
	k.SetRateLimit(ctx, ratelimittypes.RateLimit{
		Path:  &ratelimittypes.Path{Denom: denom, ChannelOrClientId: channel},
		Quota: &ratelimittypes.Quota{MaxPercentSend: sdkmath.NewInt(100), MaxPercentRecv: sdkmath.NewInt(100), DurationHours: 1 << 40},
		Flow:  &ratelimittypes.Flow{Inflow: sdkmath.ZeroInt(), Outflow: sdkmath.ZeroInt(), ChannelValue: sdkmath.ZeroInt()},
	})
}

func flowOf(chain *ibctesting.TestChain, denom, channel string, send bool) sdkmath.Int {
	rl, found := chain.GetSimApp().RateLimitKeeper.GetRateLimit(chain.GetContext(), denom, channel)
	if !found {
		return sdkmath.ZeroInt()
	}
	if send {
		return rl.Flow.Outflow
	}
	return rl.Flow.Inflow
}

func ackOK(ack []byte) bool {
	var a channeltypes.Acknowledgement
	if err := transfertypes.ModuleCdc.UnmarshalJSON(ack, &a); err != nil {
		return false
	}
	return a.Success()
}

func tokenJ(d transfertypes.Denom) map[string]any {
	return map[string]any{"base": hx.HS(d.Base), "trace": traceJ(d)}
}

// leg sends `coin` from src over (transfer, srcChan) to dst and relays it. It emits one rl_flow record for the
// send and one for the receive (C42) and returns what happened.
type legResult struct {
	sendOK, recvOK bool
	gained         []string // denominations the receiver gained
}

func (w *world) leg(o *hx.Out, p *ibctesting.Path, src, dst *ibctesting.TestChain, srcChan, dstChan string, coin sdk.Coin, tag string) legResult {
	var res legResult
	sender, receiver := src.SenderAccount.GetAddress(), dst.SenderAccount.GetAddress()

	// what the token is on the sending chain (TokenFromCoin), for the record
	token, terr := src.GetSimApp().TransferKeeper.TokenFromCoin(src.GetContext(), coin)
	rlSend := ""
	if terr == nil {
		rlSend = ratelimitkeeper.ParseDenomFromSendPacket(transfertypes.FungibleTokenPacketData{Denom: token.Denom.Path()})
		watch(src, coin.Denom, srcChan)
		watch(src, rlSend, srcChan)
	}
	fBank0, fRl0 := flowOf(src, coin.Denom, srcChan, true), flowOf(src, rlSend, srcChan, true)
	bal0 := balOf(src, sender, coin.Denom)

	msg := transfertypes.NewMsgTransfer(transfertypes.PortID, srcChan, coin, sender.String(), receiver.String(), clienttypes.NewHeight(1, 1000000), 0, "")
	r, err := src.SendMsgs(msg)
	res.sendOK = err == nil
	if err != nil {
		resync(src, src.SenderAccount)
	}
	if terr == nil {
		debited := balOf(src, sender, coin.Denom).Sub(bal0).Neg()
		var bank any
		if res.sendOK && debited.Equal(coin.Amount) {
			bank = hx.HS(coin.Denom)
		}
		o.Emit("rl_flow", map[string]any{"dir": "send", "port": hx.HS(transfertypes.PortID), "chan": hx.HS(srcChan),
			"coin": hx.HS(coin.Denom), "token": tokenJ(token.Denom), "amt": coin.Amount.String()},
			map[string]any{"ok": res.sendOK, "bank": bank, "rl": hx.HS(rlSend),
				"flow_rl":   flowOf(src, rlSend, srcChan, true).Sub(fRl0).String(),
				"flow_bank": flowOf(src, coin.Denom, srcChan, true).Sub(fBank0).String()}, tag)
	}
	if !res.sendOK {
		return res
	}
	packet, err := ibctesting.ParseV1PacketFromEvents(r.Events)
	if err != nil {
		w.t.Fatalf("no packet in events: %v", err)
	}
	var data transfertypes.FungibleTokenPacketData
	if err := transfertypes.ModuleCdc.UnmarshalJSON(packet.Data, &data); err != nil {
		w.t.Fatalf("packet data: %v", err)
	}
	rlRecv := ratelimitkeeper.ParseDenomFromRecvPacket(packet, data)
	watch(dst, rlRecv, dstChan)
	fRl0 = flowOf(dst, rlRecv, dstChan, false)
	before := allBal(dst, receiver)

	_, ack, err := p.RelayPacketWithResults(packet)
	if err != nil {
		w.t.Fatalf("relay: %v", err)
	}
	res.recvOK = ackOK(ack)
	res.gained = gained(before, allBal(dst, receiver))
	var bank any
	if res.recvOK && len(res.gained) == 1 {
		bank = hx.HS(res.gained[0])
	}
	o.Emit("rl_flow", map[string]any{"dir": "recv", "sp": hx.HS(packet.SourcePort), "sc": hx.HS(packet.SourceChannel),
		"dp": hx.HS(packet.DestinationPort), "dc": hx.HS(packet.DestinationChannel), "pd": hx.HS(data.Denom), "amt": data.Amount},
		map[string]any{"ok": res.recvOK, "bank": bank, "rl": hx.HS(rlRecv), "gained": len(res.gained),
			"flow_rl": flowOf(dst, rlRecv, dstChan, false).Sub(fRl0).String()}, tag)
	return res
}

// roundTrip mints `funds` of the native denomination `base` on A, sends `amt` A -> B and then `back` of the
// received voucher B -> A over the same channel. One record: outcomes and balances relative to the start.
func (w *world) roundTrip(o *hx.Out, p *ibctesting.Path, base string, funds, amt, back int64, tag string) {
	ca, cb := p.EndpointA.ChannelID, p.EndpointB.ChannelID
	userA, userB := w.A.SenderAccount.GetAddress(), w.B.SenderAccount.GetAddress()
	escrowA := transfertypes.GetEscrowAddress(transfertypes.PortID, ca)
	in := map[string]any{"base": hx.HS(base), "ca": hx.HS(ca), "cb": hx.HS(cb), "funds": funds, "amt": amt, "back": back}

	if err := mintTo(w.A, userA, sdk.NewInt64Coin(base, funds)); err != nil {
		w.t.Fatalf("mint %q: %v", base, err)
	}
	a0, e0 := balOf(w.A, userA, base).SubRaw(funds), balOf(w.A, escrowA, base)
	out := map[string]any{"send1": false, "recv1": false, "voucher": "", "send2": false, "recv2": false}
	voucher := ""
	var b0 sdkmath.Int
	fin := func() {
		out["a_user"] = balOf(w.A, userA, base).Sub(a0).SubRaw(funds).String()
		out["a_escrow"] = balOf(w.A, escrowA, base).Sub(e0).String()
		out["b_user"] = "0"
		if voucher != "" {
			out["b_user"] = balOf(w.B, userB, voucher).Sub(b0).String()
		}
		o.Emit("roundtrip", in, out, tag)
	}

	l1 := w.leg(o, p, w.A, w.B, ca, cb, sdk.NewInt64Coin(base, amt), tag)
	out["send1"], out["recv1"] = l1.sendOK, l1.recvOK
	if !l1.sendOK || !l1.recvOK || len(l1.gained) != 1 {
		fin()
		return
	}
	voucher = l1.gained[0]
	out["voucher"] = hx.HS(voucher)
	b0 = balOf(w.B, userB, voucher).SubRaw(amt)

	l2 := w.leg(o, p.Reversed(), w.B, w.A, cb, ca, sdk.NewInt64Coin(voucher, back), tag)
	out["send2"], out["recv2"] = l2.sendOK, l2.recvOK
	fin()
}

// ---- the ICS-20 denomination decision observed with a recording bank ---------------------------------------

type move struct {
	kind  string // send | mint | burn | to_module | from_module
	from  []byte
	denom string
}

type recBank struct {
	transfertypes.BankKeeper
	moves  *[]move
	k      *transferkeeper.Keeper
	escrow []byte
}

func (b recBank) SendCoins(ctx context.Context, from, to sdk.AccAddress, amt sdk.Coins) error {
	for _, c := range amt {
		*b.moves = append(*b.moves, move{"send", from, c.Denom})
		if bytes.Equal(from, b.escrow) {
			// keep the total-escrow bookkeeping non-negative: this bank never refuses
			sctx := sdk.UnwrapSDKContext(ctx)
			b.k.SetTotalEscrowForDenom(sctx, b.k.GetTotalEscrowForDenom(sctx, c.Denom).Add(c))
		}
	}
	return nil
}

func (b recBank) MintCoins(_ context.Context, _ string, amt sdk.Coins) error {
	for _, c := range amt {
		*b.moves = append(*b.moves, move{"mint", nil, c.Denom})
	}
	return nil
}

func (b recBank) BurnCoins(_ context.Context, _ string, amt sdk.Coins) error {
	for _, c := range amt {
		*b.moves = append(*b.moves, move{"burn", nil, c.Denom})
	}
	return nil
}

func (b recBank) SendCoinsFromAccountToModule(_ context.Context, from sdk.AccAddress, _ string, amt sdk.Coins) error {
	for _, c := range amt {
		*b.moves = append(*b.moves, move{"to_module", from, c.Denom})
	}
	return nil
}

func (b recBank) SendCoinsFromModuleToAccount(_ context.Context, _ string, _ sdk.AccAddress, amt sdk.Coins) error {
	for _, c := range amt {
		*b.moves = append(*b.moves, move{"from_module", nil, c.Denom})
	}
	return nil
}

// recKeeper returns a copy of the chain's transfer keeper whose bank records instead of moving funds.
func recKeeper(chain *ibctesting.TestChain, escrow []byte) (*transferkeeper.Keeper, *[]move) {
	kk := *chain.GetSimApp().TransferKeeper
	moves := &[]move{}
	kk.BankKeeper = recBank{BankKeeper: chain.GetSimApp().TransferKeeper.BankKeeper, moves: moves, k: &kk, escrow: escrow}
	return &kk, moves
}

// decisionRecv runs the real OnRecvPacket on a throw-away context and reports the denomination it moves.
func (w *world) decisionRecv(o *hx.Out, sp, sc, dp, dc, pd, tag string) {
	escrow := transfertypes.GetEscrowAddress(dp, dc)
	kk, moves := recKeeper(w.A, escrow)
	ctx, _ := w.A.GetContext().CacheContext()
	data := transfertypes.FungibleTokenPacketData{Denom: pd, Amount: "5", Sender: "sender", Receiver: w.A.SenderAccount.GetAddress().String()}
	out := map[string]any{"err": true, "action": "", "bank": nil}
	var err error
	panicked, _ := hx.Catch(func() {
		var rep transfertypes.InternalTransferRepresentation
		rep, err = transfertypes.PacketDataV1ToV2(data)
		if err == nil {
			err = kk.OnRecvPacket(ctx, rep, sp, sc, dp, dc)
		}
	})
	out["panic"] = panicked
	if !panicked && err == nil {
		out["err"] = false
		for _, m := range *moves {
			switch {
			case m.kind == "mint":
				out["action"], out["bank"] = "mint", hx.HS(m.denom)
			case m.kind == "send" && bytes.Equal(m.from, escrow):
				out["action"], out["bank"] = "unescrow", hx.HS(m.denom)
			}
		}
	}
	pkt := channeltypes.Packet{SourcePort: sp, SourceChannel: sc, DestinationPort: dp, DestinationChannel: dc}
	out["rl"] = hx.HS(ratelimitkeeper.ParseDenomFromRecvPacket(pkt, data))
	o.Emit("ics20_recv", []string{hx.HS(sp), hx.HS(sc), hx.HS(dp), hx.HS(dc), hx.HS(pd)}, out, tag)
}

// decisionSend runs the real TokenFromCoin + SendTransfer for a coin and reports the denomination debited.
// A voucher coin is first registered with SetDenom (as OnRecvPacket would have).
func (w *world) decisionSend(o *hx.Out, d transfertypes.Denom, port, channel, tag string) {
	kk, moves := recKeeper(w.A, nil)
	ctx, _ := w.A.GetContext().CacheContext()
	sender := w.A.SenderAccount.GetAddress()
	coinDenom := d.Base
	if len(d.Trace) > 0 {
		kk.SetDenom(ctx, d)
		coinDenom = d.IBCDenom()
	}
	out := map[string]any{"err": true, "action": "", "bank": nil, "pd": nil, "rl": nil, "pd_valid": false}
	var err error
	panicked, _ := hx.Catch(func() {
		var token transfertypes.Token
		token, err = kk.TokenFromCoin(ctx, sdk.Coin{Denom: coinDenom, Amount: sdkmath.NewInt(5)})
		if err != nil {
			return
		}
		pd := token.Denom.Path()
		out["pd"] = hx.HS(pd)
		out["rl"] = hx.HS(ratelimitkeeper.ParseDenomFromSendPacket(transfertypes.FungibleTokenPacketData{Denom: pd}))
		out["pd_valid"] = transfertypes.NewFungibleTokenPacketData(pd, "5", "s", "r", "").ValidateBasic() == nil
		err = kk.SendTransfer(ctx, port, channel, token, sender)
	})
	out["panic"] = panicked
	if !panicked && err == nil {
		out["err"] = false
		for _, m := range *moves {
			switch m.kind {
			case "burn":
				out["action"], out["bank"] = "burn", hx.HS(m.denom)
			case "send":
				out["action"], out["bank"] = "escrow", hx.HS(m.denom)
			}
		}
	}
	o.Emit("ics20_send", map[string]any{"token": tokenJ(d), "coin": hx.HS(coinDenom), "port": hx.HS(port), "chan": hx.HS(channel)}, out, tag)
}

// setDenomRecord stores a denomination with the real keeper and reports the raw keys that appeared under
// the DenomKey prefix of the transfer store.
func (w *world) setDenomRecord(o *hx.Out, d transfertypes.Denom, tag string) {
	ctx, _ := w.A.GetContext().CacheContext()
	k := w.A.GetSimApp().TransferKeeper
	store := ctx.KVStore(w.A.GetSimApp().GetKey(transfertypes.StoreKey))
	keys := func() map[string]bool {
		out := map[string]bool{}
		it := storetypes.KVStorePrefixIterator(store, transfertypes.DenomKey)
		defer it.Close()
		for ; it.Valid(); it.Next() {
			out[hx.H(it.Key())] = true
		}
		return out
	}
	before := keys()
	k.SetDenom(ctx, d)
	var added []string
	for key := range keys() {
		if !before[key] {
			added = append(added, key)
		}
	}
	sort.Strings(added)
	got, found := k.GetDenom(ctx, d.Hash())
	ok := found && got.Path() == d.Path() && got.Base == d.Base && len(got.Trace) == len(d.Trace)
	o.Emit("setdenom", tokenJ(d), map[string]any{"new_keys": added, "get_ok": ok}, tag)
}

// recvSetDenom runs the real OnRecvPacket for a packet that mints a voucher and reports which keys appeared under
// the DenomKey prefix of the transfer store and whether GetDenom(hash of the voucher's full path) returns it.
// With preset the receiving chain's bank already holds metadata for the voucher name (set by governance, another
// module or a bank genesis): the voucher must be recorded all the same (seeded change C34-1).
func (w *world) recvSetDenom(o *hx.Out, sp, sc, dp, dc, pd string, preset bool, tag string) {
	data := transfertypes.FungibleTokenPacketData{Denom: pd, Amount: "5", Sender: "sender", Receiver: w.A.SenderAccount.GetAddress().String()}
	rep, err := transfertypes.PacketDataV1ToV2(data)
	if err != nil || rep.Token.Denom.HasPrefix(sp, sc) {
		return // not a minting receive
	}
	d := rep.Token.Denom
	v := transfertypes.Denom{Base: d.Base, Trace: append([]transfertypes.Hop{transfertypes.NewHop(dp, dc)}, d.Trace...)}
	ctx, _ := w.A.GetContext().CacheContext()
	if preset {
		w.A.GetSimApp().BankKeeper.SetDenomMetaData(ctx, banktypes.Metadata{
			Base: v.IBCDenom(), Display: v.IBCDenom(), Name: "preset", Symbol: "PRESET",
			DenomUnits: []*banktypes.DenomUnit{{Denom: v.IBCDenom(), Exponent: 0}},
		})
	}
	kk, _ := recKeeper(w.A, transfertypes.GetEscrowAddress(dp, dc))
	store := ctx.KVStore(w.A.GetSimApp().GetKey(transfertypes.StoreKey))
	keys := func() map[string]bool {
		out := map[string]bool{}
		it := storetypes.KVStorePrefixIterator(store, transfertypes.DenomKey)
		defer it.Close()
		for ; it.Valid(); it.Next() {
			out[hx.H(it.Key())] = true
		}
		return out
	}
	before := keys()
	panicked, _ := hx.Catch(func() { err = kk.OnRecvPacket(ctx, rep, sp, sc, dp, dc) })
	if panicked || err != nil {
		return // nothing was received (rejected denominations are the subject of other record kinds)
	}
	var added []string
	for key := range keys() {
		if !before[key] {
			added = append(added, key)
		}
	}
	sort.Strings(added)
	got, found := w.A.GetSimApp().TransferKeeper.GetDenom(ctx, v.Hash())
	ok := found && got.Path() == v.Path() && got.Base == v.Base && len(got.Trace) == len(v.Trace)
	o.Emit("recv_setdenom", map[string]any{"dp": hx.HS(dp), "dc": hx.HS(dc), "pd": hx.HS(pd), "preset": preset, "base": hx.HS(v.Base), "trace": traceJ(v)},
		map[string]any{"new_keys": added, "get_ok": ok}, tag)
}

func genDenom(r *hx.Rng) transfertypes.Denom {
	var d transfertypes.Denom
	nh := r.Intn(3)
	for j := 0; j < nh; j++ {
		d.Trace = append(d.Trace, transfertypes.NewHop(portID(r), chanIdent(r)))
	}
	d.Base = shape(r)
	if nh == 0 {
		d.Base = sdkShape(r) // a native coin exists in the bank only under a valid SDK denom
	}
	return d
}

// famChain drives the real application: SetDenom keys, ICS-20 decisions vs rate-limit denominations, and
// A -> B -> A round trips with observable rate-limit flows.
func famChain(t *testing.T, r *hx.Rng, o *hx.Out) {
	w := newWorld(t)
	n := hx.N(90, 700)

	for i := 0; i < n/2; i++ {
		d := genDenom(r)
		if len(d.Trace) == 0 && r.Bool() {
			d.Trace = []transfertypes.Hop{transfertypes.NewHop("transfer", "channel-"+r.Str(digits, 1, 2))}
		}
		w.setDenomRecord(o, d, "gen")
	}

	// receive decisions
	for i := 0; i < 3*n; i++ {
		sp, sc, dp, dc := "transfer", "channel-"+r.Str(digits, 1, 2), "transfer", "channel-"+r.Str(digits, 1, 2)
		s, tag := pathString(r)
		switch r.Intn(9) {
		case 0, 1, 2:
			s, tag = sp+"/"+sc+"/"+s, "returning/"+tag
		case 3:
			sc = r.Str(lower, 4, 6) + "-" + r.Str(lower, 3, 4)
			s, tag = sp+"/"+sc+"/"+s, "foreign-src-chan"
		case 4:
			sc, dc, tag = "07-tendermint-"+r.Str(digits, 1, 2), "08-wasm-"+r.Str(digits, 1, 2), "v2-clients"
			if r.Bool() {
				s = sp + "/" + sc + "/" + s
			}
		case 5:
			s, tag = r.Pick([]string{"transfer/channel-0", "foo/channel-5", "x/07-tendermint-3", "transfer/channel-0/foo/channel-5"}), "witness-f5c"
		case 6:
			dc, tag = r.Str(lower, 4, 6)+"-"+r.Str(lower, 3, 4), "foreign-dst-chan"
		}
		w.decisionRecv(o, sp, sc, dp, dc, s, tag)
		if i%3 == 0 {
			w.recvSetDenom(o, sp, sc, dp, dc, s, i%2 == 0, tag)
		}
	}
	w.decisionRecv(o, "transfer", "channel-3", "transfer", "channel-1", "transfer/channel-0", "witness-f5c")
	w.decisionRecv(o, "transfer", "chan-xyz12", "transfer", "channel-1", "transfer/chan-xyz12/uatom", "witness-f5c")

	// send decisions
	for i := 0; i < 2*n; i++ {
		port, channel := "transfer", "channel-"+r.Str(digits, 1, 2)
		var d transfertypes.Denom
		tag := "native"
		switch r.Intn(6) {
		case 0, 1:
			d = transfertypes.NewDenom(sdkShape(r))
		case 2:
			d, tag = transfertypes.NewDenom(sdkShape(r), transfertypes.NewHop(port, channel)), "voucher-returning"
		case 3:
			d, tag = genDenom(r), "voucher-forward"
		case 4:
			d, tag = transfertypes.NewDenom(r.Pick([]string{"foo/channel-5", "foo/channel-5/bar", "transfer/channel-1/stake", "transfer/" + channel + "/stake"})), "witness-f5c"
		default:
			d, tag = transfertypes.NewDenom(sdkShape(r), transfertypes.NewHop("transfer", chanIdent(r)), transfertypes.NewHop(portID(r), chanIdent(r))), "voucher-2hop"
		}
		w.decisionSend(o, d, port, channel, tag)
	}

	// real round trips
	trips := hx.N(30, 200)
	// (the last three look like hops only to a format check that ignores the 64-bit bound of the sequence: they are
	// ordinary bases and must make the round trip — seeded change C33-1)
	fixed := []string{"foo/channel-5", "foo/channel-5/bar", "gamm/pool/1", "factory/cosmos1xyz/sub", "uatom", "transfer/channel-7/stake",
		"pool/lp-99999999999999999999", "vault/channel-99999999999999999999", "gamm/lp-18446744073709551616/share"}
	for i := 0; i < trips; i++ {
		p := w.paths[r.Intn(len(w.paths))]
		base, tag := sdkShape(r), "shape"
		if i < len(fixed) {
			base, tag = fixed[i], "witness"
		}
		if base == "stake" {
			continue
		}
		amt := int64(1 + r.Intn(1000))
		back := amt
		if r.Chance(1, 3) {
			back = int64(1 + r.Intn(int(amt)))
		}
		w.roundTrip(o, p, base, amt+int64(r.Intn(50)), amt, back, tag)
	}

	famAuthz(w, r, o)
}
