package clients

import (
	"fmt"

	"github.com/cosmos/cosmos-sdk/codec"
	codectypes "github.com/cosmos/cosmos-sdk/codec/types"
	kmultisig "github.com/cosmos/cosmos-sdk/crypto/keys/multisig"
	"github.com/cosmos/cosmos-sdk/crypto/keys/secp256k1"
	cryptotypes "github.com/cosmos/cosmos-sdk/crypto/types"
	"github.com/cosmos/cosmos-sdk/crypto/types/multisig"
	sdk "github.com/cosmos/cosmos-sdk/types"
	"github.com/cosmos/cosmos-sdk/types/tx/signing"

	clientkeeper "github.com/cosmos/ibc-go/v11/modules/core/02-client/keeper"
	clienttypes "github.com/cosmos/ibc-go/v11/modules/core/02-client/types"
	commitmenttypes "github.com/cosmos/ibc-go/v11/modules/core/23-commitment/types"
	commitmenttypesv2 "github.com/cosmos/ibc-go/v11/modules/core/23-commitment/types/v2"
	host "github.com/cosmos/ibc-go/v11/modules/core/24-host"
	ibcexported "github.com/cosmos/ibc-go/v11/modules/core/exported"
	solomachine "github.com/cosmos/ibc-go/v11/modules/light-clients/06-solomachine"

	"verif/harness/hx"
)

// signer is one solo machine key: a single secp256k1 key or a LegacyAmino multisig over several.
type signer struct {
	privs []cryptotypes.PrivKey
	pub   cryptotypes.PubKey
	any   *codectypes.Any
	anyBz []byte
}

func newSigner(r *hx.Rng, n int) *signer {
	s := &signer{}
	pubs := make([]cryptotypes.PubKey, n)
	for i := 0; i < n; i++ {
		k := secp256k1.GenPrivKeyFromSecret(r.Bytes(32))
		s.privs = append(s.privs, k)
		pubs[i] = k.PubKey()
	}
	if n > 1 {
		s.pub = kmultisig.NewLegacyAminoPubKey(n, pubs)
	} else {
		s.pub = pubs[0]
	}
	a, err := codectypes.NewAnyWithValue(s.pub)
	if err != nil {
		panic(err)
	}
	s.any = a
	s.anyBz, err = a.Marshal()
	if err != nil {
		panic(err)
	}
	return s
}

// sign produces the marshalled signing.SignatureDescriptor_Data over msg; with corrupt > 0 one
// component signature is made over different bytes (so the result verifies for nobody).
func (s *signer) sign(cdc codec.BinaryCodec, msg []byte, corrupt bool) []byte {
	sigs := make([]signing.SignatureData, len(s.privs))
	for i, k := range s.privs {
		m := msg
		if corrupt && i == len(s.privs)-1 {
			m = append(append([]byte(nil), msg...), 0)
		}
		sig, err := k.Sign(m)
		if err != nil {
			panic(err)
		}
		sigs[i] = &signing.SingleSignatureData{Signature: sig}
	}
	var sd signing.SignatureData
	if len(sigs) == 1 {
		sd = sigs[0]
	} else {
		ms := multisig.NewMultisig(len(sigs))
		for i, sg := range sigs {
			multisig.AddSignature(ms, sg, i)
		}
		sd = ms
	}
	bz, err := cdc.Marshal(signing.SignatureDataToProto(sd))
	if err != nil {
		panic(err)
	}
	return bz
}

type fields struct {
	seq, ts uint64
	div     string
	path    []byte
	data    []byte
}

// soloHist is one history against one solo machine client.
type soloHist struct {
	e         *env
	cdc       codec.BinaryCodec
	ck        *clientkeeper.Keeper
	ctx       sdk.Context
	clientID  string
	keys      []*signer
	cur       *signer // key the harness believes is registered
	sigIDs    map[string]string
	sigTab    map[string][2]string // id -> (signer Any hex or "", signed message hex)
	sigBad    []string             // ids of signature bytes on which UnmarshalSignatureData panics
	old       []oldSig
	lastPanic string
	ops       []any
	outs      []any
}

type oldSig struct {
	sig []byte
	f   fields
	hdr *solomachine.Header
}

func (h *soloHist) sigID(sig []byte) string {
	if len(sig) == 0 {
		return ""
	}
	k := string(sig)
	if id, ok := h.sigIDs[k]; ok {
		return id
	}
	id := fmt.Sprintf("s%d", len(h.sigIDs))
	h.sigIDs[k] = id
	// input characterisation: does the SDK's SignatureDataFromProto panic on these bytes (no Sum set)?
	if p, _ := hx.Catch(func() { _, _ = solomachine.UnmarshalSignatureData(h.cdc, sig) }); p {
		h.sigBad = append(h.sigBad, id)
	}
	return id
}

// sumlessSigData returns signature-data bytes that unmarshal into a SignatureDescriptor_Data without a Sum.
func sumlessSigData(r *hx.Rng, cdc codec.BinaryCodec) []byte {
	switch r.Intn(3) {
	case 0:
		return []byte{0x18, byte(1 + r.Intn(100))} // unknown field 3 only
	case 1:
		bz, err := cdc.Marshal(&signing.SignatureDescriptor_Data{Sum: &signing.SignatureDescriptor_Data_Multi_{
			Multi: &signing.SignatureDescriptor_Data_Multi{Signatures: []*signing.SignatureDescriptor_Data{{}}}}})
		if err != nil {
			panic(err)
		}
		return bz
	default:
		return []byte{0x22, 0x01, byte(r.Intn(256))} // unknown length-delimited field 4
	}
}

func (h *soloHist) marshalSignBytes(f fields) []byte {
	bz, err := h.cdc.Marshal(&solomachine.SignBytes{Sequence: f.seq, Timestamp: f.ts, Diversifier: f.div, Path: f.path, Data: f.data})
	if err != nil {
		panic(err)
	}
	return bz
}

// signFields signs the sign bytes of f with k and records (signer, message) for the model.
func (h *soloHist) signFields(f fields, k *signer, corrupt bool) []byte {
	msg := h.marshalSignBytes(f)
	sig := k.sign(h.cdc, msg, corrupt)
	id := h.sigID(sig)
	who := hx.H(k.anyBz)
	if corrupt {
		who = ""
	}
	h.sigTab[id] = [2]string{who, hx.H(msg)}
	return sig
}

func (h *soloHist) state() *solomachine.ClientState {
	cs, ok := h.ck.GetClientState(h.ctx, h.clientID)
	if !ok {
		panic("solo machine client state not found")
	}
	return cs.(*solomachine.ClientState)
}

func (h *soloHist) observe(res string) map[string]any {
	cs := h.state()
	pk, err := cs.ConsensusState.PublicKey.Marshal()
	if err != nil {
		panic(err)
	}
	if res == "panic" {
		defer func() { h.lastPanic = "" }()
	}
	return map[string]any{"r": res, "panic": h.lastPanic, "seq": hx.U(cs.Sequence), "ts": hx.U(cs.ConsensusState.Timestamp), "frozen": cs.IsFrozen,
		"div": hx.HS(cs.ConsensusState.Diversifier), "pk": hx.H(pk),
		"status": h.ck.GetClientStatus(h.ctx, h.clientID).String()}
}

// run executes f on a branch of the context and keeps the writes only when it succeeds (what a transaction does).
func (h *soloHist) run(f func(ctx sdk.Context) error) string {
	res := "err"
	cctx, write := h.ctx.CacheContext()
	p, msg := hx.Catch(func() {
		if err := f(cctx); err == nil {
			res = "ok"
		}
	})
	if p {
		h.lastPanic = msg
		return "panic"
	}
	if res == "ok" {
		write()
	}
	return res
}

func stateJSON(cs *solomachine.ClientState) map[string]any {
	pk, err := cs.ConsensusState.PublicKey.Marshal()
	if err != nil {
		panic(err)
	}
	return map[string]any{"seq": hx.U(cs.Sequence), "ts": hx.U(cs.ConsensusState.Timestamp), "frozen": cs.IsFrozen,
		"div": hx.HS(cs.ConsensusState.Diversifier), "pk": hx.H(pk)}
}

func (h *soloHist) createClient(seq, ts uint64, div string, k *signer) string {
	cons := &solomachine.ConsensusState{PublicKey: k.any, Diversifier: div, Timestamp: ts}
	cs := solomachine.NewClientState(seq, cons)
	id, err := h.ck.CreateClient(h.ctx, ibcexported.Solomachine, h.cdc.MustMarshal(cs), h.cdc.MustMarshal(cons))
	if err != nil {
		panic(err)
	}
	return id
}

func mutU(r *hx.Rng, x uint64) uint64 {
	switch r.Intn(4) {
	case 0:
		return x + 1
	case 1:
		return x - 1
	case 2:
		return 0
	default:
		return r.U64B(x)
	}
}

// mutate changes exactly one sign-bytes field; returns the mutated copy and the field name.
func mutate(r *hx.Rng, f fields) (fields, string) {
	g := f
	g.path = append([]byte(nil), f.path...)
	g.data = append([]byte(nil), f.data...)
	switch r.Intn(5) {
	case 0:
		g.seq = mutU(r, f.seq)
		if g.seq == f.seq {
			g.seq++
		}
		return g, "sequence"
	case 1:
		g.ts = mutU(r, f.ts)
		if g.ts == f.ts {
			g.ts++
		}
		return g, "timestamp"
	case 2:
		g.div = r.Pick([]string{"", "div", f.div + "x", "other"})
		if g.div == f.div {
			g.div += "y"
		}
		return g, "diversifier"
	case 3:
		if len(g.path) > 0 && r.Bool() {
			g.path[r.Intn(len(g.path))] ^= 1
		} else {
			g.path = append(g.path, 'x')
		}
		return g, "path"
	default:
		if len(g.data) > 0 && r.Bool() {
			g.data[r.Intn(len(g.data))] ^= 0x80
		} else {
			g.data = append(g.data, 0)
		}
		return g, "data"
	}
}

var soloModes = []string{"valid", "mutate-signed-field", "replay", "wrong-key", "bad-signature", "timestamps", "structure",
	"misbehaviour", "misbehaviour-invalid", "recover", "wrap", "multisig"}

func (h *soloHist) sdJSON(s *solomachine.SignatureAndData) any {
	if s == nil {
		return nil
	}
	var mp commitmenttypesv2.MerklePath
	ok := h.cdc.Unmarshal(s.Path, &mp) == nil
	return map[string]any{"sig": h.sigID(s.Signature), "path": hx.H(s.Path), "path_ok": ok, "data": hx.H(s.Data), "ts": hx.U(s.Timestamp)}
}

func (h *soloHist) history(mode string) {
	r := h.e.r
	nkeys := 1
	if mode == "multisig" || r.Chance(1, 5) {
		nkeys = 2 + r.Intn(2)
	}
	h.keys = []*signer{newSigner(r, nkeys), newSigner(r, 1), newSigner(r, nkeys)}
	h.cur = h.keys[0]
	seq0 := uint64(1 + r.Intn(5))
	if mode == "wrap" {
		seq0 = ^uint64(0) - uint64(r.Intn(2))
	}
	ts0 := uint64(10 + r.Intn(5))
	div0 := r.Pick([]string{"", "diversifier", "d"})
	h.clientID = h.createClient(seq0, ts0, div0, h.cur)
	init := stateJSON(h.state())

	nops := 4 + r.Intn(6)
	for i := 0; i < nops; i++ {
		cs := h.state()
		seq, ts, div := cs.Sequence, cs.ConsensusState.Timestamp, cs.ConsensusState.Diversifier
		special := mode != "valid" && mode != "multisig" && mode != "wrap" && r.Chance(1, 2)
		kind := r.Intn(10)
		switch {
		case mode == "misbehaviour" && special || mode == "misbehaviour-invalid" && special:
			h.opMisbehaviour(seq, ts, div, mode == "misbehaviour-invalid")
		case mode == "recover" && special:
			h.opRecover(seq)
		case kind < 3:
			h.opUpdate(seq, ts, div, mode, special)
		case kind < 7:
			h.opVerify(seq, ts, div, mode, special, false)
		default:
			h.opVerify(seq, ts, div, mode, special, true)
		}
	}
	if h.sigBad == nil {
		h.sigBad = []string{}
	}
	in := map[string]any{"init": init, "ops": h.ops, "sigs": h.sigTab, "malformed": h.sigBad}
	h.e.o.Emit("solo_history", in, h.outs, mode)
}

func (h *soloHist) pickOld() *oldSig {
	if len(h.old) == 0 {
		return nil
	}
	return &h.old[h.e.r.Intn(len(h.old))]
}

// opUpdate submits a header (MsgUpdateClient.ValidateBasic, then keeper.UpdateClient).
func (h *soloHist) opUpdate(seq, ts uint64, div, mode string, special bool) {
	r := h.e.r
	next := h.keys[r.Intn(len(h.keys))]
	newDiv := r.Pick([]string{div, "rotated", "", "d2"})
	hts := ts + uint64(r.Intn(3))
	hdr := &solomachine.Header{Timestamp: hts, NewPublicKey: next.any, NewDiversifier: newDiv}
	dataOf := func(pk *codectypes.Any, d string) []byte {
		bz, err := h.cdc.Marshal(&solomachine.HeaderData{NewPubKey: pk, NewDiversifier: d})
		if err != nil {
			panic(err)
		}
		return bz
	}
	f := fields{seq: seq, ts: hts, div: div, path: []byte(solomachine.SentinelHeaderPath), data: dataOf(next.any, newDiv)}
	key := h.cur
	corrupt := false
	note := "valid"
	if special {
		switch mode {
		case "mutate-signed-field":
			switch r.Intn(7) {
			case 5:
				f.data = dataOf(h.keys[1].any, newDiv+"x")
				note = "signed-other-header-data"
			case 6:
				f.data = dataOf(next.any, newDiv+"x")
				note = "signed-other-new-diversifier"
			default:
				f, note = mutate(r, f)
			}
		case "replay":
			if o := h.pickOld(); o != nil && o.hdr != nil && r.Bool() {
				// the old header as it was
				h.submitHeader(o.hdr, "replay-old-header")
				return
			} else if o != nil {
				hdr.Signature = o.sig
				h.submitHeader(hdr, "replay-old-signature")
				return
			}
		case "wrong-key":
			key = h.keys[1]
			if key == h.cur {
				key = h.keys[2]
			}
			note = "wrong-key"
		case "bad-signature":
			switch r.Intn(4) {
			case 0:
				corrupt = true
				note = "corrupt-signature"
			case 1:
				hdr.Signature = r.Bytes(1 + r.Intn(70))
				note := "garbage-signature"
				if r.Chance(1, 3) {
					hdr.Signature, note = sumlessSigData(r, h.cdc), "sumless-signature-data"
				}
				h.submitHeader(hdr, note)
				return
			case 2:
				hdr.Signature = nil
				h.submitHeader(hdr, "empty-signature")
				return
			default:
				// signature data of the other kind (single vs multi)
				key = h.keys[1]
				if len(h.cur.privs) == 1 {
					key = newSigner(r, 2)
				}
				note = "signature-kind-mismatch"
			}
		case "timestamps":
			switch r.Intn(4) {
			case 0:
				hts = ts - 1
				note = "ts-below-consensus"
			case 1:
				hts = ts
				note = "ts-equal"
			case 2:
				hts = 0
				note = "ts-zero"
			default:
				hts = ts + 1 + r.U64B()>>uint(1+r.Intn(40))
				note = "ts-jump"
			}
			hdr.Timestamp = hts
			f.ts = hts
		case "structure":
			switch r.Intn(3) {
			case 0:
				hdr.NewPublicKey = nil
				note = "nil-new-key"
			case 1:
				hdr.NewDiversifier = r.Pick([]string{" ", "  ", "\t", " \n "})
				f.data = dataOf(next.any, hdr.NewDiversifier)
				note = "blank-diversifier"
			default:
				hdr.NewDiversifier = " x "
				f.data = dataOf(next.any, hdr.NewDiversifier)
				note = "spaced-diversifier"
			}
		}
	}
	hdr.Signature = h.signFields(f, key, corrupt)
	h.old = append(h.old, oldSig{sig: hdr.Signature, f: f, hdr: hdr})
	if h.submitHeader(hdr, note) == "ok" {
		h.cur = next
	}
}

func (h *soloHist) submitHeader(hdr *solomachine.Header, note string) string {
	var pk any
	if hdr.NewPublicKey != nil {
		bz, err := hdr.NewPublicKey.Marshal()
		if err != nil {
			panic(err)
		}
		pk = hx.H(bz)
	}
	h.ops = append(h.ops, map[string]any{"op": "update", "ts": hx.U(hdr.Timestamp), "sig": h.sigID(hdr.Signature), "newpk": pk,
		"newdiv": hx.HS(hdr.NewDiversifier), "note": note})
	res := h.run(func(ctx sdk.Context) error {
		if err := hdr.ValidateBasic(); err != nil {
			return err
		}
		return h.ck.UpdateClient(ctx, h.clientID, hdr)
	})
	h.outs = append(h.outs, h.observe(res))
	return res
}

var soloKeys = []string{"clients/07-tendermint-0/clientState", "connections/connection-0", "commitments/p/c/1", "receipts/p/c/1", "k", ""}

// opVerify calls keeper.VerifyMembership / VerifyNonMembership.
func (h *soloHist) opVerify(seq, ts uint64, div, mode string, special, nonmember bool) {
	r := h.e.r
	key := []byte(r.Pick(soloKeys[:len(soloKeys)-1]))
	value := r.Bytes(1 + r.Intn(12))
	if nonmember {
		value = nil
	}
	pts := ts + uint64(r.Intn(3))
	keypath := [][]byte{[]byte("ibc"), key}
	var path ibcexported.Path
	f := fields{seq: seq, ts: pts, div: div, path: key, data: value}
	signerKey := h.cur
	corrupt := false
	note := "valid"
	var proof []byte
	haveProof := false
	if special {
		switch mode {
		case "mutate-signed-field":
			f, note = mutate(r, f)
			if nonmember && note == "data" {
				note = "signed-membership-for-non-membership"
			}
		case "replay":
			if o := h.pickOld(); o != nil {
				if r.Bool() && o.hdr == nil {
					// the complete old verification: same path, value and timestamp
					key, pts = o.f.path, o.f.ts
					keypath = [][]byte{[]byte("ibc"), key}
					if !nonmember {
						value = o.f.data
					}
					note = "replay-old-proof-same-arguments"
				} else {
					note = "replay-old-signature"
				}
				bz, err := h.cdc.Marshal(&solomachine.TimestampedSignatureData{SignatureData: o.sig, Timestamp: pts})
				if err != nil {
					panic(err)
				}
				proof, haveProof = bz, true
			}
		case "wrong-key":
			signerKey = h.keys[1]
			if signerKey == h.cur {
				signerKey = h.keys[2]
			}
			note = "wrong-key"
		case "bad-signature":
			switch r.Intn(4) {
			case 0:
				corrupt = true
				note = "corrupt-signature"
			case 1:
				sd, nt := r.Bytes(1+r.Intn(70)), "garbage-signature"
				if r.Chance(1, 3) {
					sd, nt = sumlessSigData(r, h.cdc), "sumless-signature-data"
				}
				bz, _ := h.cdc.Marshal(&solomachine.TimestampedSignatureData{SignatureData: sd, Timestamp: pts})
				proof, haveProof, note = bz, true, nt
			case 2:
				bz, _ := h.cdc.Marshal(&solomachine.TimestampedSignatureData{SignatureData: nil, Timestamp: pts})
				proof, haveProof, note = bz, true, "empty-signature-data"
			default:
				proof, haveProof, note = [][]byte{nil, {}, {0xff, 0xff, 0xff}, r.Bytes(1 + r.Intn(20))}[r.Intn(4)], true, "proof-nil-or-garbage"
			}
		case "timestamps":
			switch r.Intn(4) {
			case 0:
				pts = ts - 1
				note = "ts-below-consensus"
			case 1:
				pts = ts
				note = "ts-equal"
			case 2:
				pts = 0
				note = "ts-zero"
			default:
				pts = ts + 1 + r.U64B()>>uint(1+r.Intn(40))
				note = "ts-jump"
			}
			f.ts = pts
		case "structure":
			switch r.Intn(5) {
			case 0:
				keypath = [][]byte{key}
				note = "path-len-1"
			case 1:
				keypath = [][]byte{[]byte("ibc"), key, []byte("x")}
				note = "path-len-3"
			case 2:
				path = otherPath{}
				note = "path-other-type"
			case 3:
				key = []byte{}
				keypath = [][]byte{[]byte("ibc"), key}
				f.path = key
				note = "empty-key"
			default:
				if !nonmember {
					value = [][]byte{nil, {}}[r.Intn(2)]
					f.data = value
					note = "empty-value"
				}
			}
		}
	}
	if path == nil {
		path = commitmenttypesv2.MerklePath{KeyPath: keypath}
	}
	if !haveProof {
		sig := h.signFields(f, signerKey, corrupt)
		h.old = append(h.old, oldSig{sig: sig, f: f})
		bz, err := h.cdc.Marshal(&solomachine.TimestampedSignatureData{SignatureData: sig, Timestamp: pts})
		if err != nil {
			panic(err)
		}
		proof = bz
	}
	// what the proof is, structurally (the protobuf decoding of the proof is not modelled)
	var pj any
	if proof != nil {
		var tsd solomachine.TimestampedSignatureData
		if err := h.cdc.Unmarshal(proof, &tsd); err != nil {
			pj = "bad"
		} else {
			pj = map[string]any{"sd": h.sigID(tsd.SignatureData), "ts": hx.U(tsd.Timestamp)}
		}
	}
	var kp any
	if _, ok := path.(commitmenttypesv2.MerklePath); ok {
		l := []string{}
		for _, k := range keypath {
			l = append(l, hx.H(k))
		}
		kp = l
	}
	op := map[string]any{"op": "vm", "proof": pj, "path": kp, "value": hx.H(value), "note": note}
	if nonmember {
		op["op"] = "vnm"
	}
	h.ops = append(h.ops, op)
	height := clienttypes.NewHeight(r.U64B(), r.U64B())
	res := h.run(func(ctx sdk.Context) error {
		if nonmember {
			return h.ck.VerifyNonMembership(ctx, h.clientID, height, 0, 0, proof, path)
		}
		return h.ck.VerifyMembership(ctx, h.clientID, height, 0, 0, proof, path, value)
	})
	h.outs = append(h.outs, h.observe(res))
}

// opMisbehaviour submits two signatures for one sequence.
func (h *soloHist) opMisbehaviour(seq, ts uint64, div string, invalid bool) {
	r := h.e.r
	mp := func(k []byte) []byte {
		m := commitmenttypes.NewMerklePath(k)
		bz, err := h.cdc.Marshal(&m)
		if err != nil {
			panic(err)
		}
		return bz
	}
	mseq := seq
	if r.Chance(1, 3) {
		mseq = uint64(1 + r.Intn(8)) // past or future sequences are processed as well
	}
	p1, p2 := mp(host.FullClientStateKey("counterparty")), mp(host.FullConsensusStateKey("counterparty", clienttypes.NewHeight(0, 1)))
	d1, d2 := r.Bytes(1+r.Intn(10)), r.Bytes(1+r.Intn(10))
	t1, t2 := uint64(1+r.Intn(20)), uint64(1+r.Intn(20))
	k1, k2 := h.cur, h.cur
	c1, c2 := false, false
	note := "valid"
	if r.Chance(1, 4) {
		p2 = p1
		note = "same-path-different-data"
	}
	if invalid {
		switch r.Intn(12) {
		case 0:
			p2, d2 = p1, d1
			note = "same-path-and-data"
		case 1:
			c1 = true
			note = "first-signature-corrupt"
		case 2:
			c2 = true
			note = "second-signature-corrupt"
		case 3:
			k2 = h.keys[1]
			if k2 == h.cur {
				k2 = h.keys[2]
			}
			note = "second-signature-wrong-key"
		case 4:
			mseq = 0
			note = "sequence-zero"
		case 5:
			t2 = 0
			note = "timestamp-zero"
		case 6:
			d1 = nil
			note = "data-empty"
		case 7:
			p1 = []byte("clients/07-tendermint-0/clientState\xff")
			note = "path-not-a-merkle-path"
		case 8:
			p2 = nil
			note = "path-empty"
		case 9:
			note = "nil-signature-and-data"
		case 10:
			note = "signed-for-other-sequence"
		default:
			note = "identical-signatures"
		}
	}
	f1 := fields{seq: mseq, ts: t1, div: div, path: p1, data: d1}
	f2 := fields{seq: mseq, ts: t2, div: div, path: p2, data: d2}
	if note == "signed-for-other-sequence" {
		f2.seq = mseq + 1
	}
	s1 := &solomachine.SignatureAndData{Signature: h.signFields(f1, k1, c1), Path: p1, Data: d1, Timestamp: t1}
	s2 := &solomachine.SignatureAndData{Signature: h.signFields(f2, k2, c2), Path: p2, Data: d2, Timestamp: t2}
	if invalid && note == "second-signature-corrupt" && r.Bool() {
		s2.Signature = sumlessSigData(r, h.cdc)
		note = "second-signature-sumless"
	}
	if invalid && note == "first-signature-corrupt" && r.Bool() {
		s1.Signature = nil
		note = "first-signature-empty"
	}
	switch note {
	case "identical-signatures":
		s2 = &solomachine.SignatureAndData{Signature: s1.Signature, Path: p2, Data: d2, Timestamp: t2}
	case "nil-signature-and-data":
		if r.Bool() {
			s1 = nil
		} else {
			s2 = nil
		}
	}
	mb := &solomachine.Misbehaviour{Sequence: mseq, SignatureOne: s1, SignatureTwo: s2}
	h.ops = append(h.ops, map[string]any{"op": "mb", "seq": hx.U(mseq), "s1": h.sdJSON(s1), "s2": h.sdJSON(s2), "note": note})
	res := h.run(func(ctx sdk.Context) error {
		if err := mb.ValidateBasic(); err != nil {
			return err
		}
		return h.ck.UpdateClient(ctx, h.clientID, mb)
	})
	h.outs = append(h.outs, h.observe(res))
}

// opRecover calls keeper.RecoverClient with a substitute solo machine client.
func (h *soloHist) opRecover(seq uint64) {
	r := h.e.r
	note := "valid"
	subKey := h.keys[1]
	if subKey == h.cur {
		subKey = h.keys[2]
	}
	subSeq := seq + 1 + uint64(r.Intn(3))
	subTs := uint64(1 + r.Intn(30)) // may be lower than the subject's
	frozenSub := false
	subID := ""
	switch r.Intn(7) {
	case 0:
		subSeq = seq
		note = "substitute-same-height"
	case 1:
		if seq > 1 {
			subSeq = seq - 1
		}
		note = "substitute-lower-height"
	case 2:
		subKey = h.cur
		note = "substitute-same-key"
	case 3:
		frozenSub = true
		note = "substitute-frozen"
	case 4:
		subID = "06-solomachine-999"
		note = "substitute-missing"
	default:
	}
	var sub any
	if subID == "" {
		subID = h.createClient(subSeq, subTs, r.Pick([]string{"", "sub"}), subKey)
		if frozenSub {
			cs, _ := h.ck.GetClientState(h.ctx, subID)
			sm := cs.(*solomachine.ClientState)
			sm.IsFrozen = true
			h.ck.ClientStore(h.ctx, subID).Set(host.ClientStateKey(), clienttypes.MustMarshalClientState(h.cdc, sm))
		}
		cs, _ := h.ck.GetClientState(h.ctx, subID)
		sub = stateJSON(cs.(*solomachine.ClientState))
	}
	if !h.state().IsFrozen && note == "valid" {
		note = "subject-active"
	}
	h.ops = append(h.ops, map[string]any{"op": "recover", "sub": sub, "note": note})
	res := h.run(func(ctx sdk.Context) error { return h.ck.RecoverClient(ctx, h.clientID, subID) })
	if res == "ok" {
		h.cur = subKey
	}
	h.outs = append(h.outs, h.observe(res))
}

// famSolo: sign-bytes encoding records and solo machine histories.
func famSolo(e *env) {
	r := e.r
	cdc := e.chain.App.AppCodec()
	ck := e.chain.App.GetIBCKeeper().ClientKeeper

	// the protobuf encoding the signatures are made over
	n := hx.N(200, 1500)
	k := newSigner(r, 1)
	for i := 0; i < n; i++ {
		f := fields{seq: r.U64B(), ts: r.U64B(), div: r.Pick([]string{"", "d", "diversifier", "\x08\x10"}), path: r.Bytes(r.Intn(24)), data: r.Bytes(r.Intn(40))}
		if r.Chance(1, 5) {
			f.path = nil
		}
		if r.Chance(1, 12) {
			f.data = make([]byte, 120+r.Intn(20)) // two-byte length varint, zero bytes
		}
		bz, err := cdc.Marshal(&solomachine.SignBytes{Sequence: f.seq, Timestamp: f.ts, Diversifier: f.div, Path: f.path, Data: f.data})
		if err != nil {
			panic(err)
		}
		e.o.Emit("sm_signbytes", []any{hx.U(f.seq), hx.U(f.ts), hx.HS(f.div), hx.H(f.path), hx.H(f.data)}, hx.H(bz))
	}
	for i := 0; i < n/5; i++ {
		var pk *codectypes.Any
		var pkj any
		if !r.Chance(1, 5) {
			pk = newSigner(r, 1+r.Intn(3)).any
			if r.Chance(1, 6) {
				pk = &codectypes.Any{}
			}
			bz, _ := pk.Marshal()
			pkj = hx.H(bz)
		}
		div := r.Pick([]string{"", "d", "diversifier"})
		bz, err := cdc.Marshal(&solomachine.HeaderData{NewPubKey: pk, NewDiversifier: div})
		if err != nil {
			panic(err)
		}
		e.o.Emit("sm_headerdata", []any{pkj, hx.HS(div)}, hx.H(bz))
	}
	_ = k

	m := hx.N(192, 1500)
	for i := 0; i < m; i++ {
		ctx, _ := e.ctx.CacheContext()
		h := &soloHist{e: e, cdc: cdc, ck: ck, ctx: ctx, sigIDs: map[string]string{}, sigTab: map[string][2]string{}}
		h.history(soloModes[i%len(soloModes)])
	}
}
