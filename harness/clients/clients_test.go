// Package clients is the `clients` scenario family: the non-tendermint light clients
// (06-solomachine C26, 09-localhost C27, attestations C28) driven through the real 02-client keeper
// of a simapp chain, with real secp256k1 / multisig keys.
package clients

import (
	"sort"
	"testing"

	sdk "github.com/cosmos/cosmos-sdk/types"

	ibctesting "github.com/cosmos/ibc-go/v11/testing"

	"verif/harness/hx"
)

type env struct {
	t     *testing.T
	r     *hx.Rng
	chain *ibctesting.TestChain
	ctx   sdk.Context
	o     *buffer
}

// buffer collects the records of all sub-families and writes them interleaved (record j of n of a kind
// at relative position (j+0.5)/n), so that every Coq shard of the driver gets a similar mix of cheap and
// expensive records.
type buffer struct {
	byKind map[string][]hx.Rec
	kinds  []string
}

func (b *buffer) Emit(k string, in, out any, tag ...string) {
	r := hx.Rec{K: k, In: in, Out: out}
	if len(tag) > 0 {
		r.Tag = tag[0]
	}
	if _, ok := b.byKind[k]; !ok {
		b.kinds = append(b.kinds, k)
	}
	b.byKind[k] = append(b.byKind[k], r)
}

func (b *buffer) flush(o *hx.Out) {
	type item struct {
		pos float64
		ord int
		r   hx.Rec
	}
	var items []item
	for ki, k := range b.kinds {
		n := len(b.byKind[k])
		for j, r := range b.byKind[k] {
			items = append(items, item{pos: (float64(j) + 0.5) / float64(n), ord: ki, r: r})
		}
	}
	sort.SliceStable(items, func(i, j int) bool {
		if items[i].pos != items[j].pos {
			return items[i].pos < items[j].pos
		}
		return items[i].ord < items[j].ord
	})
	for _, it := range items {
		o.Emit(it.r.K, it.r.In, it.r.Out, it.r.Tag)
	}
}

// hp renders a possibly-nil byte slice: nil -> JSON null, otherwise hex.
func hp(b []byte) any {
	if b == nil {
		return nil
	}
	return hx.H(b)
}

// TestFamily writes the trace of the `clients` scenario family.
func TestFamily(t *testing.T) {
	r := hx.NewRng("clients")
	o := hx.NewOut()
	defer o.Close()
	coord := ibctesting.NewCoordinator(t, 2)
	chain := coord.GetChain(ibctesting.GetChainID(1))
	// a path gives the IBC store realistic contents (clients, connections, channels)
	path := ibctesting.NewPath(chain, coord.GetChain(ibctesting.GetChainID(2)))
	path.Setup()
	e := &env{t: t, r: r, o: &buffer{byKind: map[string][]hx.Rec{}}, chain: chain, ctx: chain.GetContext()}
	famLocalhost(e)
	famSolo(e)
	famAttest(e)
	e.o.flush(o)
	t.Logf("records=%d", o.Count())
}
