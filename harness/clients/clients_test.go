// Package clients is the `clients` scenario family: the non-tendermint light clients
// (06-solomachine C26, 09-localhost C27, attestations C28) driven through the real 02-client keeper
// of a simapp chain, with real secp256k1 / multisig keys.
package clients

import (
	"testing"

	sdk "github.com/cosmos/cosmos-sdk/types"

	ibctesting "github.com/cosmos/ibc-go/v11/testing"

	"verif/harness/hx"
)

type env struct {
	t     *testing.T
	r     *hx.Rng
	o     *hx.Out
	chain *ibctesting.TestChain
	ctx   sdk.Context
}

// hp renders a possibly-nil byte slice: nil -> JSON null, otherwise hex.
func hp(b []byte) any {
	if b == nil {
		return nil
	}
	return hx.H(b)
}

// TestFamily writes the trace of the `clients` scenario family.
func TestFamily(t *testing.T) {
	r := hx.NewRng("clients")
	o := hx.NewOut()
	defer o.Close()
	coord := ibctesting.NewCoordinator(t, 2)
	chain := coord.GetChain(ibctesting.GetChainID(1))
	// a path gives the IBC store realistic contents (clients, connections, channels)
	path := ibctesting.NewPath(chain, coord.GetChain(ibctesting.GetChainID(2)))
	path.Setup()
	e := &env{t: t, r: r, o: o, chain: chain, ctx: chain.GetContext()}
	famLocalhost(e)
	famSolo(e)
	famAttest(e)
	t.Logf("records=%d", o.Count())
}
