package clients

import (
	"crypto/ecdsa"
	"fmt"
	"sort"

	"github.com/ethereum/go-ethereum/common"
	"github.com/ethereum/go-ethereum/crypto"

	"github.com/cosmos/cosmos-sdk/codec"
	sdk "github.com/cosmos/cosmos-sdk/types"

	clientkeeper "github.com/cosmos/ibc-go/v11/modules/core/02-client/keeper"
	clienttypes "github.com/cosmos/ibc-go/v11/modules/core/02-client/types"
	commitmenttypesv2 "github.com/cosmos/ibc-go/v11/modules/core/23-commitment/types/v2"
	ibcexported "github.com/cosmos/ibc-go/v11/modules/core/exported"
	solomachine "github.com/cosmos/ibc-go/v11/modules/light-clients/06-solomachine"
	"github.com/cosmos/ibc-go/v11/modules/light-clients/attestations"

	"verif/harness/hx"
)

type attestor struct {
	key  *ecdsa.PrivateKey
	addr common.Address
}

func newAttestor(r *hx.Rng) *attestor {
	for {
		k, err := crypto.ToECDSA(r.Bytes(32))
		if err == nil {
			return &attestor{key: k, addr: crypto.PubkeyToAddress(k.PublicKey)}
		}
	}
}

// attHist is one history against one attestations client. Everything the model cannot compute
// (secp256k1 recovery, keccak, ABI decoding) is recorded in tables keyed by the exact inputs.
type attHist struct {
	e         *env
	cdc       codec.BinaryCodec
	ck        *clientkeeper.Keeper
	ctx       sdk.Context
	clientID  string
	attestors []*attestor // configured
	strangers []*attestor
	minSigs   uint32
	tags      []attestations.AttestationType // domain tags for which recovery results are recorded
	recs      map[string][3]any              // "hash|sig" -> [hash hex, sig hex, addr hex or nil]
	keccaks   map[string]string              // input hex -> keccak hex
	decP      map[string]any                 // data hex -> decoded packet attestation or nil
	decS      map[string]any                 // data hex -> decoded state attestation or nil
	oldState  []*attestations.AttestationProof
	oldPacket []*attestations.AttestationProof
	ops       []any
	outs      []any
}

func sigV(sig []byte, v byte) []byte {
	s := append([]byte(nil), sig...)
	s[64] = v
	return s
}

// recordRecover records what go-ethereum recovers from (hash, normalised sig) for both domain tags of data.
func (h *attHist) recordRecover(data []byte, sig []byte) {
	if len(sig) != attestations.SignatureLength {
		return
	}
	for _, tag := range h.tags {
		hash := attestations.TaggedSigningInput(data, tag)
		norm := append([]byte(nil), sig...)
		switch norm[64] {
		case 27:
			norm[64] = 0
		case 28:
			norm[64] = 1
		}
		var addr any
		var pub *ecdsa.PublicKey
		var err error
		hx.Catch(func() { pub, err = crypto.SigToPub(hash[:], norm) })
		if err == nil && pub != nil {
			a := crypto.PubkeyToAddress(*pub)
			addr = hx.H(a[:])
		}
		h.recs[hx.H(hash[:])+"|"+hx.H(norm)] = [3]any{hx.H(hash[:]), hx.H(norm), addr}
	}
}

func (h *attHist) recordData(data []byte) {
	k := hx.H(data)
	if _, ok := h.decP[k]; ok {
		return
	}
	var pj, sj any
	if pa, err := attestations.ABIDecodePacketAttestation(data); err == nil {
		pk := [][2]string{}
		for _, p := range pa.Packets {
			pk = append(pk, [2]string{hx.H(p.Path), hx.H(p.Commitment)})
		}
		pj = map[string]any{"height": hx.U(pa.Height), "packets": pk}
	}
	if sa, err := attestations.ABIDecodeStateAttestation(data); err == nil {
		sj = []string{hx.U(sa.Height), hx.U(sa.Timestamp)}
	}
	h.decP[k] = pj
	h.decS[k] = sj
}

func (h *attHist) keccak(b []byte) []byte {
	k := crypto.Keccak256(b)
	h.keccaks[hx.H(b)] = hx.H(k)
	return k
}

// signWith signs tagged(data, tag) with each signer.
func (h *attHist) signWith(data []byte, tag attestations.AttestationType, signers []*attestor) [][]byte {
	hash := attestations.TaggedSigningInput(data, tag)
	out := [][]byte{}
	for _, s := range signers {
		sig, err := crypto.Sign(hash[:], s.key)
		if err != nil {
			panic(err)
		}
		out = append(out, sig)
	}
	return out
}

func (h *attHist) state() *attestations.ClientState {
	cs, ok := h.ck.GetClientState(h.ctx, h.clientID)
	if !ok {
		panic("attestations client not found")
	}
	return cs.(*attestations.ClientState)
}

func (h *attHist) consensus() [][2]string {
	out := [][2]string{}
	var hs []clienttypes.Height
	h.ck.IterateConsensusStates(h.ctx, func(clientID string, cs clienttypes.ConsensusStateWithHeight) bool {
		if clientID == h.clientID {
			hs = append(hs, cs.Height)
		}
		return false
	})
	sort.Slice(hs, func(i, j int) bool { return hs[i].LT(hs[j]) })
	for _, ht := range hs {
		c, ok := h.ck.GetClientConsensusState(h.ctx, h.clientID, ht)
		if !ok {
			continue
		}
		if ht.RevisionNumber != 0 {
			panic("attestations consensus state with non-zero revision")
		}
		out = append(out, [2]string{hx.U(ht.RevisionHeight), hx.U(c.(*attestations.ConsensusState).Timestamp)})
	}
	return out
}

func (h *attHist) observe(res string) map[string]any {
	cs := h.state()
	return map[string]any{"r": res, "latest": hx.U(cs.LatestHeight), "frozen": cs.IsFrozen, "cons": h.consensus(),
		"status": h.ck.GetClientStatus(h.ctx, h.clientID).String()}
}

func (h *attHist) run(f func(ctx sdk.Context) error) string {
	res := "err"
	cctx, write := h.ctx.CacheContext()
	p, _ := hx.Catch(func() {
		if err := f(cctx); err == nil {
			res = "ok"
		}
	})
	if p {
		return "panic"
	}
	if res == "ok" {
		write()
	}
	return res
}

func sigsJSON(sigs [][]byte) []string {
	out := []string{}
	for _, s := range sigs {
		out = append(out, hx.H(s))
	}
	return out
}

var attModes = []string{"valid", "signature-lists", "wrong-tag", "membership", "non-membership", "conflict", "frozen", "quorum", "malformed", "heights", "heights"}

// mutateSigs produces the signature-list shapes the property names. quorumSigners are valid signers.
func (h *attHist) mutateSigs(data []byte, tag attestations.AttestationType, note *string) [][]byte {
	r := h.e.r
	q := int(h.minSigs)
	perm := r.Intn(len(h.attestors))
	pick := func(n int) []*attestor {
		out := []*attestor{}
		for i := 0; i < n && i < len(h.attestors); i++ {
			out = append(out, h.attestors[(perm+i)%len(h.attestors)])
		}
		return out
	}
	sigs := h.signWith(data, tag, pick(q+r.Intn(len(h.attestors)-q+1)))
	switch r.Intn(14) {
	case 0:
		*note = "duplicate-signature"
		sigs = append(sigs, sigs[r.Intn(len(sigs))])
	case 1:
		*note = "duplicate-signer-other-v"
		d := sigs[r.Intn(len(sigs))]
		sigs = append(sigs, sigV(d, d[64]+27))
	case 2:
		*note = "stranger-added"
		sigs = append(sigs, h.signWith(data, tag, h.strangers[:1])...)
	case 3:
		*note = "stranger-replaces"
		sigs[r.Intn(len(sigs))] = h.signWith(data, tag, h.strangers[:1])[0]
	case 4:
		*note = "sig-64-bytes"
		i := r.Intn(len(sigs))
		sigs[i] = sigs[i][:64]
	case 5:
		*note = "sig-66-bytes"
		i := r.Intn(len(sigs))
		sigs[i] = append(append([]byte(nil), sigs[i]...), 0)
	case 6:
		*note = "v-27-28"
		for i := range sigs {
			sigs[i] = sigV(sigs[i], sigs[i][64]+27)
		}
	case 7:
		*note = "v-flipped"
		i := r.Intn(len(sigs))
		sigs[i] = sigV(sigs[i], sigs[i][64]^1)
	case 8:
		*note = "v-invalid"
		i := r.Intn(len(sigs))
		sigs[i] = sigV(sigs[i], []byte{2, 3, 4, 26, 29, 255}[r.Intn(6)])
	case 9:
		*note = "below-quorum"
		sigs = h.signWith(data, tag, pick(q-1))
	case 10:
		*note = "exactly-quorum"
		sigs = h.signWith(data, tag, pick(q))
	case 11:
		*note = "all-attestors"
		sigs = h.signWith(data, tag, pick(len(h.attestors)))
	case 12:
		*note = "signature-corrupted"
		i := r.Intn(len(sigs))
		sigs[i] = append([]byte(nil), sigs[i]...)
		sigs[i][r.Intn(64)] ^= 1 << uint(r.Intn(8))
	default:
		*note = "no-signatures"
		sigs = [][]byte{}
	}
	return sigs
}

func (h *attHist) stateData(height, tsSeconds uint64) []byte {
	bz, err := (&attestations.StateAttestation{Height: height, Timestamp: tsSeconds * 1_000_000_000}).ABIEncode()
	if err != nil {
		panic(err)
	}
	return bz
}

func (h *attHist) opUpdate(mode string, special bool) {
	r := h.e.r
	cs := h.state()
	cons := h.consensus()
	height := cs.LatestHeight + uint64(r.Intn(3))
	if r.Chance(1, 4) && cs.LatestHeight > 1 {
		height = cs.LatestHeight - 1 - uint64(r.Intn(int(min64(int64(cs.LatestHeight-1), 3))))
	}
	ts := uint64(1000 + r.Intn(1000))
	note := "valid"
	// an already stored height with the same timestamp is a no-op update; with another it is misbehaviour
	if len(cons) > 0 && (mode == "conflict" && special || r.Chance(1, 6)) {
		c := cons[r.Intn(len(cons))]
		fmt.Sscan(c[0], &height)
		var stored uint64
		fmt.Sscan(c[1], &stored)
		if r.Bool() {
			ts = stored / 1_000_000_000
			note = "stored-height-same-timestamp"
		} else {
			note = "stored-height-conflicting-timestamp"
			if ts == stored/1_000_000_000 {
				ts++
			}
		}
	}
	data := h.stateData(height, ts)
	tag := attestations.AttestationTypeState
	var sigs [][]byte
	all := func() [][]byte {
		return h.signWith(data, tag, h.attestors[:int(h.minSigs)+r.Intn(len(h.attestors)-int(h.minSigs)+1)])
	}
	var msg ibcexported.ClientMessage
	if special {
		switch mode {
		case "signature-lists", "quorum":
			sigs = h.mutateSigs(data, tag, &note)
		case "wrong-tag":
			switch r.Intn(3) {
			case 0:
				note = "signed-with-packet-tag"
				tag = attestations.AttestationTypePacket
			case 1:
				note = "signed-untagged-sha256"
				tag = 0
			default:
				if len(h.oldPacket) > 0 {
					o := h.oldPacket[r.Intn(len(h.oldPacket))]
					data, sigs = o.AttestationData, o.Signatures
					note = "packet-attestation-replayed-as-update"
				}
			}
			if sigs == nil {
				sigs = all()
			}
		case "malformed":
			switch r.Intn(5) {
			case 0:
				data = nil
				note = "empty-data"
			case 1:
				data = r.Bytes(1 + r.Intn(100))
				note = "garbage-data"
			case 2:
				data = append(data, r.Bytes(32)...)
				note = "trailing-data"
			case 3:
				data = data[:32+r.Intn(31)]
				note = "truncated-data"
			default:
				msg = &solomachine.Header{Timestamp: 1}
				note = "other-message-type"
			}
			sigs = all()
		}
	}
	if sigs == nil {
		sigs = all()
	}
	proof := &attestations.AttestationProof{AttestationData: data, Signatures: sigs}
	if msg == nil {
		msg = proof
		h.oldState = append(h.oldState, proof)
	}
	h.recordData(data)
	for _, s := range sigs {
		h.recordRecover(data, s)
	}
	op := map[string]any{"op": "update", "data": hx.H(data), "sigs": sigsJSON(sigs), "note": note}
	if _, ok := msg.(*attestations.AttestationProof); !ok {
		op = map[string]any{"op": "update-other", "note": note}
	}
	h.ops = append(h.ops, op)
	res := h.run(func(ctx sdk.Context) error {
		if err := msg.ValidateBasic(); err != nil {
			return err
		}
		return h.ck.UpdateClient(ctx, h.clientID, msg)
	})
	h.outs = append(h.outs, h.observe(res))
}

var attKeys = []string{"commitments/ports/transfer/channels/channel-0/sequences/1", "receipts/ports/transfer/channels/channel-0/sequences/1",
	"acks/ports/transfer/channels/channel-0/sequences/2", "k"}

// heightCase forces the (proof height, attested height) pair of a verification whose attestation is otherwise
// valid and quorum-signed under the packet tag.
type heightCase struct {
	proof, att uint64
	note       string
}

// pickHeightCase draws the proof height and the height embedded in the attestation independently from
// {stored consensus heights} and {heights without a consensus state}, so that every combination of
// attested <, =, > proof height with consensus state present/absent at either height occurs.
func (h *attHist) pickHeightCase() *heightCase {
	r := h.e.r
	cons := h.consensus()
	stored := map[uint64]bool{}
	var sl []uint64
	for _, c := range cons {
		var x uint64
		fmt.Sscan(c[0], &x)
		stored[x] = true
		sl = append(sl, x)
	}
	var absent []uint64
	for _, x := range sl {
		for _, y := range []uint64{x - 1, x + 1, x + 2} {
			if y >= 1 && !stored[y] {
				absent = append(absent, y)
			}
		}
	}
	pick := func(fromStored bool) (uint64, string) {
		if fromStored || len(absent) == 0 {
			return sl[r.Intn(len(sl))], "stored"
		}
		return absent[r.Intn(len(absent))], "absent"
	}
	p, ps := pick(r.Chance(2, 3))
	var a uint64
	var as string
	for try := 0; ; try++ {
		a, as = pick(r.Chance(2, 3))
		if a != p || r.Chance(1, 4) || try > 8 {
			break
		}
	}
	rel := "equal"
	if a < p {
		rel = "lower"
	} else if a > p {
		rel = "higher"
	}
	return &heightCase{proof: p, att: a, note: "attested-" + rel + "(" + as + ")-proof(" + ps + ")"}
}

// opUpdateAt submits a valid, fully signed state attestation for (height, tsSeconds).
func (h *attHist) opUpdateAt(height, tsSeconds uint64, note string) {
	data := h.stateData(height, tsSeconds)
	sigs := h.signWith(data, attestations.AttestationTypeState, h.attestors)
	proof := &attestations.AttestationProof{AttestationData: data, Signatures: sigs}
	h.oldState = append(h.oldState, proof)
	h.recordData(data)
	for _, s := range sigs {
		h.recordRecover(data, s)
	}
	h.ops = append(h.ops, map[string]any{"op": "update", "data": hx.H(data), "sigs": sigsJSON(sigs), "note": note})
	res := h.run(func(ctx sdk.Context) error {
		if err := proof.ValidateBasic(); err != nil {
			return err
		}
		return h.ck.UpdateClient(ctx, h.clientID, proof)
	})
	h.outs = append(h.outs, h.observe(res))
}

func (h *attHist) opVerify(mode string, special, nonmember bool, force ...*heightCase) {
	r := h.e.r
	cons := h.consensus()
	var height uint64
	if len(cons) > 0 {
		fmt.Sscan(cons[r.Intn(len(cons))][0], &height)
	}
	proofHeight := clienttypes.NewHeight(0, height)
	key := []byte(r.Pick(attKeys))
	value := r.Bytes(32)
	pathHash := h.keccak(key)
	note := "valid"
	// the attested packets: the queried one among others
	packets := []attestations.PacketCompact{}
	for i, n := 0, r.Intn(2); i < n; i++ {
		packets = append(packets, attestations.PacketCompact{Path: h.keccak([]byte(r.Pick(attKeys) + "x")), Commitment: r.Bytes(32)})
	}
	commitment := value
	if nonmember {
		commitment = make([]byte, 32)
	}
	mine := attestations.PacketCompact{Path: pathHash, Commitment: commitment}
	attHeight := height
	keypath := [][]byte{key}
	var path ibcexported.Path
	tag := attestations.AttestationTypePacket
	var sigs [][]byte
	var rawProof []byte
	haveRaw := false
	omitMine := false
	if special {
		switch mode {
		case "membership", "non-membership":
			switch r.Intn(12) {
			case 0:
				mine.Commitment = r.Bytes(32)
				note = "other-commitment"
			case 1:
				mine.Commitment = make([]byte, 32)
				note = "zero-commitment"
			case 2:
				omitMine = true
				note = "path-not-attested"
			case 3:
				mine.Path = h.keccak(append(append([]byte(nil), key...), 'x'))
				note = "other-path"
			case 4:
				attHeight = height + 1
				note = "attested-higher-height"
				if r.Bool() && height > 1 {
					attHeight = height - 1 - uint64(r.Intn(int(min64(int64(height-1), 2))))
					note = "attested-lower-height"
				}
			case 5:
				proofHeight = clienttypes.NewHeight(0, height+uint64(1+r.Intn(3)))
				attHeight = proofHeight.RevisionHeight
				note = "height-without-consensus-state"
			case 6:
				proofHeight = clienttypes.NewHeight(1, height)
				note = "height-other-revision"
			case 7:
				value = r.Bytes([]int{0, 1, 31, 33, 64}[r.Intn(5)])
				mine.Commitment = value
				note = "value-not-32-bytes"
			case 8:
				// the path attested twice: once with a zero commitment, once with the value
				packets = append(packets, attestations.PacketCompact{Path: pathHash, Commitment: make([]byte, 32)})
				mine.Commitment = value
				if nonmember {
					mine.Commitment = r.Bytes(32)
				}
				note = "path-attested-twice-zero-and-nonzero"
			case 9:
				packets = append(packets, attestations.PacketCompact{Path: pathHash, Commitment: make([]byte, 32)})
				mine.Commitment = make([]byte, 32)
				note = "path-attested-twice-zero"
			case 10:
				omitMine = true
				packets = nil
				note = "no-packets"
			default:
				mine.Path = pathHash[:31]
				note = "short-path-padded"
			}
		case "malformed":
			switch r.Intn(7) {
			case 0:
				keypath = [][]byte{}
				note = "path-len-0"
			case 1:
				keypath = [][]byte{[]byte("ibc"), key}
				note = "path-len-2"
			case 2:
				keypath = [][]byte{{}}
				note = "path-empty-key"
			case 3:
				path = otherPath{}
				note = "path-other-type"
			case 4:
				rawProof, haveRaw = [][]byte{nil, {0xff, 0xff}, r.Bytes(1 + r.Intn(30))}[r.Intn(3)], true
				note = "proof-garbage"
			case 5:
				note = "attestation-data-is-state-attestation"
			default:
				if !nonmember {
					value = nil
					note = "value-empty"
				}
			}
		case "wrong-tag":
			switch r.Intn(3) {
			case 0:
				tag = attestations.AttestationTypeState
				note = "signed-with-state-tag"
			case 1:
				tag = 0
				note = "signed-untagged-sha256"
			default:
				if len(h.oldState) > 0 {
					o := h.oldState[r.Intn(len(h.oldState))]
					bz, _ := h.cdc.Marshal(o)
					rawProof, haveRaw = bz, true
					note = "state-attestation-replayed-as-proof"
				}
			}
		}
	}
	if len(force) > 0 && force[0] != nil {
		proofHeight = clienttypes.NewHeight(0, force[0].proof)
		attHeight = force[0].att
		note = force[0].note
	}
	if !omitMine {
		packets = append(packets, mine)
		if len(packets) > 1 && r.Bool() {
			i := r.Intn(len(packets))
			packets[i], packets[len(packets)-1] = packets[len(packets)-1], packets[i]
		}
	}
	data, err := (&attestations.PacketAttestation{Height: attHeight, Packets: packets}).ABIEncode()
	if err != nil {
		panic(err)
	}
	if note == "attestation-data-is-state-attestation" {
		data = h.stateData(height, 1234)
	}
	if special && (mode == "signature-lists" || mode == "quorum") {
		sigs = h.mutateSigs(data, tag, &note)
	}
	if sigs == nil {
		sigs = h.signWith(data, tag, h.attestors[:int(h.minSigs)+r.Intn(len(h.attestors)-int(h.minSigs)+1)])
	}
	var pj any
	if !haveRaw {
		ap := &attestations.AttestationProof{AttestationData: data, Signatures: sigs}
		h.oldPacket = append(h.oldPacket, ap)
		bz, err := h.cdc.Marshal(ap)
		if err != nil {
			panic(err)
		}
		rawProof = bz
	}
	// structural view of the proof bytes (protobuf decoding is not modelled)
	var ap attestations.AttestationProof
	if err := h.cdc.Unmarshal(rawProof, &ap); err != nil {
		pj = nil
	} else {
		h.recordData(ap.AttestationData)
		for _, s := range ap.Signatures {
			h.recordRecover(ap.AttestationData, s)
		}
		pj = map[string]any{"data": hx.H(ap.AttestationData), "sigs": sigsJSON(ap.Signatures)}
	}
	if path == nil {
		path = commitmenttypesv2.MerklePath{KeyPath: keypath}
	}
	var kp any
	if _, ok := path.(commitmenttypesv2.MerklePath); ok {
		l := []string{}
		for _, k := range keypath {
			l = append(l, hx.H(k))
			h.keccak(k)
		}
		kp = l
	}
	name := "vm"
	if nonmember {
		name = "vnm"
	}
	h.ops = append(h.ops, map[string]any{"op": name, "height": hj(proofHeight), "proof": pj, "path": kp, "value": hx.H(value), "note": note})
	res := h.run(func(ctx sdk.Context) error {
		if nonmember {
			return h.ck.VerifyNonMembership(ctx, h.clientID, proofHeight, 0, 0, rawProof, path)
		}
		return h.ck.VerifyMembership(ctx, h.clientID, proofHeight, 0, 0, rawProof, path, value)
	})
	h.outs = append(h.outs, h.observe(res))
}

func (h *attHist) opAdmin() {
	r := h.e.r
	name := r.Pick([]string{"recover", "upgrade"})
	h.ops = append(h.ops, map[string]any{"op": name})
	res := h.run(func(ctx sdk.Context) error {
		if name == "recover" {
			return h.ck.RecoverClient(ctx, h.clientID, h.clientID)
		}
		return h.ck.UpgradeClient(ctx, h.clientID, r.Bytes(5), r.Bytes(5), r.Bytes(5), r.Bytes(5))
	})
	h.outs = append(h.outs, h.observe(res))
}

func (h *attHist) history(mode string) {
	r := h.e.r
	n := 1 + r.Intn(3)
	if mode == "quorum" || mode == "signature-lists" {
		n = 2 + r.Intn(2)
	}
	for i := 0; i < n; i++ {
		h.attestors = append(h.attestors, newAttestor(r))
	}
	h.strangers = []*attestor{newAttestor(r), newAttestor(r)}
	h.minSigs = uint32(1 + r.Intn(n))
	addrs := []string{}
	addrBytes := []string{}
	for i, a := range h.attestors {
		s := a.addr.Hex() // EIP-55 mixed case
		switch (i + r.Intn(3)) % 3 {
		case 0:
			s = "0x" + hx.H(a.addr[:])
		case 1:
			s = hx.H(a.addr[:]) // no 0x prefix
		}
		addrs = append(addrs, s)
		addrBytes = append(addrBytes, hx.H(a.addr[:]))
	}
	latest := uint64(1 + r.Intn(10))
	ts0 := uint64(1+r.Intn(100)) * 1_000_000_000
	cs := attestations.NewClientState(addrs, h.minSigs, latest)
	cons := &attestations.ConsensusState{Timestamp: ts0}
	id, err := h.ck.CreateClient(h.ctx, ibcexported.Attestations, h.cdc.MustMarshal(cs), h.cdc.MustMarshal(cons))
	if err != nil {
		panic(err)
	}
	h.clientID = id
	init := map[string]any{"attestors": addrBytes, "min": hx.U(uint64(h.minSigs)), "latest": hx.U(latest), "frozen": false, "cons": h.consensus()}

	nops := 3 + r.Intn(5)
	if mode == "heights" {
		// consensus states at several heights with gaps in between, some below the initial one
		h.opUpdateAt(latest+2, 2000+uint64(r.Intn(100)), "seed-height")
		h.opUpdateAt(latest+5+uint64(r.Intn(2)), 3000+uint64(r.Intn(100)), "seed-height")
		if latest > 2 && r.Bool() {
			h.opUpdateAt(latest-2, 500+uint64(r.Intn(100)), "seed-lower-height")
		}
		nops = 4 + r.Intn(3)
	}
	for i := 0; i < nops; i++ {
		special := mode != "valid" && r.Chance(3, 5)
		if mode == "heights" {
			h.opVerify("valid", false, r.Chance(1, 3), h.pickHeightCase())
			continue
		}
		if mode == "frozen" && i == 1 {
			// freeze by a conflicting timestamp for the initial height
			data := h.stateData(latest, ts0/1_000_000_000+1)
			sigs := h.signWith(data, attestations.AttestationTypeState, h.attestors)
			proof := &attestations.AttestationProof{AttestationData: data, Signatures: sigs}
			h.recordData(data)
			for _, s := range sigs {
				h.recordRecover(data, s)
			}
			h.ops = append(h.ops, map[string]any{"op": "update", "data": hx.H(data), "sigs": sigsJSON(sigs), "note": "freeze"})
			res := h.run(func(ctx sdk.Context) error {
				if err := proof.ValidateBasic(); err != nil {
					return err
				}
				return h.ck.UpdateClient(ctx, h.clientID, proof)
			})
			h.outs = append(h.outs, h.observe(res))
			continue
		}
		switch k := r.Intn(10); {
		case k < 4 && mode != "membership" && mode != "non-membership":
			h.opUpdate(mode, special)
		case k < 1:
			h.opUpdate(mode, special)
		case k == 9:
			h.opAdmin()
		case mode == "non-membership" || (mode != "membership" && r.Chance(1, 3)):
			h.opVerify(mode, special, true)
		default:
			h.opVerify(mode, special, false)
		}
	}
	recs := [][3]any{}
	rk := make([]string, 0, len(h.recs))
	for k := range h.recs {
		rk = append(rk, k)
	}
	sort.Strings(rk)
	for _, k := range rk {
		recs = append(recs, h.recs[k])
	}
	in := map[string]any{"init": init, "ops": h.ops, "recover": recs, "keccak": h.keccaks, "dec_packet": h.decP, "dec_state": h.decS}
	h.e.o.Emit("att_history", in, h.outs, mode)
}

// famAttest: the attestations light client.
func famAttest(e *env) {
	r := e.r
	cdc := e.chain.App.AppCodec()
	ck := e.chain.App.GetIBCKeeper().ClientKeeper

	// verifySignatures alone (hook), with arbitrary type tags
	n := hx.N(200, 1600)
	for i := 0; i < n; i++ {
		h := &attHist{e: e, cdc: cdc, ck: ck, recs: map[string][3]any{}, keccaks: map[string]string{}, decP: map[string]any{}, decS: map[string]any{},
			tags: []attestations.AttestationType{1, 2, 0, 3}}
		na := 1 + r.Intn(3)
		for j := 0; j < na; j++ {
			h.attestors = append(h.attestors, newAttestor(r))
		}
		h.strangers = []*attestor{newAttestor(r)}
		h.minSigs = uint32(1 + r.Intn(na))
		if r.Chance(1, 10) {
			h.minSigs = uint32(r.Intn(na + 3)) // 0 or above the set size: unreachable through Validate, still total
		}
		addrs, addrBytes := []string{}, []string{}
		for _, a := range h.attestors {
			addrs = append(addrs, a.addr.Hex())
			addrBytes = append(addrBytes, hx.H(a.addr[:]))
		}
		data := r.Bytes(r.Intn(48))
		signTag := attestations.AttestationType([]byte{1, 2, 1, 2, 0, 3}[r.Intn(6)])
		checkTag := signTag
		note := "valid"
		if r.Chance(1, 3) {
			checkTag = attestations.AttestationType([]byte{1, 2, 0, 3}[r.Intn(4)])
			if checkTag != signTag {
				note = "checked-under-other-tag"
			}
		}
		var sigs [][]byte
		if r.Chance(2, 3) && int(h.minSigs) >= 1 && int(h.minSigs) <= na {
			sigs = h.mutateSigs(data, signTag, &note)
		} else {
			sigs = h.signWith(data, signTag, h.attestors[:min(na, max(1, int(h.minSigs)))])
		}
		h.tags = []attestations.AttestationType{checkTag}
		if signTag != checkTag {
			h.tags = append(h.tags, signTag)
		}
		for _, s := range sigs {
			h.recordRecover(data, s)
		}
		cs := attestations.NewClientState(addrs, h.minSigs, 1)
		res := "err"
		p, _ := hx.Catch(func() {
			if attestations.VerifVerifySignatures(cs, &attestations.AttestationProof{AttestationData: data, Signatures: sigs}, checkTag) == nil {
				res = "ok"
			}
		})
		if p {
			res = "panic"
		}
		recs := [][3]any{}
		rk := make([]string, 0, len(h.recs))
		for k := range h.recs {
			rk = append(rk, k)
		}
		sort.Strings(rk)
		for _, k := range rk {
			recs = append(recs, h.recs[k])
		}
		e.o.Emit("att_verify_sigs", map[string]any{"attestors": addrBytes, "min": hx.U(uint64(h.minSigs)), "data": hx.H(data), "sigs": sigsJSON(sigs),
			"tag": int(checkTag), "recover": recs}, res, note)
	}

	m := hx.N(77, 616)
	for i := 0; i < m; i++ {
		ctx, _ := e.ctx.CacheContext()
		h := &attHist{e: e, cdc: cdc, ck: ck, ctx: ctx, recs: map[string][3]any{}, keccaks: map[string]string{}, decP: map[string]any{}, decS: map[string]any{},
			tags: []attestations.AttestationType{attestations.AttestationTypeState, attestations.AttestationTypePacket}}
		h.history(attModes[i%len(attModes)])
	}
}
