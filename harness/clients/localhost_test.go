package clients

import (
	"bytes"
	"sort"

	storetypes "github.com/cosmos/cosmos-sdk/store/v2/types"
	sdk "github.com/cosmos/cosmos-sdk/types"

	clienttypes "github.com/cosmos/ibc-go/v11/modules/core/02-client/types"
	commitmenttypesv2 "github.com/cosmos/ibc-go/v11/modules/core/23-commitment/types/v2"
	ibcexported "github.com/cosmos/ibc-go/v11/modules/core/exported"
	solomachine "github.com/cosmos/ibc-go/v11/modules/light-clients/06-solomachine"
	localhost "github.com/cosmos/ibc-go/v11/modules/light-clients/09-localhost"

	"verif/harness/hx"
)

// otherPath implements exported.Path but is not the v2 MerklePath.
type otherPath struct{}

func (otherPath) Empty() bool { return false }

func ibcStore(e *env, ctx sdk.Context) storetypes.KVStore {
	return ctx.KVStore(e.chain.GetSimApp().GetKey(ibcexported.StoreKey))
}

func dumpStore(s storetypes.KVStore) [][2][]byte {
	var out [][2][]byte
	it := s.Iterator(nil, nil)
	defer it.Close()
	for ; it.Valid(); it.Next() {
		out = append(out, [2][]byte{append([]byte(nil), it.Key()...), append([]byte(nil), it.Value()...)})
	}
	return out
}

func sameDump(a, b [][2][]byte) bool {
	if len(a) != len(b) {
		return false
	}
	for i := range a {
		if !bytes.Equal(a[i][0], b[i][0]) || !bytes.Equal(a[i][1], b[i][1]) {
			return false
		}
	}
	return true
}

func hj(h clienttypes.Height) []string {
	return []string{hx.U(h.RevisionNumber), hx.U(h.RevisionHeight)}
}

// famLocalhost: membership / non-membership against the chain's own IBC store, and every client
// operation addressed to the localhost client.
func famLocalhost(e *env) {
	r := e.r
	ck := e.chain.App.GetIBCKeeper().ClientKeeper
	base, _ := e.ctx.CacheContext()
	st := ibcStore(e, base)
	// synthetic entries next to the real ones: ordinary, empty value, binary key
	st.Set([]byte("verif/present"), []byte("value-1"))
	st.Set([]byte("verif/empty"), []byte{})
	st.Set([]byte("verif/\x00bin\xff"), []byte{0, 1, 2, 0xff})
	st.Set([]byte("v"), []byte("one-byte-key"))
	dump := dumpStore(st)
	index := map[string][]byte{}
	keys := make([][]byte, 0, len(dump))
	var small [][]byte // entries with short values keep the records small; the long ones are still drawn sometimes
	for _, kv := range dump {
		index[string(kv[0])] = kv[1]
		keys = append(keys, kv[0])
		if len(kv[1]) <= 40 {
			small = append(small, kv[0])
		}
	}
	lookup := func(k []byte) ([]byte, bool) { v, ok := index[string(k)]; return v, ok }

	n := hx.N(860, 7000)
	for i := 0; i < n; i++ {
		// context: own height and revision
		chainID := r.Pick([]string{"testchain1-1", "testchain1-1", "testchain1-7", "testchain", "a-b-3"})
		bh := int64(1 + r.Intn(50))
		if r.Chance(1, 10) {
			bh = int64(r.U64B() >> 1)
		}
		ctx := base.WithChainID(chainID).WithBlockHeight(bh)
		self := clienttypes.NewHeight(clienttypes.ParseChainID(chainID), uint64(bh))

		tag := "valid"
		height := clienttypes.NewHeight(self.RevisionNumber, uint64(r.Intn(int(min64(bh, 1<<30))+1)))
		proof := append([]byte(nil), localhost.SentinelProof...)
		key := small[r.Intn(len(small))]
		if r.Chance(1, 8) {
			key = keys[r.Intn(len(keys))]
		}
		if r.Chance(1, 3) {
			key = []byte(r.Pick([]string{"verif/present", "verif/empty", "verif/\x00bin\xff", "v"}))
		}
		stored, _ := lookup(key)
		value := append([]byte(nil), stored...)
		nonmember := r.Chance(1, 3)
		keypath := [][]byte{[]byte("ibc"), key}
		var path ibcexported.Path

		switch m := r.Intn(22); m {
		case 0:
			tag = "height-self+1"
			height = clienttypes.NewHeight(self.RevisionNumber, self.RevisionHeight+1)
		case 1:
			tag = "height-self"
			height = self
		case 2:
			tag = "height-higher-revision"
			height = clienttypes.NewHeight(self.RevisionNumber+1, uint64(r.Intn(3)))
		case 3:
			tag = "height-lower-revision"
			if self.RevisionNumber > 0 {
				height = clienttypes.NewHeight(self.RevisionNumber-1, r.U64B())
			} else {
				height = clienttypes.NewHeight(0, 0)
			}
		case 4:
			tag = "height-random"
			height = clienttypes.NewHeight(r.U64B(self.RevisionNumber), r.U64B(self.RevisionHeight))
		case 5:
			tag = "proof-mutated"
			proof = [][]byte{nil, {}, {0}, {2}, {1, 1}, {1, 0}, {0, 1}, r.Bytes(1 + r.Intn(4))}[r.Intn(8)]
		case 6:
			tag = "path-len-1"
			keypath = [][]byte{key}
		case 7:
			tag = "path-len-3"
			keypath = [][]byte{[]byte("ibc"), key, key}
			if r.Bool() {
				keypath = [][]byte{[]byte("ibc"), []byte("x"), key}
			}
		case 8:
			tag = "path-len-0"
			keypath = [][]byte{}
		case 9:
			tag = "path-swapped"
			keypath = [][]byte{key, []byte("ibc")}
		case 10:
			tag = "path-other-type"
			path = otherPath{}
		case 11:
			tag = "key-absent"
			key = append(append([]byte(nil), key...), byte('x'))
			if r.Bool() {
				key = []byte(r.Str("abcxyz/", 1, 12))
			}
			keypath = [][]byte{[]byte("ibc"), key}
		case 12:
			tag = "key-empty"
			keypath = [][]byte{[]byte("ibc"), {}}
			if r.Bool() {
				keypath = [][]byte{[]byte("ibc"), nil}
			}
		case 13:
			tag = "value-different"
			value = append(value, 0)
			if r.Bool() && len(value) > 1 {
				value = value[:len(value)-2]
			}
		case 14:
			tag = "value-flipped"
			if len(value) > 0 {
				value[r.Intn(len(value))] ^= 1 << uint(r.Intn(8))
			} else {
				value = []byte{0}
			}
		case 15:
			tag = "value-nil-or-empty"
			if r.Bool() {
				value = nil
			} else {
				value = []byte{}
			}
		case 16:
			tag = "prefix-ignored"
			keypath = [][]byte{r.Bytes(r.Intn(4)), key}
		case 17:
			tag = "empty-stored-value"
			key = []byte("verif/empty")
			keypath = [][]byte{[]byte("ibc"), key}
			value = [][]byte{nil, {}, {0}}[r.Intn(3)]
		default:
		}
		if path == nil {
			path = commitmenttypesv2.MerklePath{KeyPath: keypath}
		}
		lcm, err := ck.Route(ctx, ibcexported.LocalhostClientID)
		if err != nil {
			e.t.Fatalf("route localhost: %v", err)
		}
		viaKeeper := r.Bool()
		var res string
		p, _ := hx.Catch(func() {
			var err error
			switch {
			case nonmember && viaKeeper:
				err = ck.VerifyNonMembership(ctx, ibcexported.LocalhostClientID, height, r.U64B(), r.U64B(), proof, path)
			case nonmember:
				err = lcm.VerifyNonMembership(ctx, ibcexported.LocalhostClientID, height, r.U64B(), r.U64B(), proof, path)
			case viaKeeper:
				err = ck.VerifyMembership(ctx, ibcexported.LocalhostClientID, height, r.U64B(), r.U64B(), proof, path, value)
			default:
				err = lcm.VerifyMembership(ctx, ibcexported.LocalhostClientID, height, r.U64B(), r.U64B(), proof, path, value)
			}
			if err == nil {
				res = "ok"
			} else {
				res = "err"
			}
		})
		if p {
			res = "panic"
		}
		// the projection of the store the model gets: every path element that is a stored key, plus two others
		proj := map[string][]byte{}
		for _, k := range keypath {
			if v, ok := lookup(k); ok {
				proj[string(k)] = v
			}
		}
		for j := 0; j < 2; j++ {
			k := small[r.Intn(len(small))]
			proj[string(k)] = index[string(k)]
		}
		pk := make([]string, 0, len(proj))
		for k := range proj {
			pk = append(pk, k)
		}
		sort.Strings(pk)
		projl := [][2]string{}
		for _, k := range pk {
			projl = append(projl, [2]string{hx.HS(k), hx.H(proj[k])})
		}
		var kp any
		if _, ok := path.(commitmenttypesv2.MerklePath); ok {
			l := []string{}
			for _, k := range keypath {
				l = append(l, hx.H(k))
			}
			kp = l
		}
		e.o.Emit("lh_verify", map[string]any{
			"self": hj(self), "height": hj(height), "proof": hp(proof), "path": kp, "value": hp(value),
			"nonmember": nonmember, "store": projl,
		}, res, tag)
	}

	// client operations addressed to the localhost client
	m := hx.N(120, 600)
	opNames := []string{"k-create", "k-update-header", "k-update-misbehaviour", "k-upgrade", "k-recover", "m-initialize", "m-verify-client-message", "m-recover", "m-upgrade", "m-check-misbehaviour", "m-update-state"}
	for i := 0; i < m; i++ {
		ctx, _ := base.CacheContext()
		allowed := !r.Chance(1, 4)
		if !allowed {
			ck.SetParams(ctx, clienttypes.NewParams(ibcexported.Tendermint, ibcexported.Solomachine))
		}
		before := dumpStore(ibcStore(e, ctx))
		name := opNames[i%len(opNames)]
		a, b, c, d := r.Bytes(r.Intn(40)), r.Bytes(r.Intn(40)), r.Bytes(r.Intn(8)), r.Bytes(r.Intn(8))
		var msg ibcexported.ClientMessage = &solomachine.Header{Timestamp: r.U64B(), Signature: a, NewDiversifier: string(c)}
		if name == "k-update-misbehaviour" || r.Chance(1, 4) {
			msg = &solomachine.Misbehaviour{Sequence: r.U64B()}
		}
		substitute := r.Pick([]string{"07-tendermint-0", "09-localhost", "06-solomachine-0", "", "x"})
		var res string
		extra := map[string]any{}
		p, _ := hx.Catch(func() {
			var err error
			switch name {
			case "k-create":
				_, err = ck.CreateClient(ctx, ibcexported.Localhost, a, b)
			case "k-update-header", "k-update-misbehaviour":
				err = ck.UpdateClient(ctx, ibcexported.LocalhostClientID, msg)
			case "k-upgrade":
				err = ck.UpgradeClient(ctx, ibcexported.LocalhostClientID, a, b, c, d)
			case "k-recover":
				err = ck.RecoverClient(ctx, ibcexported.LocalhostClientID, substitute)
			default:
				lcm, rerr := ck.Route(base, ibcexported.LocalhostClientID)
				if rerr != nil {
					e.t.Fatalf("route: %v", rerr)
				}
				switch name {
				case "m-initialize":
					err = lcm.Initialize(ctx, ibcexported.LocalhostClientID, a, b)
				case "m-verify-client-message":
					err = lcm.VerifyClientMessage(ctx, ibcexported.LocalhostClientID, msg)
				case "m-recover":
					err = lcm.RecoverClient(ctx, ibcexported.LocalhostClientID, substitute)
				case "m-upgrade":
					err = lcm.VerifyUpgradeAndUpdateState(ctx, ibcexported.LocalhostClientID, a, b, c, d)
				case "m-check-misbehaviour":
					extra["misbehaviour"] = lcm.CheckForMisbehaviour(ctx, ibcexported.LocalhostClientID, msg)
					lcm.UpdateStateOnMisbehaviour(ctx, ibcexported.LocalhostClientID, msg)
					extra["status"] = lcm.Status(ctx, ibcexported.LocalhostClientID).String()
				case "m-update-state":
					hs := lcm.UpdateState(ctx, ibcexported.LocalhostClientID, msg)
					extra["heights"] = len(hs)
					extra["status"] = lcm.Status(ctx, ibcexported.LocalhostClientID).String()
				}
			}
			if err == nil {
				res = "ok"
			} else {
				res = "err"
			}
		})
		if p {
			res = "panic"
		}
		extra["r"] = res
		extra["unchanged"] = sameDump(before, dumpStore(ibcStore(e, ctx)))
		e.o.Emit("lh_clientop", map[string]any{"op": name, "allowed": allowed, "a": hx.H(a), "b": hx.H(b), "c": hx.H(c), "d": hx.H(d), "substitute": hx.HS(substitute)}, extra, name)
	}
}

func min64(a, b int64) int64 {
	if a < b {
		return a
	}
	return b
}
