package merkle

import (
	"testing"

	"verif/harness/hx"
)

// TestFamily writes the trace of the `merkle` scenario family (C18): real rootmulti/IAVL stores, real
// ics23 proofs, every single mutation of root / path / value / proof step / specs, and the Go-slice
// aliasing probe of BuildMerklePath.
func TestFamily(t *testing.T) {
	r := hx.NewRng("merkle")
	o := hx.NewOut()
	defer o.Close()
	famVerify(t, r, o)
	famPure(r, o)
	famBmp(r, o)
	t.Logf("records=%d", o.Count())
}
