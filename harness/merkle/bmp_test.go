package merkle

import (
	"unsafe"

	channeltypesv2 "github.com/cosmos/ibc-go/v11/modules/core/04-channel/v2/types"
	commitmenttypes "github.com/cosmos/ibc-go/v11/modules/core/23-commitment/types"
	commitmenttypesv2 "github.com/cosmos/ibc-go/v11/modules/core/23-commitment/types/v2"
	"github.com/cosmos/ibc-go/v11/modules/core/exported"

	"verif/harness/hx"
)

// ---------------------------------------------------------------------------------------------
// GetKey, ApplyPrefix

func famPure(r *hx.Rng, o *hx.Out) {
	for i := 0; i < hx.N(60, 2000); i++ {
		n := r.Intn(5)
		keys := make([][]byte, n)
		hs := make([]string, n)
		for j := range keys {
			keys[j] = r.Bytes(r.Intn(4))
			hs[j] = hx.H(keys[j])
		}
		var idx int64
		switch r.Intn(5) {
		case 0:
			idx = int64(r.Intn(n + 2))
		case 1:
			idx = -int64(r.Intn(3)) - 1
		case 2:
			idx = int64(n) - 1 - int64(r.Intn(n+2)) // the expression of verifyChainedMembershipProof
		case 3:
			idx = int64(r.U64B())
		default:
			idx = int64(n)
		}
		mp := commitmenttypesv2.NewMerklePath(keys...)
		k, err := mp.GetKey(uint64(idx))
		var out any
		if err == nil {
			out = hx.H(k)
		}
		o.Emit("getkey", map[string]any{"path": hs, "idx": idx}, out)
	}
	for i := 0; i < hx.N(40, 1000); i++ {
		n := r.Intn(4)
		keys := make([][]byte, n)
		hs := make([]string, n)
		for j := range keys {
			keys[j] = r.Bytes(r.Intn(5))
			hs[j] = hx.H(keys[j])
		}
		var prefix exported.Prefix
		in := map[string]any{"path": hs, "t": "", "b": ""}
		switch r.Intn(6) {
		case 0:
			in["t"] = "nil"
		case 1:
			var pp *commitmenttypes.MerklePrefix
			prefix = pp
			in["t"] = "nilptr"
		case 2:
			mp := commitmenttypes.NewMerklePrefix([]byte{})
			prefix = &mp
			in["t"] = "bytes"
		case 3:
			prefix = commitmenttypes.NewMerklePrefix(nil)
			in["t"] = "bytes"
		default:
			b := r.Bytes(1 + r.Intn(5))
			prefix = commitmenttypes.NewMerklePrefix(b)
			in["t"] = "bytes"
			in["b"] = hx.H(b)
		}
		var res commitmenttypesv2.MerklePath
		var err error
		panicked, _ := hx.Catch(func() { res, err = commitmenttypes.ApplyPrefix(prefix, commitmenttypesv2.NewMerklePath(keys...)) })
		var out any
		switch {
		case panicked:
			out = "panic"
		case err != nil:
			out = "err"
		default:
			rs := make([]string, len(res.KeyPath))
			for j, k := range res.KeyPath {
				rs[j] = hx.H(k)
			}
			out = rs
		}
		o.Emit("apply", in, out, in["t"].(string))
	}
}

// ---------------------------------------------------------------------------------------------
// BuildMerklePath on explicit heap layouts

// hdr is a slice header relative to the caller's byte arrays: array id, offset, len, cap.
// A slice without capacity (nil or empty) is {0,0,len,0}; an array the harness did not allocate has id = #arrays.
type hdr [4]int

type layout struct {
	arrs   [][]byte // the caller's byte arrays (full capacity)
	outer  [][]byte // the caller's outer array (full capacity)
	prefix [][]byte // a window into outer
	poff   int
}

func (l *layout) resolve(e []byte) hdr {
	if cap(e) == 0 {
		return hdr{0, 0, len(e), 0}
	}
	p := uintptr(unsafe.Pointer(unsafe.SliceData(e)))
	for k, a := range l.arrs {
		base := uintptr(unsafe.Pointer(unsafe.SliceData(a)))
		if p >= base && p < base+uintptr(len(a)) {
			return hdr{k, int(p - base), len(e), cap(e)}
		}
	}
	return hdr{len(l.arrs), 0, len(e), cap(e)}
}

func (l *layout) headers(s [][]byte) []hdr {
	out := make([]hdr, len(s))
	for i, e := range s {
		out[i] = l.resolve(e)
	}
	return out
}

func view(s [][]byte) []string {
	out := make([]string, len(s))
	for i, e := range s {
		out[i] = hx.H(e)
	}
	return out
}

func (l *layout) arrHex() []string {
	out := make([]string, len(l.arrs))
	for i, a := range l.arrs {
		out[i] = hx.H(a)
	}
	return out
}

// spareDisjoint: the visible bytes of e do not lie in the spare capacity of last
func spareDisjoint(e, last hdr) bool {
	return e[0] != last[0] || e[1]+e[2] <= last[1]+last[2] || last[1]+last[3] <= e[1]
}

func genLayout(r *hx.Rng, wantOverlap bool) (*layout, bool) {
	l := &layout{}
	nArr := 1 + r.Intn(3)
	for i := 0; i < nArr; i++ {
		l.arrs = append(l.arrs, r.Bytes(6+r.Intn(20)))
	}
	n := 1 + r.Intn(4)
	l.poff = r.Intn(3)
	pcap := n + r.Intn(3)
	l.outer = make([][]byte, l.poff+pcap+r.Intn(2))
	win := func(k int) []byte {
		a := l.arrs[k]
		switch r.Intn(6) {
		case 0:
			return nil
		case 1:
			return []byte{}
		}
		off := r.Intn(len(a))
		ln := r.Intn(len(a) - off + 1)
		cp := ln
		if r.Chance(2, 3) {
			cp = ln + r.Intn(len(a)-off-ln+1)
		}
		return a[off : off+ln : off+cp]
	}
	for i := range l.outer {
		l.outer[i] = win(r.Intn(nArr))
	}
	lastIdx := l.poff + n - 1
	if wantOverlap {
		// the last element: a short window with spare capacity at the start of array 0; an earlier element inside that spare part
		a := l.arrs[0]
		ln := 1 + r.Intn(2)
		l.outer[lastIdx] = a[0:ln:len(a)]
		if n == 1 {
			n = 2
			if l.poff+n > len(l.outer) {
				l.outer = append(l.outer, nil)
			}
			lastIdx = l.poff + n - 1
			l.outer[lastIdx] = a[0:ln:len(a)]
			if pcap < n {
				pcap = n
			}
		}
		off := ln + r.Intn(2)
		l.outer[l.poff+r.Intn(n-1)] = a[off : off+1+r.Intn(len(a)-off-1) : len(a)]
	}
	if l.poff+pcap > len(l.outer) {
		pcap = len(l.outer) - l.poff
	}
	l.prefix = l.outer[l.poff : l.poff+n : l.poff+pcap]
	hs := l.headers(l.prefix)
	ok := true
	for i := 0; i < n-1; i++ {
		if !spareDisjoint(hs[i], hs[n-1]) {
			ok = false
		}
	}
	return l, ok
}

func (l *layout) in(path []byte) map[string]any {
	return map[string]any{
		"arrs": l.arrHex(), "outer": l.headers(l.outer), "prefix": []int{l.poff, len(l.prefix), cap(l.prefix)},
		"path": hx.H(path),
	}
}

// extras: observed spare capacity of the arrays the call allocated (growth policy of append/Clone)
func (l *layout) extras(res [][]byte) (eo, ei int) {
	eo = cap(res) - len(res)
	if len(res) > 0 {
		if h := l.resolve(res[len(res)-1]); h[0] == len(l.arrs) {
			ei = h[3] - h[2]
		}
	}
	return
}

func (l *layout) resOuter(res [][]byte) int {
	if cap(res) == 0 || cap(l.outer) == 0 {
		return 1
	}
	p := uintptr(unsafe.Pointer(unsafe.SliceData(res)))
	base := uintptr(unsafe.Pointer(unsafe.SliceData(l.outer)))
	if p >= base && p < base+uintptr(len(l.outer))*unsafe.Sizeof([]byte{}) {
		return 0
	}
	return 1
}

func famBmp(r *hx.Rng, o *hx.Out) {
	n := hx.N(260, 6000)
	for i := 0; i < n; i++ {
		wantOverlap := r.Chance(1, 8)
		l, disjoint := genLayout(r, wantOverlap)
		path := r.Bytes(r.Intn(9))
		if r.Chance(1, 10) {
			path = nil
		}
		before := view(l.prefix)
		in := l.in(path)
		var res commitmenttypesv2.MerklePath
		panicked, _ := hx.Catch(func() { res = channeltypesv2.BuildMerklePath(l.prefix, path) })
		eo, ei := l.extras(res.KeyPath)
		in["eo"], in["ei"] = eo, ei
		out := map[string]any{
			"panic": panicked, "arrs": l.arrHex(), "outer": l.headers(l.outer), "res_arr": l.resOuter(res.KeyPath),
			"res": l.headers(res.KeyPath), "res_view": view(res.KeyPath), "view": view(l.prefix), "view_before": before,
		}
		kind, tag := "bmp", "disjoint"
		if !disjoint {
			kind, tag = "bmp_overlap", "overlap"
		}
		o.Emit(kind, in, out, tag)
	}
	// empty prefixes: the explicit panic
	for i := 0; i < hx.N(6, 60); i++ {
		l := &layout{arrs: [][]byte{r.Bytes(4)}, outer: make([][]byte, r.Intn(3))}
		l.prefix = l.outer[:0]
		tag := "empty-prefix"
		if r.Bool() {
			l.prefix = nil
			tag = "nil-prefix"
		}
		path := r.Bytes(r.Intn(4))
		in := l.in(path)
		in["eo"], in["ei"] = 0, 0
		var res commitmenttypesv2.MerklePath
		panicked, _ := hx.Catch(func() { res = channeltypesv2.BuildMerklePath(l.prefix, path) })
		out := map[string]any{
			"panic": panicked, "arrs": l.arrHex(), "outer": l.headers(l.outer), "res_arr": 1,
			"res": l.headers(res.KeyPath), "res_view": view(res.KeyPath), "view": view(l.prefix), "view_before": []string{},
		}
		o.Emit("bmp", in, out, tag)
	}
	// two successive calls with the same prefix (spare capacity in the last element makes the results alias)
	for i := 0; i < hx.N(80, 1500); i++ {
		l, disjoint := genLayout(r, false)
		if !disjoint {
			continue
		}
		p1 := r.Bytes(1 + r.Intn(5))
		p2 := r.Bytes(len(p1))
		if r.Chance(1, 4) {
			p2 = r.Bytes(1 + r.Intn(5))
		}
		before := view(l.prefix)
		in := l.in(p1)
		in["path2"] = hx.H(p2)
		var res1, res2 commitmenttypesv2.MerklePath
		panicked, _ := hx.Catch(func() { res1 = channeltypesv2.BuildMerklePath(l.prefix, p1) })
		if panicked {
			continue
		}
		v1 := view(res1.KeyPath)
		eo1, ei1 := l.extras(res1.KeyPath)
		panicked, _ = hx.Catch(func() { res2 = channeltypesv2.BuildMerklePath(l.prefix, p2) })
		if panicked {
			continue
		}
		eo2, ei2 := l.extras(res2.KeyPath)
		in["eo"], in["ei"], in["eo2"], in["ei2"] = eo1, ei1, eo2, ei2
		v1after := view(res1.KeyPath)
		tag := "independent"
		for j := range v1 {
			if v1[j] != v1after[j] {
				tag = "first-result-overwritten"
			}
		}
		o.Emit("bmp_alias2", in, map[string]any{
			"view1": v1, "view1_after2": v1after, "view2": view(res2.KeyPath), "view": view(l.prefix), "view_before": before,
		}, tag)
	}
}
