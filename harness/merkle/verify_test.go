package merkle

import (
	"bytes"
	"fmt"
	"sort"
	"testing"

	dbm "github.com/cosmos/cosmos-db"
	ics23 "github.com/cosmos/ics23/go"

	"cosmossdk.io/log/v2"

	"github.com/cosmos/cosmos-sdk/store/v2/rootmulti"
	storetypes "github.com/cosmos/cosmos-sdk/store/v2/types"

	commitmenttypes "github.com/cosmos/ibc-go/v11/modules/core/23-commitment/types"
	commitmenttypesv2 "github.com/cosmos/ibc-go/v11/modules/core/23-commitment/types/v2"
	"github.com/cosmos/ibc-go/v11/modules/core/exported"

	"verif/harness/hx"
)

// ---------------------------------------------------------------------------------------------
// a real multi-store with several IAVL stores and random contents

type world struct {
	ms     *rootmulti.Store
	keys   map[string]*storetypes.KVStoreKey
	names  []string
	root   []byte              // app hash of the last commit
	sorted map[string][]string // store -> sorted keys
}

var storeNames = []string{"ibc", "bank", "acc", "zz-upgrade"}

func randKey(r *hx.Rng) []byte {
	switch r.Intn(4) {
	case 0:
		return []byte("k" + r.Str("ab/0", 1, 5))
	case 1:
		return []byte("clients/07-tendermint-" + r.Str("0123", 1, 2) + "/" + r.Str("ab", 1, 3))
	case 2:
		return r.Bytes(1 + r.Intn(6))
	default:
		return []byte(r.Str("abcdefgh", 1, 8))
	}
}

func newWorld(t *testing.T, r *hx.Rng) *world {
	db := dbm.NewMemDB()
	ms := rootmulti.NewStore(db, log.NewNopLogger())
	w := &world{ms: ms, keys: map[string]*storetypes.KVStoreKey{}, sorted: map[string][]string{}}
	n := 2 + r.Intn(3)
	w.names = append([]string{}, storeNames[:n]...)
	for _, name := range w.names {
		k := storetypes.NewKVStoreKey(name)
		w.keys[name] = k
		ms.MountStoreWithDB(k, storetypes.StoreTypeIAVL, nil)
	}
	if err := ms.LoadLatestVersion(); err != nil {
		t.Fatal(err)
	}
	w.fill(r, 2)
	return w
}

// fill writes random keys into every store (at least min per store) and commits.
func (w *world) fill(r *hx.Rng, min int) {
	for i, name := range w.names {
		kv := w.ms.GetKVStore(w.keys[name])
		n := min + r.Intn(6)
		if i == 0 {
			n = min + r.Intn(40)
		}
		for j := 0; j < n; j++ {
			kv.Set(randKey(r), r.Bytes(1+r.Intn(12)))
		}
		// at least two keys per store: every leaf proof has an inner op
		kv.Set([]byte("~a"), []byte{1})
		kv.Set([]byte("~b"), []byte{2})
	}
	cid := w.ms.Commit()
	w.root = append([]byte{}, cid.Hash...)
	for _, name := range w.names {
		var ks []string
		it := w.ms.GetKVStore(w.keys[name]).Iterator(nil, nil)
		for ; it.Valid(); it.Next() {
			ks = append(ks, string(it.Key()))
		}
		it.Close()
		sort.Strings(ks)
		w.sorted[name] = ks
	}
}

func (w *world) get(store string, key []byte) []byte {
	k, ok := w.keys[store]
	if !ok || len(key) == 0 {
		return nil
	}
	return w.ms.GetKVStore(k).Get(key)
}

func (w *world) prove(t *testing.T, store string, key []byte) commitmenttypes.MerkleProof {
	res, err := w.ms.Query(&storetypes.RequestQuery{Path: fmt.Sprintf("/%s/key", store), Data: key, Prove: true,
		Height: w.ms.LastCommitID().Version}) // explicit: height 0 means "latest-1" to the IAVL store
	if err != nil || res.ProofOps == nil {
		t.Fatalf("query %s/%x: %v", store, key, err)
	}
	p, err := commitmenttypes.ConvertProofs(res.ProofOps)
	if err != nil {
		t.Fatal(err)
	}
	return p
}

// ---------------------------------------------------------------------------------------------
// one verification call: arguments in a form that can express every Go shape the code distinguishes

type rootArg struct {
	t string // "nil" (nil interface) | "nilptr" (nil *MerkleRoot) | "hash"
	h []byte
}

type call struct {
	nm       bool
	specs    []*ics23.ProofSpec
	root     rootArg
	pathOK   bool // false: the exported.Path is not a v2.MerklePath
	path     [][]byte
	value    []byte
	proofNil bool
	proofs   []*ics23.CommitmentProof
}

func (c call) clone() call {
	d := c
	d.specs = append([]*ics23.ProofSpec{}, c.specs...)
	d.path = make([][]byte, len(c.path))
	for i := range c.path {
		d.path[i] = append([]byte{}, c.path[i]...)
	}
	d.value = append([]byte{}, c.value...)
	d.root.h = append([]byte{}, c.root.h...)
	d.proofs = make([]*ics23.CommitmentProof, len(c.proofs))
	for i, p := range c.proofs {
		d.proofs[i] = cloneProof(p)
	}
	return d
}

func cloneProof(p *ics23.CommitmentProof) *ics23.CommitmentProof {
	if p == nil {
		return nil
	}
	bz, err := p.Marshal()
	if err != nil {
		panic(err)
	}
	var q ics23.CommitmentProof
	if err := q.Unmarshal(bz); err != nil {
		panic(err)
	}
	return &q
}

func specID(s *ics23.ProofSpec) any {
	switch s {
	case nil:
		return nil
	case ics23.IavlSpec:
		return 0
	case ics23.TendermintSpec:
		return 1
	default:
		return 2
	}
}

type otherPath struct{}

func (otherPath) Empty() bool { return false }

// run executes the call on the real code.
func (c call) run() string {
	var root exported.Root
	switch c.root.t {
	case "nil":
		root = nil
	case "nilptr":
		var rp *commitmenttypes.MerkleRoot
		root = rp
	default:
		mr := commitmenttypes.NewMerkleRoot(c.root.h)
		root = &mr
	}
	var path exported.Path
	if c.pathOK {
		path = commitmenttypesv2.NewMerklePath(c.path...)
	} else {
		path = otherPath{}
	}
	proof := commitmenttypes.MerkleProof{Proofs: c.proofs}
	if c.proofNil {
		proof.Proofs = nil
	} else if proof.Proofs == nil {
		proof.Proofs = []*ics23.CommitmentProof{}
	}
	var err error
	panicked, _ := hx.Catch(func() {
		if c.nm {
			err = proof.VerifyNonMembership(c.specs, root, path)
		} else {
			err = proof.VerifyMembership(c.specs, root, path, c.value)
		}
	})
	switch {
	case panicked:
		return "panic"
	case err != nil:
		return "err"
	}
	return "ok"
}

// levels asks the real ics23 library, level by level and independently of where the ibc-go code would
// stop, for Calculate(), GetExist()!=nil, GetNonexist()!=nil and the verdict of Verify on the arguments
// verifyChainedMembershipProof / VerifyNonMembership have to pass at that level. ok=false: ics23 itself
// panicked (then the record is not usable for the model, whose verifier is a total function).
func (c call) levels() (out []any, usable bool) {
	usable = true
	out = make([]any, len(c.proofs))
	prev := c.value
	havePrev := !c.nm
	for i, p := range c.proofs {
		if p == nil {
			out[i] = nil
			havePrev = false
			continue
		}
		var calc []byte
		var cerr error
		if pn, _ := hx.Catch(func() { calc, cerr = p.Calculate() }); pn {
			return nil, false
		}
		lv := map[string]any{"ex": p.GetExist() != nil, "nonex": p.GetNonexist() != nil, "calc": nil, "ep": nil, "np": nil}
		if cerr == nil {
			lv["calc"] = hx.H(calc)
		}
		var spec *ics23.ProofSpec
		if i < len(c.specs) {
			spec = c.specs[i]
		}
		ki := len(c.path) - 1 - i
		if cerr == nil && spec != nil && ki >= 0 && ki < len(c.path) {
			key := c.path[ki]
			if c.nm && i == 0 {
				if np := p.GetNonexist(); np != nil {
					var verr error
					if pn, _ := hx.Catch(func() { verr = np.Verify(spec, calc, key) }); pn {
						return nil, false
					}
					lv["np"] = []any{specID(spec), hx.H(calc), hx.H(key), verr == nil}
				}
			} else if ep := p.GetExist(); ep != nil && havePrev {
				var verr error
				if pn, _ := hx.Catch(func() { verr = ep.Verify(spec, calc, key, prev) }); pn {
					return nil, false
				}
				lv["ep"] = []any{specID(spec), hx.H(calc), hx.H(key), hx.H(prev), verr == nil}
			}
		}
		out[i] = lv
		prev = calc
		havePrev = cerr == nil
	}
	return out, true
}

// emit runs the call and writes the record with the ground truth the monitors need.
func (c call) emit(o *hx.Out, w *world, tag string) string {
	lv, usable := c.levels()
	if !usable {
		return ""
	}
	specs := make([]any, len(c.specs))
	for i, s := range c.specs {
		specs[i] = specID(s)
	}
	var path any
	if c.pathOK {
		ps := make([]string, len(c.path))
		for i, k := range c.path {
			ps[i] = hx.H(k)
		}
		path = ps
	}
	var proofs any
	if !c.proofNil {
		proofs = lv
	}
	gt := map[string]any{"root_honest": false, "store_val": nil, "store_exists": false}
	if w != nil {
		gt["root_honest"] = c.root.t == "hash" && bytes.Equal(c.root.h, w.root)
		if c.pathOK && len(c.path) == 2 {
			_, ok := w.keys[string(c.path[0])]
			gt["store_exists"] = ok
			if v := w.get(string(c.path[0]), c.path[1]); v != nil {
				gt["store_val"] = hx.H(v)
			}
		}
	}
	in := map[string]any{
		"nm": c.nm, "specs": specs, "root": map[string]any{"t": c.root.t, "h": hx.H(c.root.h)},
		"path": path, "value": hx.H(c.value), "proofs": proofs, "gt": gt,
	}
	out := c.run()
	o.Emit("verify", in, out, tag)
	return out
}

// ---------------------------------------------------------------------------------------------
// mutations

func flip(b []byte, r *hx.Rng) []byte {
	c := append([]byte{}, b...)
	if len(c) == 0 {
		return []byte{1}
	}
	i := r.Intn(len(c))
	c[i] ^= byte(1 << uint(r.Intn(8)))
	return c
}

type mut struct {
	tag string
	f   func(c *call)
}

// existence proofs found inside a level: the ExistenceProof itself, or Left/Right of a NonExistenceProof
func existParts(p *ics23.CommitmentProof) map[string]*ics23.ExistenceProof {
	m := map[string]*ics23.ExistenceProof{}
	if e := p.GetExist(); e != nil {
		m["exist"] = e
	}
	if n := p.GetNonexist(); n != nil {
		if n.Left != nil {
			m["left"] = n.Left
		}
		if n.Right != nil {
			m["right"] = n.Right
		}
	}
	return m
}

// proofMuts lists every single-step mutation of every proof level of the honest call.
func proofMuts(c call, r *hx.Rng) []mut {
	var ms []mut
	for lvl := range c.proofs {
		parts := existParts(c.proofs[lvl])
		names := make([]string, 0, len(parts))
		for n := range parts {
			names = append(names, n)
		}
		sort.Strings(names)
		for _, pn := range names {
			lvl, pn := lvl, pn
			e := parts[pn]
			get := func(c *call) *ics23.ExistenceProof { return existParts(c.proofs[lvl])[pn] }
			pre := fmt.Sprintf("mut:proof/l%d/%s/", lvl, pn)
			ms = append(ms,
				mut{pre + "key", func(c *call) { get(c).Key = flip(get(c).Key, r) }},
				mut{pre + "value", func(c *call) { get(c).Value = flip(get(c).Value, r) }},
				mut{pre + "leaf-prefix", func(c *call) { get(c).Leaf.Prefix = flip(get(c).Leaf.Prefix, r) }},
				mut{pre + "leaf-hash", func(c *call) { get(c).Leaf.Hash = ics23.HashOp_SHA512 }},
				mut{pre + "leaf-prehash-value", func(c *call) { get(c).Leaf.PrehashValue = ics23.HashOp_NO_HASH }},
				mut{pre + "leaf-prehash-key", func(c *call) { get(c).Leaf.PrehashKey = ics23.HashOp_SHA256 }},
				mut{pre + "leaf-length", func(c *call) { get(c).Leaf.Length = ics23.LengthOp_NO_PREFIX }},
				mut{pre + "leaf-nil", func(c *call) { get(c).Leaf = nil }},
			)
			for j := range e.Path {
				j := j
				ms = append(ms,
					mut{pre + "inner-prefix", func(c *call) { get(c).Path[j].Prefix = flip(get(c).Path[j].Prefix, r) }},
					mut{pre + "inner-suffix", func(c *call) {
						ip := get(c).Path[j]
						if len(ip.Suffix) == 0 {
							ip.Suffix = []byte{7}
						} else {
							ip.Suffix = flip(ip.Suffix, r)
						}
					}},
					mut{pre + "inner-hash", func(c *call) { get(c).Path[j].Hash = ics23.HashOp_SHA512 }},
					mut{pre + "inner-drop", func(c *call) {
						e := get(c)
						e.Path = append(append([]*ics23.InnerOp{}, e.Path[:j]...), e.Path[j+1:]...)
					}},
					mut{pre + "inner-dup", func(c *call) {
						e := get(c)
						np := append([]*ics23.InnerOp{}, e.Path[:j+1]...)
						np = append(np, e.Path[j:]...)
						e.Path = np
					}},
				)
				if j+1 < len(e.Path) && !bytes.Equal(mustMarshal(e.Path[j]), mustMarshal(e.Path[j+1])) {
					ms = append(ms, mut{pre + "inner-swap", func(c *call) {
						e := get(c)
						e.Path[j], e.Path[j+1] = e.Path[j+1], e.Path[j]
					}})
				}
			}
		}
		if n := c.proofs[lvl].GetNonexist(); n != nil {
			lvl := lvl
			if n.Left != nil && n.Right != nil {
				ms = append(ms,
					mut{fmt.Sprintf("mut:proof/l%d/drop-left", lvl), func(c *call) { c.proofs[lvl].GetNonexist().Left = nil }},
					mut{fmt.Sprintf("mut:proof/l%d/drop-right", lvl), func(c *call) { c.proofs[lvl].GetNonexist().Right = nil }},
					mut{fmt.Sprintf("mut:proof/l%d/swap-left-right", lvl), func(c *call) {
						n := c.proofs[lvl].GetNonexist()
						n.Left, n.Right = n.Right, n.Left
					}},
				)
			}
			// NonExistenceProof.Key is not read by NonExistenceProof.Verify (the key argument is): no effect expected
			ms = append(ms, mut{fmt.Sprintf("info:proof/l%d/np-key-field", lvl), func(c *call) {
				n := c.proofs[lvl].GetNonexist()
				n.Key = flip(n.Key, r)
			}})
		}
	}
	return ms
}

func mustMarshal(op *ics23.InnerOp) []byte {
	bz, err := op.Marshal()
	if err != nil {
		panic(err)
	}
	return bz
}

// argMuts lists the single mutations of root, path, value, specs and the proof list shape.
func argMuts(c call, w *world, r *hx.Rng) []mut {
	store := string(c.path[0])
	var otherStore string
	for _, n := range w.names {
		if n != store {
			otherStore = n
		}
	}
	ks := w.sorted[store]
	otherKey := ks[r.Intn(len(ks))]
	for otherKey == string(c.path[1]) && len(ks) > 1 {
		otherKey = ks[r.Intn(len(ks))]
	}
	ms := []mut{
		{"mut:root/flip", func(c *call) { c.root.h = flip(c.root.h, r) }},
		{"mut:root/truncate", func(c *call) { c.root.h = c.root.h[:len(c.root.h)-1] }},
		{"mut:root/extend", func(c *call) { c.root.h = append(c.root.h, 0) }},
		{"mut:root/level0-subroot", func(c *call) {
			// the root of the IAVL store instead of the app hash
			if sr, err := c.proofs[0].Calculate(); err == nil {
				c.root.h = sr
			} else {
				c.root.h = flip(c.root.h, r)
			}
		}},
		{"guard:root/empty", func(c *call) { c.root.h = []byte{} }},
		{"guard:root/nil-hash", func(c *call) { c.root.h = nil }},
		{"guard:root/nil-interface", func(c *call) { c.root = rootArg{t: "nil"} }},
		{"shape:root/nil-pointer", func(c *call) { c.root = rootArg{t: "nilptr"} }},
		{"mut:path/store-other", func(c *call) { c.path[0] = []byte(otherStore) }},
		{"mut:path/store-flip", func(c *call) { c.path[0] = flip(c.path[0], r) }},
		{"mut:path/store-empty", func(c *call) { c.path[0] = []byte{} }},
		{"mut:path/key-flip", func(c *call) { c.path[1] = flip(c.path[1], r) }},
		{"mut:path/key-extend", func(c *call) { c.path[1] = append(c.path[1], 0) }},
		{"mut:path/key-truncate", func(c *call) {
			if len(c.path[1]) > 1 {
				c.path[1] = c.path[1][:len(c.path[1])-1]
			} else {
				c.path[1] = []byte{c.path[1][0] ^ 0x80}
			}
		}},
		{"mut:path/key-empty", func(c *call) { c.path[1] = []byte{} }},
		{"mut:path/swap", func(c *call) { c.path[0], c.path[1] = c.path[1], c.path[0] }},
		{"guard:path/extra-element", func(c *call) { c.path = append(c.path, c.path[1]) }},
		{"guard:path/extra-front", func(c *call) { c.path = append([][]byte{c.path[0]}, c.path...) }},
		{"guard:path/drop-store", func(c *call) { c.path = c.path[1:] }},
		{"guard:path/drop-key", func(c *call) { c.path = c.path[:1] }},
		{"guard:path/empty", func(c *call) { c.path = nil }},
		{"guard:path/not-merklepath", func(c *call) { c.pathOK = false }},
		{"guard:specs/nil-0", func(c *call) { c.specs[0] = nil }},
		{"guard:specs/nil-1", func(c *call) { c.specs[1] = nil }},
		{"guard:specs/short", func(c *call) { c.specs = c.specs[:1] }},
		{"guard:specs/long", func(c *call) { c.specs = append(c.specs, ics23.TendermintSpec) }},
		{"guard:specs/empty", func(c *call) { c.specs = nil }},
		{"mut:specs/swap", func(c *call) { c.specs[0], c.specs[1] = c.specs[1], c.specs[0] }},
		{"mut:specs/smt-0", func(c *call) { c.specs[0] = ics23.SmtSpec }},
		{"mut:specs/smt-1", func(c *call) { c.specs[1] = ics23.SmtSpec }},
		{"mut:specs/both-tendermint", func(c *call) { c.specs[0] = ics23.TendermintSpec }},
		{"mut:specs/both-iavl", func(c *call) { c.specs[1] = ics23.IavlSpec }},
		{"guard:proofs/nil", func(c *call) { c.proofNil = true }},
		{"guard:proofs/empty", func(c *call) { c.proofs = []*ics23.CommitmentProof{} }},
		{"guard:proofs/drop-level0", func(c *call) { c.proofs = c.proofs[1:] }},
		{"guard:proofs/drop-level1", func(c *call) { c.proofs = c.proofs[:1] }},
		{"guard:proofs/dup-level0", func(c *call) { c.proofs = []*ics23.CommitmentProof{c.proofs[0], c.proofs[0], c.proofs[1]} }},
		{"guard:proofs/dup-level1", func(c *call) { c.proofs = []*ics23.CommitmentProof{c.proofs[0], c.proofs[1], c.proofs[1]} }},
		{"mut:proofs/swap-levels", func(c *call) { c.proofs[0], c.proofs[1] = c.proofs[1], c.proofs[0] }},
		{"mut:proofs/level1-twice", func(c *call) { c.proofs[0] = cloneProof(c.proofs[1]) }},
		{"mut:proofs/level0-twice", func(c *call) { c.proofs[1] = cloneProof(c.proofs[0]) }},
		{"shape:proofs/nil-entry-0", func(c *call) { c.proofs[0] = nil }},
		{"shape:proofs/nil-entry-1", func(c *call) { c.proofs[1] = nil }},
		{"mut:proofs/empty-commitment-proof-0", func(c *call) { c.proofs[0] = &ics23.CommitmentProof{} }},
		{"mut:proofs/empty-commitment-proof-1", func(c *call) { c.proofs[1] = &ics23.CommitmentProof{} }},
		{"mut:proofs/level0-empty-exist", func(c *call) {
			c.proofs[0] = &ics23.CommitmentProof{Proof: &ics23.CommitmentProof_Exist{Exist: &ics23.ExistenceProof{}}}
		}},
		{"mut:kind/other-function", func(c *call) {
			c.nm = !c.nm
			if !c.nm && len(c.value) == 0 {
				c.value = []byte{1, 2, 3}
			}
		}},
		{"mut:path/key-other-existing", func(c *call) { c.path[1] = []byte(otherKey) }},
	}
	if !c.nm {
		ov := w.get(store, []byte(otherKey))
		ms = append(ms,
			mut{"mut:value/flip", func(c *call) { c.value = flip(c.value, r) }},
			mut{"mut:value/extend", func(c *call) { c.value = append(c.value, 0) }},
			mut{"mut:value/truncate", func(c *call) {
				if len(c.value) > 1 {
					c.value = c.value[:len(c.value)-1]
				} else {
					c.value = []byte{c.value[0] ^ 1}
				}
			}},
			mut{"mut:value/other-key's", func(c *call) {
				if bytes.Equal(ov, c.value) {
					c.value = flip(c.value, r)
				} else {
					c.value = ov
				}
			}},
			mut{"mut:value/subroot", func(c *call) {
				if sr, err := c.proofs[0].Calculate(); err == nil {
					c.value = sr
				} else {
					c.value = flip(c.value, r)
				}
			}},
			mut{"guard:value/empty", func(c *call) { c.value = []byte{} }},
			mut{"guard:value/nil", func(c *call) { c.value = nil }},
		)
	}
	return ms
}

func absentKey(w *world, store string, r *hx.Rng) ([]byte, string) {
	ks := w.sorted[store]
	for try := 0; ; try++ {
		var k []byte
		var tag string
		switch r.Intn(6) {
		case 0:
			k, tag = []byte{0}, "before-first"
		case 1:
			k, tag = []byte{0xff, 0xff, 0xff, 0xff, 0xfe}, "after-last"
		case 2:
			k, tag = append([]byte(ks[r.Intn(len(ks))]), 0), "successor"
		case 3:
			b := []byte(ks[r.Intn(len(ks))])
			k, tag = flip(b, r), "neighbour"
		case 4:
			b := []byte(ks[r.Intn(len(ks))])
			if len(b) > 1 {
				b = b[:len(b)-1]
			}
			k, tag = b, "prefix-of-key"
		default:
			k, tag = randKey(r), "random"
		}
		if len(k) > 0 && w.get(store, k) == nil {
			return k, tag
		}
	}
}

func famVerify(t *testing.T, r *hx.Rng, o *hx.Out) {
	worlds := hx.N(3, 60)
	for wi := 0; wi < worlds; wi++ {
		w := newWorld(t, r)
		var stale *call // an honest call whose proof and root belong to the previous version
		for round := 0; round < 2; round++ {
			nMem, nNon := 2, 2
			for i := 0; i < nMem+nNon; i++ {
				store := w.names[0]
				if r.Chance(1, 3) {
					store = w.names[r.Intn(len(w.names))]
				}
				ks := w.sorted[store]
				var c call
				var kind string
				if i < nMem {
					key := []byte(ks[r.Intn(len(ks))])
					c = call{specs: commitmenttypes.GetSDKSpecs(), root: rootArg{t: "hash", h: w.root}, pathOK: true,
						path: [][]byte{[]byte(store), key}, value: w.get(store, key), proofs: w.prove(t, store, key).Proofs}
					kind = "honest:membership"
				} else {
					key, how := absentKey(w, store, r)
					c = call{nm: true, specs: commitmenttypes.GetSDKSpecs(), root: rootArg{t: "hash", h: w.root}, pathOK: true,
						path: [][]byte{[]byte(store), key}, proofs: w.prove(t, store, key).Proofs}
					kind = "honest:non-membership/" + how
				}
				c = c.clone()
				c.emit(o, w, kind)
				if stale != nil && round == 1 {
					// the previous version's proof against the new root, and the new proof against the old root
					s := stale.clone()
					s.root.h = append([]byte{}, w.root...)
					s.emit(o, w, "mut:root/stale-proof-new-root")
					n := c.clone()
					n.root.h = append([]byte{}, stale.root.h...)
					n.emit(o, w, "mut:root/new-proof-old-root")
					stale = nil
				}
				for _, m := range append(argMuts(c, w, r), proofMuts(c, r)...) {
					d := c.clone()
					m.f(&d)
					d.emit(o, w, m.tag)
				}
				if round == 0 && i == 0 {
					cc := c.clone()
					stale = &cc
				}
			}
			if round == 0 {
				// next version: every store changes, so every root changes
				w.fill(r, 1)
			}
		}
	}
	// degenerate shapes: no levels at all
	for i := 0; i < hx.N(12, 200); i++ {
		root := r.Bytes(1 + r.Intn(33))
		c := call{root: rootArg{t: "hash", h: root}, pathOK: true, proofs: []*ics23.CommitmentProof{}}
		switch r.Intn(4) {
		case 0:
			c.value = append([]byte{}, root...)
		case 1:
			c.value = flip(root, r)
		case 2:
			c.value = nil
		default:
			c.nm = true
		}
		if r.Chance(1, 6) {
			c.specs = []*ics23.ProofSpec{}
			c.path = [][]byte{}
		}
		c.emit(o, nil, "degenerate:no-levels")
	}
}
