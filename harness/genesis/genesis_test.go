// Package genesis is the `genesis` scenario family (C44): histories on three ibctesting chains, then for each
// chain: export the IBC + app module genesis with the real modules, wipe those module stores, InitGenesis from
// the export, compare the stores key by key, re-export and compare, and finally continue relaying the packets
// that were in flight on the restored chains.
package genesis

import (
	"bytes"
	"crypto/sha256"
	"encoding/hex"
	"encoding/json"
	"fmt"
	"os"
	"regexp"
	"sort"
	"strings"
	"testing"
	"time"

	sdkmath "cosmossdk.io/math"

	abci "github.com/cometbft/cometbft/abci/types"

	"github.com/cosmos/cosmos-sdk/codec"
	sdk "github.com/cosmos/cosmos-sdk/types"
	"github.com/cosmos/cosmos-sdk/types/module"

	icatypes "github.com/cosmos/ibc-go/v11/modules/apps/27-interchain-accounts/types"
	ratelimittypes "github.com/cosmos/ibc-go/v11/modules/apps/rate-limiting/types"
	transfertypes "github.com/cosmos/ibc-go/v11/modules/apps/transfer/types"
	clienttypes "github.com/cosmos/ibc-go/v11/modules/core/02-client/types"
	clientv2types "github.com/cosmos/ibc-go/v11/modules/core/02-client/v2/types"
	channeltypes "github.com/cosmos/ibc-go/v11/modules/core/04-channel/types"
	channeltypesv2 "github.com/cosmos/ibc-go/v11/modules/core/04-channel/v2/types"
	commitmenttypes "github.com/cosmos/ibc-go/v11/modules/core/23-commitment/types"
	host "github.com/cosmos/ibc-go/v11/modules/core/24-host"
	ibctm "github.com/cosmos/ibc-go/v11/modules/light-clients/07-tendermint"
	ibctesting "github.com/cosmos/ibc-go/v11/testing"
	ibcmock "github.com/cosmos/ibc-go/v11/testing/mock"
	mockv2 "github.com/cosmos/ibc-go/v11/testing/mock/v2"

	"verif/harness/hx"
)

// module name -> store key name, in the application's InitGenesis order
var modules = [][2]string{
	{"ibc", "ibc"},
	{"transfer", "transfer"},
	{"ratelimit", "ratelimit"},
	{"packetfowardmiddleware", "packetfowardmiddleware"},
	{"interchainaccounts", ""}, // two stores: icacontroller, icahost
	{"gmp", "gmp"},
}

var stores = []string{"ibc", "transfer", "ratelimit", "packetfowardmiddleware", "icacontroller", "icahost", "gmp"}

func TestFamily(t *testing.T) {
	r := hx.NewRng("genesis")
	o := hx.NewOut()
	defer o.Close()
	n := hx.N(5, 60)
	// corpus first: the F6 crafted client, and one history with every feature
	runHistory(t, r, o, "corpus-f6", feature{f6: true, v1Done: 1, v2Mock: 1})
	runHistory(t, r, o, "corpus-sameid", feature{sameIDs: true, v1Done: 1, v2Mock: 2})
	runHistory(t, r, o, "corpus-all", feature{v1Done: 1, v1InFlightAB: 1, v1InFlightBA: 1, v1Unacked: 1, ordered: 3, v2Mock: 2, v2Unacked: 1, v2Async: 1,
		alias: 1, aliasInFlight: 1, rateLimit: true, ica: true, pfm: true, v1Timeout: 1})
	runHistory(t, r, o, "corpus-noalias", feature{v1Done: 2, v1InFlightAB: 1, v1Unacked: 1, ordered: 2, v2Mock: 2, v2Unacked: 1, rateLimit: true, ica: true, v1Timeout: 1})
	for i := 0; i < n; i++ {
		f := feature{
			v1Done: r.Intn(3), v1InFlightAB: r.Intn(3), v1InFlightBA: r.Intn(2), v1Unacked: r.Intn(2), ordered: r.Intn(4),
			v2Mock: r.Intn(3), v2Unacked: r.Intn(2), v2Async: r.Intn(2),
			rateLimit: r.Bool(), ica: r.Chance(1, 3), pfm: r.Chance(1, 3), v1Timeout: r.Intn(2), f6: r.Chance(1, 5),
		}
		if r.Chance(1, 3) {
			f.alias = r.Intn(2)
			f.aliasInFlight = r.Intn(2)
		}
		runHistory(t, r, o, "random", f)
	}
	t.Logf("records=%d", o.Count())
}

type feature struct {
	v1Done, v1InFlightAB, v1InFlightBA, v1Unacked, ordered int
	v2Mock, v2Unacked, v2Async                             int
	alias, aliasInFlight                                   int
	v1Timeout                                              int
	rateLimit, ica, pfm, f6                                bool
	sameIDs                                                bool // F7: v2 client ids equal on both chains
}

type kv struct{ store, key, val string }

type contOp struct {
	name  string
	alias bool
	run   func() error
}

func dbg(format string, a ...any) {
	if os.Getenv("GENESIS_DEBUG") != "" {
		fmt.Fprintf(os.Stderr, format+"\n", a...)
	}
}

func dump(c *ibctesting.TestChain) map[string]map[string]string {
	out := map[string]map[string]string{}
	ctx := c.GetContext()
	for _, s := range stores {
		k := c.GetSimApp().GetKey(s)
		m := map[string]string{}
		it := ctx.KVStore(k).Iterator(nil, nil)
		for ; it.Valid(); it.Next() {
			m[string(it.Key())] = string(it.Value())
		}
		it.Close()
		out[s] = m
	}
	return out
}

func wipe(c *ibctesting.TestChain) {
	ctx := c.GetContext()
	for _, s := range stores {
		st := ctx.KVStore(c.GetSimApp().GetKey(s))
		var keys [][]byte
		it := st.Iterator(nil, nil)
		for ; it.Valid(); it.Next() {
			keys = append(keys, append([]byte{}, it.Key()...))
		}
		it.Close()
		for _, k := range keys {
			st.Delete(k)
		}
	}
}

func exportAll(c *ibctesting.TestChain) (map[string]json.RawMessage, string) {
	ctx := c.GetContext()
	cdc := c.App.AppCodec()
	out := map[string]json.RawMessage{}
	for _, m := range modules {
		mod := c.GetSimApp().ModuleManager.Modules[m[0]]
		var bz json.RawMessage
		p, msg := hx.Catch(func() {
			switch g := mod.(type) {
			case module.HasGenesis:
				bz = g.ExportGenesis(ctx, cdc)
			case module.HasABCIGenesis:
				bz = g.ExportGenesis(ctx, cdc)
			default:
				panic(fmt.Sprintf("module %s has no genesis", m[0]))
			}
		})
		if p {
			dbg("export %s panicked: %s", m[0], msg)
			return nil, "panic:" + m[0]
		}
		out[m[0]] = bz
	}
	return out, "ok"
}

func initAll(c *ibctesting.TestChain, gs map[string]json.RawMessage) string {
	ctx := c.GetContext()
	var cdc codec.JSONCodec = c.App.AppCodec()
	for _, m := range modules {
		mod := c.GetSimApp().ModuleManager.Modules[m[0]]
		p, msg := hx.Catch(func() {
			switch g := mod.(type) {
			case module.HasGenesis:
				g.InitGenesis(ctx, cdc, gs[m[0]])
			case module.HasABCIGenesis:
				g.InitGenesis(ctx, cdc, gs[m[0]])
			}
		})
		if p {
			dbg("init %s panicked: %s", m[0], msg)
			return "panic:" + m[0]
		}
	}
	return "ok"
}

func digest(v string) string {
	h := sha256.Sum256([]byte(v))
	return hx.H(h[:6])
}

// roundTrip performs export -> wipe -> init -> compare -> re-export on one chain, in place.
func roundTrip(c *ibctesting.TestChain) map[string]any {
	before := dump(c)
	res := map[string]any{}
	gs, st := exportAll(c)
	res["export"] = st
	state := [][]string{}
	for _, s := range stores {
		keys := make([]string, 0, len(before[s]))
		for k := range before[s] {
			keys = append(keys, k)
		}
		sort.Strings(keys)
		for _, k := range keys {
			val := digest(before[s][k])
			if s == "ibc" && strings.HasPrefix(k, "clients/") && strings.HasSuffix(k, "/counterparty") {
				// the model's F8 check reads the counterparty's client id: project the value to that field
				var info clientv2types.CounterpartyInfo
				if err := c.App.AppCodec().Unmarshal([]byte(before[s][k]), &info); err == nil {
					val = hx.HS(info.ClientId)
				}
			}
			state = append(state, []string{s, hx.HS(k), val})
		}
	}
	res["state"] = state
	if st != "ok" {
		return res
	}
	wipe(c)
	res["init"] = initAll(c, gs)
	after := dump(c)
	lost, extra, changed := [][]string{}, [][]string{}, [][]string{}
	for _, s := range stores {
		for k, v := range before[s] {
			v2, ok := after[s][k]
			if !ok {
				lost = append(lost, []string{s, hx.HS(k)})
			} else if v2 != v {
				changed = append(changed, []string{s, hx.HS(k)})
			}
		}
		for k := range after[s] {
			if _, ok := before[s][k]; !ok {
				extra = append(extra, []string{s, hx.HS(k)})
			}
		}
	}
	for _, l := range [][][]string{lost, extra, changed} {
		sort.Slice(l, func(i, j int) bool { return l[i][0]+l[i][1] < l[j][0]+l[j][1] })
	}
	res["lost"], res["extra"], res["changed"] = lost, extra, changed
	gs2, st2 := exportAll(c)
	res["reexport"] = st2
	same := map[string]bool{}
	if st2 == "ok" {
		for _, m := range modules {
			same[m[0]] = bytes.Equal(gs[m[0]], gs2[m[0]])
		}
	}
	res["reexport_same"] = same
	if st2 == "ok" && !same["ratelimit"] {
		dbg("ratelimit export 1: %s\nratelimit export 2: %s", gs["ratelimit"], gs2["ratelimit"])
	}
	return res
}

func mustT(t *testing.T, err error, what string) {
	t.Helper()
	if err != nil {
		t.Fatalf("history setup (%s): %v", what, err)
	}
}

func runHistory(t *testing.T, r *hx.Rng, o *hx.Out, tag string, f feature) {
	coord := ibctesting.NewCoordinator(t, 3)
	A := coord.GetChain(ibctesting.GetChainID(1))
	B := coord.GetChain(ibctesting.GetChainID(2))
	C := coord.GetChain(ibctesting.GetChainID(3))
	ops := []string{}
	note := func(s string) { ops = append(ops, s) }
	var cont []contOp
	if os.Getenv("GENESIS_HOUR0") == "" {
		// ibctesting's clock starts at 00:00 UTC, where the rate-limit hour epoch has number 0, which
		// rate-limiting InitGenesis treats as "not initialised" (see docs/sys.md); move past the first hour
		coord.IncrementTimeBy(95 * time.Minute)
		coord.CommitBlock(A, B, C)
		coord.CommitBlock(A, B, C)
	}
	// ibctesting runs InitChain with a zero block time, which leaves the rate-limit hour epoch uninitialised (zero
	// start time); give every chain the epoch a chain started with a real clock has
	for _, c := range []*ibctesting.TestChain{A, B, C} {
		ctx := c.GetContext()
		mustT(t, c.GetSimApp().RateLimitKeeper.SetHourEpoch(ctx, ratelimittypes.HourEpoch{
			EpochNumber: uint64(ctx.BlockTime().Hour()), Duration: time.Hour,
			EpochStartTime: ctx.BlockTime().Truncate(time.Hour), EpochStartHeight: ctx.BlockHeight()}), "hour epoch")
	}
	coord.CommitBlock(A, B, C)

	if !f.sameIDs {
		// chains number their clients independently; shift A's numbering so that a client and its counterparty
		// never carry the same identifier (the equal-identifier case is the corpus history "corpus-sameid")
		pX := ibctesting.NewPath(A, B)
		mustT(t, pX.EndpointA.CreateClient(), "offset client")
	} else {
		note("same-ids")
	}
	pT := ibctesting.NewTransferPath(A, B)
	pT.Setup()
	aAddr := A.SenderAccount.GetAddress().String()
	bAddr := B.SenderAccount.GetAddress().String()
	cAddr := C.SenderAccount.GetAddress().String()

	if f.rateLimit {
		mustT(t, A.GetSimApp().RateLimitKeeper.AddRateLimit(A.GetContext(), &ratelimittypes.MsgAddRateLimit{
			Signer: A.App.GetIBCKeeper().GetAuthority(), Denom: sdk.DefaultBondDenom, ChannelOrClientId: pT.EndpointA.ChannelID,
			MaxPercentSend: sdkmath.NewInt(50), MaxPercentRecv: sdkmath.NewInt(50), DurationHours: 24}), "rate limit")
		coord.CommitBlock(A)
		note("rate-limit")
	}

	sendV1 := func(from *ibctesting.Endpoint, coin sdk.Coin, sender, receiver string, th clienttypes.Height, memo string) channeltypes.Packet {
		msg := transfertypes.NewMsgTransfer(from.ChannelConfig.PortID, from.ChannelID, coin, sender, receiver, th, 0, memo)
		res, err := from.Chain.SendMsgs(msg)
		mustT(t, err, "transfer")
		p, err := ibctesting.ParseV1PacketFromEvents(res.Events)
		mustT(t, err, "parse packet")
		return p
	}
	farHeight := clienttypes.NewHeight(1, 100000)
	coin := func(n int64) sdk.Coin { return sdk.NewCoin(sdk.DefaultBondDenom, sdkmath.NewInt(n)) }

	for i := 0; i < f.v1Done; i++ {
		p := sendV1(pT.EndpointA, coin(100+int64(i)), aAddr, bAddr, farHeight, "")
		mustT(t, pT.RelayPacket(p), "relay v1")
		note("v1-done")
	}
	for i := 0; i < f.v1InFlightAB; i++ {
		p := sendV1(pT.EndpointA, coin(7+int64(i)), aAddr, bAddr, farHeight, "")
		note("v1-inflight-ab")
		cont = append(cont, contOp{"relay v1 A->B in flight", false, func() error { return pT.RelayPacket(p) }})
	}
	for i := 0; i < f.v1InFlightBA; i++ {
		p := sendV1(pT.EndpointB, coin(5+int64(i)), bAddr, aAddr, farHeight, "")
		note("v1-inflight-ba")
		cont = append(cont, contOp{"relay v1 B->A in flight", false, func() error { return pT.RelayPacket(p) }})
	}
	for i := 0; i < f.v1Unacked; i++ {
		p := sendV1(pT.EndpointA, coin(11+int64(i)), aAddr, bAddr, farHeight, "")
		mustT(t, pT.EndpointB.UpdateClient(), "update")
		res, err := pT.EndpointB.RecvPacketWithResult(p)
		mustT(t, err, "recv")
		ack, err := ibctesting.ParseAckFromEvents(res.Events)
		mustT(t, err, "parse ack")
		note("v1-unacked")
		cont = append(cont, contOp{"ack v1 received packet", false, func() error { return pT.EndpointA.AcknowledgePacket(p, ack) }})
	}
	for i := 0; i < f.v1Timeout; i++ {
		th := clienttypes.NewHeight(1, uint64(B.GetContext().BlockHeight())+3)
		p := sendV1(pT.EndpointA, coin(3), aAddr, bAddr, th, "")
		note("v1-to-timeout")
		cont = append(cont, contOp{"timeout v1 packet", false, func() error {
			coord.CommitNBlocks(B, 4)
			if err := pT.EndpointA.UpdateClient(); err != nil {
				return err
			}
			return timeoutV1(pT.EndpointA, p)
		}})
	}

	if f.ordered > 0 {
		pO := ibctesting.NewPath(A, B)
		pO.SetChannelOrdered()
		pO.Setup()
		for i := 0; i < f.ordered; i++ {
			seq, err := pO.EndpointA.SendPacket(farHeight, 0, ibcmock.MockPacketData)
			mustT(t, err, "ordered send")
			p := channeltypes.NewPacket(ibcmock.MockPacketData, seq, pO.EndpointA.ChannelConfig.PortID, pO.EndpointA.ChannelID,
				pO.EndpointB.ChannelConfig.PortID, pO.EndpointB.ChannelID, farHeight, 0)
			if i == 0 && f.ordered > 1 {
				mustT(t, pO.RelayPacket(p), "ordered relay")
				note("ordered-done")
			} else {
				note("ordered-inflight")
				cont = append(cont, contOp{fmt.Sprintf("relay ordered packet %d", seq), false, func() error { return pO.RelayPacket(p) }})
			}
		}
	}

	if f.v2Mock+f.v2Unacked+f.v2Async > 0 {
		pV := ibctesting.NewPath(A, B)
		pV.SetupV2()
		ts := func() uint64 { return uint64(B.GetContext().BlockTime().Add(time.Hour).Unix()) }
		for i := 0; i < f.v2Mock; i++ {
			p, err := pV.EndpointA.MsgSendPacket(ts(), mockv2.NewMockPayload(mockv2.ModuleNameA, mockv2.ModuleNameB))
			mustT(t, err, "v2 send")
			if i == 0 && f.v2Mock > 1 {
				mustT(t, pV.EndpointA.RelayPacket(p), "v2 relay")
				note("v2-done")
			} else {
				note("v2-inflight")
				cont = append(cont, contOp{"relay v2 packet in flight", false, func() error { return pV.EndpointA.RelayPacket(p) }})
			}
		}
		for i := 0; i < f.v2Unacked; i++ {
			p, err := pV.EndpointB.MsgSendPacket(uint64(A.GetContext().BlockTime().Add(time.Hour).Unix()), mockv2.NewMockPayload(mockv2.ModuleNameB, mockv2.ModuleNameA))
			mustT(t, err, "v2 send B")
			ack, err := pV.EndpointA.MsgRecvPacketWithAck(p)
			mustT(t, err, "v2 recv")
			note("v2-unacked")
			cont = append(cont, contOp{"ack v2 received packet", false, func() error { return pV.EndpointB.MsgAcknowledgePacket(p, ack) }})
		}
		for i := 0; i < f.v2Async; i++ {
			p, err := pV.EndpointB.MsgSendPacket(uint64(A.GetContext().BlockTime().Add(time.Hour).Unix()), mockv2.NewAsyncMockPayload(mockv2.ModuleNameB, mockv2.ModuleNameA))
			mustT(t, err, "v2 async send")
			mustT(t, pV.EndpointA.MsgRecvPacket(p), "v2 async recv")
			note("v2-async")
		}
	}

	for i := 0; i < f.alias+f.aliasInFlight; i++ {
		ts := uint64(B.GetContext().BlockTime().Add(time.Hour).Unix())
		msg := transfertypes.NewMsgTransferAliased(pT.EndpointA.ChannelConfig.PortID, pT.EndpointA.ChannelID, coin(9), aAddr, bAddr, clienttypes.Height{}, ts, "")
		res, err := A.SendMsgs(msg)
		mustT(t, err, "alias send")
		p2, err := ibctesting.ParseV2PacketFromEvents(res.Events)
		mustT(t, err, "alias parse")
		mustT(t, pT.EndpointB.UpdateClient(), "alias update")
		pv2 := ibctesting.NewPath(A, B)
		pv2.EndpointA.ClientID = pT.EndpointA.ClientID
		pv2.EndpointB.ClientID = pT.EndpointB.ClientID
		if i < f.alias {
			mustT(t, pv2.EndpointA.RelayPacket(p2), "alias relay")
			note("alias-done")
		} else {
			note("alias-inflight")
			cont = append(cont, contOp{"relay v2-over-alias packet in flight", true, func() error { return pv2.EndpointA.RelayPacket(p2) }})
		}
	}

	if f.ica {
		pI := ibctesting.NewPath(A, B)
		ver := string(icatypes.ModuleCdc.MustMarshalJSON(&icatypes.Metadata{Version: icatypes.Version, ControllerConnectionId: pT.EndpointA.ConnectionID,
			HostConnectionId: pT.EndpointB.ConnectionID, Encoding: icatypes.EncodingProtobuf, TxType: icatypes.TxTypeSDKMultiMsg}))
		pI.EndpointA.ClientID, pI.EndpointB.ClientID = pT.EndpointA.ClientID, pT.EndpointB.ClientID
		pI.EndpointA.ConnectionID, pI.EndpointB.ConnectionID = pT.EndpointA.ConnectionID, pT.EndpointB.ConnectionID
		pI.EndpointA.ChannelConfig.PortID, pI.EndpointB.ChannelConfig.PortID = icatypes.HostPortID, icatypes.HostPortID
		pI.EndpointA.ChannelConfig.Order, pI.EndpointB.ChannelConfig.Order = channeltypes.ORDERED, channeltypes.ORDERED
		pI.EndpointA.ChannelConfig.Version, pI.EndpointB.ChannelConfig.Version = ver, ver
		owner := aAddr
		portID, err := icatypes.NewControllerPortID(owner)
		mustT(t, err, "ica port")
		seq := A.App.GetIBCKeeper().ChannelKeeper.GetNextChannelSequence(A.GetContext())
		mustT(t, A.GetSimApp().ICAControllerKeeper.RegisterInterchainAccount(A.GetContext(), pI.EndpointA.ConnectionID, owner, ver, channeltypes.ORDERED), "ica register")
		A.NextBlock()
		pI.EndpointA.ChannelID = channeltypes.FormatChannelIdentifier(seq)
		pI.EndpointA.ChannelConfig.PortID = portID
		mustT(t, pI.EndpointB.ChanOpenTry(), "ica try")
		mustT(t, pI.EndpointA.ChanOpenAck(), "ica ack")
		mustT(t, pI.EndpointB.ChanOpenConfirm(), "ica confirm")
		note("ica")
	}

	if f.pfm {
		pBC := ibctesting.NewTransferPath(B, C)
		pBC.Setup()
		memo := fmt.Sprintf(`{"forward":{"receiver":"%s","port":"%s","channel":"%s"}}`, cAddr, pBC.EndpointA.ChannelConfig.PortID, pBC.EndpointA.ChannelID)
		p := sendV1(pT.EndpointA, coin(21), aAddr, bAddr, farHeight, memo)
		mustT(t, pT.EndpointB.UpdateClient(), "pfm update")
		res, err := pT.EndpointB.RecvPacketWithResult(p)
		mustT(t, err, "pfm recv")
		fwd, err := ibctesting.ParseV1PacketFromEvents(res.Events)
		if err != nil {
			dbg("pfm: no forwarded packet in events: %v", err)
		} else {
			note("pfm-inflight")
			cont = append(cont, contOp{"relay PFM-forwarded packet and acknowledge the original", false, func() error {
				if err := pBC.EndpointB.UpdateClient(); err != nil {
					return err
				}
				r2, err := pBC.EndpointB.RecvPacketWithResult(fwd)
				if err != nil {
					return err
				}
				ack, err := ibctesting.ParseAckFromEvents(r2.Events)
				if err != nil {
					return err
				}
				// acknowledging on B makes PFM write the acknowledgement of the original packet
				ackRes, err := pBC.EndpointA.AcknowledgePacketWithResult(fwd, ack)
				if err != nil {
					return err
				}
				origAck, err := ibctesting.ParseAckFromEvents(ackRes.Events)
				if err != nil {
					return fmt.Errorf("original ack not written: %w", err)
				}
				if err := pT.EndpointA.UpdateClient(); err != nil {
					return err
				}
				return pT.EndpointA.AcknowledgePacket(p, origAck)
			}})
		}
	}

	if f.f6 {
		// permissionless MsgCreateClient whose consensus-state iteration key contains the bytes "clientState"
		coord.CommitBlock(B)
		tmc := ibctesting.NewTendermintConfig()
		cs := ibctm.NewClientState("evil-7164216991605347188", tmc.TrustLevel, tmc.TrustingPeriod, tmc.UnbondingPeriod, tmc.MaxClockDrift,
			clienttypes.NewHeight(7164216991605347188, 7022348769651851265), commitmenttypes.GetSDKSpecs(), ibctesting.UpgradePath)
		msg, err := clienttypes.NewMsgCreateClient(cs, B.LatestCommittedHeader.ConsensusState(), aAddr)
		mustT(t, err, "f6 msg")
		_, err = A.SendMsgs(msg)
		mustT(t, err, "f6 create")
		note("f6-client")
	}

	// ---- round trips, then continuation on the restored chains
	out := map[string]any{}
	chains := map[string]any{}
	aliasLost := false
	for _, c := range []struct {
		n string
		c *ibctesting.TestChain
	}{{"A", A}, {"B", B}, {"C", C}} {
		rt := roundTrip(c.c)
		chains[c.n] = rt
		if l, ok := rt["lost"].([][]string); ok {
			for _, kv := range l {
				if kv[0] == "ibc" && aliasShaped(kv[1]) {
					aliasLost = true
				}
			}
		}
		o.Emit("genesis_rt", map[string]any{"ops": ops, "tag": tag, "chain": c.n}, rt, tag)
	}
	coord.CommitBlock(A, B, C)
	out["alias_lost"] = aliasLost
	contOut := []any{}
	restored := true
	for _, c := range chains {
		m, _ := c.(map[string]any)
		if m["export"] != "ok" || m["init"] != "ok" || m["reexport"] != "ok" {
			restored = false
		}
	}
	if !restored {
		cont = nil // a chain that could not be restored cannot continue
	}
	for _, c := range cont {
		var err error
		p, msg := hx.Catch(func() { err = c.run() })
		oc := "ok"
		if p {
			oc = "panic"
			dbg("cont %s panicked: %s", c.name, msg)
		} else if err != nil {
			oc = "err"
			dbg("cont %s failed: %v", c.name, err)
		}
		contOut = append(contOut, map[string]any{"op": c.name, "alias": c.alias, "outcome": oc})
	}
	out["cont"] = contOut
	// and the restored chains still produce and relay new traffic
	fresh := "ok"
	if !restored {
		fresh = "skipped"
	} else {
		var err error
		p, _ := hx.Catch(func() {
			pk := sendV1res(pT.EndpointA, coin(1), aAddr, bAddr, farHeight)
			if pk.err != nil {
				err = pk.err
				return
			}
			err = pT.RelayPacket(pk.p)
		})
		if p {
			fresh = "panic"
		} else if err != nil {
			fresh = "err"
			dbg("fresh transfer failed: %v", err)
		}
	}
	out["fresh_transfer"] = fresh
	out["restored"] = restored
	o.Emit("genesis_cont", map[string]any{"ops": ops, "tag": tag}, out, tag)
	_ = abci.ExecTxResult{}
}

var aliasRe = regexp.MustCompile(`^(channel-[0-9]+)(alias|[\x01\x02\x03].{8}|async_packet.{8})$|^clients/channel-[0-9]+/counterparty$`)

func aliasShaped(hexKey string) bool {
	b, err := hex.DecodeString(hexKey)
	return err == nil && aliasRe.Match(b)
}

// timeoutV1 is Endpoint.TimeoutPacket for an UNORDERED channel without the helper's require (a missing
// counterparty sequence after a faulty restore must be an observed failure, not an aborted run).
func timeoutV1(ep *ibctesting.Endpoint, packet channeltypes.Packet) error {
	cp := ep.Counterparty
	proof, proofHeight := cp.QueryProof(host.PacketReceiptKey(packet.GetDestPort(), packet.GetDestChannel(), packet.GetSequence()))
	next, found := cp.Chain.App.GetIBCKeeper().ChannelKeeper.GetNextSequenceRecv(cp.Chain.GetContext(), cp.ChannelConfig.PortID, cp.ChannelID)
	if !found {
		return fmt.Errorf("counterparty has no next receive sequence for %s/%s", cp.ChannelConfig.PortID, cp.ChannelID)
	}
	_, err := ep.Chain.SendMsgs(channeltypes.NewMsgTimeout(packet, next, proof, proofHeight, ep.Chain.SenderAccount.GetAddress().String()))
	return err
}

type pres struct {
	p   channeltypes.Packet
	err error
}

func sendV1res(from *ibctesting.Endpoint, coin sdk.Coin, sender, receiver string, th clienttypes.Height) pres {
	msg := transfertypes.NewMsgTransfer(from.ChannelConfig.PortID, from.ChannelID, coin, sender, receiver, th, 0, "")
	res, err := from.Chain.SendMsgs(msg)
	if err != nil {
		return pres{err: err}
	}
	p, err := ibctesting.ParseV1PacketFromEvents(res.Events)
	return pres{p: p, err: err}
}

var _ = channeltypesv2.Packet{}
