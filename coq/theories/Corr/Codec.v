(** Correspondence cases of the `codec` scenario family: C35 records (Codec/Corr35.v: ABI, proto;
    Codec/Corr35Json.v: JSON) and C47 records (Codec/Corr47.v) under one case type. *)
From IBC Require Import Lib.Bytes Lib.CorrLib Codec.Corr35 Codec.Corr35Json Codec.Corr47.

Inductive Case :=
| K35 (c : Case35)
| K35J (c : Case35J)
| K47 (c : Case47).

Definition check (c : Case) : bool :=
  match c with
  | K35 c => check35 c
  | K35J c => check35j c
  | K47 c => check47 c
  end.
