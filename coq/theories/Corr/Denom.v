(** Correspondence cases of the `denom` scenario family: each constructor carries the inputs the
    implementation was run on and the outputs it returned; [check] re-computes them with the model. *)
From IBC Require Import Lib.Bytes Lib.BytesFacts Lib.Dec Lib.CorrLib Lib.Sha256 Denom.Ident Denom.Denom Denom.Transfer Denom.Authz.
Local Open Scope N_scope.

Fixpoint list_eqb_het {A B} (f : A -> B -> bool) (a : list A) (b : list B) : bool :=
  match a, b with
  | [], [] => true
  | x :: a', y :: b' => f x y && list_eqb_het f a' b'
  | _, _ => false
  end.

Definition mk_trace (l : list (bytes * bytes)) : list Hop := map (fun pc => mkHop (fst pc) (snd pc)) l.

(** observed result of ExtractDenomFromPath + methods: (base, trace, valid, path, hash, ibc denom) *)
Record DenomObs := mkObs {
  o_base : bytes; o_trace : list (bytes * bytes); o_valid : bool; o_path : bytes; o_hash : bytes; o_ibc : bytes }.

Definition obs_matches (d : Denom) (o : DenomObs) : bool :=
  denom_eqb d (mkDenom (o_base o) (mk_trace (o_trace o))) &&
  bool_eqb (denom_validate d) (o_valid o) &&
  bytes_eqb (path d) (o_path o) &&
  bytes_eqb (denom_hash d) (o_hash o) &&
  bytes_eqb (ibc_denom d) (o_ibc o).

Inductive Case :=
| Ident (s : bytes) (port_ok chan_ok client_ok is_chan is_client sdk_ok blank : bool)
| Extract (s : bytes) (r : option DenomObs)               (* None = the call panicked *)
| DenomFns (base : bytes) (trace : list (bytes * bytes)) (port chan : bytes) (o : DenomObs) (has_pfx : bool)
| Escrow (port chan addr : bytes)
| RlSend (pd out : bytes)
| RlRecv (sp sc dp dc pd out : bytes)
| V2Reenc (pd : bytes) (out : option bytes)
| SetDenomKeys (base : bytes) (trace : list (bytes * bytes)) (new_keys : list bytes)
(* real OnRecvPacket with a recording bank: action 0 = none, 1 = mint, 2 = unescrow *)
| Ics20Recv (sp sc dp dc pd : bytes) (err panicked : bool) (action : N) (bank : option bytes) (rl : bytes)
(* real TokenFromCoin + SendTransfer with a recording bank: action 0 = none, 1 = burn, 2 = escrow *)
| Ics20Send (base : bytes) (trace : list (bytes * bytes)) (coin port chan : bytes) (err panicked : bool) (action : N)
            (bank pd rl : option bytes) (pd_valid : bool)
(* real MsgTransfer / relayed receive with the rate-limit middleware *)
| RlFlowSend (port chan coin base : bytes) (trace : list (bytes * bytes)) (ok : bool) (bank : option bytes) (rl : bytes)
| RlFlowRecv (sp sc dp dc pd : bytes) (ok : bool) (bank : option bytes) (rl : bytes)
| RoundTrip (ca cb base : bytes) (funds amt back : Z) (obs : Trip)
(* TransferAuthorization.ValidateBasic *)
| AuthzValid (g : Grant) (ok panicked : bool)
(* Accept sequences: per request (accepted?, stored grant afterwards as (port, channel, limit) list or None) *)
| AuthzRun (g : Grant) (rs : list Req) (obs : list (bool * option (list (bytes * bytes * Coins))))
(* MsgGrant + MsgExec transactions: requests with the granter's spendable balance before and a flag "the stored
   authorization accepts the message but the transaction failed" (the transfer itself failed, e.g. insufficient
   funds: the whole transaction, including the grant update, is reverted); observations with the amount that left
   the granter's account *)
| AuthzExec (g : Grant) (rs : list (Req * Z * bool)) (obs : list (bool * option (list (bytes * bytes * Coins)) * Z)).

Definition trip_eqb (a b : Trip) : bool :=
  bool_eqb (t_send1 a) (t_send1 b) && bool_eqb (t_recv1 a) (t_recv1 b) && bytes_eqb (t_voucher a) (t_voucher b) &&
  bool_eqb (t_send2 a) (t_send2 b) && bool_eqb (t_recv2 a) (t_recv2 b) &&
  (t_a_user a =? t_a_user b)%Z && (t_a_escrow a =? t_a_escrow b)%Z && (t_b_user a =? t_b_user b)%Z.

Definition coins_obs_eqb (l obs : Coins) : bool :=
  (length l =? length obs)%nat && forallb (fun dv => (amount_of l (fst dv) =? snd dv)%Z) obs.
Definition alloc_obs_eqb (a : Alloc) (o : bytes * bytes * Coins) : bool :=
  bytes_eqb (a_port a) (fst (fst o)) && bytes_eqb (a_chan a) (snd (fst o)) && coins_obs_eqb (a_limit a) (snd o).
Definition state_obs_eqb (st : State) (o : option (list (bytes * bytes * Coins))) : bool :=
  match st, o with
  | None, None => true
  | Some g, Some l => list_eqb_het alloc_obs_eqb g l
  | _, _ => false
  end.

Fixpoint run_check (st : State) (rs : list Req) (obs : list (bool * option (list (bytes * bytes * Coins)))) : bool :=
  match rs, obs with
  | [], [] => true
  | r :: rs', (ok, s) :: obs' =>
      let '(st1, ok1) := step st r in
      bool_eqb ok1 ok && state_obs_eqb st1 s && run_check st1 rs' obs'
  | _, _ => false
  end.

Fixpoint exec_check (st : State) (rs : list (Req * Z * bool)) (obs : list (bool * option (list (bytes * bytes * Coins)) * Z)) : bool :=
  match rs, obs with
  | [], [] => true
  | (r, spendable, exec_failed) :: rs', (ok, s, moved) :: obs' =>
      let '(st1, ok1) := step st r in
      if exec_failed
      then (* Accept said yes (the model must agree), the message failed afterwards: everything is reverted *)
           ok1 && negb ok && state_obs_eqb st s && (moved =? 0)%Z && exec_check st rs' obs'
      else bool_eqb ok1 ok && state_obs_eqb st1 s &&
           (moved =? (if ok1 then executed_amount r spendable else 0))%Z &&
           exec_check st1 rs' obs'
  | _, _ => false
  end.

Definition check (c : Case) : bool :=
  match c with
  | Ident s port_ok chan_ok client_ok is_chan is_client sdk_ok blank =>
      bool_eqb (port_identifier_validator s) port_ok &&
      bool_eqb (channel_identifier_validator s) chan_ok &&
      bool_eqb (client_identifier_validator s) client_ok &&
      bool_eqb (is_valid_channel_id s) is_chan &&
      bool_eqb (is_valid_client_id s) is_client &&
      bool_eqb (sdk_valid_denom s) sdk_ok &&
      bool_eqb (is_blank s) blank
  | Extract s r =>
      match extract_res s, r with
      | Ok d, Some o => obs_matches d o
      | Panic, None => true
      | _, _ => false
      end
  | DenomFns base trace port chan o has_pfx =>
      let d := mkDenom base (mk_trace trace) in
      obs_matches d o && bool_eqb (has_prefix d port chan) has_pfx
  | Escrow port chan addr => bytes_eqb (escrow_address port chan) addr
  | RlSend pd out => bytes_eqb (rl_send_denom pd) out
  | RlRecv sp sc dp dc pd out => bytes_eqb (rl_recv_denom sp sc dp dc pd) out
  | V2Reenc pd out => opt_eqb bytes_eqb (v2_reencode_denom pd) out
  | SetDenomKeys base trace new_keys =>
      list_eqb bytes_eqb [denom_store_key (mkDenom base (mk_trace trace))] new_keys
  | Ics20Recv sp sc dp dc pd err panicked action bank rl =>
      bytes_eqb (rl_recv_denom sp sc dp dc pd) rl &&
      match ics20_recv sp sc dp dc pd with
      | RPanic => panicked
      | _ => negb panicked
      end &&
      match ics20_recv sp sc dp dc pd with
      | RErr | RPanic => err && (action =? 0) && opt_eqb bytes_eqb None bank
      | RMint v => negb err && (action =? 1) && opt_eqb bytes_eqb (Some (ibc_denom v)) bank
      | RUnescrow c => negb err && (action =? 2) && opt_eqb bytes_eqb (Some c) bank
      end
  | Ics20Send base trace coin port chan err panicked action bank pd rl pd_valid =>
      let d := mkDenom base (mk_trace trace) in
      let st := mkChain [] (if is_native d then [] else set_denom [] d) in
      negb panicked && bytes_eqb coin (ibc_denom d) &&
      match token_from_coin st coin with
      | None => err && (action =? 0) && opt_eqb bytes_eqb None bank && opt_eqb bytes_eqb None pd
      | Some token =>
          negb err && opt_eqb bytes_eqb (Some (path token)) pd &&
          opt_eqb bytes_eqb (Some (rl_send_denom (path token))) rl &&
          bool_eqb (denom_validate (extract (path token))) pd_valid &&
          match ics20_send token port chan with
          | SBurn c => (action =? 1) && opt_eqb bytes_eqb (Some c) bank
          | SEscrow c => (action =? 2) && opt_eqb bytes_eqb (Some c) bank
          end
      end
  | RlFlowSend port chan coin base trace ok bank rl =>
      let token := mkDenom base (mk_trace trace) in
      bytes_eqb (rl_send_denom (path token)) rl &&
      (if ok then opt_eqb bytes_eqb (Some (send_action_denom (ics20_send token port chan))) bank
       else opt_eqb bytes_eqb None bank)
  | RlFlowRecv sp sc dp dc pd ok bank rl =>
      bytes_eqb (rl_recv_denom sp sc dp dc pd) rl &&
      (if ok then opt_eqb bytes_eqb (recv_coin sp sc dp dc pd) bank else opt_eqb bytes_eqb None bank)
  | RoundTrip ca cb base funds amt back obs => trip_eqb (roundtrip ca cb base funds amt back) obs
  | AuthzValid g ok panicked => negb panicked && bool_eqb (grant_validate g) ok
  | AuthzRun g rs obs => grant_validate g && run_check (Some g) rs obs
  | AuthzExec g rs obs => grant_validate g && exec_check (Some g) rs obs
  end.
