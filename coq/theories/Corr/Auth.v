(** Correspondence cases of the `auth` scenario family (C46): every record carries what the real message
    server was called with (projected to what its gate looks at) and what it did; [check] re-computes the
    outcome with the gate model of [Sys/Auth.v], instantiating the bech32 decoder with the table of decodings
    the harness observed from sdk.AccAddressFromBech32. *)
From IBC Require Import Lib.Bytes Lib.CorrLib Sys.Auth.

Inductive Case :=
(** one cell of the operation × signer × configuration matrix, executed on a branch of the chain state *)
| Cell (table : list (bytes * bytes)) (op : Op) (c : Ctx) (out : Outcome) (dirty : bool)
(** one history of client-scoped operations through the real message server, committed step by step *)
| Hist (table : list (bytes * bytes)) (e : Env) (allowed0 : list bytes) (ops : list HOp) (outs : list Outcome)
(** pure helpers *)
| AllowedClient (al : list bytes) (ct : bytes) (r : bool)
| AllowedRelayer (table : list (bytes * bytes)) (rs : list bytes) (a : bytes) (r : option bool)
| Authority (e : Env) (sg : bytes) (r : bool).

Definition is_ok (o : Outcome) : bool := outcome_eqb o Ok.

Definition check (c : Case) : bool :=
  match c with
  | Cell t op cx out dirty =>
      outcome_eqb (handler (table_acc t) op cx) out &&
      (* an Ok outcome of a writing handler leaves a state difference; the status query never does *)
      (if is_ok out then bool_eqb dirty (writes op) else true)
  | Hist t e al ops outs =>
      list_eqb outcome_eqb (fst (hrun (table_acc t) e (mkSt [] 0 al) ops)) outs
  | AllowedClient al ct r => bool_eqb (is_allowed_client al ct) r
  | AllowedRelayer t rs a r => opt_eqb bool_eqb (is_allowed_relayer (table_acc t) rs a) r
  | Authority e sg r => bool_eqb (validate_authority e sg) r
  end.
