(** Correspondence cases of the `icagmp` scenario family (C37-C40): each constructor carries the inputs
    the implementation was run on and what it returned; [check] re-computes them with the models. *)
From IBC Require Import Lib.Bytes Lib.BytesFacts Lib.Dec Lib.CorrLib Lib.Sha256
  IcaGmp.Gmp IcaGmp.Bank IcaGmp.Callbacks IcaGmp.IcaHost IcaGmp.IcaChan.
Local Open Scope N_scope.

Definition pairN_eqb (a b : N * N) : bool := (fst a =? fst b) && (snd a =? snd b).

(** scripted contract executor of the harness: it writes counter+1 (without gas), consumes [used] on the
    limited meter (which panics out of gas past the limit unless the executor swallows the panic), then
    returns nil (kind 0) / an error (kind 1) / panics (kind 2) *)
Definition scripted (kind : N) (swallow : bool) (used : N) : N -> N -> ExecRes N :=
  fun st l =>
    if swallow then XRet (negb (kind =? 0)) (st + 1) used
    else if l <? used then XPanic used
    else if kind =? 0 then XRet false (st + 1) used
    else if kind =? 1 then XRet true (st + 1) used
    else XPanic used.

(** observed ProcessCallback outcome classes *)
Inductive PCObs :=
| ORet (e : N)      (* 0 nil, 1 callback error, 2 ErrCallbackPanic, 3 ErrCallbackOutOfGas *)
| OPanic (v : N).   (* 0 contract value re-raised, 1 out-of-gas retry panic, 2 outer meter out of gas, 3 outer meter overflow *)

Definition pc_obs_eqb (a b : PCObs) : bool :=
  match a, b with ORet x, ORet y => x =? y | OPanic x, OPanic y => x =? y | _, _ => false end.

Definition obs_of_pc (r : PCRes N) : PCObs * N * option N :=
  match r with
  | PCRet e s o =>
      (ORet (match e with None => 0 | Some ECallback => 1 | Some ECbPanic => 2 | Some ECbOutOfGas => 3 end),
       m_consumed o, Some s)
  | PCPanic v o =>
      (OPanic (match v with PvContract => 0 | PvOutOfGasRetry => 1 | PvOuterGas OutOfGas => 2 | PvOuterGas GasOverflow => 3 end),
       m_consumed o, None)
  end.

(** ICA host: the host state is the tracked part of the bank; MsgSend / MsgDelegate / MsgMultiSend are
    balance transfers ([lift_send]), a message known to fail in its handler is [lift_fail] *)
Definition HS := HostState Bank.
Definition lift_send (from to : bytes) (amt : N) : HS -> MsgOutcome HS :=
  fun h => match bank_send from to amt (h_app h) with
           | Some b => MOk (mkH (h_enabled h) (h_allow h) (h_accounts h) (h_channels h) b)
           | None => MErr
           end.
Definition lift_fail : HS -> MsgOutcome HS := fun _ => MErr.

(* monomorphic constructors: keep elaboration of the generated case files cheap *)
Definition hmsg (url : bytes) (sg : option (list bytes)) (step : HS -> MsgOutcome HS) : Msg HS := mkMsg url sg step.
Definition hstate (en : bool) (allow : list bytes) (accts : list ((bytes * bytes) * bytes))
           (chans : list ((bytes * bytes) * (list bytes * bool))) (bank : Bank) : HS := mkH en allow accts chans bank.
Definition hpkt (sp dp dc : bytes) (d : option (N * option (list (Msg HS)))) : HostPacket Bank := mkHP sp dp dc d.
Definition bN (a : bytes) (n : N) : bytes * N := (a, n).

Definition bals_match (b : Bank) (obs : list (bytes * N)) : bool :=
  forallb (fun p => bal b (fst p) =? snd p) obs.

(** ICA channel histories: controller and host operations interleaved; after every operation the
    result class and the projected stores of both chains are compared *)
Inductive ChanOp :=
| OC (o : COp)
| OH (o : HOp)
| OCSend (signer owner conn : bytes) (tok : bool) (sent : option (bytes * N))
| OCAckProbe (id : N) (cpv : VersionStr)
| OHTryProbe (port conn cp : bytes) (cpv : VersionStr) (gen : bytes).

Record Snap := mkSnap {
  sn_cact : list ((bytes * bytes) * option N); sn_cacc : list ((bytes * bytes) * option bytes);
  sn_cch : list (N * ChState); sn_cnext : N;
  sn_hact : list ((bytes * bytes) * option N); sn_hacc : list ((bytes * bytes) * option bytes);
  sn_hch : list (N * ChState); sn_hnext : N }.

Definition keyed_ok {V} (eqb : V -> V -> bool) (m : list ((bytes * bytes) * V)) (obs : list ((bytes * bytes) * option V)) : bool :=
  forallb (fun e => opt_eqb eqb (assoc2 m (fst (fst e)) (snd (fst e))) (snd e)) obs.

Definition chans_ok (m : list (N * Chan)) (obs : list (N * ChState)) : bool :=
  forallb (fun e => match chan_get m (fst e) with Some c => chstate_eqb (ch_state c) (snd e) | None => false end) obs.

Definition snap_ok (c : Ctrl) (h : Host) (s : Snap) : bool :=
  keyed_ok N.eqb (cs_active c) (sn_cact s) && keyed_ok bytes_eqb (cs_accounts c) (sn_cacc s) &&
  chans_ok (cs_chans c) (sn_cch s) && (cs_next c =? sn_cnext s) &&
  keyed_ok N.eqb (hs_active h) (sn_hact s) && keyed_ok bytes_eqb (hs_accounts h) (sn_hacc s) &&
  chans_ok (hs_chans h) (sn_hch s) && (hs_next h =? sn_hnext s).

Definition cb_res {T} (r : CbRes T) : Res := match r with CbOk _ => ROk | CbErr => RErr | CbPanic => RPanic end.

Definition sent_eqb (a b : option (bytes * N)) : bool :=
  opt_eqb (fun x y => bytes_eqb (fst x) (fst y) && (snd x =? snd y)) a b.

Definition chan_step (c : Ctrl) (h : Host) (o : ChanOp) : Ctrl * Host * Res * bool :=
  match o with
  | OC co => let (c', r) := ctrl_step c co in (c', h, r, true)
  | OH ho => let (h', r) := host_step h ho in (c, h', r, true)
  | OCSend sg ow conn tok sent =>
      let got := ctrl_send_tx c sg ow conn tok in
      (c, h, match got with Some _ => ROk | None => RErr end, sent_eqb got sent)
  | OCAckProbe id cpv =>
      (c, h, match chan_get (cs_chans c) id with
             | Some ch => cb_res (ctrl_on_ack c (ch_port ch) id cpv)
             | None => RErr
             end, true)
  | OHTryProbe port conn cp cpv gen => (c, h, cb_res (host_on_try h port conn cp cpv gen), true)
  end.

Fixpoint chan_hist (c : Ctrl) (h : Host) (steps : list (ChanOp * Res * Snap)) : bool :=
  match steps with
  | [] => true
  | (o, r, s) :: rest =>
      match chan_step c h o with
      | (c', h', r', extra) => res_eqb r' r && extra && snap_ok c' h' s && chan_hist c' h' rest
      end
  end.

(* monomorphic helpers for the generated files *)
Definition kN (a b : bytes) (v : option N) : (bytes * bytes) * option N := ((a, b), v).
Definition kB (a b : bytes) (v : option bytes) : (bytes * bytes) * option bytes := ((a, b), v).
Definition cS (id : N) (s : ChState) : N * ChState := (id, s).
Definition stepT (o : ChanOp) (r : Res) (s : Snap) : ChanOp * Res * Snap := (o, r, s).

(** GMP histories on a real chain: IBCModule.OnRecvPacket under channel-v2's cache rule and OnSendPacket *)
Definition gsend (from to : bytes) (amt : N) : Bank -> MsgOutcome Bank :=
  fun bk => match bank_send from to amt bk with Some b' => MOk b' | None => MErr end.
Definition gfail : Bank -> MsgOutcome Bank := fun _ => MErr.
Definition gmsg (url : bytes) (sg : option (list bytes)) (step : Bank -> MsgOutcome Bank) : Msg Bank := mkMsg url sg step.
Definition grecv (sp dp v c : bytes) (d : option (bytes * bytes * N * N * N)) (ms : option (list (Msg Bank))) : RecvIn Bank :=
  mkRecvIn sp dp v c d ms.
Definition gdata (sender salt : bytes) (lr lp lm : N) : bytes * bytes * N * N * N := (sender, salt, lr, lp, lm).

Inductive GmpOp :=
| GRecv (i : RecvIn Bank) (t : Triple) (res : Res) (entry : option bytes) (bals : list (bytes * N))
| GSend (i : SendIn) (ok : bool).

Fixpoint gmp_hist (g : GState Bank) (ops : list GmpOp) : bool :=
  match ops with
  | [] => true
  | GRecv i t res entry bals :: rest =>
      let (g', r) := module_recv sha256 Bank (fun _ bk => bk) g i in
      res_eqb r res && opt_eqb bytes_eqb (acc_get (g_accounts g') t) entry && bals_match (g_rest g') bals &&
      gmp_hist g' rest
  | GSend i ok :: rest => bool_eqb (module_send i) ok && gmp_hist g rest
  end.

(** callbacks middleware entry points of the callbacks simapp: observed (ok, inner gas limit, outer consumed
    after, contract counter delta); a panic class otherwise *)
Inductive MwObs :=
| MRet (ok : bool) (delta : N)
| MPanicObs (v : N).           (* 0 contract value, 1 retry, 2 outer out of gas, 3 outer overflow *)

Definition mw_obs_eqb (a b : MwObs) : bool :=
  match a, b with
  | MRet x d, MRet y e => bool_eqb x y && (d =? e)
  | MPanicObs x, MPanicObs y => x =? y
  | _, _ => false
  end.

Definition obs_of_mw (r : MwRes N) : MwObs * N :=
  match r with
  | MwRet ok s o => (MRet ok s, m_consumed o)
  | MwPanic v o => (MPanicObs (match v with PvContract => 0 | PvOutOfGasRetry => 1 | PvOuterGas OutOfGas => 2 | PvOuterGas GasOverflow => 3 end), m_consumed o)
  end.

Definition cb_propagates (t : CbType) : bool := match t with CbSend | CbRecv => true | _ => false end.

Inductive Case :=
| CbMw (t : CbType) (kind : N) (swallow : bool) (limit c0 maxg : N) (d : CbData) (used : N)
       (obs : MwObs) (inner_limit : option N) (outer_after : N)
| GmpHist (bank : Bank) (ops : list GmpOp)
| IcaChanHist (c0 : Ctrl) (h0 : Host) (steps : list (ChanOp * Res * Snap))
| IcaHostRecv (h : HS) (p : HostPacket Bank) (res : Res) (after : list (bytes * N))
| GmpAddr (c s salt : bytes) (out : option bytes)
| CbGas (f : GasField) (remaining maxg : N) (out : option (N * N))
| CbProcess (t : CbType) (kind : N) (swallow : bool) (limit consumed exec commit used : N)
            (obs : PCObs) (outer_consumed : N) (counter_delta : N).

Definition check (c : Case) : bool :=
  match c with
  | CbMw t kind swallow limit c0 maxg d used obs inner outer_after =>
      let outer := mkMeter limit c0 in
      let (o, c') := obs_of_mw (after_app N maxg t outer 0 d (scripted kind swallow used) false (cb_propagates t)) in
      mw_obs_eqb o obs && (c' =? outer_after) &&
      match d, inner with
      | CbWanted gf, Some l => match compute_limits gf (gas_remaining outer) maxg with
                               | Some (e, _) => e =? l
                               | None => false
                               end
      | _, _ => true
      end
  | GmpHist bank ops => gmp_hist (mkG [] bank) ops
  | IcaChanHist c0 h0 steps => chan_hist c0 h0 steps
  | IcaHostRecv h p res after =>
      let (h', r) := host_recv Bank h p in res_eqb r res && bals_match (h_app h') after
  | GmpAddr c s salt out => opt_eqb bytes_eqb (build_address sha256 c s salt) out
  | CbGas f remaining maxg out => opt_eqb pairN_eqb (compute_limits f remaining maxg) out
  | CbProcess t kind swallow limit consumed exec commit used obs oc delta =>
      match obs_of_pc (process_callback (mkMeter limit consumed) t exec commit 0 (scripted kind swallow used)) with
      | (o, c', s) =>
          pc_obs_eqb o obs && (c' =? oc) &&
          match s with Some s' => s' =? delta | None => true end     (* after a panic the tx is aborted *)
      end
  end.
