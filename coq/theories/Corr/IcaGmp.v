(** Correspondence cases of the `icagmp` scenario family (C37-C40): each constructor carries the inputs
    the implementation was run on and what it returned; [check] re-computes them with the models. *)
From IBC Require Import Lib.Bytes Lib.BytesFacts Lib.Dec Lib.CorrLib Lib.Sha256
  IcaGmp.Gmp IcaGmp.Bank IcaGmp.Callbacks IcaGmp.IcaHost.
Local Open Scope N_scope.

Definition pairN_eqb (a b : N * N) : bool := (fst a =? fst b) && (snd a =? snd b).

(** scripted contract executor of the harness: it writes counter+1 (without gas), consumes [used] on the
    limited meter (which panics out of gas past the limit unless the executor swallows the panic), then
    returns nil (kind 0) / an error (kind 1) / panics (kind 2) *)
Definition scripted (kind : N) (swallow : bool) (used : N) : N -> N -> ExecRes N :=
  fun st l =>
    if swallow then XRet (negb (kind =? 0)) (st + 1) used
    else if l <? used then XPanic used
    else if kind =? 0 then XRet false (st + 1) used
    else if kind =? 1 then XRet true (st + 1) used
    else XPanic used.

(** observed ProcessCallback outcome classes *)
Inductive PCObs :=
| ORet (e : N)      (* 0 nil, 1 callback error, 2 ErrCallbackPanic, 3 ErrCallbackOutOfGas *)
| OPanic (v : N).   (* 0 contract value re-raised, 1 out-of-gas retry panic, 2 outer meter out of gas, 3 outer meter overflow *)

Definition pc_obs_eqb (a b : PCObs) : bool :=
  match a, b with ORet x, ORet y => x =? y | OPanic x, OPanic y => x =? y | _, _ => false end.

Definition obs_of_pc (r : PCRes N) : PCObs * N * option N :=
  match r with
  | PCRet e s o =>
      (ORet (match e with None => 0 | Some ECallback => 1 | Some ECbPanic => 2 | Some ECbOutOfGas => 3 end),
       m_consumed o, Some s)
  | PCPanic v o =>
      (OPanic (match v with PvContract => 0 | PvOutOfGasRetry => 1 | PvOuterGas OutOfGas => 2 | PvOuterGas GasOverflow => 3 end),
       m_consumed o, None)
  end.

(** ICA host: the host state is the tracked part of the bank; MsgSend / MsgDelegate / MsgMultiSend are
    balance transfers ([lift_send]), a message known to fail in its handler is [lift_fail] *)
Definition HS := HostState Bank.
Definition lift_send (from to : bytes) (amt : N) : HS -> MsgOutcome HS :=
  fun h => match bank_send from to amt (h_app h) with
           | Some b => MOk (mkH (h_enabled h) (h_allow h) (h_accounts h) (h_channels h) b)
           | None => MErr
           end.
Definition lift_fail : HS -> MsgOutcome HS := fun _ => MErr.

(* monomorphic constructors: keep elaboration of the generated case files cheap *)
Definition hmsg (url : bytes) (sg : option (list bytes)) (step : HS -> MsgOutcome HS) : Msg HS := mkMsg url sg step.
Definition hstate (en : bool) (allow : list bytes) (accts : list ((bytes * bytes) * bytes))
           (chans : list ((bytes * bytes) * (list bytes * bool))) (bank : Bank) : HS := mkH en allow accts chans bank.
Definition hpkt (sp dp dc : bytes) (d : option (N * option (list (Msg HS)))) : HostPacket Bank := mkHP sp dp dc d.
Definition bN (a : bytes) (n : N) : bytes * N := (a, n).

Definition bals_match (b : Bank) (obs : list (bytes * N)) : bool :=
  forallb (fun p => bal b (fst p) =? snd p) obs.

Inductive Case :=
| IcaHostRecv (h : HS) (p : HostPacket Bank) (res : Res) (after : list (bytes * N))
| GmpAddr (c s salt : bytes) (out : option bytes)
| CbGas (f : GasField) (remaining maxg : N) (out : option (N * N))
| CbProcess (t : CbType) (kind : N) (swallow : bool) (limit consumed exec commit used : N)
            (obs : PCObs) (outer_consumed : N) (counter_delta : N).

Definition check (c : Case) : bool :=
  match c with
  | IcaHostRecv h p res after =>
      let (h', r) := host_recv Bank h p in res_eqb r res && bals_match (h_app h') after
  | GmpAddr c s salt out => opt_eqb bytes_eqb (build_address sha256 c s salt) out
  | CbGas f remaining maxg out => opt_eqb pairN_eqb (compute_limits f remaining maxg) out
  | CbProcess t kind swallow limit consumed exec commit used obs oc delta =>
      match obs_of_pc (process_callback (mkMeter limit consumed) t exec commit 0 (scripted kind swallow used)) with
      | (o, c', s) =>
          pc_obs_eqb o obs && (c' =? oc) &&
          match s with Some s' => s' =? delta | None => true end     (* after a panic the tx is aborted *)
      end
  end.
