(** Correspondence cases of the `pure` scenario family: each constructor carries the inputs the
    implementation was run on and the outputs it returned; [check] re-computes them with the model. *)
From IBC Require Import Lib.Bytes Lib.BytesFacts Lib.Dec Lib.CorrLib Core.Height.
Local Open Scope N_scope.

Definition height_eqb (a b : Height) : bool := (rev a =? rev b) && (ht a =? ht b).

Inductive Case :=
| HeightCmp (a b : Height) (cmp : Z) (lt lte gt gte eq zero : bool)
| HeightStr (a : Height) (s : bytes)
| HeightParse (s : bytes) (r : option Height)
| Elapsed (t : Timeout) (h : Height) (ts : N) (e valid tse : bool).

Definition check (c : Case) : bool :=
  match c with
  | HeightCmp a b cmp lt lte gt gte eq zero =>
      (h_compare a b =? cmp)%Z && bool_eqb (h_lt a b) lt && bool_eqb (h_lte a b) lte &&
      bool_eqb (h_gt a b) gt && bool_eqb (h_gte a b) gte && bool_eqb (h_eq a b) eq &&
      bool_eqb (h_is_zero a) zero
  | HeightStr a s => bytes_eqb (h_string a) s
  | HeightParse s r => opt_eqb height_eqb (parse_height s) r
  | Elapsed t h ts e valid tse =>
      bool_eqb (elapsed t h ts) e && bool_eqb (timeout_is_valid t) valid &&
      bool_eqb (timestamp_elapsed t ts) tse
  end.
