(** Correspondence cases of the `core` scenario family: one case = one two-chain history.  The harness
    records, after every operation, the outcome class, the application callbacks that ran and a projection
    of the packet-related IBC store of the chain that executed the operation; [check] replays the history
    on Core/World.v and compares. *)
From IBC Require Import Lib.Bytes Lib.CorrLib Core.Height Core.Chain Core.World.
Local Open Scope N_scope.

(** association lists -> total functions *)
Fixpoint fn_k2 {V} (l : list (K2 * V)) : K2 -> option V :=
  fun k => match l with [] => None | (k', v) :: r => if k2_eqb k' k then Some v else fn_k2 r k end.
Fixpoint fn_id {V} (l : list (Id * V)) : Id -> option V :=
  fun k => match l with [] => None | (k', v) :: r => if k' =? k then Some v else fn_id r k end.
Definition fn_set (l : list Id) : Id -> bool := fun k => existsb (N.eqb k) l.

Definition none_k3 {V} : K3 -> option V := fun _ => None.
Definition none_ks {V} : KS -> option V := fun _ => None.

Definition init_chain (chs : list (K2 * ChanEnd)) (cns : list (Id * ConnEnd)) (pts : list Id)
  (ns : list (Id * N)) (nr na : list (K2 * N)) (cps als : list (Id * Id)) (h : Height) (t : N) : Chain AppSt :=
  mkChain AppSt (fn_k2 chs) (fn_id cns) (fn_set pts) (fn_id ns) (fn_k2 nr) (fn_k2 na)
    none_k3 (fun _ => false) none_k3 none_ks (fun _ => false) none_ks none_ks (fn_id cps) (fn_id als) 0 h t [].

(** the recorded initial state is itself a committed version ([ver] = the chain's last block height at the start of the
    history): an honest proof may be taken from it *)
Definition init_wchain (c : Chain AppSt) (cls : list (Id * Client)) (ver : N) : WChain := mkW c cls [(ver, c)] [].

(** scripted application behaviour as association lists on interned data ids *)
Definition script_of (writes : list (Data * N)) (recvs : list (Data * RecvBeh)) (acks : list (Data * Data)) (fails : list Data) : Script :=
  mkScript (fun d => match fn_id writes d with Some n => n | None => 0 end)
           (fun d => match fn_id recvs d with Some b => b | None => RSuccess end)
           (fun d => match fn_id acks d with Some a => a | None => 2 end)
           (fun d => existsb (N.eqb d) fails).

(** ** Projection of a chain state on the probe set *)
Record Probe := mkProbe { pr_chans : list K2; pr_ids : list Id; pr_maxseq : N }.

Fixpoint seqs_from (n : nat) (s : N) : list N :=
  match n with O => [] | S n' => s :: seqs_from n' (s + 1) end.
Definition seqs (p : Probe) : list N := seqs_from (N.to_nat (pr_maxseq p) + 1) 0.

Definition k3s (p : Probe) : list K3 := flat_map (fun k => map (fun s => (k, s)) (seqs p)) (pr_chans p).
Definition kss (p : Probe) : list KS := flat_map (fun i => map (fun s => (i, s)) (seqs p)) (pr_ids p).

Definition collect {K V} (f : K -> option V) (ks : list K) : list (K * V) :=
  flat_map (fun k => match f k with Some v => [(k, v)] | None => [] end) ks.
Definition collectb {K} (f : K -> bool) (ks : list K) : list K := filter f ks.

Record Proj := mkProj {
  pj_ns : list (Id * N); pj_nr : list (K2 * N); pj_na : list (K2 * N);
  pj_c1 : list (K3 * Commit1); pj_r1 : list K3; pj_a1 : list (K3 * Data);
  pj_c2 : list (KS * Commit2); pj_r2 : list KS; pj_a2 : list (KS * list Data); pj_as2 : list KS;
  pj_ch : list (K2 * CState); pj_app : N }.

Definition project (p : Probe) (c : Chain AppSt) : Proj :=
  mkProj (collect (nsend c) (pr_ids p)) (collect (nrecv c) (pr_chans p)) (collect (nack c) (pr_chans p))
         (collect (com1 c) (k3s p)) (collectb (rcpt1 c) (k3s p)) (collect (ackc1 c) (k3s p))
         (collect (com2 c) (kss p)) (collectb (rcpt2 c) (kss p)) (collect (ackc2 c) (kss p))
         (map fst (collect (asyn2 c) (kss p)))
         (map (fun kv => (fst kv, c_state (snd kv))) (collect (chans c) (pr_chans p))) (app c).

Definition pair_eqb {A B} (ea : A -> A -> bool) (eb : B -> B -> bool) (x y : A * B) : bool :=
  ea (fst x) (fst y) && eb (snd x) (snd y).

Definition proj_eqb (a b : Proj) : bool :=
  list_eqb (pair_eqb N.eqb N.eqb) (pj_ns a) (pj_ns b) &&
  list_eqb (pair_eqb k2_eqb N.eqb) (pj_nr a) (pj_nr b) &&
  list_eqb (pair_eqb k2_eqb N.eqb) (pj_na a) (pj_na b) &&
  list_eqb (pair_eqb k3_eqb commit1_eqb) (pj_c1 a) (pj_c1 b) &&
  list_eqb k3_eqb (pj_r1 a) (pj_r1 b) &&
  list_eqb (pair_eqb k3_eqb N.eqb) (pj_a1 a) (pj_a1 b) &&
  list_eqb (pair_eqb ks_eqb commit2_eqb) (pj_c2 a) (pj_c2 b) &&
  list_eqb ks_eqb (pj_r2 a) (pj_r2 b) &&
  list_eqb (pair_eqb ks_eqb datas_eqb) (pj_a2 a) (pj_a2 b) &&
  list_eqb ks_eqb (pj_as2 a) (pj_as2 b) &&
  list_eqb (pair_eqb k2_eqb cstate_eqb) (pj_ch a) (pj_ch b) &&
  (pj_app a =? pj_app b).

Definition outcome_eqb (a b : Outcome) : bool :=
  match a, b with Ok, Ok | Noop, Noop | Err, Err | Panic, Panic => true | _, _ => false end.

Definition event_eqb (a b : Event) : bool :=
  match a, b with
  | EvRecv1 p c s, EvRecv1 p' c' s' | EvTimeout1 p c s, EvTimeout1 p' c' s' => (p =? p') && (c =? c') && (s =? s')
  | EvAck1 p c s d, EvAck1 p' c' s' d' => (p =? p') && (c =? c') && (s =? s') && (d =? d')
  | EvRecv2 i s x, EvRecv2 i' s' x' | EvTimeout2 i s x, EvTimeout2 i' s' x' | EvSend2 i s x, EvSend2 i' s' x' =>
      (i =? i') && (s =? s') && (x =? x')
  | EvAck2 i s x d, EvAck2 i' s' x' d' => (i =? i') && (s =? s') && (x =? x') && (d =? d')
  | _, _ => false
  end.

(** one recorded step: who, block height/time, operation, and what the implementation did *)
Record Step := mkStep {
  st_side : Side; st_h : Height; st_t : N; st_op : WOp;
  st_out : Outcome; st_evs : list Event; st_proj : Proj }.

Record Case := mkCase { cs_init : World; cs_probe : Probe; cs_steps : list Step }.

Definition side_chain (w : World) (s : Side) : Chain AppSt :=
  match s with SA => w_chain (wa w) | SB => w_chain (wb w) end.

(** the hypotheses of the end-to-end theorems (Core/WorldInv.v [good_step]) on a recorded block: same revision, the
    chain's height increases, its time does not decrease, the operation is not a bare block operation.  A recorded
    history outside these hypotheses counts as a disagreement: the theorems would not speak about it. *)
Definition good_stepb (w : World) (s : Step) : bool :=
  let c := side_chain w (st_side s) in
  (rev (st_h s) =? rev (self_h c)) && (ht (self_h c) <? ht (st_h s)) && (self_t c <=? st_t s) &&
  match st_op s with WPacket (OBlock _ _) _ | WPacketC (OBlock _ _) _ _ => false | _ => true end.

(** index (from 0) of the first step whose observation differs, or None *)
Fixpoint replay (p : Probe) (w : World) (steps : list Step) (i : N) : option N :=
  match steps with
  | [] => None
  | s :: rest =>
      let before := length (events (side_chain w (st_side s))) in
      let '(w', out) := wstep w (st_side s) (st_h s) (st_t s) (st_op s) in
      let c' := side_chain w' (st_side s) in
      let newevs := skipn before (events c') in
      if good_stepb w s && outcome_eqb out (st_out s) && list_eqb event_eqb newevs (st_evs s) && proj_eqb (project p c') (st_proj s)
      then replay p w' rest (i + 1)
      else Some i
  end.

Definition first_mismatch (c : Case) : option N := replay (cs_probe c) (cs_init c) (cs_steps c) 0.
Definition check (c : Case) : bool := match first_mismatch c with None => true | Some _ => false end.

(** diagnostic: what the model computes for step i (used when investigating a disagreement) *)
Fixpoint model_obs (p : Probe) (w : World) (steps : list Step) (i : nat) : option (Outcome * list Event * Proj) :=
  match steps with
  | [] => None
  | s :: rest =>
      let before := length (events (side_chain w (st_side s))) in
      let '(w', out) := wstep w (st_side s) (st_h s) (st_t s) (st_op s) in
      match i with
      | O => Some (out, skipn before (events (side_chain w' (st_side s))), project p (side_chain w' (st_side s)))
      | S i' => model_obs p w' rest i'
      end
  end.

(** ** send-time guard vectors (C08): the real keeper's v2 SendPacket on a context whose block time may lag the light
    client's latest consensus timestamp (clock skew, not reachable with the shared clock of the two-chain harness),
    replayed on [send2_tao] with that light-client view: client Active, one registered counterparty, one valid payload. *)
Definition guard_chain (bt : N) : Chain AppSt :=
  mkChain AppSt (fun _ => None) (fun _ => None) (fun _ => true)
    (fun i => if i =? 1 then Some 1 else None) (fun _ => None) (fun _ => None)
    (fun _ => None) (fun _ => false) (fun _ => None) (fun _ => None) (fun _ => false) (fun _ => None) (fun _ => None)
    (fun i => if i =? 1 then Some 2 else None) (fun _ => None) 0 (mkH 1 10) bt [].

Definition guard_env (lts : N) : Env AppSt :=
  mkEnv AppSt (fun _ => true) (fun _ => mkH 1 5) (fun _ _ => Some lts) (fun _ _ _ _ => false) (fun _ _ _ => false) (fun _ => false)
    (fun a _ _ => (a, None)) (fun a _ _ _ => Some a) (fun a _ _ => Some a)
    (fun a _ _ _ _ _ => Some a) (fun a _ _ _ _ _ => (a, (R2Success, 0))) (fun a _ _ _ _ _ _ => Some a) (fun a _ _ _ _ _ => Some a).

Definition send_guard_ok (bt tmo lts : N) (accepted : bool) : bool :=
  let '(_, out, _) := msg_send2 (guard_env lts) (guard_chain bt) 1 tmo [mkPay 1 1 1 1 2] 0 in
  Bool.eqb accepted (match out with Ok => true | _ => false end).

Inductive FCase := FHist (c : Case) | FSendGuard (bt tmo lts : N) (accepted : bool).
Definition fcheck (f : FCase) : bool :=
  match f with FHist c => check c | FSendGuard bt tmo lts a => send_guard_ok bt tmo lts a end.
