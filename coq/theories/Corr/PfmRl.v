(** Correspondence cases of the `pfmrl` scenario family.  [RlHist]: one whole rate-limit history on the
    rate-limited chain, replayed by [RateLimit.step]; after every operation that carries an observation the
    model state is compared with what the harness read from the real keeper. *)
From IBC Require Import Lib.Bytes Lib.BytesFacts Lib.Sha256 Lib.CorrLib PfmRl.RateLimit PfmRl.Pfm.
Local Open Scope Z_scope.

Definition LimObs := (Z * Z * N * Z * Z * Z)%type.   (* send%, recv%, hours, inflow, outflow, channel value *)

Record RlObs := mkObs {
  o_cls : N; o_lims : list (option LimObs); o_ps : list (Path * N); o_pr : list (Path * N); o_epn : N; o_eps : Z }.

Definition lim_proj (st : State) (p : Path) : option LimObs :=
  match limits st p with
  | None => None
  | Some rl => Some (q_send (rl_quota rl), q_recv (rl_quota rl), q_hours (rl_quota rl),
                     f_in (rl_flow rl), f_out (rl_flow rl), f_cv (rl_flow rl))
  end.

Definition lim_eqb (a b : LimObs) : bool :=
  match a, b with
  | (s1, r1, h1, i1, o1, c1), (s2, r2, h2, i2, o2, c2) =>
      (s1 =? s2) && (r1 =? r2) && (h1 =? h2)%N && (i1 =? i2) && (o1 =? o2) && (c1 =? c2)
  end.

Definition pn_eqb (a b : Path * N) : bool := path_eqb (fst a) (fst b) && (snd a =? snd b)%N.
Definition mem_pn (x : Path * N) (l : list (Path * N)) : bool := existsb (pn_eqb x) l.

(** the pending sets are compared on the universe of all (path, sequence) pairs the history mentions,
    and every observed marker must belong to that universe *)
Definition set_ok (f : Path -> N -> bool) (univ obs : list (Path * N)) : bool :=
  forallb (fun x => bool_eqb (f (fst x) (snd x)) (mem_pn x obs)) univ && forallb (fun x => mem_pn x univ) obs.

Definition obs_ok (tracked : list Path) (univ : list (Path * N)) (st : State) (cls : N) (o : RlObs) : bool :=
  (cls =? o_cls o)%N &&
  list_eqb (opt_eqb lim_eqb) (map (lim_proj st) tracked) (o_lims o) &&
  set_ok (psend st) univ (o_ps o) && set_ok (precv st) univ (o_pr o) &&
  (ep_num st =? o_epn o)%N && (ep_start st =? o_eps o).

Fixpoint replay (tracked : list Path) (univ : list (Path * N)) (st : State) (l : list (Op * option RlObs)) : bool :=
  match l with
  | [] => true
  | (op, ob) :: l' =>
      let r := step st op in
      match ob with
      | None => true
      | Some o => obs_ok tracked univ (fst r) (snd r) o
      end && replay tracked univ (fst r) l'
  end.

(** monomorphic constructors for the generated case files (argument scopes follow the types, and the
    generated text stays small: Coq's parser is the bottleneck of the replay) *)
Definition P (d c : N) : Path := (d, c).
Definition PN (d c s : N) : Path * N := ((d, c), s).
Definition LO (s r : Z) (h : N) (i o c : Z) : option LimObs := Some (s, r, h, i, o, c).
Definition NL : option LimObs := None.
Definition SV (d : N) (v : Z) : N * Z := (d, v).
Definition OB (cls : N) (lims : list (option LimObs)) (ps pr : list (Path * N)) (epn : N) (eps : Z) : option RlObs :=
  Some (mkObs cls lims ps pr epn eps).
Definition NoOb : option RlObs := None.
Definition X (o : Op) (ob : option RlObs) : Op * option RlObs := (o, ob).

(** ---------------------------------------------------------------------------------------------
    [PfmHist]: a line of chains on which routes are run one after the other.  For every route the harness
    recorded the relayer operations it performed and, at quiescence, every tracked balance, voucher supply, total
    escrow and in-flight record of every chain.  The model world is advanced by replaying the operations
    ([Pfm.rrun]); the same observation must also be produced by [Pfm.route_run] (origin transfer + depth-first
    relay), which is the function the route theorems are about. *)
Record ChainObs := mkCO {
  co_bal : list (Acct * Denom * Z); co_sup : list (Denom * Z); co_esc : list (Denom * Z); co_infl : list (N * N) }.

Fixpoint look_bal (l : list (Acct * Denom * Z)) (a : Acct) (d : Denom) : Z :=
  match l with
  | [] => 0
  | (a', d', x) :: l' => if acct_eqb a' a && denom_eqb d' d then x else look_bal l' a d
  end.
Fixpoint look_den (l : list (Denom * Z)) (d : Denom) : Z :=
  match l with
  | [] => 0
  | (d', x) :: l' => if denom_eqb d' d then x else look_den l' d
  end.

Fixpoint seqs_from (s : N) (n : nat) : list N :=
  match n with O => [] | S n' => s :: seqs_from (N.succ s) n' end.
Definition infl_keys (cs : CS) : list (N * N) :=
  flat_map (fun ch => map (fun s => (ch, s))
                          (filter (fun s => match infl cs ch s with Some _ => true | None => false end)
                                  (seqs_from 1 (N.to_nat (nseq cs ch))))) (chans cs).
Definition nn_eqb (a b : N * N) : bool := (fst a =? fst b)%N && (snd a =? snd b)%N.
Definition nn_subset (a b : list (N * N)) : bool := forallb (fun x => existsb (nn_eqb x) b) a.

Definition chain_ok (accts : list Acct) (denoms : list Denom) (cs : CS) (o : ChainObs) : bool :=
  forallb (fun a => forallb (fun d => bal cs a d =? look_bal (co_bal o) a d) denoms) accts &&
  forallb (fun d => (match d_trace d with [] => true | _ => sup cs d =? look_den (co_sup o) d end) &&
                    (esc cs d =? look_den (co_esc o) d)) denoms &&
  nn_subset (infl_keys cs) (co_infl o) && nn_subset (co_infl o) (infl_keys cs).

(** universe per chain: (chain, tracked accounts, denominations seen on it) *)
Definition Univ := list (N * list Acct * list Denom).

Fixpoint world_ok (u : Univ) (w : World) (obs : list ChainObs) : bool :=
  match u, obs with
  | [], [] => true
  | (c, accts, denoms) :: u', o :: obs' => chain_ok accts denoms (w c) o && world_ok u' w obs'
  | _, _ => false
  end.

Record RouteSpec := mkRS {
  rs_chain : N; rs_sender : Acct; rs_chan : N; rs_denom : Denom; rs_amt : Z; rs_recv : option Acct; rs_memo : Memo;
  rs_hops : list HopOut }.
Record RouteRec := mkRR { rr_ops : list ROp; rr_route : RouteSpec; rr_obs : list ChainObs }.

Fixpoint look_peer (l : list (N * N * (N * N))) (c ch : N) : N * N :=
  match l with
  | [] => (0%N, 0%N)
  | (c', ch', v) :: l' => if (c' =? c)%N && (ch' =? ch)%N then v else look_peer l' c ch
  end.

Definition stake : Denom := mkD [] 1.
Definition init_cs (chs : list N) (bals : list (Acct * Z)) : CS :=
  mkCS (fun a d => if denom_eqb d stake then
                     (fix look l := match l with [] => 0 | (a', x) :: l' => if acct_eqb a' a then x else look l' end) bals
                   else 0)
       (fun _ => 0) (fun _ => 0) (fun _ _ => None) (fun _ => 1%N) (fun _ _ => None) (fun _ _ => false) (fun _ _ => None) chs.
Fixpoint init_world (cfg : list (N * list N * list (Acct * Z))) : World :=
  match cfg with
  | [] => fun _ => init_cs [] []
  | (c, chs, bals) :: cfg' => wupd (init_world cfg') c (init_cs chs bals)
  end.

Fixpoint routes_ok (peer : Peer) (u : Univ) (w : World) (rs : list RouteRec) : bool :=
  match rs with
  | [] => true
  | r :: rs' =>
      let w1 := rrun peer w (rr_ops r) in
      let s := rr_route r in
      let w2 := route_run peer w (rs_chain s) (rs_sender s) (rs_chan s) (rs_denom s) (rs_amt s) (rs_recv s) (rs_memo s) (rs_hops s) in
      world_ok u w1 (rr_obs r) && world_ok u w2 (rr_obs r) && routes_ok peer u w1 rs'
  end.

(** monomorphic constructors for the generated files *)
Definition BL (a : Acct) (d : Denom) (x : Z) : Acct * Denom * Z := (a, d, x).
Definition DZ (d : Denom) (x : Z) : Denom * Z := (d, x).
Definition KY (ch s : N) : N * N := (ch, s).
Definition PR (c ch c' ch' : N) : N * N * (N * N) := (c, ch, (c', ch')).
Definition UV (c : N) (accts : list Acct) (denoms : list Denom) : N * list Acct * list Denom := (c, accts, denoms).
Definition CF (c : N) (chs : list N) (bals : list (Acct * Z)) : N * list N * list (Acct * Z) := (c, chs, bals).
Definition AZ (a : Acct) (x : Z) : Acct * Z := (a, x).
Definition SA (a : Acct) : option Acct := Some a.
Definition NA : option Acct := None.
Definition HO (k : nat) : HopOut := mkH k.
Definition SH (p c : bytes) : SHop := (p, c).

Inductive Case :=
| RlHist (num : N) (start dur : Z) (tracked : list Path) (univ : list (Path * N)) (ops : list (Op * option RlObs))
| PfmHist (peers : list (N * N * (N * N))) (cfg : list (N * list N * list (Acct * Z))) (u : Univ) (init_obs : list ChainObs)
          (routes : list RouteRec)
| PfmDenom (port ch cport cch : bytes) (tr : list SHop) (base : bytes) (out : bytes).

Definition check (c : Case) : bool :=
  match c with
  | RlHist num start dur tracked univ ops => replay tracked univ (init_state num start dur) ops
  | PfmHist peers cfg u init_obs routes =>
      world_ok u (init_world cfg) init_obs && routes_ok (look_peer peers) u (init_world cfg) routes
  | PfmDenom port ch cport cch tr base out =>
      bytes_eqb (s_pfm_denom sha256 port ch cport cch tr base) out &&
      bytes_eqb (s_recv_denom sha256 port ch cport cch tr base) out
  end.
