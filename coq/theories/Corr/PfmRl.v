(** Correspondence cases of the `pfmrl` scenario family.  [RlHist]: one whole rate-limit history on the
    rate-limited chain, replayed by [RateLimit.step]; after every operation that carries an observation the
    model state is compared with what the harness read from the real keeper. *)
From IBC Require Import Lib.Bytes Lib.CorrLib PfmRl.RateLimit.
Local Open Scope Z_scope.

Definition LimObs := (Z * Z * N * Z * Z * Z)%type.   (* send%, recv%, hours, inflow, outflow, channel value *)

Record RlObs := mkObs {
  o_cls : N; o_lims : list (option LimObs); o_ps : list (Path * N); o_pr : list (Path * N); o_epn : N; o_eps : Z }.

Definition lim_proj (st : State) (p : Path) : option LimObs :=
  match limits st p with
  | None => None
  | Some rl => Some (q_send (rl_quota rl), q_recv (rl_quota rl), q_hours (rl_quota rl),
                     f_in (rl_flow rl), f_out (rl_flow rl), f_cv (rl_flow rl))
  end.

Definition lim_eqb (a b : LimObs) : bool :=
  match a, b with
  | (s1, r1, h1, i1, o1, c1), (s2, r2, h2, i2, o2, c2) =>
      (s1 =? s2) && (r1 =? r2) && (h1 =? h2)%N && (i1 =? i2) && (o1 =? o2) && (c1 =? c2)
  end.

Definition pn_eqb (a b : Path * N) : bool := path_eqb (fst a) (fst b) && (snd a =? snd b)%N.
Definition mem_pn (x : Path * N) (l : list (Path * N)) : bool := existsb (pn_eqb x) l.

(** the pending sets are compared on the universe of all (path, sequence) pairs the history mentions,
    and every observed marker must belong to that universe *)
Definition set_ok (f : Path -> N -> bool) (univ obs : list (Path * N)) : bool :=
  forallb (fun x => bool_eqb (f (fst x) (snd x)) (mem_pn x obs)) univ && forallb (fun x => mem_pn x univ) obs.

Definition obs_ok (tracked : list Path) (univ : list (Path * N)) (st : State) (cls : N) (o : RlObs) : bool :=
  (cls =? o_cls o)%N &&
  list_eqb (opt_eqb lim_eqb) (map (lim_proj st) tracked) (o_lims o) &&
  set_ok (psend st) univ (o_ps o) && set_ok (precv st) univ (o_pr o) &&
  (ep_num st =? o_epn o)%N && (ep_start st =? o_eps o).

Fixpoint replay (tracked : list Path) (univ : list (Path * N)) (st : State) (l : list (Op * option RlObs)) : bool :=
  match l with
  | [] => true
  | (op, ob) :: l' =>
      let r := step st op in
      match ob with
      | None => true
      | Some o => obs_ok tracked univ (fst r) (snd r) o
      end && replay tracked univ (fst r) l'
  end.

(** monomorphic constructors for the generated case files (argument scopes follow the types, and the
    generated text stays small: Coq's parser is the bottleneck of the replay) *)
Definition P (d c : N) : Path := (d, c).
Definition PN (d c s : N) : Path * N := ((d, c), s).
Definition LO (s r : Z) (h : N) (i o c : Z) : option LimObs := Some (s, r, h, i, o, c).
Definition NL : option LimObs := None.
Definition SV (d : N) (v : Z) : N * Z := (d, v).
Definition OB (cls : N) (lims : list (option LimObs)) (ps pr : list (Path * N)) (epn : N) (eps : Z) : option RlObs :=
  Some (mkObs cls lims ps pr epn eps).
Definition NoOb : option RlObs := None.
Definition X (o : Op) (ob : option RlObs) : Op * option RlObs := (o, ob).

Inductive Case :=
| RlHist (num : N) (start dur : Z) (tracked : list Path) (univ : list (Path * N)) (ops : list (Op * option RlObs)).

Definition check (c : Case) : bool :=
  match c with
  | RlHist num start dur tracked univ ops => replay tracked univ (init_state num start dur) ops
  end.
