(** Correspondence cases of the `tmverify` scenario family: every constructor carries the inputs the real
    ibc-go code was run on and what it returned; [check] re-computes them with the models the theorems of
    Props/C21.v, C24.v, C25.v are about.  Section variables of the models (proof verifier, protobuf encoders,
    signature check, hash functions) are instantiated by tables of values the harness obtained by calling
    the real functions. *)
From IBC Require Import Lib.Bytes Lib.BytesFacts Lib.Dec Lib.CorrLib Core.Height
  TmVerify.Util TmVerify.World TmVerify.Light TmVerify.Writes.
Local Open Scope N_scope.

(** ---- equality tests on model values ---- *)
Definition optZ_eqb := opt_eqb Z.eqb.
Definition cons_eqb (a b : ConsState) : bool :=
  (cs_ts a =? cs_ts b)%Z && bytes_eqb (cs_root a) (cs_root b) && bytes_eqb (cs_nvh a) (cs_nvh b) &&
  optZ_eqb (cs_ptime a) (cs_ptime b) && opt_eqb height_eqb (cs_pheight a) (cs_pheight b).

Fixpoint cons_insert_sorted (x : Height * ConsState) (l : list (Height * ConsState)) :=
  match l with
  | [] => [x]
  | y :: l' => if h_lt (fst x) (fst y) then x :: l else y :: cons_insert_sorted x l'
  end.
Definition cons_sort (l : list (Height * ConsState)) := fold_right cons_insert_sorted [] l.
Definition consmap_eqb (a b : list (Height * ConsState)) : bool :=
  list_eqb (fun x y => height_eqb (fst x) (fst y) && cons_eqb (snd x) (snd y)) (cons_sort a) (cons_sort b).

Definition client_params_eqb (a b : Client) : bool :=
  bytes_eqb (c_chain a) (c_chain b) && (c_tl_num a =? c_tl_num b) && (c_tl_den a =? c_tl_den b) &&
  (c_trusting a =? c_trusting b)%Z && (c_unbonding a =? c_unbonding b)%Z && (c_drift a =? c_drift b)%Z &&
  height_eqb (c_frozen a) (c_frozen b) && height_eqb (c_latest a) (c_latest b) &&
  bytes_eqb (c_specs a) (c_specs b) && list_bytes_eqb (c_upath a) (c_upath b).
Definition client_eqb (a b : Client) : bool := client_params_eqb a b && consmap_eqb (c_cons a) (c_cons b).

(** ---- oracle tables ---- *)
Definition MemRow := (bytes * bytes * bytes * list bytes * bytes)%type.   (* specs proof root path value *)
Definition NonRow := (bytes * bytes * bytes * list bytes)%type.
Definition tbl_vmem (t : list MemRow) (specs proof root : bytes) (path : list bytes) (value : bytes) : bool :=
  existsb (fun '(s, p, r, pa, v) => bytes_eqb s specs && bytes_eqb p proof && bytes_eqb r root &&
                                    list_bytes_eqb pa path && bytes_eqb v value) t.
Definition tbl_vnon (t : list NonRow) (specs proof root : bytes) (path : list bytes) : bool :=
  existsb (fun '(s, p, r, pa) => bytes_eqb s specs && bytes_eqb p proof && bytes_eqb r root &&
                                 list_bytes_eqb pa path) t.
Definition tbl_enc_client (t : list (Client * bytes)) (c : Client) : bytes :=
  match find (fun x => client_params_eqb (fst x) c) t with Some x => snd x | None => B "?client" end.
Definition tbl_enc_cons (t : list (ConsState * bytes)) (c : ConsState) : bytes :=
  match find (fun x => (cs_ts (fst x) =? cs_ts c)%Z && bytes_eqb (cs_root (fst x)) (cs_root c) &&
                       bytes_eqb (cs_nvh (fst x)) (cs_nvh c)) t with
  | Some x => snd x | None => B "?cons" end.

Record Tables := mkTables {
  t_mem : list MemRow; t_non : list NonRow; t_encc : list (Client * bytes); t_encs : list (ConsState * bytes)
}.

(** observation after one operation: outcome class and, per tendermint client, (id, status, latest, frozen) *)
Record Obs := mkObs { o_res : Res; o_cl : list (N * Status * Height * Height) }.

Definition obs_ok (w : World) (r : Res) (ob : Obs) : bool :=
  res_eqb r (o_res ob) &&
  forallb (fun '(cid, st, lat, fro) =>
             match get_client w cid with
             | Some (Tm c) => status_eqb (status (w_now w) c) st && height_eqb (c_latest c) lat &&
                              height_eqb (c_frozen c) fro
             | _ => false
             end) (o_cl ob).

Fixpoint check_ops (T : Tables) (w : World) (ops : list Op) (obs : list Obs) : option World :=
  match ops, obs with
  | [], [] => Some w
  | o :: ops', ob :: obs' =>
      let '(w', r) := step (tbl_vmem (t_mem T)) (tbl_vnon (t_non T)) (tbl_enc_client (t_encc T))
                           (tbl_enc_cons (t_encs T)) w o in
      if obs_ok w' r ob then check_ops T w' ops' obs' else None
  | _, _ => None
  end.

Definition final_ok (w : World) (final : list (N * Client)) : bool :=
  forallb (fun '(cid, c) => match get_client w cid with
                            | Some (Tm c') => client_eqb c c'
                            | _ => false end) final.

Definition parse_rev_eqb (a : ParseRev) (b : option N) : bool :=
  match a, b with PRev n, Some m => n =? m | PRevPanic, None => true | _, _ => false end.

Inductive Case :=
| Hist (T : Tables) (w0 : World) (ops : list Op) (obs : list Obs) (final : list (N * Client))
| ChainIdCase (s : bytes) (isrev : bool) (rev : option N) (set7 : option bytes)
| NewTrusting (t ou nu : Z) (r : option Z)
| StatusCase (c : Client) (now : Z) (st : Status)
| MatchCase (a b : Client) (m : bool)
| ValidateCase (c : Client) (r : Res)
| RecWrites (c s : Client) (r : Res) (ws : list Write)
| UpgWrites (h : Height) (ok : bool) (ws : list Write)
| LightCase (lc : LCase).

Definition check (c : Case) : bool :=
  match c with
  | Hist T w0 ops obs final =>
      match check_ops T w0 ops obs with
      | Some w => final_ok w final
      | None => false
      end
  | ChainIdCase s isrev r set7 =>
      bool_eqb (is_revision_format s) isrev && parse_rev_eqb (parse_chain_id s) r &&
      match set7 with
      | Some x => isrev && bytes_eqb (set_revision_number s 7) x
      | None => negb isrev
      end
  | NewTrusting t ou nu r => optZ_eqb (calc_new_trusting t ou nu) r
  | StatusCase c now st => status_eqb (status now c) st
  | MatchCase a b m => bool_eqb (is_matching a b) m
  | ValidateCase c r =>
      res_eqb (match validate_client c with Some true => Ok | Some false => Err | None => Panic end) r
  | RecWrites c s r ws =>
      let '(r', ws') := check_substitute_writes c s in res_eqb r' r && list_eqb write_eqb ws' ws
  | UpgWrites h ok ws => list_eqb write_eqb (if ok then upgrade_writes h else []) ws
  | LightCase lc => light_check lc
  end.
