(** The boolean hypothesis check of the correspondence ([good_stepb]) is the hypothesis of the end-to-end theorems. *)
From IBC Require Import Lib.Bytes Core.Height Core.Chain Core.World Core.WorldInv Corr.CoreFam.
Local Open Scope N_scope.

Lemma good_stepb_sound w s :
  good_stepb w s = true -> good_step w (mkWS (st_side s) (st_h s) (st_t s) (st_op s)).
Proof.
  unfold good_stepb, good_step. cbn [ws_side ws_h ws_t ws_op]. intros H.
  repeat (apply andb_prop in H; destruct H as [H ?]).
  assert (side_chain w (st_side s) = w_chain (side_w w (st_side s))) as E by (destruct (st_side s); reflexivity).
  rewrite <- E. repeat split.
  - now apply N.eqb_eq.
  - now apply N.ltb_lt.
  - now apply N.leb_le.
  - unfold packet_op, packet_of. destruct (st_op s) as [o pf|o pf pfc| | |]; try exact I; destruct o; try exact I; discriminate.
Qed.
