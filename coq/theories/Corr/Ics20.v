(** Correspondence cases of the `ics20` scenario family.  [Hist]: the channel topology, the projected bank /
    escrow state of every chain before the first operation, and per operation the outcome class and projected
    state the real chains showed; [check] replays the operations with Transfer.World.step — the definitions
    the theorems of Props/C30 C31 C32 C49 are about — and compares after every operation.
    [ExtractC]/[IdFmt]: the private denomination functions against Go on generated strings. *)
From IBC Require Import Lib.Bytes Lib.BytesFacts Lib.CorrLib Transfer.DenomLocal Transfer.Bank Transfer.Keeper Transfer.World.
Local Open Scope Z_scope.

(** Per chain the history fixes a list of tracked accounts and the universe of bank denominations that occur;
    an observation is the balance matrix (row per account, column per denomination), the supply row and the
    total-escrow row, plus the params. *)
Record ChainObs := mkCO {
  co_bal : list (list Z);
  co_sup : list Z;
  co_esc : list Z;
  co_send : bool; co_recv : bool }.

Record ChainDom := mkCD { cd_accts : list Acct; cd_coins : list Coin }.

Record Obs := mkObs {
  ob_out : Outcome; ob_seq : option N;
  ob_chains : list ChainObs;
  ob_pk : list (bool * option bool) }.   (* per packet id: commitment present, receive outcome *)

Inductive Case :=
| Hist (links : list Link) (doms : list ChainDom) (init : list ChainObs) (steps : list (Op * Obs))
| ExtractC (s : bytes) (trace : list (bytes * bytes)) (base pth : bytes) (valid : bool)
| IdFmt (s : bytes) (chan client : bool).

Fixpoint index_of {A} (eqb : A -> A -> bool) (x : A) (l : list A) : option nat :=
  match l with
  | [] => None
  | y :: l' => if eqb y x then Some O else option_map S (index_of eqb x l')
  end.

Definition cell (m : list (list Z)) (i j : nat) : Z := nth j (nth i m []) 0.

Definition init_chain (dm : ChainDom) (co : ChainObs) : KState :=
  let coin_ix d := index_of coin_eqb d (cd_coins dm) in
  let row (r : list Z) d := match coin_ix d with Some j => nth j r 0 | None => 0 end in
  mkK (mkBank (fun a d => match index_of acct_eqb a (cd_accts dm), coin_ix d with
                          | Some i, Some j => cell (co_bal co) i j
                          | _, _ => 0
                          end)
              (row (co_sup co)))
      (row (co_esc co)) [] (co_send co) (co_recv co).

Definition empty_chain : KState := mkK (mkBank (fun _ _ => 0) (fun _ => 0)) (fun _ => 0) [] true true.

Definition init_world (links : list Link) (doms : list ChainDom) (init : list ChainObs) : World :=
  mkW links (fun c => match nth_error doms (N.to_nat c), nth_error init (N.to_nat c) with
                      | Some dm, Some co => init_chain dm co
                      | _, _ => empty_chain
                      end) [].

Fixpoint row_match (f : Coin -> Z) (coins : list Coin) (r : list Z) : bool :=
  match coins, r with
  | [], [] => true
  | d :: coins', v :: r' => (f d =? v) && row_match f coins' r'
  | _, _ => false
  end.

Fixpoint rows_match (f : Acct -> Coin -> Z) (accts : list Acct) (coins : list Coin) (m : list (list Z)) : bool :=
  match accts, m with
  | [], [] => true
  | a :: accts', r :: m' => row_match (f a) coins r && rows_match f accts' coins m'
  | _, _ => false
  end.

Definition chain_match (k : KState) (dm : ChainDom) (co : ChainObs) : bool :=
  rows_match (bal (bank k)) (cd_accts dm) (cd_coins dm) (co_bal co) &&
  row_match (sup (bank k)) (cd_coins dm) (co_sup co) &&
  row_match (tesc k) (cd_coins dm) (co_esc co) &&
  bool_eqb (send_en k) (co_send co) && bool_eqb (recv_en k) (co_recv co).

Fixpoint chains_match (w : World) (i : N) (doms : list ChainDom) (cos : list ChainObs) : bool :=
  match doms, cos with
  | [], [] => true
  | dm :: doms', co :: cos' => chain_match (w_ch w i) dm co && chains_match w (N.succ i) doms' cos'
  | _, _ => false
  end.

Definition outcome_eqb (a b : Outcome) : bool :=
  match a, b with
  | OOk, OOk | OErrAck, OErrAck | OFail, OFail | OPanic, OPanic => true
  | _, _ => false
  end.

Fixpoint pk_match (pk : list PState) (l : list (bool * option bool)) : bool :=
  match pk, l with
  | [], [] => true
  | p :: pk', (c, r) :: l' => bool_eqb (ps_committed p) c && opt_eqb bool_eqb (ps_recv p) r && pk_match pk' l'
  | _, _ => false
  end.

Definition obs_match (doms : list ChainDom) (w : World) (out : Outcome) (sq : option N) (ob : Obs) : bool :=
  outcome_eqb out (ob_out ob) && opt_eqb N.eqb sq (ob_seq ob) &&
  chains_match w 0%N doms (ob_chains ob) && pk_match (w_pk w) (ob_pk ob).

Fixpoint replay (doms : list ChainDom) (w : World) (steps : list (Op * Obs)) : bool :=
  match steps with
  | [] => true
  | (o, ob) :: rest =>
      match step w o with
      | (w', out, sq) => obs_match doms w' out sq ob && replay doms w' rest
      end
  end.

Definition hop_pair_eqb (h : Hop) (p : bytes * bytes) : bool :=
  bytes_eqb (hport h) (fst p) && bytes_eqb (hchan h) (snd p).

Fixpoint trace_match (t : list Hop) (l : list (bytes * bytes)) : bool :=
  match t, l with
  | [], [] => true
  | h :: t', p :: l' => hop_pair_eqb h p && trace_match t' l'
  | _, _ => false
  end.

Definition check (c : Case) : bool :=
  match c with
  | Hist links doms init steps =>
      let w := init_world links doms init in
      chains_match w 0%N doms init && replay doms w steps
  | ExtractC s trace base pth valid =>
      let d := extract s in
      trace_match (dtrace d) trace && bytes_eqb (dbase d) base &&
      bytes_eqb (path d) pth && bool_eqb (denom_valid d) valid
  | IdFmt s chan client =>
      bool_eqb (is_valid_channel_id s) chan && bool_eqb (is_valid_client_id s) client
  end.

(** for debugging a disagreement: index of the first operation whose observation differs, and which part *)
Fixpoint first_bad (doms : list ChainDom) (w : World) (i : nat) (steps : list (Op * Obs)) : option (nat * (bool * bool * bool * bool)) :=
  match steps with
  | [] => None
  | (o, ob) :: rest =>
      match step w o with
      | (w', out, sq) =>
          if obs_match doms w' out sq ob then first_bad doms w' (S i) rest
          else Some (i, (outcome_eqb out (ob_out ob), opt_eqb N.eqb sq (ob_seq ob),
                         chains_match w' 0%N doms (ob_chains ob), pk_match (w_pk w') (ob_pk ob)))
      end
  end.
