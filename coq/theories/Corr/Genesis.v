(** Correspondence cases of the `genesis` scenario family (C44): the IBC store of a real chain before export
    (keys classified, values replaced by digests; the counterparty entries' values projected to the counterparty's
    client id), what the real ExportGenesis / InitGenesis did, and which keys the restored store lacks.
    [check] re-computes all of it with the model of [Sys/Genesis.v]. *)
From IBC Require Import Lib.Bytes Lib.CorrLib Sys.Genesis.

Inductive Case :=
| RT (sentinel : bytes) (s : State) (export_ok init_ok : bool) (lost_keys extra_keys : list Key)
| ClientKey (path : bytes) (kind : N).   (* classification of one raw client-store key: 0 state 1 cons 2 meta 3 bad *)

Definition kind_code (c : CKind) : N :=
  match c with CState _ => 0 | CCons _ _ => 1 | CMeta _ _ => 2 | CBad => 3 end%N.

Definition check (c : Case) : bool :=
  match c with
  | RT sentinel s export_ok init_ok lost_keys extra_keys =>
      match export s with
      | None => negb export_ok
      | Some g =>
          export_ok &&
          bool_eqb (validate (fun v => v) g) init_ok &&
          (if init_ok then
             opt_eqb (list_eqb key_eqb) (lost (fun v => v) sentinel s) (Some lost_keys) &&
             opt_eqb (list_eqb key_eqb) (extra (fun v => v) sentinel s) (Some extra_keys)
           else true)
      end
  | ClientKey path kind => (kind_code (classify path) =? kind)%N
  end.
