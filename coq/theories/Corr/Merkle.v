(** Correspondence cases of the `merkle` scenario family (C18).

    [Verify]: one call of MerkleProof.VerifyMembership / VerifyNonMembership on the real code.  The Section
    variables of Merkle/Merkle.v (the ics23 per-level verifier) are instantiated by a TABLE built from what
    the real ics23 library answered for each proof entry: Calculate(), GetExist()!=nil, GetNonexist()!=nil and
    the verdict of ExistenceProof.Verify / NonExistenceProof.Verify on the arguments the ibc-go code has to
    pass at that level (recorded with the verdict).  If the model passes other arguments than the recorded
    ones the table answers the NEGATED verdict (no recorded arguments at all: [true]), so a model that picks
    the wrong key, spec, subroot or value disagrees with the observed outcome.

    [Bmp], [Bmp2]: BuildMerklePath on an explicit heap layout (backing arrays with spare capacity).      *)
From IBC Require Import Lib.Bytes Lib.BytesFacts Lib.CorrLib Merkle.Merkle Merkle.GoSlice.

Record TProof := mkTP {
  tp_calc : option bytes;
  tp_ex : bool;
  tp_nonex : bool;
  tp_ep : option (nat * bytes * bytes * bytes * bool);   (* spec id, root, key, value, verdict *)
  tp_np : option (nat * bytes * bytes * bool)            (* spec id, root, key, verdict *)
}.

Definition t_ep (s : nat) (p : TProof) (r k v : bytes) : bool :=
  match tp_ep p with
  | Some (s', r', k', v', ok) =>
      if (s =? s')%nat && bytes_eqb r r' && bytes_eqb k k' && bytes_eqb v v' then ok else negb ok
  | None => true
  end.

Definition t_np (s : nat) (p : TProof) (r k : bytes) : bool :=
  match tp_np p with
  | Some (s', r', k', ok) =>
      if (s =? s')%nat && bytes_eqb r r' && bytes_eqb k k' then ok else negb ok
  | None => true
  end.

Definition m_verify_membership := verify_membership nat TProof tp_calc tp_ex t_ep.
Definition m_verify_non_membership := verify_non_membership nat TProof tp_calc tp_ex tp_nonex t_ep t_np.

Definition slice_eqb (a b : slice) : bool :=
  (s_arr a =? s_arr b)%nat && (s_off a =? s_off b)%nat && (s_len a =? s_len b)%nat && (s_cap a =? s_cap b)%nat.

Definition apply_res_eqb (a b : ApplyRes) : bool :=
  match a, b with
  | AOk x, AOk y => list_eqb bytes_eqb x y
  | AErr, AErr | APanic, APanic => true
  | _, _ => false
  end.

(** what the harness observed after BuildMerklePath *)
Record BmpObs := mkBO {
  bo_panic : bool;
  bo_arrs : list bytes;          (* the caller's byte arrays, full capacity, after the call *)
  bo_outer : list slice;         (* the caller's outer array, full capacity, after the call *)
  bo_res_arr : nat;              (* outer array of the result: 0 = the caller's, 1 = a new one *)
  bo_res : list slice;           (* headers of the result's elements (array id = #arrays for a new array) *)
  bo_res_view : list bytes;      (* visible bytes of the result's elements *)
  bo_view : list bytes           (* the caller's view through its prefix header after the call *)
}.

Definition bmp_matches (h0 : heap) (r : BmpRes) (prefix : slice) (o : BmpObs) : bool :=
  match r with
  | BPanic => bo_panic o
  | BOk h' full =>
      negb (bo_panic o) &&
      list_eqb bytes_eqb (firstn (length (barrs h0)) (barrs h')) (bo_arrs o) &&
      list_eqb slice_eqb (oarr h' 0) (bo_outer o) &&
      (s_arr full =? bo_res_arr o)%nat &&
      list_eqb slice_eqb (oelems h' full) (bo_res o) &&
      list_eqb bytes_eqb (oview h' full) (bo_res_view o) &&
      list_eqb bytes_eqb (oview h' prefix) (bo_view o)
  end.

Inductive Case :=
| Verify (nonmem : bool) (specs : list (option nat)) (root : Root) (path : option (list bytes)) (value : bytes)
         (proofs : option (list (option TProof))) (out : Outcome)
| Apply (prefix : Prefix) (path : list bytes) (out : ApplyRes)
| GetKey (path : list bytes) (idx : Z) (out : option bytes)
(** heap = the byte arrays + ONE outer array (id 0); [prefix] a header into it; extras = observed spare
    capacity of the arrays the call allocated *)
| Bmp (arrs : list bytes) (outer : list slice) (prefix : slice) (path : bytes) (eo ei : nat) (obs : BmpObs)
(** two successive calls with the same prefix; [view1_after2] = the FIRST result seen after the second call *)
| Bmp2 (arrs : list bytes) (outer : list slice) (prefix : slice) (path1 path2 : bytes) (eo1 ei1 eo2 ei2 : nat)
       (view1 view1_after2 view2 caller_after : list bytes).

Definition check (c : Case) : bool :=
  match c with
  | Verify nonmem specs root path value proofs out =>
      outcome_eqb (if nonmem then m_verify_non_membership specs root path proofs
                   else m_verify_membership specs root path value proofs) out
  | Apply prefix path out => apply_res_eqb (apply_prefix prefix path) out
  | GetKey path idx out => opt_eqb bytes_eqb (get_key path idx) out
  | Bmp arrs outer prefix path eo ei obs =>
      let h0 := mkHp arrs [outer] in
      bmp_matches h0 (build_merkle_path h0 prefix path eo ei) prefix obs
  | Bmp2 arrs outer prefix path1 path2 eo1 ei1 eo2 ei2 view1 view1_after2 view2 caller_after =>
      let h0 := mkHp arrs [outer] in
      match build_merkle_path h0 prefix path1 eo1 ei1 with
      | BPanic => false
      | BOk h1 full1 =>
          match build_merkle_path h1 prefix path2 eo2 ei2 with
          | BPanic => false
          | BOk h2 full2 =>
              list_eqb bytes_eqb (oview h1 full1) view1 &&
              list_eqb bytes_eqb (oview h2 full1) view1_after2 &&
              list_eqb bytes_eqb (oview h2 full2) view2 &&
              list_eqb bytes_eqb (oview h2 prefix) caller_after
          end
      end
  end.
