(** Correspondence cases of the `tmstore` scenario family. Each constructor carries the inputs the real code
    was run on and what it returned; [check] re-computes them with the model the theorems are about. *)
From IBC Require Import Lib.Bytes Lib.BytesFacts Lib.Dec Lib.CorrLib Core.Height
  TmStore.Delay TmStore.KV TmStore.Store TmStore.Client.
Local Open Scope N_scope.

(** literals: the encoder writes non-negative integers as N numerals (cheap to parse) *)
Definition zc (n : N) : Z := Z.of_N n.
(** per-record literal tables: the encoder writes each distinct literal once into a table and refers to it by
    position (keeps the generated terms small and flat) *)
Definition gn (t : list N) (i : nat) : N := nth i t 0.
Definition gz (t : list N) (i : nat) : Z := Z.of_N (nth i t 0).
Definition gb (t : list bytes) (i : nat) : bytes := nth i t [].
Definition gh (t : list Height) (i : nat) : Height := nth i t (mkH 0 0).
Definition gc (t : list ConsState) (i : nat) : ConsState := nth i t (mkCons 0 [] []).
Definition ge (t : TmStore) (i : nat) : bytes * Val := nth i t ([], VRaw []).

(** one operation of a history *)
Inductive AnyOp :=
| AInit (c : Ctx) (cl : ClientSt) (cs : ConsState)     (* 02-client CreateClient -> ClientState.initialize *)
| ACl (c : Ctx) (o : Op)
| ARaw (o : RawOp).

(** what the harness observed after the operation: outcome class, the whole client store in the store's own
    iteration order, and (GetNextConsensusState, GetPreviousConsensusState) for the probe heights
    (None = the probe panicked) *)
Record Obs := mkObs { o_out : Outcome; o_store : TmStore; o_probes : list (option (option ConsState * option ConsState)) }.

Inductive Case :=
| BlockDelay (d p : N) (res : option N)        (* None: the real code panicked *)
| DelayPassed (ptime : option N) (pheight : option Height) (now : N) (self : Height) (dt db : N) (ok : bool)
| Hist (steps : list (AnyOp * list Height * Obs)).

(** the verification oracles are instantiated with what the real verification returned for this message on
    the pre-state (recorded by the harness in the message's [ext] field: 1 = accepted) *)
Definition o_header_ok (_ : ClientSt) (_ : ConsState) (h : Hdr) (_ : Ctx) : bool := hd_ext h =? 1.
Definition o_misb_ok (_ : ClientSt) (_ _ : ConsState) (m : Misb) (_ : Ctx) : bool := mb_ext m =? 1.
Definition o_upgrade_ok (_ : ClientSt) (_ : ConsState) (u : Upg) : bool := up_ext u =? 1.

Definition height_eqb (a b : Height) : bool := (rev a =? rev b) && (ht a =? ht b).
Definition client_eqb (a b : ClientSt) : bool :=
  height_eqb (cl_latest a) (cl_latest b) && bool_eqb (cl_frozen a) (cl_frozen b) && (cl_tp a =? cl_tp b)%Z.
Definition val_eqb (a b : Val) : bool :=
  match a, b with
  | VClient x, VClient y => client_eqb x y
  | VCons x, VCons y => cons_eqb x y
  | VRaw x, VRaw y => bytes_eqb x y
  | _, _ => false
  end.
Definition store_eqb (a b : TmStore) : bool :=
  list_eqb (fun x y => bytes_eqb (fst x) (fst y) && val_eqb (snd x) (snd y)) a b.
Definition outcome_eqb (a b : Outcome) : bool :=
  match a, b with Ok, Ok | Err, Err | Panic, Panic => true | _, _ => false end.

Definition any_step (s : TmStore) (o : AnyOp) : Outcome * TmStore :=
  match o with
  | AInit c cl cs => (Ok, initialize s c cl cs)
  | ACl c op => step o_header_ok o_misb_ok o_upgrade_ok s c op
  | ARaw r => (Ok, raw_step s r)
  end.

(** the height decoding of a foreign too-short iteration key panics inside the iterator loops only
    (pruning); GetNext/GetPrevious never decode keys, so probes do not panic in the model *)
Definition probe (s : TmStore) (h : Height) : option (option ConsState * option ConsState) :=
  Some (get_next s h, get_prev s h).

Definition probe_eqb (a b : option (option ConsState * option ConsState)) : bool :=
  opt_eqb (fun x y => opt_eqb cons_eqb (fst x) (fst y) && opt_eqb cons_eqb (snd x) (snd y)) a b.

Fixpoint check_hist (s : TmStore) (steps : list (AnyOp * list Height * Obs)) : bool :=
  match steps with
  | [] => true
  | (o, probes, ob) :: rest =>
      let '(out, s') := any_step s o in
      outcome_eqb out (o_out ob) && store_eqb s' (o_store ob) &&
      list_eqb probe_eqb (map (probe s') probes) (o_probes ob) &&
      check_hist s' rest
  end.

(** index of the first step on which model and observation differ (debugging aid) *)
Fixpoint first_diff (s : TmStore) (i : N) (steps : list (AnyOp * list Height * Obs)) : option (N * Outcome * TmStore) :=
  match steps with
  | [] => None
  | (o, probes, ob) :: rest =>
      let '(out, s') := any_step s o in
      if outcome_eqb out (o_out ob) && store_eqb s' (o_store ob) &&
         list_eqb probe_eqb (map (probe s') probes) (o_probes ob)
      then first_diff s' (N.succ i) rest else Some (i, out, s')
  end.

Definition check (c : Case) : bool :=
  match c with
  | BlockDelay d p res => opt_eqb N.eqb (Some (block_delay d p)) res
  | DelayPassed pt ph now self dt db ok => bool_eqb (delay_ok (verify_delay pt ph now self dt db)) ok
  | Hist steps => check_hist [] steps
  end.
