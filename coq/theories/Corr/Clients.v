(** Correspondence cases of the `clients` scenario family (C26 solo machine, C27 localhost,
    C28 attestations).  [check] re-computes every record with the models the theorems are about;
    the Section variables of the models (signature verification, secp256k1 recovery, keccak, ABI
    decoding) are instantiated by lookup tables recorded from the real libraries, SHA-256 by Lib/Sha256. *)
From IBC Require Import Lib.Bytes Lib.BytesFacts Lib.Dec Lib.CorrLib Lib.Sha256 Core.Height
  Clients.WasmStore Clients.Proto Clients.Localhost Clients.Solo Clients.Attest.
Local Open Scope N_scope.

Fixpoint all2 {A B} (f : A -> B -> bool) (a : list A) (b : list B) : bool :=
  match a, b with
  | [], [] => true
  | x :: a', y :: b' => f x y && all2 f a' b'
  | _, _ => false
  end.

Fixpoint assoc {V} (k : bytes) (l : list (bytes * V)) : option V :=
  match l with
  | [] => None
  | (k', v) :: l' => if bytes_eqb k' k then Some v else assoc k l'
  end.

(** ** solo machine *)

Definition sm_eqb (a b : SmState) : bool :=
  (sm_seq a =? sm_seq b) && bool_eqb (sm_frozen a) (sm_frozen b) && bytes_eqb (sm_pk a) (sm_pk b) &&
  bytes_eqb (sm_div a) (sm_div b) && (sm_ts a =? sm_ts b).

(** signature table: signature id -> (Any bytes of the key it verifies for, or [] for none; signed bytes) *)
Definition table_sig_ok (tab : list (bytes * (bytes * bytes))) (pk msg sg : bytes) : bool :=
  match assoc sg tab with
  | Some (signer, m) => negb (is_nil signer) && bytes_eqb pk signer && bytes_eqb msg m
  | None => false
  end.

Definition solo_obs_eqb (e : Entry) (o : Outcome * SmState) : bool :=
  outcome_eqb (e_out e) (fst o) && sm_eqb (e_after e) (snd o).

(** ** attestations *)

Definition opt_addr (tab : list (bytes * (bytes * option bytes))) (hash sg : bytes) : option bytes :=
  (fix go l := match l with
               | [] => None
               | (h, (s, a)) :: l' => if bytes_eqb h hash && bytes_eqb s sg then a else go l'
               end) tab.

Definition table_fn {V} (tab : list (bytes * option V)) (x : bytes) : option V :=
  match assoc x tab with Some v => v | None => None end.

Definition table_keccak (tab : list (bytes * bytes)) (x : bytes) : bytes :=
  match assoc x tab with Some v => v | None => [] end.

Definition cons_eqb (a b : list (N * N)) : bool :=
  list_eqb (fun x y => (fst x =? fst y) && (snd x =? snd y)) a b.

Definition att_obs_eqb (r : AttState * Outcome) (o : Outcome * N * bool * list (N * N)) : bool :=
  let '(out, latest, frozen, cns) := o in
  outcome_eqb (snd r) out && (at_latest (fst r) =? latest) && bool_eqb (at_frozen (fst r)) frozen &&
  cons_eqb (at_cons (fst r)) cns.

Inductive Case :=
| LhVerify (self height : Height) (proof : bytes) (path : Path) (value : bytes) (nonmember : bool) (store : kv) (out : Outcome)
| LhClientOp (allowed : bool) (op : ClientOp) (out : Outcome) (unchanged : bool)
| LhNoop (misbehaviour : bool) (out : Outcome) (unchanged : bool)
| SmSignBytes (seq ts : N) (div path data enc : bytes)
| SmHeaderData (pk : option bytes) (div enc : bytes)
| SoloHistory (init : SmState) (sigs : list (bytes * (bytes * bytes))) (malformed : list bytes) (ops : list Solo.Op) (obs : list (Outcome * SmState))
| AttVerifySigs (attestors : list bytes) (minsigs : N) (data : bytes) (sigs : list bytes) (tag : N)
                (rec : list (bytes * (bytes * option bytes))) (ok : bool)
| AttHistory (init : AttState)
             (rec : list (bytes * (bytes * option bytes)))
             (kec : list (bytes * bytes))
             (decp : list (bytes * option (N * list (bytes * bytes))))
             (decs : list (bytes * option (N * N)))
             (ops : list Attest.Op) (obs : list (Outcome * N * bool * list (N * N))).

Definition check (c : Case) : bool :=
  match c with
  | LhVerify self height proof path value nonmember store out =>
      let ctx := mkCtx self store in
      outcome_eqb (if nonmember then verify_non_membership ctx height proof path
                   else verify_membership ctx height proof path value) out
  | LhClientOp allowed op out unchanged =>
      outcome_eqb (client_op allowed true op) out && unchanged
  | LhNoop misbehaviour out unchanged =>
      bool_eqb (lh_check_for_misbehaviour localhost_id []) misbehaviour && outcome_eqb out Ok && unchanged
  | SmSignBytes seq ts div path data enc => bytes_eqb (sign_bytes_enc seq ts div path data) enc
  | SmHeaderData pk div enc => bytes_eqb (header_data_enc pk div) enc
  | SoloHistory init sigs malformed ops obs =>
      all2 solo_obs_eqb (trace (table_sig_ok sigs) (fun s => Attest.mem s malformed) init ops) obs
  | AttVerifySigs attestors minsigs data sigs tag rec ok =>
      bool_eqb (verify_signatures sha256 (opt_addr rec) attestors minsigs data sigs (ascii_of_N tag)) ok
  | AttHistory init rec kec decp decs ops obs =>
      all2 att_obs_eqb
           (Attest.run sha256 (opt_addr rec) (table_keccak kec) (table_fn decp) (table_fn decs) init ops) obs
  end.
