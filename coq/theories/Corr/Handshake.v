(** Correspondence cases of the `handshake` scenario family. *)
From IBC Require Import Lib.Bytes Lib.BytesFacts Lib.Dec Lib.CorrLib Core.Height Handshake.Version
     Handshake.Types Handshake.Model Handshake.World.
Local Open Scope N_scope.

(** a recorded two-chain history.  The projected ends are interned in two tables ([tc], [th]); each
    observation lists, for the chain the operation ran on, the indices of all its connection ends and
    all its channel ends (with next sequence send/recv/ack) in identifier order. *)
Record InitChain := mkInit {
  i_conns : list (bytes * ConnEnd); i_chans : list (key2 * ChanEnd * (N * N * N));
  i_h : N; i_rev : N; i_clients : list (bytes * list N) }.

Definition chain_of_init (i : InitChain) : Chain :=
  mkChain (i_conns i) (map fst (i_chans i)) (map (fun t => (fst (fst t), snd t)) (i_chans i)) 0 0.

Definition Obs := (bool * bool * list N * list N)%type.   (* chain, ok, conn indices, chan indices *)

Inductive Case :=
| History (ia ib : InitChain) (ops : list WOp)
          (tc : list (bytes * ConnEnd)) (th : list (key2 * ChanEnd * (N * N * N)))
          (obs : list Obs) (fin : (list N * list N) * (list N * list N))
| PickVersion (sup cp : list Version) (r : option Version)
| IsSupported (sup : list Version) (p : Version) (ok : bool) (found : option Version)
| VerifyProposed (v p : Version) (f : bytes) (ok feat : bool) (inter : list bytes)
| ValidateVersion (v : Version) (ok : bool).

Fixpoint nths {A} (t : list A) (is : list N) : option (list A) :=
  match is with
  | [] => Some []
  | i :: is' => match nth_error t (N.to_nat i), nths t is' with
                | Some x, Some r => Some (x :: r)
                | _, _ => None
                end
  end.

Definition seq3_eqb (a b : N * N * N) : bool :=
  (fst (fst a) =? fst (fst b)) && (snd (fst a) =? snd (fst b)) && (snd a =? snd b).

Definition state_matches (s : Chain) (tc : list (bytes * ConnEnd)) (th : list (key2 * ChanEnd * (N * N * N)))
           (ci hi : list N) : bool :=
  match nths tc ci, nths th hi with
  | Some lc, Some lh =>
      list_eqb (fun a b => bytes_eqb (fst a) (fst b) && conn_end_eqb (snd a) (snd b)) (conns s) lc &&
      list_eqb (fun a b => key2_eqb (fst a) (fst b) && chan_end_eqb (snd a) (snd b)) (chans s) (map fst lh) &&
      list_eqb (fun a b => key2_eqb (fst a) (fst b) && seq3_eqb (snd a) (snd b)) (seqs s)
               (map (fun t => (fst (fst t), snd t)) lh)
  | _, _ => false
  end.

Fixpoint check_ops (w : World) (ops : list WOp) (tc : list (bytes * ConnEnd))
         (th : list (key2 * ChanEnd * (N * N * N))) (obs : list Obs) : option World :=
  match ops, obs with
  | [], [] => Some w
  | op :: ops', (c, ok, ci, hi) :: obs' =>
      let r := wstep w op in
      if bool_eqb (snd r) ok && state_matches (w_st (me_of (fst r) c)) tc th ci hi
      then check_ops (fst r) ops' tc th obs'
      else None
  | _, _ => None
  end.

Definition check_history ia ib ops tc th obs (fin : (list N * list N) * (list N * list N)) : bool :=
  let w0 := init_world (chain_of_init ia) (i_h ia) (i_rev ia) (i_clients ia)
                       (chain_of_init ib) (i_h ib) (i_rev ib) (i_clients ib) in
  match check_ops w0 ops tc th obs with
  | Some w => state_matches (w_st (wa w)) tc th (fst (fst fin)) (snd (fst fin)) &&
              state_matches (w_st (wb w)) tc th (fst (snd fin)) (snd (snd fin))
  | None => false
  end.

(** for diagnosis only: index of the first disagreeing step and the guard the model fired there *)
Fixpoint first_bad (w : World) (ops : list WOp) tc th (obs : list Obs) (i : N) : option (N * bool) :=
  match ops, obs with
  | op :: ops', (c, ok, ci, hi) :: obs' =>
      let r := wstep w op in
      if bool_eqb (snd r) ok && state_matches (w_st (me_of (fst r) c)) tc th ci hi
      then first_bad (fst r) ops' tc th obs' (i + 1)
      else Some (i, snd r)
  | _, _ => None
  end.

Definition check (c : Case) : bool :=
  match c with
  | History ia ib ops tc th obs fin => check_history ia ib ops tc th obs fin
  | PickVersion sup cp r => opt_eqb version_eqb (pick_version sup cp) r
  | IsSupported sup p ok found =>
      bool_eqb (is_supported sup p) ok && opt_eqb version_eqb (find_supported (v_id p) sup) found
  | VerifyProposed v p f ok feat inter =>
      bool_eqb (verify_proposed v p) ok && bool_eqb (verify_supported_feature v f) feat &&
      list_eqb bytes_eqb (feature_intersection (v_feats v) (v_feats p)) inter
  | ValidateVersion v ok => bool_eqb (validate_version v) ok
  end.

(** for measuring generator coverage only: per operation, 0 if the model's handler succeeded, else the
    number of the guard that fired (Model.v numbering) *)
Definition op_guard (w : World) (op : WOp) : N :=
  let code r := match r with Ok _ => 0 | Err g => g end in
  match op with
  | WDeliver c m => code (handle (env_of (me_of w c) (cp_of w c)) (w_st (me_of w c)) m)
  | WSend c p ch => code (w_send (env_of (me_of w c) (cp_of w c)) (w_st (me_of w c)) p ch)
  | WTimeout c p ch => code (w_timeout (env_of (me_of w c) (cp_of w c)) (w_st (me_of w c)) p ch)
  | _ => 0
  end.
Fixpoint guards_run (w : World) (ops : list WOp) : list N :=
  match ops with
  | [] => []
  | op :: ops' => op_guard w op :: guards_run (fst (wstep w op)) ops'
  end.
Definition guards_hit (c : Case) : list N :=
  match c with
  | History ia ib ops _ _ _ _ =>
      guards_run (init_world (chain_of_init ia) (i_h ia) (i_rev ia) (i_clients ia)
                             (chain_of_init ib) (i_h ib) (i_rev ib) (i_clients ib)) ops
  | _ => []
  end.
