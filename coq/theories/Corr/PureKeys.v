(** Correspondence cases of the `purekeys` scenario family (C07, C15, C16, C48): each constructor carries the
    inputs the implementation was run on and the outputs it returned; [check] re-computes them with the models
    the theorems are about. *)
From IBC Require Import Lib.Bytes Lib.BytesFacts Lib.Dec Lib.BE64 Lib.CorrLib Lib.Sha256 Core.Height Keys.Ident Keys.StoreKeys Keys.Commit Keys.Router.
Local Open Scope N_scope.

Definition pair_eqb (a b : bytes * N) : bool := bytes_eqb (fst a) (fst b) && (snd a =? snd b).
Definition counters_eqb (c : Counters) (x : N * N * N) : bool :=
  let '(a, b, d) := x in (next_client c =? a) && (next_connection c =? b) && (next_channel c =? d).

(** validity of an identifier of the given kind, as the harness records it: IsValid*ID && *IdentifierValidator *)
Definition id_valid_for (k : Kind) (id : bytes) : bool :=
  match k with
  | KClient => is_valid_client_id id && client_identifier_validator id
  | KConnection => is_valid_connection_id id && connection_identifier_validator id
  | KChannel => is_valid_channel_id id && channel_identifier_validator id
  end.

Fixpoint insertN (x : N) (l : list N) : list N :=
  match l with [] => [x] | y :: l' => if x <=? y then x :: l else y :: insertN x l' end.
Definition sortN (l : list N) : list N := fold_right insertN [] l.

Inductive Case :=
(* C15 *)
| Blank (s : bytes) (b : bool)
| ValidId (s : bytes) (isvalid cl conn chan port alnum : bool)
| ClientType (t : bytes) (ok : bool)
| ClientFmt (t : bytes) (s : N) (out : bytes)
| ClientParse (id : bytes) (fmt : bool) (r : option (bytes * N)) (valid hostvalid : bool)
| ClientRoundtrip (t : bytes) (s : N) (typeok : bool) (id : bytes) (r : option (bytes * N)) (valid hostvalid : bool)
| ChanRoundtrip (s : N) (id : bytes) (r : option N) (valid hostvalid : bool)
| ConnRoundtrip (s : N) (id : bytes) (r : option N) (valid hostvalid : bool)
| ChanFmt (s : N) (out : bytes)
| ConnFmt (s : N) (out : bytes)
| ChanParse (id : bytes) (fmt : bool) (r : option N) (valid hostvalid : bool)
| ConnParse (id : bytes) (fmt : bool) (r : option N) (valid hostvalid : bool)
| ParseIdent (id pre : bytes) (r : option N)
| CountersHist (init : N * N * N) (ops : list Create) (ids : list (bytes * bool)) (final : N * N * N)
(* C16 *)
| KeyEq (model out : bytes)                       (* a key function of the model applied to the inputs vs Go's bytes *)
| KeyOf (k : Key) (out : bytes)                   (* [encode] of the structured key vs Go's bytes *)
| Iter (store : list Key) (q : Query) (out : option (list N))    (* keeper prefix iteration; None = panic *)
(* C07: the models instantiated with the executable SHA-256 *)
| Sha (msg out : bytes)
| PktCommit1 (ts rn rh : N) (data out : bytes)
| AckCommit1 (data out : bytes)
| PktCommit2 (dest : bytes) (ts : N) (ps : list Payload) (out : bytes)
| AckCommit2 (acks : list bytes) (out : bytes)
(* C48: registration attempts (accepted flags), then (HasRoute, Route) per queried port; None = Route panics *)
| Router2Case (ops : list Op2) (ports : list bytes) (acc : list bool) (res : list (bool * option N))
| Router1Case (ops : list (bool * bytes * N)) (ports : list bytes) (acc : list bool) (res : list (option N)) (keys : list bytes)
| Both (a b : Case).

Fixpoint check (c : Case) : bool :=
  match c with
  | Blank s b => bool_eqb (is_blank s) b
  | ValidId s v cl conn chan port alnum =>
      bool_eqb (is_valid_id s) v && bool_eqb (client_identifier_validator s) cl &&
      bool_eqb (connection_identifier_validator s) conn && bool_eqb (channel_identifier_validator s) chan &&
      bool_eqb (port_identifier_validator s) port && bool_eqb (is_alphanumeric s) alnum
  | ClientType t ok => bool_eqb (validate_client_type t) ok
  | ClientFmt t s out => bytes_eqb (format_client_identifier t s) out
  | ClientParse id fmt r valid hostvalid =>
      bool_eqb (is_client_id_format id) fmt && opt_eqb pair_eqb (parse_client_identifier id) r &&
      bool_eqb (is_valid_client_id id) valid && bool_eqb (client_identifier_validator id) hostvalid
  | ClientRoundtrip t s typeok id r valid hostvalid =>
      let id' := format_client_identifier t s in
      bool_eqb (validate_client_type t) typeok && bytes_eqb id' id &&
      opt_eqb pair_eqb (parse_client_identifier id') r &&
      bool_eqb (is_valid_client_id id') valid && bool_eqb (client_identifier_validator id') hostvalid
  | ChanRoundtrip s id r valid hostvalid =>
      let id' := format_channel_identifier s in
      bytes_eqb id' id && opt_eqb N.eqb (parse_channel_sequence id') r &&
      bool_eqb (is_valid_channel_id id') valid && bool_eqb (channel_identifier_validator id') hostvalid
  | ConnRoundtrip s id r valid hostvalid =>
      let id' := format_connection_identifier s in
      bytes_eqb id' id && opt_eqb N.eqb (parse_connection_sequence id') r &&
      bool_eqb (is_valid_connection_id id') valid && bool_eqb (connection_identifier_validator id') hostvalid
  | ChanFmt s out => bytes_eqb (format_channel_identifier s) out
  | ConnFmt s out => bytes_eqb (format_connection_identifier s) out
  | ChanParse id fmt r valid hostvalid =>
      bool_eqb (is_channel_id_format id) fmt && opt_eqb N.eqb (parse_channel_sequence id) r &&
      bool_eqb (is_valid_channel_id id) valid && bool_eqb (channel_identifier_validator id) hostvalid
  | ConnParse id fmt r valid hostvalid =>
      bool_eqb (is_connection_id_format id) fmt && opt_eqb N.eqb (parse_connection_sequence id) r &&
      bool_eqb (is_valid_connection_id id) valid && bool_eqb (connection_identifier_validator id) hostvalid
  | ParseIdent id pre r => opt_eqb N.eqb (parse_identifier id pre) r
  | CountersHist (a, b, d) ops ids final =>
      let c0 := mkC a b d in
      list_eqb (fun x y => bytes_eqb (fst x) (fst y) && bool_eqb (snd x) (snd y))
               (map (fun x => (snd (fst x), id_valid_for (fst (fst x)) (snd (fst x)))) (run_trace c0 ops)) ids &&
      counters_eqb (run_final c0 ops) final
  | KeyEq m out => bytes_eqb m out
  | KeyOf k out => bytes_eqb (encode k) out
  | Iter store q out => opt_eqb (list_eqb N.eqb) (option_map sortN (iterate store q)) (option_map sortN out)
  | Sha msg out => bytes_eqb (sha256 msg) out
  | PktCommit1 ts rn rh data out => bytes_eqb (commit_packet_v1 sha256 ts rn rh data) out
  | AckCommit1 data out => bytes_eqb (commit_ack_v1 sha256 data) out
  | PktCommit2 dest ts ps out => bytes_eqb (commit_packet_v2 sha256 dest ts ps) out
  | AckCommit2 acks out => bytes_eqb (commit_ack_v2 sha256 acks) out
  | Router2Case ops ports acc res =>
      let '(a, r) := run2_trace empty2 ops in
      list_eqb bool_eqb a acc &&
      list_eqb (fun x y => bool_eqb (fst x) (fst y) && opt_eqb N.eqb (snd x) (snd y))
               (map (fun p => (has_route r p, get_route r p)) ports) res
  | Router1Case ops ports acc res keys =>
      let '(a, r) := run1_trace empty1 ops in
      list_eqb bool_eqb a acc && list_eqb (opt_eqb N.eqb) (map (route1 r) ports) res &&
      list_eqb bytes_eqb (keys1 r) keys
  | Both a b => check a && check b
  end.
