(** Correspondence cases of the `wasmstore` scenario family (C29): one case = one history on the real
    ClientRecoveryStore; [check] re-runs it on the model of Clients/WasmStore.v and compares, after every
    operation, the returned value and the dumps of both underlying stores. *)
From IBC Require Import Lib.Bytes Lib.BytesFacts Lib.CorrLib Clients.WasmStore.

Definition pair_eqb (a b : bytes * bytes) : bool := bytes_eqb (fst a) (fst b) && bytes_eqb (snd a) (snd b).
Definition kv_eqb (a b : kv) : bool := list_eqb pair_eqb a b.

Definition res_eqb (a b : Res) : bool :=
  match a, b with
  | RUnit, RUnit => true
  | RGet x, RGet y => opt_eqb bytes_eqb x y
  | RHas x, RHas y => bool_eqb x y
  | RIter x, RIter y => kv_eqb x y
  | RPanic, RPanic => true
  | _, _ => false
  end.

(** observation after one op: result, subject dump, substitute dump *)
Definition Obs := (Res * kv * kv)%type.

Definition obs_eqb (m : St * Res) (o : Obs) : bool :=
  let '(r, sj, sb) := o in
  res_eqb (snd m) r && kv_eqb (subj (fst m)) sj && kv_eqb (subst (fst m)) sb.

Fixpoint all2 {A B} (f : A -> B -> bool) (a : list A) (b : list B) : bool :=
  match a, b with
  | [], [] => true
  | x :: a', y :: b' => f x y && all2 f a' b'
  | _, _ => false
  end.

Inductive Case :=
| History (sj sb : kv) (ops : list Op) (obs : list Obs).

Definition check (c : Case) : bool :=
  match c with
  | History sj sb ops obs => all2 obs_eqb (run (mkSt sj sb) ops) obs
  end.
