(** Correspondence cases of the `determinism` family (C45). *)
From IBC Require Import Lib.Bytes Lib.CorrLib Lib.BE64 Sys.Determinism.

Inductive Case :=
(** the regenerated inventory of range-over-map sites against the list every site of which has a lemma *)
| MapSites (expected found : list bytes)
(** observations (app hash after every block, exported genesis digests, ordered query digests) of the same history
    in several OS processes *)
| Procs (rows : list (list bytes))
(** Router.Keys of the 05-port router after registering the given distinct names *)
| RouterKeys (inserted sorted_out : list bytes).

Definition row_eqb := list_eqb bytes_eqb.

Definition check (c : Case) : bool :=
  match c with
  | MapSites e f => row_eqb (isort ble e) (isort ble f)
  | Procs rows => match rows with [] => false | r :: rs => forallb (row_eqb r) rs end
  | RouterKeys ins out => row_eqb (router_keys (map (fun k => (k, tt)) ins)) out
  end.
