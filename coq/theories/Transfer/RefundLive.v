(** C32, liveness of the refund: in a world reached by safe, plain operations from a fresh world, the refund of an
    in-flight packet (timeout, or acknowledgement after an error receive) cannot fail: it either mints, or unescrows
    an amount the escrow account holds because that amount is one of the non-negative summands of the conservation
    identity; the tracked total covers it too, so SetTotalEscrowForDenom does not panic. *)
From IBC Require Import Lib.Bytes Lib.BytesFacts Transfer.DenomLocal Transfer.Bank Transfer.Keeper Transfer.World
  Transfer.BankFacts Transfer.DenomFacts Transfer.WorldFacts Transfer.AuthFacts Transfer.EscrowFacts
  Transfer.ConserveFacts Transfer.RefundFacts Transfer.Examples.
Local Open Scope Z_scope.

(** ** voucher supplies stay non-negative (a burn is guarded by the supply) *)

Definition SupNonneg (w : World) : Prop := forall c x, 0 <= sup (bank (w_ch w c)) x.

Lemma send_transfer_burn_guard k port chan tok amt sender k' :
  send_transfer k port chan tok amt sender = ROk k' -> has_prefix tok port chan = true ->
  amt <= sup (bank k) (ibc_denom tok).
Proof.
  unfold send_transfer. destruct (send_en k); simpl; [|discriminate].
  destruct (blocked sender); [discriminate|]. intros H Hp. rewrite Hp in H.
  destruct (send_coins (bank k) sender ModTransfer (ibc_denom tok) amt) as [b|] eqn:E1; [|discriminate].
  destruct (burn_coins b (ibc_denom tok) amt) as [b'|] eqn:E2; [|discriminate].
  apply send_coins_spec in E1. destruct E1 as (_ & _ & Hs).
  apply burn_coins_spec in E2. destruct E2 as (_ & Hle & _). rewrite Hs in Hle. exact Hle.
Qed.

Lemma supnonneg_step w o : SupNonneg w -> SupNonneg (step_w w o).
Proof.
  intros HB c x.
  destruct (step_trans w o) as
    [Hs | c0 chan pd v2 tok snd k' Ho Hau Hus Hhc Hv Hsnd Hpath Htok Hst Hw
        | n relayer p c' ch' k' ok Ho Hn Hr Hc Hp Hk Hw
        | n relayer p ok data k' Ho Hn Hr Hc Hu Hk Hw
        | n relayer p data k' Ho Hn Hr Hc Hu Hk Hw
        | c0 from to coin amt b Ho Hus Hm Hw
        | c0 s r Ho Hw].
  - rewrite Hs. apply HB.
  - rewrite Hw. cbn [w_ch]. destruct (N.eq_dec c c0) as [->|Hne]; [|rewrite upd_ch_other by assumption; apply HB].
    rewrite upd_ch_same. specialize (HB c0 x).
    pose proof (send_transfer_burn_guard _ _ _ _ _ _ _ Hst) as Hg.
    apply send_transfer_spec in Hst. destruct Hst as (_ & _ & _ & _ & HK).
    apply ftpd_valid_spec in Hv. destruct Hv as (Hamt & _).
    destruct (has_prefix tok transfer_port chan); destruct HK as (_ & Hsup & _); rewrite Hsup; simpl; [|lia].
    specialize (Hg eq_refl). unfold at_coin. destruct (coin_eqb x (ibc_denom tok)) eqn:E; [|lia].
    apply coin_eqb_eq in E. subst. lia.
  - rewrite Hw. cbn [w_ch]. destruct (N.eq_dec c c') as [->|Hne]; [|rewrite upd_ch_other by assumption; apply HB].
    rewrite upd_ch_same. destruct Hk as [[_ ->] | [_ (data & Hu & Hrp)]]; [apply HB|].
    apply on_recv_packet_spec in Hrp. destruct Hrp as (receiver & Hiv & _ & Hrcv & _ & Hbr).
    apply itr_valid_amt in Hiv. specialize (HB c' x).
    destruct (has_prefix _ _ _).
    + destruct Hbr as (_ & (_ & Hsup & _) & _). rewrite Hsup. simpl. lia.
    + destruct Hbr as ((_ & Hsup & _) & _). rewrite Hsup. simpl.
      match goal with |- context[at_coin ?d x] => pose proof (at_coin_range d x) end. nia.
  - rewrite Hw. cbn [w_ch]. destruct (N.eq_dec c (ps_src p)) as [->|Hne]; [|rewrite upd_ch_other by assumption; apply HB].
    rewrite upd_ch_same. destruct ok; [subst k'; apply HB|].
    apply refund_packet_tokens_spec in Hk. destruct Hk as (sender & Hsd & _ & _ & Hbr). cbv zeta in Hbr.
    apply unmarshal_pd_spec in Hu. destruct Hu as (Hv & ->). cbn [it_denom it_amt] in *.
    apply ftpd_valid_spec in Hv. destruct Hv as (Hamt & _). specialize (HB (ps_src p) x).
    destruct (has_prefix _ _ _).
    + destruct Hbr as (_ & Hsup & _). rewrite Hsup. simpl.
      match goal with |- context[at_coin ?d x] => pose proof (at_coin_range d x) end. nia.
    + destruct Hbr as (_ & _ & Hsup & _). rewrite Hsup. simpl. lia.
  - rewrite Hw. cbn [w_ch]. destruct (N.eq_dec c (ps_src p)) as [->|Hne]; [|rewrite upd_ch_other by assumption; apply HB].
    rewrite upd_ch_same.
    apply refund_packet_tokens_spec in Hk. destruct Hk as (sender & Hsd & _ & _ & Hbr). cbv zeta in Hbr.
    apply unmarshal_pd_spec in Hu. destruct Hu as (Hv & ->). cbn [it_denom it_amt] in *.
    apply ftpd_valid_spec in Hv. destruct Hv as (Hamt & _). specialize (HB (ps_src p) x).
    destruct (has_prefix _ _ _).
    + destruct Hbr as (_ & Hsup & _). rewrite Hsup. simpl.
      match goal with |- context[at_coin ?d x] => pose proof (at_coin_range d x) end. nia.
    + destruct Hbr as (_ & _ & Hsup & _). rewrite Hsup. simpl. lia.
  - rewrite Hw. cbn [w_ch]. destruct (N.eq_dec c c0) as [->|Hne]; [|rewrite upd_ch_other by assumption; apply HB].
    rewrite upd_ch_same. unfold msg_send in Hm.
    destruct ((amt <=? 0) || bank_blocked to); [discriminate|].
    apply send_coins_spec in Hm. destruct Hm as (_ & _ & Hsup). cbn [set_bank bank]. rewrite Hsup. apply HB.
  - rewrite Hw. cbn [w_ch]. destruct (N.eq_dec c c0) as [->|Hne]; [|rewrite upd_ch_other by assumption; apply HB].
    rewrite upd_ch_same. simpl. apply HB.
Qed.

(** ** the bundle of invariants of safe, plain histories *)

(** [chans c]: a duplicate-free list containing the channel ids of chain c *)
Definition Sound (w : World) (chans : N -> list bytes) : Prop :=
  Good w /\ Conserve w /\ BalNonneg w /\ SupNonneg w /\
  forall c, chans_ok (w_links w) c (chans c) /\ forall x, gap w c (chans c) x = 0.

Lemma sound_step w chans o :
  Sound w chans -> safe_op o -> plain_op w o -> Sound (step_w w o) chans.
Proof.
  intros (HG & HC & HB & HS & Hch) Hsafe Hplain.
  pose proof HG as ((Hwf & _) & HP & _).
  split; [now apply good_step|]. split; [now apply conserve_step|].
  split; [now apply balnonneg_step|]. split; [now apply supnonneg_step|].
  intro c. destruct (Hch c) as (Hok & Hgap). rewrite step_links. split; [exact Hok|].
  intro x. destruct (gap_step w o c (chans c) x Hwf HP Hok) as (_ & He). rewrite (He Hplain). apply Hgap.
Qed.

Lemma sound_run w chans ops : Sound w chans -> ok_ops w ops -> Sound (run w ops) chans.
Proof.
  revert w. induction ops as [|o ops IH]; intros w HS Hok; simpl; [exact HS|].
  destruct Hok as (H1 & H2 & H3). apply IH; [now apply sound_step|exact H3].
Qed.

Lemma esc_sum_all_zero b chans x : (forall ch, b (Escrow ch) x = 0) -> esc_sum b chans x = 0.
Proof. intro H. induction chans as [|ch r IH]; simpl; [reflexivity|]. rewrite H, IH. reflexivity. Qed.

Lemma fresh_sound w chans :
  links_ok (w_links w) -> Fresh w -> (forall c, chans_ok (w_links w) c (chans c)) ->
  (forall c x, 0 <= sup (bank (w_ch w c)) x) -> Sound w chans.
Proof.
  intros HL HF Hch Hsup. pose proof HF as (_ & Hb & _ & Ht & _ & Hnn).
  split; [now apply fresh_good|]. split; [now apply fresh_conserve|].
  split; [exact Hnn|]. split; [exact Hsup|].
  intro c. split; [apply Hch|]. intro x. unfold gap. rewrite Ht, esc_sum_all_zero; [reflexivity|]. intro ch. apply Hb.
Qed.

(** ** sums of non-negative contributions *)

Lemma psum_nonneg f l : (forall q, In q l -> 0 <= f q) -> 0 <= psum f l.
Proof.
  induction l as [|a l IH]; simpl; intro H; [lia|].
  pose proof (H a (or_introl eq_refl)). assert (0 <= psum f l) by (apply IH; intros; apply H; now right). lia.
Qed.

Lemma psum_ge_member f l n p :
  (forall q, In q l -> 0 <= f q) -> nth_error l n = Some p -> f p <= psum f l.
Proof.
  revert n; induction l as [|a l IH]; intros [|n] H Hn; simpl in *; try discriminate.
  - inversion Hn; subst. assert (0 <= psum f l) by (apply psum_nonneg; intros; apply H; now right). lia.
  - pose proof (H a (or_introl eq_refl)). assert (f p <= psum f l) by (apply (IH n); auto). lia.
Qed.

Lemma I_range b : 0 <= I b <= 1.
Proof. destruct b; simpl; lia. Qed.

Lemma contrib_nonneg A cA B cB x q : 0 <= pkt_amt q -> 0 <= contrib A cA B cB x q.
Proof.
  intro H. unfold contrib. destruct (pending q); [|lia].
  pose proof (I_range (fwd_b A cA x q)). pose proof (I_range (bwd_b B cB x q)). nia.
Qed.

(** ** the refund goes through *)

Lemma refund_ok w chans n p :
  Sound w chans -> nth_error (w_pk w) n = Some p -> pending p = true ->
  exists k', refund_packet_tokens (w_ch w (ps_src p)) transfer_port (ps_chan p)
               (mkITR (extract (pd_path (ps_data p))) (pd_amt (ps_data p)) (pd_sender (ps_data p))
                      (pd_receiver (ps_data p))) = ROk k'.
Proof.
  intros (HG & HC & HB & HS & Hch) Hn Hpend.
  pose proof HG as ((Hwf & Hids & Hnoself) & HP & _).
  pose proof (nth_error_In _ _ Hn) as Hin. destruct (HP p Hin) as (Hhcp & Hvp & a & Hsa & Hua).
  pose proof (ftpd_valid_spec _ Hvp) as (Hamt & _ & _ & Hdv).
  unfold refund_packet_tokens. cbn [it_sender it_denom it_amt]. rewrite Hsa. cbn [addr_decode].
  assert (Hbl : blocked a = false) by (destruct a; try discriminate; reflexivity). rewrite Hbl.
  set (y := ibc_denom (extract (pd_path (ps_data p)))).
  set (amt := pd_amt (ps_data p)) in *.
  destruct (has_prefix (extract (pd_path (ps_data p))) transfer_port (ps_chan p)) eqn:Eu.
  - (* burnt at send time: mint back; the module account holds what was just minted *)
    destruct (mint_coins_spec (bank (w_ch w (ps_src p))) y amt) as (Hm1 & _).
    unfold send_coins. rewrite Hm1, at_cell_same.
    pose proof (HB (ps_src p) ModTransfer y) as Hnn.
    destruct (bal (bank (w_ch w (ps_src p))) ModTransfer y + amt * 1 <? amt) eqn:E; [apply Z.ltb_lt in E; lia|].
    eexists. reflexivity.
  - (* escrowed at send time: the escrow account holds the amount by conservation *)
    unfold has_chan in Hhcp. destruct (peer (w_links w) (ps_src p) (ps_chan p)) as [[Bc cB]|] eqn:Hpeer; [|discriminate].
    assert (Hwfy : coin_wf y) by (apply ibc_denom_extract_is_wf; now apply denom_valid_base).
    specialize (HC (ps_src p) (ps_chan p) Bc cB y Hpeer Hwfy). unfold in_flight in HC.
    assert (Hall : forall q, In q (w_pk w) -> 0 <= contrib (ps_src p) (ps_chan p) Bc cB y q).
    { intros q Hq. apply contrib_nonneg. destruct (HP q Hq) as (_ & Hvq & _).
      apply ftpd_valid_spec in Hvq. unfold pkt_amt. lia. }
    pose proof (psum_ge_member _ _ _ _ Hall Hn) as Hge.
    assert (Hcp : contrib (ps_src p) (ps_chan p) Bc cB y p >= amt).
    { unfold contrib. rewrite Hpend. unfold fwd_b, pkt_unw, pkt_coin, pkt_tok, pkt_amt. fold y. fold amt.
      rewrite Eu, N.eqb_refl, bytes_eqb_refl, coin_eqb_refl. cbn [negb andb I].
      pose proof (I_range (bwd_b Bc cB y p)). nia. }
    pose proof (HS Bc (vch cB y)) as Hsup.
    assert (Hesc : amt <= bal (bank (w_ch w (ps_src p))) (Escrow (ps_chan p)) y) by lia.
    destruct (Hch (ps_src p)) as ((Hnd & Hcomp) & Hgap).
    assert (Hinch : In (ps_chan p) (chans (ps_src p))).
    { apply Hcomp. unfold has_chan. now rewrite Hpeer. }
    pose proof (esc_sum_member (bal (bank (w_ch w (ps_src p)))) (chans (ps_src p)) (ps_chan p) y
                  (fun a0 => HB (ps_src p) a0 y) Hinch) as Hmem.
    specialize (Hgap y). unfold gap in Hgap.
    unfold unescrow_coin, send_coins.
    destruct (bal (bank (w_ch w (ps_src p))) (Escrow (ps_chan p)) y <? amt) eqn:E; [apply Z.ltb_lt in E; lia|].
    unfold set_total_escrow.
    destruct (tesc (w_ch w (ps_src p)) y - amt <? 0) eqn:E2; [apply Z.ltb_lt in E2; lia|].
    eexists. reflexivity.
Qed.

(** C32, liveness: the step that processes the timeout of an in-flight, not received packet, or the
    acknowledgement of an in-flight packet whose receive ended in an error acknowledgement, succeeds and clears
    the commitment: the sender is refunded. *)
Theorem refund_cannot_fail w chans n p r o :
  Sound w chans -> nth_error (w_pk w) n = Some p -> ps_committed p = true ->
  ((o = OTimeout n r true /\ ps_recv p = None) \/ (o = OAck n r /\ ps_recv p = Some false)) ->
  snd (fst (step w o)) = OOk /\
  exists q, nth_error (w_pk (step_w w o)) n = Some q /\ ps_committed q = false.
Proof.
  intros HSo Hn Hc Hcase.
  pose proof HSo as (HG & _). pose proof HG as (_ & HP & _).
  pose proof (nth_error_In _ _ Hn) as Hin. destruct (HP p Hin) as (_ & Hvp & _).
  assert (Hpend : pending p = true).
  { unfold pending. rewrite Hc. destruct Hcase as [(_ & ->)|(_ & ->)]; reflexivity. }
  destruct (refund_ok w chans n p HSo Hn Hpend) as (k' & Hk).
  assert (Hum : unmarshal_pd (ps_data p) =
                Some (mkITR (extract (pd_path (ps_data p))) (pd_amt (ps_data p)) (pd_sender (ps_data p))
                            (pd_receiver (ps_data p)))).
  { unfold unmarshal_pd. now rewrite Hvp. }
  assert (Hq : nth_error (upd_nth n clear_commit (w_pk w)) n = Some (clear_commit p)).
  { rewrite nth_error_upd_nth, Nat.eqb_refl, Hn. reflexivity. }
  destruct Hcase as [(-> & Hr)|(-> & Hr)]; unfold step_w, step; rewrite Hn, Hr, Hc; cbn [negb orb].
  - unfold on_timeout. rewrite Hum, Hk. cbn [fst snd w_pk]. split; [reflexivity|].
    exists (clear_commit p). split; [exact Hq|reflexivity].
  - assert (Hack : (if ps_v2 p then on_ack_v2 else on_ack_v1) (w_ch w (ps_src p)) (ps_data p) (ps_chan p)
                     (ack_written (ps_v2 p) false) r = ROk k').
    { destruct (ps_v2 p); simpl; rewrite Hum; unfold on_ack_keeper; exact Hk. }
    rewrite Hack. cbn [fst snd w_pk]. split; [reflexivity|].
    exists (clear_commit p). split; [exact Hq|reflexivity].
Qed.

(** ... in every world reached from a fresh one by safe, plain operations *)
Theorem refund_cannot_fail_run w0 chans ops n p r o :
  links_ok (w_links w0) -> Fresh w0 -> (forall c, chans_ok (w_links w0) c (chans c)) ->
  (forall c x, 0 <= sup (bank (w_ch w0 c)) x) -> ok_ops w0 ops ->
  let w := run w0 ops in
  nth_error (w_pk w) n = Some p -> ps_committed p = true ->
  ((o = OTimeout n r true /\ ps_recv p = None) \/ (o = OAck n r /\ ps_recv p = Some false)) ->
  snd (fst (step w o)) = OOk /\
  exists q, nth_error (w_pk (step_w w o)) n = Some q /\ ps_committed q = false.
Proof.
  intros HL HF Hch Hsup Hok w. apply (refund_cannot_fail w chans).
  apply sound_run; [|exact Hok]. now apply fresh_sound.
Qed.

(** ** the channel list of a chain, computed from the topology *)

Fixpoint chans_of (links : list Link) (c : N) : list bytes :=
  match links with
  | [] => []
  | l :: ls => (if N.eqb (la l) c then [lca l] else []) ++ (if N.eqb (lb l) c then [lcb l] else []) ++ chans_of ls c
  end.
Definition chain_chans (links : list Link) (c : N) : list bytes := nodup bytes_eq_dec (chans_of links c).

Lemma chans_of_in links c l :
  In l links -> (la l = c -> In (lca l) (chans_of links c)) /\ (lb l = c -> In (lcb l) (chans_of links c)).
Proof.
  induction links as [|l0 ls IH]; simpl; [tauto|]. intros [->|Hin].
  - split; intros ->; rewrite N.eqb_refl.
    + simpl. now left.
    + apply in_or_app. right. apply in_or_app. left. simpl. now left.
  - destruct (IH Hin) as (H1 & H2). split; intro E; apply in_or_app; right; apply in_or_app; right; auto.
Qed.

Lemma chain_chans_ok links c : chans_ok links c (chain_chans links c).
Proof.
  split; [apply NoDup_nodup|]. intros ch Hh. apply nodup_In.
  unfold has_chan in Hh. destruct (peer links c ch) as [[c' ch']|] eqn:Hp; [|discriminate].
  destruct (peer_in _ _ _ _ _ Hp) as (l & Hl & [(H1 & H2 & _)|(H1 & H2 & _)]);
    destruct (chans_of_in links c l Hl) as (G1 & G2); subst ch; auto.
Qed.

(** C32, liveness, closed form: any number of chains, any topology satisfying [links_ok], any history of safe,
    plain operations from a fresh world with non-negative supplies. *)
Theorem refund_cannot_fail_fresh w0 ops n p r o :
  links_ok (w_links w0) -> Fresh w0 -> (forall c x, 0 <= sup (bank (w_ch w0 c)) x) -> ok_ops w0 ops ->
  let w := run w0 ops in
  nth_error (w_pk w) n = Some p -> ps_committed p = true ->
  ((o = OTimeout n r true /\ ps_recv p = None) \/ (o = OAck n r /\ ps_recv p = Some false)) ->
  snd (fst (step w o)) = OOk /\
  exists q, nth_error (w_pk (step_w w o)) n = Some q /\ ps_committed q = false.
Proof.
  intros HL HF Hsup Hok. apply (refund_cannot_fail_run w0 (chain_chans (w_links w0))); auto.
  intro c. apply chain_chans_ok.
Qed.

(** the example world meets the hypotheses; after the first ten operations of the example history packet 3 is in
    flight (committed, not received) *)
Lemma ex_sup_nonneg : forall c x, 0 <= sup (bank (w_ch ex_world c)) x.
Proof. intros c x. simpl. destruct x; lia. Qed.

Lemma ex_prefix_ok : ok_ops ex_world (firstn 10 ex_ops).
Proof. vm_compute. repeat split; auto; intros p a H1 H2; inversion H1; subst; inversion H2; subst; exact Logic.I. Qed.

Lemma ex_packet3_in_flight :
  exists p, nth_error (w_pk (run ex_world (firstn 10 ex_ops))) 3 = Some p /\ ps_committed p = true /\ ps_recv p = None.
Proof. eexists. vm_compute. repeat split; reflexivity. Qed.
