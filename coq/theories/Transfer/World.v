(** N chains running the ICS-20 keeper, joined by transfer channels, with the packet life cycle reduced to
    three flags per packet.  Core IBC is NOT re-modelled: its guarantees are the guards of [step]
    (interface assumptions, proved elsewhere in /verif):
      - C01/C03/C05: a packet is received only while its commitment exists, at most once, and only the packet
        that was sent (ORecv refers to a packet of the list, guard [ps_committed && recv = None]);
      - C04/C17: a receive is rejected once the timeout has elapsed on the destination, a timeout is accepted
        only when it has elapsed there and the packet was not received ([elapsed] is an input of the op);
      - C06/C11: the acknowledgement relayed is the one the destination wrote (taken from [ps_recv]);
      - C03: acknowledgement and timeout happen at most once (they clear [ps_committed]); duplicates are no-ops;
      - C08: sequences are allocated consecutively per channel end, shared by v1 and v2-over-alias traffic.
    A violated guard gives [OFail] and leaves the world unchanged.  Definitions only. *)
From IBC Require Import Lib.Bytes Transfer.DenomLocal Transfer.Bank Transfer.Keeper.
Local Open Scope Z_scope.

(** a transfer channel between chain [la] (channel id [lca]) and chain [lb] (channel id [lcb]) *)
Record Link := mkLink { la : N; lca : bytes; lb : N; lcb : bytes }.

Fixpoint peer (links : list Link) (c : N) (ch : bytes) : option (N * bytes) :=
  match links with
  | [] => None
  | l :: ls =>
      if N.eqb (la l) c && bytes_eqb (lca l) ch then Some (lb l, lcb l)
      else if N.eqb (lb l) c && bytes_eqb (lcb l) ch then Some (la l, lca l)
      else peer ls c ch
  end.

Definition has_chan (links : list Link) (c : N) (ch : bytes) : bool :=
  match peer links c ch with Some _ => true | None => false end.
Definition peer_chan (links : list Link) (c : N) (ch : bytes) : option bytes :=
  match peer links c ch with Some (_, ch') => Some ch' | None => None end.

(** a sent packet: where it was sent, its sequence, protocol, data; commitment still present on the source;
    receive outcome on the destination (None: not received, Some true: success ack, Some false: error ack) *)
Record PState := mkPS {
  ps_src : N; ps_chan : bytes; ps_seq : N; ps_v2 : bool; ps_data : PData;
  ps_committed : bool; ps_recv : option bool }.

Record World := mkW { w_links : list Link; w_ch : N -> KState; w_pk : list PState }.

Definition upd_ch (f : N -> KState) (c : N) (k : KState) : N -> KState :=
  fun c' => if N.eqb c' c then k else f c'.

Fixpoint upd_nth {A} (n : nat) (f : A -> A) (l : list A) : list A :=
  match l, n with
  | [], _ => []
  | x :: l', O => f x :: l'
  | x :: l', S n' => x :: upd_nth n' f l'
  end.

(** next sequence of a channel end: 1 + number of packets sent on it (v1 and v2 alike) *)
Fixpoint next_seq (pk : list PState) (c : N) (ch : bytes) : N :=
  match pk with
  | [] => 1%N
  | p :: pk' => if N.eqb (ps_src p) c && bytes_eqb (ps_chan p) ch then N.succ (next_seq pk' c ch) else next_seq pk' c ch
  end.

Inductive Op :=
| OTransfer (c : N) (signer : Acct) (authz : bool) (chan : bytes) (coin : Coin) (amt : Z)
            (sender receiver : AddrStr) (alias : bool)          (* MsgTransfer in a tx signed by [signer] *)
| OSendV2 (c : N) (signer : Acct) (chan : bytes) (pd : PData)   (* MsgSendPacket with one transfer payload *)
| ORecv (k : nat) (relayer : Acct) (elapsed : bool)
| OAck (k : nat) (relayer : Acct)
| OTimeout (k : nat) (relayer : Acct) (elapsed : bool)
| OBankSend (c : N) (from to : Acct) (coin : Coin) (amt : Z)    (* x/bank MsgSend signed by [from] *)
| OSetParams (c : N) (s r : bool).

Inductive Outcome := OOk | OErrAck | OFail | OPanic.

(** The SDK verifies that the transaction is signed by the message's signer field (MsgTransfer: sender,
    types/msgs.go annotation cosmos.msg.v1.signer = "sender"); only key-holding accounts sign.  With authz
    (MsgExec) the signer is a grantee and [authz] says that the stored grant accepted the message
    (property C36); it is an abstract input here. *)
Definition is_user (a : Acct) : bool := match a with User _ => true | _ => false end.
Definition tx_authorized (signer : Acct) (sender : AddrStr) (authz : bool) : bool :=
  is_user signer &&
  match sender with
  | AOk a => acct_eqb a signer || (authz && is_user a)
  | _ => false
  end.

Definition set_recv (r : bool) (p : PState) : PState :=
  mkPS (ps_src p) (ps_chan p) (ps_seq p) (ps_v2 p) (ps_data p) (ps_committed p) (Some r).
Definition clear_commit (p : PState) : PState :=
  mkPS (ps_src p) (ps_chan p) (ps_seq p) (ps_v2 p) (ps_data p) false (ps_recv p).

(** the acknowledgement the destination wrote for a receive outcome: v1 result / error JSON;
    v2: the application's result ack, or core's sentinel on failure *)
Definition ack_written (v2 ok : bool) : AckVal :=
  if ok then AvResult else if v2 then AvSentinel else AvError.

Definition fail (w : World) : World * Outcome * option N := (w, OFail, None).

Definition step (w : World) (o : Op) : World * Outcome * option N :=
  let links := w_links w in
  match o with
  | OTransfer c signer authz chan coin amt sender receiver alias =>
      if negb (tx_authorized signer sender authz) then fail w
      else match msg_transfer (w_ch w c) (has_chan links c) (peer_chan links c) chan coin amt sender receiver alias with
      | ROk (k', pd, v2) =>
          let s := next_seq (w_pk w) c chan in
          (mkW links (upd_ch (w_ch w) c k') (w_pk w ++ [mkPS c chan s v2 pd true None]), OOk, Some s)
      | RErr => fail w
      | RPanic => (w, OPanic, None)
      end
  | OSendV2 c signer chan pd =>
      (* core: MsgSendPacket.ValidateBasic / signer decoding / counterparty lookup, then the application *)
      if negb (is_user signer) then fail w
      else match peer_chan links c chan with
      | None => fail w
      | Some dst =>
          match on_send_v2 (w_ch w c) chan dst pd signer with
          | ROk k' =>
              let s := next_seq (w_pk w) c chan in
              (mkW links (upd_ch (w_ch w) c k') (w_pk w ++ [mkPS c chan s true pd true None]), OOk, Some s)
          | RErr => fail w
          | RPanic => (w, OPanic, None)
          end
      end
  | ORecv n relayer elapsed =>
      match nth_error (w_pk w) n with
      | None => fail w
      | Some p =>
          match ps_recv p with
          | Some _ => fail w
          | None =>
            if negb (ps_committed p) || elapsed then fail w
            else match peer links (ps_src p) (ps_chan p) with
            | None => fail w
            | Some (c', ch') =>
                match (if ps_v2 p then on_recv_v2 else on_recv_v1) (w_ch w c') (ps_data p) (ps_chan p) ch' relayer with
                | ROk (k', ok) =>
                    (mkW links (upd_ch (w_ch w) c' k') (upd_nth n (set_recv ok) (w_pk w)),
                     if ok then OOk else OErrAck, None)
                | RErr => fail w
                | RPanic => (w, OPanic, None)
                end
            end
          end
      end
  | OAck n relayer =>
      match nth_error (w_pk w) n with
      | None => fail w
      | Some p =>
          match ps_recv p with
          | None => fail w
          | Some ok =>
            if negb (ps_committed p) then fail w
            else match (if ps_v2 p then on_ack_v2 else on_ack_v1) (w_ch w (ps_src p)) (ps_data p) (ps_chan p)
                         (ack_written (ps_v2 p) ok) relayer with
            | ROk k' => (mkW links (upd_ch (w_ch w) (ps_src p) k') (upd_nth n clear_commit (w_pk w)), OOk, None)
            | RErr => fail w
            | RPanic => (w, OPanic, None)
            end
          end
      end
  | OTimeout n relayer elapsed =>
      match nth_error (w_pk w) n with
      | None => fail w
      | Some p =>
          match ps_recv p with
          | Some _ => fail w
          | None =>
            if negb (ps_committed p) || negb elapsed then fail w
            else match on_timeout (w_ch w (ps_src p)) (ps_data p) (ps_chan p) relayer with
            | ROk k' => (mkW links (upd_ch (w_ch w) (ps_src p) k') (upd_nth n clear_commit (w_pk w)), OOk, None)
            | RErr => fail w
            | RPanic => (w, OPanic, None)
            end
          end
      end
  | OBankSend c from to coin amt =>
      if negb (is_user from) then fail w
      else match msg_send (bank (w_ch w c)) from to coin amt with
      | Some b => (mkW links (upd_ch (w_ch w) c (set_bank (w_ch w c) b)) (w_pk w), OOk, None)
      | None => fail w
      end
  | OSetParams c s r =>
      (mkW links (upd_ch (w_ch w) c (set_params (w_ch w c) s r)) (w_pk w), OOk, None)
  end.

Definition step_w (w : World) (o : Op) : World := fst (fst (step w o)).
Definition run (w : World) (ops : list Op) : World := fold_left step_w ops w.
