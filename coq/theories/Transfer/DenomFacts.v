(** Facts about the private denomination functions that the conservation and refund proofs need
    (round trip of a valid parse, parsing of a hop-prefixed path, native-safe names). *)
From IBC Require Import Lib.Bytes Lib.BytesFacts Transfer.DenomLocal.

Lemma extract_segs_nil m segs b : extract_segs m segs = ([], b) -> b = segs.
Proof.
  destruct segs as [|p [|c rest]]; simpl; try (intro H; now inversion H).
  destruct (m && is_hop_chan c).
  - destruct (extract_segs m rest). intro H. inversion H.
  - intro H. now inversion H.
Qed.

Lemma extract_segs_join m : forall n segs t b,
  (List.length segs <= n)%nat -> extract_segs m segs = (t, b) -> b <> [] ->
  concat (map hop_prefix t) ++ join_with slash b = join_with slash segs.
Proof.
  induction n as [|n IH]; intros segs t b Hlen He Hb.
  - destruct segs; [|simpl in Hlen; lia]. simpl in He. inversion He; subst. contradiction.
  - destruct segs as [|p [|c rest]].
    + simpl in He. inversion He; subst. contradiction.
    + simpl in He. inversion He; subst. reflexivity.
    + simpl in He. destruct (m && is_hop_chan c).
      * destruct (extract_segs m rest) as [t0 b0] eqn:E0. inversion He; subst; clear He.
        assert (Hrest : rest <> []).
        { intro; subst. simpl in E0. inversion E0; subst. contradiction. }
        simpl in Hlen.
        assert (IH' : concat (map hop_prefix t0) ++ join_with slash b = join_with slash rest)
          by (apply (IH rest t0 b); [lia|assumption|assumption]).
        destruct rest as [|r1 rest']; [contradiction|].
        change (join_with slash (p :: c :: r1 :: rest')) with (p ++ slash :: c ++ slash :: join_with slash (r1 :: rest')).
        rewrite <- IH'.
        simpl. unfold hop_prefix. simpl. rewrite <- !app_assoc. simpl. rewrite <- !app_assoc. reflexivity.
      * inversion He; subst. reflexivity.
Qed.

(** C34-style round trip, for the private copy: a parse with a non-empty base prints back to the input *)
Lemma path_extract s : dbase (extract s) <> [] -> path (extract s) = s.
Proof.
  unfold extract. pose proof (join_split slash s) as Hj.
  destruct (split_on slash s) as [|one [|two rest]] eqn:Es.
  - exfalso. eapply split_on_nonempty; eauto.
  - intros _. reflexivity.
  - destruct (extract_segs _ _) as [t b] eqn:Ee. simpl. intro Hb.
    unfold path. simpl.
    rewrite (extract_segs_join _ _ _ t b (le_n _) Ee); [exact Hj|].
    intro; subst. apply Hb. reflexivity.
Qed.

Lemma is_blank_nil_false d : negb (is_blank d) = true -> d <> [].
Proof. intros H E. subst. discriminate. Qed.

Lemma denom_valid_base d : denom_valid d = true -> dbase d <> [].
Proof. unfold denom_valid. intro H. apply andb_true_iff in H. destruct H as [H _]. now apply is_blank_nil_false. Qed.

Lemma path_extract_valid s : denom_valid (extract s) = true -> path (extract s) = s.
Proof. intro H. apply path_extract. now apply denom_valid_base. Qed.

(** a native-safe name parses to itself with an empty trace *)
Lemma native_safe_extract s : native_safe s = true -> extract s = mkDenom [] s.
Proof.
  unfold native_safe, extract. pose proof (join_split slash s) as Hj.
  destruct (split_on slash s) as [|one [|two rest]] eqn:Es.
  - exfalso. eapply split_on_nonempty; eauto.
  - reflexivity.
  - destruct (extract_segs _ _) as [t b] eqn:Ee. unfold is_native. simpl.
    destruct t; [|discriminate]. intros _.
    apply extract_segs_nil in Ee. subst b. now rewrite Hj.
Qed.

(** a path that starts with a hop whose channel has the identifier format parses with that hop first *)
Lemma extract_hop_head hp hc rest :
  ~ In slash hp -> ~ In slash hc -> is_hop_chan hc = true ->
  exists t b, extract (hp ++ slash :: hc ++ slash :: rest) = mkDenom (mkHop hp hc :: t) b.
Proof.
  intros Hp Hc Hh. unfold extract.
  rewrite (split_on_app slash hp _ Hp), (split_on_app slash hc _ Hc).
  destruct (split_on slash rest) as [|r0 rs] eqn:Er.
  - exfalso. eapply split_on_nonempty; eauto.
  - cbv beta iota.
    change (Nat.ltb 2 (List.length (hp :: hc :: r0 :: rs))) with true.
    assert (He : extract_segs true (hp :: hc :: r0 :: rs) =
                 let (t, b) := extract_segs true (r0 :: rs) in (mkHop hp hc :: t, b)).
    { change (extract_segs true (hp :: hc :: r0 :: rs))
        with (if true && is_hop_chan hc
              then let (t, b) := extract_segs true (r0 :: rs) in (mkHop hp hc :: t, b)
              else ([], hp :: hc :: r0 :: rs)).
      rewrite Hh. reflexivity. }
    rewrite He. destruct (extract_segs true (r0 :: rs)) as [t b]. eauto.
Qed.

Lemma path_cons h t b : path (mkDenom (h :: t) b) = hop_prefix h ++ path (mkDenom t b).
Proof. unfold path. simpl. now rewrite app_assoc. Qed.

Lemma hop_prefix_eq h : hop_prefix h = hport h ++ slash :: hchan h ++ [slash].
Proof. reflexivity. Qed.

(** hop prefixes of slash-free identifiers are uniquely decodable *)
Lemma hop_prefix_inj p1 c1 r1 p2 c2 r2 :
  ~ In slash p1 -> ~ In slash c1 -> ~ In slash p2 -> ~ In slash c2 ->
  p1 ++ slash :: c1 ++ slash :: r1 = p2 ++ slash :: c2 ++ slash :: r2 -> p1 = p2 /\ c1 = c2 /\ r1 = r2.
Proof.
  intros H1 H2 H3 H4 E.
  destruct (app_sep_inj slash p1 (c1 ++ slash :: r1) p2 (c2 ++ slash :: r2) H1 H3 E) as [-> E2].
  destruct (app_sep_inj slash c1 r1 c2 r2 H2 H4 E2) as [-> ->]. auto.
Qed.

(** ** re-parsing the tail of a parsed path *)

Lemma split_join sep parts :
  parts <> [] -> (forall p, In p parts -> ~ In sep p) -> split_on sep (join_with sep parts) = parts.
Proof.
  induction parts as [|p [|q r] IH]; intros Hne Hns.
  - contradiction.
  - simpl. apply split_on_nosep. apply Hns. now left.
  - change (join_with sep (p :: q :: r)) with (p ++ sep :: join_with sep (q :: r)).
    rewrite split_on_app by (apply Hns; now left).
    rewrite IH; [reflexivity|discriminate|]. intros x Hx. apply Hns. now right.
Qed.

Lemma extract_segs_true_hop p0 c0 rest h tl b :
  extract_segs true (p0 :: c0 :: rest) = (h :: tl, b) ->
  h = mkHop p0 c0 /\ is_hop_chan c0 = true /\ extract_segs true rest = (tl, b).
Proof.
  simpl. destruct (is_hop_chan c0).
  - destruct (extract_segs true rest) as [t0 b0]. intro H. inversion H; subst. auto.
  - intro H. inversion H.
Qed.

(** what the first hop of a parse looked like in the input, and that the rest re-parses to the tail *)
Lemma extract_tail s h tl b :
  extract s = mkDenom (h :: tl) b -> b <> [] ->
  ~ In slash (hport h) /\ ~ In slash (hchan h) /\ is_hop_chan (hchan h) = true /\
  extract (path (mkDenom tl b)) = mkDenom tl b.
Proof.
  unfold extract. pose proof (split_on_parts_nosep slash s) as Hparts.
  destruct (split_on slash s) as [|p0 [|c0 rest]] eqn:Es.
  - intro H. inversion H.
  - intro H. inversion H.
  - destruct (extract_segs _ _) as [t0 b0] eqn:Ee. intro H. inversion H; subst t0 b; clear H.
    intro Hb.
    destruct (Nat.ltb 2 (List.length (p0 :: c0 :: rest))) eqn:Hm;
      [|simpl in Ee; inversion Ee].
    apply extract_segs_true_hop in Ee. destruct Ee as (-> & Hh & Er).
    simpl. split; [apply Hparts; simpl; auto|]. split; [apply Hparts; simpl; auto|]. split; [exact Hh|].
    assert (Hb0 : b0 <> []) by (intro; subst; apply Hb; reflexivity).
    assert (Hrest : rest <> []) by (intro; subst; simpl in Er; inversion Er; subst; contradiction).
    assert (Hj : path (mkDenom tl (join_with slash b0)) = join_with slash rest).
    { unfold path. simpl. eapply extract_segs_join; eauto. }
    rewrite Hj.
    rewrite split_join; [|assumption|intros x Hx; apply Hparts; simpl; auto].
    destruct rest as [|r1 [|r2 [|r3 r]]].
    + contradiction.
    + simpl in Er. inversion Er; subst. reflexivity.
    + simpl in Er. simpl. destruct (is_hop_chan r2).
      * inversion Er; subst. contradiction.
      * inversion Er; subst. reflexivity.
    + change (Nat.ltb 2 (List.length (r1 :: r2 :: r3 :: r))) with true. rewrite Er. reflexivity.
Qed.

Lemma hop_prefix_app p c r : hop_prefix (mkHop p c) ++ r = p ++ slash :: c ++ slash :: r.
Proof. unfold hop_prefix. simpl. rewrite <- app_assoc. simpl. rewrite <- app_assoc. reflexivity. Qed.

Lemma has_prefix_spec d port chan :
  has_prefix d port chan = true -> exists tl, dtrace d = mkHop port chan :: tl.
Proof.
  unfold has_prefix. destruct (dtrace d) as [|[hp hc] tl]; [discriminate|]. simpl.
  intro H. apply andb_true_iff in H. destruct H as [H1 H2].
  apply bytes_eqb_eq in H1, H2. subst. eauto.
Qed.

Lemma ibc_denom_nonnative d : dtrace d <> [] -> ibc_denom d = CIbc (path d).
Proof. unfold ibc_denom, is_native. destruct (dtrace d); [contradiction|reflexivity]. Qed.

Lemma cpath_ibc_denom d : cpath (ibc_denom d) = path d.
Proof. unfold ibc_denom, is_native, path. destruct (dtrace d); reflexivity. Qed.

(** well-formed bank denominations: a native name is native-safe; a voucher path parses with a trace *)
Definition coin_wf (x : Coin) : Prop :=
  match x with
  | CNat s => native_safe s = true
  | CIbc p => is_native (extract p) = false
  end.

Lemma cpath_inj x y : coin_wf x -> coin_wf y -> cpath x = cpath y -> x = y.
Proof.
  destruct x, y; simpl; intros Hx Hy E; subst; try reflexivity; unfold native_safe in *; congruence.
Qed.

(** the bank denomination of a valid parse determines the path and vice versa *)
Lemma ibc_denom_extract_cpath s : dbase (extract s) <> [] -> cpath (ibc_denom (extract s)) = s.
Proof. intro H. rewrite cpath_ibc_denom. now apply path_extract. Qed.

Lemma ibc_denom_extract_wf s : coin_wf (ibc_denom (extract s)) -> True.
Proof. auto. Qed.

Lemma ibc_denom_of_cpath x : coin_wf x -> dbase (extract (cpath x)) <> [] -> ibc_denom (extract (cpath x)) = x.
Proof.
  destruct x as [s|p]; simpl; intros Hw Hb.
  - rewrite (native_safe_extract s Hw). reflexivity.
  - unfold ibc_denom. rewrite Hw. now rewrite path_extract.
Qed.

Lemma ibc_denom_extract_is_wf s : dbase (extract s) <> [] -> coin_wf (ibc_denom (extract s)).
Proof.
  intro Hb. unfold ibc_denom. destruct (is_native (extract s)) eqn:E; simpl.
  - unfold native_safe.
    assert (He : extract s = mkDenom [] s) by (apply native_safe_extract; exact E).
    rewrite He. simpl. rewrite He. reflexivity.
  - rewrite path_extract by assumption. exact E.
Qed.
