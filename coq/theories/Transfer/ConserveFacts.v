(** C30: the per-channel conservation identity as an invariant of every history of safe, plain operations;
    C32: a refund undoes exactly what the send did. *)
From IBC Require Import Lib.Bytes Lib.BytesFacts Transfer.DenomLocal Transfer.Bank Transfer.Keeper Transfer.World
  Transfer.BankFacts Transfer.DenomFacts Transfer.WorldFacts Transfer.AuthFacts Transfer.EscrowFacts.
Local Open Scope Z_scope.

(** ** world invariant: topology, packets, denomination stores *)

Definition no_slash (s : bytes) : Prop := ~ In slash s.

Definition links_ok (links : list Link) : Prop :=
  wf_links links /\
  (forall c ch, has_chan links c ch = true -> is_hop_chan ch = true /\ no_slash ch) /\
  (forall c ch c' ch', peer links c ch = Some (c', ch') -> c' <> c).

(** every stored denomination is keyed by its own path and starts with a hop of slash-free identifiers whose
    channel has the identifier format (it was created by a receive over one of this chain's channels) *)
Definition StoreInv (k : KState) : Prop :=
  forall q D, In (q, D) (dstore k) ->
    path D = q /\ exists h tl, dtrace D = h :: tl /\ no_slash (hport h) /\ no_slash (hchan h) /\ is_hop_chan (hchan h) = true.

Definition Good (w : World) : Prop :=
  links_ok (w_links w) /\ PkInv w /\ forall c, StoreInv (w_ch w c).

Lemma transfer_port_no_slash : no_slash transfer_port.
Proof. unfold no_slash, transfer_port. simpl. intuition discriminate. Qed.

Lemma dlookup_in s p d : dlookup s p = Some d -> In (p, d) s.
Proof.
  induction s as [|[q d0] s IH]; simpl; [discriminate|].
  destruct (bytes_eqb q p) eqn:E.
  - intro H. inversion H; subst. apply bytes_eqb_eq in E. subst. now left.
  - intro H. right. auto.
Qed.

Lemma good_step w o : Good w -> Good (step_w w o).
Proof.
  intros (HL & HP & HS). unfold Good. rewrite step_links. split; [exact HL|]. split; [now apply pkinv_step|].
  destruct HL as (Hwf & Hids & _).
  intro c.
  destruct (step_trans w o) as
    [Hs | c0 chan pd v2 tok snd k' Ho Hau Hus Hhc Hv Hsnd Hpath Htok Hst Hw
        | n relayer p c' ch' k' ok Ho Hn Hr Hc Hp Hk Hw
        | n relayer p ok data k' Ho Hn Hr Hc Hu Hk Hw
        | n relayer p data k' Ho Hn Hr Hc Hu Hk Hw
        | c0 from to coin amt b Ho Hus Hm Hw
        | c0 s r Ho Hw].
  - rewrite Hs. apply HS.
  - rewrite Hw. cbn [w_ch]. destruct (N.eq_dec c c0) as [->|Hne]; [|rewrite upd_ch_other by assumption; apply HS].
    rewrite upd_ch_same. apply send_transfer_spec in Hst. destruct Hst as (_ & _ & _ & Hd & _).
    unfold StoreInv. rewrite Hd. apply HS.
  - rewrite Hw. cbn [w_ch]. destruct (N.eq_dec c c') as [->|Hne]; [|rewrite upd_ch_other by assumption; apply HS].
    rewrite upd_ch_same. destruct Hk as [[_ ->] | [_ (data & Hu & Hrp)]]; [apply HS|].
    apply on_recv_packet_spec in Hrp. destruct Hrp as (receiver & _ & _ & _ & _ & Hbr).
    destruct (has_prefix _ _ _).
    + destruct Hbr as (_ & _ & Hd). unfold StoreInv. rewrite Hd. apply HS.
    + destruct Hbr as (_ & [Hd|Hd]); unfold StoreInv; rewrite Hd; [apply HS|].
      intros q D [Hq|Hq]; [|apply (HS c' q D Hq)].
      inversion Hq; subst. split; [reflexivity|].
      eexists _, _. split; [reflexivity|]. simpl.
      apply Hwf in Hp. apply peer_has_chan in Hp. destruct (Hids _ _ Hp) as (H1 & H2).
      split; [apply transfer_port_no_slash|]. auto.
  - rewrite Hw. cbn [w_ch]. destruct (N.eq_dec c (ps_src p)) as [->|Hne]; [|rewrite upd_ch_other by assumption; apply HS].
    rewrite upd_ch_same. destruct ok; [subst k'; apply HS|].
    apply refund_packet_tokens_spec in Hk. destruct Hk as (sender & _ & _ & Hd & _).
    unfold StoreInv. rewrite Hd. apply HS.
  - rewrite Hw. cbn [w_ch]. destruct (N.eq_dec c (ps_src p)) as [->|Hne]; [|rewrite upd_ch_other by assumption; apply HS].
    rewrite upd_ch_same.
    apply refund_packet_tokens_spec in Hk. destruct Hk as (sender & _ & _ & Hd & _).
    unfold StoreInv. rewrite Hd. apply HS.
  - rewrite Hw. cbn [w_ch]. destruct (N.eq_dec c c0) as [->|Hne]; [|rewrite upd_ch_other by assumption; apply HS].
    rewrite upd_ch_same. apply HS.
  - rewrite Hw. cbn [w_ch]. destruct (N.eq_dec c c0) as [->|Hne]; [|rewrite upd_ch_other by assumption; apply HS].
    rewrite upd_ch_same. apply HS.
Qed.

Lemma good_run w ops : Good w -> Good (run w ops).
Proof. revert w; induction ops as [|o ops IH]; intros w H; simpl; auto. apply IH. now apply good_step. Qed.

(** ** the send-time view of a token agrees with the view every later step takes (parse of the packet path) *)

(** the guard of the guarded theorems: a native denomination handed to MsgTransfer parses back as native
    (the complement is the matcher of known finding F5a) *)
Definition safe_op (o : Op) : Prop :=
  match o with
  | OTransfer _ _ _ _ (CNat s) _ _ _ _ => native_safe s = true
  | _ => True
  end.

Lemma send_consistent w c o tok pd chan (v2 : bool) :
  Good w -> safe_op o -> ftpd_valid pd = true -> pd_path pd = path tok ->
  (tok = extract (pd_path pd) \/
   (v2 = false /\ exists coin, token_from_coin (w_ch w c) coin = Some tok /\
                               match o with OTransfer _ _ _ _ coin0 _ _ _ _ => coin0 = coin | _ => False end)) ->
  has_prefix (extract (pd_path pd)) transfer_port chan = has_prefix tok transfer_port chan /\
  ibc_denom (extract (pd_path pd)) = ibc_denom tok.
Proof.
  intros (_ & _ & HS) Hsafe Hv Hpath [->|(_ & coin & Htok & Hop)]; [auto|].
  apply ftpd_valid_spec in Hv. destruct Hv as (_ & _ & _ & Hdv).
  destruct coin as [s|q]; unfold token_from_coin in Htok.
  - destruct (is_prefix (B "ibc/") s); [discriminate|]. injection Htok as Htok. subst tok.
    unfold path in Hpath. simpl in Hpath. rewrite Hpath.
    destruct o; try contradiction. subst coin. simpl in Hsafe.
    rewrite (native_safe_extract s Hsafe). auto.
  - apply dlookup_in in Htok. destruct (HS c q tok Htok) as (Hq & h & tl & Ht & Hp1 & Hp2 & Hh).
    rewrite Hpath in *.
    assert (Hpt : path tok = hport h ++ slash :: hchan h ++ slash :: path (mkDenom tl (dbase tok))).
    { destruct tok as [tr bs]. simpl in Ht. subst tr. rewrite path_cons. destruct h. apply hop_prefix_app. }
    destruct (extract_hop_head (hport h) (hchan h) (path (mkDenom tl (dbase tok))) Hp1 Hp2 Hh) as (t' & b' & He).
    rewrite <- Hpt in He.
    split.
    + unfold has_prefix. rewrite He, Ht. simpl. destruct h; reflexivity.
    + rewrite (ibc_denom_nonnative tok) by (rewrite Ht; discriminate).
      rewrite ibc_denom_nonnative by (rewrite He; discriminate).
      f_equal. now apply path_extract_valid.
Qed.

(** ** packets in the parse view, pending amounts *)

Definition pkt_tok (p : PState) : Denom := extract (pd_path (ps_data p)).
Definition pkt_unw (p : PState) : bool := has_prefix (pkt_tok p) transfer_port (ps_chan p).
Definition pkt_coin (p : PState) : Coin := ibc_denom (pkt_tok p).
Definition pkt_amt (p : PState) : Z := pd_amt (ps_data p).
(** committed and not (yet) turned into value on the other side *)
Definition pending (p : PState) : bool :=
  ps_committed p && negb (match ps_recv p with Some true => true | _ => false end).

(** voucher of [x] minted by a chain that receives it over its channel end [chB] *)
Definition vch (chB : bytes) (x : Coin) : Coin := CIbc (transfer_port ++ slash :: chB ++ slash :: cpath x).

Definition I (b : bool) : Z := if b then 1 else 0.

Definition fwd_b (A : N) (cA : bytes) (x : Coin) (p : PState) : bool :=
  N.eqb (ps_src p) A && bytes_eqb (ps_chan p) cA && negb (pkt_unw p) && coin_eqb (pkt_coin p) x.
Definition bwd_b (B : N) (cB : bytes) (x : Coin) (p : PState) : bool :=
  N.eqb (ps_src p) B && bytes_eqb (ps_chan p) cB && pkt_unw p && coin_eqb (pkt_coin p) (vch cB x).
Definition contrib (A : N) (cA : bytes) (B : N) (cB : bytes) (x : Coin) (p : PState) : Z :=
  if pending p then pkt_amt p * (I (fwd_b A cA x p) + I (bwd_b B cB x p)) else 0.

Fixpoint psum (f : PState -> Z) (l : list PState) : Z :=
  match l with [] => 0 | p :: r => f p + psum f r end.

Lemma psum_app f l1 l2 : psum f (l1 ++ l2) = psum f l1 + psum f l2.
Proof. induction l1; simpl; lia. Qed.

Lemma psum_upd_nth f g n l p :
  nth_error l n = Some p -> psum f (upd_nth n g l) = psum f l - f p + f (g p).
Proof.
  revert n; induction l as [|a l IH]; intros [|n]; simpl; try discriminate.
  - intro H. inversion H; subst. lia.
  - intro H. rewrite (IH n H). lia.
Qed.

(** amount in flight out of (A, cA) of denomination x plus amount in flight back from (B, cB) *)
Definition in_flight (w : World) A cA B cB x : Z := psum (contrib A cA B cB x) (w_pk w).

(** Appendix C: for chains A, B joined by channel ends (cA, cB) and every well-formed denomination x on A:
    escrow_A(cA, x) = supply_B(voucher of x over cB) + amount in flight A->B + amount in flight B->A *)
Definition Conserve (w : World) : Prop :=
  forall A cA B cB x, peer (w_links w) A cA = Some (B, cB) -> coin_wf x ->
    bal (bank (w_ch w A)) (Escrow cA) x = sup (bank (w_ch w B)) (vch cB x) + in_flight w A cA B cB x.

(** ** denominational facts used at the steps *)

Lemma vch_inj cB x cB' x' :
  no_slash cB -> no_slash cB' -> vch cB x = vch cB' x' -> cB = cB' /\ cpath x = cpath x'.
Proof.
  unfold vch. intros H1 H2 E.
  assert (E' : transfer_port ++ slash :: cB ++ slash :: cpath x = transfer_port ++ slash :: cB' ++ slash :: cpath x') by congruence.
  destruct (hop_prefix_inj _ _ _ _ _ _ transfer_port_no_slash H1 transfer_port_no_slash H2 E') as (_ & -> & ->). auto.
Qed.

(** an unwinding packet over [chan]: its bank denomination is the voucher over [chan] of the denomination
    obtained by dropping the first hop, and that one is well formed *)
Lemma unwinding_coin s chan :
  denom_valid (extract s) = true -> has_prefix (extract s) transfer_port chan = true ->
  let d := ibc_denom (mkDenom (tl (dtrace (extract s))) (dbase (extract s))) in
  ibc_denom (extract s) = vch chan d /\ coin_wf d.
Proof.
  intros Hv Hp. pose proof (denom_valid_base _ Hv) as Hb.
  destruct (has_prefix_spec _ _ _ Hp) as (tl0 & Ht).
  destruct (extract s) as [tr bs] eqn:Es. simpl in *. subst tr. simpl.
  destruct (extract_tail s _ _ _ Es Hb) as (_ & _ & _ & Htail).
  split.
  - rewrite ibc_denom_nonnative by discriminate. unfold vch. f_equal.
    rewrite path_cons, hop_prefix_app. now rewrite cpath_ibc_denom.
  - assert (Hb2 : dbase (extract (path (mkDenom tl0 bs))) <> []) by (rewrite Htail; exact Hb).
    pose proof (ibc_denom_extract_is_wf _ Hb2) as Hw. rewrite Htail in Hw. exact Hw.
Qed.

Lemma minted_voucher s ch' :
  denom_valid (extract s) = true ->
  ibc_denom (mkDenom (mkHop transfer_port ch' :: dtrace (extract s)) (dbase (extract s))) =
  CIbc (transfer_port ++ slash :: ch' ++ slash :: s).
Proof.
  intro Hv. rewrite ibc_denom_nonnative by discriminate. f_equal.
  rewrite path_cons, hop_prefix_app.
  replace (mkDenom (dtrace (extract s)) (dbase (extract s))) with (extract s) by (destruct (extract s); reflexivity).
  now rewrite (path_extract_valid s Hv).
Qed.

(** the bank denomination of a valid packet path [s] is [x] iff [s] is the path of [x] (x well formed) *)
Lemma pkt_coin_iff s x :
  denom_valid (extract s) = true -> coin_wf x -> (ibc_denom (extract s) = x <-> s = cpath x).
Proof.
  intros Hv Hw. pose proof (denom_valid_base _ Hv) as Hb. split.
  - intros <-. symmetry. now apply ibc_denom_extract_cpath.
  - intros ->. now apply ibc_denom_of_cpath.
Qed.

Lemma bytes_eqb_sym a b : bytes_eqb a b = bytes_eqb b a.
Proof.
  destruct (bytes_eqb a b) eqn:E.
  - apply bytes_eqb_eq in E. subst. symmetry. apply bytes_eqb_refl.
  - symmetry. apply bytes_eqb_neq. apply bytes_eqb_neq in E. congruence.
Qed.

Lemma I_eq b1 b2 : (b1 = true <-> b2 = true) -> I b1 = I b2.
Proof. destruct b1, b2; simpl; intros [H1 H2]; auto; try (now specialize (H1 eq_refl)); now specialize (H2 eq_refl). Qed.

Lemma at_cell_I a0 d0 a x : at_cell a0 d0 a x = I (acct_eqb a a0 && coin_eqb x d0).
Proof. reflexivity. Qed.
Lemma at_coin_I d0 x : at_coin d0 x = I (coin_eqb x d0).
Proof. reflexivity. Qed.

(** ** the invariant step *)

Lemma conserve_delta' w A cA B cB x X k' e pk' dpk :
  A <> B ->
  (forall a y, bal (bank k') a y = bal (bank (w_ch w X)) a y + eff_bal e a y) ->
  (forall y, sup (bank k') y = sup (bank (w_ch w X)) y + eff_sup e y) ->
  psum (contrib A cA B cB x) pk' = psum (contrib A cA B cB x) (w_pk w) + dpk ->
  I (N.eqb A X) * eff_bal e (Escrow cA) x = I (N.eqb B X) * eff_sup e (vch cB x) + dpk ->
  bal (bank (w_ch w A)) (Escrow cA) x = sup (bank (w_ch w B)) (vch cB x) + in_flight w A cA B cB x ->
  bal (bank (upd_ch (w_ch w) X k' A)) (Escrow cA) x =
  sup (bank (upd_ch (w_ch w) X k' B)) (vch cB x) + psum (contrib A cA B cB x) pk'.
Proof.
  intros Hab Hb Hs Hpk Hd Hinv. unfold in_flight in Hinv. rewrite Hpk.
  unfold upd_ch. destruct (N.eqb A X) eqn:EA; destruct (N.eqb B X) eqn:EB; cbn [I] in Hd.
  - apply N.eqb_eq in EA, EB. congruence.
  - rewrite Hb. apply N.eqb_eq in EA. subst X. lia.
  - rewrite Hs. apply N.eqb_eq in EB. subst X. lia.
  - lia.
Qed.

Lemma conserve_delta w A cA B cB x X k' e td te pk' dpk :
  A <> B ->
  KStep (w_ch w X) k' e td te ->
  psum (contrib A cA B cB x) pk' = psum (contrib A cA B cB x) (w_pk w) + dpk ->
  I (N.eqb A X) * eff_bal e (Escrow cA) x = I (N.eqb B X) * eff_sup e (vch cB x) + dpk ->
  bal (bank (w_ch w A)) (Escrow cA) x = sup (bank (w_ch w B)) (vch cB x) + in_flight w A cA B cB x ->
  bal (bank (upd_ch (w_ch w) X k' A)) (Escrow cA) x =
  sup (bank (upd_ch (w_ch w) X k' B)) (vch cB x) + psum (contrib A cA B cB x) pk'.
Proof. intros Hab (Hb & Hs & _). now apply conserve_delta'. Qed.

Lemma pending_set_recv_false p : ps_recv p = None -> pending (set_recv false p) = pending p.
Proof. unfold pending. simpl. intros ->. reflexivity. Qed.

Lemma contrib_static A cA B cB x p q :
  ps_src q = ps_src p -> ps_chan q = ps_chan p -> ps_data q = ps_data p ->
  contrib A cA B cB x q = if pending q then pkt_amt p * (I (fwd_b A cA x p) + I (bwd_b B cB x p)) else 0.
Proof.
  intros H1 H2 H3. unfold contrib, fwd_b, bwd_b, pkt_unw, pkt_coin, pkt_tok, pkt_amt. now rewrite H1, H2, H3.
Qed.

Lemma conserve_refund w n p k' A cA B cB x :
  Good w -> nth_error (w_pk w) n = Some p -> pending p = true ->
  refund_packet_tokens (w_ch w (ps_src p)) transfer_port (ps_chan p)
    (mkITR (extract (pd_path (ps_data p))) (pd_amt (ps_data p)) (pd_sender (ps_data p)) (pd_receiver (ps_data p))) = ROk k' ->
  peer (w_links w) A cA = Some (B, cB) -> coin_wf x ->
  bal (bank (w_ch w A)) (Escrow cA) x = sup (bank (w_ch w B)) (vch cB x) + in_flight w A cA B cB x ->
  bal (bank (upd_ch (w_ch w) (ps_src p) k' A)) (Escrow cA) x =
  sup (bank (upd_ch (w_ch w) (ps_src p) k' B)) (vch cB x) +
  psum (contrib A cA B cB x) (upd_nth n clear_commit (w_pk w)).
Proof.
  intros HG Hn Hpend Hk Hpeer Hx HC. pose proof HG as ((Hwf & Hids & Hnoself) & HP & HS).
  assert (Hab : A <> B) by (intro; subst; eapply Hnoself; eauto).
  pose proof (Hwf _ _ _ _ Hpeer) as HpeerB.
  destruct (Hids _ _ (peer_has_chan _ _ _ _ _ HpeerB)) as (HhB & HsB).
  pose proof (nth_error_In _ _ Hn) as Hin. destruct (HP p Hin) as (Hhcp & Hvp & a & Hsa & Hua).
  pose proof (ftpd_valid_spec _ Hvp) as (Hamt & _ & _ & Hdv).
  destruct (Hids _ _ Hhcp) as (_ & Hssc).
  assert (Hpk : psum (contrib A cA B cB x) (upd_nth n clear_commit (w_pk w)) =
                psum (contrib A cA B cB x) (w_pk w) - pkt_amt p * (I (fwd_b A cA x p) + I (bwd_b B cB x p))).
  { rewrite (psum_upd_nth _ _ _ _ p Hn).
    rewrite (contrib_static A cA B cB x p (clear_commit p)) by reflexivity.
    assert (E : pending (clear_commit p) = false) by reflexivity.
    rewrite E. unfold contrib. rewrite Hpend. lia. }
  apply refund_packet_tokens_spec in Hk. destruct Hk as (sender & Hsd & _ & _ & Hbr).
  cbv zeta in Hbr. cbn [it_denom it_amt it_sender] in *. rewrite Hsa in Hsd. inversion Hsd; subst sender.
  assert (E1 : forall chx, acct_eqb (Escrow chx) a = false) by (intro; destruct a; try discriminate; reflexivity).
  unfold fwd_b, bwd_b, pkt_unw, pkt_coin, pkt_tok, pkt_amt in Hpk.
  destruct (has_prefix (extract (pd_path (ps_data p))) transfer_port (ps_chan p)) eqn:Eu.
  - pose proof Hbr as HK.
    eapply conserve_delta; [exact Hab|exact HK|exact Hpk| |exact HC]. cbn [eff_bal eff_sup negb].
    rewrite !andb_false_r. cbn [I]. rewrite at_cell_I, at_coin_I. rewrite E1. cbn [andb I].
    set (y := ibc_denom (extract (pd_path (ps_data p)))) in *.
    assert (E2 : I (N.eqb B (ps_src p)) * I (coin_eqb (vch cB x) y) =
                 I (N.eqb (ps_src p) B && bytes_eqb (ps_chan p) cB && true && coin_eqb y (vch cB x))).
    { rewrite (N.eqb_sym B), (coin_eqb_sym (vch cB x)).
      destruct (N.eqb (ps_src p) B); cbn [andb I]; [|lia].
      destruct (coin_eqb y (vch cB x)) eqn:Ec; cbn [I]; [|rewrite andb_false_r; reflexivity].
      apply coin_eqb_eq in Ec. unfold y in Ec.
      destruct (unwinding_coin _ _ Hdv Eu) as (Hvc & _). rewrite Hvc in Ec.
      destruct (vch_inj _ _ _ _ Hssc HsB Ec) as (-> & _). rewrite bytes_eqb_refl. reflexivity. }
    nia.
  - destruct Hbr as (_ & HK).
    eapply conserve_delta; [exact Hab|exact HK|exact Hpk| |exact HC]. cbn [eff_bal eff_sup negb].
    rewrite !andb_false_r. cbn [I]. rewrite !at_cell_I. rewrite E1. cbn [andb I acct_eqb].
    set (y := ibc_denom (extract (pd_path (ps_data p)))) in *.
    rewrite (N.eqb_sym A), (bytes_eqb_sym cA), (coin_eqb_sym x).
    destruct (N.eqb (ps_src p) A), (bytes_eqb (ps_chan p) cA), (coin_eqb y x); cbn [andb I]; lia.
Qed.

Theorem conserve_step w o :
  Good w -> Conserve w -> safe_op o -> plain_op w o -> Conserve (step_w w o).
Proof.
  intros HG HC Hsafe Hplain. pose proof HG as ((Hwf & Hids & Hnoself) & HP & HS).
  unfold Conserve. rewrite step_links. intros A cA B cB x Hpeer Hx.
  specialize (HC A cA B cB x Hpeer Hx).
  assert (Hab : A <> B) by (intro; subst; eapply Hnoself; eauto).
  pose proof (Hwf _ _ _ _ Hpeer) as HpeerB.
  destruct (Hids _ _ (peer_has_chan _ _ _ _ _ Hpeer)) as (HhA & HsA).
  destruct (Hids _ _ (peer_has_chan _ _ _ _ _ HpeerB)) as (HhB & HsB).
  destruct (step_trans w o) as
    [Hs | c0 chan pd v2 tok snd k' Ho Hau Hus Hhc Hv Hsnd Hpath Htok Hst Hw
        | n relayer p c' ch' k' ok Ho Hn Hr Hc Hp Hk Hw
        | n relayer p ok data k' Ho Hn Hr Hc Hu Hk Hw
        | n relayer p data k' Ho Hn Hr Hc Hu Hk Hw
        | c0 from to coin amt b Ho Hus Hm Hw
        | c0 s r Ho Hw].
  - rewrite Hs. exact HC.
  - (* send *)
    rewrite Hw. unfold in_flight. cbn [w_ch w_pk].
    destruct (send_consistent w c0 o tok pd chan v2 HG Hsafe Hv Hpath Htok) as (Hcp & Hcc).
    pose proof (ftpd_valid_spec _ Hv) as (Hamt & _ & _ & Hdv).
    apply send_transfer_spec in Hst. destruct Hst as (_ & _ & _ & _ & HK).
    set (pn := mkPS c0 chan (next_seq (w_pk w) c0 chan) v2 pd true None).
    assert (Hpn : psum (contrib A cA B cB x) (w_pk w ++ [pn]) =
                  psum (contrib A cA B cB x) (w_pk w) + contrib A cA B cB x pn)
      by (rewrite psum_app; simpl; lia).
    destruct (Hids _ _ Hhc) as (_ & Hschan).
    assert (Hcn : contrib A cA B cB x pn =
                  pd_amt pd * (I (N.eqb c0 A && bytes_eqb chan cA && negb (has_prefix tok transfer_port chan) && coin_eqb (ibc_denom tok) x) +
                               I (N.eqb c0 B && bytes_eqb chan cB && has_prefix tok transfer_port chan && coin_eqb (ibc_denom tok) (vch cB x)))).
    { unfold contrib, fwd_b, bwd_b, pkt_unw, pkt_coin, pkt_tok, pkt_amt, pending. cbn [pn ps_src ps_chan ps_data ps_committed ps_recv andb negb].
      rewrite Hcp, Hcc. reflexivity. }
    rewrite Hcn in Hpn. clear Hcn.
    destruct (has_prefix tok transfer_port chan) eqn:Eu.
    + (* burn *)
      eapply conserve_delta; [exact Hab|exact HK|exact Hpn| |exact HC]. cbn [eff_bal eff_sup negb].
      rewrite !andb_false_r. cbn [I]. rewrite at_cell_I, at_coin_I.
      assert (E1 : acct_eqb (Escrow cA) snd = false) by (destruct snd; try discriminate; reflexivity).
      rewrite E1. cbn [andb I].
      assert (E2 : I (N.eqb B c0) * I (coin_eqb (vch cB x) (ibc_denom tok)) =
                   I (N.eqb c0 B && bytes_eqb chan cB && true && coin_eqb (ibc_denom tok) (vch cB x))).
      { rewrite (N.eqb_sym B c0), (coin_eqb_sym (vch cB x)).
        destruct (N.eqb c0 B); cbn [andb I]; [|lia].
        destruct (coin_eqb (ibc_denom tok) (vch cB x)) eqn:Ec; cbn [I]; [|rewrite andb_false_r; reflexivity].
        apply coin_eqb_eq in Ec. rewrite <- Hcc in Ec.
        destruct (unwinding_coin _ chan Hdv Hcp) as (Hvc & _). rewrite Hvc in Ec.
        destruct (vch_inj _ _ _ _ Hschan HsB Ec) as (-> & _). rewrite bytes_eqb_refl. reflexivity. }
      nia.
    + (* escrow *)
      eapply conserve_delta; [exact Hab|exact HK|exact Hpn| |exact HC]. cbn [eff_bal eff_sup negb].
      rewrite !andb_false_r. cbn [I]. rewrite !at_cell_I.
      assert (E1 : acct_eqb (Escrow cA) snd = false) by (destruct snd; try discriminate; reflexivity).
      rewrite E1. cbn [andb I acct_eqb].
      rewrite (N.eqb_sym A c0), (bytes_eqb_sym cA chan), (coin_eqb_sym x).
      destruct (N.eqb c0 A), (bytes_eqb chan cA), (coin_eqb (ibc_denom tok) x); cbn [andb I]; lia.
  - (* recv *)
    rewrite Hw. unfold in_flight. cbn [w_ch w_pk].
    destruct Hk as [[-> ->] | [-> (data & Hu & Hrp)]].
    + (* error ack: nothing moves, the packet stays pending *)
      assert (Hpk : psum (contrib A cA B cB x) (upd_nth n (set_recv false) (w_pk w)) =
                    psum (contrib A cA B cB x) (w_pk w) + 0).
      { rewrite (psum_upd_nth _ _ _ _ p Hn).
        rewrite (contrib_static A cA B cB x p (set_recv false p)) by reflexivity.
        rewrite pending_set_recv_false by assumption. unfold contrib. lia. }
      eapply conserve_delta; [exact Hab|apply (KStep_refl _ x)|exact Hpk| |exact HC]. simpl. lia.
    + pose proof (nth_error_In _ _ Hn) as Hin. destruct (HP p Hin) as (Hhcp & Hvp & a & Hsa & Hua).
      pose proof (ftpd_valid_spec _ Hvp) as (Hamt & _ & _ & Hdv).
      apply on_recv_packet_spec in Hrp. destruct Hrp as (receiver & Hiv & _ & Hrcv & _ & Hbr).
      apply unmarshal_pd_spec in Hu. destruct Hu as (_ & ->). cbn [it_denom it_amt it_receiver] in *.
      assert (Hnotesc : forall chx, acct_eqb (Escrow chx) receiver = false).
      { subst o. simpl in Hplain. specialize (Hplain p receiver Hn Hrcv).
        destruct receiver; try contradiction; reflexivity. }
      assert (Hpend : pending p = true) by (unfold pending; rewrite Hc, Hr; reflexivity).
      assert (Hpk : psum (contrib A cA B cB x) (upd_nth n (set_recv true) (w_pk w)) =
                    psum (contrib A cA B cB x) (w_pk w) - pkt_amt p * (I (fwd_b A cA x p) + I (bwd_b B cB x p))).
      { rewrite (psum_upd_nth _ _ _ _ p Hn).
        rewrite (contrib_static A cA B cB x p (set_recv true p)) by reflexivity.
        assert (E : pending (set_recv true p) = false) by (unfold pending; simpl; now rewrite andb_false_r).
        rewrite E. unfold contrib. rewrite Hpend. lia. }
      pose proof (Hwf _ _ _ _ Hp) as Hp'.
      destruct (Hids _ _ Hhcp) as (_ & Hssc).
      destruct (Hids _ _ (peer_has_chan _ _ _ _ _ Hp')) as (_ & Hsch').
      unfold fwd_b, bwd_b, pkt_unw, pkt_coin, pkt_tok, pkt_amt in Hpk.
      destruct (has_prefix (extract (pd_path (ps_data p))) transfer_port (ps_chan p)) eqn:Eu.
      * (* unescrow on the destination *)
        destruct Hbr as (_ & HK & _).
        destruct (unwinding_coin _ _ Hdv Eu) as (Hvc & Hdwf).
        set (d := ibc_denom (mkDenom (tl (dtrace (extract (pd_path (ps_data p))))) (dbase (extract (pd_path (ps_data p)))))) in *.
        eapply conserve_delta; [exact Hab|exact HK|exact Hpk| |exact HC]. cbn [eff_bal eff_sup negb].
        rewrite !andb_false_r. cbn [I]. rewrite !at_cell_I. rewrite Hnotesc. cbn [andb I acct_eqb].
        assert (E2 : I (N.eqb A c') * I (bytes_eqb cA ch' && coin_eqb x d) =
                     I (N.eqb (ps_src p) B && bytes_eqb (ps_chan p) cB && true &&
                        coin_eqb (ibc_denom (extract (pd_path (ps_data p)))) (vch cB x))).
        { rewrite <- (Z.mul_1_r (I (_ && _ && true && _))).
          replace (I (N.eqb A c') * I (bytes_eqb cA ch' && coin_eqb x d)) with
                  (I (N.eqb A c' && (bytes_eqb cA ch' && coin_eqb x d)) * 1)
            by (destruct (N.eqb A c'), (bytes_eqb cA ch' && coin_eqb x d); reflexivity).
          f_equal. apply I_eq. rewrite !andb_true_iff. rewrite N.eqb_eq, !bytes_eqb_eq, !coin_eqb_eq, N.eqb_eq.
          split.
          - intros (Ea & Ech & Ex). subst c' ch'.
            rewrite Hpeer in Hp'. inversion Hp' as [[Es Ec2]].
            repeat split; auto. rewrite Hvc, <- Ec2, Ex. reflexivity.
          - intros (((Es & Ec2) & _) & Ec). rewrite Es, Ec2 in Hp. rewrite HpeerB in Hp. inversion Hp as [[E1' E2']].
            rewrite Hvc in Ec. destruct (vch_inj _ _ _ _ Hssc HsB Ec) as (_ & Hcp).
            repeat split; auto. symmetry. now apply cpath_inj. }
        nia.
      * (* mint on the destination *)
        destruct Hbr as (HK & _). rewrite (minted_voucher _ ch' Hdv) in HK.
        eapply conserve_delta; [exact Hab|exact HK|exact Hpk| |exact HC]. cbn [eff_bal eff_sup negb].
        rewrite !andb_false_r. cbn [I]. rewrite !at_cell_I, at_coin_I. rewrite Hnotesc. cbn [andb I].
        assert (E2 : I (N.eqb B c') * I (coin_eqb (vch cB x) (CIbc (transfer_port ++ slash :: ch' ++ slash :: pd_path (ps_data p)))) =
                     I (N.eqb (ps_src p) A && bytes_eqb (ps_chan p) cA && true &&
                        coin_eqb (ibc_denom (extract (pd_path (ps_data p)))) x)).
        { rewrite <- (Z.mul_1_r (I (_ && _ && true && _))).
          match goal with |- I ?a * I ?b = _ => replace (I a * I b) with (I (a && b) * 1) by (destruct a, b; reflexivity) end.
          f_equal. apply I_eq. rewrite !andb_true_iff. rewrite N.eqb_eq, !bytes_eqb_eq, !coin_eqb_eq, N.eqb_eq.
          split.
          - intros (Eb & Ec). subst c'. unfold vch in Ec.
            assert (Ec' : transfer_port ++ slash :: cB ++ slash :: cpath x = transfer_port ++ slash :: ch' ++ slash :: pd_path (ps_data p)) by congruence.
            destruct (hop_prefix_inj _ _ _ _ _ _ transfer_port_no_slash HsB transfer_port_no_slash Hsch' Ec') as (_ & Ech & Hcp).
            subst ch'. rewrite HpeerB in Hp'. inversion Hp' as [[Es Ec2]].
            repeat split; auto. apply (pkt_coin_iff _ x Hdv Hx). auto.
          - intros (((Es & Ec2) & _) & Ec). rewrite Es, Ec2 in Hp. rewrite Hpeer in Hp. inversion Hp as [[E1' E2']].
            split; auto.
            assert (Hpp : pd_path (ps_data p) = cpath x) by (apply (pkt_coin_iff _ x Hdv Hx); exact Ec).
            unfold vch. rewrite Hpp, <- E2'. reflexivity. }
        nia.
  - (* ack *)
    rewrite Hw. unfold in_flight. cbn [w_ch w_pk].
    pose proof (nth_error_In _ _ Hn) as Hin. destruct (HP p Hin) as (Hhcp & Hvp & a & Hsa & Hua).
    pose proof (ftpd_valid_spec _ Hvp) as (Hamt & _ & _ & Hdv).
    destruct ok.
    + subst k'.
      assert (Hpk : psum (contrib A cA B cB x) (upd_nth n clear_commit (w_pk w)) =
                    psum (contrib A cA B cB x) (w_pk w) + 0).
      { rewrite (psum_upd_nth _ _ _ _ p Hn).
        rewrite (contrib_static A cA B cB x p (clear_commit p)) by reflexivity.
        assert (E : pending (clear_commit p) = false) by reflexivity.
        assert (E' : pending p = false) by (unfold pending; rewrite Hr; simpl; apply andb_false_r).
        rewrite E. unfold contrib. rewrite E'. lia. }
      eapply conserve_delta; [exact Hab|apply (KStep_refl _ x)|exact Hpk| |exact HC]. simpl. lia.
    + apply unmarshal_pd_spec in Hu. destruct Hu as (_ & ->).
      eapply conserve_refund; eauto. unfold pending. rewrite Hc, Hr. reflexivity.
  - (* timeout *)
    rewrite Hw. unfold in_flight. cbn [w_ch w_pk].
    apply unmarshal_pd_spec in Hu. destruct Hu as (_ & ->).
    eapply conserve_refund; eauto. unfold pending. rewrite Hc, Hr. reflexivity.
  - (* bank send *)
    rewrite Hw. unfold in_flight. cbn [w_ch w_pk].
    unfold msg_send in Hm.
    destruct ((amt <=? 0) || bank_blocked to) eqn:Eg; [discriminate|].
    apply send_coins_spec in Hm. destruct Hm as (_ & Hb & Hs).
    assert (HK : KStep (w_ch w c0) (set_bank (w_ch w c0) b) (EMove from to coin amt) coin 0).
    { unfold KStep. simpl. repeat split; auto. intros; rewrite Hs; lia. intros; lia. }
    assert (Hpk : psum (contrib A cA B cB x) (w_pk w) = psum (contrib A cA B cB x) (w_pk w) + 0) by lia.
    eapply conserve_delta; [exact Hab|exact HK|exact Hpk| |exact HC]. cbn [eff_bal eff_sup].
    rewrite !at_cell_I.
    assert (E1 : acct_eqb (Escrow cA) from = false) by (destruct from; try discriminate; reflexivity).
    assert (E2 : acct_eqb (Escrow cA) to = false) by (subst o; simpl in Hplain; destruct to; try contradiction; reflexivity).
    rewrite E1, E2. cbn [andb I]. lia.
  - (* params *)
    rewrite Hw. unfold in_flight. cbn [w_ch w_pk].
    assert (Hpk : psum (contrib A cA B cB x) (w_pk w) = psum (contrib A cA B cB x) (w_pk w) + 0) by lia.
    eapply (conserve_delta' w A cA B cB x c0 _ ENone); [exact Hab| | |exact Hpk| |exact HC]; simpl; intros; lia.
Qed.

(** ** histories *)

Fixpoint ok_ops (w : World) (ops : list Op) : Prop :=
  match ops with
  | [] => True
  | o :: r => safe_op o /\ plain_op w o /\ ok_ops (step_w w o) r
  end.

Theorem conserve_run w ops : Good w -> Conserve w -> ok_ops w ops -> Conserve (run w ops).
Proof.
  revert w. induction ops as [|o ops IH]; intros w HG HC Hok; simpl; [exact HC|].
  destruct Hok as (Hs & Hp & Hr). apply IH; auto using good_step, conserve_step.
Qed.

(** a world in which nothing has been transferred yet *)
Definition Fresh (w : World) : Prop :=
  w_pk w = [] /\
  (forall c ch x, bal (bank (w_ch w c)) (Escrow ch) x = 0) /\
  (forall c p, sup (bank (w_ch w c)) (CIbc p) = 0) /\
  (forall c x, tesc (w_ch w c) x = 0) /\
  (forall c, dstore (w_ch w c) = []) /\
  (forall c a x, 0 <= bal (bank (w_ch w c)) a x).

Lemma fresh_conserve w : Fresh w -> Conserve w.
Proof.
  intros (Hpk & Hb & Hs & _) A cA B cB x _ _. unfold in_flight, vch. rewrite Hpk, Hb, Hs. reflexivity.
Qed.

Lemma fresh_good w : links_ok (w_links w) -> Fresh w -> Good w.
Proof.
  intros HL (Hpk & _ & _ & _ & Hd & _). split; [exact HL|]. split.
  - intros p Hp. rewrite Hpk in Hp. contradiction.
  - intros c q D Hin. rewrite Hd in Hin. contradiction.
Qed.

(** ** what one step does to the bank of one chain: one move, mint or burn; mints and burns are of vouchers *)

Definition eff_voucher_only (e : Eff) : Prop :=
  match e with
  | EMint _ d _ | EBurn _ d _ => exists p, d = CIbc p
  | _ => True
  end.

Lemma ibc_denom_prefixed d port chan : has_prefix d port chan = true -> exists p, ibc_denom d = CIbc p.
Proof.
  intro H. destruct (has_prefix_spec _ _ _ H) as (tl0 & Ht). exists (path d).
  apply ibc_denom_nonnative. rewrite Ht. discriminate.
Qed.

Lemma step_bank_effect w o c :
  exists e, eff_voucher_only e /\ 0 <= eff_amt e /\
    (forall a x, bal (bank (w_ch (step_w w o) c)) a x = bal (bank (w_ch w c)) a x + eff_bal e a x) /\
    (forall x, sup (bank (w_ch (step_w w o) c)) x = sup (bank (w_ch w c)) x + eff_sup e x).
Proof.
  assert (Hnone : forall k, exists e, eff_voucher_only e /\ 0 <= eff_amt e /\
            (forall a x, bal (bank k) a x = bal (bank k) a x + eff_bal e a x) /\
            (forall x, sup (bank k) x = sup (bank k) x + eff_sup e x)).
  { intro k. exists ENone. simpl. repeat split; intros; lia. }
  destruct (step_trans w o) as
    [Hs | c0 chan pd v2 tok snd k' Ho Hau Hus Hhc Hv Hsnd Hpath Htok Hst Hw
        | n relayer p c' ch' k' ok Ho Hn Hr Hc Hp Hk Hw
        | n relayer p ok data k' Ho Hn Hr Hc Hu Hk Hw
        | n relayer p data k' Ho Hn Hr Hc Hu Hk Hw
        | c0 from to coin amt b Ho Hus Hm Hw
        | c0 s r Ho Hw].
  - rewrite Hs. apply Hnone.
  - rewrite Hw. cbn [w_ch]. destruct (N.eq_dec c c0) as [->|Hne]; [|rewrite upd_ch_other by assumption; apply Hnone].
    rewrite upd_ch_same.
    apply send_transfer_spec in Hst. destruct Hst as (_ & _ & _ & _ & HK).
    apply ftpd_valid_spec in Hv. destruct Hv as (Hamt & _).
    destruct (has_prefix tok transfer_port chan) eqn:Eu; destruct HK as (Hb & Hsup & _); eexists; (split; [|split; [|split; [exact Hb|exact Hsup]]]); simpl; try lia; auto.
    eapply ibc_denom_prefixed; eauto.
  - rewrite Hw. cbn [w_ch]. destruct (N.eq_dec c c') as [->|Hne]; [|rewrite upd_ch_other by assumption; apply Hnone].
    rewrite upd_ch_same. destruct Hk as [[_ ->] | [_ (data & Hu & Hrp)]]; [apply Hnone|].
    apply on_recv_packet_spec in Hrp. destruct Hrp as (receiver & Hiv & _ & Hrcv & _ & Hbr).
    apply itr_valid_amt in Hiv.
    destruct (has_prefix _ _ _).
    + destruct Hbr as (_ & (Hb & Hsup & _) & _). eexists; (split; [|split; [|split; [exact Hb|exact Hsup]]]); simpl; try lia; auto.
    + destruct Hbr as ((Hb & Hsup & _) & _). eexists; (split; [|split; [|split; [exact Hb|exact Hsup]]]); simpl; try lia.
      eexists. apply ibc_denom_nonnative. discriminate.
  - rewrite Hw. cbn [w_ch]. destruct (N.eq_dec c (ps_src p)) as [->|Hne]; [|rewrite upd_ch_other by assumption; apply Hnone].
    rewrite upd_ch_same. destruct ok; [subst k'; apply Hnone|].
    apply refund_packet_tokens_spec in Hk. destruct Hk as (sender & Hsd & _ & _ & Hbr). cbv zeta in Hbr.
    apply unmarshal_pd_spec in Hu. destruct Hu as (Hv & ->). cbn [it_denom it_amt] in *.
    apply ftpd_valid_spec in Hv. destruct Hv as (Hamt & _).
    destruct (has_prefix _ _ _) eqn:Eu.
    + destruct Hbr as (Hb & Hsup & _). eexists; (split; [|split; [|split; [exact Hb|exact Hsup]]]); simpl; try lia.
      eapply ibc_denom_prefixed; eauto.
    + destruct Hbr as (_ & Hb & Hsup & _). eexists; (split; [|split; [|split; [exact Hb|exact Hsup]]]); simpl; try lia; auto.
  - rewrite Hw. cbn [w_ch]. destruct (N.eq_dec c (ps_src p)) as [->|Hne]; [|rewrite upd_ch_other by assumption; apply Hnone].
    rewrite upd_ch_same.
    apply refund_packet_tokens_spec in Hk. destruct Hk as (sender & Hsd & _ & _ & Hbr). cbv zeta in Hbr.
    apply unmarshal_pd_spec in Hu. destruct Hu as (Hv & ->). cbn [it_denom it_amt] in *.
    apply ftpd_valid_spec in Hv. destruct Hv as (Hamt & _).
    destruct (has_prefix _ _ _) eqn:Eu.
    + destruct Hbr as (Hb & Hsup & _). eexists; (split; [|split; [|split; [exact Hb|exact Hsup]]]); simpl; try lia.
      eapply ibc_denom_prefixed; eauto.
    + destruct Hbr as (_ & Hb & Hsup & _). eexists; (split; [|split; [|split; [exact Hb|exact Hsup]]]); simpl; try lia; auto.
  - rewrite Hw. cbn [w_ch]. destruct (N.eq_dec c c0) as [->|Hne]; [|rewrite upd_ch_other by assumption; apply Hnone].
    rewrite upd_ch_same. unfold msg_send in Hm.
    destruct ((amt <=? 0) || bank_blocked to) eqn:Eg; [discriminate|].
    apply orb_false_iff in Eg. destruct Eg as [Eg _]. apply Z.leb_gt in Eg.
    apply send_coins_spec in Hm. destruct Hm as (_ & Hb & Hsup).
    exists (EMove from to coin amt). simpl. repeat split; auto; try lia. intros. rewrite Hsup. lia.
  - rewrite Hw. cbn [w_ch]. destruct (N.eq_dec c c0) as [->|Hne]; [|rewrite upd_ch_other by assumption; apply Hnone].
    rewrite upd_ch_same. simpl. apply Hnone.
Qed.

(** IBC never changes the supply of a native denomination (unconditionally, also under F5a) *)
Theorem native_supply_step w o c s :
  sup (bank (w_ch (step_w w o) c)) (CNat s) = sup (bank (w_ch w c)) (CNat s).
Proof.
  destruct (step_bank_effect w o c) as (e & Hv & _ & _ & Hs). rewrite Hs.
  destruct e; simpl in *; try lia; destruct Hv as (p & ->); unfold at_coin; simpl; lia.
Qed.

Theorem native_supply_run w ops c s :
  sup (bank (w_ch (run w ops) c)) (CNat s) = sup (bank (w_ch w c)) (CNat s).
Proof.
  revert w. induction ops as [|o ops IH]; intro w; simpl; [reflexivity|]. rewrite IH. apply native_supply_step.
Qed.

(** ** a decidable check of the topology conditions, for concrete configurations *)

Definition pair_eqb (a b : N * bytes) : bool := N.eqb (fst a) (fst b) && bytes_eqb (snd a) (snd b).
Definition peer_is (links : list Link) c ch c' ch' : bool :=
  match peer links c ch with Some q => pair_eqb q (c', ch') | None => false end.
Definition slash_free (s : bytes) : bool := negb (existsb (Ascii.eqb slash) s).

Definition link_ok_b (links : list Link) (l : Link) : bool :=
  negb (N.eqb (la l) (lb l)) &&
  peer_is links (la l) (lca l) (lb l) (lcb l) && peer_is links (lb l) (lcb l) (la l) (lca l) &&
  is_hop_chan (lca l) && is_hop_chan (lcb l) && slash_free (lca l) && slash_free (lcb l).
Definition links_ok_b (links : list Link) : bool := forallb (link_ok_b links) links.

Lemma slash_free_spec s : slash_free s = true -> no_slash s.
Proof.
  unfold slash_free, no_slash. intros H Hin. apply negb_true_iff in H.
  assert (E : existsb (Ascii.eqb slash) s = true).
  { apply existsb_exists. exists slash. split; auto. }
  congruence.
Qed.

Lemma peer_is_spec links c ch c' ch' : peer_is links c ch c' ch' = true -> peer links c ch = Some (c', ch').
Proof.
  unfold peer_is, pair_eqb. destruct (peer links c ch) as [[q1 q2]|]; [|discriminate]. simpl.
  intro H. apply andb_true_iff in H. destruct H as [H1 H2]. apply N.eqb_eq in H1. apply bytes_eqb_eq in H2. now subst.
Qed.

Lemma peer_in links c ch c' ch' :
  peer links c ch = Some (c', ch') ->
  exists l, In l links /\ ((la l = c /\ lca l = ch /\ lb l = c' /\ lcb l = ch') \/
                           (lb l = c /\ lcb l = ch /\ la l = c' /\ lca l = ch')).
Proof.
  induction links as [|l ls IH]; simpl; [discriminate|].
  destruct (N.eqb (la l) c && bytes_eqb (lca l) ch) eqn:E1.
  - intro H. inversion H; subst. apply andb_true_iff in E1. destruct E1 as [A1 A2].
    apply N.eqb_eq in A1. apply bytes_eqb_eq in A2. exists l. split; auto.
  - destruct (N.eqb (lb l) c && bytes_eqb (lcb l) ch) eqn:E2.
    + intro H. inversion H; subst. apply andb_true_iff in E2. destruct E2 as [A1 A2].
      apply N.eqb_eq in A1. apply bytes_eqb_eq in A2. exists l. split; auto.
    + intro H. destruct (IH H) as (l0 & Hin & Hl0). exists l0. split; auto.
Qed.

Lemma links_ok_b_sound links : links_ok_b links = true -> links_ok links.
Proof.
  unfold links_ok_b. rewrite forallb_forall. intro H.
  assert (HL : forall l, In l links ->
     la l <> lb l /\ peer links (la l) (lca l) = Some (lb l, lcb l) /\ peer links (lb l) (lcb l) = Some (la l, lca l) /\
     is_hop_chan (lca l) = true /\ is_hop_chan (lcb l) = true /\ no_slash (lca l) /\ no_slash (lcb l)).
  { intros l Hl. specialize (H l Hl). unfold link_ok_b in H.
    repeat (apply andb_true_iff in H; destruct H as [H ?]).
    apply negb_true_iff in H. apply N.eqb_neq in H.
    repeat split; auto using peer_is_spec, slash_free_spec; try (apply slash_free_spec; assumption). }
  split; [|split].
  - intros c ch c' ch' Hp. destruct (peer_in _ _ _ _ _ Hp) as (l & Hl & [(<- & <- & <- & <-)|(<- & <- & <- & <-)]);
      destruct (HL l Hl) as (_ & H1 & H2 & _); auto.
  - intros c ch Hh. unfold has_chan in Hh. destruct (peer links c ch) as [[c' ch']|] eqn:Hp; [|discriminate].
    destruct (peer_in _ _ _ _ _ Hp) as (l & Hl & [(<- & <- & <- & <-)|(<- & <- & <- & <-)]);
      destruct (HL l Hl) as (_ & _ & _ & H1 & H2 & H3 & H4); auto.
  - intros c ch c' ch' Hp. destruct (peer_in _ _ _ _ _ Hp) as (l & Hl & [(<- & <- & <- & <-)|(<- & <- & <- & <-)]);
      destruct (HL l Hl) as (H1 & _); congruence.
Qed.
