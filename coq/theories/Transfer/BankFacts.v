(** Effects of the bank primitives and of the keeper entry points, pointwise (balances are functions; no
    functional extensionality is used anywhere). *)
From IBC Require Import Lib.Bytes Lib.BytesFacts Transfer.DenomLocal Transfer.Bank Transfer.Keeper.
Local Open Scope Z_scope.

Lemma acct_eqb_eq a b : acct_eqb a b = true <-> a = b.
Proof.
  destruct a, b; simpl; split; intro H; try discriminate; try reflexivity.
  - apply N.eqb_eq in H. now subst.
  - inversion H. apply N.eqb_refl.
  - apply bytes_eqb_eq in H. now subst.
  - inversion H. apply bytes_eqb_refl.
  - apply N.eqb_eq in H. now subst.
  - inversion H. apply N.eqb_refl.
Qed.
Lemma acct_eqb_refl a : acct_eqb a a = true.
Proof. now apply acct_eqb_eq. Qed.
Lemma acct_eqb_neq a b : acct_eqb a b = false <-> a <> b.
Proof.
  split.
  - intros H E. apply acct_eqb_eq in E. congruence.
  - intro H. destruct (acct_eqb a b) eqn:E; auto. apply acct_eqb_eq in E. contradiction.
Qed.
Lemma acct_eqb_sym a b : acct_eqb a b = acct_eqb b a.
Proof.
  destruct (acct_eqb a b) eqn:E.
  - apply acct_eqb_eq in E. subst. symmetry. apply acct_eqb_refl.
  - symmetry. apply acct_eqb_neq. apply acct_eqb_neq in E. congruence.
Qed.

Lemma coin_eqb_eq a b : coin_eqb a b = true <-> a = b.
Proof.
  destruct a, b; simpl; split; intro H; try discriminate.
  - apply bytes_eqb_eq in H. now subst.
  - inversion H. apply bytes_eqb_refl.
  - apply bytes_eqb_eq in H. now subst.
  - inversion H. apply bytes_eqb_refl.
Qed.
Lemma coin_eqb_refl a : coin_eqb a a = true.
Proof. now apply coin_eqb_eq. Qed.
Lemma coin_eqb_neq a b : coin_eqb a b = false <-> a <> b.
Proof.
  split.
  - intros H E. apply coin_eqb_eq in E. congruence.
  - intro H. destruct (coin_eqb a b) eqn:E; auto. apply coin_eqb_eq in E. contradiction.
Qed.
Lemma coin_eqb_sym a b : coin_eqb a b = coin_eqb b a.
Proof.
  destruct (coin_eqb a b) eqn:E.
  - apply coin_eqb_eq in E. subst. symmetry. apply coin_eqb_refl.
  - symmetry. apply coin_eqb_neq. apply coin_eqb_neq in E. congruence.
Qed.

(** indicator of a (account, denomination) cell *)
Definition at_cell (a0 : Acct) (d0 : Coin) (a : Acct) (d : Coin) : Z :=
  if acct_eqb a a0 && coin_eqb d d0 then 1 else 0.
Definition at_coin (d0 d : Coin) : Z := if coin_eqb d d0 then 1 else 0.

Lemma at_cell_range a0 d0 a d : 0 <= at_cell a0 d0 a d <= 1.
Proof. unfold at_cell. destruct (_ && _); lia. Qed.
Lemma at_coin_range d0 d : 0 <= at_coin d0 d <= 1.
Proof. unfold at_coin. destruct (coin_eqb _ _); lia. Qed.
Lemma at_cell_same a d : at_cell a d a d = 1.
Proof. unfold at_cell. now rewrite acct_eqb_refl, coin_eqb_refl. Qed.
Lemma at_cell_coin a0 d0 a d : d <> d0 -> at_cell a0 d0 a d = 0.
Proof. intro H. unfold at_cell. apply coin_eqb_neq in H. rewrite H. now rewrite andb_false_r. Qed.
Lemma at_cell_acct a0 d0 a d : a <> a0 -> at_cell a0 d0 a d = 0.
Proof. intro H. unfold at_cell. apply acct_eqb_neq in H. now rewrite H. Qed.
Lemma at_coin_same d : at_coin d d = 1.
Proof. unfold at_coin. now rewrite coin_eqb_refl. Qed.
Lemma at_coin_other d0 d : d <> d0 -> at_coin d0 d = 0.
Proof. intro H. unfold at_coin. apply coin_eqb_neq in H. now rewrite H. Qed.

(** The effect of one keeper call on the bank: nothing, a move, a mint to an account, a burn from an account. *)
Inductive Eff :=
| ENone
| EMove (from to : Acct) (d : Coin) (amt : Z)
| EMint (to : Acct) (d : Coin) (amt : Z)
| EBurn (from : Acct) (d : Coin) (amt : Z).

Definition eff_bal (e : Eff) (a : Acct) (x : Coin) : Z :=
  match e with
  | ENone => 0
  | EMove from to d amt => amt * at_cell to d a x - amt * at_cell from d a x
  | EMint to d amt => amt * at_cell to d a x
  | EBurn from d amt => - amt * at_cell from d a x
  end.
Definition eff_sup (e : Eff) (x : Coin) : Z :=
  match e with
  | EMint _ d amt => amt * at_coin d x
  | EBurn _ d amt => - amt * at_coin d x
  | _ => 0
  end.

(** [k'] is [k] after bank effect [e] and a total-escrow change of [te] on denomination [td] *)
Definition KStep (k k' : KState) (e : Eff) (td : Coin) (te : Z) : Prop :=
  (forall a x, bal (bank k') a x = bal (bank k) a x + eff_bal e a x) /\
  (forall x, sup (bank k') x = sup (bank k) x + eff_sup e x) /\
  (forall x, tesc k' x = tesc k x + te * at_coin td x) /\
  send_en k' = send_en k /\ recv_en k' = recv_en k.

Lemma KStep_refl k d : KStep k k ENone d 0.
Proof. repeat split; intros; simpl; lia. Qed.

Lemma add_bal_spec f a d x a' d' : add_bal f a d x a' d' = f a' d' + x * at_cell a d a' d'.
Proof. unfold add_bal, at_cell. destruct (_ && _); lia. Qed.
Lemma add_sup_spec f d x d' : add_sup f d x d' = f d' + x * at_coin d d'.
Proof. unfold add_sup, at_coin. destruct (coin_eqb _ _); lia. Qed.

Lemma send_coins_spec b from to d amt b' :
  send_coins b from to d amt = Some b' ->
  amt <= bal b from d /\
  (forall a x, bal b' a x = bal b a x + eff_bal (EMove from to d amt) a x) /\
  (forall x, sup b' x = sup b x).
Proof.
  unfold send_coins. destruct (bal b from d <? amt) eqn:E; [discriminate|].
  intro H. inversion H; subst; clear H. apply Z.ltb_ge in E. simpl.
  split; [exact E|]. split; [|reflexivity].
  intros a x. rewrite !add_bal_spec. lia.
Qed.

Lemma mint_coins_spec b d amt :
  (forall a x, bal (mint_coins b d amt) a x = bal b a x + amt * at_cell ModTransfer d a x) /\
  (forall x, sup (mint_coins b d amt) x = sup b x + amt * at_coin d x).
Proof. unfold mint_coins; simpl. split; intros; [apply add_bal_spec | apply add_sup_spec]. Qed.

Lemma burn_coins_spec b d amt b' :
  burn_coins b d amt = Some b' ->
  amt <= bal b ModTransfer d /\ amt <= sup b d /\
  (forall a x, bal b' a x = bal b a x - amt * at_cell ModTransfer d a x) /\
  (forall x, sup b' x = sup b x - amt * at_coin d x).
Proof.
  unfold burn_coins.
  destruct ((bal b ModTransfer d <? amt) || (sup b d <? amt)) eqn:E; [discriminate|].
  apply orb_false_iff in E. destruct E as [E1 E2]. apply Z.ltb_ge in E1, E2.
  intro H. inversion H; subst; clear H. simpl. repeat split; try assumption.
  - intros. rewrite add_bal_spec. lia.
  - intros. rewrite add_sup_spec. lia.
Qed.

(** ** keeper entry points *)

Lemma set_total_escrow_spec k d v k' :
  set_total_escrow k d v = ROk k' ->
  0 <= v /\ bank k' = bank k /\ dstore k' = dstore k /\ send_en k' = send_en k /\ recv_en k' = recv_en k /\
  (forall x, tesc k' x = tesc k x + (v - tesc k d) * at_coin d x).
Proof.
  unfold set_total_escrow. destruct (v <? 0) eqn:E; [discriminate|]. apply Z.ltb_ge in E.
  intro H. inversion H; subst; clear H. simpl. repeat split; try assumption; try reflexivity.
  intro x. unfold at_coin. destruct (coin_eqb x d) eqn:Ex.
  - apply coin_eqb_eq in Ex. subst. lia.
  - lia.
Qed.

Lemma escrow_coin_spec k sender esc d amt k' :
  escrow_coin k sender esc d amt = ROk k' ->
  amt <= bal (bank k) sender d /\ KStep k k' (EMove sender esc d amt) d amt /\ dstore k' = dstore k.
Proof.
  unfold escrow_coin. destruct (send_coins _ _ _ _ _) as [b|] eqn:Es; [|discriminate].
  intro H. apply set_total_escrow_spec in H. destruct H as (Hv & Hb & Hd & Hs & Hr & Ht).
  apply send_coins_spec in Es. destruct Es as (Hle & Hbal & Hsup). simpl in *.
  split; [exact Hle|]. split; [|exact Hd].
  unfold KStep. rewrite Hb. simpl. repeat split; try assumption.
  - intros. rewrite Hsup. simpl. lia.
  - intros. rewrite Ht. simpl. f_equal. f_equal. lia.
Qed.

Lemma unescrow_coin_spec k esc receiver d amt k' :
  unescrow_coin k esc receiver d amt = ROk k' ->
  amt <= bal (bank k) esc d /\ amt <= tesc k d /\ KStep k k' (EMove esc receiver d amt) d (- amt) /\ dstore k' = dstore k.
Proof.
  unfold unescrow_coin. destruct (send_coins _ _ _ _ _) as [b|] eqn:Es; [|discriminate].
  intro H. apply set_total_escrow_spec in H. destruct H as (Hv & Hb & Hd & Hs & Hr & Ht).
  apply send_coins_spec in Es. destruct Es as (Hle & Hbal & Hsup). simpl in *.
  split; [exact Hle|]. split; [lia|]. split; [|exact Hd].
  unfold KStep. rewrite Hb. simpl. repeat split; try assumption.
  - intros. rewrite Hsup. simpl. lia.
  - intros. rewrite Ht. simpl. f_equal. f_equal. lia.
Qed.

(** SendTransfer: a burn from the sender when the token is prefixed by the sending channel end, else an escrow *)
Lemma send_transfer_spec k port chan tok amt sender k' :
  send_transfer k port chan tok amt sender = ROk k' ->
  send_en k = true /\ blocked sender = false /\ amt <= bal (bank k) sender (ibc_denom tok) /\
  dstore k' = dstore k /\
  (if has_prefix tok port chan
   then KStep k k' (EBurn sender (ibc_denom tok) amt) (ibc_denom tok) 0
   else KStep k k' (EMove sender (Escrow chan) (ibc_denom tok) amt) (ibc_denom tok) amt).
Proof.
  unfold send_transfer.
  destruct (send_en k) eqn:Hs; simpl; [|discriminate].
  destruct (blocked sender) eqn:Hb; [discriminate|].
  destruct (has_prefix tok port chan) eqn:Hp.
  - destruct (send_coins _ _ _ _ _) as [b|] eqn:E1; [|discriminate].
    destruct (burn_coins _ _ _) as [b'|] eqn:E2; [|discriminate].
    intro H. inversion H; subst; clear H.
    apply send_coins_spec in E1. destruct E1 as (Hle & Hbal & Hsup).
    apply burn_coins_spec in E2. destruct E2 as (_ & _ & Hbal2 & Hsup2).
    repeat split; simpl; try assumption; try reflexivity.
    + intros. rewrite Hbal2, Hbal. simpl. lia.
    + intros. rewrite Hsup2, Hsup. lia.
    + intros. lia.
  - intro H. apply escrow_coin_spec in H. destruct H as (Hle & HK & Hd).
    repeat split; try assumption; apply HK.
Qed.

Lemma on_recv_packet_spec k data sp sc dp dc k' :
  on_recv_packet k data sp sc dp dc = ROk k' ->
  exists receiver,
    itr_valid data = true /\ recv_en k = true /\ it_receiver data = AOk receiver /\ blocked receiver = false /\
    (if has_prefix (it_denom data) sp sc
     then let d := ibc_denom (mkDenom (tl (dtrace (it_denom data))) (dbase (it_denom data))) in
          it_amt data <= bal (bank k) (Escrow dc) d /\
          KStep k k' (EMove (Escrow dc) receiver d (it_amt data)) d (- it_amt data) /\ dstore k' = dstore k
     else let tok' := mkDenom (mkHop dp dc :: dtrace (it_denom data)) (dbase (it_denom data)) in
          KStep k k' (EMint receiver (ibc_denom tok') (it_amt data)) (ibc_denom tok') 0 /\
          (dstore k' = dstore k \/ dstore k' = (path tok', tok') :: dstore k)).
Proof.
  unfold on_recv_packet.
  destruct (itr_valid data) eqn:Hv; simpl; [|discriminate].
  destruct (recv_en k) eqn:Hr; simpl; [|discriminate].
  destruct (it_receiver data) as [receiver| |] eqn:Ha; simpl; try discriminate.
  destruct (blocked receiver) eqn:Hb; [discriminate|].
  intro H. exists receiver. repeat split; try reflexivity; try assumption.
  destruct (has_prefix (it_denom data) sp sc) eqn:Hp.
  - apply unescrow_coin_spec in H. destruct H as (H1 & _ & H2 & H3). cbv zeta. auto.
  - cbv zeta in *.
    set (tok' := mkDenom (mkHop dp dc :: dtrace (it_denom data)) (dbase (it_denom data))) in *.
    set (k1 := match dlookup (dstore k) (path tok') with Some _ => k | None => set_dstore k ((path tok', tok') :: dstore k) end) in *.
    assert (Hk1 : bank k1 = bank k /\ tesc k1 = tesc k /\ send_en k1 = send_en k /\ recv_en k1 = recv_en k /\
                  (dstore k1 = dstore k \/ dstore k1 = (path tok', tok') :: dstore k)).
    { unfold k1. destruct (dlookup _ _); simpl; auto 10. }
    destruct Hk1 as (Hb1 & Ht1 & Hs1 & Hr1 & Hd1).
    destruct (send_coins _ _ _ _ _) as [b2|] eqn:E; [|discriminate].
    inversion H; subst; clear H.
    apply send_coins_spec in E. destruct E as (_ & Hbal & Hsup).
    destruct (mint_coins_spec (bank k1) (ibc_denom tok') (it_amt data)) as (Hm1 & Hm2).
    split.
    + unfold KStep. simpl. rewrite Ht1, Hs1, Hr1. repeat split; try reflexivity.
      * intros. rewrite Hbal, Hm1, Hb1. simpl. lia.
      * intros. rewrite Hsup, Hm2, Hb1. reflexivity.
      * intros. lia.
    + simpl. exact Hd1.
Qed.

Lemma refund_packet_tokens_spec k sp sc data k' :
  refund_packet_tokens k sp sc data = ROk k' ->
  exists sender,
    it_sender data = AOk sender /\ blocked sender = false /\ dstore k' = dstore k /\
    let d := ibc_denom (it_denom data) in
    if has_prefix (it_denom data) sp sc
    then KStep k k' (EMint sender d (it_amt data)) d 0
    else it_amt data <= bal (bank k) (Escrow sc) d /\
         KStep k k' (EMove (Escrow sc) sender d (it_amt data)) d (- it_amt data).
Proof.
  unfold refund_packet_tokens.
  destruct (it_sender data) as [sender| |] eqn:Ha; simpl; try discriminate.
  destruct (blocked sender) eqn:Hb; [discriminate|].
  intro H. exists sender. split; [reflexivity|]. split; [assumption|].
  destruct (has_prefix (it_denom data) sp sc) eqn:Hp.
  - destruct (send_coins _ _ _ _ _) as [b2|] eqn:E; [|discriminate].
    inversion H; subst; clear H.
    apply send_coins_spec in E. destruct E as (_ & Hbal & Hsup).
    destruct (mint_coins_spec (bank k) (ibc_denom (it_denom data)) (it_amt data)) as (Hm1 & Hm2).
    split; [reflexivity|]. cbv zeta. unfold KStep. simpl. repeat split; try reflexivity.
    + intros. rewrite Hbal, Hm1. simpl. lia.
    + intros. rewrite Hsup, Hm2. reflexivity.
    + intros. lia.
  - apply unescrow_coin_spec in H. destruct H as (H1 & _ & H2 & H3). cbv zeta. auto.
Qed.
