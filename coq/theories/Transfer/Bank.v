(** x/bank as the ICS-20 keeper uses it (cosmos-sdk x/bank/keeper: SendCoins, SendCoinsFromAccountToModule,
    MintCoins, BurnCoins, MsgSend).  Modelled, not verified (DESIGN §6): balances and supply are total maps,
    a send fails for insufficient funds, MsgSend refuses blocked recipients.  Definitions only. *)
From IBC Require Import Lib.Bytes Transfer.DenomLocal.
Local Open Scope Z_scope.

(** Accounts are structural: a user key, the escrow account of a (transfer, channel) pair
    (types/keys.go:GetEscrowAddress — address injectivity is property C34), the transfer module account,
    another module account that the bank keeper blocks. *)
Inductive Acct := User (n : N) | Escrow (ch : bytes) | ModTransfer | ModBlocked (n : N).

Definition acct_eqb (a b : Acct) : bool :=
  match a, b with
  | User x, User y => N.eqb x y
  | Escrow x, Escrow y => bytes_eqb x y
  | ModTransfer, ModTransfer => true
  | ModBlocked x, ModBlocked y => N.eqb x y
  | _, _ => false
  end.

(** simapp.BlockedAddresses: module accounts; transfer's keeper.IsBlockedAddr exempts its own module account *)
Definition blocked (a : Acct) : bool := match a with ModBlocked _ => true | _ => false end.
(** the bank keeper's own list also contains the transfer module account (MsgSend to it is refused) *)
Definition bank_blocked (a : Acct) : bool := match a with ModBlocked _ | ModTransfer => true | _ => false end.

Record Bank := mkBank { bal : Acct -> Coin -> Z; sup : Coin -> Z }.

Definition add_bal (f : Acct -> Coin -> Z) (a : Acct) (d : Coin) (x : Z) : Acct -> Coin -> Z :=
  fun a' d' => if acct_eqb a' a && coin_eqb d' d then f a' d' + x else f a' d'.
Definition add_sup (f : Coin -> Z) (d : Coin) (x : Z) : Coin -> Z :=
  fun d' => if coin_eqb d' d then f d' + x else f d'.

(** SendCoins: subUnlockedCoins(from) (insufficient funds -> error) then addCoins(to) *)
Definition send_coins (b : Bank) (from to : Acct) (d : Coin) (amt : Z) : option Bank :=
  if bal b from d <? amt then None
  else Some (mkBank (add_bal (add_bal (bal b) from d (- amt)) to d amt) (sup b)).

(** MintCoins(transfer module): module balance and supply go up *)
Definition mint_coins (b : Bank) (d : Coin) (amt : Z) : Bank :=
  mkBank (add_bal (bal b) ModTransfer d amt) (add_sup (sup b) d amt).

(** BurnCoins(transfer module): subUnlockedCoins(module) (insufficient funds -> error), then
    supply.Sub(amount) (sdk.Coin.Sub panics on a negative result; both are reported as failure here) *)
Definition burn_coins (b : Bank) (d : Coin) (amt : Z) : option Bank :=
  if (bal b ModTransfer d <? amt) || (sup b d <? amt) then None
  else Some (mkBank (add_bal (bal b) ModTransfer d (- amt)) (add_sup (sup b) d (- amt))).

(** x/bank MsgSend handler: recipient must not be blocked, amount positive (ValidateBasic), then SendCoins *)
Definition msg_send (b : Bank) (from to : Acct) (d : Coin) (amt : Z) : option Bank :=
  if (amt <=? 0) || bank_blocked to then None else send_coins b from to d amt.
