(** C49: debits of user accounts happen only in steps authorized by that account; relays credit only the
    packet's receiver (receive) or its sender (refund), whoever relays. *)
From IBC Require Import Lib.Bytes Lib.BytesFacts Transfer.DenomLocal Transfer.Bank Transfer.Keeper Transfer.World
  Transfer.BankFacts Transfer.DenomFacts Transfer.WorldFacts.
Local Open Scope Z_scope.

Lemma upd_ch_same f c k : upd_ch f c k c = k.
Proof. unfold upd_ch. now rewrite N.eqb_refl. Qed.
Lemma upd_ch_other f c k c' : c' <> c -> upd_ch f c k c' = f c'.
Proof. unfold upd_ch. intro H. apply N.eqb_neq in H. now rewrite H. Qed.

Lemma at_cell_nonzero a0 d0 a x : at_cell a0 d0 a x <> 0 -> a = a0 /\ x = d0.
Proof.
  unfold at_cell. destruct (acct_eqb a a0) eqn:Ea; destruct (coin_eqb x d0) eqn:Ed; simpl; try congruence.
  intros _. apply acct_eqb_eq in Ea. apply coin_eqb_eq in Ed. auto.
Qed.

(** the account a positive-amount effect takes from / gives to *)
Definition eff_from (e : Eff) : option Acct :=
  match e with EMove from _ _ _ => Some from | EBurn from _ _ => Some from | _ => None end.
Definition eff_to (e : Eff) : option Acct :=
  match e with EMove _ to _ _ => Some to | EMint to _ _ => Some to | _ => None end.
Definition eff_amt (e : Eff) : Z :=
  match e with ENone => 0 | EMove _ _ _ a => a | EMint _ _ a => a | EBurn _ _ a => a end.

Lemma eff_neg e a x : 0 <= eff_amt e -> eff_bal e a x < 0 -> eff_from e = Some a.
Proof.
  destruct e; simpl; intros Hp H; try lia.
  - pose proof (at_cell_range to d a x). pose proof (at_cell_range from d a x).
    destruct (Z.eq_dec (at_cell from d a x) 0) as [E|E]; [nia|].
    apply at_cell_nonzero in E. destruct E; subst. reflexivity.
  - pose proof (at_cell_range to d a x). nia.
  - destruct (Z.eq_dec (at_cell from d a x) 0) as [E|E]; [nia|].
    apply at_cell_nonzero in E. destruct E; subst. reflexivity.
Qed.

Lemma eff_pos e a x : 0 <= eff_amt e -> 0 < eff_bal e a x -> eff_to e = Some a.
Proof.
  destruct e; simpl; intros Hp H; try lia.
  - pose proof (at_cell_range to d a x). pose proof (at_cell_range from d a x).
    destruct (Z.eq_dec (at_cell to d a x) 0) as [E|E]; [nia|].
    apply at_cell_nonzero in E. destruct E; subst. reflexivity.
  - destruct (Z.eq_dec (at_cell to d a x) 0) as [E|E]; [nia|].
    apply at_cell_nonzero in E. destruct E; subst. reflexivity.
  - pose proof (at_cell_range from d a x). nia.
Qed.

Lemma itr_valid_amt d : itr_valid d = true -> 0 < it_amt d.
Proof. unfold itr_valid. intro H. apply andb_true_iff in H. destruct H as [_ H]. now apply Z.ltb_lt. Qed.

(** bank-level change of one chain in one step: described by one effect with non-negative amount *)
Lemma step_chain_effect w o c :
  (forall a x, bal (bank (w_ch (step_w w o) c)) a x = bal (bank (w_ch w c)) a x) \/
  exists e, 0 <= eff_amt e /\
    (forall a x, bal (bank (w_ch (step_w w o) c)) a x = bal (bank (w_ch w c)) a x + eff_bal e a x) /\
    (forall a, eff_from e = Some a -> is_user a = true -> authorizes o c a) /\
    (forall a, eff_to e = Some a ->
       match o with
       | ORecv n _ _ => exists p c' ch', nth_error (w_pk w) n = Some p /\ pd_receiver (ps_data p) = AOk a /\
                                         peer (w_links w) (ps_src p) (ps_chan p) = Some (c', ch') /\ c' = c
       | OAck n _ | OTimeout n _ _ => exists p, nth_error (w_pk w) n = Some p /\ pd_sender (ps_data p) = AOk a /\ ps_src p = c
       | _ => True
       end).
Proof.
  destruct (step_trans w o) as
    [Hs | c0 chan pd v2 tok snd k' Ho Hau Hus Hhc Hv Hsnd Hpath Htok Hst Hw
        | n relayer p c' ch' k' ok Ho Hn Hr Hc Hp Hk Hw
        | n relayer p ok data k' Ho Hn Hr Hc Hu Hk Hw
        | n relayer p data k' Ho Hn Hr Hc Hu Hk Hw
        | c0 from to coin amt b Ho Hus Hm Hw
        | c0 s r Ho Hw].
  - left. rewrite Hs. auto.
  - rewrite Hw. cbn [w_ch]. destruct (N.eq_dec c c0) as [->|Hne].
    + rewrite upd_ch_same. right.
      apply send_transfer_spec in Hst. destruct Hst as (_ & _ & _ & _ & HK).
      apply ftpd_valid_spec in Hv. destruct Hv as (Hamt & _).
      destruct (has_prefix tok transfer_port chan).
      * exists (EBurn snd (ibc_denom tok) (pd_amt pd)). destruct HK as (HK & _).
        split; [simpl; lia|]. split; [exact HK|]. split.
        -- simpl. intros a Ha _. inversion Ha; subst. exact Hau.
        -- simpl. discriminate.
      * exists (EMove snd (Escrow chan) (ibc_denom tok) (pd_amt pd)). destruct HK as (HK & _).
        split; [simpl; lia|]. split; [exact HK|]. split.
        -- simpl. intros a Ha _. inversion Ha; subst. exact Hau.
        -- intros a _. destruct o; auto; simpl in Ho; contradiction.
    + left. intros. now rewrite upd_ch_other.
  - rewrite Hw. cbn [w_ch]. destruct (N.eq_dec c c') as [->|Hne].
    + rewrite upd_ch_same. destruct Hk as [[_ ->] | [_ (data & Hu & Hrp)]]; [left; auto|].
      right. apply on_recv_packet_spec in Hrp. destruct Hrp as (receiver & Hiv & _ & Hrcv & _ & Hbr).
      apply unmarshal_pd_spec in Hu. destruct Hu as (_ & ->). simpl in *.
      apply itr_valid_amt in Hiv. simpl in Hiv.
      destruct (has_prefix _ _ _).
      * destruct Hbr as (_ & (HK & _) & _).
        eexists. split; [|split; [exact HK|]]; [simpl; lia|]. split.
        -- simpl. intros a Ha Hua. inversion Ha; subst. discriminate.
        -- subst o. simpl. intros a Ha. inversion Ha; subst. exists p, c', ch'. auto.
      * destruct Hbr as ((HK & _) & _).
        eexists. split; [|split; [exact HK|]]; [simpl; lia|]. split.
        -- simpl. discriminate.
        -- subst o. simpl. intros a Ha. inversion Ha; subst. exists p, c', ch'. auto.
    + left. intros. now rewrite upd_ch_other.
  - rewrite Hw. cbn [w_ch]. destruct (N.eq_dec c (ps_src p)) as [->|Hne].
    + rewrite upd_ch_same. destruct ok; [subst k'; left; auto|].
      right. apply refund_packet_tokens_spec in Hk. destruct Hk as (sender & Hsd & _ & _ & Hbr).
      pose proof Hu as Hu'. apply unmarshal_pd_spec in Hu. destruct Hu as (Hv & ->). simpl in *.
      apply ftpd_valid_spec in Hv. destruct Hv as (Hamt & _).
      destruct (has_prefix _ _ _).
      * destruct Hbr as (HK & _).
        eexists. split; [|split; [exact HK|]]; [simpl; lia|]. split.
        -- simpl. discriminate.
        -- subst o. simpl. intros a Ha. inversion Ha; subst. exists p. auto.
      * destruct Hbr as (_ & HK & _).
        eexists. split; [|split; [exact HK|]]; [simpl; lia|]. split.
        -- simpl. intros a Ha Hua. inversion Ha; subst. discriminate.
        -- subst o. simpl. intros a Ha. inversion Ha; subst. exists p. auto.
    + left. intros. now rewrite upd_ch_other.
  - rewrite Hw. cbn [w_ch]. destruct (N.eq_dec c (ps_src p)) as [->|Hne].
    + rewrite upd_ch_same.
      right. apply refund_packet_tokens_spec in Hk. destruct Hk as (sender & Hsd & _ & _ & Hbr).
      pose proof Hu as Hu'. apply unmarshal_pd_spec in Hu. destruct Hu as (Hv & ->). simpl in *.
      apply ftpd_valid_spec in Hv. destruct Hv as (Hamt & _).
      destruct (has_prefix _ _ _).
      * destruct Hbr as (HK & _).
        eexists. split; [|split; [exact HK|]]; [simpl; lia|]. split.
        -- simpl. discriminate.
        -- subst o. simpl. intros a Ha. inversion Ha; subst. exists p. auto.
      * destruct Hbr as (_ & HK & _).
        eexists. split; [|split; [exact HK|]]; [simpl; lia|]. split.
        -- simpl. intros a Ha Hua. inversion Ha; subst. discriminate.
        -- subst o. simpl. intros a Ha. inversion Ha; subst. exists p. auto.
    + left. intros. now rewrite upd_ch_other.
  - rewrite Hw. cbn [w_ch]. destruct (N.eq_dec c c0) as [->|Hne].
    + rewrite upd_ch_same. right. unfold msg_send in Hm.
      destruct ((amt <=? 0) || bank_blocked to) eqn:Eg; [discriminate|].
      apply orb_false_iff in Eg. destruct Eg as [Eg _]. apply Z.leb_gt in Eg.
      apply send_coins_spec in Hm. destruct Hm as (_ & Hb & _).
      exists (EMove from to coin amt). split; [simpl; lia|]. split; [exact Hb|]. split.
      * subst o. simpl. intros a Ha _. inversion Ha; subst. auto.
      * subst o. simpl. auto.
    + left. intros. now rewrite upd_ch_other.
  - rewrite Hw. cbn [w_ch]. destruct (N.eq_dec c c0) as [->|Hne].
    + rewrite upd_ch_same. left. reflexivity.
    + left. intros. now rewrite upd_ch_other.
Qed.

(** C49, debits: a user account's balance goes down only in a step that account authorized *)
Theorem debit_authorized w o c n x :
  bal (bank (w_ch (step_w w o) c)) (User n) x < bal (bank (w_ch w c)) (User n) x ->
  authorizes o c (User n).
Proof.
  intro H. destruct (step_chain_effect w o c) as [Hs | (e & Hp & Hb & Hf & _)].
  - rewrite Hs in H. lia.
  - rewrite Hb in H. apply Hf; [|reflexivity]. apply (eff_neg e _ x); [exact Hp|lia].
Qed.

(** C49, credits: a receive credits only the packet's receiver on the destination chain; an acknowledgement or
    timeout credits only the packet's sender on the source chain (any account kind, any relayer) *)
Theorem relay_credits w o c a x :
  bal (bank (w_ch w c)) a x < bal (bank (w_ch (step_w w o) c)) a x ->
  match o with
  | ORecv n _ _ => exists p c' ch', nth_error (w_pk w) n = Some p /\ pd_receiver (ps_data p) = AOk a /\
                                    peer (w_links w) (ps_src p) (ps_chan p) = Some (c', ch') /\ c' = c
  | OAck n _ | OTimeout n _ _ => exists p, nth_error (w_pk w) n = Some p /\ pd_sender (ps_data p) = AOk a /\ ps_src p = c
  | _ => True
  end.
Proof.
  intro H. destruct (step_chain_effect w o c) as [Hs | (e & Hp & Hb & _ & Ht)].
  - rewrite Hs in H. lia.
  - rewrite Hb in H. apply Ht. apply (eff_pos e _ x); [exact Hp|lia].
Qed.

(** the relayer argument of receive / acknowledgement / timeout is irrelevant *)
Theorem relayer_irrelevant w :
  (forall n r1 r2 el, step w (ORecv n r1 el) = step w (ORecv n r2 el)) /\
  (forall n r1 r2, step w (OAck n r1) = step w (OAck n r2)) /\
  (forall n r1 r2 el, step w (OTimeout n r1 el) = step w (OTimeout n r2 el)).
Proof.
  repeat split; intros; unfold step;
    destruct (nth_error (w_pk w) n) as [p|]; try reflexivity;
    destruct (ps_recv p); try reflexivity;
    destruct (ps_v2 p); reflexivity.
Qed.
