(** A concrete three-chain world (the topology of the `ics20` harness), used for the non-vacuity examples and
    for the F5a witnesses. *)
From IBC Require Import Lib.Bytes Lib.BytesFacts Transfer.DenomLocal Transfer.Bank Transfer.Keeper Transfer.World
  Transfer.BankFacts Transfer.DenomFacts Transfer.WorldFacts Transfer.AuthFacts Transfer.EscrowFacts
  Transfer.ConserveFacts Transfer.RefundFacts.
Local Open Scope Z_scope.

Definition ex_links : list Link :=
  [ mkLink 0 (B "channel-1") 1 (B "channel-2");
    mkLink 1 (B "channel-3") 2 (B "channel-4");
    mkLink 2 (B "channel-5") 0 (B "channel-6") ].

(** user u lives on chain u/4 and owns 1000 of every native denomination there; nothing else exists *)
Definition ex_chain (c : N) : KState :=
  mkK (mkBank (fun a d => match a, d with
                          | User u, CNat _ => if N.eqb (u / 4) c then 1000 else 0
                          | _, _ => 0
                          end)
              (fun d => match d with CNat _ => 4000 | CIbc _ => 0 end))
      (fun _ => 0) [] true true.

Definition ex_world : World := mkW ex_links ex_chain [].

Lemma ex_links_ok : links_ok ex_links.
Proof. apply links_ok_b_sound. vm_compute. reflexivity. Qed.

Lemma ex_fresh : Fresh ex_world.
Proof.
  unfold Fresh, ex_world, ex_chain. simpl. repeat split; auto.
  intros c a x. destruct a; try lia. destruct x; try lia. destruct (N.eqb _ _); lia.
Qed.

Lemma ex_good : Good ex_world.
Proof. apply fresh_good; [exact ex_links_ok|exact ex_fresh]. Qed.

Lemma ex_chans_ok : chans_ok ex_links 0%N [B "channel-1"; B "channel-6"].
Proof.
  split.
  - repeat constructor; simpl; intuition discriminate.
  - intros ch H. unfold has_chan in H. destruct (peer ex_links 0 ch) as [[c' ch']|] eqn:Hp; [|discriminate].
    destruct (peer_in _ _ _ _ _ Hp) as (l & Hl & Hcase). simpl in Hl.
    destruct Hl as [<-|[<-|[<-|[]]]]; simpl in Hcase;
      destruct Hcase as [(H1 & H2 & _)|(H1 & H2 & _)]; try discriminate; subst; simpl; auto.
Qed.

(** the hop-shaped native denomination of finding F5a and a safe history around it *)
Definition f5a_name : bytes := B "transfer/channel-1/stake".
Definition u0 : Acct := User 0.
Definition u5 : Acct := User 5.

Definition send_uatom : Op := OTransfer 0 u0 false (B "channel-1") (CNat (B "uatom")) 100 (AOk u0) (AOk u5) false.
Definition send_f5a : Op := OTransfer 0 u0 false (B "channel-1") (CNat f5a_name) 100 (AOk u0) (AOk u5) false.

(** a safe multi-hop history: 0 -> 1 (received), forwarded 1 -> 2 by alias, an error-acked send, a timeout *)
Definition ex_ops : list Op :=
  [ send_uatom; ORecv 0 (User 7) false; OAck 0 (User 3);
    OTransfer 1 u5 false (B "channel-3") (CIbc (B "transfer/channel-2/uatom")) 40 (AOk u5) (AOk (User 9)) true;
    ORecv 1 (User 11) false;
    OTransfer 2 (User 9) false (B "channel-4") (CIbc (B "transfer/channel-4/transfer/channel-2/uatom")) 15 (AOk (User 9)) (AOk u5) false;
    OSetParams 1 true false; ORecv 2 (User 7) false; OAck 2 (User 11);
    send_uatom; OTimeout 3 (User 3) true ].

Lemma ex_ops_ok : ok_ops ex_world ex_ops.
Proof. vm_compute. repeat split; auto; intros p a H1 H2; inversion H1; subst; inversion H2; subst; exact Logic.I. Qed.

(** F5a: send the hop-shaped native over the channel it names, then time the packet out *)
Definition f5a_ops : list Op := [ send_f5a; OTimeout 0 (User 3) true ].

Lemma f5a_breaks_conservation : ~ Conserve (run ex_world f5a_ops).
Proof.
  intro HC.
  specialize (HC 1%N (B "channel-2") 0%N (B "channel-1") (CNat (B "stake")) eq_refl eq_refl).
  vm_compute in HC. discriminate.
Qed.

Lemma f5a_refund_not_exact :
  let w1 := step_w ex_world send_f5a in
  let w2 := step_w w1 (OTimeout 0 (User 3) true) in
  w2 <> w1 /\
  bal (bank (w_ch ex_world 0%N)) u0 (CNat f5a_name) = 1000 /\
  bal (bank (w_ch w1 0%N)) u0 (CNat f5a_name) = 900 /\
  bal (bank (w_ch w1 0%N)) (Escrow (B "channel-1")) (CNat f5a_name) = 100 /\
  (* after the timeout was processed: *)
  bal (bank (w_ch w2 0%N)) u0 (CNat f5a_name) = 900 /\
  bal (bank (w_ch w2 0%N)) (Escrow (B "channel-1")) (CNat f5a_name) = 100 /\
  bal (bank (w_ch w2 0%N)) u0 (CIbc f5a_name) = 100 /\
  sup (bank (w_ch w2 0%N)) (CIbc f5a_name) = 100 /\
  tesc (w_ch w2 0%N) (CNat f5a_name) = 100.
Proof.
  cbv zeta. split.
  - intro H. apply (f_equal (fun w => map ps_committed (w_pk w))) in H. vm_compute in H. discriminate.
  - vm_compute. repeat split; reflexivity.
Qed.
